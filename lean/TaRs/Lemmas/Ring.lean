/-
  Ring-buffer library (hand-written, core Lean only, NO arithmetic: valid for any element
  type).  All windowed indicators of ta-rs use the same layout: a boxed slice `d` of length
  `n` pre-filled with `init`, a write cursor `i` that wraps, and (most of them) a counter `c`
  saturating at `n`.  `RingInv` ties that layout to the HISTORY `h` of pushed values (oldest
  first): the chronological window is exactly the last `min t n` pushed values.
-/
namespace TaRs

/-- the last `n` elements of a history (all of it while shorter than `n`) -/
def lastN {α : Type} (n : Nat) (h : List α) : List α := h.drop (h.length - n)

theorem lastN_length {α : Type} (n : Nat) (h : List α) : (lastN n h).length = min h.length n := by
  simp [lastN]; omega

theorem lastN_of_le {α : Type} (n : Nat) (h : List α) (hl : h.length ≤ n) : lastN n h = h := by
  simp [lastN, Nat.sub_eq_zero_of_le hl]

theorem lastN_append_one {α : Type} (n : Nat) (h : List α) (x : α) (hn : 0 < n) (hl : n ≤ h.length) :
    lastN n (h ++ [x]) = (lastN n h).tail ++ [x] := by
  unfold lastN
  have e1 : (h ++ [x]).length - n = (h.length - n) + 1 := by simp; omega
  rw [e1, List.drop_append_of_le_length (by omega)]
  congr 1
  rw [← List.drop_one, List.drop_drop]

/-- suffix property: `lastN` only depends on the last `n` elements -/
theorem lastN_append {α : Type} (n : Nat) (p h : List α) (hl : n ≤ h.length) : lastN n (p ++ h) = lastN n h := by
  unfold lastN
  have : (p ++ h).length - n = p.length + (h.length - n) := by simp; omega
  rw [this, ← List.drop_drop, List.drop_left]

theorem take_set_succ {α : Type} {l : List α} {n i : Nat} {x : α} (hl : l.length = n) (hi : i < n) :
    (l.set i x).take (i + 1) = l.take i ++ [x] := by
  subst hl
  apply List.ext_getElem
  · simp; omega
  · intro k h1 h2
    simp only [List.length_take, List.length_set] at h1
    by_cases hk : k = i
    · subst hk
      rw [List.getElem_take, List.getElem_set_self, List.getElem_append_right (by simp; omega)]
      simp
    · rw [List.getElem_take, List.getElem_set_ne (by omega), List.getElem_append_left (by simp; omega)]
      simp

structure RingInv {α : Type} (init : α) (d : Array α) (n i c : Nat) (h : List α) : Prop where
  npos : 0 < n
  size : d.size = n
  idx : i = h.length % n
  cnt : c = min h.length n
  /-- warming up: the slots hold the history in order, then untouched `init` slots -/
  partial_ : h.length < n → d.toList = h ++ List.replicate (n - h.length) init
  /-- full: reading from the cursor round the ring gives the last `n` values, oldest first -/
  full : n ≤ h.length → d.toList.drop i ++ d.toList.take i = lastN n h

namespace RingInv
variable {α : Type} {init : α} {d : Array α} {n i c : Nat} {h : List α}

theorem fresh (init : α) (n : Nat) (hn : 0 < n) : RingInv init (Array.replicate n init) n 0 0 [] :=
  ⟨hn, by simp, by simp, by simp, by intro _; simp, by intro h; simp at h; omega⟩

theorem idx_lt (r : RingInv init d n i c h) : i < n := by
  rw [r.idx]; exact Nat.mod_lt _ r.npos

theorem cnt_le (r : RingInv init d n i c h) : c ≤ n := by
  rw [r.cnt]; omega

theorem idx_eq_cnt_of_partial (r : RingInv init d n i c h) (hl : h.length < n) : i = h.length ∧ c = h.length := by
  refine ⟨by rw [r.idx, Nat.mod_eq_of_lt hl], by rw [r.cnt]; omega⟩

/-- the slot under the cursor: `init` while warming up, afterwards the OLDEST value of the window -/
theorem at_cursor (r : RingInv init d n i c h) :
    d[i]? = if h.length < n then some init else h[h.length - n]? := by
  have hi := r.idx_lt
  have hsz := r.size
  have hn := r.npos
  by_cases hl : h.length < n
  · simp only [hl, if_true]
    have hi2 := (r.idx_eq_cnt_of_partial hl).1
    have e := r.partial_ hl
    rw [← Array.getElem?_toList, e, List.getElem?_append_right (by omega)]
    simp only [hi2, Nat.sub_self]
    rw [List.getElem?_replicate]
    simp; omega
  · simp only [hl, if_false]
    have e := r.full (by omega)
    have h0 : (d.toList.drop i ++ d.toList.take i)[0]? = d[i]? := by
      rw [List.getElem?_append_left (by simp; omega)]
      simp
    rw [← h0, e, lastN]
    simp

/-- pushing `x` at the cursor (and advancing cursor and counter as the code does) re-establishes
    the invariant for the extended history -/
theorem push (r : RingInv init d n i c h) (x : α) :
    RingInv init (d.setIfInBounds i x) n (if i + 1 < n then i + 1 else 0) (if c < n then c + 1 else c) (h ++ [x]) := by
  have hi := r.idx_lt
  have hsz := r.size
  have hn := r.npos
  refine ⟨hn, by simp [hsz], ?_, ?_, ?_, ?_⟩
  · -- cursor
    simp only [List.length_append, List.length_singleton]
    rw [r.idx] at hi ⊢
    by_cases hw : h.length % n + 1 < n
    · simp only [hw, if_true]
      rw [Nat.add_mod]
      have : 1 % n = 1 := Nat.mod_eq_of_lt (by omega)
      rw [this, Nat.mod_eq_of_lt hw]
    · simp only [hw, if_false]
      have e : h.length % n + 1 = n := by omega
      rw [Nat.add_mod]
      by_cases h1 : n = 1
      · subst h1; omega
      · have : 1 % n = 1 := Nat.mod_eq_of_lt (by omega)
        rw [this, e, Nat.mod_self]
  · -- counter
    simp only [List.length_append, List.length_singleton]
    rw [r.cnt]
    by_cases hc : min h.length n < n
    · simp only [hc, if_true]; omega
    · simp only [hc, if_false]; omega
  · -- still warming up afterwards
    intro hl
    simp only [List.length_append, List.length_singleton] at hl
    have hl' : h.length < n := by omega
    have hi2 := (r.idx_eq_cnt_of_partial hl').1
    have e := r.partial_ hl'
    simp only [Array.toList_setIfInBounds, e, hi2]
    rw [List.set_append_right _ _ (by omega)]
    simp only [Nat.sub_self, List.length_append, List.length_singleton, List.append_assoc]
    congr 1
    have : n - h.length = (n - (h.length + 1)) + 1 := by omega
    rw [this, List.replicate_succ, List.set_cons_zero]
    rfl
  · -- full afterwards
    intro hl
    simp only [List.length_append, List.length_singleton] at hl
    have hdl : d.toList.length = n := by simp [hsz]
    by_cases hfull : n ≤ h.length
    · -- was already full: rotate
      have e := r.full hfull
      rw [lastN_append_one n h x hn hfull, ← e]
      simp only [Array.toList_setIfInBounds]
      by_cases hw : i + 1 < n
      · simp only [hw, if_true]
        rw [List.drop_set_of_lt (by omega), take_set_succ hdl hi]
        rw [List.tail_append_of_ne_nil (by
          intro hnil
          have := congrArg List.length hnil
          simp at this; omega)]
        rw [List.tail_drop]
        simp [List.append_assoc]
      · simp only [hw, if_false, List.drop_zero, List.take_zero, List.append_nil]
        have hin : i = n - 1 := by omega
        -- d.set (n-1) x = d.take (n-1) ++ [x]
        have hs : d.toList.set i x = d.toList.take i ++ [x] := by
          apply List.ext_getElem
          · simp; omega
          · intro k h1 h2
            simp only [List.length_set] at h1
            by_cases hk : k = i
            · subst hk
              rw [List.getElem_set_self, List.getElem_append_right (by simp; omega)]
              simp
            · rw [List.getElem_set_ne (by omega), List.getElem_append_left (by simp; omega)]
              simp
        rw [hs]
        have hd1 : (d.toList.drop i).length = 1 := by simp; omega
        rw [List.tail_append_of_ne_nil (by
          intro hnil
          have := congrArg List.length hnil
          simp at this; omega)]
        have : (d.toList.drop i).tail = [] := by
          rw [List.tail_drop]
          apply List.drop_of_length_le; omega
        rw [this, List.nil_append]
    · -- becomes full with this push: h.length + 1 = n
      have hl' : h.length < n := by omega
      have hlen : h.length + 1 = n := by omega
      have hi2 := (r.idx_eq_cnt_of_partial hl').1
      have e := r.partial_ hl'
      have hw : ¬ (h.length + 1 < n) := by omega
      simp only [hi2, hw, if_false, List.drop_zero, List.take_zero, List.append_nil, Array.toList_setIfInBounds, e]
      rw [lastN_of_le n (h ++ [x]) (by simp; omega)]
      rw [List.set_append_right _ _ (by omega)]
      have : n - h.length = 1 := by omega
      simp [this]

/-- chronological read-out used by EfficiencyRatio: `d[i..c] ++ d[0..i]` is the window, oldest first -/
theorem chrono (r : RingInv init d n i c h) :
    (d.toList.drop i).take (c - i) ++ d.toList.take i = lastN n h := by
  have hsz := r.size
  by_cases hl : h.length < n
  · obtain ⟨hi2, hc2⟩ := r.idx_eq_cnt_of_partial hl
    have e := r.partial_ hl
    rw [hi2, hc2, Nat.sub_self, List.take_zero, List.nil_append, e, List.take_left, lastN_of_le n h (by omega)]
  · have hc : c = n := by rw [r.cnt]; omega
    have e := r.full (by omega)
    rw [← e, hc]
    congr 1
    apply List.take_of_length_le
    simp; omega

/-- the written slots `d[..c]` hold exactly the window, up to order (MeanAbsoluteDeviation) -/
theorem take_cnt_perm (r : RingInv init d n i c h) : (d.toList.take c).Perm (lastN n h) := by
  have hsz := r.size
  by_cases hl : h.length < n
  · obtain ⟨hi2, hc2⟩ := r.idx_eq_cnt_of_partial hl
    have e := r.partial_ hl
    rw [hc2, e, List.take_left, lastN_of_le n h (by omega)]
  · have hc : c = n := by rw [r.cnt]; omega
    have e := r.full (by omega)
    rw [← e, hc, List.take_of_length_le (by simp; omega)]
    have : d.toList = d.toList.take i ++ d.toList.drop i := (List.take_append_drop i d.toList).symm
    conv => lhs; rw [this]
    exact List.perm_append_comm

/-- all slots: the window plus the untouched sentinels (Minimum / Maximum) -/
theorem all_perm (r : RingInv init d n i c h) : d.toList.Perm (lastN n h ++ List.replicate (n - c) init) := by
  have hsz := r.size
  by_cases hl : h.length < n
  · obtain ⟨hi2, hc2⟩ := r.idx_eq_cnt_of_partial hl
    rw [r.partial_ hl, lastN_of_le n h (by omega), hc2]
  · have hc : c = n := by rw [r.cnt]; omega
    have e := r.full (by omega)
    rw [← e, hc, Nat.sub_self, List.replicate_zero, List.append_nil]
    have : d.toList = d.toList.take i ++ d.toList.drop i := (List.take_append_drop i d.toList).symm
    conv => lhs; rw [this]
    exact List.perm_append_comm

end RingInv

end TaRs
