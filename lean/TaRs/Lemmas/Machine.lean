/-
  Generic "every reachable state" lift: an invariant preserved by every single operation
  holds after every operation sequence, of any length (induction over the op list).
-/
import TaRs.Prelude.Scalar
namespace TaRs

/-- the operations a client can apply to a live indicator -/
inductive Op (F : Type) where
  | next (x : F)
  | bar (b : Bar F)
  | reset

/-- run a sequence of operations; `none` = some call panicked -/
def runOps {S F : Type} (step : S → Op F → Option S) (s : S) (ops : List (Op F)) : Option S :=
  ops.foldlM step s

theorem runOps_nil {S F : Type} (step : S → Op F → Option S) (s : S) : runOps step s [] = some s := rfl

theorem runOps_cons {S F : Type} (step : S → Op F → Option S) (s : S) (op : Op F) (ops : List (Op F)) :
    runOps step s (op :: ops) = (step s op).bind (fun s' => runOps step s' ops) := by
  simp [runOps, List.foldlM_cons]

theorem runOps_append {S F : Type} (step : S → Op F → Option S) (s : S) (a b : List (Op F)) :
    runOps step s (a ++ b) = (runOps step s a).bind (fun s' => runOps step s' b) := by
  simp [runOps, List.foldlM_append]

/-- If `I` holds initially and every operation on an `I`-state succeeds and re-establishes
    `I`, then every operation sequence succeeds and ends in an `I`-state. -/
theorem runOps_invariant {S F : Type} (step : S → Op F → Option S) (I : S → Prop)
    (hstep : ∀ s op, I s → ∃ s', step s op = some s' ∧ I s')
    (s : S) (h : I s) (ops : List (Op F)) : ∃ s', runOps step s ops = some s' ∧ I s' := by
  induction ops generalizing s with
  | nil => exact ⟨s, rfl, h⟩
  | cons op ops ih =>
    obtain ⟨s1, h1, i1⟩ := hstep s op h
    obtain ⟨s2, h2, i2⟩ := ih s1 i1
    exact ⟨s2, by rw [runOps_cons, h1]; simpa using h2, i2⟩


/-- feed a whole stream to a `next`-like function from state `s`, collecting the outputs
    (oldest first); `none` = some call panicked -/
def runOut {S I O : Type} (next : S → I → Option (S × O)) : S → List I → Option (S × List O)
  | s, [] => some (s, [])
  | s, x :: xs =>
    match next s x with
    | none => none
    | some (s', y) =>
      match runOut next s' xs with
      | none => none
      | some (s'', ys) => some (s'', y :: ys)

theorem runOut_nil {S I O : Type} (next : S → I → Option (S × O)) (s : S) :
    runOut next s [] = some (s, []) := rfl

theorem runOut_cons {S I O : Type} (next : S → I → Option (S × O)) (s : S) (x : I) (xs : List I)
    (s' : S) (y : O) (h : next s x = some (s', y)) :
    runOut next s (x :: xs) = (runOut next s' xs).map (fun r => (r.1, y :: r.2)) := by
  simp only [runOut, h]
  cases runOut next s' xs <;> rfl

/-- outputs after a prefix, then the rest: `runOut` over `xs ++ ys` -/
theorem runOut_append {S I O : Type} (next : S → I → Option (S × O)) (s : S) (xs ys : List I) :
    runOut next s (xs ++ ys) =
      (runOut next s xs).bind (fun r => (runOut next r.1 ys).map (fun q => (q.1, r.2 ++ q.2))) := by
  induction xs generalizing s with
  | nil =>
    simp only [List.nil_append, runOut_nil, Option.bind_some, List.nil_append]
    cases runOut next s ys <;> simp
  | cons x xs ih =>
    cases h : next s x with
    | none => simp [runOut, h]
    | some r =>
      obtain ⟨s', y⟩ := r
      rw [List.cons_append, runOut_cons next s x (xs ++ ys) s' y h, runOut_cons next s x xs s' y h, ih s']
      cases runOut next s' xs with
      | none => simp
      | some r1 =>
        simp only [Option.map_some, Option.bind_some]
        cases runOut next r1.1 ys <;> simp

/-- a per-step invariant lifts to `runOut` (every call succeeds, final state satisfies `I`) -/
theorem runOut_invariant {S I O : Type} (next : S → I → Option (S × O)) (Inv : S → Prop)
    (hstep : ∀ s x, Inv s → ∃ r, next s x = some r ∧ Inv r.1)
    (s : S) (h : Inv s) (xs : List I) : ∃ r, runOut next s xs = some r ∧ Inv r.1 ∧ r.2.length = xs.length := by
  induction xs generalizing s with
  | nil => exact ⟨(s, []), rfl, h, rfl⟩
  | cons x xs ih =>
    obtain ⟨⟨s1, y⟩, h1, i1⟩ := hstep s x h
    obtain ⟨r2, h2, i2, l2⟩ := ih s1 i1
    refine ⟨(r2.1, y :: r2.2), ?_, i2, by simp [l2]⟩
    rw [runOut_cons next s x xs s1 y h1, h2]; rfl

end TaRs
