/-
  Generic "every reachable state" lift: an invariant preserved by every single operation
  holds after every operation sequence, of any length (induction over the op list).
-/
import TaRs.Prelude.Scalar
namespace TaRs

/-- the operations a client can apply to a live indicator -/
inductive Op (F : Type) where
  | next (x : F)
  | bar (b : Bar F)
  | reset

/-- run a sequence of operations; `none` = some call panicked -/
def runOps {S F : Type} (step : S → Op F → Option S) (s : S) (ops : List (Op F)) : Option S :=
  ops.foldlM step s

theorem runOps_nil {S F : Type} (step : S → Op F → Option S) (s : S) : runOps step s [] = some s := rfl

theorem runOps_cons {S F : Type} (step : S → Op F → Option S) (s : S) (op : Op F) (ops : List (Op F)) :
    runOps step s (op :: ops) = (step s op).bind (fun s' => runOps step s' ops) := by
  simp [runOps, List.foldlM_cons]

theorem runOps_append {S F : Type} (step : S → Op F → Option S) (s : S) (a b : List (Op F)) :
    runOps step s (a ++ b) = (runOps step s a).bind (fun s' => runOps step s' b) := by
  simp [runOps, List.foldlM_append]

/-- If `I` holds initially and every operation on an `I`-state succeeds and re-establishes
    `I`, then every operation sequence succeeds and ends in an `I`-state. -/
theorem runOps_invariant {S F : Type} (step : S → Op F → Option S) (I : S → Prop)
    (hstep : ∀ s op, I s → ∃ s', step s op = some s' ∧ I s')
    (s : S) (h : I s) (ops : List (Op F)) : ∃ s', runOps step s ops = some s' ∧ I s' := by
  induction ops generalizing s with
  | nil => exact ⟨s, rfl, h⟩
  | cons op ops ih =>
    obtain ⟨s1, h1, i1⟩ := hstep s op h
    obtain ⟨s2, h2, i2⟩ := ih s1 i1
    exact ⟨s2, by rw [runOps_cons, h1]; simpa using h2, i2⟩

end TaRs
