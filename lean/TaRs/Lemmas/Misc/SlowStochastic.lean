/- L0 facts about the accessors, Display and Default of SlowStochastic (split from Lemmas/SlowStochastic.lean so that a change to one method only invalidates the facts about that method) -/
import TaRs.Lemmas.Core.SlowStochastic
import TaRs.Lemmas.Misc.FastStochastic
import TaRs.Lemmas.Misc.ExponentialMovingAverage
set_option linter.unusedSectionVars false
namespace TaRs.Gen.SlowStochastic
open TaRs TaRs.Rs
variable {F : Type} [Scalar F]

omit [Scalar F] in
theorem display_eq (fmt : F → String) (s : SlowStochastic F) :
    display fmt s =
      "SLOW_STOCH(" ++ toString s.fast_stochastic.period ++ ", " ++ toString s.ema.period ++ ")" := rfl

theorem default_eq : (default_ : Option (SlowStochastic F)) = some (fresh 14 3) := by
  unfold default_
  try simp only [gen_helper]
  rw [new_eq]
  simp [unwrap, isizeMax]

end TaRs.Gen.SlowStochastic
