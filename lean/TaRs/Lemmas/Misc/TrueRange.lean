/- L0 facts about the accessors, Display and Default of TrueRange (split from Lemmas/TrueRange.lean so that a change to one method only invalidates the facts about that method) -/
import TaRs.Lemmas.Core.TrueRange
set_option linter.unusedSectionVars false
namespace TaRs.Gen.TrueRange
open TaRs TaRs.Rs
variable {F : Type} [Scalar F]

theorem default_eq : (default_ : TrueRange F) = fresh := rfl

theorem display_eq (fmt : F → String) (s : TrueRange F) : display fmt s = "TRUE_RANGE()" := rfl

end TaRs.Gen.TrueRange
