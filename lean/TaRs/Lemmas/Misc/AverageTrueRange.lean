/- L0 facts about the accessors, Display and Default of AverageTrueRange (split from Lemmas/AverageTrueRange.lean so that a change to one method only invalidates the facts about that method) -/
import TaRs.Lemmas.Core.AverageTrueRange
import TaRs.Lemmas.Misc.ExponentialMovingAverage
import TaRs.Lemmas.Misc.TrueRange
set_option linter.unusedSectionVars false
namespace TaRs.Gen.AverageTrueRange
open TaRs TaRs.Rs
variable {F : Type} [Scalar F]

theorem display_eq (fmt : F → String) (s : AverageTrueRange F) :
    display fmt s = "ATR(" ++ toString s.ema.period ++ ")" := rfl
theorem default_eq : (default_ : Option (AverageTrueRange F)) = some (fresh 14) := by
  unfold default_
  try simp only [gen_helper]
  rw [new_eq]
  simp [unwrap]

end TaRs.Gen.AverageTrueRange
