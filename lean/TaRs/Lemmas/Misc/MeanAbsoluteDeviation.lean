/- L0 facts about the accessors, Display and Default of MeanAbsoluteDeviation (split from Lemmas/MeanAbsoluteDeviation.lean so that a change to one method only invalidates the facts about that method) -/
import TaRs.Lemmas.Core.MeanAbsoluteDeviation
set_option linter.unusedSectionVars false
namespace TaRs.Gen.MeanAbsoluteDeviation
open TaRs TaRs.Rs
variable {F : Type} [Scalar F]

theorem display_eq (fmt : F → String) (s : MeanAbsoluteDeviation F) :
    display fmt s = "MAD(" ++ toString s.period ++ ")" := rfl

theorem default_eq : (default_ : Option (MeanAbsoluteDeviation F)) = some (fresh 9) := by
  unfold default_
  try simp only [gen_helper]
  rw [new_eq]
  simp [unwrap, isizeMax]

end TaRs.Gen.MeanAbsoluteDeviation
