/- L0 facts about the accessors, Display and Default of CommodityChannelIndex (split from Lemmas/CommodityChannelIndex.lean so that a change to one method only invalidates the facts about that method) -/
import TaRs.Lemmas.Core.CommodityChannelIndex
import TaRs.Lemmas.Misc.SimpleMovingAverage
import TaRs.Lemmas.Misc.MeanAbsoluteDeviation
set_option linter.unusedSectionVars false
namespace TaRs.Gen.CommodityChannelIndex
open TaRs TaRs.Rs
variable {F : Type} [Scalar F]

theorem display_eq (fmt : F → String) (s : CommodityChannelIndex F) :
    display fmt s = "CCI(" ++ toString s.sma.period ++ ")" := rfl
theorem default_eq : (default_ : Option (CommodityChannelIndex F)) = some (fresh 20) := by
  unfold default_
  try simp only [gen_helper]
  rw [new_eq]
  simp [unwrap, isizeMax]

end TaRs.Gen.CommodityChannelIndex
