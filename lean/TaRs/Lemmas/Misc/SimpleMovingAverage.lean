/- L0 facts about the accessors, Display and Default of SimpleMovingAverage (split from Lemmas/SimpleMovingAverage.lean so that a change to one method only invalidates the facts about that method) -/
import TaRs.Lemmas.Core.SimpleMovingAverage
set_option linter.unusedSectionVars false
namespace TaRs.Gen.SimpleMovingAverage
open TaRs TaRs.Rs
variable {F : Type} [Scalar F]

theorem display_eq (fmt : F → String) (s : SimpleMovingAverage F) :
    display fmt s = "SMA(" ++ toString s.period ++ ")" := rfl

theorem default_eq : (default_ : Option (SimpleMovingAverage F)) = some (fresh 9) := by
  unfold default_
  try simp only [gen_helper]
  rw [new_eq]
  simp [unwrap, isizeMax]

end TaRs.Gen.SimpleMovingAverage
