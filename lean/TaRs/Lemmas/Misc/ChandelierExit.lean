/- L0 facts about the accessors, Display and Default of ChandelierExit (split from Lemmas/ChandelierExit.lean so that a change to one method only invalidates the facts about that method) -/
import TaRs.Lemmas.Core.ChandelierExit
import TaRs.Lemmas.Misc.Minimum
import TaRs.Lemmas.Misc.Maximum
import TaRs.Lemmas.Misc.AverageTrueRange
set_option linter.unusedSectionVars false
namespace TaRs.Gen.ChandelierExit
open TaRs TaRs.Rs
variable {F : Type} [Scalar F]

omit [Scalar F] in
theorem display_eq (fmt : F → String) (s : ChandelierExit F) :
    display fmt s = "CE(" ++ toString s.atr.ema.period ++ ", " ++ fmt s.multiplier ++ ")" := rfl

theorem default_eq : (default_ : Option (ChandelierExit F)) = some (fresh 22 (Scalar.lit 3 0)) := by
  unfold default_
  try simp only [gen_helper]
  rw [new_eq]
  simp [unwrap, isizeMax]

end TaRs.Gen.ChandelierExit
