/- L0 facts about the accessors, Display and Default of PercentagePriceOscillator (split from Lemmas/PercentagePriceOscillator.lean so that a change to one method only invalidates the facts about that method) -/
import TaRs.Lemmas.Core.PercentagePriceOscillator
import TaRs.Lemmas.Misc.ExponentialMovingAverage
set_option linter.unusedSectionVars false
namespace TaRs.Gen.PercentagePriceOscillator
open TaRs TaRs.Rs
variable {F : Type} [Scalar F]

theorem display_eq (fmt : F → String) (s : PercentagePriceOscillator F) :
    display fmt s = "PPO(" ++ toString s.fast_ema.period ++ ", " ++ toString s.slow_ema.period ++
      ", " ++ toString s.signal_ema.period ++ ")" := rfl

theorem default_eq :
    (default_ : Option (PercentagePriceOscillator F)) = some (fresh 12 26 9) := by
  unfold default_
  try simp only [gen_helper]
  rw [new_eq]
  simp [unwrap]

end TaRs.Gen.PercentagePriceOscillator
