/- L0 facts about the accessors, Display and Default of Minimum (split from Lemmas/Minimum.lean so that a change to one method only invalidates the facts about that method) -/
import TaRs.Lemmas.Core.Minimum
set_option linter.unusedSectionVars false
namespace TaRs.Gen.Minimum
open TaRs TaRs.Rs
variable {F : Type} [Scalar F]

omit [Scalar F] in
theorem display_eq (fmt : F → String) (s : Minimum F) :
    display fmt s = "MIN(" ++ toString s.period ++ ")" := rfl

theorem default_eq : (default_ : Option (Minimum F)) = some (fresh 14) := by
  unfold default_
  try simp only [gen_helper]
  rw [new_eq]
  simp [unwrap, isizeMax]

end TaRs.Gen.Minimum
