/- L0 facts about the accessors, Display and Default of StandardDeviation (split from Lemmas/StandardDeviation.lean so that a change to one method only invalidates the facts about that method) -/
import TaRs.Lemmas.Core.StandardDeviation
set_option linter.unusedSectionVars false
namespace TaRs.Gen.StandardDeviation
open TaRs TaRs.Rs
variable {F : Type} [Scalar F]

theorem display_eq (fmt : F → String) (s : StandardDeviation F) :
    display fmt s = "SD(" ++ toString s.period ++ ")" := rfl

theorem default_eq : (default_ : Option (StandardDeviation F)) = some (fresh 9) := by
  unfold default_
  try simp only [gen_helper]
  rw [new_eq]
  simp [unwrap, isizeMax]

end TaRs.Gen.StandardDeviation
