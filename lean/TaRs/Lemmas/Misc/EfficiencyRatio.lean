/- L0 facts about the accessors, Display and Default of EfficiencyRatio (split from Lemmas/EfficiencyRatio.lean so that a change to one method only invalidates the facts about that method) -/
import TaRs.Lemmas.Core.EfficiencyRatio
set_option linter.unusedSectionVars false
namespace TaRs.Gen.EfficiencyRatio
open TaRs TaRs.Rs
variable {F : Type} [Scalar F]

theorem display_eq (fmt : F → String) (s : EfficiencyRatio F) :
    display fmt s = "ER(" ++ toString s.period ++ ")" := rfl

theorem default_eq : (default_ : Option (EfficiencyRatio F)) = some (fresh 14) := by
  unfold default_
  try simp only [gen_helper]
  rw [new_eq]
  simp [unwrap, isizeMax]

end TaRs.Gen.EfficiencyRatio
