/- L0 facts about the accessors, Display and Default of RelativeStrengthIndex (split from Lemmas/RelativeStrengthIndex.lean so that a change to one method only invalidates the facts about that method) -/
import TaRs.Lemmas.Core.RelativeStrengthIndex
import TaRs.Lemmas.Misc.ExponentialMovingAverage
set_option linter.unusedSectionVars false
namespace TaRs.Gen.RelativeStrengthIndex
open TaRs TaRs.Rs
variable {F : Type} [Scalar F]

theorem display_eq (fmt : F → String) (s : RelativeStrengthIndex F) :
    display fmt s = "RSI(" ++ toString s.period ++ ")" := rfl
theorem default_eq : (default_ : Option (RelativeStrengthIndex F)) = some (fresh 14) := by
  unfold default_
  try simp only [gen_helper]
  rw [new_eq]
  simp [unwrap]

end TaRs.Gen.RelativeStrengthIndex
