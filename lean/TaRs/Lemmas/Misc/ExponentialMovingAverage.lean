/- L0 facts about the accessors, Display and Default of ExponentialMovingAverage (split from Lemmas/ExponentialMovingAverage.lean so that a change to one method only invalidates the facts about that method) -/
import TaRs.Lemmas.Core.ExponentialMovingAverage
set_option linter.unusedSectionVars false
namespace TaRs.Gen.ExponentialMovingAverage
open TaRs TaRs.Rs
variable {F : Type} [Scalar F]

theorem display_eq (fmt : F → String) (s : ExponentialMovingAverage F) :
    display fmt s = "EMA(" ++ toString s.period ++ ")" := rfl
theorem default_eq : (default_ : Option (ExponentialMovingAverage F)) = some (fresh 9) := by
  unfold default_
  try simp only [gen_helper]
  rw [new_eq]
  simp [unwrap]

end TaRs.Gen.ExponentialMovingAverage
