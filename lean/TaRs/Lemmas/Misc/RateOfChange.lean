/- L0 facts about the accessors, Display and Default of RateOfChange (split from Lemmas/RateOfChange.lean so that a change to one method only invalidates the facts about that method) -/
import TaRs.Lemmas.Core.RateOfChange
set_option linter.unusedSectionVars false
namespace TaRs.Gen.RateOfChange
open TaRs TaRs.Rs
variable {F : Type} [Scalar F]

theorem display_eq (fmt : F → String) (s : RateOfChange F) :
    display fmt s = "ROC(" ++ toString s.period ++ ")" := rfl

theorem default_eq : (default_ : Option (RateOfChange F)) = some (fresh 9) := by
  unfold default_
  try simp only [gen_helper]
  rw [new_eq]
  simp [unwrap, isizeMax]

end TaRs.Gen.RateOfChange
