/- L0 facts about the accessors, Display and Default of BollingerBands (split from Lemmas/BollingerBands.lean so that a change to one method only invalidates the facts about that method) -/
import TaRs.Lemmas.Core.BollingerBands
import TaRs.Lemmas.Misc.StandardDeviation
set_option linter.unusedSectionVars false
namespace TaRs.Gen.BollingerBands
open TaRs TaRs.Rs
variable {F : Type} [Scalar F]

theorem display_eq (fmt : F → String) (s : BollingerBands F) :
    display fmt s = "BB(" ++ toString s.period ++ ", " ++ fmt s.multiplier ++ ")" := rfl
theorem default_eq : (default_ : Option (BollingerBands F)) = some (fresh 9 (Scalar.lit 2 0)) := by
  unfold default_
  try simp only [gen_helper]
  rw [new_eq]
  simp [unwrap, isizeMax]

end TaRs.Gen.BollingerBands
