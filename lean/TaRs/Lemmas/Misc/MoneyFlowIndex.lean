/- L0 facts about the accessors, Display and Default of MoneyFlowIndex (split from Lemmas/MoneyFlowIndex.lean so that a change to one method only invalidates the facts about that method) -/
import TaRs.Lemmas.Core.MoneyFlowIndex
set_option linter.unusedSectionVars false
namespace TaRs.Gen.MoneyFlowIndex
open TaRs TaRs.Rs
variable {F : Type} [Scalar F]

theorem display_eq (fmt : F → String) (s : MoneyFlowIndex F) :
    display fmt s = "MFI(" ++ toString s.period ++ ")" := rfl

theorem default_eq : (default_ : Option (MoneyFlowIndex F)) = some (fresh 14) := by
  unfold default_
  try simp only [gen_helper]
  rw [new_eq]
  simp [unwrap, isizeMax]

end TaRs.Gen.MoneyFlowIndex
