/- L0 facts about the accessors, Display and Default of KeltnerChannel (split from Lemmas/KeltnerChannel.lean so that a change to one method only invalidates the facts about that method) -/
import TaRs.Lemmas.Core.KeltnerChannel
import TaRs.Lemmas.Misc.ExponentialMovingAverage
import TaRs.Lemmas.Misc.AverageTrueRange
set_option linter.unusedSectionVars false
namespace TaRs.Gen.KeltnerChannel
open TaRs TaRs.Rs
variable {F : Type} [Scalar F]

theorem display_eq (fmt : F → String) (s : KeltnerChannel F) :
    display fmt s = "KC(" ++ toString s.period ++ ", " ++ fmt s.multiplier ++ ")" := rfl
theorem default_eq : (default_ : Option (KeltnerChannel F)) = some (fresh 10 (Scalar.lit 2 0)) := by
  unfold default_
  try simp only [gen_helper]
  rw [new_eq]
  simp [unwrap]

end TaRs.Gen.KeltnerChannel
