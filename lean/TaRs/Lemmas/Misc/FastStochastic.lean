/- L0 facts about the accessors, Display and Default of FastStochastic (split from Lemmas/FastStochastic.lean so that a change to one method only invalidates the facts about that method) -/
import TaRs.Lemmas.Core.FastStochastic
import TaRs.Lemmas.Misc.Minimum
import TaRs.Lemmas.Misc.Maximum
set_option linter.unusedSectionVars false
namespace TaRs.Gen.FastStochastic
open TaRs TaRs.Rs
variable {F : Type} [Scalar F]

omit [Scalar F] in
theorem display_eq (fmt : F → String) (s : FastStochastic F) :
    display fmt s = "FAST_STOCH(" ++ toString s.period ++ ")" := rfl

theorem default_eq : (default_ : Option (FastStochastic F)) = some (fresh 14) := by
  unfold default_
  try simp only [gen_helper]
  rw [new_eq]
  simp [unwrap, isizeMax]

end TaRs.Gen.FastStochastic
