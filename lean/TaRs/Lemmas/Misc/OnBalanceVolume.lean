/- L0 facts about the accessors, Display and Default of OnBalanceVolume (split from Lemmas/OnBalanceVolume.lean so that a change to one method only invalidates the facts about that method) -/
import TaRs.Lemmas.Core.OnBalanceVolume
set_option linter.unusedSectionVars false
namespace TaRs.Gen.OnBalanceVolume
open TaRs TaRs.Rs
variable {F : Type} [Scalar F]

theorem default_eq : (default_ : OnBalanceVolume F) = fresh := rfl

theorem display_eq (fmt : F → String) (s : OnBalanceVolume F) : display fmt s = "OBV" := rfl

end TaRs.Gen.OnBalanceVolume
