/- L0 facts about the accessors, Display and Default of WeightedMovingAverage (split from Lemmas/WeightedMovingAverage.lean so that a change to one method only invalidates the facts about that method) -/
import TaRs.Lemmas.Core.WeightedMovingAverage
set_option linter.unusedSectionVars false
namespace TaRs.Gen.WeightedMovingAverage
open TaRs TaRs.Rs
variable {F : Type} [Scalar F]

theorem display_eq (fmt : F → String) (s : WeightedMovingAverage F) :
    display fmt s = "WMA(" ++ toString s.period ++ ")" := rfl

theorem default_eq : (default_ : Option (WeightedMovingAverage F)) = some (fresh 9) := by
  unfold default_
  try simp only [gen_helper]
  rw [new_eq]
  simp [unwrap, isizeMax]

end TaRs.Gen.WeightedMovingAverage
