/- L0 facts about the accessors, Display and Default of Maximum (split from Lemmas/Maximum.lean so that a change to one method only invalidates the facts about that method) -/
import TaRs.Lemmas.Core.Maximum
set_option linter.unusedSectionVars false
namespace TaRs.Gen.Maximum
open TaRs TaRs.Rs
variable {F : Type} [Scalar F]

omit [Scalar F] in
theorem display_eq (fmt : F → String) (s : Maximum F) :
    display fmt s = "MAX(" ++ toString s.period ++ ")" := rfl

theorem default_eq : (default_ : Option (Maximum F)) = some (fresh 14) := by
  unfold default_
  try simp only [gen_helper]
  rw [new_eq]
  simp [unwrap, isizeMax]

end TaRs.Gen.Maximum
