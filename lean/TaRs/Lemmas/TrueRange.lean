/- L0 facts about the generated TrueRange (any `[Scalar F]`). -/
import TaRs.Lemmas.Core.TrueRange
import TaRs.Gen.TrueRange
import TaRs.Lemmas.RsLemmas
import TaRs.Lemmas.Total.TrueRange
namespace TaRs.Gen.TrueRange
open TaRs TaRs.Rs
variable {F : Type} [Scalar F]

/-- scalar path: |x − previous x|, 0 first -/
def out (s : TrueRange F) (x : F) : F :=
  match s.prev_close with
  | some prev => Scalar.abs (Scalar.sub x prev)
  | none => Scalar.lit 0 0

/-- bar path: max(high−low, |high−prev close|, |low−prev close|); high−low on the first bar -/
def outBar (s : TrueRange F) (b : Bar F) : F :=
  match s.prev_close with
  | some pc => Scalar.max (Scalar.max (Scalar.sub b.high b.low) (Scalar.abs (Scalar.sub b.high pc)))
                 (Scalar.abs (Scalar.sub b.low pc))
  | none => Scalar.sub b.high b.low

theorem next_eq (s : TrueRange F) (x : F) : s.next x = some ({ prev_close := some x }, out s x) := by
  unfold next out
  try simp only [gen_helper]
  cases s.prev_close <;> rfl

theorem nextBar_eq (s : TrueRange F) (b : Bar F) :
    s.nextBar b = some ({ prev_close := some b.close }, outBar s b) := by
  unfold nextBar outBar max3
  cases s.prev_close <;> rfl

end TaRs.Gen.TrueRange
