/- L0 facts about the generated ChandelierExit (any `[Scalar F]`): ATR + Minimum + Maximum wiring. -/
import TaRs.Gen.ChandelierExit
import TaRs.Lemmas.Core.Minimum
import TaRs.Lemmas.Core.Maximum
import TaRs.Lemmas.Core.AverageTrueRange
namespace TaRs.Gen.ChandelierExit
open TaRs TaRs.Rs
variable {F : Type} [Scalar F]
/-- the state `new(period, multiplier)` builds -/
def fresh (p : Nat) (m : F) : ChandelierExit F :=
  { atr := AverageTrueRange.fresh p, min := Minimum.fresh p, max := Maximum.fresh p, multiplier := m }

/-- the three components are well-formed and share one period (the struct has no `period` field:
    `period()` reads it from the ATR) -/
structure WF (s : ChandelierExit F) : Prop where
  atr : AverageTrueRange.WF s.atr
  min : Minimum.WF s.min
  max : Maximum.WF s.max
  pmin : s.min.period = s.atr.period_fn
  pmax : s.max.period = s.atr.period_fn

/-- `new` exactly as generated: `AverageTrueRange::new(period)?`, then `Minimum::new(period)?`, then
    `Maximum::new(period)?`.  All three return `Err` on 0; the ATR constructor never panics, and
    for `period ≠ 0` the two windows panic on the same condition (`period * 8 > isize::MAX`,
    `vec!` capacity overflow), so the order of the calls is not observable. -/
theorem new_eq (p : Nat) (m : F) :
    (new p m : Res (ChandelierExit F)) =
      if p = 0 then .err .InvalidParameter
      else if p * 8 ≤ isizeMax then .ok (fresh p m) else .panic := by
  unfold new
  try simp only [gen_helper]
  rw [AverageTrueRange.new_eq, Minimum.new_eq, Maximum.new_eq]
  by_cases h0 : p = 0
  · simp [h0, bind, Res.bind]
  · by_cases h1 : p * 8 ≤ isizeMax <;> simp [h0, h1, bind, Res.bind, fresh]

theorem fresh_wf (p : Nat) (m : F) (hp : 0 < p) (h8 : p * 8 ≤ isizeMax) :
    WF (fresh p m : ChandelierExit F) :=
  ⟨AverageTrueRange.fresh_wf p hp, Minimum.fresh_wf p hp h8, Maximum.fresh_wf p hp h8, rfl, rfl⟩

omit [Scalar F] in
theorem period_fn_eq (s : ChandelierExit F) : s.period_fn = s.atr.ema.period := rfl

omit [Scalar F] in
theorem multiplier_fn_eq (s : ChandelierExit F) : s.multiplier_fn = s.multiplier := rfl

end TaRs.Gen.ChandelierExit
