/-
  L0 (structural) facts about the GENERATED model of MoneyFlowIndex, valid for every
  `[Scalar F]` (no law about the arithmetic is used).
-/
import TaRs.Gen.MoneyFlowIndex
import TaRs.Lemmas.RsLemmas
namespace TaRs.Gen.MoneyFlowIndex
open TaRs TaRs.Rs

variable {F : Type} [Scalar F]
/-- the state `new(period)` builds -/
def fresh (p : Nat) : MoneyFlowIndex F :=
  { period := p, index := 0, count := 0, previous_typical_price := Scalar.lit 0 0,
    total_positive_money_flow := Scalar.lit 0 0, total_negative_money_flow := Scalar.lit 0 0,
    deque := Array.replicate p (Scalar.lit 0 0) }

/-- structural well-formedness: everything `nextBar`/`reset` need in order not to panic.
    The cursor is advanced BEFORE the deque is accessed, so the accesses are at
    `index' = if index + 1 < period then index + 1 else 0`, which is in bounds as soon as
    `0 < period = deque.len()`; `idx`/`small` keep `index + 1` from overflowing, `cnt` is only
    there to be preserved. -/
structure WF (s : MoneyFlowIndex F) : Prop where
  pos : 0 < s.period
  small : s.period * 8 ≤ isizeMax
  size : s.deque.size = s.period
  idx : s.index < s.period
  cnt : s.count ≤ s.period

theorem new_eq (p : Nat) :
    (new p : Res (MoneyFlowIndex F)) =
      if p = 0 then .err .InvalidParameter
      else if p * 8 ≤ isizeMax then .ok (fresh p) else .panic := by
  unfold new
  try simp only [gen_helper]
  cases p with
  | zero => rfl
  | succ n =>
    by_cases h : (n + 1) * 8 ≤ isizeMax
    · simp [vecNew_eq _ _ h, h, fresh, bind, Res.bind]
    · simp [vecNew_none _ _ (by omega : isizeMax < (n + 1) * 8), h, bind, Res.bind]

theorem fresh_wf (p : Nat) (hp : 0 < p) (h8 : p * 8 ≤ isizeMax) : WF (fresh p : MoneyFlowIndex F) :=
  ⟨hp, h8, by simp [fresh], hp, by simp [fresh]⟩

theorem period_fn_eq (s : MoneyFlowIndex F) : s.period_fn = s.period := rfl

end TaRs.Gen.MoneyFlowIndex
