/- L0 facts about the generated KeltnerChannel (any `[Scalar F]`). -/
import TaRs.Gen.KeltnerChannel
import TaRs.Lemmas.Core.ExponentialMovingAverage
import TaRs.Lemmas.Core.AverageTrueRange
namespace TaRs.Gen.KeltnerChannel
open TaRs TaRs.Rs
variable {F : Type} [Scalar F]
/-- the state `new(period, multiplier)` builds -/
def fresh (p : Nat) (m : F) : KeltnerChannel F :=
  { period := p, multiplier := m, atr := AverageTrueRange.fresh p,
    ema := ExponentialMovingAverage.fresh p }

/-- component well-formedness + agreement of the three stored copies of `period` -/
structure WF (s : KeltnerChannel F) : Prop where
  atr : AverageTrueRange.WF s.atr
  ema : ExponentialMovingAverage.WF s.ema
  ema_period : s.ema.period = s.period
  atr_period : s.atr.ema.period = s.period

/-- `new` rejects exactly period 0 and never panics (`AverageTrueRange::new(period)?` first, then
    `ExponentialMovingAverage::new(period)?`; both fail in the same way on the same `period`, so
    the order is not observable). -/
theorem new_eq (p : Nat) (m : F) :
    (new p m : Res (KeltnerChannel F)) =
      if p = 0 then .err .InvalidParameter else .ok (fresh p m) := by
  unfold new
  try simp only [gen_helper]
  rw [AverageTrueRange.new_eq, ExponentialMovingAverage.new_eq]
  by_cases h0 : p = 0 <;> simp [h0, bind, Res.bind, fresh]

theorem fresh_wf (p : Nat) (m : F) (hp : 0 < p) : WF (fresh p m : KeltnerChannel F) :=
  ⟨AverageTrueRange.fresh_wf p hp, ExponentialMovingAverage.fresh_wf p hp, rfl, rfl⟩

theorem period_fn_eq (s : KeltnerChannel F) : s.period_fn = s.period := rfl

theorem multiplier_fn_eq (s : KeltnerChannel F) : s.multiplier_fn = s.multiplier := rfl

end TaRs.Gen.KeltnerChannel
