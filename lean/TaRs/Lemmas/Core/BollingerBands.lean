/- L0 facts about the generated BollingerBands (any `[Scalar F]`): a StandardDeviation plus two
   parameters; every structural fact is inherited from the component. -/
import TaRs.Gen.BollingerBands
import TaRs.Lemmas.Core.StandardDeviation
namespace TaRs.Gen.BollingerBands
open TaRs TaRs.Rs
variable {F : Type} [Scalar F]
/-- the state `new(period, multiplier)` builds -/
def fresh (p : Nat) (k : F) : BollingerBands F :=
  { period := p, multiplier := k, sd := StandardDeviation.fresh p }

structure WF (s : BollingerBands F) : Prop where
  sd : StandardDeviation.WF s.sd
  per : s.sd.period = s.period

theorem new_eq (p : Nat) (k : F) :
    (new p k : Res (BollingerBands F)) =
      if p = 0 then .err .InvalidParameter
      else if p * 8 ≤ isizeMax then .ok (fresh p k) else .panic := by
  unfold new
  try simp only [gen_helper]
  rw [StandardDeviation.new_eq]
  by_cases h0 : p = 0
  · simp [h0, bind, Res.bind]
  · by_cases h1 : p * 8 ≤ isizeMax <;> simp [h0, h1, bind, Res.bind, fresh]

theorem fresh_wf (p : Nat) (k : F) (hp : 0 < p) (h8 : p * 8 ≤ isizeMax) :
    WF (fresh p k : BollingerBands F) :=
  ⟨StandardDeviation.fresh_wf p hp h8, rfl⟩

theorem period_fn_eq (s : BollingerBands F) : s.period_fn = s.period := rfl

theorem multiplier_fn_eq (s : BollingerBands F) : s.multiplier_fn = s.multiplier := rfl

end TaRs.Gen.BollingerBands
