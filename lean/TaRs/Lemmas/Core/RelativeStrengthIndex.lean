/- L0 facts about the generated RelativeStrengthIndex (any `[Scalar F]`). -/
import TaRs.Gen.RelativeStrengthIndex
import TaRs.Lemmas.Core.ExponentialMovingAverage
namespace TaRs.Gen.RelativeStrengthIndex
open TaRs TaRs.Rs
variable {F : Type} [Scalar F]
/-- the state `new(period)` builds -/
def fresh (p : Nat) : RelativeStrengthIndex F :=
  { period := p, up_ema_indicator := ExponentialMovingAverage.fresh p,
    down_ema_indicator := ExponentialMovingAverage.fresh p,
    prev_val := Scalar.lit 0 0, is_new := true }

/-- component well-formedness + agreement of the three stored copies of `period` -/
structure WF (s : RelativeStrengthIndex F) : Prop where
  up : ExponentialMovingAverage.WF s.up_ema_indicator
  down : ExponentialMovingAverage.WF s.down_ema_indicator
  up_period : s.up_ema_indicator.period = s.period
  down_period : s.down_ema_indicator.period = s.period

/-- `new` rejects exactly period 0 and never panics (two `ExponentialMovingAverage::new(period)?`
    calls on the same `period`). -/
theorem new_eq (p : Nat) :
    (new p : Res (RelativeStrengthIndex F)) =
      if p = 0 then .err .InvalidParameter else .ok (fresh p) := by
  unfold new
  try simp only [gen_helper]
  rw [ExponentialMovingAverage.new_eq]
  by_cases h0 : p = 0 <;> simp [h0, bind, Res.bind, fresh]

theorem fresh_wf (p : Nat) (hp : 0 < p) : WF (fresh p : RelativeStrengthIndex F) :=
  ⟨ExponentialMovingAverage.fresh_wf p hp, ExponentialMovingAverage.fresh_wf p hp, rfl, rfl⟩

theorem period_fn_eq (s : RelativeStrengthIndex F) : s.period_fn = s.period := rfl

end TaRs.Gen.RelativeStrengthIndex
