/- L0 facts about the generated PercentagePriceOscillator (any `[Scalar F]`). -/
import TaRs.Gen.PercentagePriceOscillator
import TaRs.Lemmas.Core.ExponentialMovingAverage
namespace TaRs.Gen.PercentagePriceOscillator
open TaRs TaRs.Rs
variable {F : Type} [Scalar F]
/-- the state `new(fast, slow, signal)` builds -/
def fresh (fp sp gp : Nat) : PercentagePriceOscillator F :=
  { fast_ema := ExponentialMovingAverage.fresh fp,
    slow_ema := ExponentialMovingAverage.fresh sp,
    signal_ema := ExponentialMovingAverage.fresh gp }

structure WF (s : PercentagePriceOscillator F) : Prop where
  fast : ExponentialMovingAverage.WF s.fast_ema
  slow : ExponentialMovingAverage.WF s.slow_ema
  signal : ExponentialMovingAverage.WF s.signal_ema

/-- `new` rejects exactly the argument triples with SOME period equal to 0 and never panics
    (the three `ExponentialMovingAverage::new(..)?` calls can only fail with `InvalidParameter`,
    so their evaluation order fast, slow, signal is not observable). -/
theorem new_eq (fp sp gp : Nat) :
    (new fp sp gp : Res (PercentagePriceOscillator F)) =
      if fp = 0 ∨ sp = 0 ∨ gp = 0 then .err .InvalidParameter else .ok (fresh fp sp gp) := by
  unfold new
  try simp only [gen_helper]
  simp only [ExponentialMovingAverage.new_eq]
  by_cases f0 : fp = 0 <;> by_cases s0 : sp = 0 <;> by_cases g0 : gp = 0 <;>
    simp [f0, s0, g0, bind, Res.bind, fresh]

/-- `new` never succeeds with a zero period and only ever succeeds with `fresh` -/
theorem new_ok_iff (fp sp gp : Nat) (r : PercentagePriceOscillator F) :
    new fp sp gp = .ok r ↔ (0 < fp ∧ 0 < sp ∧ 0 < gp ∧ r = fresh fp sp gp) := by
  rw [new_eq]
  by_cases f0 : fp = 0 <;> by_cases s0 : sp = 0 <;> by_cases g0 : gp = 0 <;>
    simp [f0, s0, g0, Nat.pos_of_ne_zero, eq_comm]

/-- `new` has no panicking operation -/
theorem new_ne_panic (fp sp gp : Nat) :
    (new fp sp gp : Res (PercentagePriceOscillator F)) ≠ .panic := by
  rw [new_eq]; split <;> simp

theorem fresh_wf (fp sp gp : Nat) (hf : 0 < fp) (hs : 0 < sp) (hg : 0 < gp) :
    WF (fresh fp sp gp : PercentagePriceOscillator F) :=
  ⟨ExponentialMovingAverage.fresh_wf fp hf, ExponentialMovingAverage.fresh_wf sp hs,
   ExponentialMovingAverage.fresh_wf gp hg⟩

end TaRs.Gen.PercentagePriceOscillator
