/- L0 facts about the generated CommodityChannelIndex (any `[Scalar F]`). -/
import TaRs.Gen.CommodityChannelIndex
import TaRs.Lemmas.Core.SimpleMovingAverage
import TaRs.Lemmas.Core.MeanAbsoluteDeviation
namespace TaRs.Gen.CommodityChannelIndex
open TaRs TaRs.Rs
variable {F : Type} [Scalar F]
/-- the state `new(period)` builds -/
def fresh (p : Nat) : CommodityChannelIndex F :=
  { sma := SimpleMovingAverage.fresh p, mad := MeanAbsoluteDeviation.fresh p }

/-- both components well-formed, and built for the same period (`per` is what makes `reset`
    rebuild `fresh period()`; it is not needed for panic-freedom) -/
structure WF (s : CommodityChannelIndex F) : Prop where
  sma : SimpleMovingAverage.WF s.sma
  mad : MeanAbsoluteDeviation.WF s.mad
  per : s.mad.period = s.sma.period

theorem new_eq (p : Nat) :
    (new p : Res (CommodityChannelIndex F)) =
      if p = 0 then .err .InvalidParameter
      else if p * 8 ≤ isizeMax then .ok (fresh p) else .panic := by
  unfold new
  try simp only [gen_helper]
  rw [SimpleMovingAverage.new_eq, MeanAbsoluteDeviation.new_eq]
  by_cases h0 : p = 0
  · simp [h0, bind, Res.bind]
  · by_cases h1 : p * 8 ≤ isizeMax <;> simp [h0, h1, bind, Res.bind, fresh]

theorem fresh_wf (p : Nat) (hp : 0 < p) (h8 : p * 8 ≤ isizeMax) : WF (fresh p : CommodityChannelIndex F) :=
  ⟨SimpleMovingAverage.fresh_wf p hp h8, MeanAbsoluteDeviation.fresh_wf p hp h8, rfl⟩

theorem period_fn_eq (s : CommodityChannelIndex F) : s.period_fn = s.sma.period := rfl

end TaRs.Gen.CommodityChannelIndex
