/- L0 facts about the generated FastStochastic (any `[Scalar F]`): Minimum + Maximum wiring. -/
import TaRs.Gen.FastStochastic
import TaRs.Lemmas.Core.Minimum
import TaRs.Lemmas.Core.Maximum
namespace TaRs.Gen.FastStochastic
open TaRs TaRs.Rs
variable {F : Type} [Scalar F]
/-- the state `new(period)` builds -/
def fresh (p : Nat) : FastStochastic F :=
  { period := p, minimum := Minimum.fresh p, maximum := Maximum.fresh p }

/-- both windows well-formed, and of the length the struct separately records -/
structure WF (s : FastStochastic F) : Prop where
  min : Minimum.WF s.minimum
  max : Maximum.WF s.maximum
  pmin : s.minimum.period = s.period
  pmax : s.maximum.period = s.period

/-- `Minimum::new(period)?` runs first, then `Maximum::new(period)?`; both fail on exactly the same
    arguments (0 → Err, `period * 8 > isize::MAX` → capacity-overflow panic), so the order is not
    observable here. -/
theorem new_eq (p : Nat) :
    (new p : Res (FastStochastic F)) =
      if p = 0 then .err .InvalidParameter
      else if p * 8 ≤ isizeMax then .ok (fresh p) else .panic := by
  unfold new
  try simp only [gen_helper]
  rw [Minimum.new_eq, Maximum.new_eq]
  by_cases h0 : p = 0
  · simp [h0, bind, Res.bind]
  · by_cases h1 : p * 8 ≤ isizeMax <;> simp [h0, h1, bind, Res.bind, fresh]

theorem fresh_wf (p : Nat) (hp : 0 < p) (h8 : p * 8 ≤ isizeMax) : WF (fresh p : FastStochastic F) :=
  ⟨Minimum.fresh_wf p hp h8, Maximum.fresh_wf p hp h8, rfl, rfl⟩

omit [Scalar F] in
theorem period_fn_eq (s : FastStochastic F) : s.period_fn = s.period := rfl

end TaRs.Gen.FastStochastic
