/-
  L0 (structural) facts about the GENERATED model of SimpleMovingAverage, valid for every
  `[Scalar F]` (no law about the arithmetic is used, so they hold for the f64 semantics,
  NaN and ±∞ included).  Template for the other windowed indicators.
-/
import TaRs.Gen.SimpleMovingAverage
import TaRs.Lemmas.RsLemmas
namespace TaRs.Gen.SimpleMovingAverage
open TaRs TaRs.Rs

variable {F : Type} [Scalar F]
/-- the state `new(period)` builds -/
def fresh (p : Nat) : SimpleMovingAverage F :=
  { period := p, index := 0, count := 0, sum := Scalar.lit 0 0, deque := Array.replicate p (Scalar.lit 0 0) }

/-- structural well-formedness: everything `next`/`reset` need in order not to panic -/
structure WF (s : SimpleMovingAverage F) : Prop where
  pos : 0 < s.period
  small : s.period * 8 ≤ isizeMax
  size : s.deque.size = s.period
  idx : s.index < s.period
  cnt : s.count ≤ s.period

theorem new_eq (p : Nat) :
    (new p : Res (SimpleMovingAverage F)) =
      if p = 0 then .err .InvalidParameter
      else if p * 8 ≤ isizeMax then .ok (fresh p) else .panic := by
  unfold new
  try simp only [gen_helper]
  cases p with
  | zero => rfl
  | succ n =>
    by_cases h : (n + 1) * 8 ≤ isizeMax
    · simp [vecNew_eq _ _ h, h, fresh, bind, Res.bind]
    · simp [vecNew_none _ _ (by omega : isizeMax < (n + 1) * 8), h, bind, Res.bind]

theorem fresh_wf (p : Nat) (hp : 0 < p) (h8 : p * 8 ≤ isizeMax) : WF (fresh p : SimpleMovingAverage F) :=
  ⟨hp, h8, by simp [fresh], hp, by simp [fresh]⟩

theorem period_fn_eq (s : SimpleMovingAverage F) : s.period_fn = s.period := rfl

end TaRs.Gen.SimpleMovingAverage
