/- L0 facts about the generated OnBalanceVolume (any `[Scalar F]`).
   OBV has no parameters and no panicking operation, hence no `WF`. -/
import TaRs.Gen.OnBalanceVolume
import TaRs.Lemmas.RsLemmas
namespace TaRs.Gen.OnBalanceVolume
open TaRs TaRs.Rs
variable {F : Type} [Scalar F]
/-- the state `new()` builds -/
def fresh : OnBalanceVolume F := { obv := Scalar.lit 0 0, prev_close := Scalar.lit 0 0 }

theorem new_eq : (new : OnBalanceVolume F) = fresh := rfl

end TaRs.Gen.OnBalanceVolume
