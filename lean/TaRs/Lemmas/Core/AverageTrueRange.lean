/- L0 facts about the generated AverageTrueRange (any `[Scalar F]`). -/
import TaRs.Gen.AverageTrueRange
import TaRs.Lemmas.Core.ExponentialMovingAverage
import TaRs.Lemmas.Core.TrueRange
namespace TaRs.Gen.AverageTrueRange
open TaRs TaRs.Rs
variable {F : Type} [Scalar F]
def fresh (p : Nat) : AverageTrueRange F :=
  { true_range := TrueRange.fresh, ema := ExponentialMovingAverage.fresh p }

structure WF (s : AverageTrueRange F) : Prop where
  ema : ExponentialMovingAverage.WF s.ema

theorem new_eq (p : Nat) :
    (new p : Res (AverageTrueRange F)) =
      if p = 0 then .err .InvalidParameter else .ok (fresh p) := by
  unfold new
  try simp only [gen_helper]
  rw [ExponentialMovingAverage.new_eq]
  by_cases h0 : p = 0 <;> simp [h0, bind, Res.bind, fresh, TrueRange.new_eq]

theorem fresh_wf (p : Nat) (hp : 0 < p) : WF (fresh p : AverageTrueRange F) :=
  ⟨ExponentialMovingAverage.fresh_wf p hp⟩

theorem period_fn_eq (s : AverageTrueRange F) : s.period_fn = s.ema.period := rfl

end TaRs.Gen.AverageTrueRange
