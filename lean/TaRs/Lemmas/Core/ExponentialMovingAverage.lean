/- L0 facts about the generated ExponentialMovingAverage (any `[Scalar F]`). -/
import TaRs.Gen.ExponentialMovingAverage
import TaRs.Lemmas.RsLemmas
namespace TaRs.Gen.ExponentialMovingAverage
open TaRs TaRs.Rs
variable {F : Type} [Scalar F]
/-- smoothing factor as the code computes it: `2.0 / (period as f64 + 1.0)` -/
def alpha (p : Nat) : F := Scalar.div (Scalar.lit 2 0) (Scalar.add (Scalar.ofNat p) (Scalar.lit 1 0))

def fresh (p : Nat) : ExponentialMovingAverage F :=
  { period := p, k := alpha p, current := Scalar.lit 0 0, is_new := true }

/-- EMA has no cursor/array state: the only structural facts are about the parameters. -/
structure WF (s : ExponentialMovingAverage F) : Prop where
  pos : 0 < s.period
  kdef : s.k = alpha s.period

/-- `new` rejects exactly period 0 and never panics: no `usize` arithmetic is left in it
    (before the repair `period + 1` overflowed for `usize::MAX`). -/
theorem new_eq (p : Nat) :
    (new p : Res (ExponentialMovingAverage F)) =
      if p = 0 then .err .InvalidParameter else .ok (fresh p) := by
  unfold new
  try simp only [gen_helper]
  cases p with
  | zero => rfl
  | succ n => simp [fresh, alpha, bind, Res.bind]

theorem fresh_wf (p : Nat) (hp : 0 < p) : WF (fresh p : ExponentialMovingAverage F) := ⟨hp, rfl⟩

theorem period_fn_eq (s : ExponentialMovingAverage F) : s.period_fn = s.period := rfl

end TaRs.Gen.ExponentialMovingAverage
