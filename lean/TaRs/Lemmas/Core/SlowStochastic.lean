/- L0 facts about the generated SlowStochastic (any `[Scalar F]`): EMA fed with FastStochastic. -/
import TaRs.Gen.SlowStochastic
import TaRs.Lemmas.Core.FastStochastic
import TaRs.Lemmas.Core.ExponentialMovingAverage
namespace TaRs.Gen.SlowStochastic
open TaRs TaRs.Rs
variable {F : Type} [Scalar F]
/-- the state `new(stochastic_period, ema_period)` builds -/
def fresh (sp ep : Nat) : SlowStochastic F :=
  { fast_stochastic := FastStochastic.fresh sp, ema := ExponentialMovingAverage.fresh ep }

structure WF (s : SlowStochastic F) : Prop where
  fast : FastStochastic.WF s.fast_stochastic
  ema : ExponentialMovingAverage.WF s.ema

/-- `new` exactly as generated: `FastStochastic::new(stochastic_period)?` is evaluated FIRST, so its
    `Err` (period 0) or its capacity-overflow panic (`stochastic_period * 8 > isize::MAX`) wins over
    what `ExponentialMovingAverage::new(ema_period)?` returns (which never panics).  In particular
    `new(2^61, 0)` PANICS rather than returning `Err(InvalidParameter)`: "Err iff some period is 0"
    only holds when the first constructor does not panic (see `new_err_iff`). -/
theorem new_eq (sp ep : Nat) :
    (new sp ep : Res (SlowStochastic F)) =
      if sp = 0 then .err .InvalidParameter
      else if ¬ sp * 8 ≤ isizeMax then .panic
      else if ep = 0 then .err .InvalidParameter
      else .ok (fresh sp ep) := by
  unfold new
  try simp only [gen_helper]
  rw [FastStochastic.new_eq, ExponentialMovingAverage.new_eq]
  by_cases h0 : sp = 0
  · simp [h0, bind, Res.bind]
  · by_cases h1 : sp * 8 ≤ isizeMax
    · by_cases h2 : ep = 0 <;> simp [h0, h1, h2, bind, Res.bind, fresh]
    · simp [h0, h1, bind, Res.bind]

/-- which arguments give `Err`: a zero period, unless the stochastic window overflows first -/
theorem new_err_iff (sp ep : Nat) (e : TaError) :
    (new sp ep : Res (SlowStochastic F)) = .err e ↔
      e = .InvalidParameter ∧ (sp = 0 ∨ (sp * 8 ≤ isizeMax ∧ ep = 0)) := by
  rw [new_eq]
  by_cases h0 : sp = 0
  · simp [h0, eq_comm]
  · by_cases h1 : sp * 8 ≤ isizeMax
    · by_cases h2 : ep = 0 <;> simp [h0, h1, h2, eq_comm]
    · simp [h0, h1]

theorem fresh_wf (sp ep : Nat) (hs : 0 < sp) (h8 : sp * 8 ≤ isizeMax) (he : 0 < ep) :
    WF (fresh sp ep : SlowStochastic F) :=
  ⟨FastStochastic.fresh_wf sp hs h8, ExponentialMovingAverage.fresh_wf ep he⟩

end TaRs.Gen.SlowStochastic
