/- L0 facts about the generated TrueRange (any `[Scalar F]`). -/
import TaRs.Gen.TrueRange
import TaRs.Lemmas.RsLemmas
namespace TaRs.Gen.TrueRange
open TaRs TaRs.Rs
variable {F : Type} [Scalar F]
def fresh : TrueRange F := { prev_close := none }

theorem new_eq : (new : TrueRange F) = fresh := rfl

end TaRs.Gen.TrueRange
