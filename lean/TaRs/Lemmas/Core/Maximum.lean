/-
  L0 (structural) facts about the GENERATED model of Maximum, valid for every `[Scalar F]`
  (no law about the comparison `Scalar.lt` is used: they hold for the f64 semantics, NaN included).  Mirror image of Minimum.
-/
import TaRs.Gen.Maximum
import TaRs.Lemmas.RsLemmas
namespace TaRs.Gen.Maximum
open TaRs TaRs.Rs

variable {F : Type} [Scalar F]
/-- the state `new(period)` builds -/
def fresh (p : Nat) : Maximum F :=
  { period := p, max_index := 0, cur_index := 0, deque := Array.replicate p Scalar.negInf }

/-- structural well-formedness: everything `next`/`reset` need in order not to panic -/
structure WF (s : Maximum F) : Prop where
  pos : 0 < s.period
  small : s.period * 8 ≤ isizeMax
  size : s.deque.size = s.period
  cur : s.cur_index < s.period
  mx : s.max_index < s.period

theorem new_eq (p : Nat) :
    (new p : Res (Maximum F)) =
      if p = 0 then .err .InvalidParameter
      else if p * 8 ≤ isizeMax then .ok (fresh p) else .panic := by
  unfold new
  try simp only [gen_helper]
  cases p with
  | zero => rfl
  | succ n =>
    by_cases h : (n + 1) * 8 ≤ isizeMax
    · simp [vecNew_eq _ _ h, h, fresh, bind, Res.bind]
    · simp [vecNew_none _ _ (by omega : isizeMax < (n + 1) * 8), h, bind, Res.bind]

theorem fresh_wf (p : Nat) (hp : 0 < p) (h8 : p * 8 ≤ isizeMax) : WF (fresh p : Maximum F) :=
  ⟨hp, h8, by simp [fresh], hp, hp⟩

omit [Scalar F] in
theorem period_fn_eq (s : Maximum F) : s.period_fn = s.period := rfl

end TaRs.Gen.Maximum
