/- L0 facts about the generated ChandelierExit (any `[Scalar F]`): ATR + Minimum + Maximum wiring. -/
import TaRs.Lemmas.Core.ChandelierExit
import TaRs.Gen.ChandelierExit
import TaRs.Lemmas.Minimum
import TaRs.Lemmas.Maximum
import TaRs.Lemmas.AverageTrueRange
namespace TaRs.Gen.ChandelierExit
open TaRs TaRs.Rs
variable {F : Type} [Scalar F]

/-- the three components see the SAME bar (ATR first, then Minimum on `low`, then Maximum on `high`);
    `long = highest − ATR·multiplier`, `short = lowest + ATR·multiplier` -/
theorem nextBar_wiring (s : ChandelierExit F) (b : Bar F)
    (atr' : AverageTrueRange F) (a : F) (mn' : Minimum F) (lo : F) (mx' : Maximum F) (hi : F)
    (h1 : s.atr.nextBar b = some (atr', a)) (h2 : s.min.nextBar b = some (mn', lo))
    (h3 : s.max.nextBar b = some (mx', hi)) :
    s.nextBar b = some ({ atr := atr', min := mn', max := mx', multiplier := s.multiplier },
      { long := Scalar.sub hi (Scalar.mul a s.multiplier),
        short := Scalar.add lo (Scalar.mul a s.multiplier) }) := by
  unfold nextBar
  try simp only [gen_helper]
  simp [h1, h2, h3]

/-- panic propagation: the ATR never panics, so `nextBar` panics iff a window does -/
theorem nextBar_none_iff (s : ChandelierExit F) (b : Bar F) :
    s.nextBar b = none ↔ s.min.nextBar b = none ∨ s.max.nextBar b = none := by
  -- independent of the order in which the three components are called
  have h1 := AverageTrueRange.nextBar_eq s.atr b
  unfold nextBar
  try simp only [gen_helper]
  cases h2 : s.min.nextBar b <;> cases h3 : s.max.nextBar b <;> simp [h1, h2, h3]

theorem nextBar_total (s : ChandelierExit F) (b : Bar F) (h : WF s) :
    ∃ r, s.nextBar b = some r ∧ WF r.1 ∧ r.1.period_fn = s.period_fn ∧
      r.1.multiplier = s.multiplier := by
  obtain ⟨⟨atr', a⟩, e1, w1, p1⟩ := AverageTrueRange.nextBar_total s.atr b h.atr
  obtain ⟨⟨mn', lo⟩, e2, w2, p2⟩ := Minimum.nextBar_total s.min b h.min
  obtain ⟨⟨mx', hi⟩, e3, w3, p3⟩ := Maximum.nextBar_total s.max b h.max
  refine ⟨_, nextBar_wiring s b atr' a mn' lo mx' hi e1 e2 e3, ⟨w1, w2, w3, ?_, ?_⟩, p1, rfl⟩
  · exact (p2.trans h.pmin).trans p1.symm
  · exact (p3.trans h.pmax).trans p1.symm

end TaRs.Gen.ChandelierExit
