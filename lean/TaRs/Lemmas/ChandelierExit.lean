/- L0 facts about the generated ChandelierExit (any `[Scalar F]`): ATR + Minimum + Maximum wiring. -/
import TaRs.Lemmas.Core.ChandelierExit
import TaRs.Gen.ChandelierExit
import TaRs.Lemmas.Minimum
import TaRs.Lemmas.Maximum
import TaRs.Lemmas.AverageTrueRange
import TaRs.Lemmas.Total.ChandelierExit
namespace TaRs.Gen.ChandelierExit
open TaRs TaRs.Rs
variable {F : Type} [Scalar F]

/-- the three components see the SAME bar (ATR first, then Minimum on `low`, then Maximum on `high`);
    `long = highest − ATR·multiplier`, `short = lowest + ATR·multiplier` -/
theorem nextBar_wiring (s : ChandelierExit F) (b : Bar F)
    (atr' : AverageTrueRange F) (a : F) (mn' : Minimum F) (lo : F) (mx' : Maximum F) (hi : F)
    (h1 : s.atr.nextBar b = some (atr', a)) (h2 : s.min.nextBar b = some (mn', lo))
    (h3 : s.max.nextBar b = some (mx', hi)) :
    s.nextBar b = some ({ atr := atr', min := mn', max := mx', multiplier := s.multiplier },
      { long := Scalar.sub hi (Scalar.mul a s.multiplier),
        short := Scalar.add lo (Scalar.mul a s.multiplier) }) := by
  unfold nextBar
  try simp only [gen_helper]
  simp [h1, h2, h3]

/-- panic propagation: the ATR never panics, so `nextBar` panics iff a window does -/
theorem nextBar_none_iff (s : ChandelierExit F) (b : Bar F) :
    s.nextBar b = none ↔ s.min.nextBar b = none ∨ s.max.nextBar b = none := by
  -- independent of the order in which the three components are called
  have h1 := AverageTrueRange.nextBar_eq s.atr b
  unfold nextBar
  try simp only [gen_helper]
  cases h2 : s.min.nextBar b <;> cases h3 : s.max.nextBar b <;> simp [h1, h2, h3]

end TaRs.Gen.ChandelierExit
