/- L0 facts about the generated ChandelierExit (any `[Scalar F]`): ATR + Minimum + Maximum wiring. -/
import TaRs.Gen.ChandelierExit
import TaRs.Lemmas.Minimum
import TaRs.Lemmas.Maximum
import TaRs.Lemmas.AverageTrueRange
namespace TaRs.Gen.ChandelierExit
open TaRs TaRs.Rs
variable {F : Type} [Scalar F]

/-- the state `new(period, multiplier)` builds -/
def fresh (p : Nat) (m : F) : ChandelierExit F :=
  { atr := AverageTrueRange.fresh p, min := Minimum.fresh p, max := Maximum.fresh p, multiplier := m }

/-- the three components are well-formed and share one period (the struct has no `period` field:
    `period()` reads it from the ATR) -/
structure WF (s : ChandelierExit F) : Prop where
  atr : AverageTrueRange.WF s.atr
  min : Minimum.WF s.min
  max : Maximum.WF s.max
  pmin : s.min.period = s.atr.period_fn
  pmax : s.max.period = s.atr.period_fn

/-- `new` exactly as generated: `AverageTrueRange::new(period)?`, then `Minimum::new(period)?`, then
    `Maximum::new(period)?`.  All three return `Err` on 0; the ATR constructor never panics, and
    for `period ≠ 0` the two windows panic on the same condition (`period * 8 > isize::MAX`,
    `vec!` capacity overflow), so the order of the calls is not observable. -/
theorem new_eq (p : Nat) (m : F) :
    (new p m : Res (ChandelierExit F)) =
      if p = 0 then .err .InvalidParameter
      else if p * 8 ≤ isizeMax then .ok (fresh p m) else .panic := by
  unfold new
  rw [AverageTrueRange.new_eq, Minimum.new_eq, Maximum.new_eq]
  by_cases h0 : p = 0
  · simp [h0, bind, Res.bind]
  · by_cases h1 : p * 8 ≤ isizeMax <;> simp [h0, h1, bind, Res.bind, fresh]

theorem fresh_wf (p : Nat) (m : F) (hp : 0 < p) (h8 : p * 8 ≤ isizeMax) :
    WF (fresh p m : ChandelierExit F) :=
  ⟨AverageTrueRange.fresh_wf p hp, Minimum.fresh_wf p hp h8, Maximum.fresh_wf p hp h8, rfl, rfl⟩

/-- the three components see the SAME bar (ATR first, then Minimum on `low`, then Maximum on `high`);
    `long = highest − ATR·multiplier`, `short = lowest + ATR·multiplier` -/
theorem nextBar_wiring (s : ChandelierExit F) (b : Bar F)
    (atr' : AverageTrueRange F) (a : F) (mn' : Minimum F) (lo : F) (mx' : Maximum F) (hi : F)
    (h1 : s.atr.nextBar b = some (atr', a)) (h2 : s.min.nextBar b = some (mn', lo))
    (h3 : s.max.nextBar b = some (mx', hi)) :
    s.nextBar b = some ({ atr := atr', min := mn', max := mx', multiplier := s.multiplier },
      { long := Scalar.sub hi (Scalar.mul a s.multiplier),
        short := Scalar.add lo (Scalar.mul a s.multiplier) }) := by
  unfold nextBar
  simp [h1, h2, h3]

/-- panic propagation: the ATR never panics, so `nextBar` panics iff a window does -/
theorem nextBar_none_iff (s : ChandelierExit F) (b : Bar F) :
    s.nextBar b = none ↔ s.min.nextBar b = none ∨ s.max.nextBar b = none := by
  unfold nextBar
  rw [AverageTrueRange.nextBar_eq]
  cases h2 : s.min.nextBar b <;> cases h3 : s.max.nextBar b <;> simp [h2, h3]

theorem nextBar_total (s : ChandelierExit F) (b : Bar F) (h : WF s) :
    ∃ r, s.nextBar b = some r ∧ WF r.1 ∧ r.1.period_fn = s.period_fn ∧
      r.1.multiplier = s.multiplier := by
  obtain ⟨⟨atr', a⟩, e1, w1, p1⟩ := AverageTrueRange.nextBar_total s.atr b h.atr
  obtain ⟨⟨mn', lo⟩, e2, w2, p2⟩ := Minimum.nextBar_total s.min b h.min
  obtain ⟨⟨mx', hi⟩, e3, w3, p3⟩ := Maximum.nextBar_total s.max b h.max
  refine ⟨_, nextBar_wiring s b atr' a mn' lo mx' hi e1 e2 e3, ⟨w1, w2, w3, ?_, ?_⟩, p1, rfl⟩
  · exact (p2.trans h.pmin).trans p1.symm
  · exact (p3.trans h.pmax).trans p1.symm

omit [Scalar F] in
theorem period_fn_eq (s : ChandelierExit F) : s.period_fn = s.atr.ema.period := rfl

omit [Scalar F] in
theorem multiplier_fn_eq (s : ChandelierExit F) : s.multiplier_fn = s.multiplier := rfl

end TaRs.Gen.ChandelierExit
