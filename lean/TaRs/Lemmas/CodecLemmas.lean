/-
  Round-trip and length lemmas for the leaf codecs of `TaRs.Prelude.Codec` (model of
  bincode 1.x, fixed-width little-endian).  Every round-trip lemma has the shape
      dec (enc a ++ rest) = some (a, rest)
  so that the per-struct codecs (a concatenation of field encodings / a sequence of field
  decoders) compose by plain rewriting.  Core Lean only.
-/
import TaRs.Prelude.Codec
namespace TaRs.Codec

/-! ### u64 / usize -/

/-- the eight little-endian digits, spelled out -/
theorem encU64_eq (n : Nat) :
    encU64 n =
      [UInt8.ofNat (n / 256 ^ 0 % 256), UInt8.ofNat (n / 256 ^ 1 % 256),
       UInt8.ofNat (n / 256 ^ 2 % 256), UInt8.ofNat (n / 256 ^ 3 % 256),
       UInt8.ofNat (n / 256 ^ 4 % 256), UInt8.ofNat (n / 256 ^ 5 % 256),
       UInt8.ofNat (n / 256 ^ 6 % 256), UInt8.ofNat (n / 256 ^ 7 % 256)] := rfl

@[simp] theorem encU64_length (n : Nat) : (encU64 n).length = 8 := by
  rw [encU64_eq]; rfl

private theorem toNat_ofNat_mod (k : Nat) : (UInt8.ofNat (k % 256)).toNat = k % 256 := by
  rw [UInt8.toNat_ofNat']
  omega

private theorem pow_2_64 : (2 : Nat) ^ 64 = 256 ^ 8 := by decide

/-- base-256 positional reconstruction: folding the first `k` of `m ≥ k` little-endian digits
    of `n` gives `n mod 256^k` (proved for symbolic `k`, so that no power of 256 is ever
    evaluated in unary by the unifier) -/
theorem digits_fold_gen (n m : Nat) : ∀ k, k ≤ m →
    (List.range k).foldl
      (fun acc i =>
        acc + (((List.range m).map (fun i => UInt8.ofNat ((n / 256 ^ i) % 256))).getD i 0).toNat * 256 ^ i) 0
      = n % 256 ^ k := by
  intro k
  induction k with
  | zero => intro _; simp [Nat.mod_one]
  | succ k ih =>
    intro hk
    have hk' : k < m := hk
    rw [List.range_succ, List.foldl_append, ih (Nat.le_of_lt hk')]
    simp only [List.foldl_cons, List.foldl_nil]
    have hd : ((List.range m).map (fun i => UInt8.ofNat ((n / 256 ^ i) % 256))).getD k 0
        = UInt8.ofNat ((n / 256 ^ k) % 256) := by
      simp [List.getD, hk']
    rw [hd, toNat_ofNat_mod, Nat.mod_pow_succ, Nat.mul_comm]

/-- the fold of `decU64` over the eight digits of `n` reconstructs `n mod 2^64` -/
theorem digits_fold (n : Nat) :
    (List.range 8).foldl (fun acc i => acc + ((encU64 n).getD i 0).toNat * 256 ^ i) 0 = n % 2 ^ 64 := by
  rw [pow_2_64]
  exact digits_fold_gen n 8 8 (Nat.le_refl 8)

theorem decU64_encU64_mod (n : Nat) (r : List UInt8) :
    decU64 (encU64 n ++ r) = some (n % 2 ^ 64, r) := by
  unfold decU64
  have hl : ¬ (encU64 n ++ r).length < 8 := by simp
  have ht : (encU64 n ++ r).take 8 = encU64 n := by
    rw [List.take_append_of_le_length (by simp)]
    exact List.take_of_length_le (by simp)
  have hd : (encU64 n ++ r).drop 8 = r := by
    rw [List.drop_append_of_le_length (by simp)]
    rw [List.drop_of_length_le (by simp)]
    rfl
  simp only [hl, if_false, ht, hd, digits_fold]

theorem decU64_encU64 (n : Nat) (h : n < 2 ^ 64) (r : List UInt8) :
    decU64 (encU64 n ++ r) = some (n, r) := by
  rw [decU64_encU64_mod, Nat.mod_eq_of_lt h]

@[simp] theorem encUsize_length (n : Nat) : (encUsize n).length = 8 := encU64_length n

theorem decUsize_encUsize (n : Nat) (h : n < 2 ^ 64) (r : List UInt8) :
    decUsize (encUsize n ++ r) = some (n, r) := decU64_encU64 n h r

/-! ### f64 (as its bit pattern) -/

@[simp] theorem encF_length {F} (tb : F → UInt64) (x : F) : (encF tb x).length = 8 := encU64_length _

theorem ofNat_toNat (w : UInt64) : UInt64.ofNat w.toNat = w := UInt64.ofNat_toNat

theorem decF_encF {F} (tb : F → UInt64) (ob : UInt64 → F) (hob : ∀ x, ob (tb x) = x) (x : F)
    (r : List UInt8) : decF ob (encF tb x ++ r) = some (x, r) := by
  unfold decF encF
  rw [decU64_encU64 _ (tb x).toNat_lt r]
  simp [hob]

/-! ### bool, Option<f64> -/

@[simp] theorem encBool_length (b : Bool) : (encBool b).length = 1 := rfl

theorem decBool_encBool (b : Bool) (r : List UInt8) : decBool (encBool b ++ r) = some (b, r) := by
  cases b <;> rfl

theorem encOptF_length {F} (tb : F → UInt64) (x : Option F) :
    (encOptF tb x).length = if x.isSome then 9 else 1 := by
  cases x <;> simp [encOptF]

@[simp] theorem encOptF_length_none {F} (tb : F → UInt64) : (encOptF tb (none : Option F)).length = 1 := rfl
@[simp] theorem encOptF_length_some {F} (tb : F → UInt64) (v : F) : (encOptF tb (some v)).length = 9 := by
  simp [encOptF]

theorem decOptF_encOptF {F} (tb : F → UInt64) (ob : UInt64 → F) (hob : ∀ x, ob (tb x) = x)
    (x : Option F) (r : List UInt8) : decOptF ob (encOptF tb x ++ r) = some (x, r) := by
  cases x with
  | none => rfl
  | some v =>
    simp [decOptF, encOptF, decF_encF tb ob hob]

/-! ### sequences -/

@[simp] theorem encList_length {F} (tb : F → UInt64) (l : List F) :
    (encList tb l).length = 8 * l.length := by
  induction l with
  | nil => rfl
  | cons x xs ih => simp [encList, ih]; omega

theorem decList_encList {F} (tb : F → UInt64) (ob : UInt64 → F) (hob : ∀ x, ob (tb x) = x)
    (l : List F) (r : List UInt8) : decList ob l.length (encList tb l ++ r) = some (l, r) := by
  induction l with
  | nil => rfl
  | cons x xs ih =>
    simp only [encList, List.length_cons, decList, List.append_assoc]
    rw [decF_encF tb ob hob]
    simp [ih]

@[simp] theorem encArr_length {F} (tb : F → UInt64) (a : Array F) :
    (encArr tb a).length = 8 + 8 * a.size := by
  simp [encArr]

theorem decArr_encArr {F} (tb : F → UInt64) (ob : UInt64 → F) (hob : ∀ x, ob (tb x) = x)
    (a : Array F) (h : a.size < 2 ^ 64) (r : List UInt8) :
    decArr ob (encArr tb a ++ r) = some (a, r) := by
  unfold decArr encArr
  rw [List.append_assoc, decU64_encU64 _ h]
  have hl := decList_encList tb ob hob a.toList r
  rw [Array.length_toList] at hl
  simp [hl]
  omega

/-- the length-prefix guard of `decArr` really rejects: a prefix announcing more elements
    than the remaining bytes can hold is an error (as in bincode) -/
theorem decArr_short {F} (ob : UInt64 → F) (n : Nat) (h : n < 2 ^ 64) (r : List UInt8)
    (hs : r.length < n * 8) : decArr ob (encU64 n ++ r) = none := by
  unfold decArr
  rw [decU64_encU64 _ h]
  simp [hs]

/-! ### sequencing -/

/-- A round-trip fact in "bind form": the way a decoder is used inside a struct decoder.
    Struct proofs rewrite with this (a propositional rewrite) instead of reducing
    `(some _).bind _` definitionally; otherwise the kernel, comparing `some _` with
    `decU64 (encU64 n ++ _)`, starts evaluating the decoder on the symbolic bytes. -/
theorem bind_rt {A B : Type} {d : List UInt8 → Option (A × List UInt8)} {bs : List UInt8} {a : A}
    (h : ∀ r, d (bs ++ r) = some (a, r)) (r : List UInt8) (k : A × List UInt8 → Option B) :
    (d (bs ++ r) >>= k) = k (a, r) := by
  rw [h r]; rfl

end TaRs.Codec
