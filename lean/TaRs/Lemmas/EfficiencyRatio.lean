/-
  L0 (structural) facts about the GENERATED model of EfficiencyRatio, valid for every
  `[Scalar F]` (no law about the arithmetic is used).
-/
import TaRs.Gen.EfficiencyRatio
import TaRs.Lemmas.RsLemmas
namespace TaRs.Gen.EfficiencyRatio
open TaRs TaRs.Rs

variable {F : Type} [Scalar F]

/-- the state `new(period)` builds -/
def fresh (p : Nat) : EfficiencyRatio F :=
  { period := p, index := 0, count := 0, deque := Array.replicate p (Scalar.lit 0 0) }

/-- structural well-formedness: everything `next`/`reset` need in order not to panic.
    Besides the usual window facts, `&self.deque[self.index..self.count]` is evaluated AFTER
    the cursor and the count were advanced, so it needs `index' ≤ count'`; while the window is
    still filling this only holds because the cursor equals the count (`fill`).  A state with
    `count < period` and `index > count` (reachable only through deserialisation) makes
    `next` panic with "slice index starts at .. but ends at ..". -/
structure WF (s : EfficiencyRatio F) : Prop where
  pos : 0 < s.period
  small : s.period * 8 ≤ isizeMax
  size : s.deque.size = s.period
  idx : s.index < s.period
  cnt : s.count ≤ s.period
  fill : s.count < s.period → s.index = s.count

theorem new_eq (p : Nat) :
    (new p : Res (EfficiencyRatio F)) =
      if p = 0 then .err .InvalidParameter
      else if p * 8 ≤ isizeMax then .ok (fresh p) else .panic := by
  unfold new
  cases p with
  | zero => rfl
  | succ n =>
    by_cases h : (n + 1) * 8 ≤ isizeMax
    · simp [vecNew_eq _ _ h, h, fresh, bind, Res.bind]
    · simp [vecNew_none _ _ (by omega : isizeMax < (n + 1) * 8), h, bind, Res.bind]

theorem fresh_wf (p : Nat) (hp : 0 < p) (h8 : p * 8 ≤ isizeMax) : WF (fresh p : EfficiencyRatio F) :=
  ⟨hp, h8, by simp [fresh], hp, by simp [fresh], by simp [fresh]⟩

/-- `next` never panics on a well-formed state, keeps it well-formed and keeps the period.
    (The two `for` loops are pure folds; only the two slice ranges matter.) -/
theorem next_total (s : EfficiencyRatio F) (x : F) (h : WF s) :
    ∃ r, s.next x = some r ∧ WF r.1 ∧ r.1.period = s.period := by
  obtain ⟨hp, hs, hsz, hi, hc, hf⟩ := h
  have hm : isizeMax < usizeMax := by decide
  unfold next
  by_cases c1 : s.index + 1 < s.period <;> by_cases c2 : s.period ≤ s.count <;>
    simp (disch := first | omega | (simp only [Array.size_setIfInBounds]; omega))
      [index_eq, setIndex_eq, uadd_eq, slice_eq, c1, c2] <;>
    constructor <;> simp_all <;> omega

/-- the `fill` clause of `WF` is not decoration: on a (deserialised) state whose cursor is ahead
    of the count while the window is still filling, `next` panics in
    `&self.deque[self.index..self.count]`. -/
theorem next_none_of_gap (s : EfficiencyRatio F) (x : F)
    (hsz : s.deque.size = s.period) (hs : s.period * 8 ≤ isizeMax)
    (h1 : s.count < s.index) (h2 : s.index + 1 < s.period) : s.next x = none := by
  have hm : isizeMax < usizeMax := by decide
  have c2 : ¬ s.period ≤ s.count := by omega
  unfold next
  simp (disch := first | omega | (simp only [Array.size_setIfInBounds]; omega))
      [index_eq, setIndex_eq, uadd_eq, h2, c2]
  simp [slice]
  omega

theorem nextBar_eq (s : EfficiencyRatio F) (b : Bar F) : s.nextBar b = s.next b.close := by
  unfold nextBar
  cases h : s.next b.close <;> simp

/-- `reset` rebuilds exactly the state `new` builds (state equality: any history, any values) -/
theorem reset_eq (s : EfficiencyRatio F) (h : WF s) : s.reset = some (fresh s.period) := by
  unfold reset
  simp [fill_all _ _ _ h.size, fresh]

theorem period_fn_eq (s : EfficiencyRatio F) : s.period_fn = s.period := rfl

theorem display_eq (fmt : F → String) (s : EfficiencyRatio F) :
    display fmt s = "ER(" ++ toString s.period ++ ")" := rfl

theorem default_eq : (default_ : Option (EfficiencyRatio F)) = some (fresh 14) := by
  unfold default_
  rw [new_eq]
  simp [unwrap, isizeMax]

end TaRs.Gen.EfficiencyRatio
