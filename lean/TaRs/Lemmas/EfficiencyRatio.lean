/-
  L0 (structural) facts about the GENERATED model of EfficiencyRatio, valid for every
  `[Scalar F]` (no law about the arithmetic is used).
-/
import TaRs.Lemmas.Core.EfficiencyRatio
import TaRs.Gen.EfficiencyRatio
import TaRs.Lemmas.RsLemmas
import TaRs.Lemmas.Total.EfficiencyRatio
import TaRs.Lemmas.Bar.EfficiencyRatio
namespace TaRs.Gen.EfficiencyRatio
open TaRs TaRs.Rs

variable {F : Type} [Scalar F]

/-- one iteration of either `for n in ..` loop: `(volatility, previous)` ↦ `(volatility + |previous - n|, n)` -/
def volStep (acc : F × F) (n : F) : F × F :=
  (Scalar.add acc.1 (Scalar.abs (Scalar.sub acc.2 n)), n)

theorem volStep_def :
    (volStep : F × F → F → F × F) =
      fun acc x => (Scalar.add acc.fst (Scalar.abs (Scalar.sub acc.snd x)), x) := rfl

/-- the volatility the two loops compute on a window `d` with cursor `index` and fill `count`,
    starting from `previous = first`: first over `d[index..count]`, then over `d[0..index]` -/
def volatility (d : Array F) (index count : Nat) (first : F) : Option F := do
  let l1 ← slice d index count
  let l2 ← slice d 0 index
  let a := l1.foldl volStep (Scalar.lit 0 0, first)
  pure (l2.foldl volStep (a.1, a.2)).1

/-- the oldest value of the window, as read by `next` BEFORE the new input is stored -/
def first (s : EfficiencyRatio F) : Option F :=
  if s.period ≤ s.count then Rs.index s.deque s.index else Rs.index s.deque 0

/-- the state after `next x` -/
def step (s : EfficiencyRatio F) (x : F) : EfficiencyRatio F :=
  { period := s.period,
    index := if s.index + 1 < s.period then s.index + 1 else 0,
    count := if s.period ≤ s.count then s.count else s.count + 1,
    deque := s.deque.setIfInBounds s.index x }

/-- Normal form of `next` on a well-formed state (`first`, `step`, `volatility` are hand-written,
    with my own canonical spelling of the two tests).  This and `next_none_of_gap` (a NON-well-formed
    state) are the only facts proved by executing the generated body; they do so with
    `rs_exec_prune`, which does not depend on how the wrap-around and warm-up tests are spelled.
    Everything else (here and in `Exact/EfficiencyRatio.lean`) is derived from it. -/
theorem next_eq (s : EfficiencyRatio F) (x : F) (h : WF s) :
    s.next x =
      (first s).bind fun f =>
      (volatility (step s x).deque (step s x).index (step s x).count f).bind fun vol =>
      some (step s x,
            if Scalar.beq vol (Scalar.lit 0 0) then Scalar.lit 1 0
            else Scalar.div (Scalar.abs (Scalar.sub f x)) vol) := by
  obtain ⟨hp, hs, hsz, hi, hc, hfl⟩ := h
  have hm : isizeMax < usizeMax := by decide
  unfold next first volatility step
  try simp only [gen_helper]
  simp only [volStep_def]
  rs_exec_prune
  all_goals (first | rfl | contradiction)

/-- The zero-volatility guard: the output is `1` whenever the computed volatility tests equal
    to `0`, and the division is only reached otherwise. -/
theorem next_guard (s : EfficiencyRatio F) (x : F) (h : WF s) (f vol : F)
    (hf : first s = some f)
    (hv : volatility (step s x).deque (step s x).index (step s x).count f = some vol) :
    s.next x =
      some (step s x,
            if Scalar.beq vol (Scalar.lit 0 0) then Scalar.lit 1 0
            else Scalar.div (Scalar.abs (Scalar.sub f x)) vol) := by
  rw [next_eq s x h, hf, Option.bind_some, hv, Option.bind_some]

/-- on a well-formed state the oldest value and the volatility are always defined -/
theorem first_volatility_total (s : EfficiencyRatio F) (x : F) (h : WF s) :
    ∃ f vol, first s = some f ∧
      volatility (step s x).deque (step s x).index (step s x).count f = some vol := by
  obtain ⟨hp, hs, hsz, hi, hc, hfl⟩ := h
  unfold first volatility step
  by_cases c1 : s.index + 1 < s.period <;> by_cases c2 : s.period ≤ s.count <;>
    simp (disch := first | omega | (simp only [Array.size_setIfInBounds]; omega))
      [index_eq, slice_eq, c1, c2]

/-- the `fill` clause of `WF` is not decoration: on a (deserialised) state whose cursor is ahead
    of the count while the window is still filling, `next` panics in
    `&self.deque[self.index..self.count]`. -/
theorem next_none_of_gap (s : EfficiencyRatio F) (x : F)
    (hsz : s.deque.size = s.period) (hs : s.period * 8 ≤ isizeMax)
    (h1 : s.count < s.index) (h2 : s.index + 1 < s.period) : s.next x = none := by
  have hm : isizeMax < usizeMax := by decide
  unfold next
  try simp only [gen_helper]
  rs_exec_prune
  all_goals simp (disch := omega) only [slice_none, Option.bind_none]

end TaRs.Gen.EfficiencyRatio
