/-
  L0 (structural) facts about the GENERATED model of SimpleMovingAverage, valid for every
  `[Scalar F]` (no law about the arithmetic is used, so they hold for the f64 semantics,
  NaN and ±∞ included).  Template for the other windowed indicators.
-/
import TaRs.Lemmas.Core.SimpleMovingAverage
import TaRs.Gen.SimpleMovingAverage
import TaRs.Lemmas.RsLemmas
import TaRs.Lemmas.Total.SimpleMovingAverage
import TaRs.Lemmas.Bar.SimpleMovingAverage
namespace TaRs.Gen.SimpleMovingAverage
open TaRs TaRs.Rs

variable {F : Type} [Scalar F]

/-- Normal form of one `next` on a well-formed state.  This is the ONLY fact about `next` proved
    by executing the generated body; it does so with `rs_exec`, which does not depend on how the
    wrap-around and warm-up tests are spelled.  Everything else is derived from it. -/
theorem next_eq (s : SimpleMovingAverage F) (x v : F) (h : WF s) (hv : s.deque[s.index]? = some v) :
    s.next x = some (
      { period := s.period,
        index := if s.index + 1 < s.period then s.index + 1 else 0,
        count := if s.count < s.period then s.count + 1 else s.count,
        sum := Scalar.add (Scalar.sub s.sum v) x,
        deque := s.deque.setIfInBounds s.index x },
      Scalar.div (Scalar.add (Scalar.sub s.sum v) x)
        (Scalar.ofNat (if s.count < s.period then s.count + 1 else s.count))) := by
  obtain ⟨hp, hs, hsz, hi, hc⟩ := h
  have hm : isizeMax < usizeMax := by decide
  have hix : s.index < s.deque.size := by omega
  rw [Array.getElem?_eq_getElem hix] at hv
  have hv := Option.some.inj hv
  unfold next
  try simp only [gen_helper]
  rs_exec
  all_goals (first | omega | (subst hv; rfl))

end TaRs.Gen.SimpleMovingAverage
