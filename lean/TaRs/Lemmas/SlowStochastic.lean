/- L0 facts about the generated SlowStochastic (any `[Scalar F]`): EMA fed with FastStochastic. -/
import TaRs.Lemmas.Core.SlowStochastic
import TaRs.Gen.SlowStochastic
import TaRs.Lemmas.FastStochastic
import TaRs.Lemmas.ExponentialMovingAverage
namespace TaRs.Gen.SlowStochastic
open TaRs TaRs.Rs
variable {F : Type} [Scalar F]

/-- scalar path: output = EMA step applied to the FastStochastic output -/
theorem next_wiring (s : SlowStochastic F) (x : F) (fs' : FastStochastic F) (k : F)
    (h : s.fast_stochastic.next x = some (fs', k)) :
    s.next x = some ({ fast_stochastic := fs', ema := ExponentialMovingAverage.step s.ema k },
      (ExponentialMovingAverage.step s.ema k).current) := by
  unfold next
  try simp only [gen_helper]
  simp [h, ExponentialMovingAverage.next_eq]

/-- bar path: output = EMA step applied to the FastStochastic bar output -/
theorem nextBar_wiring (s : SlowStochastic F) (b : Bar F) (fs' : FastStochastic F) (k : F)
    (h : s.fast_stochastic.nextBar b = some (fs', k)) :
    s.nextBar b = some ({ fast_stochastic := fs', ema := ExponentialMovingAverage.step s.ema k },
      (ExponentialMovingAverage.step s.ema k).current) := by
  unfold nextBar
  try simp only [gen_helper]
  simp [h, ExponentialMovingAverage.next_eq]

/-- panic propagation: the EMA never panics, so `next` panics iff the FastStochastic does -/
theorem next_none_iff (s : SlowStochastic F) (x : F) :
    s.next x = none ↔ s.fast_stochastic.next x = none := by
  unfold next
  try simp only [gen_helper]
  cases h : s.fast_stochastic.next x <;> simp [ExponentialMovingAverage.next_eq]

theorem nextBar_none_iff (s : SlowStochastic F) (b : Bar F) :
    s.nextBar b = none ↔ s.fast_stochastic.nextBar b = none := by
  unfold nextBar
  try simp only [gen_helper]
  cases h : s.fast_stochastic.nextBar b <;> simp [ExponentialMovingAverage.next_eq]

/-- SlowStochastic has no `period` field / `period_fn`: "parameters unchanged" = both component periods -/
theorem next_total (s : SlowStochastic F) (x : F) (h : WF s) :
    ∃ r, s.next x = some r ∧ WF r.1 ∧
      r.1.fast_stochastic.period = s.fast_stochastic.period ∧ r.1.ema.period = s.ema.period := by
  obtain ⟨⟨fs', k⟩, e1, w1, p1⟩ := FastStochastic.next_total s.fast_stochastic x h.fast
  obtain ⟨r, hr, w2, p2⟩ := ExponentialMovingAverage.next_total s.ema k h.ema
  rw [ExponentialMovingAverage.next_eq] at hr
  cases hr
  exact ⟨_, next_wiring s x fs' k e1, ⟨w1, w2⟩, p1, p2⟩

theorem nextBar_total (s : SlowStochastic F) (b : Bar F) (h : WF s) :
    ∃ r, s.nextBar b = some r ∧ WF r.1 ∧
      r.1.fast_stochastic.period = s.fast_stochastic.period ∧ r.1.ema.period = s.ema.period := by
  obtain ⟨⟨fs', k⟩, e1, w1, p1⟩ := FastStochastic.nextBar_total s.fast_stochastic b h.fast
  obtain ⟨r, hr, w2, p2⟩ := ExponentialMovingAverage.next_total s.ema k h.ema
  rw [ExponentialMovingAverage.next_eq] at hr
  cases hr
  exact ⟨_, nextBar_wiring s b fs' k e1, ⟨w1, w2⟩, p1, p2⟩

end TaRs.Gen.SlowStochastic
