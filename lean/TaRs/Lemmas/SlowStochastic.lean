/- L0 facts about the generated SlowStochastic (any `[Scalar F]`): EMA fed with FastStochastic. -/
import TaRs.Gen.SlowStochastic
import TaRs.Lemmas.FastStochastic
import TaRs.Lemmas.ExponentialMovingAverage
namespace TaRs.Gen.SlowStochastic
open TaRs TaRs.Rs
variable {F : Type} [Scalar F]

/-- the state `new(stochastic_period, ema_period)` builds -/
def fresh (sp ep : Nat) : SlowStochastic F :=
  { fast_stochastic := FastStochastic.fresh sp, ema := ExponentialMovingAverage.fresh ep }

structure WF (s : SlowStochastic F) : Prop where
  fast : FastStochastic.WF s.fast_stochastic
  ema : ExponentialMovingAverage.WF s.ema

/-- `new` exactly as generated: `FastStochastic::new(stochastic_period)?` is evaluated FIRST, so its
    `Err` (period 0) or its capacity-overflow panic (`stochastic_period * 8 > isize::MAX`) wins over
    what `ExponentialMovingAverage::new(ema_period)?` returns (which never panics).  In particular
    `new(2^61, 0)` PANICS rather than returning `Err(InvalidParameter)`: "Err iff some period is 0"
    only holds when the first constructor does not panic (see `new_err_iff`). -/
theorem new_eq (sp ep : Nat) :
    (new sp ep : Res (SlowStochastic F)) =
      if sp = 0 then .err .InvalidParameter
      else if ¬ sp * 8 ≤ isizeMax then .panic
      else if ep = 0 then .err .InvalidParameter
      else .ok (fresh sp ep) := by
  unfold new
  rw [FastStochastic.new_eq, ExponentialMovingAverage.new_eq]
  by_cases h0 : sp = 0
  · simp [h0, bind, Res.bind]
  · by_cases h1 : sp * 8 ≤ isizeMax
    · by_cases h2 : ep = 0 <;> simp [h0, h1, h2, bind, Res.bind, fresh]
    · simp [h0, h1, bind, Res.bind]

/-- which arguments give `Err`: a zero period, unless the stochastic window overflows first -/
theorem new_err_iff (sp ep : Nat) (e : TaError) :
    (new sp ep : Res (SlowStochastic F)) = .err e ↔
      e = .InvalidParameter ∧ (sp = 0 ∨ (sp * 8 ≤ isizeMax ∧ ep = 0)) := by
  rw [new_eq]
  by_cases h0 : sp = 0
  · simp [h0, eq_comm]
  · by_cases h1 : sp * 8 ≤ isizeMax
    · by_cases h2 : ep = 0 <;> simp [h0, h1, h2, eq_comm]
    · simp [h0, h1]

theorem fresh_wf (sp ep : Nat) (hs : 0 < sp) (h8 : sp * 8 ≤ isizeMax) (he : 0 < ep) :
    WF (fresh sp ep : SlowStochastic F) :=
  ⟨FastStochastic.fresh_wf sp hs h8, ExponentialMovingAverage.fresh_wf ep he⟩

/-- scalar path: output = EMA step applied to the FastStochastic output -/
theorem next_wiring (s : SlowStochastic F) (x : F) (fs' : FastStochastic F) (k : F)
    (h : s.fast_stochastic.next x = some (fs', k)) :
    s.next x = some ({ fast_stochastic := fs', ema := ExponentialMovingAverage.step s.ema k },
      (ExponentialMovingAverage.step s.ema k).current) := by
  unfold next
  simp [h, ExponentialMovingAverage.next_eq]

/-- bar path: output = EMA step applied to the FastStochastic bar output -/
theorem nextBar_wiring (s : SlowStochastic F) (b : Bar F) (fs' : FastStochastic F) (k : F)
    (h : s.fast_stochastic.nextBar b = some (fs', k)) :
    s.nextBar b = some ({ fast_stochastic := fs', ema := ExponentialMovingAverage.step s.ema k },
      (ExponentialMovingAverage.step s.ema k).current) := by
  unfold nextBar
  simp [h, ExponentialMovingAverage.next_eq]

/-- panic propagation: the EMA never panics, so `next` panics iff the FastStochastic does -/
theorem next_none_iff (s : SlowStochastic F) (x : F) :
    s.next x = none ↔ s.fast_stochastic.next x = none := by
  unfold next
  cases h : s.fast_stochastic.next x <;> simp [ExponentialMovingAverage.next_eq]

theorem nextBar_none_iff (s : SlowStochastic F) (b : Bar F) :
    s.nextBar b = none ↔ s.fast_stochastic.nextBar b = none := by
  unfold nextBar
  cases h : s.fast_stochastic.nextBar b <;> simp [ExponentialMovingAverage.next_eq]

/-- SlowStochastic has no `period` field / `period_fn`: "parameters unchanged" = both component periods -/
theorem next_total (s : SlowStochastic F) (x : F) (h : WF s) :
    ∃ r, s.next x = some r ∧ WF r.1 ∧
      r.1.fast_stochastic.period = s.fast_stochastic.period ∧ r.1.ema.period = s.ema.period := by
  obtain ⟨⟨fs', k⟩, e1, w1, p1⟩ := FastStochastic.next_total s.fast_stochastic x h.fast
  obtain ⟨r, hr, w2, p2⟩ := ExponentialMovingAverage.next_total s.ema k h.ema
  rw [ExponentialMovingAverage.next_eq] at hr
  cases hr
  exact ⟨_, next_wiring s x fs' k e1, ⟨w1, w2⟩, p1, p2⟩

theorem nextBar_total (s : SlowStochastic F) (b : Bar F) (h : WF s) :
    ∃ r, s.nextBar b = some r ∧ WF r.1 ∧
      r.1.fast_stochastic.period = s.fast_stochastic.period ∧ r.1.ema.period = s.ema.period := by
  obtain ⟨⟨fs', k⟩, e1, w1, p1⟩ := FastStochastic.nextBar_total s.fast_stochastic b h.fast
  obtain ⟨r, hr, w2, p2⟩ := ExponentialMovingAverage.next_total s.ema k h.ema
  rw [ExponentialMovingAverage.next_eq] at hr
  cases hr
  exact ⟨_, nextBar_wiring s b fs' k e1, ⟨w1, w2⟩, p1, p2⟩

end TaRs.Gen.SlowStochastic
