/- L0 facts about the generated SlowStochastic (any `[Scalar F]`): EMA fed with FastStochastic. -/
import TaRs.Lemmas.Core.SlowStochastic
import TaRs.Gen.SlowStochastic
import TaRs.Lemmas.FastStochastic
import TaRs.Lemmas.ExponentialMovingAverage
import TaRs.Lemmas.Total.SlowStochastic
namespace TaRs.Gen.SlowStochastic
open TaRs TaRs.Rs
variable {F : Type} [Scalar F]

/-- scalar path: output = EMA step applied to the FastStochastic output -/
theorem next_wiring (s : SlowStochastic F) (x : F) (fs' : FastStochastic F) (k : F)
    (h : s.fast_stochastic.next x = some (fs', k)) :
    s.next x = some ({ fast_stochastic := fs', ema := ExponentialMovingAverage.step s.ema k },
      (ExponentialMovingAverage.step s.ema k).current) := by
  unfold next
  try simp only [gen_helper]
  simp [h, ExponentialMovingAverage.next_eq]

/-- bar path: output = EMA step applied to the FastStochastic bar output -/
theorem nextBar_wiring (s : SlowStochastic F) (b : Bar F) (fs' : FastStochastic F) (k : F)
    (h : s.fast_stochastic.nextBar b = some (fs', k)) :
    s.nextBar b = some ({ fast_stochastic := fs', ema := ExponentialMovingAverage.step s.ema k },
      (ExponentialMovingAverage.step s.ema k).current) := by
  unfold nextBar
  try simp only [gen_helper]
  simp [h, ExponentialMovingAverage.next_eq]

/-- panic propagation: the EMA never panics, so `next` panics iff the FastStochastic does -/
theorem next_none_iff (s : SlowStochastic F) (x : F) :
    s.next x = none ↔ s.fast_stochastic.next x = none := by
  unfold next
  try simp only [gen_helper]
  cases h : s.fast_stochastic.next x <;> simp [ExponentialMovingAverage.next_eq]

theorem nextBar_none_iff (s : SlowStochastic F) (b : Bar F) :
    s.nextBar b = none ↔ s.fast_stochastic.nextBar b = none := by
  unfold nextBar
  try simp only [gen_helper]
  cases h : s.fast_stochastic.nextBar b <;> simp [ExponentialMovingAverage.next_eq]

end TaRs.Gen.SlowStochastic
