/- L0 facts about the generated DataItem / DataItemBuilder (any `[Scalar F]`). -/
import TaRs.Gen.DataItem
import TaRs.Lemmas.RsLemmas
namespace TaRs.Gen
open TaRs TaRs.Rs
variable {F : Type} [Scalar F]

/-! ### getters are projections -/

theorem DataItem.open_fn_eq (d : DataItem F) : d.open_fn = d.open_ := rfl
theorem DataItem.high_fn_eq (d : DataItem F) : d.high_fn = d.high := rfl
theorem DataItem.low_fn_eq (d : DataItem F) : d.low_fn = d.low := rfl
theorem DataItem.close_fn_eq (d : DataItem F) : d.close_fn = d.close := rfl
theorem DataItem.volume_fn_eq (d : DataItem F) : d.volume_fn = d.volume := rfl

theorem DataItem.builder_eq : (DataItem.builder : DataItemBuilder F) = DataItemBuilder.new := rfl

namespace DataItemBuilder

/-! ### the builder is "last write wins", field by field -/

/-- one call of a builder method -/
inductive Setter (F : Type) where
  | open_ (v : F)
  | high (v : F)
  | low (v : F)
  | close (v : F)
  | volume (v : F)

/-- run the generated builder method a `Setter` names -/
def applySetter (b : DataItemBuilder F) : Setter F → DataItemBuilder F
  | .open_ v => b.open_fn v
  | .high v => b.high_fn v
  | .low v => b.low_fn v
  | .close v => b.close_fn v
  | .volume v => b.volume_fn v

/-- `DataItem::builder().m₁(v₁).m₂(v₂)…` -/
def applyAll (l : List (Setter F)) : DataItemBuilder F := l.foldl applySetter DataItemBuilder.new

/-- effect of one setter on the "latest `open` so far" -/
def updOpen (acc : Option F) : Setter F → Option F
  | .open_ v => some v
  | _ => acc
def updHigh (acc : Option F) : Setter F → Option F
  | .high v => some v
  | _ => acc
def updLow (acc : Option F) : Setter F → Option F
  | .low v => some v
  | _ => acc
def updClose (acc : Option F) : Setter F → Option F
  | .close v => some v
  | _ => acc
def updVolume (acc : Option F) : Setter F → Option F
  | .volume v => some v
  | _ => acc

/-- value of the LAST `.open_` setter of the list, `none` if there is none -/
def lastOpen (l : List (Setter F)) : Option F := l.foldl updOpen none
def lastHigh (l : List (Setter F)) : Option F := l.foldl updHigh none
def lastLow (l : List (Setter F)) : Option F := l.foldl updLow none
def lastClose (l : List (Setter F)) : Option F := l.foldl updClose none
def lastVolume (l : List (Setter F)) : Option F := l.foldl updVolume none

/-! `last*` really are "the last one of that kind": equations on `[]` and on a snoc. -/
theorem lastOpen_nil : lastOpen ([] : List (Setter F)) = none := rfl
theorem lastOpen_snoc (l : List (Setter F)) (s : Setter F) :
    lastOpen (l ++ [s]) = match s with | .open_ v => some v | _ => lastOpen l := by
  cases s <;> simp [lastOpen, updOpen]
theorem lastHigh_nil : lastHigh ([] : List (Setter F)) = none := rfl
theorem lastHigh_snoc (l : List (Setter F)) (s : Setter F) :
    lastHigh (l ++ [s]) = match s with | .high v => some v | _ => lastHigh l := by
  cases s <;> simp [lastHigh, updHigh]
theorem lastLow_nil : lastLow ([] : List (Setter F)) = none := rfl
theorem lastLow_snoc (l : List (Setter F)) (s : Setter F) :
    lastLow (l ++ [s]) = match s with | .low v => some v | _ => lastLow l := by
  cases s <;> simp [lastLow, updLow]
theorem lastClose_nil : lastClose ([] : List (Setter F)) = none := rfl
theorem lastClose_snoc (l : List (Setter F)) (s : Setter F) :
    lastClose (l ++ [s]) = match s with | .close v => some v | _ => lastClose l := by
  cases s <;> simp [lastClose, updClose]
theorem lastVolume_nil : lastVolume ([] : List (Setter F)) = none := rfl
theorem lastVolume_snoc (l : List (Setter F)) (s : Setter F) :
    lastVolume (l ++ [s]) = match s with | .volume v => some v | _ => lastVolume l := by
  cases s <;> simp [lastVolume, updVolume]

theorem foldl_open (l : List (Setter F)) (b : DataItemBuilder F) :
    (l.foldl applySetter b).open_ = l.foldl updOpen b.open_ := by
  induction l generalizing b with
  | nil => rfl
  | cons s l ih => rw [List.foldl_cons, List.foldl_cons, ih]; cases s <;> rfl

theorem foldl_high (l : List (Setter F)) (b : DataItemBuilder F) :
    (l.foldl applySetter b).high = l.foldl updHigh b.high := by
  induction l generalizing b with
  | nil => rfl
  | cons s l ih => rw [List.foldl_cons, List.foldl_cons, ih]; cases s <;> rfl

theorem foldl_low (l : List (Setter F)) (b : DataItemBuilder F) :
    (l.foldl applySetter b).low = l.foldl updLow b.low := by
  induction l generalizing b with
  | nil => rfl
  | cons s l ih => rw [List.foldl_cons, List.foldl_cons, ih]; cases s <;> rfl

theorem foldl_close (l : List (Setter F)) (b : DataItemBuilder F) :
    (l.foldl applySetter b).close = l.foldl updClose b.close := by
  induction l generalizing b with
  | nil => rfl
  | cons s l ih => rw [List.foldl_cons, List.foldl_cons, ih]; cases s <;> rfl

theorem foldl_volume (l : List (Setter F)) (b : DataItemBuilder F) :
    (l.foldl applySetter b).volume = l.foldl updVolume b.volume := by
  induction l generalizing b with
  | nil => rfl
  | cons s l ih => rw [List.foldl_cons, List.foldl_cons, ih]; cases s <;> rfl

theorem applyAll_open (l : List (Setter F)) : (applyAll l).open_ = lastOpen l := foldl_open l _
theorem applyAll_high (l : List (Setter F)) : (applyAll l).high = lastHigh l := foldl_high l _
theorem applyAll_low (l : List (Setter F)) : (applyAll l).low = lastLow l := foldl_low l _
theorem applyAll_close (l : List (Setter F)) : (applyAll l).close = lastClose l := foldl_close l _
theorem applyAll_volume (l : List (Setter F)) : (applyAll l).volume = lastVolume l := foldl_volume l _

/-- the builder after a chain of setters, as a literal -/
theorem applyAll_eq (l : List (Setter F)) :
    applyAll l = { open_ := lastOpen l, high := lastHigh l, low := lastLow l,
                   close := lastClose l, volume := lastVolume l } := by
  rw [← applyAll_open, ← applyAll_high, ← applyAll_low, ← applyAll_close, ← applyAll_volume]

/-- order and repetition of setter calls only matter through the last value per field -/
theorem applyAll_congr (l₁ l₂ : List (Setter F))
    (ho : lastOpen l₁ = lastOpen l₂) (hh : lastHigh l₁ = lastHigh l₂) (hl : lastLow l₁ = lastLow l₂)
    (hc : lastClose l₁ = lastClose l₂) (hv : lastVolume l₁ = lastVolume l₂) :
    applyAll l₁ = applyAll l₂ := by
  rw [applyAll_eq, applyAll_eq, ho, hh, hl, hc, hv]

/-! ### `build` -/

/-- the validity test of `build`, in the code's conjunction order:
    `low <= open && low <= close && low <= high && high >= open && high >= close && volume >= 0.0`
    (`a >= b` is translated as `Scalar.le b a`) -/
def valid (o h l c v : F) : Bool :=
  Scalar.le l o && Scalar.le l c && Scalar.le l h && Scalar.le o h && Scalar.le c h &&
    Scalar.le (Scalar.lit 0 0) v

/-- exact characterisation of `build` -/
theorem build_eq (b : DataItemBuilder F) :
    b.build =
      match b.open_, b.high, b.low, b.close, b.volume with
      | some o, some h, some l, some c, some v =>
        if Scalar.le l o && Scalar.le l c && Scalar.le l h && Scalar.le o h && Scalar.le c h &&
            Scalar.le (Scalar.lit 0 0) v
        then .ok { open_ := o, high := h, low := l, close := c, volume := v }
        else .err .DataItemInvalid
      | _, _, _, _, _ => .err .DataItemIncomplete := by
  obtain ⟨o, h, l, c, v⟩ := b
  -- shape-independent: unfold, normalise the monadic glue and decide every test the code makes
  cases o <;> cases h <;> cases l <;> cases c <;> cases v <;>
    first
    | rfl
    | (simp only [DataItemBuilder.build, gen_helper, bind, Res.bind, pure, Bool.not_eq_true', Bool.not_eq_eq_eq_not,
        Bool.not_true, Bool.not_false] <;> (repeat' split) <;> simp_all)

/-- all five fields set: the outcome is decided by `valid` -/
theorem build_complete (o h l c v : F) :
    (DataItemBuilder.build { open_ := some o, high := some h, low := some l, close := some c,
                             volume := some v } : Res (DataItem F)) =
      if valid o h l c v then .ok { open_ := o, high := h, low := l, close := c, volume := v }
      else .err .DataItemInvalid := by
  rw [build_eq]; rfl

/-- `Err(DataItemIncomplete)` iff some field was never set -/
theorem build_incomplete_iff (b : DataItemBuilder F) :
    b.build = .err .DataItemIncomplete ↔
      (b.open_ = none ∨ b.high = none ∨ b.low = none ∨ b.close = none ∨ b.volume = none) := by
  rw [build_eq]
  obtain ⟨o, h, l, c, v⟩ := b
  cases o <;> cases h <;> cases l <;> cases c <;> cases v <;> simp
  split <;> simp

/-- `build` has no panicking operation -/
theorem build_ne_panic (b : DataItemBuilder F) : b.build ≠ .panic := by
  rw [build_eq]
  obtain ⟨o, h, l, c, v⟩ := b
  cases o <;> cases h <;> cases l <;> cases c <;> cases v <;> simp
  split <;> simp

/-- `Ok` exactly when every field is set and the validity test passes; the item carries the
    five values unchanged -/
theorem build_ok_iff (b : DataItemBuilder F) (d : DataItem F) :
    b.build = .ok d ↔
      (b.open_ = some d.open_ ∧ b.high = some d.high ∧ b.low = some d.low ∧
        b.close = some d.close ∧ b.volume = some d.volume ∧
        valid d.open_ d.high d.low d.close d.volume = true) := by
  rw [build_eq]
  obtain ⟨o, h, l, c, v⟩ := b
  obtain ⟨o', h', l', c', v'⟩ := d
  cases o <;> cases h <;> cases l <;> cases c <;> cases v <;> simp
  rename_i o h l c v
  constructor
  · intro hh
    split at hh
    · rename_i hv
      simp only [Res.ok.injEq, DataItem.mk.injEq] at hh
      obtain ⟨rfl, rfl, rfl, rfl, rfl⟩ := hh
      simp [valid, hv]
    · cases hh
  · rintro ⟨rfl, rfl, rfl, rfl, rfl, hv⟩
    simp only [valid, Bool.and_eq_true] at hv
    simp [hv]

/-- A value that compares `false` with everything (NaN) in ANY of the five fields makes `build`
    fail: every field takes part in at least one `<=` of the validity test. -/
theorem build_rejects_nan (b : DataItemBuilder F) (x : F)
    (hnan : ∀ y : F, Scalar.le x y = false ∧ Scalar.le y x = false)
    (hx : b.open_ = some x ∨ b.high = some x ∨ b.low = some x ∨ b.close = some x ∨
          b.volume = some x) (d : DataItem F) :
    b.build ≠ .ok d := by
  intro hb
  rw [build_ok_iff] at hb
  obtain ⟨ho, hh, hl, hc, hv, hval⟩ := hb
  simp only [valid, Bool.and_eq_true] at hval
  obtain ⟨⟨⟨⟨⟨h1, h2⟩, h3⟩, h4⟩, h5⟩, h6⟩ := hval
  rcases hx with hx | hx | hx | hx | hx
  · rw [ho] at hx; cases hx; rw [(hnan _).1] at h4; cases h4
  · rw [hh] at hx; cases hx; rw [(hnan _).2] at h4; cases h4
  · rw [hl] at hx; cases hx; rw [(hnan _).1] at h1; cases h1
  · rw [hc] at hx; cases hx; rw [(hnan _).1] at h5; cases h5
  · rw [hv] at hx; cases hx; rw [(hnan _).2] at h6; cases h6

/-- the five cases of `build_rejects_nan`, one per field -/
theorem build_rejects_nan_open (b : DataItemBuilder F) (x : F)
    (hnan : ∀ y : F, Scalar.le x y = false ∧ Scalar.le y x = false) (hx : b.open_ = some x)
    (d : DataItem F) : b.build ≠ .ok d := build_rejects_nan b x hnan (.inl hx) d
theorem build_rejects_nan_high (b : DataItemBuilder F) (x : F)
    (hnan : ∀ y : F, Scalar.le x y = false ∧ Scalar.le y x = false) (hx : b.high = some x)
    (d : DataItem F) : b.build ≠ .ok d := build_rejects_nan b x hnan (.inr (.inl hx)) d
theorem build_rejects_nan_low (b : DataItemBuilder F) (x : F)
    (hnan : ∀ y : F, Scalar.le x y = false ∧ Scalar.le y x = false) (hx : b.low = some x)
    (d : DataItem F) : b.build ≠ .ok d := build_rejects_nan b x hnan (.inr (.inr (.inl hx))) d
theorem build_rejects_nan_close (b : DataItemBuilder F) (x : F)
    (hnan : ∀ y : F, Scalar.le x y = false ∧ Scalar.le y x = false) (hx : b.close = some x)
    (d : DataItem F) : b.build ≠ .ok d := build_rejects_nan b x hnan (.inr (.inr (.inr (.inl hx)))) d
theorem build_rejects_nan_volume (b : DataItemBuilder F) (x : F)
    (hnan : ∀ y : F, Scalar.le x y = false ∧ Scalar.le y x = false) (hx : b.volume = some x)
    (d : DataItem F) : b.build ≠ .ok d := build_rejects_nan b x hnan (.inr (.inr (.inr (.inr hx)))) d

end DataItemBuilder
end TaRs.Gen
