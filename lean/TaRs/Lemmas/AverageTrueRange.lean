/- L0 facts about the generated AverageTrueRange (any `[Scalar F]`). -/
import TaRs.Lemmas.Core.AverageTrueRange
import TaRs.Gen.AverageTrueRange
import TaRs.Lemmas.ExponentialMovingAverage
import TaRs.Lemmas.TrueRange
import TaRs.Lemmas.Total.AverageTrueRange
namespace TaRs.Gen.AverageTrueRange
open TaRs TaRs.Rs
variable {F : Type} [Scalar F]

/-- ATR = EMA fed with TrueRange (scalar path) -/
theorem next_eq (s : AverageTrueRange F) (x : F) :
    s.next x =
      some ({ true_range := { prev_close := some x },
              ema := ExponentialMovingAverage.step s.ema (TrueRange.out s.true_range x) },
            (ExponentialMovingAverage.step s.ema (TrueRange.out s.true_range x)).current) := by
  unfold next
  try simp only [gen_helper]
  simp [TrueRange.next_eq, ExponentialMovingAverage.next_eq]

/-- ATR = EMA fed with TrueRange (bar path) -/
theorem nextBar_eq (s : AverageTrueRange F) (b : Bar F) :
    s.nextBar b =
      some ({ true_range := { prev_close := some b.close },
              ema := ExponentialMovingAverage.step s.ema (TrueRange.outBar s.true_range b) },
            (ExponentialMovingAverage.step s.ema (TrueRange.outBar s.true_range b)).current) := by
  unfold nextBar
  try simp only [gen_helper]
  simp [TrueRange.nextBar_eq, ExponentialMovingAverage.next_eq]

end TaRs.Gen.AverageTrueRange
