/- L0 facts about the generated BollingerBands (any `[Scalar F]`): a StandardDeviation plus two
   parameters; every structural fact is inherited from the component. -/
import TaRs.Lemmas.Core.BollingerBands
import TaRs.Gen.BollingerBands
import TaRs.Lemmas.StandardDeviation
namespace TaRs.Gen.BollingerBands
open TaRs TaRs.Rs
variable {F : Type} [Scalar F]

/-- BB = SD plus `mean ± multiplier·sd` (the mean is the SD's own running mean, read AFTER
    the update) -/
theorem next_eq_sd (s : BollingerBands F) (x : F) (sd' : StandardDeviation F) (v : F)
    (h : s.sd.next x = some (sd', v)) :
    s.next x =
      some ({ s with sd := sd' },
            { average := sd'.m,
              upper := Scalar.add sd'.m (Scalar.mul v s.multiplier),
              lower := Scalar.sub sd'.m (Scalar.mul v s.multiplier) }) := by
  unfold next
  try simp only [gen_helper]
  simp [h, StandardDeviation.mean]

/-- `next` panics exactly when the component does -/
theorem next_none_sd (s : BollingerBands F) (x : F) (h : s.sd.next x = none) : s.next x = none := by
  unfold next
  try simp only [gen_helper]
  simp [h]

theorem next_total (s : BollingerBands F) (x : F) (h : WF s) :
    ∃ r, s.next x = some r ∧ WF r.1 ∧ r.1.period = s.period ∧ r.1.multiplier = s.multiplier := by
  obtain ⟨⟨sd', v⟩, hr, hw, hp⟩ := StandardDeviation.next_total s.sd x h.sd
  exact ⟨_, next_eq_sd s x sd' v hr, ⟨hw, hp.trans h.per⟩, rfl, rfl⟩

theorem nextBar_eq (s : BollingerBands F) (b : Bar F) : s.nextBar b = s.next b.close := by
  unfold nextBar
  try simp only [gen_helper]
  cases h : s.next b.close <;> simp [h]

end TaRs.Gen.BollingerBands
