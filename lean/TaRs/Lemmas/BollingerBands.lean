/- L0 facts about the generated BollingerBands (any `[Scalar F]`): a StandardDeviation plus two
   parameters; every structural fact is inherited from the component. -/
import TaRs.Lemmas.Core.BollingerBands
import TaRs.Gen.BollingerBands
import TaRs.Lemmas.StandardDeviation
import TaRs.Lemmas.Total.BollingerBands
import TaRs.Lemmas.Bar.BollingerBands
namespace TaRs.Gen.BollingerBands
open TaRs TaRs.Rs
variable {F : Type} [Scalar F]

/-- BB = SD plus `mean ± multiplier·sd` (the mean is the SD's own running mean, read AFTER
    the update) -/
theorem next_eq_sd (s : BollingerBands F) (x : F) (sd' : StandardDeviation F) (v : F)
    (h : s.sd.next x = some (sd', v)) :
    s.next x =
      some ({ s with sd := sd' },
            { average := sd'.m,
              upper := Scalar.add sd'.m (Scalar.mul v s.multiplier),
              lower := Scalar.sub sd'.m (Scalar.mul v s.multiplier) }) := by
  unfold next
  try simp only [gen_helper]
  simp [h, StandardDeviation.mean]

/-- `next` panics exactly when the component does -/
theorem next_none_sd (s : BollingerBands F) (x : F) (h : s.sd.next x = none) : s.next x = none := by
  unfold next
  try simp only [gen_helper]
  simp [h]

end TaRs.Gen.BollingerBands
