/- L0 facts about the generated BollingerBands (any `[Scalar F]`): a StandardDeviation plus two
   parameters; every structural fact is inherited from the component. -/
import TaRs.Gen.BollingerBands
import TaRs.Lemmas.StandardDeviation
namespace TaRs.Gen.BollingerBands
open TaRs TaRs.Rs
variable {F : Type} [Scalar F]

/-- the state `new(period, multiplier)` builds -/
def fresh (p : Nat) (k : F) : BollingerBands F :=
  { period := p, multiplier := k, sd := StandardDeviation.fresh p }

structure WF (s : BollingerBands F) : Prop where
  sd : StandardDeviation.WF s.sd
  per : s.sd.period = s.period

theorem new_eq (p : Nat) (k : F) :
    (new p k : Res (BollingerBands F)) =
      if p = 0 then .err .InvalidParameter
      else if p * 8 ≤ isizeMax then .ok (fresh p k) else .panic := by
  unfold new
  rw [StandardDeviation.new_eq]
  by_cases h0 : p = 0
  · simp [h0, bind, Res.bind]
  · by_cases h1 : p * 8 ≤ isizeMax <;> simp [h0, h1, bind, Res.bind, fresh]

theorem fresh_wf (p : Nat) (k : F) (hp : 0 < p) (h8 : p * 8 ≤ isizeMax) :
    WF (fresh p k : BollingerBands F) :=
  ⟨StandardDeviation.fresh_wf p hp h8, rfl⟩

/-- BB = SD plus `mean ± multiplier·sd` (the mean is the SD's own running mean, read AFTER
    the update) -/
theorem next_eq_sd (s : BollingerBands F) (x : F) (sd' : StandardDeviation F) (v : F)
    (h : s.sd.next x = some (sd', v)) :
    s.next x =
      some ({ s with sd := sd' },
            { average := sd'.m,
              upper := Scalar.add sd'.m (Scalar.mul v s.multiplier),
              lower := Scalar.sub sd'.m (Scalar.mul v s.multiplier) }) := by
  unfold next
  simp [h, StandardDeviation.mean]

/-- `next` panics exactly when the component does -/
theorem next_none_sd (s : BollingerBands F) (x : F) (h : s.sd.next x = none) : s.next x = none := by
  unfold next
  simp [h]

theorem next_total (s : BollingerBands F) (x : F) (h : WF s) :
    ∃ r, s.next x = some r ∧ WF r.1 ∧ r.1.period = s.period ∧ r.1.multiplier = s.multiplier := by
  obtain ⟨⟨sd', v⟩, hr, hw, hp⟩ := StandardDeviation.next_total s.sd x h.sd
  exact ⟨_, next_eq_sd s x sd' v hr, ⟨hw, hp.trans h.per⟩, rfl, rfl⟩

theorem nextBar_eq (s : BollingerBands F) (b : Bar F) : s.nextBar b = s.next b.close := by
  unfold nextBar
  cases h : s.next b.close <;> simp [h]

theorem period_fn_eq (s : BollingerBands F) : s.period_fn = s.period := rfl

theorem multiplier_fn_eq (s : BollingerBands F) : s.multiplier_fn = s.multiplier := rfl

end TaRs.Gen.BollingerBands
