/-
  `X K` — IEEE special values over an EXACT ordered field `K` (hand-written, import-free).
  NaN, ±∞ and the finite values `fin k`; finite arithmetic does not round.  With `K = Rat`
  it is executable and kernel-evaluable; in proofs `K` is any linearly ordered field.
  Known infidelities w.r.t. f64 (stated in DESIGN §3.1): no rounding, no overflow or
  underflow, the two zeros are identified (`fin 0`, treated as +0).
-/
import TaRs.Prelude.Scalar
namespace TaRs

inductive X (K : Type) where
  | nan
  | ninf
  | fin (k : K)
  | pinf
deriving DecidableEq, Repr

/-- square root on the exact field (only `0 ≤ a → 0 ≤ sqrtK a ∧ sqrtK a * sqrtK a = a` is ever assumed) -/
class HasSqrt (K : Type) where
  sqrtK : K → K

namespace X
variable {K : Type} [Add K] [Sub K] [Mul K] [Div K] [Neg K] [LT K] [LE K]
  [DecidableLT K] [DecidableLE K] [DecidableEq K] [NatCast K] [HasSqrt K]

@[inline] def zero : K := ((0 : Nat) : K)

def neg : X K → X K
  | nan => nan
  | ninf => pinf
  | pinf => ninf
  | fin a => fin (-a)

def add : X K → X K → X K
  | nan, _ => nan
  | _, nan => nan
  | pinf, ninf => nan
  | ninf, pinf => nan
  | pinf, _ => pinf
  | _, pinf => pinf
  | ninf, _ => ninf
  | _, ninf => ninf
  | fin a, fin b => fin (a + b)

def sub (a b : X K) : X K := add a (neg b)

/-- sign of a finite value: -1, 0, +1 -/
def sgn (a : K) : Int := if a < (zero : K) then -1 else if a = zero then 0 else 1

def ofSign (s : Int) : X K := if s < 0 then ninf else if s = 0 then nan else pinf

def sgnX : X K → Int
  | nan => 0
  | ninf => -1
  | pinf => 1
  | fin a => sgn a

def mul : X K → X K → X K
  | nan, _ => nan
  | _, nan => nan
  | fin a, fin b => fin (a * b)
  | a, b => ofSign (sgnX a * sgnX b)      -- at least one infinity; inf * 0 = NaN

def div : X K → X K → X K
  | nan, _ => nan
  | _, nan => nan
  | fin a, fin b => if b = zero then ofSign (sgn a) else fin (a / b)   -- x/0: ±inf, 0/0 = NaN (zero is +0)
  | fin _, _ => fin zero                                               -- finite / inf
  | _, pinf => nan                                                     -- inf / inf
  | _, ninf => nan
  | a, fin b => ofSign (sgnX a * (if b < (zero : K) then -1 else 1))   -- inf / finite (0 is +0)

def abs : X K → X K
  | nan => nan
  | ninf => pinf
  | pinf => pinf
  | fin a => fin (if a < (zero : K) then -a else a)

def sqrt : X K → X K
  | nan => nan
  | ninf => nan
  | pinf => pinf
  | fin a => if a < (zero : K) then nan else fin (HasSqrt.sqrtK a)

def lt : X K → X K → Bool
  | nan, _ => false
  | _, nan => false
  | ninf, ninf => false
  | ninf, _ => true
  | _, ninf => false
  | pinf, _ => false
  | _, pinf => true
  | fin a, fin b => decide (a < b)

def le : X K → X K → Bool
  | nan, _ => false
  | _, nan => false
  | ninf, _ => true
  | _, ninf => false
  | _, pinf => true
  | pinf, _ => false
  | fin a, fin b => decide (a ≤ b)

def beq : X K → X K → Bool
  | nan, _ => false
  | _, nan => false
  | ninf, ninf => true
  | pinf, pinf => true
  | fin a, fin b => decide (a = b)
  | _, _ => false

/-- `f64::max`: ignores a NaN operand -/
def max (a b : X K) : X K :=
  match a, b with
  | nan, b => b
  | a, nan => a
  | a, b => if lt a b then b else a

def isSignPositive : X K → Bool
  | nan => true
  | ninf => false
  | pinf => true
  | fin a => !decide (a < (zero : K))

instance : Scalar (X K) where
  lit m e := fin (((m : Nat) : K) / (((10 ^ e : Nat)) : K))
  ofNat n := fin (n : K)
  add := add
  sub := sub
  mul := mul
  div := div
  neg := neg
  abs := abs
  sqrt := sqrt
  max := max
  lt := lt
  le := le
  beq := beq
  isSignPositive := isSignPositive
  posInf := pinf
  negInf := ninf

def isFin : X K → Bool
  | fin _ => true
  | _ => false

end X

/-- executable instance: rationals (sqrt is only exact on perfect squares; the driver never
    relies on it — variances are compared instead) -/
instance : HasSqrt Rat where
  sqrtK q := (Nat.sqrt q.num.toNat : Rat) / (Nat.sqrt q.den : Rat)

end TaRs
