/-
  bincode 1.x default configuration (fixed-width little-endian integers, u64 length
  prefixes, 1-byte bool / Option tag) — hand-written, import-free.  The *layout per
  struct* is generated from the field list; these are the leaf encoders.
  Modelled, not verified: serde_derive + bincode; tied by byte comparison on every
  differential run.
-/
import TaRs.Prelude.Rs
namespace TaRs.Codec

/-- 8 little-endian bytes of `n mod 2^64` -/
def encU64 (n : Nat) : List UInt8 :=
  (List.range 8).map (fun i => UInt8.ofNat ((n / 256 ^ i) % 256))

def decU64 (bs : List UInt8) : Option (Nat × List UInt8) :=
  if bs.length < 8 then none
  else
    let hd := bs.take 8
    some ((List.range 8).foldl (fun acc i => acc + (hd.getD i 0).toNat * 256 ^ i) 0, bs.drop 8)

def encUsize (n : Nat) : List UInt8 := encU64 n
def decUsize (bs : List UInt8) : Option (Nat × List UInt8) := decU64 bs

def encF {F} (tb : F → UInt64) (x : F) : List UInt8 := encU64 (tb x).toNat
def decF {F} (ob : UInt64 → F) (bs : List UInt8) : Option (F × List UInt8) :=
  (decU64 bs).map (fun r => (ob (UInt64.ofNat r.1), r.2))

def encBool (b : Bool) : List UInt8 := [if b then 1 else 0]
def decBool (bs : List UInt8) : Option (Bool × List UInt8) :=
  match bs with
  | 0 :: r => some (false, r)
  | 1 :: r => some (true, r)
  | _ => none

def encOptF {F} (tb : F → UInt64) (x : Option F) : List UInt8 :=
  match x with
  | none => [0]
  | some v => 1 :: encF tb v
def decOptF {F} (ob : UInt64 → F) (bs : List UInt8) : Option (Option F × List UInt8) :=
  match bs with
  | 0 :: r => some (none, r)
  | 1 :: r => (decF ob r).map (fun p => (some p.1, p.2))
  | _ => none

def encList {F} (tb : F → UInt64) : List F → List UInt8
  | [] => []
  | x :: xs => encF tb x ++ encList tb xs

def decList {F} (ob : UInt64 → F) : Nat → List UInt8 → Option (List F × List UInt8)
  | 0, bs => some ([], bs)
  | n + 1, bs => do
    let r ← decF ob bs
    let rs ← decList ob n r.2
    pure (r.1 :: rs.1, rs.2)

def encArr {F} (tb : F → UInt64) (a : Array F) : List UInt8 :=
  encU64 a.size ++ encList tb a.toList
def decArr {F} (ob : UInt64 → F) (bs : List UInt8) : Option (Array F × List UInt8) := do
  let r ← decU64 bs
  -- a length prefix larger than the remaining input is an error in bincode
  if r.1 * 8 > r.2.length then none else
  let l ← decList ob r.1 r.2
  pure (l.1.toArray, l.2)

end TaRs.Codec
