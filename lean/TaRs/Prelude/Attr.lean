/-
  Simp set `gen_helper` (hand-written).  The translator tags with it every private helper function that the proof
  development does not know by name — i.e. a helper that a refactor of the Rust source introduced — and the execution
  tactics of `Lemmas/RsLemmas.lean` (`rs_exec`, …) as well as plain `simp` unfold the tagged functions at their call
  sites.  Extracting a helper function therefore changes the generated model only up to unfolding.
-/
import Lean.Meta.Tactic.Simp.RegisterCommand

/-- private helpers introduced by refactors: unfolded automatically by `simp` / `rs_exec` -/
register_simp_attr gen_helper
