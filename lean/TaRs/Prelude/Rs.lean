/-
  Rust run-time semantics made explicit (hand-written; imports only the attribute registration `Prelude/Attr.lean`):
  panics (index out of bounds, slice range, usize overflow with overflow checks,
  `unwrap` on `Err`, `vec!` capacity overflow) are `none` / `Res.panic`.
-/
import TaRs.Prelude.Attr
import TaRs.Prelude.Scalar
namespace TaRs

/-- Result of a Rust function returning `Result<T, TaError>` that may also panic. -/
inductive Res (α : Type) where
  | ok (a : α)
  | err (e : TaError)
  | panic
deriving Repr

namespace Res
@[inline] def bind {α β} (x : Res α) (f : α → Res β) : Res β :=
  match x with
  | ok a => f a
  | err e => err e
  | panic => panic
instance : Monad Res where
  pure := ok
  bind := bind
/-- a panicking computation inside a `Result`-returning function -/
@[inline] def ofOption {α} : Option α → Res α
  | some a => ok a
  | none => panic
@[inline] def map {α β} (f : α → β) : Res α → Res β
  | ok a => ok (f a)
  | err e => err e
  | panic => panic
@[simp] theorem pure_eq {α} (a : α) : (pure a : Res α) = ok a := rfl
@[simp] theorem ok_bind {α β} (a : α) (f : α → Res β) : (ok a >>= f) = f a := rfl
@[simp] theorem err_bind {α β} (e) (f : α → Res β) : (err e >>= f) = err e := rfl
@[simp] theorem panic_bind {α β} (f : α → Res β) : (panic >>= f) = panic := rfl
@[simp] theorem ofOption_some {α} (a : α) : ofOption (some a) = ok a := rfl
@[simp] theorem ofOption_none {α} : ofOption (none : Option α) = panic := rfl
end Res

namespace Rs

/-- `usize::MAX` on the 64-bit targets the crate is built for. -/
def usizeMax : Nat := 18446744073709551615
/-- `isize::MAX` -/
def isizeMax : Nat := 9223372036854775807

/-- `a + b` on `usize` with overflow checks on. -/
@[inline] def uadd (a b : Nat) : Option Nat := if a + b ≤ usizeMax then some (a + b) else none
/-- `a - b` on `usize` with overflow checks on. -/
@[inline] def usub (a b : Nat) : Option Nat := if b ≤ a then some (a - b) else none
/-- `a * b` on `usize` with overflow checks on. -/
@[inline] def umul (a b : Nat) : Option Nat := if a * b ≤ usizeMax then some (a * b) else none

/-- `a % b` on `usize` (panics on a zero divisor) -/
@[inline] def umod (a b : Nat) : Option Nat := if b = 0 then none else some (a % b)
/-- `a / b` on `usize` (panics on a zero divisor) -/
@[inline] def udiv (a b : Nat) : Option Nat := if b = 0 then none else some (a / b)
/-- `x.clamp(lo, hi)` on f64: `assert!(lo <= hi)` (so a NaN bound panics), then the obvious -/
@[inline] def fclamp {F} [Scalar F] (x lo hi : F) : Option F :=
  if Scalar.le lo hi then some (if Scalar.lt x lo then lo else if Scalar.lt hi x then hi else x) else none

/-- `d[i]` -/
@[inline] def index {F} (d : Array F) (i : Nat) : Option F := d[i]?
/-- `d[i] = v` -/
@[inline] def setIndex {F} (d : Array F) (i : Nat) (v : F) : Option (Array F) :=
  if i < d.size then some (d.setIfInBounds i v) else none
/-- `&d[a..b]` -/
@[inline] def slice {F} (d : Array F) (a b : Nat) : Option (List F) :=
  if a ≤ b ∧ b ≤ d.size then some ((d.toList.drop a).take (b - a)) else none
/-- `vec![c; n].into_boxed_slice()` for 8-byte elements: capacity overflow panics; an
    allocation failure aborts the process and is outside the model. -/
@[inline] def vecNew {F} (c : F) (n : Nat) : Option (Array F) :=
  if n * 8 ≤ isizeMax then some (Array.replicate n c) else none
/-- `for i in a..b { d[i] = c; }` -/
def fill {F} (d : Array F) (a b : Nat) (c : F) : Option (Array F) :=
  (List.range' a (b - a)).foldlM (fun d i => setIndex d i c) d
/-- `d.iter().enumerate()` as a list of `(i, val)` -/
@[inline] def enumerate {F} (d : Array F) : List (Nat × F) :=
  (List.range d.size).zip d.toList
/-- `.unwrap()` on a `Result` -/
@[inline] def unwrap {α} : Res α → Option α
  | .ok a => some a
  | _ => none

end Rs
end TaRs
