/-
  `Scalar Float`: Lean's native binary64.  Assumption (checked empirically on every
  differential run, not provable — `Float` is opaque to the kernel): these operations
  are bit-identical to Rust's `f64` on this platform.
-/
import TaRs.Prelude.Scalar
namespace TaRs

@[inline] def floatMax (a b : Float) : Float :=
  if a.isNaN then b else if b.isNaN then a else if a < b then b else a

@[inline] def floatMin (a b : Float) : Float :=
  if a.isNaN then b else if b.isNaN then a else if b < a then b else a

instance : Scalar Float where
  lit m e := Float.ofScientific m true e
  ofNat n := Float.ofNat n
  add a b := a + b
  sub a b := a - b
  mul a b := a * b
  div a b := a / b
  neg a := -a
  abs a := a.abs
  sqrt a := a.sqrt
  max := floatMax
  lt a b := decide (a < b)
  le a b := decide (a ≤ b)
  beq a b := a == b
  isSignPositive a := (a.toBits >>> 63) == 0
  posInf := 1.0 / 0.0
  negInf := -1.0 / 0.0
  nan := 0.0 / 0.0
  min := floatMin

end TaRs
