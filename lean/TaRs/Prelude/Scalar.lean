/-
  Scalar interface the generated model is written against (hand-written, import-free).
  The generated code never mentions `Float` or `ℚ`; it only uses these operations.
  No laws are assumed here: L0 theorems quantify over every `[Scalar F]`.
-/
namespace TaRs

class Scalar (F : Type) where
  /-- source literal `m · 10^(-e)` (e.g. `0.015` = `lit 15 3`, `2.0` = `lit 2 0`) -/
  lit : Nat → Nat → F
  /-- `x as f64` for `x : usize` -/
  ofNat : Nat → F
  add : F → F → F
  sub : F → F → F
  mul : F → F → F
  div : F → F → F
  neg : F → F
  abs : F → F
  sqrt : F → F
  /-- `f64::max` (NaN-ignoring) -/
  max : F → F → F
  /-- `<`, `<=`, `==` of f64 (all false when an operand is NaN); `a > b` is `lt b a`. -/
  lt : F → F → Bool
  le : F → F → Bool
  beq : F → F → Bool
  isSignPositive : F → Bool
  posInf : F
  negInf : F
  /-- `f64::NAN` (default: 0.0 / 0.0) -/
  nan : F := div (lit 0 0) (lit 0 0)
  /-- `f64::min` (NaN-ignoring; default: −max(−a, −b)) -/
  min : F → F → F := fun a b => neg (max (neg a) (neg b))

namespace Scalar
variable {F : Type} [Scalar F]
/-- `a > b` -/
@[reducible] def gt (a b : F) : Bool := lt b a
/-- `a >= b` -/
@[reducible] def ge (a b : F) : Bool := le b a
end Scalar

/-- A price bar: what any implementor of `Open/High/Low/Close/Volume` exposes (pure getters). -/
structure Bar (F : Type) where
  open_ : F
  high : F
  low : F
  close : F
  volume : F
deriving Repr

inductive TaError where
  | InvalidParameter
  | DataItemIncomplete
  | DataItemInvalid
deriving DecidableEq, Repr

end TaRs
