/-
  Layer R — the STANDARD MODEL of floating-point arithmetic as a `Scalar` instance
  (hand-written; imports single Mathlib modules only).

  TRUSTED ASSUMPTION OF THIS LAYER (the only one): every arithmetic operation of the
  generated code returns the exact result rounded by a function `fl` that satisfies

        ∀ x,  |fl x − x| ≤ u · |x|                                   (standard model)

  for a fixed unit roundoff `u ≥ 0`.  For IEEE-754 binary64 with round-to-nearest this holds
  with `u = 2^-53` PROVIDED NO OVERFLOW AND NO UNDERFLOW occurs (no result leaves the normal
  range).  That proviso is not checked anywhere: it is what a reader has to accept.  Nothing
  else about `fl` is assumed: not monotonicity, not `fl 1 = 1`, not that representable numbers
  round to themselves (so the literals `1.0`, `2.0` of the source carry a rounding error in the
  model although they are exact in binary64 – the bounds proved here are therefore slightly
  pessimistic, never optimistic).

  `R K` wraps a value of an ordered field `K`; its `Scalar` instance rounds `add sub mul div`
  and the decimal literals, and is exact for `neg abs max` and the comparisons.
  `ofNat` (`usize as f64`) is taken to be EXACT: true in binary64 for arguments below 2^53.
  The only `ofNat` arguments in SMA / EMA are the window count (≤ period) and the period; this
  is a second (mild) idealisation for periods ≥ 2^53, which `new` accepts in principle
  (`period·8 ≤ isize::MAX` allows up to 2^60) but which no machine can allocate.
  `sqrt`, `posInf`, `negInf`, `isSignPositive` are PLACEHOLDERS: the theorems of this layer
  are only about indicators (SMA, EMA) that never use them.
-/
import TaRs.Prelude.Scalar
import Mathlib.Algebra.Order.Field.Basic
import Mathlib.Algebra.Order.AbsoluteValue.Basic
import Mathlib.Tactic.Ring
import Mathlib.Tactic.Linarith
import Mathlib.Tactic.Positivity
set_option linter.unusedSectionVars false
namespace TaRs

/-- A rounding function obeying the standard model of floating-point arithmetic with unit
    roundoff `u` (no overflow, no underflow: see the header). -/
class Rounding (K : Type) [Field K] [LinearOrder K] [IsStrictOrderedRing K] where
  /-- rounding of an exact result to the floating-point format -/
  fl : K → K
  /-- unit roundoff (`2^-53` for binary64, round to nearest) -/
  u : K
  u_nonneg : 0 ≤ u
  /-- THE standard-model law -/
  fl_err : ∀ x, |fl x - x| ≤ u * |x|

/-- a floating-point value: an element of `K` (the wrapper only serves to carry the rounding
    `Scalar` instance) -/
structure R (K : Type) where
  v : K

namespace R
variable {K : Type} [Field K] [LinearOrder K] [IsStrictOrderedRing K] [Rounding K]
open Rounding

instance : Scalar (R K) where
  lit m e := ⟨fl ((m : K) / (10 ^ e : K))⟩
  ofNat n := ⟨(n : K)⟩
  add a b := ⟨fl (a.v + b.v)⟩
  sub a b := ⟨fl (a.v - b.v)⟩
  mul a b := ⟨fl (a.v * b.v)⟩
  div a b := ⟨fl (a.v / b.v)⟩
  neg a := ⟨-a.v⟩
  abs a := ⟨|a.v|⟩
  sqrt a := a                                  -- placeholder (unused by SMA / EMA)
  max a b := ⟨Max.max a.v b.v⟩
  lt a b := decide (a.v < b.v)
  le a b := decide (a.v ≤ b.v)
  beq a b := decide (a.v = b.v)
  isSignPositive a := decide (0 ≤ a.v)         -- placeholder (no signed zero in `K`)
  posInf := ⟨0⟩                                -- placeholder (unused by SMA / EMA)
  negInf := ⟨0⟩                                -- placeholder (unused by SMA / EMA)

@[simp] theorem add_v (a b : R K) : (Scalar.add a b).v = fl (a.v + b.v) := rfl
@[simp] theorem sub_v (a b : R K) : (Scalar.sub a b).v = fl (a.v - b.v) := rfl
@[simp] theorem mul_v (a b : R K) : (Scalar.mul a b).v = fl (a.v * b.v) := rfl
@[simp] theorem div_v (a b : R K) : (Scalar.div a b).v = fl (a.v / b.v) := rfl
@[simp] theorem ofNat_v (n : Nat) : (Scalar.ofNat n : R K).v = (n : K) := rfl
@[simp] theorem lit_v (m e : Nat) : (Scalar.lit m e : R K).v = fl ((m : K) / (10 ^ e : K)) := rfl
@[simp] theorem mk_v (a : K) : (R.mk a).v = a := rfl

end R

namespace Rounding
variable {K : Type} [Field K] [LinearOrder K] [IsStrictOrderedRing K] [Rounding K]

theorem fl_zero : fl (0 : K) = 0 := by
  have h := fl_err (0 : K)
  simp only [sub_zero, abs_zero, mul_zero] at h
  exact abs_eq_zero.mp (le_antisymm h (abs_nonneg _))

/-- `fl x` lies within `u·|x|` of `x`, as two linear inequalities -/
theorem fl_bounds (x : K) : x - u * |x| ≤ fl x ∧ fl x ≤ x + u * |x| := by
  have h := abs_le.mp (fl_err x)
  constructor <;> linarith [h.1, h.2]

/-- `|fl x − x| ≤ u·B` whenever `|x| ≤ B` -/
theorem fl_err_le (x B : K) (h : |x| ≤ B) : |fl x - x| ≤ u * B :=
  le_trans (fl_err x) (mul_le_mul_of_nonneg_left h u_nonneg)

/-- `|fl x| ≤ (1+u)·B` whenever `|x| ≤ B` -/
theorem abs_fl_le (x B : K) (h : |x| ≤ B) : |fl x| ≤ (1 + u) * B := by
  have h1 := fl_err_le x B h
  have h2 : |fl x| ≤ |fl x - x| + |x| := by
    have := abs_add_le (fl x - x) x
    simpa using this
  linarith

end Rounding

@[simp] theorem R.lit_zero {K : Type} [Field K] [LinearOrder K] [IsStrictOrderedRing K] [Rounding K] :
    (Scalar.lit 0 0 : R K) = ⟨0⟩ := by
  show R.mk (Rounding.fl (((0 : Nat) : K) / (10 ^ 0 : K))) = ⟨0⟩
  simp [Rounding.fl_zero]

end TaRs
