/-
  Layer R (CCI): non-vacuity of `CCI.cci_rounding` at a concrete rounding with a genuine error, and
  the smallness hypothesis at binary64 precision.
-/
import TaRs.Round.CCI
import TaRs.Round.TauBase
import Mathlib.Tactic.NormNum
import Mathlib.Tactic.Linarith
import Mathlib.Tactic.Positivity
namespace TaRs.Round.Tau
open TaRs TaRs.Rs TaRs.Spec TaRs.Gen Rounding

/-- `t·u ≤ 1/64` for every `t ≤ 2·10^6` at `u = 2^-53` -/
theorem cci_small (t : ℕ) (ht : t ≤ 2000000) : (t : ℚ) * u64 ≤ 1 / 64 := by
  have h : (t : ℚ) ≤ 2000000 := by exact_mod_cast ht
  unfold u64
  have : (0 : ℚ) ≤ 1 / 2 ^ 53 := by positivity
  calc (t : ℚ) * (1 / 2 ^ 53) ≤ 2000000 * (1 / 2 ^ 53) := mul_le_mul_of_nonneg_right h this
    _ ≤ 1 / 64 := by norm_num

section NonVacuity
attribute [local instance] inflate

private def cbar (h l c : ℚ) : Bar (R ℚ) := ⟨⟨c⟩, ⟨h⟩, ⟨l⟩, ⟨c⟩, ⟨1⟩⟩

/-- `cci_rounding` applies to a concrete stream (period 2, three bars, rounding `inflate`) -/
example : ∃ s' outs y a d, runOut CommodityChannelIndex.nextBar
      (CommodityChannelIndex.fresh 2 : CommodityChannelIndex (R ℚ)) ([cbar 3 1 2, cbar 4 2 3] ++ [cbar 2 1 1])
        = some (s', outs ++ [y]) ∧
    |a - mean (lastN 2 (([cbar 3 1 2, cbar 4 2 3] ++ [cbar 2 1 1]).map CCI.tpR))|
      ≤ 3 * (((([cbar 3 1 2, cbar 4 2 3] ++ [cbar 2 1 1] : List (Bar (R ℚ))).length : ℕ) : ℚ) + 1) * (1 / 2 ^ 20) * 4 ∧
    |d - mad (lastN 2 (([cbar 3 1 2, cbar 4 2 3] ++ [cbar 2 1 1]).map CCI.tpR))|
      ≤ (5 * ((([cbar 3 1 2, cbar 4 2 3] ++ [cbar 2 1 1] : List (Bar (R ℚ))).length : ℕ) : ℚ)
          + 2 * ((min ([cbar 3 1 2, cbar 4 2 3] ++ [cbar 2 1 1] : List (Bar (R ℚ))).length 2 : ℕ) : ℚ) + 10) * (1 / 2 ^ 20) * 4 ∧
    y.v = CCI.cciOut (CCI.tpR (cbar 2 1 1)) a d :=
  CCI.cci_rounding 2 (by decide) (by decide) 4 [cbar 3 1 2, cbar 4 2 3] (cbar 2 1 1)
    (by decide +kernel) (by decide +kernel)

end NonVacuity

end TaRs.Round.Tau
