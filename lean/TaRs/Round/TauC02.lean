/-
  Layer R (C02 composites: MACD, TrueRange, AverageTrueRange, KeltnerChannel — scalar path),
  numeric corollaries over ℚ at the binary64 unit roundoff `u = 2^-53` (`u64`), and
  non-vacuity examples.

  The differential tests of C02 accept `τ(t)·(largest input magnitude)` with
  `τ(t) = 1e-12 + 1e-15·t^1.5`, `t` = number of inputs fed so far, periods 1..1024.
  The bounds proved in MACD.lean / ATR.lean are `C·u·M` with `C` linear in the periods and
  INDEPENDENT of `t`.  Honest summary of what the numbers are (`N = n+1 ≤ 1025`):

    quantity         C                                C·u64 at all periods = 1024    ≤ 1e-12 ?
    -------------------------------------------------------------------------------------------
    TrueRange        2                                2.3e-16                        yes
    EMA (TauEMA)     6N                               6.83e-13                       yes
    ATR              12N + 3                          1.366e-12                      NO
    MACD line        6Nf + 6Ns + 3                    1.366e-12                      NO
    MACD signal      14Ng + 6Nf + 6Ns + 3             2.960e-12                      NO
    MACD histogram   14Ng + 12Nf + 12Ns + 11          4.326e-12                      NO
    Keltner bands    6N + 2 + (12N + 8)·|m|           6.84e-13 + 1.367e-12·|m|       NO (m ≠ 0)

  So for the LARGEST periods the proved bounds exceed the floor `1e-12` of τ (by a factor
  ≤ 4.4) – what IS proved (all by `norm_num`, no real powers):
    * `const_tau`: every constant `C ≤ 9007` gives `C·u64 ≤ 1e-12 ≤ τ(t)` for every `t`;
      this covers e.g. ATR for `n ≤ 749`, MACD line for `nf + ns ≤ 1498`, MACD signal /
      histogram with all three periods `≤ 345` / `≤ 235`, Keltner with `|m| ≤ 2`, `n ≤ 298`,
      and of course the default parameters (`*_default`);
    * for ALL periods ≤ 1024 the bound is below `τ(t)` from some stream position on, because
      τ grows: ATR and MACD line for `t ≥ 52`, MACD signal for `t ≥ 157`, MACD histogram for
      `t ≥ 223`, Keltner bands with `|m| ≤ 2` for `t ≥ 181` (`*_tau_from`).  Stated without
      square roots: `C·u64 ≤ 1e-12 + s` for a rational `s ≥ 0` with `s² ≤ (1e-15)²·t³`, i.e.
      `s ≤ 1e-15·t^1.5`;
    * absolute numeric versions of the main theorems (`macd_within`, `atr_within`,
      `kc_within`): any rounding on ℚ with `u ≤ 2^-53`, any periods ≤ 1024: errors at most
      `1.37e-12·|M|`, `2.96e-12·|M|`, `4.33e-12·|M|` (MACD line / signal / histogram),
      `1.37e-12·|M|` (ATR), `(6.84e-13 + 1.367e-12·|m|)·|M|` (Keltner bands).
  NOT proved: that the composites stay below `τ(t)` for the largest periods at SMALL `t`
  (t < 52 … 223).  The proved bounds are uniform in `t` and do not exploit that after `t`
  steps only `t` roundings have accumulated; a `min(t, N)`-type refinement of `ema_rounding`
  would be needed for that.
-/
import TaRs.Round.MACD
import TaRs.Round.ATR
import TaRs.Round.TauBase
import TaRs.Round.TauEMA
import Mathlib.Tactic.NormNum
import Mathlib.Tactic.Linarith
import Mathlib.Tactic.Positivity
namespace TaRs.Round.Tau
open TaRs TaRs.Rs TaRs.Gen Rounding

/-! ## Generic numeric facts -/

theorem u64_nonneg : (0 : ℚ) ≤ u64 := by unfold u64; positivity

theorem succ_le_1025 (n : ℕ) (hn : n ≤ 1024) : (n : ℚ) + 1 ≤ 1025 := by
  have : (n : ℚ) ≤ 1024 := by exact_mod_cast hn
  linarith

/-- every constant up to 9007 is below the floor of τ at binary64 precision:
    `C ≤ 9007 → C·2^-53 ≤ 1e-12` (9007·2^-53 = 9.99978e-13; 9008 would fail) -/
theorem const_tau (C : ℚ) (hC : C ≤ 9007) : C * u64 ≤ 1 / 10 ^ 12 := by
  calc C * u64 ≤ 9007 * u64 := mul_le_mul_of_nonneg_right hC u64_nonneg
    _ ≤ 1 / 10 ^ 12 := by unfold u64; norm_num

/-- monotone step used by the `*_tau_from` facts: a witness `s` good at position `T` is good at
    every later position -/
theorem tau_witness (C Cmax s : ℚ) (T t : ℕ) (hC : C ≤ Cmax) (hs : 0 ≤ s)
    (hb : Cmax * u64 ≤ 1 / 10 ^ 12 + s) (hsT : s ^ 2 ≤ (1 / 10 ^ 15) ^ 2 * (T : ℚ) ^ 3)
    (ht : T ≤ t) :
    ∃ s : ℚ, 0 ≤ s ∧ s ^ 2 ≤ (1 / 10 ^ 15) ^ 2 * (t : ℚ) ^ 3 ∧ C * u64 ≤ 1 / 10 ^ 12 + s := by
  refine ⟨s, hs, le_trans hsT ?_, le_trans (mul_le_mul_of_nonneg_right hC u64_nonneg) hb⟩
  have hTt : (T : ℚ) ≤ t := by exact_mod_cast ht
  have h3 : (T : ℚ) ^ 3 ≤ (t : ℚ) ^ 3 := pow_le_pow_left₀ (by positivity) hTt 3
  exact mul_le_mul_of_nonneg_left h3 (by positivity)

/-! ## The constants for periods ≤ 1024 -/

/-- MACD line constant `C1 = 6·Nf + 6·Ns + 3 ≤ 12303` -/
theorem c1_le (nf ns : ℕ) (hf : nf ≤ 1024) (hs : ns ≤ 1024) :
    6 * ((nf : ℚ) + 1) + 6 * ((ns : ℚ) + 1) + 3 ≤ 12303 := by
  have := succ_le_1025 nf hf; have := succ_le_1025 ns hs; linarith

/-- MACD signal constant `C2 = 14·Ng + 6·Nf + 6·Ns + 3 ≤ 26653` -/
theorem c2_le (nf ns ng : ℕ) (hf : nf ≤ 1024) (hs : ns ≤ 1024) (hg : ng ≤ 1024) :
    14 * ((ng : ℚ) + 1) + (6 * ((nf : ℚ) + 1) + 6 * ((ns : ℚ) + 1) + 3) ≤ 26653 := by
  have := succ_le_1025 nf hf; have := succ_le_1025 ns hs; have := succ_le_1025 ng hg; linarith

/-- MACD histogram constant `C3 = 14·Ng + 12·Nf + 12·Ns + 11 ≤ 38961` -/
theorem c3_le (nf ns ng : ℕ) (hf : nf ≤ 1024) (hs : ns ≤ 1024) (hg : ng ≤ 1024) :
    14 * ((ng : ℚ) + 1) + 12 * ((nf : ℚ) + 1) + 12 * ((ns : ℚ) + 1) + 11 ≤ 38961 := by
  have := succ_le_1025 nf hf; have := succ_le_1025 ns hs; have := succ_le_1025 ng hg; linarith

/-- ATR constant `12·N + 3 ≤ 12303` -/
theorem catr_le (n : ℕ) (hn : n ≤ 1024) : 12 * ((n : ℚ) + 1) + 3 ≤ 12303 := by
  have := succ_le_1025 n hn; linarith

/-- Keltner band constant `6·N + 2 + (12·N + 8)·|m| ≤ 6152 + 12308·|m|` -/
theorem ckc_le (n : ℕ) (hn : n ≤ 1024) (m : ℚ) :
    6 * ((n : ℚ) + 1) + 2 + (12 * ((n : ℚ) + 1) + 8) * |m| ≤ 6152 + 12308 * |m| := by
  have h := succ_le_1025 n hn
  have hm : 0 ≤ |m| := abs_nonneg m
  have : (12 * ((n : ℚ) + 1) + 8) * |m| ≤ 12308 * |m| :=
    mul_le_mul_of_nonneg_right (by linarith) hm
  linarith

/-! ## Absolute numbers at `u = 2^-53`, all periods ≤ 1024 -/

/-- TrueRange: `2·u64 ≤ 2.3e-16` -/
theorem tr_num : 2 * u64 ≤ 23 / 10 ^ 17 := by unfold u64; norm_num

/-- MACD line: `C1·u64 ≤ 1.37e-12` (and not ≤ 1e-12 at the largest periods: `c1_exceeds`) -/
theorem c1_num (nf ns : ℕ) (hf : nf ≤ 1024) (hs : ns ≤ 1024) :
    (6 * ((nf : ℚ) + 1) + 6 * ((ns : ℚ) + 1) + 3) * u64 ≤ 137 / 10 ^ 14 :=
  le_trans (mul_le_mul_of_nonneg_right (c1_le nf ns hf hs) u64_nonneg) (by unfold u64; norm_num)

/-- MACD signal: `C2·u64 ≤ 2.96e-12` -/
theorem c2_num (nf ns ng : ℕ) (hf : nf ≤ 1024) (hs : ns ≤ 1024) (hg : ng ≤ 1024) :
    (14 * ((ng : ℚ) + 1) + (6 * ((nf : ℚ) + 1) + 6 * ((ns : ℚ) + 1) + 3)) * u64 ≤ 296 / 10 ^ 14 :=
  le_trans (mul_le_mul_of_nonneg_right (c2_le nf ns ng hf hs hg) u64_nonneg)
    (by unfold u64; norm_num)

/-- MACD histogram: `C3·u64 ≤ 4.33e-12` -/
theorem c3_num (nf ns ng : ℕ) (hf : nf ≤ 1024) (hs : ns ≤ 1024) (hg : ng ≤ 1024) :
    (14 * ((ng : ℚ) + 1) + 12 * ((nf : ℚ) + 1) + 12 * ((ns : ℚ) + 1) + 11) * u64 ≤ 433 / 10 ^ 14 :=
  le_trans (mul_le_mul_of_nonneg_right (c3_le nf ns ng hf hs hg) u64_nonneg)
    (by unfold u64; norm_num)

/-- ATR: `(12·N + 3)·u64 ≤ 1.37e-12` -/
theorem catr_num (n : ℕ) (hn : n ≤ 1024) : (12 * ((n : ℚ) + 1) + 3) * u64 ≤ 137 / 10 ^ 14 :=
  le_trans (mul_le_mul_of_nonneg_right (catr_le n hn) u64_nonneg) (by unfold u64; norm_num)

/-- Keltner bands: `(6·N + 2 + (12·N + 8)·|m|)·u64 ≤ 6.84e-13 + 1.367e-12·|m|` -/
theorem ckc_num (n : ℕ) (hn : n ≤ 1024) (m : ℚ) :
    (6 * ((n : ℚ) + 1) + 2 + (12 * ((n : ℚ) + 1) + 8) * |m|) * u64
      ≤ 684 / 10 ^ 15 + 1367 / 10 ^ 15 * |m| := by
  refine le_trans (mul_le_mul_of_nonneg_right (ckc_le n hn m) u64_nonneg) ?_
  have hm : 0 ≤ |m| := abs_nonneg m
  have e : (6152 + 12308 * |m|) * u64 = 6152 * u64 + (12308 * u64) * |m| := by ring
  have h1 : 6152 * u64 ≤ 684 / 10 ^ 15 := by unfold u64; norm_num
  have h2 : 12308 * u64 ≤ 1367 / 10 ^ 15 := by unfold u64; norm_num
  have h3 := mul_le_mul_of_nonneg_right h2 hm
  rw [e]; linarith

/-- honesty check: at `nf = ns = 1024` the MACD-line constant times `u64` EXCEEDS `1e-12`
    (so does the ATR constant at `n = 1024`, which is the same number 12303) -/
theorem c1_exceeds : (1 : ℚ) / 10 ^ 12 < (6 * (((1024 : ℕ) : ℚ) + 1) + 6 * (((1024 : ℕ) : ℚ) + 1) + 3) * u64 := by
  unfold u64; norm_num

/-! ## Below the floor `1e-12 ≤ τ(t)` (every `t`) for moderate periods -/

/-- ATR: `n ≤ 749` -/
theorem atr_tau (n : ℕ) (hn : n ≤ 749) : (12 * ((n : ℚ) + 1) + 3) * u64 ≤ 1 / 10 ^ 12 := by
  have : (n : ℚ) ≤ 749 := by exact_mod_cast hn
  exact const_tau _ (by linarith)

/-- MACD line: `nf + ns ≤ 1498` -/
theorem macd_line_tau (nf ns : ℕ) (h : nf + ns ≤ 1498) :
    (6 * ((nf : ℚ) + 1) + 6 * ((ns : ℚ) + 1) + 3) * u64 ≤ 1 / 10 ^ 12 := by
  have : (nf : ℚ) + (ns : ℚ) ≤ 1498 := by exact_mod_cast h
  exact const_tau _ (by linarith)

/-- MACD signal: all three periods `≤ 345` -/
theorem macd_signal_tau (nf ns ng : ℕ) (hf : nf ≤ 345) (hs : ns ≤ 345) (hg : ng ≤ 345) :
    (14 * ((ng : ℚ) + 1) + (6 * ((nf : ℚ) + 1) + 6 * ((ns : ℚ) + 1) + 3)) * u64 ≤ 1 / 10 ^ 12 := by
  have : (nf : ℚ) ≤ 345 := by exact_mod_cast hf
  have : (ns : ℚ) ≤ 345 := by exact_mod_cast hs
  have : (ng : ℚ) ≤ 345 := by exact_mod_cast hg
  exact const_tau _ (by linarith)

/-- MACD histogram: all three periods `≤ 235` -/
theorem macd_hist_tau (nf ns ng : ℕ) (hf : nf ≤ 235) (hs : ns ≤ 235) (hg : ng ≤ 235) :
    (14 * ((ng : ℚ) + 1) + 12 * ((nf : ℚ) + 1) + 12 * ((ns : ℚ) + 1) + 11) * u64 ≤ 1 / 10 ^ 12 := by
  have : (nf : ℚ) ≤ 235 := by exact_mod_cast hf
  have : (ns : ℚ) ≤ 235 := by exact_mod_cast hs
  have : (ng : ℚ) ≤ 235 := by exact_mod_cast hg
  exact const_tau _ (by linarith)

/-- Keltner bands: `|m| ≤ 2` and `n ≤ 298` -/
theorem kc_tau (n : ℕ) (hn : n ≤ 298) (m : ℚ) (hm : |m| ≤ 2) :
    (6 * ((n : ℚ) + 1) + 2 + (12 * ((n : ℚ) + 1) + 8) * |m|) * u64 ≤ 1 / 10 ^ 12 := by
  have h : (n : ℚ) ≤ 298 := by exact_mod_cast hn
  have h0 : (0 : ℚ) ≤ n := by positivity
  have : (12 * ((n : ℚ) + 1) + 8) * |m| ≤ (12 * ((n : ℚ) + 1) + 8) * 2 :=
    mul_le_mul_of_nonneg_left hm (by linarith)
  exact const_tau _ (by linarith)

/-- the crate's default MACD(12, 26, 9): histogram constant 631, `631·u64 ≤ 7.1e-14` -/
theorem macd_default :
    (14 * (((9 : ℕ) : ℚ) + 1) + 12 * (((12 : ℕ) : ℚ) + 1) + 12 * (((26 : ℕ) : ℚ) + 1) + 11) * u64
      ≤ 71 / 10 ^ 15 := by
  unfold u64; norm_num

/-- default ATR(14): `183·u64 ≤ 2.1e-14`; default KeltnerChannel(10, 2): `418·u64 ≤ 4.7e-14` -/
theorem atr_kc_default :
    (12 * (((14 : ℕ) : ℚ) + 1) + 3) * u64 ≤ 21 / 10 ^ 15 ∧
    (6 * (((10 : ℕ) : ℚ) + 1) + 2 + (12 * (((10 : ℕ) : ℚ) + 1) + 8) * |(2 : ℚ)|) * u64 ≤ 47 / 10 ^ 15 := by
  rw [abs_two]; unfold u64; constructor <;> norm_num

/-! ## All periods ≤ 1024: below τ(t) = 1e-12 + 1e-15·t^1.5 from some position `t` on

  Each statement produces a rational `s ≥ 0` with `s² ≤ (1e-15)²·t³` (so `s ≤ 1e-15·t^1.5`)
  and `C·u64 ≤ 1e-12 + s`. -/

/-- ATR, `t ≥ 52` -/
theorem atr_tau_from (n : ℕ) (hn : n ≤ 1024) (t : ℕ) (ht : 52 ≤ t) :
    ∃ s : ℚ, 0 ≤ s ∧ s ^ 2 ≤ (1 / 10 ^ 15) ^ 2 * (t : ℚ) ^ 3 ∧
      (12 * ((n : ℚ) + 1) + 3) * u64 ≤ 1 / 10 ^ 12 + s :=
  tau_witness _ 12303 (366 / 10 ^ 15) 52 t (catr_le n hn) (by positivity)
    (by unfold u64; norm_num) (by norm_num) ht

/-- MACD line, `t ≥ 52` -/
theorem macd_line_tau_from (nf ns : ℕ) (hf : nf ≤ 1024) (hs : ns ≤ 1024) (t : ℕ) (ht : 52 ≤ t) :
    ∃ s : ℚ, 0 ≤ s ∧ s ^ 2 ≤ (1 / 10 ^ 15) ^ 2 * (t : ℚ) ^ 3 ∧
      (6 * ((nf : ℚ) + 1) + 6 * ((ns : ℚ) + 1) + 3) * u64 ≤ 1 / 10 ^ 12 + s :=
  tau_witness _ 12303 (366 / 10 ^ 15) 52 t (c1_le nf ns hf hs) (by positivity)
    (by unfold u64; norm_num) (by norm_num) ht

/-- MACD signal, `t ≥ 157` -/
theorem macd_signal_tau_from (nf ns ng : ℕ) (hf : nf ≤ 1024) (hs : ns ≤ 1024) (hg : ng ≤ 1024)
    (t : ℕ) (ht : 157 ≤ t) :
    ∃ s : ℚ, 0 ≤ s ∧ s ^ 2 ≤ (1 / 10 ^ 15) ^ 2 * (t : ℚ) ^ 3 ∧
      (14 * ((ng : ℚ) + 1) + (6 * ((nf : ℚ) + 1) + 6 * ((ns : ℚ) + 1) + 3)) * u64
        ≤ 1 / 10 ^ 12 + s :=
  tau_witness _ 26653 (1960 / 10 ^ 15) 157 t (c2_le nf ns ng hf hs hg) (by positivity)
    (by unfold u64; norm_num) (by norm_num) ht

/-- MACD histogram, `t ≥ 223` -/
theorem macd_hist_tau_from (nf ns ng : ℕ) (hf : nf ≤ 1024) (hs : ns ≤ 1024) (hg : ng ≤ 1024)
    (t : ℕ) (ht : 223 ≤ t) :
    ∃ s : ℚ, 0 ≤ s ∧ s ^ 2 ≤ (1 / 10 ^ 15) ^ 2 * (t : ℚ) ^ 3 ∧
      (14 * ((ng : ℚ) + 1) + 12 * ((nf : ℚ) + 1) + 12 * ((ns : ℚ) + 1) + 11) * u64
        ≤ 1 / 10 ^ 12 + s :=
  tau_witness _ 38961 (3326 / 10 ^ 15) 223 t (c3_le nf ns ng hf hs hg) (by positivity)
    (by unfold u64; norm_num) (by norm_num) ht

/-- Keltner bands with `|m| ≤ 2`, `t ≥ 181` -/
theorem kc_tau_from (n : ℕ) (hn : n ≤ 1024) (m : ℚ) (hm : |m| ≤ 2) (t : ℕ) (ht : 181 ≤ t) :
    ∃ s : ℚ, 0 ≤ s ∧ s ^ 2 ≤ (1 / 10 ^ 15) ^ 2 * (t : ℚ) ^ 3 ∧
      (6 * ((n : ℚ) + 1) + 2 + (12 * ((n : ℚ) + 1) + 8) * |m|) * u64 ≤ 1 / 10 ^ 12 + s := by
  have hC : 6 * ((n : ℚ) + 1) + 2 + (12 * ((n : ℚ) + 1) + 8) * |m| ≤ 30768 := by
    have := ckc_le n hn m
    linarith
  exact tau_witness _ 30768 (2416 / 10 ^ 15) 181 t hC (by positivity)
    (by unfold u64; norm_num) (by norm_num) ht

/-! ## The main theorems at binary64 precision (any rounding on ℚ with `u ≤ 2^-53`) -/

/-- scaling helper: `C·u·M ≤ c·|M|` when `C·u64 ≤ c`, `u ≤ u64`, `C ≥ 0` -/
theorem scale_le [Rounding ℚ] (hu : (u : ℚ) ≤ u64) (C c M : ℚ) (hC : 0 ≤ C) (hc : C * u64 ≤ c) :
    C * u * M ≤ c * |M| := by
  have hu0 : (0 : ℚ) ≤ u := u_nonneg
  have h1 : C * u ≤ c := le_trans (mul_le_mul_of_nonneg_left hu hC) hc
  calc C * u * M ≤ C * u * |M| := mul_le_mul_of_nonneg_left (le_abs_self M) (mul_nonneg hC hu0)
    _ ≤ c * |M| := mul_le_mul_of_nonneg_right h1 (abs_nonneg _)

theorem small_of_le [Rounding ℚ] (hu : (u : ℚ) ≤ u64) (n : ℕ) (hn : n ≤ 1024) :
    ((n : ℚ) + 1) * u ≤ 1 / 64 :=
  le_trans (mul_le_mul_of_nonneg_left hu (by positivity)) (ema_small n hn)

/-- **MACD at binary64 precision**: unit roundoff at most `2^-53`, all three periods in
    1..1024, any stream (any length) bounded by `M`: the generated MACD never panics; the line is
    within `1.37e-12·|M|`, the signal within `2.96e-12·|M|` and the histogram within
    `4.33e-12·|M|` of the exact-arithmetic formulas. -/
theorem macd_within [Rounding ℚ] (hu : (u : ℚ) ≤ u64) (nf ns ng : Nat)
    (hnf : 0 < nf) (hns : 0 < ns) (hng : 0 < ng)
    (hf : nf ≤ 1024) (hs : ns ≤ 1024) (hg : ng ≤ 1024)
    (M : ℚ) (xs : List ℚ) (hM : ∀ x ∈ xs, |x| ≤ M) :
    ∃ s' ys, runOut MovingAverageConvergenceDivergence.next
        (MovingAverageConvergenceDivergence.fresh nf ns ng :
          MovingAverageConvergenceDivergence (R ℚ)) (xs.map R.mk) = some (s', ys) ∧
      List.Forall₂ (fun (y : R ℚ) (z : ℚ) => |y.v - z| ≤ 137 / 10 ^ 14 * |M|)
        (ys.map (·.macd)) (MACD.macdLineK nf ns xs) ∧
      List.Forall₂ (fun (y : R ℚ) (z : ℚ) => |y.v - z| ≤ 296 / 10 ^ 14 * |M|)
        (ys.map (·.signal)) (MACD.macdSignalK nf ns ng xs) ∧
      List.Forall₂ (fun (y : R ℚ) (z : ℚ) => |y.v - z| ≤ 433 / 10 ^ 14 * |M|)
        (ys.map (·.histogram)) (MACD.macdHistK nf ns ng xs) := by
  obtain ⟨s', ys, e, b1, b2, b3⟩ := MACD.macd_rounding nf ns ng hnf hns hng M xs hM
    (small_of_le hu nf hf) (small_of_le hu ns hs) (small_of_le hu ng hg)
  refine ⟨s', ys, e, b1.imp ?_, b2.imp ?_, b3.imp ?_⟩
  · intro y z hb
    exact le_trans hb (scale_le hu _ _ M (by positivity) (c1_num nf ns hf hs))
  · intro y z hb
    exact le_trans hb (scale_le hu _ _ M (by positivity) (c2_num nf ns ng hf hs hg))
  · intro y z hb
    exact le_trans hb (scale_le hu _ _ M (by positivity) (c3_num nf ns ng hf hs hg))

/-- **ATR at binary64 precision** (scalar path): unit roundoff at most `2^-53`, period in
    1..1024, any stream bounded by `M`: every output within `1.37e-12·|M|` of the exact ATR. -/
theorem atr_within [Rounding ℚ] (hu : (u : ℚ) ≤ u64) (n : Nat) (hn : 0 < n) (hn' : n ≤ 1024)
    (M : ℚ) (xs : List ℚ) (hM : ∀ x ∈ xs, |x| ≤ M) :
    ∃ s' ys, runOut AverageTrueRange.next
        (AverageTrueRange.fresh n : AverageTrueRange (R ℚ)) (xs.map R.mk) = some (s', ys) ∧
      List.Forall₂ (fun (y : R ℚ) (z : ℚ) => |y.v - z| ≤ 137 / 10 ^ 14 * |M|)
        ys (ATR.atrSeqK n xs) := by
  obtain ⟨s', ys, e, b⟩ := ATR.atr_rounding n hn M xs hM (small_of_le hu n hn')
  refine ⟨s', ys, e, b.imp ?_⟩
  intro y z hb
  exact le_trans hb (scale_le hu _ _ M (by positivity) (catr_num n hn'))

/-- **KeltnerChannel at binary64 precision** (scalar path): unit roundoff at most `2^-53`,
    period in 1..1024, any multiplier `m`, any stream bounded by `M`: the average is within
    `1e-12·|M|` and both bands within `(6.84e-13 + 1.367e-12·|m|)·|M|` of the exact formulas. -/
theorem kc_within [Rounding ℚ] (hu : (u : ℚ) ≤ u64) (n : Nat) (hn : 0 < n) (hn' : n ≤ 1024)
    (m M : ℚ) (xs : List ℚ) (hM : ∀ x ∈ xs, |x| ≤ M) :
    ∃ s' ys, runOut KeltnerChannel.next
        (KeltnerChannel.fresh n (R.mk m) : KeltnerChannel (R ℚ)) (xs.map R.mk) = some (s', ys) ∧
      List.Forall₂ (fun (y : R ℚ) (z : ℚ) => |y.v - z| ≤ 1 / 10 ^ 12 * |M|)
        (ys.map (·.average)) (EMA.emaSeqK (2 / ((n : ℚ) + 1)) xs) ∧
      List.Forall₂ (fun (y : R ℚ) (z : ℚ) =>
          |y.v - z| ≤ (684 / 10 ^ 15 + 1367 / 10 ^ 15 * |m|) * |M|)
        (ys.map (·.upper)) (ATR.kcUpperK n m xs) ∧
      List.Forall₂ (fun (y : R ℚ) (z : ℚ) =>
          |y.v - z| ≤ (684 / 10 ^ 15 + 1367 / 10 ^ 15 * |m|) * |M|)
        (ys.map (·.lower)) (ATR.kcLowerK n m xs) := by
  obtain ⟨s', ys, e, b1, b2, b3⟩ := ATR.kc_rounding n hn m M xs hM (small_of_le hu n hn')
  have hm : 0 ≤ |m| := abs_nonneg m
  refine ⟨s', ys, e, b1.imp ?_, b2.imp ?_, b3.imp ?_⟩
  · intro y z hb
    exact le_trans hb (scale_le hu _ _ M (by positivity) (ema_tau n hn'))
  · intro y z hb
    exact le_trans hb (scale_le hu _ _ M (by positivity) (ckc_num n hn' m))
  · intro y z hb
    exact le_trans hb (scale_le hu _ _ M (by positivity) (ckc_num n hn' m))

/-! ## Non-vacuity: the main theorems instantiated at a concrete non-identity rounding -/

theorem mem5 {P : ℚ → Prop} {a b c d e : ℚ} (ha : P a) (hb : P b) (hc : P c) (hd : P d) (he : P e) :
    ∀ x ∈ [a, b, c, d, e], P x := by
  intro x hx
  simp only [List.mem_cons, List.not_mem_nil, or_false] at hx
  rcases hx with rfl | rfl | rfl | rfl | rfl <;> assumption

section NonVacuity
attribute [local instance] inflate

/-- `ema_pert` applies: period 3, exact stream bounded by 5, perturbation ≤ 1/100 -/
example : ∃ s' ys, runOut ExponentialMovingAverage.next
      (ExponentialMovingAverage.fresh 3 : ExponentialMovingAverage (R ℚ))
      (([1 + 1 / 100, -2, 3 - 1 / 100] : List ℚ).map R.mk) = some (s', ys) ∧
    List.Forall₂ (fun (y : R ℚ) (z : ℚ) =>
        |y.v - z| ≤ 6 * (((3 : ℕ) : ℚ) + 1) * (1 / 2 ^ 20) * (5 + 1 / 100) + 1 / 100) ys
      (EMA.emaSeqK (2 / (((3 : ℕ) : ℚ) + 1)) [1, -2, 3]) :=
  EMA.ema_pert 3 (by decide) 5 (1 / 100) [1 + 1 / 100, -2, 3 - 1 / 100] [1, -2, 3]
    (.cons (by norm_num [abs_le]) (.cons (by norm_num [abs_le]) (.cons (by norm_num [abs_le]) .nil)))
    (by intro x hx; simp at hx; rcases hx with rfl | rfl | rfl <;> norm_num [abs_le])
    (by show (((3 : ℕ) : ℚ) + 1) * (1 / 2 ^ 20) ≤ 1 / 64; norm_num)

/-- `macd_rounding` applies: periods (2, 5, 3), five inputs bounded by 5, rounding `inflate` -/
example : ∃ s' ys, runOut MovingAverageConvergenceDivergence.next
      (MovingAverageConvergenceDivergence.fresh 2 5 3 : MovingAverageConvergenceDivergence (R ℚ))
      (([1, -2, 3, 1 / 2, 5] : List ℚ).map R.mk) = some (s', ys) ∧
    List.Forall₂ (fun (y : R ℚ) (z : ℚ) =>
        |y.v - z| ≤ (6 * (((2 : ℕ) : ℚ) + 1) + 6 * (((5 : ℕ) : ℚ) + 1) + 3) * (1 / 2 ^ 20) * 5)
      (ys.map (·.macd)) (MACD.macdLineK 2 5 [1, -2, 3, 1 / 2, 5]) ∧
    List.Forall₂ (fun (y : R ℚ) (z : ℚ) =>
        |y.v - z| ≤ (14 * (((3 : ℕ) : ℚ) + 1)
          + (6 * (((2 : ℕ) : ℚ) + 1) + 6 * (((5 : ℕ) : ℚ) + 1) + 3)) * (1 / 2 ^ 20) * 5)
      (ys.map (·.signal)) (MACD.macdSignalK 2 5 3 [1, -2, 3, 1 / 2, 5]) ∧
    List.Forall₂ (fun (y : R ℚ) (z : ℚ) =>
        |y.v - z| ≤ (14 * (((3 : ℕ) : ℚ) + 1) + 12 * (((2 : ℕ) : ℚ) + 1)
          + 12 * (((5 : ℕ) : ℚ) + 1) + 11) * (1 / 2 ^ 20) * 5)
      (ys.map (·.histogram)) (MACD.macdHistK 2 5 3 [1, -2, 3, 1 / 2, 5]) :=
  MACD.macd_rounding 2 5 3 (by decide) (by decide) (by decide) 5 [1, -2, 3, 1 / 2, 5]
    (mem5 (by norm_num [abs_le]) (by norm_num [abs_le]) (by norm_num [abs_le])
      (by norm_num [abs_le]) (by norm_num [abs_le]))
    (by show (((2 : ℕ) : ℚ) + 1) * (1 / 2 ^ 20) ≤ 1 / 64; norm_num)
    (by show (((5 : ℕ) : ℚ) + 1) * (1 / 2 ^ 20) ≤ 1 / 64; norm_num)
    (by show (((3 : ℕ) : ℚ) + 1) * (1 / 2 ^ 20) ≤ 1 / 64; norm_num)

/-- `tr_rounding` applies -/
example : ∃ s' ys, runOut TrueRange.next (TrueRange.fresh : TrueRange (R ℚ))
      (([1, -2, 3, 1 / 2, 5] : List ℚ).map R.mk) = some (s', ys) ∧
    List.Forall₂ (fun (y : R ℚ) (z : ℚ) => |y.v - z| ≤ 2 * (1 / 2 ^ 20) * 5) ys
      (ATR.trSeqK [1, -2, 3, 1 / 2, 5]) ∧
    ∀ w ∈ ATR.trSeqK ([1, -2, 3, 1 / 2, 5] : List ℚ), 0 ≤ w ∧ |w| ≤ 2 * 5 :=
  ATR.tr_rounding 5 [1, -2, 3, 1 / 2, 5]
    (mem5 (by norm_num [abs_le]) (by norm_num [abs_le]) (by norm_num [abs_le])
      (by norm_num [abs_le]) (by norm_num [abs_le]))

/-- `atr_rounding` applies: period 3 -/
example : ∃ s' ys, runOut AverageTrueRange.next
      (AverageTrueRange.fresh 3 : AverageTrueRange (R ℚ))
      (([1, -2, 3, 1 / 2, 5] : List ℚ).map R.mk) = some (s', ys) ∧
    List.Forall₂ (fun (y : R ℚ) (z : ℚ) =>
        |y.v - z| ≤ (12 * (((3 : ℕ) : ℚ) + 1) + 3) * (1 / 2 ^ 20) * 5) ys
      (ATR.atrSeqK 3 [1, -2, 3, 1 / 2, 5]) :=
  ATR.atr_rounding 3 (by decide) 5 [1, -2, 3, 1 / 2, 5]
    (mem5 (by norm_num [abs_le]) (by norm_num [abs_le]) (by norm_num [abs_le])
      (by norm_num [abs_le]) (by norm_num [abs_le]))
    (by show (((3 : ℕ) : ℚ) + 1) * (1 / 2 ^ 20) ≤ 1 / 64; norm_num)

/-- `kc_rounding` applies: period 3, multiplier −3/2 -/
example : ∃ s' ys, runOut KeltnerChannel.next
      (KeltnerChannel.fresh 3 (R.mk (-3 / 2)) : KeltnerChannel (R ℚ))
      (([1, -2, 3, 1 / 2, 5] : List ℚ).map R.mk) = some (s', ys) ∧
    List.Forall₂ (fun (y : R ℚ) (z : ℚ) => |y.v - z| ≤ 6 * (((3 : ℕ) : ℚ) + 1) * (1 / 2 ^ 20) * 5)
      (ys.map (·.average)) (EMA.emaSeqK (2 / (((3 : ℕ) : ℚ) + 1)) [1, -2, 3, 1 / 2, 5]) ∧
    List.Forall₂ (fun (y : R ℚ) (z : ℚ) =>
        |y.v - z| ≤ (6 * (((3 : ℕ) : ℚ) + 1) + 2 + (12 * (((3 : ℕ) : ℚ) + 1) + 8) * |(-3 / 2 : ℚ)|)
          * (1 / 2 ^ 20) * 5)
      (ys.map (·.upper)) (ATR.kcUpperK 3 (-3 / 2) [1, -2, 3, 1 / 2, 5]) ∧
    List.Forall₂ (fun (y : R ℚ) (z : ℚ) =>
        |y.v - z| ≤ (6 * (((3 : ℕ) : ℚ) + 1) + 2 + (12 * (((3 : ℕ) : ℚ) + 1) + 8) * |(-3 / 2 : ℚ)|)
          * (1 / 2 ^ 20) * 5)
      (ys.map (·.lower)) (ATR.kcLowerK 3 (-3 / 2) [1, -2, 3, 1 / 2, 5]) :=
  ATR.kc_rounding 3 (by decide) (-3 / 2) 5 [1, -2, 3, 1 / 2, 5]
    (mem5 (by norm_num [abs_le]) (by norm_num [abs_le]) (by norm_num [abs_le])
      (by norm_num [abs_le]) (by norm_num [abs_le]))
    (by show (((3 : ℕ) : ℚ) + 1) * (1 / 2 ^ 20) ≤ 1 / 64; norm_num)

end NonVacuity

section NonVacuity64
attribute [local instance] inflate64

/-- `macd_within` applies at `u = 2^-53` with the largest periods -/
example : ∃ s' ys, runOut MovingAverageConvergenceDivergence.next
      (MovingAverageConvergenceDivergence.fresh 1024 1024 1024 :
        MovingAverageConvergenceDivergence (R ℚ))
      (([1, -2, 3] : List ℚ).map R.mk) = some (s', ys) ∧ ys.length = 3 := by
  obtain ⟨s', ys, e, b, _, _⟩ := macd_within (le_refl _) 1024 1024 1024 (by decide) (by decide)
    (by decide) (by decide) (by decide) (by decide) 3 [1, -2, 3]
    (by intro x hx; simp at hx; rcases hx with rfl | rfl | rfl <;> norm_num [abs_le])
  refine ⟨s', ys, e, ?_⟩
  have := b.length_eq
  rw [List.length_map, MACD.macdLineK_length] at this
  exact this

/-- `atr_within` and `kc_within` apply at `u = 2^-53` with the largest period -/
example : (∃ s' ys, runOut AverageTrueRange.next
      (AverageTrueRange.fresh 1024 : AverageTrueRange (R ℚ))
      (([1, -2, 3] : List ℚ).map R.mk) = some (s', ys) ∧ ys.length = 3) ∧
    (∃ s' ys, runOut KeltnerChannel.next
      (KeltnerChannel.fresh 1024 (R.mk 2) : KeltnerChannel (R ℚ))
      (([1, -2, 3] : List ℚ).map R.mk) = some (s', ys) ∧ ys.length = 3) := by
  have hM : ∀ x ∈ ([1, -2, 3] : List ℚ), |x| ≤ 3 := by
    intro x hx; simp at hx; rcases hx with rfl | rfl | rfl <;> norm_num [abs_le]
  constructor
  · obtain ⟨s', ys, e, b⟩ := atr_within (le_refl _) 1024 (by decide) (by decide) 3 [1, -2, 3] hM
    refine ⟨s', ys, e, ?_⟩
    rw [b.length_eq, ATR.atrSeqK_length]; rfl
  · obtain ⟨s', ys, e, b, _, _⟩ :=
      kc_within (le_refl _) 1024 (by decide) (by decide) 2 3 [1, -2, 3] hM
    refine ⟨s', ys, e, ?_⟩
    have := b.length_eq
    rw [List.length_map, EMA.emaSeqK_length'] at this
    exact this

end NonVacuity64

end TaRs.Round.Tau
