/-
  Layer R, RelativeStrengthIndex: rounding-error statement for the GENERATED `next` under the
  standard model of floating-point arithmetic (`TaRs/Round/Model.lean`), obtained from the L0
  whole-stream identity `Props.C03.rsi_stream` (the generated RSI IS
  `zipWith rsiVal (EMA gains) (EMA losses)` for every scalar) and the EMA theorem of this layer.

  `rsi_rounding`: for every period `n ≥ 1` with `(n+1)·u ≤ 1/64`, every stream bounded by `M`
  (any length): the generated RSI never panics; its `k`-th output is `rsiVal U_k D_k` where the
  two smoothed averages are within `E = 6·(n+1)·u·G`, `G = (1+u)·(2M + 1/10)`, of the EXACT EMAs
  (exact `α = 2/(n+1)`) `Ū_k`, `D̄_k` of the COMPUTED gains / losses (`fl(x − prev)`, first `fl 0.1`),
  which are non-negative; and whenever `Ū_k + D̄_k ≥ 4E` the ratio branch is taken and

        |output_k − 100·Ū_k/(Ū_k + D̄_k)| ≤ 100·(2E/(Ū_k + D̄_k) + 12u).

  The bound does not depend on the stream length (the EMA recursion contracts its own rounding
  errors).  The condition `Ū + D̄ ≥ 4E` is the property's "well-conditioned" proviso: when both
  averages have decayed to rounding level the reading is residue (C08's subject).
-/
import TaRs.Round.EMAPert
import TaRs.Round.MFI
import TaRs.Props.C03a
import Mathlib.Tactic.NormNum
import Mathlib.Tactic.Ring
import Mathlib.Tactic.Linarith
import Mathlib.Tactic.Positivity
set_option linter.unusedSectionVars false
set_option linter.unusedSimpArgs false
namespace TaRs.Round.RSI
open TaRs TaRs.Rs TaRs.Gen Rounding TaRs.Round.EMA
open TaRs.Round.MFI (Rel rel_fl ratio_err)
open TaRs.Gen.RelativeStrengthIndex (rsiVal)

variable {K : Type} [Field K] [LinearOrder K] [IsStrictOrderedRing K]

/-! ## exact EMA of non-negative values is non-negative -/

theorem emaFromK_nonneg (a : K) (ha0 : 0 ≤ a) (ha1 : a ≤ 1) (xs : List K) :
    ∀ z, 0 ≤ z → (∀ x ∈ xs, 0 ≤ x) → ∀ w ∈ emaFromK a z xs, 0 ≤ w := by
  induction xs with
  | nil => intro _ _ _ w hw; simp [emaFromK] at hw
  | cons x xs ih =>
    intro z hz hxs w hw
    have hx : 0 ≤ x := hxs x (by simp)
    have hz' : 0 ≤ a * x + (1 - a) * z := add_nonneg (mul_nonneg ha0 hx) (mul_nonneg (by linarith) hz)
    simp only [emaFromK, List.mem_cons] at hw
    rcases hw with rfl | hw
    · exact hz'
    · exact ih _ hz' (fun b hb => hxs b (by simp [hb])) w hw

theorem emaSeqK_nonneg (a : K) (ha0 : 0 ≤ a) (ha1 : a ≤ 1) (xs : List K) (hxs : ∀ x ∈ xs, 0 ≤ x) :
    ∀ w ∈ emaSeqK a xs, 0 ≤ w := by
  cases xs with
  | nil => intro w hw; simp [emaSeqK] at hw
  | cons x xs =>
    intro w hw
    have hx : 0 ≤ x := hxs x (by simp)
    simp only [emaSeqK, List.mem_cons] at hw
    rcases hw with rfl | hw
    · exact hx
    · exact emaFromK_nonneg a ha0 ha1 xs x hx (fun b hb => hxs b (by simp [hb])) w hw

variable [Rounding K]

/-! ## the computed gains and losses: non-negative and bounded -/

theorem fl_nonneg (x : K) (hx : 0 ≤ x) (hu1 : (u : K) ≤ 1) : 0 ≤ fl x := by
  have := (fl_bounds x).1
  rw [abs_of_nonneg hx] at this
  nlinarith [mul_nonneg (sub_nonneg.mpr hu1) hx]

/-- a computed gain or loss entry is in `[0, (1+u)·(2M + 1/10)]` -/
def Good (M : K) (y : R K) : Prop := 0 ≤ y.v ∧ y.v ≤ (1 + u) * (2 * M + 1 / 10)

theorem good_zero (M : K) (hM : 0 ≤ M) : Good M (Scalar.lit 0 0 : R K) := by
  rw [R.lit_zero]
  have hu : (0 : K) ≤ u := u_nonneg
  exact ⟨le_refl _, by simp only [R.mk_v]; positivity⟩

theorem good_diff (M x p : K) (hx : |x| ≤ M) (hp : |p| ≤ M) (hlt : p ≤ x) (hu1 : (u : K) ≤ 1) :
    Good M (Scalar.sub (R.mk x) (R.mk p)) := by
  have hu : (0 : K) ≤ u := u_nonneg
  have h0 : 0 ≤ x - p := by linarith
  have h2 : |x - p| ≤ 2 * M := by have := abs_sub x p; linarith
  refine ⟨fl_nonneg _ h0 hu1, ?_⟩
  show fl (x - p) ≤ _
  have := abs_fl_le (x - p) _ h2
  have h3 := le_abs_self (fl (x - p))
  nlinarith

theorem good_seed (M : K) (hM : 0 ≤ M) (hu1 : (u : K) ≤ 1) : Good M (Scalar.lit 1 1 : R K) := by
  have hu : (0 : K) ≤ u := u_nonneg
  have h0 : (0 : K) ≤ ((1 : ℕ) : K) / 10 ^ 1 := by positivity
  refine ⟨fl_nonneg _ h0 hu1, ?_⟩
  show fl (((1 : ℕ) : K) / 10 ^ 1) ≤ _
  have := abs_fl_le (((1 : ℕ) : K) / 10 ^ 1) (1 / 10) (by rw [abs_of_nonneg h0]; norm_num)
  have h3 := le_abs_self (fl (((1 : ℕ) : K) / 10 ^ 1))
  nlinarith

theorem gainsFrom_good (M : K) (hu1 : (u : K) ≤ 1) (xs : List K) :
    ∀ p, |p| ≤ M → (∀ x ∈ xs, |x| ≤ M) →
      ∀ y ∈ Props.C03.gainsFrom (R.mk p) (xs.map R.mk), Good M y := by
  induction xs with
  | nil => intro _ _ _ y hy; simp [Props.C03.gainsFrom] at hy
  | cons x xs ih =>
    intro p hp hxs y hy
    have hx : |x| ≤ M := hxs x (by simp)
    have hM : 0 ≤ M := le_trans (abs_nonneg _) hx
    simp only [List.map_cons, Props.C03.gainsFrom, List.mem_cons] at hy
    rcases hy with rfl | hy
    · by_cases c : p < x
      · have : Scalar.lt (R.mk p) (R.mk x) = true := by show decide (p < x) = true; simp [c]
        rw [this]; exact good_diff M x p hx hp (le_of_lt c) hu1
      · have : Scalar.lt (R.mk p) (R.mk x) = false := by show decide (p < x) = false; simp [c]
        rw [this]; exact good_zero M hM
    · exact ih x hx (fun b hb => hxs b (by simp [hb])) y hy

theorem lossesFrom_good (M : K) (hu1 : (u : K) ≤ 1) (xs : List K) :
    ∀ p, |p| ≤ M → (∀ x ∈ xs, |x| ≤ M) →
      ∀ y ∈ Props.C03.lossesFrom (R.mk p) (xs.map R.mk), Good M y := by
  induction xs with
  | nil => intro _ _ _ y hy; simp [Props.C03.lossesFrom] at hy
  | cons x xs ih =>
    intro p hp hxs y hy
    have hx : |x| ≤ M := hxs x (by simp)
    have hM : 0 ≤ M := le_trans (abs_nonneg _) hx
    simp only [List.map_cons, Props.C03.lossesFrom, List.mem_cons] at hy
    rcases hy with rfl | hy
    · by_cases c : p < x
      · have : Scalar.lt (R.mk p) (R.mk x) = true := by show decide (p < x) = true; simp [c]
        rw [this]; exact good_zero M hM
      · have : Scalar.lt (R.mk p) (R.mk x) = false := by show decide (p < x) = false; simp [c]
        rw [this]; exact good_diff M p x hp hx (not_lt.mp c) hu1
    · exact ih x hx (fun b hb => hxs b (by simp [hb])) y hy

theorem gains_good (M : K) (hu1 : (u : K) ≤ 1) (xs : List K) (hxs : ∀ x ∈ xs, |x| ≤ M) :
    ∀ y ∈ Props.C03.gains (xs.map R.mk), Good M y := by
  cases xs with
  | nil => intro y hy; simp [Props.C03.gains] at hy
  | cons x xs =>
    intro y hy
    have hx : |x| ≤ M := hxs x (by simp)
    have hM : 0 ≤ M := le_trans (abs_nonneg _) hx
    simp only [List.map_cons, Props.C03.gains, List.mem_cons] at hy
    rcases hy with rfl | hy
    · exact good_seed M hM hu1
    · exact gainsFrom_good M hu1 xs x hx (fun b hb => hxs b (by simp [hb])) y hy

theorem losses_good (M : K) (hu1 : (u : K) ≤ 1) (xs : List K) (hxs : ∀ x ∈ xs, |x| ≤ M) :
    ∀ y ∈ Props.C03.losses (xs.map R.mk), Good M y := by
  cases xs with
  | nil => intro y hy; simp [Props.C03.losses] at hy
  | cons x xs =>
    intro y hy
    have hx : |x| ≤ M := hxs x (by simp)
    have hM : 0 ≤ M := le_trans (abs_nonneg _) hx
    simp only [List.map_cons, Props.C03.losses, List.mem_cons] at hy
    rcases hy with rfl | hy
    · exact good_seed M hM hu1
    · exact lossesFrom_good M hu1 xs x hx (fun b hb => hxs b (by simp [hb])) y hy

/-- EMA of a list of good values: within `6(n+1)u·G` of the exact EMA of their values, which is
    non-negative -/
theorem ema_good (n : Nat) (hn : 0 < n) (M : K) (l : List (R K)) (hl : ∀ y ∈ l, Good M y)
    (hNu : ((n : K) + 1) * u ≤ 1 / 64) :
    List.Forall₂ (fun (y : R K) (z : K) => |y.v - z| ≤ 6 * ((n : K) + 1) * u * ((1 + u) * (2 * M + 1 / 10)))
        (Props.C02.emaSeq (Props.C02.alpha n : R K) l) (emaSeqK (2 / ((n : K) + 1)) (l.map R.v)) ∧
      ∀ w ∈ emaSeqK (2 / ((n : K) + 1)) (l.map R.v), 0 ≤ w := by
  obtain ⟨ha0, ha1, _, _⟩ := period_facts (K := K) n hn
  have hb : ∀ x ∈ l.map R.v, |x| ≤ (1 + u) * (2 * M + 1 / 10) := by
    intro x hx
    obtain ⟨y, hy, rfl⟩ := List.mem_map.mp hx
    rw [abs_of_nonneg (hl y hy).1]; exact (hl y hy).2
  have h := ema_rounding_spec n hn _ (l.map R.v) hb hNu
  rw [map_mk_v] at h
  refine ⟨h, emaSeqK_nonneg _ ha0.le ha1 _ ?_⟩
  intro x hx
  obtain ⟨y, hy, rfl⟩ := List.mem_map.mp hx
  exact (hl y hy).1

/-! ## the reading -/

/-- scaling the numerator: `x'/d` against `x/d` -/
theorem Rel.div_num {x' x a : K} (d : K) (h : Rel x' x a) : Rel (x' / d) (x / d) a := by
  unfold Rel at *
  rw [← sub_div, abs_div, abs_div]
  calc |x' - x| / |d| ≤ a * |x| / |d| := div_le_div_of_nonneg_right h (abs_nonneg _)
    _ = a * (|x| / |d|) := by ring

theorem Rel.rfl' (x : K) : Rel x x 0 := by unfold Rel; simp

/-- RSI's output expression `fl (fl (fl 100 · U) / fl (U + D))` against the exact
    `100·S_U/(S_U + S_D)`, when both averages are within `E` of the exact non-negative ones, the
    exact sum is at least `4E`, and `u ≤ 1/64` -/
theorem reading_err (U D SU SD E : K) (hSU : 0 ≤ SU) (hSD : 0 ≤ SD)
    (hU : |U - SU| ≤ E) (hD : |D - SD| ≤ E) (h4 : 4 * E ≤ SU + SD) (hpos : 0 < SU + SD)
    (hu64 : (u : K) ≤ 1 / 64) :
    |fl (fl (fl 100 * U) / fl (U + D)) - SU / (SU + SD) * 100| ≤ 100 * (2 * E / (SU + SD) + 12 * u) := by
  have hu : (0 : K) ≤ u := u_nonneg
  have hE : 0 ≤ E := le_trans (abs_nonneg _) hU
  have hU' := abs_le.mp hU
  have hD' := abs_le.mp hD
  have hs0 : 0 < U + D := by linarith [hU'.1, hD'.1]
  have huu : (u : K) * u ≤ u * (1 / 64) := mul_le_mul_of_nonneg_left hu64 hu
  have r1 : Rel (fl (U + D)) (U + D) u := rel_fl _
  have n1 : Rel (fl 100 * U) (100 * U) u := ((rel_fl (100 : K)).mul (Rel.rfl' U)).mono (by nlinarith)
  have n2 : Rel (fl (fl 100 * U)) (100 * U) (3 * u) := ((rel_fl _).trans n1 hu).mono (by nlinarith)
  have q1 : Rel (fl (fl 100 * U) / fl (U + D)) (fl (fl 100 * U) / (U + D)) (2 * u) :=
    MFI.Rel.div_den _ r1 hu (by linarith) (ne_of_gt hs0)
  have q2 : Rel (fl (fl 100 * U) / (U + D)) (100 * U / (U + D)) (3 * u) := Rel.div_num _ n2
  have q3 : Rel (fl (fl 100 * U) / fl (U + D)) (100 * U / (U + D)) (6 * u) :=
    (q1.trans q2 (by linarith)).mono (by nlinarith)
  have q4 : Rel (fl (fl (fl 100 * U) / fl (U + D))) (100 * U / (U + D)) (8 * u) :=
    ((rel_fl _).trans q3 hu).mono (by nlinarith)
  have hr := ratio_err U D SU SD E hSU hSD hU hD h4 hpos
  have hq0 : SU / (SU + SD) ≤ 1 := by rw [div_le_one hpos]; linarith
  have hq00 : 0 ≤ SU / (SU + SD) := div_nonneg hSU (le_of_lt hpos)
  have hED : 2 * E / (SU + SD) ≤ 1 / 2 := by rw [div_le_iff₀ hpos]; linarith
  have hrabs : |U / (U + D)| ≤ 3 / 2 := by
    have := abs_add_le (U / (U + D) - SU / (SU + SD)) (SU / (SU + SD))
    rw [sub_add_cancel, abs_of_nonneg hq00] at this
    linarith
  unfold Rel at q4
  have e100 : 100 * U / (U + D) = U / (U + D) * 100 := by ring
  rw [e100, abs_mul, abs_of_nonneg (by norm_num : (0 : K) ≤ 100)] at q4
  have e : fl (fl (fl 100 * U) / fl (U + D)) - SU / (SU + SD) * 100
      = (fl (fl (fl 100 * U) / fl (U + D)) - U / (U + D) * 100)
        + (U / (U + D) - SU / (SU + SD)) * 100 := by ring
  rw [e]
  have t := abs_add_le (fl (fl (fl 100 * U) / fl (U + D)) - U / (U + D) * 100)
    ((U / (U + D) - SU / (SU + SD)) * 100)
  rw [abs_mul (U / (U + D) - SU / (SU + SD)), abs_of_nonneg (by norm_num : (0 : K) ≤ 100)] at t
  have h8 : 8 * u * (|U / (U + D)| * 100) ≤ 8 * u * (3 / 2 * 100) :=
    mul_le_mul_of_nonneg_left (by linarith) (by linarith)
  nlinarith

/-- the generated `rsiVal` on the ratio branch is exactly that expression -/
theorem rsiVal_v (U D : R K) (hne : ¬ (fl (U.v + D.v) = 0)) :
    (rsiVal U D).v = fl (fl (fl ((100 : K) / 10 ^ 0) * U.v) / fl (U.v + D.v)) := by
  unfold rsiVal
  have hb : Scalar.beq (Scalar.add U D) (Scalar.lit 0 0 : R K) = false := by
    rw [R.lit_zero]
    show decide (fl (U.v + D.v) = 0) = false
    simp [hne]
  rw [hb]
  rfl

/-- **RSI rounding theorem** (standard model; generated code). -/
theorem rsi_rounding (n : Nat) (hn : 0 < n) (M : K) (xs : List K) (hM : ∀ x ∈ xs, |x| ≤ M)
    (hNu : ((n : K) + 1) * u ≤ 1 / 64) :
    ∃ s' ys us ds, runOut RelativeStrengthIndex.next
        (RelativeStrengthIndex.fresh n : RelativeStrengthIndex (R K)) (xs.map R.mk) = some (s', ys) ∧
      ys.length = xs.length ∧ us.length = xs.length ∧ ds.length = xs.length ∧
      (∀ w ∈ us, 0 ≤ w) ∧ (∀ w ∈ ds, 0 ≤ w) ∧
      us = emaSeqK (2 / ((n : K) + 1)) ((Props.C03.gains (xs.map R.mk)).map R.v) ∧
      ds = emaSeqK (2 / ((n : K) + 1)) ((Props.C03.losses (xs.map R.mk)).map R.v) ∧
      ∀ k (hk : k < ys.length) (hku : k < us.length) (hkd : k < ds.length),
        4 * (6 * ((n : K) + 1) * u * ((1 + u) * (2 * M + 1 / 10))) ≤ us[k] + ds[k] → 0 < us[k] + ds[k] →
        |(ys[k]).v - us[k] / (us[k] + ds[k]) * 100|
          ≤ 100 * (2 * (6 * ((n : K) + 1) * u * ((1 + u) * (2 * M + 1 / 10))) / (us[k] + ds[k]) + 12 * u) := by
  have hu : (0 : K) ≤ u := u_nonneg
  have hu64 : (u : K) ≤ 1 / 64 := by
    have h1 : (1 : K) ≤ n := by exact_mod_cast hn
    nlinarith
  have hu1 : (u : K) ≤ 1 := by linarith
  obtain ⟨s', h⟩ := Props.C03.rsi_stream (F := R K) n (xs.map R.mk)
  obtain ⟨bu, nu⟩ := ema_good n hn M _ (gains_good M hu1 xs hM) hNu
  obtain ⟨bd, nd⟩ := ema_good n hn M _ (losses_good M hu1 xs hM) hNu
  have hlu : (Props.C02.emaSeq (Props.C02.alpha n : R K) (Props.C03.gains (xs.map R.mk))).length = xs.length := by
    simp [Props.C02.emaSeq_length, Props.C03.gains_length]
  have hld : (Props.C02.emaSeq (Props.C02.alpha n : R K) (Props.C03.losses (xs.map R.mk))).length = xs.length := by
    simp [Props.C02.emaSeq_length, Props.C03.losses_length]
  refine ⟨s', _, _, _, h, by simp [Props.C03.rsiSeq_length], by rw [← bu.length_eq, hlu],
    by rw [← bd.length_eq, hld], nu, nd, rfl, rfl, ?_⟩
  intro k hk hku hkd h4 hpos
  have hk1 : k < (Props.C02.emaSeq (Props.C02.alpha n : R K) (Props.C03.gains (xs.map R.mk))).length := by
    rw [bu.length_eq]; exact hku
  have hk2 : k < (Props.C02.emaSeq (Props.C02.alpha n : R K) (Props.C03.losses (xs.map R.mk))).length := by
    rw [bd.length_eq]; exact hkd
  have eU := List.Forall₂.get bu hk1 hku
  have eD := List.Forall₂.get bd hk2 hkd
  simp only [List.get_eq_getElem] at eU eD
  have hy : (Props.C03.rsiSeq n (xs.map R.mk))[k]
      = rsiVal (Props.C02.emaSeq (Props.C02.alpha n : R K) (Props.C03.gains (xs.map R.mk)))[k]
          (Props.C02.emaSeq (Props.C02.alpha n : R K) (Props.C03.losses (xs.map R.mk)))[k] := by
    simp [Props.C03.rsiSeq]
  rw [hy]
  set U := (Props.C02.emaSeq (Props.C02.alpha n : R K) (Props.C03.gains (xs.map R.mk)))[k] with hUdef
  set D := (Props.C02.emaSeq (Props.C02.alpha n : R K) (Props.C03.losses (xs.map R.mk)))[k] with hDdef
  have hSU := nu _ (List.getElem_mem hku)
  have hSD := nd _ (List.getElem_mem hkd)
  have hU' := abs_le.mp eU
  have hD' := abs_le.mp eD
  have hs0 : 0 < U.v + D.v := by linarith [hU'.1, hD'.1]
  have hfl0 : ¬ fl (U.v + D.v) = 0 := by
    intro h0
    have := fl_err (U.v + D.v)
    rw [h0, zero_sub, abs_neg, abs_of_pos hs0] at this
    nlinarith
  rw [rsiVal_v _ _ hfl0]
  have e100 : ((100 : K) / 10 ^ 0) = 100 := by norm_num
  rw [e100]
  exact reading_err _ _ _ _ _ hSU hSD eU eD h4 hpos hu64

end TaRs.Round.RSI
