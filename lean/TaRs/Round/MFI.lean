/-
  Layer R, MoneyFlowIndex: rounding-error bound for the two RUNNING TOTALS of the GENERATED
  `nextBar` under the standard model of floating-point arithmetic (`TaRs/Round/Model.lean`;
  trusted assumption: every operation is the exact one followed by a rounding `fl` with
  `|fl x − x| ≤ u·|x|`, i.e. no overflow / underflow).

  This is the C13 ("no drift") statement for MFI: the code keeps
  `total_positive_money_flow` / `total_negative_money_flow` incrementally (pop the flow that
  leaves the window, push the new one) and never recomputes them.

  Main theorem `mfi_totals_rounding`: for every period `n ≥ 1`, every stream of bars whose
  COMPUTED raw money flows `r = fl(tp·volume)` satisfy `0 ≤ r ≤ M`, of length `t + 1` with
  `t·u ≤ 1/8`: the generated MFI never panics and after the stream

        |total_positive − Σ positive flows of the window| ≤ 3·t·min(t,n)·u·M
        |total_negative − Σ |negative flows| of the window| ≤ 3·t·min(t,n)·u·M

  where "the window" is exactly the last `min(t, n)` SIGNED COMPUTED flows (one per bar after
  the first; `+r` when the computed typical price rose, `−r` when it fell, `0` otherwise) —
  i.e. what a from-scratch recomputation of the window in the same arithmetic would add up.
  Since every prefix of a stream is a stream, this holds after every bar.  The classification
  of the moves is the code's own (comparison of the ROUNDED typical prices): the theorem is
  about the accumulators, not about the typical price.

  `ratio_err` then turns the two bounds into a bound on the ratio `P/(P+N)` the indicator
  returns (before its last three roundings): `|P/(P+N) − S_P/(S_P+S_N)| ≤ 2·E/(S_P+S_N)`
  when `4·E ≤ S_P+S_N`, i.e. the error of the reading is the accumulated error RELATIVE TO THE
  WINDOW'S TOTAL FLOW — the condition number `c` of the property's wording.

  `mfi_reading_rounding` composes everything for the value the indicator RETURNS (its last three
  roundings included, `reading_err`, via the relative-error toolkit `Rel`): whenever the window's
  exact total flow `D` is at least `4E` the ratio branch is taken and the output is within
  `100·(2E/D + 12u)` of `100·S_P/(S_P+S_N)`.

  Proof: the L0 normal form `next_eq` / `next_eq_first` of the generated code (valid for every
  scalar), the abstraction invariant `Inv` (ring tracked exactly with `RingInv` behind two
  phantom zeros, as in `Lemmas/Exact/MoneyFlowIndex.lean`), and the arithmetic core `acc_step`
  (a copy of `SMA.sum_step` in which each of the two roundings may be absent).
-/
import TaRs.Round.Model
import TaRs.Round.SMA
import TaRs.Lemmas.MoneyFlowIndex
import TaRs.Lemmas.Ring
import TaRs.Lemmas.Machine
import TaRs.Spec.Window
import Mathlib.Tactic.NormNum
import Mathlib.Tactic.Ring
import Mathlib.Tactic.Linarith
import Mathlib.Tactic.Positivity
import Mathlib.Tactic.FieldSimp
set_option linter.unusedSectionVars false
set_option linter.unusedSimpArgs false
namespace TaRs.Round.MFI
open TaRs TaRs.Rs TaRs.Spec TaRs.Gen TaRs.Gen.MoneyFlowIndex Rounding
open TaRs.Round.SMA (lastN_snoc evicted sum_sub_evicted abs_sum_le mem_lastN)

variable {K : Type} [Field K] [LinearOrder K] [IsStrictOrderedRing K]

/-! ## Exact list facts -/

/-- positive part of a signed flow -/
def pp (x : K) : K := max x 0
/-- magnitude of the negative part of a signed flow -/
def np (x : K) : K := max (-x) 0

@[simp] theorem pp_zero : pp (0 : K) = 0 := by simp [pp]
@[simp] theorem np_zero : np (0 : K) = 0 := by simp [np]

/-- the signed flow of the move `p → t` whose computed raw flow is `r` -/
def flowR (p t r : K) : K := if p < t then r else if t < p then -r else 0

theorem pp_flow (p t r : K) (hr : 0 ≤ r) : pp (flowR p t r) = if p < t then r else 0 := by
  unfold flowR pp
  by_cases c4 : p < t
  · simp [c4, hr]
  · by_cases c5 : t < p <;> simp [c4, c5, hr]

theorem np_flow (p t r : K) (hr : 0 ≤ r) :
    np (flowR p t r) = if p < t then 0 else if t < p then r else 0 := by
  unfold flowR np
  by_cases c4 : p < t
  · simp [c4, hr]
  · by_cases c5 : t < p <;> simp [c4, c5, hr]

theorem abs_flow (p t r M : K) (hr : 0 ≤ r) (hM : r ≤ M) : |flowR p t r| ≤ M := by
  unfold flowR
  have : |r| = r := abs_of_nonneg hr
  by_cases c4 : p < t
  · simp [c4, this, hM]
  · by_cases c5 : t < p <;> simp [c4, c5, this, hM, le_trans hr hM]

theorem abs_pp_le (x M : K) (h : |x| ≤ M) : |pp x| ≤ M := by
  unfold pp
  have h0 : 0 ≤ M := le_trans (abs_nonneg _) h
  rw [abs_of_nonneg (le_max_right _ _)]
  exact max_le (le_trans (le_abs_self x) h) h0

theorem abs_np_le (x M : K) (h : |x| ≤ M) : |np x| ≤ M := by
  unfold np
  have h0 : 0 ≤ M := le_trans (abs_nonneg _) h
  rw [abs_of_nonneg (le_max_right _ _)]
  exact max_le (le_trans (neg_le_abs x) h) h0

/-- the value under the (pre-incremented) cursor: the ring behaves like a `Ring.lean` ring whose
    history is the flow history behind TWO phantom zero pushes -/
def evK (n : Nat) (fl : List K) : K :=
  if fl.length + 2 < n then 0 else ((0 : K) :: 0 :: fl)[fl.length + 2 - n]?.getD 0

/-- once the counter is saturated the value under the cursor is the flow that leaves the window
    (`0` the first time: the slot was never written) -/
theorem evK_full (n : Nat) (fl : List K) (hfull : n ≤ fl.length + 1) : evK n fl = evicted n fl := by
  unfold evK evicted
  have h1 : ¬ fl.length + 2 < n := by omega
  simp only [h1, if_false]
  by_cases hl : fl.length < n
  · have : fl.length + 2 - n = 1 := by omega
    simp [hl, this]
  · have : fl.length + 2 - n = (fl.length - n) + 1 + 1 := by omega
    simp [hl, this]

/-- the evicted element of a mapped history (`f 0 = 0`) -/
theorem evicted_map (f : K → K) (hf : f 0 = 0) (n : Nat) (fl : List K) :
    evicted n (fl.map f) = f (evicted n fl) := by
  unfold evicted
  by_cases hl : fl.length < n
  · simp [hl, hf]
  · simp only [List.length_map, hl, if_false, List.getElem?_map]
    cases fl[fl.length - n]? <;> simp [hf]

/-- while the window is not full nothing is evicted -/
theorem evicted_short (n : Nat) (fl : List K) (hl : fl.length < n) : evicted n fl = 0 := by
  unfold evicted; simp [hl]

/-- the pop `if popped.is_sign_positive() { pos -= popped }` subtracts the positive part -/
theorem pp_of_nonneg (e : K) (h : 0 ≤ e) : pp e = e := by unfold pp; exact max_eq_left h
theorem pp_of_neg (e : K) (h : ¬ 0 ≤ e) : pp e = 0 := by
  unfold pp; exact max_eq_right (le_of_lt (not_le.mp h))
theorem np_of_nonneg (e : K) (h : 0 ≤ e) : np e = 0 := by
  unfold np; exact max_eq_right (by linarith)
theorem np_of_neg (e : K) (h : ¬ 0 ≤ e) : np e = -e := by
  unfold np; exact max_eq_left (by linarith [not_le.mp h])

/-! ## The arithmetic core -/

section Arith
variable [Rounding K]

/-- a rounding that may be absent: `fl` or the identity -/
def IsRnd (r : K → K) : Prop := ∀ z, |r z - z| ≤ u * |z|

theorem isRnd_fl : IsRnd (fl : K → K) := fl_err
theorem isRnd_id : IsRnd (fun z : K => z) := by
  intro z; simp only [sub_self, abs_zero]; exact mul_nonneg u_nonneg (abs_nonneg _)

theorem IsRnd.err_le {r : K → K} (hr : IsRnd r) (x B : K) (h : |x| ≤ B) : |r x - x| ≤ u * B :=
  le_trans (hr x) (mul_le_mul_of_nonneg_left h u_nonneg)

/-- one update of a running total: `acc' = r2 (r1 (acc − old) + x)` where `acc − old = T + e`
    (`T` = exact sum of the values that stay, `e` = accumulated error) and each of `r1`, `r2` is
    a rounding or absent.  `k1` = number of earlier flows, `c0`/`c` = window length before/after. -/
theorem acc_step (r1 r2 : K → K) (hr1 : IsRnd r1) (hr2 : IsRnd r2) (T e x M k1 c0 c : K)
    (hk1 : 0 ≤ k1) (hc0 : 0 ≤ c0) (hc0c : c0 ≤ c) (hc1 : 1 ≤ c)
    (hku : (k1 + 1) * u ≤ 1 / 8)
    (hT : |T| ≤ (c - 1) * M) (hx : |x| ≤ M) (he : |e| ≤ 3 * k1 * c0 * u * M) :
    |r2 (r1 (T + e) + x) - (T + x)| ≤ 3 * (k1 + 1) * c * u * M := by
  have hu : (0 : K) ≤ u := u_nonneg
  have hM : 0 ≤ M := le_trans (abs_nonneg _) hx
  have hp : 0 ≤ k1 * u := mul_nonneg hk1 hu
  have hpu : k1 * u + u ≤ 1 / 8 := by linarith [hku, (by ring : (k1 + 1) * u = k1 * u + u)]
  have hE : |e| ≤ 3 * (k1 * u) * c * M := by
    have : 3 * k1 * c0 * u * M ≤ 3 * k1 * c * u * M := by
      have h0 : 0 ≤ 3 * k1 * u * M := by positivity
      nlinarith [mul_le_mul_of_nonneg_left hc0c h0]
    calc |e| ≤ 3 * k1 * c0 * u * M := he
      _ ≤ 3 * k1 * c * u * M := this
      _ = 3 * (k1 * u) * c * M := by ring
  set E := 3 * (k1 * u) * c * M with hEdef
  have hE0 : 0 ≤ E := le_trans (abs_nonneg _) hE
  have h1 : |r1 (T + e) - (T + e)| ≤ u * ((c - 1) * M + E) :=
    hr1.err_le _ _ (by linarith [abs_add_le T e])
  have h2a : |r1 (T + e) + x| ≤ c * M + E + u * ((c - 1) * M + E) := by
    have e1 : r1 (T + e) + x = (r1 (T + e) - (T + e)) + (T + (e + x)) := by ring
    rw [e1]
    have := abs_add_le (r1 (T + e) - (T + e)) (T + (e + x))
    have := abs_add_le T (e + x)
    have := abs_add_le e x
    linarith
  have h2 : |r2 (r1 (T + e) + x) - (r1 (T + e) + x)| ≤ u * (c * M + E + u * ((c - 1) * M + E)) :=
    hr2.err_le _ _ h2a
  have e2 : r2 (r1 (T + e) + x) - (T + x)
      = (r2 (r1 (T + e) + x) - (r1 (T + e) + x)) + ((r1 (T + e) - (T + e)) + e) := by ring
  have h3 : |r2 (r1 (T + e) + x) - (T + x)|
      ≤ u * (c * M + E + u * ((c - 1) * M + E)) + (u * ((c - 1) * M + E) + E) := by
    rw [e2]
    have := abs_add_le (r2 (r1 (T + e) + x) - (r1 (T + e) + x)) ((r1 (T + e) - (T + e)) + e)
    have := abs_add_le (r1 (T + e) - (T + e)) e
    linarith
  refine le_trans h3 ?_
  have hq : 0 ≤ 1 - 6 * (k1 * u) - u - 3 * u * (k1 * u) := by nlinarith [mul_nonneg hu hp]
  have key : 0 ≤ u * M * (c * (1 - 6 * (k1 * u) - u - 3 * u * (k1 * u)) + 1 + u) := by
    have : 0 ≤ c * (1 - 6 * (k1 * u) - u - 3 * u * (k1 * u)) := mul_nonneg (by linarith) hq
    exact mul_nonneg (mul_nonneg hu hM) (by linarith)
  have ident : 3 * (k1 + 1) * c * u * M
      - (u * (c * M + E + u * ((c - 1) * M + E)) + (u * ((c - 1) * M + E) + E))
      = u * M * (c * (1 - 6 * (k1 * u) - u - 3 * u * (k1 * u)) + 1 + u) := by
    rw [hEdef]; ring
  linarith

/-- the code's update of the POSITIVE total, written with optional roundings -/
theorem pos_update (ctlt pos : Prop) [Decidable ctlt] [Decidable pos] (P ev r : K)
    (hev : ctlt → ev = 0) (hr : 0 ≤ r) :
    ∃ r1 r2 : K → K, IsRnd r1 ∧ IsRnd r2 ∧
      (if pos then fl ((if ctlt then P else if 0 ≤ ev then fl (P - ev) else P) + r)
       else (if ctlt then P else if 0 ≤ ev then fl (P - ev) else P))
        = r2 (r1 (P - pp ev) + (if pos then r else 0)) := by
  by_cases c1 : ctlt
  · have : ev = 0 := hev c1
    subst this
    by_cases c2 : pos
    · exact ⟨fun z => z, fl, isRnd_id, isRnd_fl, by simp [c1, c2]⟩
    · exact ⟨fun z => z, fun z => z, isRnd_id, isRnd_id, by simp [c1, c2]⟩
  · by_cases c0 : 0 ≤ ev
    · by_cases c2 : pos
      · exact ⟨fl, fl, isRnd_fl, isRnd_fl, by simp [c1, c2, c0, pp_of_nonneg ev c0]⟩
      · exact ⟨fl, fun z => z, isRnd_fl, isRnd_id, by simp [c1, c2, c0, pp_of_nonneg ev c0]⟩
    · by_cases c2 : pos
      · exact ⟨fun z => z, fl, isRnd_id, isRnd_fl, by simp [c1, c2, c0, pp_of_neg ev c0]⟩
      · exact ⟨fun z => z, fun z => z, isRnd_id, isRnd_id, by simp [c1, c2, c0, pp_of_neg ev c0]⟩

/-- the code's update of the NEGATIVE total, written with optional roundings -/
theorem neg_update (ctlt neg : Prop) [Decidable ctlt] [Decidable neg] (N ev r : K)
    (hev : ctlt → ev = 0) (hr : 0 ≤ r) :
    ∃ r1 r2 : K → K, IsRnd r1 ∧ IsRnd r2 ∧
      (if neg then fl ((if ctlt then N else if 0 ≤ ev then N else fl (N + ev)) + r)
       else (if ctlt then N else if 0 ≤ ev then N else fl (N + ev)))
        = r2 (r1 (N - np ev) + (if neg then r else 0)) := by
  by_cases c1 : ctlt
  · have : ev = 0 := hev c1
    subst this
    by_cases c2 : neg
    · exact ⟨fun z => z, fl, isRnd_id, isRnd_fl, by simp [c1, c2]⟩
    · exact ⟨fun z => z, fun z => z, isRnd_id, isRnd_id, by simp [c1, c2]⟩
  · by_cases c0 : 0 ≤ ev
    · by_cases c2 : neg
      · exact ⟨fun z => z, fl, isRnd_id, isRnd_fl, by simp [c1, c2, c0, np_of_nonneg ev c0]⟩
      · exact ⟨fun z => z, fun z => z, isRnd_id, isRnd_id, by simp [c1, c2, c0, np_of_nonneg ev c0]⟩
    · by_cases c2 : neg
      · exact ⟨fl, fl, isRnd_fl, isRnd_fl, by simp [c1, c2, c0, np_of_neg ev c0, sub_neg_eq_add]⟩
      · exact ⟨fl, fun z => z, isRnd_fl, isRnd_id, by simp [c1, c2, c0, np_of_neg ev c0, sub_neg_eq_add]⟩

/-- one slide of a window total of `f`-images, with the error bound: the generic step used for
    both totals (`f = pp` / `f = np`) -/
theorem total_step (f : K → K) (hf0 : f 0 = 0) (hfM : ∀ x M : K, |x| ≤ M → |f x| ≤ M)
    (n : Nat) (hn : 0 < n) (M : K) (fl_ : List K) (hh : ∀ a ∈ fl_, |a| ≤ M) (x : K) (hx : |x| ≤ M)
    (hu : ((fl_.length + 1 : Nat) : K) * u ≤ 1 / 8)
    (r1 r2 : K → K) (hr1 : IsRnd r1) (hr2 : IsRnd r2) (acc : K)
    (herr : |acc - (lastN n (fl_.map f)).sum|
        ≤ 3 * (fl_.length : K) * ((min fl_.length n : Nat) : K) * u * M) :
    |r2 (r1 (acc - f (evicted n fl_)) + f x) - (lastN n ((fl_ ++ [x]).map f)).sum|
      ≤ 3 * ((fl_ ++ [x]).length : K) * ((min (fl_ ++ [x]).length n : Nat) : K) * u * M := by
  set h := fl_.map f with hdef
  have hlen : h.length = fl_.length := by simp [hdef]
  have hhM : ∀ a ∈ h, |a| ≤ M := by
    intro a ha
    simp only [hdef, List.mem_map] at ha
    obtain ⟨b, hb, rfl⟩ := ha
    exact hfM b M (hh b hb)
  have hfx : |f x| ≤ M := hfM x M hx
  rw [List.map_append, List.map_singleton, ← hdef, ← evicted_map f hf0, ← hdef]
  set T := (lastN (n - 1) h).sum with hTdef
  have hS' : (lastN n (h ++ [f x])).sum = T + f x := by rw [lastN_snoc n hn]; simp [hTdef]
  have hTlen : (lastN (n - 1) h).length + 1 = min (h.length + 1) n := by rw [lastN_length]; omega
  have hTK : ((lastN (n - 1) h).length : K) = ((min (h.length + 1) n : Nat) : K) - 1 := by
    rw [← hTlen]; push_cast; ring
  have hTb : |T| ≤ (((min (h.length + 1) n : Nat) : K) - 1) * M := by
    rw [← hTK]
    exact abs_sum_le _ _ (fun a ha => hhM a (mem_lastN _ _ _ ha))
  have hc1 : (1 : K) ≤ ((min (h.length + 1) n : Nat) : K) := by
    exact_mod_cast (by omega : 1 ≤ min (h.length + 1) n)
  have hc0c : ((min h.length n : Nat) : K) ≤ ((min (h.length + 1) n : Nat) : K) := by
    exact_mod_cast (by omega : min h.length n ≤ min (h.length + 1) n)
  have hku : ((h.length : K) + 1) * u ≤ 1 / 8 := by rw [hlen]; simpa using hu
  have hsplit : acc - evicted n h = T + (acc - (lastN n h).sum) := by
    rw [hTdef, ← sum_sub_evicted n hn h]; ring
  rw [hsplit, hS']
  have herr' : |acc - (lastN n h).sum| ≤ 3 * (h.length : K) * ((min h.length n : Nat) : K) * u * M := by
    rw [hlen]; exact herr
  have := acc_step r1 r2 hr1 hr2 T _ (f x) M _ _ _ (Nat.cast_nonneg _) (Nat.cast_nonneg _) hc0c hc1 hku
    hTb hfx herr'
  simp only [List.length_append, List.length_singleton]
  rw [hlen] at this
  push_cast at this ⊢
  exact this

end Arith

/-! ## Abstraction invariant and the one-step lemma for the generated code -/

variable [Rounding K]

/-- computed typical price of a bar -/
def tpR (b : Bar (R K)) : K := (typical b).v
/-- computed raw money flow `fl(tp · volume)` of a bar -/
def rawR (b : Bar (R K)) : K := (Scalar.mul (typical b) b.volume).v

/-- abstraction relation between a concrete state that has seen at least one bar, the previous
    computed typical price `p` and the history `fl_` of SIGNED COMPUTED flows -/
structure Inv (n : Nat) (M : K) (s : MoneyFlowIndex (R K)) (p : K) (fl_ : List K) : Prop where
  period : s.period = n
  small : n * 8 ≤ isizeMax
  idx_lt : s.index < n
  cnt : s.count = min (fl_.length + 1) n
  prev : s.previous_typical_price = R.mk p
  ring : ∃ c', RingInv (R.mk (0 : K)) s.deque n (if s.index + 1 < n then s.index + 1 else 0) c'
            (((0 : K) :: 0 :: fl_).map R.mk)
  pos : |s.total_positive_money_flow.v - (lastN n (fl_.map pp)).sum|
          ≤ 3 * (fl_.length : K) * ((min fl_.length n : Nat) : K) * u * M
  neg : |s.total_negative_money_flow.v - (lastN n (fl_.map np)).sum|
          ≤ 3 * (fl_.length : K) * ((min fl_.length n : Nat) : K) * u * M

theorem inv_wf {n : Nat} {M : K} {s : MoneyFlowIndex (R K)} {p : K} {fl_ : List K}
    (i : Inv n M s p fl_) : WF s := by
  obtain ⟨c', hr⟩ := i.ring
  exact ⟨by rw [i.period]; exact hr.npos, by rw [i.period]; exact i.small, by rw [i.period]; exact hr.size,
    by rw [i.period]; exact i.idx_lt, by rw [i.period, i.cnt]; omega⟩

theorem ring_ev {n j c' : Nat} {d : Array (R K)} {fl_ : List K}
    (hr : RingInv (R.mk (0 : K)) d n j c' (((0 : K) :: 0 :: fl_).map R.mk)) :
    d[j]? = some (R.mk (evK n fl_)) := by
  have hn := hr.npos
  rw [hr.at_cursor]
  unfold evK
  simp only [List.length_map, List.length_cons]
  by_cases hl : fl_.length + 1 + 1 < n
  · simp [hl]
  · have hl' : ¬ fl_.length + 2 < n := hl
    simp only [hl, if_false, List.getElem?_map]
    have hlt : fl_.length + 1 + 1 - n < ((0 : K) :: 0 :: fl_).length := by simp; omega
    rw [show fl_.length + 2 - n = fl_.length + 1 + 1 - n from rfl, List.getElem?_eq_getElem hlt]
    simp

theorem setIfInBounds_replicate_self {α : Type} (n i : Nat) (a : α) :
    (Array.replicate n a).setIfInBounds i a = Array.replicate n a := by
  apply Array.ext
  · simp
  · intro k h1 h2
    simp

/-- the FIRST bar: never panics, ring and totals untouched (exactly zero), typical price
    remembered -/
theorem step_first (n : Nat) (M : K) (hn : 0 < n) (h8 : n * 8 ≤ isizeMax) (b : Bar (R K)) :
    ∃ s' y, (fresh n : MoneyFlowIndex (R K)).nextBar b = some (s', y) ∧ Inv n M s' (tpR b) [] := by
  have hr0 := ((RingInv.fresh (R.mk (0 : K)) n hn).push (R.mk 0)).push (R.mk 0)
  rw [setIfInBounds_replicate_self, setIfInBounds_replicate_self] at hr0
  refine ⟨_, _, next_eq_first _ _ (fresh_wf n hn h8) rfl, ?_⟩
  refine ⟨rfl, h8, ?_, ?_, rfl, ⟨_, by simpa [fresh, cursor, R.lit_zero] using hr0⟩, ?_, ?_⟩
  · simp only [cursor, fresh]; by_cases h : 0 + 1 < n <;> simp [h]; omega
  · simp; omega
  · simp [fresh, R.lit_zero, lastN]
  · simp [fresh, R.lit_zero, lastN]

/-- every later bar whose computed raw flow `r` satisfies `0 ≤ r ≤ M`: never panics, the new
    state is related to the history extended by the new signed flow -/
theorem step {n : Nat} {M : K} {s : MoneyFlowIndex (R K)} {p : K} {fl_ : List K}
    (i : Inv n M s p fl_) (hh : ∀ a ∈ fl_, |a| ≤ M) (b : Bar (R K))
    (hr0 : 0 ≤ rawR b) (hrM : rawR b ≤ M)
    (hu : ((fl_.length + 1 : Nat) : K) * u ≤ 1 / 8) :
    ∃ s' y, s.nextBar b = some (s', y) ∧ Inv n M s' (tpR b) (fl_ ++ [flowR p (tpR b) (rawR b)]) ∧
      y = out s'.total_positive_money_flow s'.total_negative_money_flow := by
  obtain ⟨c', hr⟩ := i.ring
  have hn := hr.npos
  have hj := hr.idx_lt
  have hev := ring_ev hr
  have hpush := hr.push (R.mk (flowR p (tpR b) (rawR b)))
  have hwf := inv_wf i
  have hct := i.cnt
  have hsmall := i.small
  have hpos := i.pos
  have hneg := i.neg
  obtain ⟨pd, ix, ct, pv, ps, ng, d⟩ := s
  have hp : pd = n := i.period
  subst hp
  have hpv : pv = R.mk p := i.prev
  subst hpv
  simp only at hj hev hpush hct hpos hneg
  have hx : |flowR p (tpR b) (rawR b)| ≤ M := abs_flow _ _ _ _ hr0 hrM
  -- the value under the cursor, as seen by the two totals
  have hevz : ct < pd → evK pd fl_ = 0 := by
    intro h
    have hl : fl_.length + 1 < pd := by omega
    unfold evK
    by_cases h2 : fl_.length + 2 < pd
    · simp [h2]
    · have : fl_.length + 2 - pd = 0 := by omega
      simp [h2, this]
  have hevfull : ¬ ct < pd → evK pd fl_ = evicted pd fl_ := fun h => evK_full pd fl_ (by omega)
  have hevx : evK pd fl_ = evicted pd fl_ ∨ (ct < pd ∧ evK pd fl_ = 0 ∧ evicted pd fl_ = 0) := by
    by_cases h : ct < pd
    · exact Or.inr ⟨h, hevz h, evicted_short pd fl_ (by omega)⟩
    · exact Or.inl (hevfull h)
  have hevE : evK pd fl_ = evicted pd fl_ := by
    rcases hevx with h | ⟨_, h1, h2⟩
    · exact h
    · rw [h1, h2]
  refine ⟨_, _, next_eq _ b (R.mk (evK pd fl_)) hwf (by simp only; omega) (by simpa [cursor] using hev), ?_, rfl⟩
  have e : (stored (R.mk p) (typical b) b.volume : R K) = R.mk (flowR p (tpR b) (rawR b)) := by
    unfold stored flowR tpR rawR
    have hlt : ∀ a c : R K, Scalar.lt a c = decide (a.v < c.v) := fun _ _ => rfl
    simp only [hlt, R.mk_v, decide_eq_true_eq]
    split_ifs
    · rfl
    · rfl
    · exact R.lit_zero
  refine ⟨rfl, hsmall, ?_, ?_, rfl, ⟨_, by simpa [cursor, e] using hpush⟩, ?_, ?_⟩
  · simpa [cursor] using hj
  · simp only [List.length_append, List.length_singleton]; split <;> omega
  · -- positive total
    obtain ⟨r1, r2, h1, h2, e⟩ := pos_update (ct < pd) (p < tpR b) ps.v (evK pd fl_) (rawR b) hevz hr0
    have key := total_step pp pp_zero abs_pp_le pd hn M fl_ hh _ hx hu r1 r2 h1 h2 ps.v hpos
    rw [pp_flow _ _ _ hr0, ← hevE, ← e] at key
    have e2 : (pushPos (R.mk p) (typical b) b.volume (popPos
        ({ period := pd, index := ix, count := ct, previous_typical_price := R.mk p,
           total_positive_money_flow := ps, total_negative_money_flow := ng, deque := d } : MoneyFlowIndex (R K))
        (R.mk (evK pd fl_)))).v
        = (if p < tpR b then fl ((if ct < pd then ps.v else if 0 ≤ evK pd fl_ then fl (ps.v - evK pd fl_) else ps.v) + rawR b)
           else (if ct < pd then ps.v else if 0 ≤ evK pd fl_ then fl (ps.v - evK pd fl_) else ps.v)) := by
      unfold pushPos popPos tpR rawR
      by_cases c1 : ct < pd <;> by_cases c0 : 0 ≤ evK pd fl_ <;> by_cases c2 : p < (typical b).v <;>
        simp [Scalar.lt, Scalar.isSignPositive, c1, c0, c2]
    simp only [e2]
    exact key
  · -- negative total
    obtain ⟨r1, r2, h1, h2, e⟩ := neg_update (ct < pd) (¬ p < tpR b ∧ tpR b < p) ng.v (evK pd fl_) (rawR b) hevz hr0
    have key := total_step np np_zero abs_np_le pd hn M fl_ hh _ hx hu r1 r2 h1 h2 ng.v hneg
    have e3 : np (flowR p (tpR b) (rawR b)) = if (¬ p < tpR b ∧ tpR b < p) then rawR b else 0 := by
      rw [np_flow _ _ _ hr0]
      by_cases c4 : p < tpR b <;> by_cases c5 : tpR b < p <;> simp [c4, c5]
    rw [e3, ← hevE, ← e] at key
    have e2 : (pushNeg (R.mk p) (typical b) b.volume (popNeg
        ({ period := pd, index := ix, count := ct, previous_typical_price := R.mk p,
           total_positive_money_flow := ps, total_negative_money_flow := ng, deque := d } : MoneyFlowIndex (R K))
        (R.mk (evK pd fl_)))).v
        = (if (¬ p < tpR b ∧ tpR b < p) then fl ((if ct < pd then ng.v else if 0 ≤ evK pd fl_ then ng.v else fl (ng.v + evK pd fl_)) + rawR b)
           else (if ct < pd then ng.v else if 0 ≤ evK pd fl_ then ng.v else fl (ng.v + evK pd fl_))) := by
      unfold pushNeg popNeg tpR rawR
      by_cases c1 : ct < pd <;> by_cases c0 : 0 ≤ evK pd fl_ <;> by_cases c2 : p < (typical b).v <;>
        by_cases c3 : (typical b).v < p <;>
        simp [Scalar.lt, Scalar.isSignPositive, c1, c0, c2, c3]
    simp only [e2]
    exact key

/-! ## Whole streams -/

/-- the signed computed flows of a run of bars, given the computed typical price before it -/
def flowsFrom (p : K) : List (Bar (R K)) → List K
  | [] => []
  | b :: bs => flowR p (tpR b) (rawR b) :: flowsFrom (tpR b) bs

/-- the signed computed flows of a bar stream: one per bar after the first -/
def flows : List (Bar (R K)) → List K
  | [] => []
  | b :: bs => flowsFrom (tpR b) bs

theorem flowsFrom_length (p : K) (bs : List (Bar (R K))) : (flowsFrom p bs).length = bs.length := by
  induction bs generalizing p with
  | nil => rfl
  | cons b bs ih => simp [flowsFrom, ih]

theorem run_from (n : Nat) (M : K) (bs : List (Bar (R K)))
    (hb : ∀ b ∈ bs, 0 ≤ rawR b ∧ rawR b ≤ M) :
    ∀ (s : MoneyFlowIndex (R K)) (p : K) (fl_ : List K), Inv n M s p fl_ → (∀ a ∈ fl_, |a| ≤ M) →
      ((fl_.length + bs.length : Nat) : K) * u ≤ 1 / 8 →
      ∃ s' outs p', runOut nextBar s bs = some (s', outs) ∧ Inv n M s' p' (fl_ ++ flowsFrom p bs) := by
  induction bs with
  | nil => intro s p fl_ i _ _; exact ⟨s, [], p, rfl, by simpa [flowsFrom] using i⟩
  | cons y ys ih =>
    intro s p fl_ i hh hu
    have hu0 : (0 : K) ≤ u := u_nonneg
    have hy := hb y (by simp)
    have hu1 : ((fl_.length + 1 : Nat) : K) * u ≤ 1 / 8 := by
      refine le_trans (mul_le_mul_of_nonneg_right ?_ hu0) hu
      exact_mod_cast (by simp : fl_.length + 1 ≤ fl_.length + (y :: ys).length)
    obtain ⟨s1, o1, e1, i1, _⟩ := step i hh y hy.1 hy.2 hu1
    have hh1 : ∀ a ∈ fl_ ++ [flowR p (tpR y) (rawR y)], |a| ≤ M := by
      intro a ha
      rcases List.mem_append.mp ha with ha | ha
      · exact hh a ha
      · simp at ha; rw [ha]; exact abs_flow _ _ _ _ hy.1 hy.2
    have hu2 : (((fl_ ++ [flowR p (tpR y) (rawR y)]).length + ys.length : Nat) : K) * u ≤ 1 / 8 := by
      have : (fl_ ++ [flowR p (tpR y) (rawR y)]).length + ys.length = fl_.length + (y :: ys).length := by
        simp; omega
      rw [this]; exact hu
    obtain ⟨s2, o2, p2, e2, i2⟩ := ih (fun b hb' => hb b (by simp [hb'])) s1 _ _ i1 hh1 hu2
    refine ⟨s2, o1 :: o2, p2, ?_, by simpa [flowsFrom] using i2⟩
    rw [runOut_cons nextBar s y _ s1 o1 e1, e2]; rfl

/-- **MFI running-totals rounding-error theorem** (standard model; generated code).
    For every period `n ≥ 1` accepted by `new`, every bound `M`, every stream `b0 :: bs` of bars
    whose computed raw flows (after the first bar) satisfy `0 ≤ fl(tp·volume) ≤ M` and with
    `t = |bs|`, `t·u ≤ 1/8`: the generated MFI never panics and in the final state both running
    totals are within `3·t·min(t,n)·u·M` of the sums over exactly the last `min(t,n)` signed
    computed flows. -/
theorem mfi_totals_rounding (n : Nat) (hn : 0 < n) (h8 : n * 8 ≤ isizeMax) (M : K)
    (b0 : Bar (R K)) (bs : List (Bar (R K)))
    (hb : ∀ b ∈ bs, 0 ≤ rawR b ∧ rawR b ≤ M) (ht : (bs.length : K) * u ≤ 1 / 8) :
    ∃ s' outs, runOut nextBar (fresh n : MoneyFlowIndex (R K)) (b0 :: bs) = some (s', outs) ∧
      |s'.total_positive_money_flow.v - (lastN n ((flows (b0 :: bs)).map pp)).sum|
        ≤ 3 * (bs.length : K) * ((min bs.length n : Nat) : K) * u * M ∧
      |s'.total_negative_money_flow.v - (lastN n ((flows (b0 :: bs)).map np)).sum|
        ≤ 3 * (bs.length : K) * ((min bs.length n : Nat) : K) * u * M := by
  obtain ⟨s1, o1, e1, i1⟩ := step_first n M hn h8 b0
  obtain ⟨s2, o2, p2, e2, i2⟩ := run_from n M bs hb s1 _ [] i1 (by simp) (by simpa using ht)
  refine ⟨s2, o1 :: o2, ?_, ?_, ?_⟩
  · rw [runOut_cons nextBar _ b0 _ s1 o1 e1, e2]; rfl
  · have := i2.pos
    simpa [flows, flowsFrom_length] using this
  · have := i2.neg
    simpa [flows, flowsFrom_length] using this

/-! ## From the totals to the ratio -/

/-- if both totals are within `E` of the exact non-negative window sums `SP`, `SN` and the
    window's total flow `D = SP + SN` is at least `4E`, the ratio the indicator forms is within
    `2E/D` of the exact one: the error of the reading is the accumulated error relative to the
    window's total flow -/
theorem ratio_err (P N SP SN E : K) (hSP : 0 ≤ SP) (hSN : 0 ≤ SN)
    (hP : |P - SP| ≤ E) (hN : |N - SN| ≤ E) (hD : 4 * E ≤ SP + SN) (hpos : 0 < SP + SN) :
    |P / (P + N) - SP / (SP + SN)| ≤ 2 * E / (SP + SN) := by
  have hE : 0 ≤ E := le_trans (abs_nonneg _) hP
  have hP' := abs_le.mp hP
  have hN' := abs_le.mp hN
  have hden : (SP + SN) / 2 ≤ P + N := by linarith [hP'.1, hN'.1]
  have hden0 : 0 < P + N := by linarith
  have e : P / (P + N) - SP / (SP + SN)
      = ((P - SP) * SN - SP * (N - SN)) / ((P + N) * (SP + SN)) := by
    rw [div_sub_div _ _ (ne_of_gt hden0) (ne_of_gt hpos)]
    congr 1
    ring
  rw [e, abs_div, abs_of_pos (mul_pos hden0 hpos), div_le_div_iff₀ (mul_pos hden0 hpos) hpos]
  have h1 : |(P - SP) * SN - SP * (N - SN)| ≤ E * (SP + SN) := by
    have a1 : |(P - SP) * SN| ≤ E * SN := by
      rw [abs_mul, abs_of_nonneg hSN]; exact mul_le_mul_of_nonneg_right hP hSN
    have a2 : |SP * (N - SN)| ≤ SP * E := by
      rw [abs_mul, abs_of_nonneg hSP]; exact mul_le_mul_of_nonneg_left hN hSP
    have := abs_sub ((P - SP) * SN) (SP * (N - SN))
    linarith
  have h2 : E * (SP + SN) * (SP + SN) ≤ 2 * E * ((P + N) * (SP + SN)) := by
    have : 0 ≤ E * (SP + SN) := mul_nonneg hE (le_of_lt hpos)
    nlinarith
  calc |(P - SP) * SN - SP * (N - SN)| * (SP + SN) ≤ E * (SP + SN) * (SP + SN) :=
        mul_le_mul_of_nonneg_right h1 (le_of_lt hpos)
    _ ≤ 2 * E * ((P + N) * (SP + SN)) := h2


/-! ## The reading: the last three roundings of the output formula -/

/-- relative error: `x'` approximates `x` within `ε·|x|` -/
def Rel (x' x ε : K) : Prop := |x' - x| ≤ ε * |x|

theorem rel_fl (x : K) : Rel (fl x) x u := fl_err x

theorem Rel.mono {x' x a b : K} (h : Rel x' x a) (hab : a ≤ b) : Rel x' x b :=
  le_trans h (mul_le_mul_of_nonneg_right hab (abs_nonneg _))

/-- chaining two relative errors -/
theorem Rel.trans {z y x a b : K} (h1 : Rel z y a) (h2 : Rel y x b) (ha : 0 ≤ a) :
    Rel z x (a + b + a * b) := by
  unfold Rel at *
  have hy : |y| ≤ |x| + b * |x| := by
    have := abs_add_le (y - x) x
    rw [sub_add_cancel] at this
    linarith
  have e : z - x = (z - y) + (y - x) := by ring
  rw [e]
  have := abs_add_le (z - y) (y - x)
  have h3 : a * |y| ≤ a * (|x| + b * |x|) := mul_le_mul_of_nonneg_left hy ha
  nlinarith

/-- product of two approximations -/
theorem Rel.mul {x' x y' y a b : K} (h1 : Rel x' x a) (h2 : Rel y' y b) :
    Rel (x' * y') (x * y) (a + b + a * b) := by
  unfold Rel at *
  have e : x' * y' - x * y = (x' - x) * y + x * (y' - y) + (x' - x) * (y' - y) := by ring
  rw [e, abs_mul x y]
  have t1 := abs_add_le ((x' - x) * y + x * (y' - y)) ((x' - x) * (y' - y))
  have t2 := abs_add_le ((x' - x) * y) (x * (y' - y))
  simp only [abs_mul] at t1 t2
  have p1 : |x' - x| * |y| ≤ a * |x| * |y| := mul_le_mul_of_nonneg_right h1 (abs_nonneg _)
  have p2 : |x| * |y' - y| ≤ |x| * (b * |y|) := mul_le_mul_of_nonneg_left h2 (abs_nonneg _)
  have p3 : |x' - x| * |y' - y| ≤ (a * |x|) * (b * |y|) :=
    mul_le_mul h1 h2 (abs_nonneg _) (le_trans (abs_nonneg _) h1)
  nlinarith

/-- a perturbed DENOMINATOR: `P/d` against `P/s` when `d` is within `a·|s|` of `s`, `a ≤ 1/2` -/
theorem Rel.div_den {d s a : K} (P : K) (h : Rel d s a) (ha : 0 ≤ a) (ha2 : a ≤ 1 / 2) (hs : s ≠ 0) :
    Rel (P / d) (P / s) (2 * a) := by
  unfold Rel at *
  have hs0 : 0 < |s| := abs_pos.mpr hs
  have hd : |s| / 2 ≤ |d| := by
    have := abs_sub_abs_le_abs_sub s d
    rw [abs_sub_comm] at this
    nlinarith
  have hd0 : 0 < |d| := by linarith
  have hdne : d ≠ 0 := abs_pos.mp hd0
  have e : P / d - P / s = P * (s - d) / (d * s) := by
    rw [div_sub_div _ _ hdne hs]; congr 1; ring
  rw [e, abs_div, abs_mul, abs_mul, abs_div, abs_sub_comm s d,
    div_le_iff₀ (mul_pos hd0 hs0)]
  have h1 : |P| * |d - s| ≤ |P| * (a * |s|) := mul_le_mul_of_nonneg_left h (abs_nonneg _)
  have h2 : 2 * a * (|P| / |s|) * (|d| * |s|) = 2 * a * |P| * |d| := by
    field_simp
  rw [h2]
  have h3 : |P| * (a * |s|) ≤ 2 * a * |P| * |d| := by
    have : 0 ≤ a * |P| := mul_nonneg ha (abs_nonneg _)
    nlinarith
  linarith

/-- **the reading**: the value the indicator returns on the ratio branch,
    `fl (fl (P / fl (P + N)) · fl 100)`, against the exact `100·S_P/(S_P+S_N)` when both totals are
    within `E` of the exact non-negative sums, the window's total flow is at least `4E` and
    `u ≤ 1/64`: the error is `100·(2E/D + 12u)` — accumulated drift relative to the window's total
    flow, plus a few ulps -/
theorem reading_err (P N SP SN E : K) (hSP : 0 ≤ SP) (hSN : 0 ≤ SN)
    (hP : |P - SP| ≤ E) (hN : |N - SN| ≤ E) (hD : 4 * E ≤ SP + SN) (hpos : 0 < SP + SN)
    (hu64 : (u : K) ≤ 1 / 64) :
    |fl (fl (P / fl (P + N)) * fl 100) - SP / (SP + SN) * 100| ≤ 100 * (2 * E / (SP + SN) + 12 * u) := by
  have hu : (0 : K) ≤ u := u_nonneg
  have hE : 0 ≤ E := le_trans (abs_nonneg _) hP
  have hP' := abs_le.mp hP
  have hN' := abs_le.mp hN
  have hs0 : 0 < P + N := by linarith [hP'.1, hN'.1]
  have huu : (u : K) * u ≤ u * (1 / 64) := mul_le_mul_of_nonneg_left hu64 hu
  -- the chain of relative errors against r·100, r = P/(P+N)
  have r1 : Rel (fl (P + N)) (P + N) u := rel_fl _
  have r2 : Rel (P / fl (P + N)) (P / (P + N)) (2 * u) :=
    Rel.div_den P r1 hu (by linarith) (ne_of_gt hs0)
  have r3 : Rel (fl (P / fl (P + N))) (P / (P + N)) (4 * u) :=
    ((rel_fl _).trans r2 hu).mono (by nlinarith)
  have r4 : Rel (fl (P / fl (P + N)) * fl 100) (P / (P + N) * 100) (6 * u) :=
    (r3.mul (rel_fl (100 : K))).mono (by nlinarith)
  have r5 : Rel (fl (fl (P / fl (P + N)) * fl 100)) (P / (P + N) * 100) (8 * u) :=
    ((rel_fl _).trans r4 hu).mono (by nlinarith)
  -- r is within 2E/D of the exact ratio, hence at most 3/2 in magnitude
  have hr := ratio_err P N SP SN E hSP hSN hP hN hD hpos
  have hq0 : SP / (SP + SN) ≤ 1 := by rw [div_le_one hpos]; linarith
  have hq00 : 0 ≤ SP / (SP + SN) := div_nonneg hSP (le_of_lt hpos)
  have hED : 2 * E / (SP + SN) ≤ 1 / 2 := by
    rw [div_le_iff₀ hpos]; linarith
  have hrabs : |P / (P + N)| ≤ 3 / 2 := by
    have := abs_add_le (P / (P + N) - SP / (SP + SN)) (SP / (SP + SN))
    rw [sub_add_cancel, abs_of_nonneg hq00] at this
    linarith
  unfold Rel at r5
  rw [abs_mul, abs_of_nonneg (by norm_num : (0 : K) ≤ 100)] at r5
  have e : fl (fl (P / fl (P + N)) * fl 100) - SP / (SP + SN) * 100
      = (fl (fl (P / fl (P + N)) * fl 100) - P / (P + N) * 100)
        + (P / (P + N) - SP / (SP + SN)) * 100 := by ring
  rw [e]
  have t := abs_add_le (fl (fl (P / fl (P + N)) * fl 100) - P / (P + N) * 100)
    ((P / (P + N) - SP / (SP + SN)) * 100)
  rw [abs_mul (P / (P + N) - SP / (SP + SN)), abs_of_nonneg (by norm_num : (0 : K) ≤ 100)] at t
  have h8 : 8 * u * (|P / (P + N)| * 100) ≤ 8 * u * (3 / 2 * 100) :=
    mul_le_mul_of_nonneg_left (by linarith) (by linarith)
  nlinarith

/-- the generated output formula on the ratio branch is exactly that expression -/
theorem out_v (P N : R K) (hne : ¬ (fl (P.v + N.v) = 0)) :
    (out P N).v = fl (fl (P.v / fl (P.v + N.v)) * fl ((100 : K) / 10 ^ 0)) := by
  unfold out
  have hb : Scalar.beq (Scalar.add P N) (Scalar.lit 0 0 : R K) = false := by
    rw [R.lit_zero]
    show decide (fl (P.v + N.v) = 0) = false
    simp [hne]
  rw [hb]
  rfl


/-- **MFI reading theorem** (standard model; generated code): the output after a stream
    `b0 :: bs ++ [bl]` (`t = |bs| + 1` flows), whenever the window's exact total flow `D` is at
    least `4E`, `E = 3·t·min(t,n)·u·M` the bound on the accumulated error of the totals: the ratio
    branch is taken and the returned value is within `100·(2E/D + 12u)` of
    `100·S_P/(S_P+S_N)` over exactly the last `min(t,n)` signed computed flows. -/
theorem mfi_reading_rounding (n : Nat) (hn : 0 < n) (h8 : n * 8 ≤ isizeMax) (M : K)
    (b0 : Bar (R K)) (bs : List (Bar (R K))) (bl : Bar (R K))
    (hb : ∀ b ∈ bs ++ [bl], 0 ≤ rawR b ∧ rawR b ≤ M)
    (ht : (((bs ++ [bl]).length : Nat) : K) * u ≤ 1 / 8) (hu64 : (u : K) ≤ 1 / 64)
    (hD : 4 * (3 * ((bs ++ [bl]).length : K) * ((min (bs ++ [bl]).length n : Nat) : K) * u * M)
        ≤ (lastN n ((flows (b0 :: (bs ++ [bl]))).map pp)).sum
          + (lastN n ((flows (b0 :: (bs ++ [bl]))).map np)).sum)
    (hpos : 0 < (lastN n ((flows (b0 :: (bs ++ [bl]))).map pp)).sum
          + (lastN n ((flows (b0 :: (bs ++ [bl]))).map np)).sum) :
    ∃ s2 outs y, runOut nextBar (fresh n : MoneyFlowIndex (R K)) (b0 :: (bs ++ [bl])) = some (s2, outs ++ [y]) ∧
      |y.v - (lastN n ((flows (b0 :: (bs ++ [bl]))).map pp)).sum
              / ((lastN n ((flows (b0 :: (bs ++ [bl]))).map pp)).sum
                  + (lastN n ((flows (b0 :: (bs ++ [bl]))).map np)).sum) * 100|
        ≤ 100 * (2 * (3 * ((bs ++ [bl]).length : K) * ((min (bs ++ [bl]).length n : Nat) : K) * u * M)
                  / ((lastN n ((flows (b0 :: (bs ++ [bl]))).map pp)).sum
                      + (lastN n ((flows (b0 :: (bs ++ [bl]))).map np)).sum) + 12 * u) := by
  obtain ⟨s1, o1, e1, i1⟩ := step_first n M hn h8 b0
  have hu : (0 : K) ≤ u := u_nonneg
  -- the whole stream: invariant of the final state
  obtain ⟨s2, outs, p2, e2, i2⟩ := run_from n M (bs ++ [bl]) hb s1 _ [] i1 (by simp) (by simpa using ht)
  -- the stream without its last bar, then the last call
  have ht' : ((([] : List K).length + bs.length : Nat) : K) * u ≤ 1 / 8 := by
    refine le_trans (mul_le_mul_of_nonneg_right ?_ hu) ht
    exact_mod_cast (by simp : ([] : List K).length + bs.length ≤ (bs ++ [bl]).length)
  obtain ⟨sm, om, pm, em, im⟩ := run_from n M bs (fun b hb' => hb b (by simp [hb'])) s1 _ [] i1 (by simp) ht'
  have hbl := hb bl (by simp)
  have hmem : ∀ a ∈ ([] ++ flowsFrom (tpR b0) bs), |a| ≤ M := by
    intro a ha
    have hall : ∀ (p : K) (l : List (Bar (R K))), (∀ b ∈ l, 0 ≤ rawR b ∧ rawR b ≤ M) →
        ∀ a ∈ flowsFrom p l, |a| ≤ M := by
      intro p l
      induction l generalizing p with
      | nil => intro _ a ha; simp [flowsFrom] at ha
      | cons x xs ih =>
        intro hx a ha
        simp only [flowsFrom, List.mem_cons] at ha
        rcases ha with rfl | ha
        · exact abs_flow _ _ _ _ (hx x (by simp)).1 (hx x (by simp)).2
        · exact ih _ (fun b hb' => hx b (by simp [hb'])) a ha
    exact hall _ bs (fun b hb' => hb b (by simp [hb'])) a (by simpa using ha)
  have hul : ((([] ++ flowsFrom (tpR b0) bs).length + 1 : Nat) : K) * u ≤ 1 / 8 := by
    have : ([] ++ flowsFrom (tpR b0) bs).length + 1 = (bs ++ [bl]).length := by simp [flowsFrom_length]
    rw [this]; exact ht
  obtain ⟨sl, y, el, _, hy⟩ := step im hmem bl hbl.1 hbl.2 hul
  -- both descriptions of the run agree
  have ha := runOut_append nextBar s1 bs [bl]
  rw [e2, em] at ha
  simp only [Option.bind_some, runOut, el, Option.map_some, Option.some.injEq, Prod.mk.injEq] at ha
  obtain ⟨hs, ho⟩ := ha
  subst hs
  -- the totals of the final state
  have hP := i2.pos
  have hN := i2.neg
  simp only [List.nil_append, flowsFrom_length] at hP hN
  have hfl : flows (b0 :: (bs ++ [bl])) = flowsFrom (tpR b0) (bs ++ [bl]) := rfl
  rw [hfl] at hD hpos ⊢
  set SP := (lastN n ((flowsFrom (tpR b0) (bs ++ [bl])).map pp)).sum with hSP
  set SN := (lastN n ((flowsFrom (tpR b0) (bs ++ [bl])).map np)).sum with hSN
  have hSP0 : 0 ≤ SP := by
    apply List.sum_nonneg
    intro a ha
    obtain ⟨b, _, rfl⟩ := List.mem_map.mp (mem_lastN _ _ _ ha)
    exact le_max_right _ _
  have hSN0 : 0 ≤ SN := by
    apply List.sum_nonneg
    intro a ha
    obtain ⟨b, _, rfl⟩ := List.mem_map.mp (mem_lastN _ _ _ ha)
    exact le_max_right _ _
  -- the ratio branch is taken
  have hP' := abs_le.mp hP
  have hN' := abs_le.mp hN
  have hs0 : 0 < s2.total_positive_money_flow.v + s2.total_negative_money_flow.v := by
    linarith [hP'.1, hN'.1]
  have hfl0 : ¬ fl (s2.total_positive_money_flow.v + s2.total_negative_money_flow.v) = 0 := by
    intro h0
    have := fl_err (s2.total_positive_money_flow.v + s2.total_negative_money_flow.v)
    rw [h0, zero_sub, abs_neg, abs_of_pos hs0] at this
    nlinarith
  refine ⟨s2, o1 :: om, y, ?_, ?_⟩
  · rw [runOut_cons nextBar _ b0 _ s1 o1 e1, e2, ho]; rfl
  · rw [hy, out_v _ _ hfl0]
    have e100 : ((100 : K) / 10 ^ 0) = 100 := by norm_num
    rw [e100]
    exact reading_err _ _ SP SN _ hSP0 hSN0 hP hN hD hpos hu64

end TaRs.Round.MFI
