/-
  Layer R, EMA under PERTURBED inputs (standard model; generated code).

  `ema_rounding` (TaRs/Round/EMA.lean) compares the generated EMA, run in rounded arithmetic on
  a stream `x`, with the exact recursion on THE SAME stream.  In the composites (MACD signal
  line, AverageTrueRange, KeltnerChannel) the EMA is fed values that already carry an error
  (`x'_i` with `|x'_i − x_i| ≤ ε`).  This file adds the missing piece:

  * `emaSeqK_lipschitz`: the exact EMA recursion (a convex combination, `0 ≤ a ≤ 1`) is
    1-Lipschitz in the sup norm: inputs that differ by at most `ε` give outputs that differ by
    at most `ε`;
  * `emaSeqK_bound`: inputs bounded by `M` give outputs bounded by `M`;
  * `ema_pert` (main): generated EMA at `R K` fed `x'` (`|x'_i − x_i| ≤ ε`, `|x_i| ≤ M`) is
    within `6·(n+1)·u·(M+ε) + ε` of the exact EMA of the UNPERTURBED `x`; `ema_pert_spec` is the
    same statement about the C02 specification term `emaSeq (alpha n)` at `F = R K` fed an
    arbitrary list of `R K` values (the form in which the composites use it).

  Also a few `List.Forall₂` / `zipWith` helpers shared by MACD.lean and ATR.lean.
-/
import TaRs.Round.EMA
set_option linter.unusedSectionVars false
namespace TaRs.Round.EMA
open TaRs TaRs.Rs TaRs.Gen Rounding

variable {K : Type} [Field K] [LinearOrder K] [IsStrictOrderedRing K]

/-! ## List helpers -/
section ListHelpers
variable {α β γ δ ε' ζ : Type}

/-- compose two pointwise relations along a middle list -/
theorem forall₂_trans' {P : α → β → Prop} {Q : β → γ → Prop} {T : α → γ → Prop}
    (h : ∀ a b c, P a b → Q b c → T a c) :
    ∀ {l1 : List α} {l2 : List β} {l3 : List γ},
      List.Forall₂ P l1 l2 → List.Forall₂ Q l2 l3 → List.Forall₂ T l1 l3
  | _, _, _, .nil, .nil => .nil
  | _, _, _, .cons p ps, .cons q qs => .cons (h _ _ _ p q) (forall₂_trans' h ps qs)

/-- add a property of every element of the right list to a pointwise relation -/
theorem forall₂_and_right {P : α → β → Prop} {Q : β → Prop} :
    ∀ {l1 : List α} {l2 : List β}, List.Forall₂ P l1 l2 → (∀ b ∈ l2, Q b) →
      List.Forall₂ (fun a b => P a b ∧ Q b) l1 l2
  | _, _, .nil, _ => .nil
  | _, _, .cons p ps, hq =>
    .cons ⟨p, hq _ (by simp)⟩ (forall₂_and_right ps (fun b hb => hq b (by simp [hb])))

/-- pointwise relations pass through `zipWith` -/
theorem forall₂_zipWith {P : α → β → Prop} {Q : γ → δ → Prop} {T : ε' → ζ → Prop}
    {f : α → γ → ε'} {g : β → δ → ζ} (h : ∀ a b c d, P a b → Q c d → T (f a c) (g b d)) :
    ∀ {l1 : List α} {l2 : List β} {l3 : List γ} {l4 : List δ},
      List.Forall₂ P l1 l2 → List.Forall₂ Q l3 l4 →
      List.Forall₂ T (List.zipWith f l1 l3) (List.zipWith g l2 l4)
  | _, _, _, _, .nil, _ => by simp
  | _, _, _, _, .cons _ _, .nil => by simp
  | _, _, _, _, .cons p ps, .cons q qs => by
    simp only [List.zipWith_cons_cons]
    exact .cons (h _ _ _ _ p q) (forall₂_zipWith h ps qs)

/-- a property of `f a b` for all `a ∈ l1`, `b ∈ l2` holds for every element of `zipWith f l1 l2` -/
theorem forall_mem_zipWith {f : α → β → γ} {P : α → Prop} {Q : β → Prop} {T : γ → Prop}
    (h : ∀ a b, P a → Q b → T (f a b)) :
    ∀ (l1 : List α) (l2 : List β), (∀ a ∈ l1, P a) → (∀ b ∈ l2, Q b) →
      ∀ c ∈ List.zipWith f l1 l2, T c
  | [], _, _, _ => by simp
  | _ :: _, [], _, _ => by simp
  | a :: l1, b :: l2, h1, h2 => by
    intro c hc
    simp only [List.zipWith_cons_cons, List.mem_cons] at hc
    rcases hc with rfl | hc
    · exact h _ _ (h1 _ (by simp)) (h2 _ (by simp))
    · exact forall_mem_zipWith h l1 l2 (fun a ha => h1 a (by simp [ha]))
        (fun b hb => h2 b (by simp [hb])) c hc

/-- projecting the first argument out of a `zipWith` of two lists of equal length -/
theorem map_zipWith_left {f : α → β → γ} {g : γ → α} (h : ∀ a b, g (f a b) = a) :
    ∀ (l1 : List α) (l2 : List β), l1.length = l2.length → (List.zipWith f l1 l2).map g = l1
  | [], _, _ => by simp
  | _ :: _, [], hl => by simp at hl
  | a :: l1, b :: l2, hl => by
    simp only [List.zipWith_cons_cons, List.map_cons, h]
    rw [map_zipWith_left h l1 l2 (by simpa using hl)]

/-- projecting the second argument out of a `zipWith` of two lists of equal length -/
theorem map_zipWith_right {f : α → β → γ} {g : γ → β} (h : ∀ a b, g (f a b) = b) :
    ∀ (l1 : List α) (l2 : List β), l1.length = l2.length → (List.zipWith f l1 l2).map g = l2
  | [], [], _ => by simp
  | [], _ :: _, hl => by simp at hl
  | _ :: _, [], hl => by simp at hl
  | a :: l1, b :: l2, hl => by
    simp only [List.zipWith_cons_cons, List.map_cons, h]
    rw [map_zipWith_right h l1 l2 (by simpa using hl)]

/-- every list of `R K` values is the image under `R.mk` of its list of underlying values -/
theorem map_mk_v (l : List (R K)) : (l.map R.v).map R.mk = l := by
  induction l with
  | nil => rfl
  | cons y l ih => simp only [List.map_cons, ih]

/-- a pointwise relation on `l.map R.v` is the same relation on `l` read through `.v` -/
theorem forall₂_map_v {P : K → β → Prop} :
    ∀ {l : List (R K)} {l2 : List β}, List.Forall₂ (fun y b => P y.v b) l l2 →
      List.Forall₂ P (l.map R.v) l2
  | _, _, .nil => .nil
  | _, _, .cons p ps => .cons p (forall₂_map_v ps)

end ListHelpers

/-! ## The exact recursion: bounded and 1-Lipschitz -/

/-- length of the exact recursion (as `emaFromK_length`, without the `Rounding` instance) -/
theorem emaFromK_length' (a z : K) (xs : List K) : (emaFromK a z xs).length = xs.length := by
  induction xs generalizing z with
  | nil => rfl
  | cons x xs ih => simp [emaFromK, ih]

/-- the exact EMA has one entry per input (as `emaSeqK_length`, without the `Rounding` instance) -/
theorem emaSeqK_length' (a : K) (xs : List K) : (emaSeqK a xs).length = xs.length := by
  cases xs <;> simp [emaSeqK, emaFromK_length']

/-- a convex combination of two values bounded by `M` is bounded by `M` (same as
    `exact_bound`, without the `Rounding` instance that one carries along) -/
theorem convex_bound (a x z M : K) (ha0 : 0 ≤ a) (ha1 : a ≤ 1) (hx : |x| ≤ M) (hz : |z| ≤ M) :
    |a * x + (1 - a) * z| ≤ M := by
  have hb : (0 : K) ≤ 1 - a := by linarith
  have h1 : |a * x| ≤ a * M := by
    rw [abs_mul, abs_of_nonneg ha0]; exact mul_le_mul_of_nonneg_left hx ha0
  have h2 : |(1 - a) * z| ≤ (1 - a) * M := by
    rw [abs_mul, abs_of_nonneg hb]; exact mul_le_mul_of_nonneg_left hz hb
  have := abs_add_le (a * x) ((1 - a) * z)
  linarith

theorem emaFromK_bound (a M : K) (ha0 : 0 ≤ a) (ha1 : a ≤ 1) (xs : List K) :
    ∀ z, |z| ≤ M → (∀ x ∈ xs, |x| ≤ M) → ∀ w ∈ emaFromK a z xs, |w| ≤ M := by
  induction xs with
  | nil => intro _ _ _ w hw; simp [emaFromK] at hw
  | cons x xs ih =>
    intro z hz hxs w hw
    have hx : |x| ≤ M := hxs x (by simp)
    have hz' := convex_bound a x z M ha0 ha1 hx hz
    simp only [emaFromK, List.mem_cons] at hw
    rcases hw with rfl | hw
    · exact hz'
    · exact ih _ hz' (fun b hb => hxs b (by simp [hb])) w hw

/-- **the exact EMA of a stream bounded by `M` is bounded by `M`** (`0 ≤ a ≤ 1`) -/
theorem emaSeqK_bound (a M : K) (ha0 : 0 ≤ a) (ha1 : a ≤ 1) (xs : List K)
    (hxs : ∀ x ∈ xs, |x| ≤ M) : ∀ w ∈ emaSeqK a xs, |w| ≤ M := by
  cases xs with
  | nil => intro w hw; simp [emaSeqK] at hw
  | cons x xs =>
    intro w hw
    have hx : |x| ≤ M := hxs x (by simp)
    simp only [emaSeqK, List.mem_cons] at hw
    rcases hw with rfl | hw
    · exact hx
    · exact emaFromK_bound a M ha0 ha1 xs x hx (fun b hb => hxs b (by simp [hb])) w hw

/-- one exact step is 1-Lipschitz in the sup norm of (input, previous value) -/
theorem exact_step_lipschitz (a x x' z z' e : K) (ha0 : 0 ≤ a) (ha1 : a ≤ 1)
    (hx : |x' - x| ≤ e) (hz : |z' - z| ≤ e) :
    |(a * x' + (1 - a) * z') - (a * x + (1 - a) * z)| ≤ e := by
  have h := convex_bound a (x' - x) (z' - z) e ha0 ha1 hx hz
  have e1 : (a * x' + (1 - a) * z') - (a * x + (1 - a) * z) = a * (x' - x) + (1 - a) * (z' - z) := by
    ring
  rw [e1]; exact h

theorem emaFromK_lipschitz (a e : K) (ha0 : 0 ≤ a) (ha1 : a ≤ 1) {xs' xs : List K}
    (h : List.Forall₂ (fun x' x => |x' - x| ≤ e) xs' xs) :
    ∀ z' z, |z' - z| ≤ e →
      List.Forall₂ (fun w' w => |w' - w| ≤ e) (emaFromK a z' xs') (emaFromK a z xs) := by
  induction h with
  | nil => intro _ _ _; exact List.Forall₂.nil
  | cons hx _ ih =>
    intro z' z hz
    have hs := exact_step_lipschitz a _ _ z z' e ha0 ha1 hx hz
    simp only [emaFromK]
    exact List.Forall₂.cons hs (ih _ _ hs)

/-- **the exact EMA is 1-Lipschitz in the sup norm** (`0 ≤ a ≤ 1`): streams that differ
    entrywise by at most `e` have exact EMAs that differ entrywise by at most `e`. -/
theorem emaSeqK_lipschitz (a e : K) (ha0 : 0 ≤ a) (ha1 : a ≤ 1) {xs' xs : List K}
    (h : List.Forall₂ (fun x' x => |x' - x| ≤ e) xs' xs) :
    List.Forall₂ (fun w' w => |w' - w| ≤ e) (emaSeqK a xs') (emaSeqK a xs) := by
  cases h with
  | nil => exact List.Forall₂.nil
  | cons hx hxs =>
    simp only [emaSeqK]
    exact List.Forall₂.cons hx (emaFromK_lipschitz a e ha0 ha1 hxs _ _ hx)

/-! ## The generated code on perturbed inputs -/

variable [Rounding K]

/-- `ema_rounding` read at the level of the C02 specification term (which, by
    `Props.C02.ema_stream`, IS the output list of the generated `next`) -/
theorem ema_rounding_spec (n : Nat) (hn : 0 < n) (M : K) (xs : List K)
    (hM : ∀ x ∈ xs, |x| ≤ M) (hNu : ((n : K) + 1) * u ≤ 1 / 64) :
    List.Forall₂ (fun (y : R K) (z : K) => |y.v - z| ≤ 6 * ((n : K) + 1) * u * M)
      (Props.C02.emaSeq (Props.C02.alpha n : R K) (xs.map R.mk)) (emaSeqK (2 / ((n : K) + 1)) xs) := by
  obtain ⟨s', ys, e, b⟩ := ema_rounding n hn M xs hM hNu
  obtain ⟨s'', e'⟩ := Props.C02.ema_stream (F := R K) n (xs.map R.mk)
  rw [e] at e'
  cases e'
  exact b

/-- perturbed inputs are bounded by `M + e` -/
theorem pert_bound {e M : K} {ys : List (R K)} {xs : List K}
    (hp : List.Forall₂ (fun (y : R K) (x : K) => |y.v - x| ≤ e) ys xs) (hM : ∀ x ∈ xs, |x| ≤ M) :
    ∀ x' ∈ ys.map R.v, |x'| ≤ M + e := by
  induction hp with
  | nil => intro x' hx'; simp at hx'
  | cons h _ ih =>
    intro x' hx'
    simp only [List.map_cons, List.mem_cons] at hx'
    rcases hx' with rfl | hx'
    · have := abs_le_of_sub h
      linarith [hM _ (List.mem_cons_self)]
    · exact ih (fun x hx => hM x (List.mem_cons_of_mem _ hx)) x' hx'

/-- **EMA perturbation theorem, specification form** (standard model).
    Period `n ≥ 1` with `(n+1)·u ≤ 1/64`.  Let `xs` be an exact stream with `|x| ≤ M` and let
    `ys` be ANY list of floating-point values with `|y_i − x_i| ≤ e` entrywise.  Then the EMA
    specification term of C02 evaluated in rounded arithmetic on `ys` (= what the generated
    `next` outputs, see `ema_pert`) is entrywise within `6·(n+1)·u·(M+e) + e` of the exact EMA
    (exact `α = 2/(n+1)`) of the UNPERTURBED stream `xs`. -/
theorem ema_pert_spec (n : Nat) (hn : 0 < n) (M e : K) (ys : List (R K)) (xs : List K)
    (hp : List.Forall₂ (fun (y : R K) (x : K) => |y.v - x| ≤ e) ys xs)
    (hM : ∀ x ∈ xs, |x| ≤ M) (hNu : ((n : K) + 1) * u ≤ 1 / 64) :
    List.Forall₂ (fun (y : R K) (z : K) => |y.v - z| ≤ 6 * ((n : K) + 1) * u * (M + e) + e)
      (Props.C02.emaSeq (Props.C02.alpha n : R K) ys) (emaSeqK (2 / ((n : K) + 1)) xs) := by
  obtain ⟨ha0, ha1, _, _⟩ := period_facts (K := K) n hn
  have h1 := ema_rounding_spec n hn (M + e) (ys.map R.v) (pert_bound hp hM) hNu
  rw [map_mk_v] at h1
  have h2 := emaSeqK_lipschitz (2 / ((n : K) + 1)) e ha0.le ha1 (forall₂_map_v hp)
  refine forall₂_trans' ?_ h1 h2
  intro y w z hyw hwz
  have e1 : y.v - z = (y.v - w) + (w - z) := by ring
  rw [e1]
  have := abs_add_le (y.v - w) (w - z)
  linarith

/-- **EMA perturbation theorem** (standard model; generated code).
    Period `n ≥ 1` with `(n+1)·u ≤ 1/64`; exact stream `xs` with `|x| ≤ M`; perturbed stream
    `xs'` (elements of `K`, fed to the code as `R.mk x'`) with `|x'_i − x_i| ≤ e` entrywise.
    Feeding `xs'` to the state `new(n)` builds never panics and every output is within
    `6·(n+1)·u·(M+e) + e` of the exact EMA (exact `α = 2/(n+1)`) of the UNPERTURBED `xs`. -/
theorem ema_pert (n : Nat) (hn : 0 < n) (M e : K) (xs' xs : List K)
    (hp : List.Forall₂ (fun (x' x : K) => |x' - x| ≤ e) xs' xs)
    (hM : ∀ x ∈ xs, |x| ≤ M) (hNu : ((n : K) + 1) * u ≤ 1 / 64) :
    ∃ s' ys, runOut ExponentialMovingAverage.next
        (ExponentialMovingAverage.fresh n : ExponentialMovingAverage (R K)) (xs'.map R.mk) = some (s', ys) ∧
      List.Forall₂ (fun (y : R K) (z : K) => |y.v - z| ≤ 6 * ((n : K) + 1) * u * (M + e) + e)
        ys (emaSeqK (2 / ((n : K) + 1)) xs) := by
  obtain ⟨s', h⟩ := Props.C02.ema_stream (F := R K) n (xs'.map R.mk)
  refine ⟨s', _, h, ema_pert_spec n hn M e _ xs ?_ hM hNu⟩
  clear h
  induction hp with
  | nil => exact List.Forall₂.nil
  | cons h _ ih => exact List.Forall₂.cons h (ih (fun x hx => hM x (List.mem_cons_of_mem _ hx)))

/-! ## One more rounded addition / subtraction of two approximations (shared by the composites) -/

/-- one rounded subtraction of two approximations: `f ≈ F` (error `Ef`, `|F| ≤ BF`) and
    `s ≈ S` (error `Es`, `|S| ≤ BS`) -/
theorem sub_err (f s F S Ef Es BF BS : K) (hf : |f - F| ≤ Ef) (hs : |s - S| ≤ Es)
    (hF : |F| ≤ BF) (hS : |S| ≤ BS) :
    |fl (f - s) - (F - S)| ≤ u * (BF + BS + Ef + Es) + Ef + Es := by
  have hu0 : (0 : K) ≤ u := u_nonneg
  have hd : |(f - s) - (F - S)| ≤ Ef + Es := by
    have e : (f - s) - (F - S) = (f - F) + (S - s) := by ring
    rw [e]
    have := abs_add_le (f - F) (S - s)
    rw [abs_sub_comm S s] at this
    linarith
  have hFS : |F - S| ≤ BF + BS := by
    have := abs_sub F S
    linarith
  have habs : |f - s| ≤ BF + BS + Ef + Es := by
    have := abs_le_of_sub hd
    linarith
  have h1 := fl_err_le (f - s) _ habs
  have e : fl (f - s) - (F - S) = (fl (f - s) - (f - s)) + ((f - s) - (F - S)) := by ring
  rw [e]
  have := abs_add_le (fl (f - s) - (f - s)) ((f - s) - (F - S))
  linarith

/-- one rounded addition of two approximations: `f ≈ F` (error `Ef`, `|F| ≤ BF`) and
    `s ≈ S` (error `Es`, `|S| ≤ BS`) -/
theorem add_err (f s F S Ef Es BF BS : K) (hf : |f - F| ≤ Ef) (hs : |s - S| ≤ Es)
    (hF : |F| ≤ BF) (hS : |S| ≤ BS) :
    |fl (f + s) - (F + S)| ≤ u * (BF + BS + Ef + Es) + Ef + Es := by
  have hs' : |(-s) - (-S)| ≤ Es := by
    have e : (-s) - (-S) = -(s - S) := by ring
    rw [e, abs_neg]; exact hs
  have hS' : |(-S)| ≤ BS := by rw [abs_neg]; exact hS
  have h := sub_err f (-s) F (-S) Ef Es BF BS hf hs' hF hS'
  rwa [sub_neg_eq_add, sub_neg_eq_add] at h

end TaRs.Round.EMA
