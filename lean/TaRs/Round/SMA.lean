/-
  Layer R, SimpleMovingAverage: rounding-error bound for the GENERATED `next` under the
  standard model of floating-point arithmetic (`TaRs/Round/Model.lean`; trusted assumption:
  every operation is the exact one followed by a rounding `fl` with `|fl x − x| ≤ u·|x|`,
  i.e. no overflow / underflow).

  Main theorem `sma_rounding`: for every period `n ≥ 1`, every stream `xs` with `|x| ≤ M`,
  of length `t` with `t·u ≤ 1/8`, the generated SMA never panics and its `k`-th output `y_k`
  (k = 1..t) satisfies

        |y_k − mean (last min(k,n) inputs)| ≤ 3·(k+1)·u·M .

  The bound does not depend on `n`.  It grows linearly in the number of inputs since the last
  reset, because the code maintains a running sum (`sum = sum − old + new`): the rounding
  errors of all previous steps stay in `sum` for ever (the drift property C13 is about).

  Proof: abstraction invariant `Inv` (ring buffer tracked exactly with `RingInv` – the buffer
  stores the inputs unrounded – and `|sum − Σ window| ≤ 3·k·min(k,n)·u·M`), a one-step lemma
  obtained from the normal form `next_eq` of the generated code, induction over the stream.
-/
import TaRs.Round.Model
import TaRs.Lemmas.SimpleMovingAverage
import TaRs.Lemmas.Ring
import TaRs.Lemmas.Machine
import TaRs.Spec.Window
import Mathlib.Tactic.NormNum
import Mathlib.Tactic.Ring
import Mathlib.Tactic.Linarith
import Mathlib.Tactic.Positivity
set_option linter.unusedSectionVars false
namespace TaRs.Round.SMA
open TaRs TaRs.Rs TaRs.Spec TaRs.Gen TaRs.Gen.SimpleMovingAverage Rounding

variable {K : Type} [Field K] [LinearOrder K] [IsStrictOrderedRing K]

/-! ## List facts (exact arithmetic) -/

/-- the window after a push is the last `n−1` old values followed by the new one -/
theorem lastN_snoc {α : Type} (n : Nat) (hn : 0 < n) (h : List α) (x : α) :
    lastN n (h ++ [x]) = lastN (n - 1) h ++ [x] := by
  unfold lastN
  have e : (h ++ [x]).length - n = h.length - (n - 1) := by simp; omega
  rw [e, List.drop_append_of_le_length (by omega)]

/-- the evicted value: `0` while warming up, afterwards the oldest value of the window -/
def evicted (n : Nat) (h : List K) : K := if h.length < n then 0 else h[h.length - n]?.getD 0

/-- window sum minus the evicted value = sum of the last `n−1` values -/
theorem sum_sub_evicted (n : Nat) (hn : 0 < n) (h : List K) :
    (lastN n h).sum - evicted n h = (lastN (n - 1) h).sum := by
  unfold evicted
  by_cases hl : h.length < n
  · simp only [hl, if_true, sub_zero]
    rw [lastN_of_le n h (by omega), lastN_of_le (n - 1) h (by omega)]
  · simp only [hl, if_false]
    have hlt : h.length - n < h.length := by omega
    unfold lastN
    have e : h.length - (n - 1) = (h.length - n) + 1 := by omega
    rw [e, List.drop_eq_getElem_cons hlt, List.getElem?_eq_getElem hlt]
    simp only [List.sum_cons, Option.getD_some]
    ring

theorem abs_sum_le (l : List K) (M : K) (h : ∀ a ∈ l, |a| ≤ M) : |l.sum| ≤ (l.length : K) * M := by
  induction l with
  | nil => simp
  | cons a t ih =>
    have h1 : |a| ≤ M := h a (by simp)
    have h2 := ih (fun b hb => h b (by simp [hb]))
    have h3 := abs_add_le a t.sum
    simp only [List.sum_cons, List.length_cons]
    push_cast
    linarith

theorem mem_lastN {α : Type} (n : Nat) (h : List α) (a : α) (ha : a ∈ lastN n h) : a ∈ h :=
  List.mem_of_mem_drop ha

/-! ## The two arithmetic cores (pure inequalities about `fl`) -/

section Arith
variable [Rounding K]

/-- one update of the running sum: `sum' = fl (fl (sum − old) + x)` where `sum − old = T + e`
    (`T` = exact sum of the values that stay, `e` = accumulated error).
    `k1` = number of earlier inputs, `c0`/`c` = window length before/after the push. -/
theorem sum_step (T e x M k1 c0 c : K)
    (hk1 : 0 ≤ k1) (hc0 : 0 ≤ c0) (hc0c : c0 ≤ c) (hc1 : 1 ≤ c)
    (hku : (k1 + 1) * u ≤ 1 / 8)
    (hT : |T| ≤ (c - 1) * M) (hx : |x| ≤ M) (he : |e| ≤ 3 * k1 * c0 * u * M) :
    |fl (fl (T + e) + x) - (T + x)| ≤ 3 * (k1 + 1) * c * u * M := by
  have hu : (0 : K) ≤ u := u_nonneg
  have hM : 0 ≤ M := le_trans (abs_nonneg _) hx
  have hp : 0 ≤ k1 * u := mul_nonneg hk1 hu
  have hpu : k1 * u + u ≤ 1 / 8 := by linarith [hku, (by ring : (k1 + 1) * u = k1 * u + u)]
  -- the accumulated error, bounded with the new window length
  have hE : |e| ≤ 3 * (k1 * u) * c * M := by
    have : 3 * k1 * c0 * u * M ≤ 3 * k1 * c * u * M := by
      have h0 : 0 ≤ 3 * k1 * u * M := by positivity
      nlinarith [mul_le_mul_of_nonneg_left hc0c h0]
    calc |e| ≤ 3 * k1 * c0 * u * M := he
      _ ≤ 3 * k1 * c * u * M := this
      _ = 3 * (k1 * u) * c * M := by ring
  set E := 3 * (k1 * u) * c * M with hEdef
  have hE0 : 0 ≤ E := le_trans (abs_nonneg _) hE
  -- first rounding
  have h1 : |fl (T + e) - (T + e)| ≤ u * ((c - 1) * M + E) :=
    fl_err_le _ _ (by linarith [abs_add_le T e])
  -- second rounding
  have h2a : |fl (T + e) + x| ≤ c * M + E + u * ((c - 1) * M + E) := by
    have e1 : fl (T + e) + x = (fl (T + e) - (T + e)) + (T + (e + x)) := by ring
    rw [e1]
    have := abs_add_le (fl (T + e) - (T + e)) (T + (e + x))
    have := abs_add_le T (e + x)
    have := abs_add_le e x
    linarith
  have h2 : |fl (fl (T + e) + x) - (fl (T + e) + x)| ≤ u * (c * M + E + u * ((c - 1) * M + E)) :=
    fl_err_le _ _ h2a
  -- total
  have e2 : fl (fl (T + e) + x) - (T + x)
      = (fl (fl (T + e) + x) - (fl (T + e) + x)) + ((fl (T + e) - (T + e)) + e) := by ring
  have h3 : |fl (fl (T + e) + x) - (T + x)|
      ≤ u * (c * M + E + u * ((c - 1) * M + E)) + (u * ((c - 1) * M + E) + E) := by
    rw [e2]
    have := abs_add_le (fl (fl (T + e) + x) - (fl (T + e) + x)) ((fl (T + e) - (T + e)) + e)
    have := abs_add_le (fl (T + e) - (T + e)) e
    linarith
  refine le_trans h3 ?_
  -- numeric part: 6p + u + 3up ≤ 1 with p = k1·u, p + u ≤ 1/8
  have hq : 0 ≤ 1 - 6 * (k1 * u) - u - 3 * u * (k1 * u) := by nlinarith [mul_nonneg hu hp]
  have key : 0 ≤ u * M * (c * (1 - 6 * (k1 * u) - u - 3 * u * (k1 * u)) + 1 + u) := by
    have : 0 ≤ c * (1 - 6 * (k1 * u) - u - 3 * u * (k1 * u)) := mul_nonneg (by linarith) hq
    exact mul_nonneg (mul_nonneg hu hM) (by linarith)
  have ident : 3 * (k1 + 1) * c * u * M
      - (u * (c * M + E + u * ((c - 1) * M + E)) + (u * ((c - 1) * M + E) + E))
      = u * M * (c * (1 - 6 * (k1 * u) - u - 3 * u * (k1 * u)) + 1 + u) := by
    rw [hEdef]; ring
  linarith

/-- the output `fl (sum / count)` against the exact mean `S / count` -/
theorem out_step (s S M k c : K) (hk : 0 ≤ k) (hc1 : 1 ≤ c) (hM : 0 ≤ M)
    (hku : k * u ≤ 1 / 8) (hS : |S| ≤ c * M) (he : |s - S| ≤ 3 * k * c * u * M) :
    |fl (s / c) - S / c| ≤ 3 * (k + 1) * u * M := by
  have hu : (0 : K) ≤ u := u_nonneg
  have hc : 0 < c := by linarith
  have hp : 0 ≤ k * u := mul_nonneg hk hu
  have hs : |s| ≤ c * (M * (1 + 3 * (k * u))) := by
    have e1 : s = (s - S) + S := by ring
    have := abs_add_le (s - S) S
    rw [← e1] at this
    have e2 : c * (M * (1 + 3 * (k * u))) = c * M + 3 * k * c * u * M := by ring
    linarith
  have hq : |s / c| ≤ M * (1 + 3 * (k * u)) := by
    rw [abs_div, abs_of_pos hc, div_le_iff₀ hc]
    linarith
  have h1 : |fl (s / c) - s / c| ≤ u * (M * (1 + 3 * (k * u))) := fl_err_le _ _ hq
  have h2 : |s / c - S / c| ≤ 3 * (k * u) * M := by
    rw [← sub_div, abs_div, abs_of_pos hc, div_le_iff₀ hc]
    have : 3 * (k * u) * M * c = 3 * k * c * u * M := by ring
    linarith
  have e3 : fl (s / c) - S / c = (fl (s / c) - s / c) + (s / c - S / c) := by ring
  rw [e3]
  have h3 := abs_add_le (fl (s / c) - s / c) (s / c - S / c)
  have h4 : u * (M * (1 + 3 * (k * u))) + 3 * (k * u) * M ≤ 3 * (k + 1) * u * M := by
    have : 0 ≤ u * M * (2 - 3 * (k * u)) := mul_nonneg (mul_nonneg hu hM) (by linarith)
    nlinarith
  linarith

end Arith

/-! ## Abstraction invariant and the one-step lemma for the generated code -/

variable [Rounding K]

/-- abstraction relation between a concrete state (over the rounding scalar `R K`) and the
    history `h` of inputs since the last reset: the ring buffer holds the inputs exactly; the
    running sum is off the exact window sum by at most `3·k·min(k,n)·u·M`, `k = |h|`. -/
structure Inv (n : Nat) (M : K) (s : SimpleMovingAverage (R K)) (h : List K) : Prop where
  period : s.period = n
  small : n * 8 ≤ isizeMax
  ring : RingInv (R.mk (0 : K)) s.deque n s.index s.count (h.map R.mk)
  err : |s.sum.v - (lastN n h).sum| ≤ 3 * (h.length : K) * ((min h.length n : Nat) : K) * u * M

theorem inv_fresh (n : Nat) (M : K) (hn : 0 < n) (h8 : n * 8 ≤ isizeMax) :
    Inv n M (fresh n : SimpleMovingAverage (R K)) [] := by
  refine ⟨rfl, h8, ?_, ?_⟩
  · simpa [fresh] using RingInv.fresh (R.mk (0 : K)) n hn
  · simp [fresh, lastN]

theorem inv_wf {n : Nat} {M : K} {s : SimpleMovingAverage (R K)} {h : List K} (i : Inv n M s h) : WF s :=
  ⟨by rw [i.period]; exact i.ring.npos, by rw [i.period]; exact i.small, by rw [i.period]; exact i.ring.size,
   by rw [i.period]; exact i.ring.idx_lt, by rw [i.period]; exact i.ring.cnt_le⟩

/-- One call of the generated `next` on a state related to history `h`: it succeeds, the new
    state is related to `h ++ [x]`, and the output is within `3·(k+1)·u·M` of the exact window
    mean, `k = |h| + 1` the number of inputs so far. -/
theorem step {n : Nat} {M : K} {s : SimpleMovingAverage (R K)} {h : List K} (i : Inv n M s h)
    (hh : ∀ a ∈ h, |a| ≤ M) (x : K) (hx : |x| ≤ M)
    (hu : ((h.length + 1 : Nat) : K) * u ≤ 1 / 8) :
    ∃ s' y, s.next (R.mk x) = some (s', y) ∧ Inv n M s' (h ++ [x]) ∧
      |y.v - mean (lastN n (h ++ [x]))| ≤ 3 * (((h.length + 1 : Nat) : K) + 1) * u * M := by
  have hn := i.ring.npos
  have hcur := i.ring.at_cursor
  have hsmall := i.small
  have hpush := i.ring.push (R.mk x)
  have hwf := inv_wf i
  have hM : 0 ≤ M := le_trans (abs_nonneg _) hx
  have hu0 : (0 : K) ≤ u := u_nonneg
  obtain ⟨p, ix, c, sm, d⟩ := s
  have hp : p = n := i.period
  subst hp
  simp only at hcur hpush
  have herr : |sm.v - (lastN p h).sum| ≤ 3 * (h.length : K) * ((min h.length p : Nat) : K) * u * M := i.err
  -- the evicted value
  have hold : d[ix]? = some (R.mk (evicted p h)) := by
    rw [hcur]
    unfold evicted
    by_cases hl : h.length < p
    · simp [hl]
    · simp only [hl, if_false, List.length_map]
      have : h.length - p < h.length := by omega
      simp [List.getElem?_map, List.getElem?_eq_getElem this]
  -- count after the push
  have hc' : (if c < p then c + 1 else c) = min (h.length + 1) p := by
    have := hpush.cnt
    simpa using this
  -- exact quantities
  set T := (lastN (p - 1) h).sum with hTdef
  have hS' : (lastN p (h ++ [x])).sum = T + x := by rw [lastN_snoc p hn]; simp [hTdef]
  have hlen : (lastN p (h ++ [x])).length = min (h.length + 1) p := by rw [lastN_length]; simp
  have hTlen : (lastN (p - 1) h).length + 1 = min (h.length + 1) p := by rw [lastN_length]; omega
  have hTK : ((lastN (p - 1) h).length : K) = ((min (h.length + 1) p : Nat) : K) - 1 := by
    rw [← hTlen]; push_cast; ring
  have hTb : |T| ≤ (((min (h.length + 1) p : Nat) : K) - 1) * M := by
    rw [← hTK]
    exact abs_sum_le _ _ (fun a ha => hh a (mem_lastN _ _ _ ha))
  have hc1 : (1 : K) ≤ ((min (h.length + 1) p : Nat) : K) := by
    exact_mod_cast (by omega : 1 ≤ min (h.length + 1) p)
  have hc0c : ((min h.length p : Nat) : K) ≤ ((min (h.length + 1) p : Nat) : K) := by
    exact_mod_cast (by omega : min h.length p ≤ min (h.length + 1) p)
  have hku : ((h.length : K) + 1) * u ≤ 1 / 8 := by simpa using hu
  -- the new running sum
  have hsplit : sm.v - evicted p h = T + (sm.v - (lastN p h).sum) := by
    rw [hTdef, ← sum_sub_evicted p hn h]; ring
  have hsum : |fl (fl (sm.v - evicted p h) + x) - (T + x)|
      ≤ 3 * ((h.length : K) + 1) * ((min (h.length + 1) p : Nat) : K) * u * M := by
    rw [hsplit]
    exact sum_step T _ x M _ _ _ (Nat.cast_nonneg _) (Nat.cast_nonneg _) hc0c hc1 hku hTb hx herr
  -- the output
  have hSb : |T + x| ≤ ((min (h.length + 1) p : Nat) : K) * M := by
    have := abs_add_le T x
    linarith
  have hout := out_step (fl (fl (sm.v - evicted p h) + x)) (T + x) M ((h.length : K) + 1)
    ((min (h.length + 1) p : Nat) : K) (by positivity) hc1 hM hku hSb hsum
  refine ⟨_, _, next_eq _ _ _ hwf hold, ⟨rfl, hsmall, ?_, ?_⟩, ?_⟩
  · simpa using hpush
  · simp only [R.add_v, R.sub_v, R.mk_v, hS', List.length_append, List.length_singleton]
    push_cast at hsum ⊢
    exact hsum
  · simp only [R.div_v, R.add_v, R.sub_v, R.mk_v, R.ofNat_v, mean, hS', hlen, hc']
    push_cast at hout ⊢
    exact hout

/-! ## Whole streams -/

theorem prefixes_cons {α : Type} (y : α) (ys : List α) :
    prefixes (y :: ys) = [y] :: (prefixes ys).map (fun p => y :: p) := by
  simp [prefixes, List.range_succ_eq_map, List.map_map, Function.comp_def]

/-- from any related state: every call succeeds and every output is within the bound -/
theorem run_from (n : Nat) (M : K) (ys : List K) :
    ∀ (h : List K) (s : SimpleMovingAverage (R K)), Inv n M s h → (∀ a ∈ h, |a| ≤ M) →
      (∀ a ∈ ys, |a| ≤ M) → ((h.length + ys.length : Nat) : K) * u ≤ 1 / 8 →
      ∃ s' outs, runOut next s (ys.map R.mk) = some (s', outs) ∧ Inv n M s' (h ++ ys) ∧
        List.Forall₂ (fun (y : R K) (p : List K) =>
            |y.v - mean (lastN n (h ++ p))| ≤ 3 * (((h.length + p.length : Nat) : K) + 1) * u * M)
          outs (prefixes ys) := by
  induction ys with
  | nil =>
    intro h s i _ _ _
    exact ⟨s, [], rfl, by simpa using i, by simp [prefixes]⟩
  | cons y ys ih =>
    intro h s i hh hys hu
    have hu0 : (0 : K) ≤ u := u_nonneg
    have hy : |y| ≤ M := hys y (by simp)
    have hu1 : ((h.length + 1 : Nat) : K) * u ≤ 1 / 8 := by
      refine le_trans (mul_le_mul_of_nonneg_right ?_ hu0) hu
      exact_mod_cast (by simp : h.length + 1 ≤ h.length + (y :: ys).length)
    obtain ⟨s1, o1, e1, i1, b1⟩ := step i hh y hy hu1
    have hh1 : ∀ a ∈ h ++ [y], |a| ≤ M := by
      intro a ha
      rcases List.mem_append.mp ha with ha | ha
      · exact hh a ha
      · simp at ha; rw [ha]; exact hy
    have hu2 : (((h ++ [y]).length + ys.length : Nat) : K) * u ≤ 1 / 8 := by
      have : (h ++ [y]).length + ys.length = h.length + (y :: ys).length := by simp; omega
      rw [this]; exact hu
    obtain ⟨s2, o2, e2, i2, b2⟩ := ih (h ++ [y]) s1 i1 hh1 (fun a ha => hys a (by simp [ha])) hu2
    refine ⟨s2, o1 :: o2, ?_, by simpa using i2, ?_⟩
    · rw [List.map_cons, runOut_cons next s (R.mk y) _ s1 o1 e1, e2]; rfl
    · rw [prefixes_cons]
      refine List.Forall₂.cons ?_ ?_
      · simpa using b1
      · rw [List.forall₂_map_right_iff]
        refine b2.imp ?_
        intro o p hb
        have e : (h ++ [y]).length + p.length = h.length + (y :: p).length := by simp; omega
        rw [e] at hb
        simpa using hb

/-- **SMA rounding-error theorem** (standard model; generated code).
    For every period `n ≥ 1` (accepted by `new`: `n·8 ≤ isize::MAX`), every bound `M`, every
    stream `xs` whose entries satisfy `|x| ≤ M` and whose length `t` satisfies `t·u ≤ 1/8`:
    feeding `xs` to the state `new(n)` builds never panics, and the output `y` produced after
    the prefix `p` of `xs` (`k = |p|` inputs) satisfies
    `|y − mean (last min(k,n) entries of p)| ≤ 3·(k+1)·u·M`. -/
theorem sma_rounding (n : Nat) (hn : 0 < n) (h8 : n * 8 ≤ isizeMax) (M : K) (xs : List K)
    (hM : ∀ x ∈ xs, |x| ≤ M) (ht : (xs.length : K) * u ≤ 1 / 8) :
    ∃ s' ys, runOut next (fresh n : SimpleMovingAverage (R K)) (xs.map R.mk) = some (s', ys) ∧
      List.Forall₂ (fun (y : R K) (p : List K) =>
          |y.v - mean (lastN n p)| ≤ 3 * ((p.length : K) + 1) * u * M) ys (prefixes xs) := by
  obtain ⟨s', ys, e, _, b⟩ := run_from n M xs [] _ (inv_fresh n M hn h8) (by simp) hM (by simpa using ht)
  exact ⟨s', ys, e, by simpa using b⟩

/-- the same, indexed: the `k`-th output (0-based) exists and is within `3·(k+2)·u·M` of the
    mean of the last `min(k+1, n)` of the first `k+1` inputs -/
theorem sma_rounding_get (n : Nat) (hn : 0 < n) (h8 : n * 8 ≤ isizeMax) (M : K) (xs : List K)
    (hM : ∀ x ∈ xs, |x| ≤ M) (ht : (xs.length : K) * u ≤ 1 / 8) :
    ∃ s' ys, runOut next (fresh n : SimpleMovingAverage (R K)) (xs.map R.mk) = some (s', ys) ∧
      ys.length = xs.length ∧
      ∀ k (hk : k < ys.length),
        |(ys[k]).v - mean (lastN n (xs.take (k + 1)))| ≤ 3 * (((k + 1 : Nat) : K) + 1) * u * M := by
  obtain ⟨s', ys, e, b⟩ := sma_rounding n hn h8 M xs hM ht
  have hl : ys.length = xs.length := by rw [b.length_eq, prefixes_length]
  refine ⟨s', ys, e, hl, ?_⟩
  intro k hk
  have hk2 : k < (prefixes xs).length := by rw [prefixes_length]; omega
  have hb := List.Forall₂.get b hk hk2
  have hp : (prefixes xs)[k] = xs.take (k + 1) := by simp [prefixes]
  simp only [List.get_eq_getElem, hp] at hb
  have hlen : (xs.take (k + 1)).length = k + 1 := by simp; omega
  rw [hlen] at hb
  exact hb

end TaRs.Round.SMA
