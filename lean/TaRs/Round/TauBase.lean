/-
  Layer R, shared numeric base: the binary64 unit roundoff and concrete roundings on ℚ obeying the
  standard-model law (used for the non-vacuity examples of TauSMA / TauEMA).
-/
import TaRs.Round.Model
import Mathlib.Tactic.NormNum
import Mathlib.Tactic.Linarith
import Mathlib.Tactic.Positivity
namespace TaRs.Round.Tau
open TaRs Rounding

/-- unit roundoff of IEEE-754 binary64, round to nearest -/
def u64 : ℚ := 1 / 2 ^ 53

/-- the exact "rounding" (`u = 0`): shows the class is inhabited -/
@[reducible] def exactRounding : Rounding ℚ where
  fl x := x
  u := 0
  u_nonneg := le_refl _
  fl_err x := by simp

/-- a rounding on ℚ with a genuine error that obeys the standard-model law for every `x`:
    always `2^-20` relative excess, `u = 2^-20` -/
@[reducible] def inflate : Rounding ℚ where
  fl x := x * (1 + 1 / 2 ^ 20)
  u := 1 / 2 ^ 20
  u_nonneg := by positivity
  fl_err x := by
    have e : x * (1 + 1 / 2 ^ 20) - x = 1 / 2 ^ 20 * x := by ring
    rw [e, abs_mul, abs_of_nonneg (by positivity : (0 : ℚ) ≤ 1 / 2 ^ 20)]

/-- `sma_within_tau` / `ema_within_tau` apply: a rounding with `u = 2^-53` exists -/
@[reducible] def inflate64 : Rounding ℚ where
  fl x := x * (1 + 1 / 2 ^ 53)
  u := u64
  u_nonneg := by unfold u64; positivity
  fl_err x := by
    have e : x * (1 + 1 / 2 ^ 53) - x = 1 / 2 ^ 53 * x := by ring
    rw [e, abs_mul, abs_of_nonneg (by positivity : (0 : ℚ) ≤ 1 / 2 ^ 53)]; rfl

end TaRs.Round.Tau
