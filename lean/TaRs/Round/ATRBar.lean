/-
  Layer R, BAR PATH of TrueRange and AverageTrueRange: rounding-error bounds for the GENERATED
  `nextBar` under the standard model of floating-point arithmetic (`TaRs/Round/Model.lean`).

  `tr_bar_rounding`: for every stream of bars whose high, low and close are bounded by `M` (nothing
  else is assumed — not even `low ≤ high`), every output of the generated TrueRange is within
  `2·u·M` of the exact true range `high − low` (first bar), then
  `max(high − low, |high − prev close|, |low − prev close|)`.
  `atr_bar_rounding`: the generated ATR fed those bars is within `(12·(n+1) + 3)·u·M` of the exact
  EMA (exact `α = 2/(n+1)`) of the exact bar true range, for EVERY stream length.

  Proof: the L0 whole-stream identities `Props.C02.tr_bar_stream` / `atr_bar_stream` (the generated
  bar path IS `emaSeq α (trBarSeq bars)` for every scalar), one rounding per candidate of the
  maximum (`max` and `abs` are exact and 1-Lipschitz), and the EMA perturbation theorem.
-/
import TaRs.Round.ATR
import Mathlib.Algebra.Order.Group.MinMax
set_option linter.unusedSectionVars false
namespace TaRs.Round.ATRBar
open TaRs TaRs.Rs TaRs.Gen Rounding TaRs.Round.EMA TaRs.Round.ATR

variable {K : Type} [Field K] [LinearOrder K] [IsStrictOrderedRing K]

/-- a bar of exact values as a bar of floating-point values -/
def barR (b : Bar K) : Bar (R K) := ⟨⟨b.open_⟩, ⟨b.high⟩, ⟨b.low⟩, ⟨b.close⟩, ⟨b.volume⟩⟩

/-- exact bar true range continued after a bar that closed at `pc` -/
def trBarFromK (pc : K) : List (Bar K) → List K
  | [] => []
  | b :: bs => max (max (b.high - b.low) (abs (b.high - pc))) (abs (b.low - pc)) :: trBarFromK b.close bs

/-- exact bar true range of a whole history: `high − low` on the first bar -/
def trBarSeqK : List (Bar K) → List K
  | [] => []
  | b :: bs => (b.high - b.low) :: trBarFromK b.close bs

/-- exact ATR over bars -/
def atrBarSeqK (n : Nat) (bs : List (Bar K)) : List K := emaSeqK (2 / ((n : K) + 1)) (trBarSeqK bs)

/-- the prices of a bar that the true range reads are bounded by `M` -/
def BarLe (M : K) (b : Bar K) : Prop := |b.high| ≤ M ∧ |b.low| ≤ M ∧ |b.close| ≤ M

theorem abs_sub_le_two (x p M : K) (hx : |x| ≤ M) (hp : |p| ≤ M) : |x - p| ≤ 2 * M := by
  have := abs_sub x p
  linarith

theorem abs_max_le {a b B : K} (ha : |a| ≤ B) (hb : |b| ≤ B) : |max a b| ≤ B := by
  rcases max_choice a b with h | h <;> rw [h] <;> assumption

theorem trBarFromK_bound (M : K) (bs : List (Bar K)) :
    ∀ pc, |pc| ≤ M → (∀ b ∈ bs, BarLe M b) → ∀ w ∈ trBarFromK pc bs, |w| ≤ 2 * M := by
  induction bs with
  | nil => intro _ _ _ w hw; simp [trBarFromK] at hw
  | cons b bs ih =>
    intro pc hpc hbs w hw
    obtain ⟨hh, hl, hc⟩ := hbs b (by simp)
    simp only [trBarFromK, List.mem_cons] at hw
    rcases hw with rfl | hw
    · refine abs_max_le (abs_max_le (abs_sub_le_two _ _ M hh hl) ?_) ?_
      · rw [abs_abs]; exact abs_sub_le_two _ _ M hh hpc
      · rw [abs_abs]; exact abs_sub_le_two _ _ M hl hpc
    · exact ih b.close hc (fun b' hb' => hbs b' (by simp [hb'])) w hw

theorem trBarSeqK_bound (M : K) (bs : List (Bar K)) (hbs : ∀ b ∈ bs, BarLe M b) :
    ∀ w ∈ trBarSeqK bs, |w| ≤ 2 * M := by
  cases bs with
  | nil => intro w hw; simp [trBarSeqK] at hw
  | cons b bs =>
    intro w hw
    obtain ⟨hh, hl, hc⟩ := hbs b (by simp)
    simp only [trBarSeqK, List.mem_cons] at hw
    rcases hw with rfl | hw
    · exact abs_sub_le_two _ _ M hh hl
    · exact trBarFromK_bound M bs b.close hc (fun b' hb' => hbs b' (by simp [hb'])) w hw

variable [Rounding K]

/-- a rounded difference against the exact one -/
theorem sub_err (x p M : K) (hx : |x| ≤ M) (hp : |p| ≤ M) : |fl (x - p) - (x - p)| ≤ 2 * u * M := by
  have h2 := fl_err_le (x - p) _ (abs_sub_le_two x p M hx hp)
  calc |fl (x - p) - (x - p)| ≤ u * (2 * M) := h2
    _ = 2 * u * M := by ring

/-- one bar true-range step: the three candidates are each off by one rounding, `max` and `abs`
    are exact and 1-Lipschitz -/
theorem tr_bar_err (h l pc M : K) (hh : |h| ≤ M) (hl : |l| ≤ M) (hpc : |pc| ≤ M) :
    abs (max (max (fl (h - l)) (abs (fl (h - pc)))) (abs (fl (l - pc)))
        - max (max (h - l) (abs (h - pc))) (abs (l - pc))) ≤ 2 * u * M := by
  have e1 := sub_err h l M hh hl
  have e2 : abs (abs (fl (h - pc)) - abs (h - pc)) ≤ 2 * u * M := tr_err h pc M hh hpc
  have e3 : abs (abs (fl (l - pc)) - abs (l - pc)) ≤ 2 * u * M := tr_err l pc M hl hpc
  have m1 := abs_max_sub_max_le_max (fl (h - l)) (abs (fl (h - pc))) (h - l) (abs (h - pc))
  have m1' : abs (max (fl (h - l)) (abs (fl (h - pc))) - max (h - l) (abs (h - pc))) ≤ 2 * u * M :=
    le_trans m1 (max_le e1 e2)
  have m2 := abs_max_sub_max_le_max (max (fl (h - l)) (abs (fl (h - pc)))) (abs (fl (l - pc)))
    (max (h - l) (abs (h - pc))) (abs (l - pc))
  exact le_trans m2 (max_le m1' e3)

theorem trBarFrom_bound (M : K) (bs : List (Bar K)) :
    ∀ pc, |pc| ≤ M → (∀ b ∈ bs, BarLe M b) →
      List.Forall₂ (fun (y : R K) (z : K) => |y.v - z| ≤ 2 * u * M)
        (Props.C02.trBarFrom (R.mk pc) (bs.map barR)) (trBarFromK pc bs) := by
  induction bs with
  | nil => intro _ _ _; exact List.Forall₂.nil
  | cons b bs ih =>
    intro pc hpc hbs
    obtain ⟨hh, hl, hc⟩ := hbs b (by simp)
    simp only [List.map_cons, Props.C02.trBarFrom, trBarFromK]
    refine List.Forall₂.cons ?_ (ih b.close hc (fun b' hb' => hbs b' (by simp [hb'])))
    exact tr_bar_err b.high b.low pc M hh hl hpc

/-- TrueRange over bars, specification form -/
theorem tr_bar_rounding_spec (M : K) (bs : List (Bar K)) (hbs : ∀ b ∈ bs, BarLe M b) :
    List.Forall₂ (fun (y : R K) (z : K) => |y.v - z| ≤ 2 * u * M)
      (Props.C02.trBarSeq (bs.map barR)) (trBarSeqK bs) := by
  cases bs with
  | nil => exact List.Forall₂.nil
  | cons b bs =>
    obtain ⟨hh, hl, hc⟩ := hbs b (by simp)
    simp only [List.map_cons, Props.C02.trBarSeq, trBarSeqK]
    refine List.Forall₂.cons ?_ (trBarFrom_bound M bs b.close hc (fun b' hb' => hbs b' (by simp [hb'])))
    exact sub_err b.high b.low M hh hl

/-- **TrueRange rounding-error theorem, BAR path** (standard model; generated code): for every
    stream of bars with `|high|, |low|, |close| ≤ M` the generated TrueRange never panics and every
    output is within `2·u·M` of the exact bar true range, which lies within `2M` in magnitude. -/
theorem tr_bar_rounding (M : K) (bs : List (Bar K)) (hbs : ∀ b ∈ bs, BarLe M b) :
    ∃ s' ys, runOut TrueRange.nextBar (TrueRange.fresh : TrueRange (R K)) (bs.map barR) = some (s', ys) ∧
      List.Forall₂ (fun (y : R K) (z : K) => |y.v - z| ≤ 2 * u * M) ys (trBarSeqK bs) ∧
      ∀ w ∈ trBarSeqK bs, |w| ≤ 2 * M := by
  obtain ⟨s', h⟩ := Props.C02.tr_bar_stream (F := R K) (bs.map barR)
  exact ⟨s', _, h, tr_bar_rounding_spec M bs hbs, trBarSeqK_bound M bs hbs⟩

/-- the exact ATR of a stream of bars bounded by `M` is bounded by `2M` -/
theorem atrBarSeqK_bound (n : Nat) (hn : 0 < n) (M : K) (bs : List (Bar K)) (hbs : ∀ b ∈ bs, BarLe M b) :
    ∀ w ∈ atrBarSeqK n bs, |w| ≤ 2 * M := by
  obtain ⟨ha0, ha1, _, _⟩ := period_facts (K := K) n hn
  exact emaSeqK_bound _ (2 * M) ha0.le ha1 _ (trBarSeqK_bound M bs hbs)

/-- ATR over bars, specification form: within `(12·N + 3)·u·M` of the exact ATR -/
theorem atr_bar_rounding_spec (n : Nat) (hn : 0 < n) (M : K) (bs : List (Bar K))
    (hbs : ∀ b ∈ bs, BarLe M b) (hNu : ((n : K) + 1) * u ≤ 1 / 64) :
    List.Forall₂ (fun (y : R K) (z : K) => |y.v - z| ≤ (12 * ((n : K) + 1) + 3) * u * M)
      (Props.C02.emaSeq (Props.C02.alpha n : R K) (Props.C02.trBarSeq (bs.map barR))) (atrBarSeqK n bs) := by
  cases bs with
  | nil => exact List.Forall₂.nil
  | cons b bs =>
    have hM0 : 0 ≤ M := le_trans (abs_nonneg _) (hbs b (by simp)).1
    have hp := ema_pert_spec n hn (2 * M) (2 * u * M) _ _ (tr_bar_rounding_spec M (b :: bs) hbs)
      (fun w hw => trBarSeqK_bound M (b :: bs) hbs w hw) hNu
    refine hp.imp ?_
    intro y z hyz
    exact le_trans hyz (atr_const _ M hM0 (two_le_succ n hn) hNu)

/-- **AverageTrueRange rounding-error theorem, BAR path** (standard model; generated code):
    period `n ≥ 1` with `(n+1)·u ≤ 1/64`, any bound `M`, any stream of bars (any length) with
    `|high|, |low|, |close| ≤ M`: the generated ATR never panics and every output is within
    `(12·(n+1) + 3)·u·M` of the exact EMA (exact `α = 2/(n+1)`) of the exact bar true range. -/
theorem atr_bar_rounding (n : Nat) (hn : 0 < n) (M : K) (bs : List (Bar K))
    (hbs : ∀ b ∈ bs, BarLe M b) (hNu : ((n : K) + 1) * u ≤ 1 / 64) :
    ∃ s' ys, runOut AverageTrueRange.nextBar
        (AverageTrueRange.fresh n : AverageTrueRange (R K)) (bs.map barR) = some (s', ys) ∧
      List.Forall₂ (fun (y : R K) (z : K) => |y.v - z| ≤ (12 * ((n : K) + 1) + 3) * u * M)
        ys (atrBarSeqK n bs) := by
  obtain ⟨s', h⟩ := Props.C02.atr_bar_stream (F := R K) n (bs.map barR)
  exact ⟨s', _, h, atr_bar_rounding_spec n hn M bs hbs hNu⟩

/-! ## KeltnerChannel, bar path -/

/-- the computed typical price `fl(fl(fl(close + high) + low) / fl 3)` of a bar -/
def tpv (b : Bar K) : K := (Props.C02.typical (barR b)).v

/-- **KeltnerChannel rounding-error theorem, BAR path** (standard model; generated code).
    Period `n ≥ 1` with `(n+1)·u ≤ 1/64`, multiplier `m` (any sign), any bound `M`, any stream of
    bars (any length) with `|high|, |low|, |close| ≤ M` and computed typical price within `M`:
    the generated KeltnerChannel never panics and for every output triple
      * `average` is within `6·(n+1)·u·M` of the exact EMA of the computed typical prices,
      * `upper` / `lower` are within `(6·(n+1) + 2 + (12·(n+1) + 8)·|m|)·u·M` of that EMA `±` the
        exact ATR (exact EMA of the exact bar true range) times `m`. -/
theorem kc_bar_rounding (n : Nat) (hn : 0 < n) (m M : K) (bs : List (Bar K))
    (hbs : ∀ b ∈ bs, BarLe M b) (htp : ∀ b ∈ bs, |tpv b| ≤ M) (hNu : ((n : K) + 1) * u ≤ 1 / 64) :
    ∃ s' ys, runOut KeltnerChannel.nextBar
        (KeltnerChannel.fresh n (R.mk m) : KeltnerChannel (R K)) (bs.map barR) = some (s', ys) ∧
      List.Forall₂ (fun (y : R K) (z : K) => |y.v - z| ≤ 6 * ((n : K) + 1) * u * M)
        (ys.map (·.average)) (emaSeqK (2 / ((n : K) + 1)) (bs.map tpv)) ∧
      List.Forall₂ (fun (y : R K) (z : K) =>
          |y.v - z| ≤ (6 * ((n : K) + 1) + 2 + (12 * ((n : K) + 1) + 8) * |m|) * u * M)
        (ys.map (·.upper))
        (List.zipWith (fun A T => A + T * m) (emaSeqK (2 / ((n : K) + 1)) (bs.map tpv)) (atrBarSeqK n bs)) ∧
      List.Forall₂ (fun (y : R K) (z : K) =>
          |y.v - z| ≤ (6 * ((n : K) + 1) + 2 + (12 * ((n : K) + 1) + 8) * |m|) * u * M)
        (ys.map (·.lower))
        (List.zipWith (fun A T => A - T * m) (emaSeqK (2 / ((n : K) + 1)) (bs.map tpv)) (atrBarSeqK n bs)) := by
  obtain ⟨s', h⟩ := Props.C02.kc_bar_stream (F := R K) n (R.mk m) (bs.map barR)
  obtain ⟨ha0, ha1, _, _⟩ := period_facts (K := K) n hn
  have htp' : ∀ x ∈ bs.map tpv, |x| ≤ M := by
    intro x hx
    obtain ⟨b, hb, rfl⟩ := List.mem_map.mp hx
    exact htp b hb
  have emap : (bs.map tpv).map R.mk = (bs.map barR).map Props.C02.typical := by
    simp only [List.map_map]
    rfl
  have hA0 : List.Forall₂ (fun (y : R K) (z : K) => |y.v - z| ≤ 6 * ((n : K) + 1) * u * M)
      (Props.C02.emaSeq (Props.C02.alpha n : R K) ((bs.map barR).map Props.C02.typical))
      (emaSeqK (2 / ((n : K) + 1)) (bs.map tpv)) := by
    rw [← emap]; exact ema_rounding_spec n hn M (bs.map tpv) htp' hNu
  have hA := forall₂_and_right hA0 (emaSeqK_bound _ M ha0.le ha1 _ htp')
  have hT := forall₂_and_right (atr_bar_rounding_spec n hn M bs hbs hNu) (atrBarSeqK_bound n hn M bs hbs)
  have hlen : (Props.C02.emaSeq (Props.C02.alpha n : R K) ((bs.map barR).map Props.C02.typical)).length
      = (Props.C02.emaSeq (Props.C02.alpha n : R K) (Props.C02.trBarSeq (bs.map barR))).length := by
    simp [Props.C02.emaSeq_length, Props.C02.trBarSeq_length]
  refine ⟨s', _, h, ?_, ?_, ?_⟩
  · rw [map_zipWith_left (fun _ _ => rfl) _ _ hlen]
    exact hA0
  · rw [List.map_zipWith]
    refine forall₂_zipWith ?_ hA hT
    intro a A r T haA hrT
    simp only [R.add_v, R.mul_v, R.mk_v]
    exact (band_err _ _ _ _ _ m M (two_le_succ n hn) hNu haA.1 haA.2 hrT.1 hrT.2).1
  · rw [List.map_zipWith]
    refine forall₂_zipWith ?_ hA hT
    intro a A r T haA hrT
    simp only [R.sub_v, R.mul_v, R.mk_v]
    exact (band_err _ _ _ _ _ m M (two_le_succ n hn) hNu haA.1 haA.2 hrT.1 hrT.2).2

end TaRs.Round.ATRBar
