/-
  Layer R, TrueRange / AverageTrueRange / KeltnerChannel, SCALAR input path (`next`):
  rounding-error bounds for the GENERATED code under the standard model of floating-point
  arithmetic (`TaRs/Round/Model.lean`; trusted assumption: every operation is the exact one
  followed by a rounding `fl` with `|fl x − x| ≤ u·|x|`, i.e. no overflow / underflow).

  Reference (exact arithmetic):
      TR_1 = 0,  TR_k = |x_k − x_{k−1}|                          (`trSeqK`)
      ATR  = EMA_n(TR)   with the exact α = 2/(n+1)              (`atrSeqK`)
      KC:  average = EMA_n(x),  upper/lower = average ± ATR·m    (`kcUpperK`, `kcLowerK`)

  Results (stream bounded by `M`, any length; `N = n+1`, `N·u ≤ 1/64`):
    * `tr_rounding`:  |tr_k − TR_k| ≤ 2·u·M          (one rounding: the subtraction; `abs` and the
                      first output `0` are exact), and `0 ≤ TR_k ≤ 2M`;
    * `atr_rounding`: |atr_k − ATR_k| ≤ (12·N + 3)·u·M
                      (`atr_rounding_sharp`: ≤ (12·N·(1+u) + 2)·u·M, from `ema_pert_spec` with
                      bound 2M and perturbation ε = 2uM);
    * `kc_rounding`:  |average_k − EMA_n(x)_k| ≤ 6·N·u·M and both bands within
                      (6·N + 2 + (12·N + 8)·|m|)·u·M of `EMA_n(x)_k ± ATR_k·m`
                      (two more roundings each: the product `atr·m`, then the sum / difference).
  The statements are about the generated definitions through the L0 theorems
  `Props.C02.tr_stream`, `atr_stream`, `kc_stream` at `F = R K`.
-/
import TaRs.Round.EMAPert
set_option linter.unusedSectionVars false
namespace TaRs.Round.ATR
open TaRs TaRs.Rs TaRs.Gen Rounding TaRs.Round.EMA

variable {K : Type} [Field K] [LinearOrder K] [IsStrictOrderedRing K]

/-! ## The reference -/

/-- exact scalar true range continued after the input `prev`: `|x − prev|` -/
def trFromK (prev : K) : List K → List K
  | [] => []
  | x :: xs => |x - prev| :: trFromK x xs

/-- exact scalar true range of a whole history: `0` first, then `|x − previous x|` -/
def trSeqK : List K → List K
  | [] => []
  | x :: xs => 0 :: trFromK x xs

/-- exact ATR: exact EMA (exact `α = 2/(n+1)`) of the exact true range -/
def atrSeqK (n : Nat) (xs : List K) : List K := emaSeqK (2 / ((n : K) + 1)) (trSeqK xs)

/-- exact Keltner upper band: `EMA_n(x) + ATR_n(x)·m` -/
def kcUpperK (n : Nat) (m : K) (xs : List K) : List K :=
  List.zipWith (fun A T => A + T * m) (emaSeqK (2 / ((n : K) + 1)) xs) (atrSeqK n xs)

/-- exact Keltner lower band: `EMA_n(x) − ATR_n(x)·m` -/
def kcLowerK (n : Nat) (m : K) (xs : List K) : List K :=
  List.zipWith (fun A T => A - T * m) (emaSeqK (2 / ((n : K) + 1)) xs) (atrSeqK n xs)

theorem trFromK_length (p : K) (xs : List K) : (trFromK p xs).length = xs.length := by
  induction xs generalizing p with
  | nil => rfl
  | cons x xs ih => simp [trFromK, ih]

theorem trSeqK_length (xs : List K) : (trSeqK xs).length = xs.length := by
  cases xs <;> simp [trSeqK, trFromK_length]

theorem atrSeqK_length (n : Nat) (xs : List K) : (atrSeqK n xs).length = xs.length := by
  simp [atrSeqK, emaSeqK_length', trSeqK_length]

theorem trFromK_bound (M : K) (xs : List K) :
    ∀ p, |p| ≤ M → (∀ x ∈ xs, |x| ≤ M) → ∀ w ∈ trFromK p xs, 0 ≤ w ∧ |w| ≤ 2 * M := by
  induction xs with
  | nil => intro _ _ _ w hw; simp [trFromK] at hw
  | cons x xs ih =>
    intro p hp hxs w hw
    have hx : |x| ≤ M := hxs x (by simp)
    simp only [trFromK, List.mem_cons] at hw
    rcases hw with rfl | hw
    · refine ⟨abs_nonneg _, ?_⟩
      rw [abs_abs]
      have := abs_sub x p
      linarith
    · exact ih x hx (fun b hb => hxs b (by simp [hb])) w hw

/-- **the exact true range of a stream bounded by `M` lies in `[0, 2M]`** -/
theorem trSeqK_bound (M : K) (xs : List K) (hxs : ∀ x ∈ xs, |x| ≤ M) :
    ∀ w ∈ trSeqK xs, 0 ≤ w ∧ |w| ≤ 2 * M := by
  cases xs with
  | nil => intro w hw; simp [trSeqK] at hw
  | cons x xs =>
    intro w hw
    have hx : |x| ≤ M := hxs x (by simp)
    have hM : 0 ≤ M := le_trans (abs_nonneg _) hx
    simp only [trSeqK, List.mem_cons] at hw
    rcases hw with rfl | hw
    · exact ⟨le_refl _, by rw [abs_zero]; linarith⟩
    · exact trFromK_bound M xs x hx (fun b hb => hxs b (by simp [hb])) w hw

/-! ## Arithmetic cores -/
section Arith
variable [Rounding K]

/-- one true-range step: `|fl (x − p)|` against `|x − p|` -/
theorem tr_err (x p M : K) (hx : |x| ≤ M) (hp : |p| ≤ M) :
    |abs (fl (x - p)) - abs (x - p)| ≤ 2 * u * M := by
  have h1 : |x - p| ≤ 2 * M := by
    have := abs_sub x p
    linarith
  have h2 := fl_err_le (x - p) _ h1
  have h3 := abs_abs_sub_abs_le_abs_sub (fl (x - p)) (x - p)
  calc |abs (fl (x - p)) - abs (x - p)| ≤ |fl (x - p) - (x - p)| := h3
    _ ≤ u * (2 * M) := h2
    _ = 2 * u * M := by ring

/-- the sharp ATR bound from `ema_pert_spec` simplified to `(12·N + 3)·u·M` -/
theorem atr_const (N M : K) (hM : 0 ≤ M) (h2 : 2 ≤ N) (hNu : N * u ≤ 1 / 64) :
    6 * N * u * (2 * M + 2 * u * M) + 2 * u * M ≤ (12 * N + 3) * u * M := by
  have hu0 : (0 : K) ≤ u := u_nonneg
  have huM : 0 ≤ u * M := mul_nonneg hu0 hM
  have h1 : (N * u) * (u * M) ≤ 1 / 64 * (u * M) := mul_le_mul_of_nonneg_right hNu huM
  have e : 6 * N * u * (2 * M + 2 * u * M) + 2 * u * M
      = 12 * N * (u * M) + 12 * ((N * u) * (u * M)) + 2 * (u * M) := by ring
  have e' : (12 * N + 3) * u * M = 12 * N * (u * M) + 3 * (u * M) := by ring
  rw [e, e']
  linarith

/-- a rounded product with an exact second factor: `r ≈ T` (error `Er`, `|T| ≤ BT`) -/
theorem prod_err (r T m Er BT : K) (hr : |r - T| ≤ Er) (hT : |T| ≤ BT) :
    |fl (r * m) - T * m| ≤ (u * (BT + Er) + Er) * |m| := by
  have hu0 : (0 : K) ≤ u := u_nonneg
  have hm0 : (0 : K) ≤ |m| := abs_nonneg _
  have hrabs : |r| ≤ BT + Er := by
    have := abs_le_of_sub hr
    linarith
  have hrm : |r * m| ≤ (BT + Er) * |m| := by
    rw [abs_mul]; exact mul_le_mul_of_nonneg_right hrabs hm0
  have h1 := fl_err_le (r * m) _ hrm
  have h2 : |r * m - T * m| ≤ Er * |m| := by
    rw [← sub_mul, abs_mul]; exact mul_le_mul_of_nonneg_right hr hm0
  have e : fl (r * m) - T * m = (fl (r * m) - r * m) + (r * m - T * m) := by ring
  rw [e]
  have := abs_add_le (fl (r * m) - r * m) (r * m - T * m)
  have e2 : (u * (BT + Er) + Er) * |m| = u * ((BT + Er) * |m|) + Er * |m| := by ring
  rw [e2]
  linarith

/-- the Keltner band bound simplified to `(6·N + 2 + (12·N + 8)·m)·u·M` (`m = |multiplier|`) -/
theorem band_const (N M m : K) (hM : 0 ≤ M) (hm : 0 ≤ m) (h2 : 2 ≤ N) (hNu : N * u ≤ 1 / 64) :
    u * (M + 2 * M * m + 6 * N * u * M
          + (u * (2 * M + (12 * N + 3) * u * M) + (12 * N + 3) * u * M) * m)
        + 6 * N * u * M + (u * (2 * M + (12 * N + 3) * u * M) + (12 * N + 3) * u * M) * m
      ≤ (6 * N + 2 + (12 * N + 8) * m) * u * M := by
  have hu0 : (0 : K) ≤ u := u_nonneg
  have hu : (u : K) ≤ 1 / 128 := by nlinarith
  have hw : 0 ≤ u * M := mul_nonneg hu0 hM
  have hwm : 0 ≤ u * M * m := mul_nonneg hw hm
  have huwm : 0 ≤ u * (u * M * m) := mul_nonneg hu0 hwm
  have h1 : (N * u) * (u * M) ≤ 1 / 64 * (u * M) := mul_le_mul_of_nonneg_right hNu hw
  have h2' : (N * u) * (u * M * m) ≤ 1 / 64 * (u * M * m) := mul_le_mul_of_nonneg_right hNu hwm
  have h3 : u * (u * M * m) ≤ 1 / 128 * (u * M * m) := mul_le_mul_of_nonneg_right hu hwm
  have h4 : (N * u) * (u * (u * M * m)) ≤ 1 / 64 * (u * (u * M * m)) :=
    mul_le_mul_of_nonneg_right hNu huwm
  have h5 : u * (u * (u * M * m)) ≤ 1 / 128 * (u * (u * M * m)) :=
    mul_le_mul_of_nonneg_right hu huwm
  have e : u * (M + 2 * M * m + 6 * N * u * M
          + (u * (2 * M + (12 * N + 3) * u * M) + (12 * N + 3) * u * M) * m)
        + 6 * N * u * M + (u * (2 * M + (12 * N + 3) * u * M) + (12 * N + 3) * u * M) * m
      = (u * M) + 6 * ((N * u) * (u * M)) + 6 * N * (u * M)
        + (12 * N + 7) * (u * M * m) + 24 * ((N * u) * (u * M * m)) + 8 * (u * (u * M * m))
        + 12 * ((N * u) * (u * (u * M * m))) + 3 * (u * (u * (u * M * m))) := by ring
  have e' : (6 * N + 2 + (12 * N + 8) * m) * u * M
      = 2 * (u * M) + 6 * N * (u * M) + (12 * N + 8) * (u * M * m) := by ring
  rw [e, e']
  linarith

/-- both Keltner bands from an average `a ≈ A` (error `6NuM`, `|A| ≤ M`) and an ATR `r ≈ T`
    (error `(12N+3)uM`, `|T| ≤ 2M`): the product `r·m` and the sum / difference are rounded -/
theorem band_err (N a A r T m M : K) (h2 : 2 ≤ N) (hNu : N * u ≤ 1 / 64)
    (ha : |a - A| ≤ 6 * N * u * M) (hA : |A| ≤ M)
    (hr : |r - T| ≤ (12 * N + 3) * u * M) (hT : |T| ≤ 2 * M) :
    |fl (a + fl (r * m)) - (A + T * m)| ≤ (6 * N + 2 + (12 * N + 8) * |m|) * u * M ∧
    |fl (a - fl (r * m)) - (A - T * m)| ≤ (6 * N + 2 + (12 * N + 8) * |m|) * u * M := by
  have hM : 0 ≤ M := le_trans (abs_nonneg _) hA
  have hp := prod_err r T m _ _ hr hT
  have hP : |T * m| ≤ 2 * M * |m| := by
    rw [abs_mul]; exact mul_le_mul_of_nonneg_right hT (abs_nonneg _)
  have hc := band_const N M |m| hM (abs_nonneg _) h2 hNu
  exact ⟨le_trans (add_err a _ A _ _ _ _ _ ha hp hA hP) hc,
         le_trans (sub_err a _ A _ _ _ _ _ ha hp hA hP) hc⟩

end Arith

/-! ## The generated code -/

variable [Rounding K]

theorem trFrom_bound (M : K) (xs : List K) :
    ∀ p, |p| ≤ M → (∀ x ∈ xs, |x| ≤ M) →
      List.Forall₂ (fun (y : R K) (z : K) => |y.v - z| ≤ 2 * u * M)
        (Props.C02.trFrom (R.mk p) (xs.map R.mk)) (trFromK p xs) := by
  induction xs with
  | nil => intro _ _ _; exact List.Forall₂.nil
  | cons x xs ih =>
    intro p hp hxs
    have hx : |x| ≤ M := hxs x (by simp)
    simp only [List.map_cons, Props.C02.trFrom, trFromK]
    refine List.Forall₂.cons ?_ (ih x hx (fun b hb => hxs b (by simp [hb])))
    show |abs (fl (x - p)) - abs (x - p)| ≤ 2 * u * M
    exact tr_err x p M hx hp

/-- TrueRange, specification form: the C02 term `trSeq` at `F = R K` is entrywise within
    `2·u·M` of the exact true range -/
theorem tr_rounding_spec (M : K) (xs : List K) (hM : ∀ x ∈ xs, |x| ≤ M) :
    List.Forall₂ (fun (y : R K) (z : K) => |y.v - z| ≤ 2 * u * M)
      (Props.C02.trSeq (xs.map R.mk)) (trSeqK xs) := by
  cases xs with
  | nil => exact List.Forall₂.nil
  | cons x xs =>
    have hx : |x| ≤ M := hM x (by simp)
    have hM0 : 0 ≤ M := le_trans (abs_nonneg _) hx
    have hu0 : (0 : K) ≤ u := u_nonneg
    simp only [List.map_cons, Props.C02.trSeq, trSeqK, R.lit_zero]
    refine List.Forall₂.cons ?_ (trFrom_bound M xs x hx (fun b hb => hM b (by simp [hb])))
    simp only [R.mk_v, sub_zero, abs_zero]
    positivity

/-- **TrueRange rounding-error theorem, scalar path** (standard model; generated code).
    For every bound `M` and every stream `xs` (any length) with `|x| ≤ M`: feeding `xs` to a new
    `TrueRange` never panics and every output is within `2·u·M` of the exact true range
    (`0` first, then `|x − previous x|`); the exact true range lies in `[0, 2M]`.  (One rounding
    per output: the subtraction; `abs` is exact and the first output is the exact `0`.) -/
theorem tr_rounding (M : K) (xs : List K) (hM : ∀ x ∈ xs, |x| ≤ M) :
    ∃ s' ys, runOut TrueRange.next (TrueRange.fresh : TrueRange (R K)) (xs.map R.mk) = some (s', ys) ∧
      List.Forall₂ (fun (y : R K) (z : K) => |y.v - z| ≤ 2 * u * M) ys (trSeqK xs) ∧
      ∀ w ∈ trSeqK xs, 0 ≤ w ∧ |w| ≤ 2 * M := by
  obtain ⟨s', h⟩ := Props.C02.tr_stream (F := R K) (xs.map R.mk)
  exact ⟨s', _, h, tr_rounding_spec M xs hM, trSeqK_bound M xs hM⟩

theorem two_le_succ (n : Nat) (hn : 0 < n) : (2 : K) ≤ (n : K) + 1 := by
  have : (1 : K) ≤ n := by exact_mod_cast hn
  linarith

/-- the exact ATR of a stream bounded by `M` is bounded by `2M` -/
theorem atrSeqK_bound (n : Nat) (hn : 0 < n) (M : K) (xs : List K) (hM : ∀ x ∈ xs, |x| ≤ M) :
    ∀ w ∈ atrSeqK n xs, |w| ≤ 2 * M := by
  obtain ⟨ha0, ha1, _, _⟩ := period_facts (K := K) n hn
  exact emaSeqK_bound _ (2 * M) ha0.le ha1 _ (fun w hw => (trSeqK_bound M xs hM w hw).2)

/-- ATR, specification form, sharp constant: `6·N·u·(2M + 2uM) + 2uM = (12·N·(1+u) + 2)·u·M` -/
theorem atr_rounding_spec_sharp (n : Nat) (hn : 0 < n) (M : K) (xs : List K)
    (hM : ∀ x ∈ xs, |x| ≤ M) (hNu : ((n : K) + 1) * u ≤ 1 / 64) :
    List.Forall₂ (fun (y : R K) (z : K) => |y.v - z| ≤ (12 * ((n : K) + 1) * (1 + u) + 2) * u * M)
      (Props.C02.emaSeq (Props.C02.alpha n : R K) (Props.C02.trSeq (xs.map R.mk))) (atrSeqK n xs) := by
  have h := ema_pert_spec n hn (2 * M) (2 * u * M) _ _ (tr_rounding_spec M xs hM)
    (fun w hw => (trSeqK_bound M xs hM w hw).2) hNu
  refine h.imp ?_
  intro y z hyz
  refine le_trans hyz (le_of_eq ?_)
  ring

/-- ATR, specification form: within `(12·N + 3)·u·M` of the exact ATR -/
theorem atr_rounding_spec (n : Nat) (hn : 0 < n) (M : K) (xs : List K)
    (hM : ∀ x ∈ xs, |x| ≤ M) (hNu : ((n : K) + 1) * u ≤ 1 / 64) :
    List.Forall₂ (fun (y : R K) (z : K) => |y.v - z| ≤ (12 * ((n : K) + 1) + 3) * u * M)
      (Props.C02.emaSeq (Props.C02.alpha n : R K) (Props.C02.trSeq (xs.map R.mk))) (atrSeqK n xs) := by
  cases xs with
  | nil => exact List.Forall₂.nil
  | cons x xs =>
    have hM0 : 0 ≤ M := le_trans (abs_nonneg _) (hM x (by simp))
    have h := ema_pert_spec n hn (2 * M) (2 * u * M) _ _ (tr_rounding_spec M (x :: xs) hM)
      (fun w hw => (trSeqK_bound M (x :: xs) hM w hw).2) hNu
    refine h.imp ?_
    intro y z hyz
    exact le_trans hyz (atr_const _ M hM0 (two_le_succ n hn) hNu)

/-- **AverageTrueRange rounding-error theorem, scalar path** (standard model; generated code).
    Period `n ≥ 1` with `(n+1)·u ≤ 1/64`, any bound `M`, any stream `xs` (any length) with
    `|x| ≤ M`: feeding `xs` to the state `new(n)` builds never panics and every output is within
    `(12·(n+1) + 3)·u·M` of the exact ATR = exact EMA (exact `α = 2/(n+1)`) of the exact true
    range `0, |x_2 − x_1|, |x_3 − x_2|, …`.  The bound does not depend on the stream length. -/
theorem atr_rounding (n : Nat) (hn : 0 < n) (M : K) (xs : List K)
    (hM : ∀ x ∈ xs, |x| ≤ M) (hNu : ((n : K) + 1) * u ≤ 1 / 64) :
    ∃ s' ys, runOut AverageTrueRange.next
        (AverageTrueRange.fresh n : AverageTrueRange (R K)) (xs.map R.mk) = some (s', ys) ∧
      List.Forall₂ (fun (y : R K) (z : K) => |y.v - z| ≤ (12 * ((n : K) + 1) + 3) * u * M)
        ys (atrSeqK n xs) := by
  obtain ⟨s', h⟩ := Props.C02.atr_stream (F := R K) n (xs.map R.mk)
  exact ⟨s', _, h, atr_rounding_spec n hn M xs hM hNu⟩

/-- the same with the sharp constant `(12·(n+1)·(1+u) + 2)·u·M`
    (`= 6·(n+1)·u·(2M + ε) + ε` with `ε = 2uM`, straight from the perturbation theorem) -/
theorem atr_rounding_sharp (n : Nat) (hn : 0 < n) (M : K) (xs : List K)
    (hM : ∀ x ∈ xs, |x| ≤ M) (hNu : ((n : K) + 1) * u ≤ 1 / 64) :
    ∃ s' ys, runOut AverageTrueRange.next
        (AverageTrueRange.fresh n : AverageTrueRange (R K)) (xs.map R.mk) = some (s', ys) ∧
      List.Forall₂ (fun (y : R K) (z : K) => |y.v - z| ≤ (12 * ((n : K) + 1) * (1 + u) + 2) * u * M)
        ys (atrSeqK n xs) := by
  obtain ⟨s', h⟩ := Props.C02.atr_stream (F := R K) n (xs.map R.mk)
  exact ⟨s', _, h, atr_rounding_spec_sharp n hn M xs hM hNu⟩

/-- indexed form of `atr_rounding` -/
theorem atr_rounding_get (n : Nat) (hn : 0 < n) (M : K) (xs : List K)
    (hM : ∀ x ∈ xs, |x| ≤ M) (hNu : ((n : K) + 1) * u ≤ 1 / 64) :
    ∃ s' ys, runOut AverageTrueRange.next
        (AverageTrueRange.fresh n : AverageTrueRange (R K)) (xs.map R.mk) = some (s', ys) ∧
      ∃ hl : ys.length = (atrSeqK n xs).length,
      ∀ k (hk : k < ys.length),
        |(ys[k]).v - (atrSeqK n xs)[k]| ≤ (12 * ((n : K) + 1) + 3) * u * M := by
  obtain ⟨s', ys, e, b⟩ := atr_rounding n hn M xs hM hNu
  refine ⟨s', ys, e, b.length_eq, ?_⟩
  intro k hk
  exact List.Forall₂.get b hk (by rw [← b.length_eq]; exact hk)

/-! ## KeltnerChannel, scalar path -/

/-- the average line the code computes -/
def avgR (n : Nat) (xs : List (R K)) : List (R K) := Props.C02.emaSeq (Props.C02.alpha n) xs

/-- the ATR line the code computes -/
def atrR (n : Nat) (xs : List (R K)) : List (R K) :=
  Props.C02.emaSeq (Props.C02.alpha n) (Props.C02.trSeq xs)

/-- `Props.C02.kc_stream` at `F = R K`, with the component lists named -/
theorem kc_stream_R (n : Nat) (m : R K) (xs : List (R K)) :
    ∃ s', runOut KeltnerChannel.next (KeltnerChannel.fresh n m) xs =
      some (s', List.zipWith
        (fun a r => ({ average := a, upper := Scalar.add a (Scalar.mul r m),
                       lower := Scalar.sub a (Scalar.mul r m) } : KeltnerChannelOutput (R K)))
        (avgR n xs) (atrR n xs)) :=
  Props.C02.kc_stream (F := R K) n m xs

theorem avgR_length (n : Nat) (xs : List (R K)) : (avgR n xs).length = xs.length := by
  simp [avgR, Props.C02.emaSeq_length]

theorem atrR_length (n : Nat) (xs : List (R K)) : (atrR n xs).length = xs.length := by
  simp [atrR, Props.C02.emaSeq_length, Props.C02.trSeq_length]

/-- **KeltnerChannel rounding-error theorem, scalar path** (standard model; generated code).
    Period `n ≥ 1` with `(n+1)·u ≤ 1/64`, multiplier `m` (any sign), any bound `M`, any stream
    `xs` (any length) with `|x| ≤ M`: feeding `xs` to the state `new(n, m)` builds never panics,
    and for every output triple
      * `average` is within `6·(n+1)·u·M` of the exact `EMA_n(x)`,
      * `upper` is within `(6·(n+1) + 2 + (12·(n+1) + 8)·|m|)·u·M` of `EMA_n(x) + ATR_n(x)·m`,
      * `lower` is within the same bound of `EMA_n(x) − ATR_n(x)·m`,
    where `EMA_n` / `ATR_n` on the reference side are evaluated in EXACT arithmetic (exact
    `α = 2/(n+1)`, exact true range).  The bounds do not depend on the stream length. -/
theorem kc_rounding (n : Nat) (hn : 0 < n) (m M : K) (xs : List K)
    (hM : ∀ x ∈ xs, |x| ≤ M) (hNu : ((n : K) + 1) * u ≤ 1 / 64) :
    ∃ s' ys, runOut KeltnerChannel.next
        (KeltnerChannel.fresh n (R.mk m) : KeltnerChannel (R K)) (xs.map R.mk) = some (s', ys) ∧
      List.Forall₂ (fun (y : R K) (z : K) => |y.v - z| ≤ 6 * ((n : K) + 1) * u * M)
        (ys.map (·.average)) (emaSeqK (2 / ((n : K) + 1)) xs) ∧
      List.Forall₂ (fun (y : R K) (z : K) =>
          |y.v - z| ≤ (6 * ((n : K) + 1) + 2 + (12 * ((n : K) + 1) + 8) * |m|) * u * M)
        (ys.map (·.upper)) (kcUpperK n m xs) ∧
      List.Forall₂ (fun (y : R K) (z : K) =>
          |y.v - z| ≤ (6 * ((n : K) + 1) + 2 + (12 * ((n : K) + 1) + 8) * |m|) * u * M)
        (ys.map (·.lower)) (kcLowerK n m xs) := by
  obtain ⟨s', h⟩ := kc_stream_R (K := K) n (R.mk m) (xs.map R.mk)
  obtain ⟨ha0, ha1, _, _⟩ := period_facts (K := K) n hn
  have hlen : (avgR n (xs.map R.mk)).length = (atrR n (xs.map R.mk)).length := by
    rw [avgR_length, atrR_length]
  have hA0 : List.Forall₂ (fun (y : R K) (z : K) => |y.v - z| ≤ 6 * ((n : K) + 1) * u * M)
      (avgR n (xs.map R.mk)) (emaSeqK (2 / ((n : K) + 1)) xs) := ema_rounding_spec n hn M xs hM hNu
  have hA := forall₂_and_right hA0 (emaSeqK_bound _ M ha0.le ha1 xs hM)
  have hT := forall₂_and_right (atr_rounding_spec n hn M xs hM hNu) (atrSeqK_bound n hn M xs hM)
  refine ⟨s', _, h, ?_, ?_, ?_⟩
  · rw [map_zipWith_left (fun _ _ => rfl) _ _ hlen]
    exact hA0
  · rw [List.map_zipWith]
    refine forall₂_zipWith ?_ hA hT
    intro a A r T haA hrT
    simp only [R.add_v, R.mul_v, R.mk_v]
    exact (band_err _ _ _ _ _ m M (two_le_succ n hn) hNu haA.1 haA.2 hrT.1 hrT.2).1
  · rw [List.map_zipWith]
    refine forall₂_zipWith ?_ hA hT
    intro a A r T haA hrT
    simp only [R.sub_v, R.mul_v, R.mk_v]
    exact (band_err _ _ _ _ _ m M (two_le_succ n hn) hNu haA.1 haA.2 hrT.1 hrT.2).2

end TaRs.Round.ATR
