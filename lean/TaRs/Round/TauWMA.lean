/-
  Layer R (WMA), numeric corollaries (over ℚ; no real powers needed) and non-vacuity examples.

  `WMA.wma_rounding` bounds the `k`-th output of the generated WeightedMovingAverage by
  `B(k,n)·M`, `B(k,n) = 4·(k²/(c+1) + k + 2)·u`, `c = min(k,n)`.  With the binary64 unit
  roundoff `u = 2^-53` and the test tolerance `τ(k) = 1e-12 + 1e-15·k^1.5` of C13
  (stated without square roots: `B ≤ 1e-12 + s` for some `s ≥ 0` with `s² ≤ (1e-15)²·k³`):

  * every stream length `t ≤ 2·10^6` satisfies the smallness hypothesis `t·u ≤ 1/64`;
  * `wma_tau`:     `B(k,n) ≤ τ(k)`  whenever `k ≤ 4·(n+1)²` (this contains the whole warm-up
                   `k ≤ n`); so for periods `n ≥ 707` the whole range `k ≤ 2·10^6` is covered
                   (`wma_tau_large_period`);
  * `wma_exceeds`: `B(k,n) > τ(k)`  whenever `k ≥ 16·(n+1)²` and `k ≥ 121`: the WORST-CASE bound
                   is above the tolerance there, e.g. for `n = 2,3,4` from `k = 144, 256, 400`
                   on, and at `k = 2·10^6` for every `n ≤ 352` (`wma_exceeds_at_end`).
                   This is a finding about the algorithm, not a weakness of the proof: the
                   error of `sum_flat` (linear drift) is subtracted from `sum` at every step,
                   so the worst-case error of `sum` is quadratic in `k`.  (Real binary64
                   rounding errors do not conspire; empirically the drift is `~k^1.5` and the
                   measured excess over `τ` at `n = 2..4` is marginal.)
  * `wma_worst_above_tau`: the quadratic growth is REAL in the standard model: with the rounding
                   `fl x = x·(1+2^-53)`, `n ≤ 50`, `2·10^6` inputs (`n` zeros, then ones) the last
                   output is off by more than `6e-6 > 2·τ` (from `WMAWorst.wma_worst`).
  The last section instantiates the main theorem at concrete (non-identity) roundings on ℚ.
-/
import TaRs.Round.WMA
import TaRs.Round.WMAWorst
import TaRs.Round.TauBase
import Mathlib.Tactic.NormNum
import Mathlib.Tactic.Linarith
import Mathlib.Tactic.Positivity
import Mathlib.Tactic.FieldSimp
namespace TaRs.Round.Tau
open TaRs TaRs.Rs TaRs.Spec TaRs.Gen Rounding

/-! ## Smallness hypothesis -/

/-- `t·u ≤ 1/64` for every `t ≤ 2·10^6` (in fact up to `2^47`) -/
theorem wma_small (t : ℕ) (ht : t ≤ 2000000) : (t : ℚ) * u64 ≤ 1 / 64 := by
  have h : (t : ℚ) ≤ 2000000 := by exact_mod_cast ht
  unfold u64
  have : (0 : ℚ) ≤ 1 / 2 ^ 53 := by positivity
  calc (t : ℚ) * (1 / 2 ^ 53) ≤ 2000000 * (1 / 2 ^ 53) := mul_le_mul_of_nonneg_right h this
    _ ≤ 1 / 64 := by norm_num

/-! ## Against the test tolerance τ(k) = 1e-12 + 1e-15·k^1.5 -/

/-- the coefficient of `M` in the WMA bound at binary64 precision -/
def wmaB (k n : ℕ) : ℚ := 4 * ((k : ℚ) ^ 2 / (((min k n : ℕ) : ℚ) + 1) + (k : ℚ) + 2) * u64

/-- the linear part `4·(k+2)·u` is below `τ(k)` with a lot of room (`s² ≤ (1e-15)²·k³/1000`) -/
theorem lin_tau (k : ℕ) :
    ∃ s : ℚ, 0 ≤ s ∧ s ^ 2 ≤ (1 / 10 ^ 15) ^ 2 * (k : ℚ) ^ 3 / 1000 ∧
      4 * ((k : ℚ) + 2) * u64 ≤ 1 / 10 ^ 12 + s := by
  have hx : (0 : ℚ) ≤ k := Nat.cast_nonneg k
  unfold u64
  by_cases h : (k : ℚ) ≤ 2000
  · refine ⟨0, le_refl _, by positivity, ?_⟩
    have : 4 * ((k : ℚ) + 2) * (1 / 2 ^ 53) ≤ 4 * (2000 + 2) * (1 / 2 ^ 53) := by
      have : (0 : ℚ) ≤ 1 / 2 ^ 53 := by positivity
      nlinarith
    refine le_trans this ?_
    norm_num
  · have hge : (2000 : ℚ) ≤ k := le_of_lt (not_le.mp h)
    refine ⟨4 * ((k : ℚ) + 2) * (1 / 2 ^ 53), by positivity, ?_, by
      have : (0 : ℚ) ≤ 1 / 10 ^ 12 := by positivity
      linarith⟩
    have e1 : (4 * ((k : ℚ) + 2) * (1 / 2 ^ 53)) ^ 2 = 16 / 2 ^ 106 * ((k : ℚ) + 2) ^ 2 := by ring
    have e2 : ((k : ℚ) + 2) ^ 2 ≤ 2 * (k : ℚ) ^ 2 := by nlinarith
    have e3 : (32 : ℚ) / 2 ^ 106 ≤ (1 / 10 ^ 15) ^ 2 / 1000 * 2000 := by norm_num
    have ht2 : (0 : ℚ) ≤ (k : ℚ) ^ 2 := by positivity
    calc (4 * ((k : ℚ) + 2) * (1 / 2 ^ 53)) ^ 2 = 16 / 2 ^ 106 * ((k : ℚ) + 2) ^ 2 := e1
      _ ≤ 16 / 2 ^ 106 * (2 * (k : ℚ) ^ 2) := mul_le_mul_of_nonneg_left e2 (by positivity)
      _ = 32 / 2 ^ 106 * (k : ℚ) ^ 2 := by ring
      _ ≤ ((1 / 10 ^ 15) ^ 2 / 1000 * 2000) * (k : ℚ) ^ 2 := mul_le_mul_of_nonneg_right e3 ht2
      _ ≤ ((1 / 10 ^ 15) ^ 2 / 1000 * k) * (k : ℚ) ^ 2 :=
          mul_le_mul_of_nonneg_right (mul_le_mul_of_nonneg_left hge (by positivity)) ht2
      _ = (1 / 10 ^ 15) ^ 2 * (k : ℚ) ^ 3 / 1000 := by ring

/-- the quadratic part `X = 4·k²·u/(c+1)`: `X² ≤ 16·ρ·u²·k³` when `k ≤ ρ·(c+1)²` -/
theorem quad_sq_le (k c ρ : ℚ) (hk : 0 ≤ k) (hc : 0 ≤ c) (hρ : k ≤ ρ * (c + 1) ^ 2) :
    (4 * (k ^ 2 / (c + 1)) * u64) ^ 2 ≤ 16 * ρ * u64 ^ 2 * k ^ 3 := by
  have hc1 : (0 : ℚ) < c + 1 := by linarith
  have e : (4 * (k ^ 2 / (c + 1)) * u64) ^ 2 = 16 * u64 ^ 2 * k ^ 3 * (k / (c + 1) ^ 2) := by
    field_simp
    ring
  rw [e]
  have h1 : k / (c + 1) ^ 2 ≤ ρ := by
    rw [div_le_iff₀ (by positivity)]
    exact hρ
  have h0 : 0 ≤ 16 * u64 ^ 2 * k ^ 3 := by unfold u64; positivity
  calc 16 * u64 ^ 2 * k ^ 3 * (k / (c + 1) ^ 2) ≤ 16 * u64 ^ 2 * k ^ 3 * ρ :=
        mul_le_mul_of_nonneg_left h1 h0
    _ = 16 * ρ * u64 ^ 2 * k ^ 3 := by ring

/-- … and `X² ≥ 16·ρ·u²·k³` when `k ≥ ρ·(c+1)²` -/
theorem quad_sq_ge (k c ρ : ℚ) (hk : 0 ≤ k) (hc : 0 ≤ c) (hρ : ρ * (c + 1) ^ 2 ≤ k) :
    16 * ρ * u64 ^ 2 * k ^ 3 ≤ (4 * (k ^ 2 / (c + 1)) * u64) ^ 2 := by
  have hc1 : (0 : ℚ) < c + 1 := by linarith
  have e : (4 * (k ^ 2 / (c + 1)) * u64) ^ 2 = 16 * u64 ^ 2 * k ^ 3 * (k / (c + 1) ^ 2) := by
    field_simp
    ring
  rw [e]
  have h1 : ρ ≤ k / (c + 1) ^ 2 := by
    rw [le_div_iff₀ (by positivity)]
    exact hρ
  have h0 : 0 ≤ 16 * u64 ^ 2 * k ^ 3 := by unfold u64; positivity
  calc 16 * ρ * u64 ^ 2 * k ^ 3 = 16 * u64 ^ 2 * k ^ 3 * ρ := by ring
    _ ≤ 16 * u64 ^ 2 * k ^ 3 * (k / (c + 1) ^ 2) := mul_le_mul_of_nonneg_left h1 h0

/-- **WMA bound below τ.**  For every period `n` and every `k ≤ 4·(n+1)²` (which contains the
    whole warm-up `k ≤ n`) the worst-case coefficient `B(k,n) = 4·(k²/(c+1) + k + 2)·2^-53` is
    at most `τ(k) = 1e-12 + 1e-15·k^1.5`:  `B ≤ 1e-12 + s` for some `s ≥ 0`, `s² ≤ (1e-15)²·k³`. -/
theorem wma_tau (k n : ℕ) (hk : k ≤ 4 * (n + 1) ^ 2) :
    ∃ s : ℚ, 0 ≤ s ∧ s ^ 2 ≤ (1 / 10 ^ 15) ^ 2 * (k : ℚ) ^ 3 ∧ wmaB k n ≤ 1 / 10 ^ 12 + s := by
  have hk0 : (0 : ℚ) ≤ k := Nat.cast_nonneg k
  have hc0 : (0 : ℚ) ≤ ((min k n : ℕ) : ℚ) := Nat.cast_nonneg _
  -- k ≤ 4·(c+1)², c = min k n
  have hρ : (k : ℚ) ≤ 4 * (((min k n : ℕ) : ℚ) + 1) ^ 2 := by
    rcases Nat.le_total k n with h | h
    · rw [Nat.min_eq_left h]
      nlinarith
    · rw [Nat.min_eq_right h]
      exact_mod_cast hk
  have hX := quad_sq_le (k : ℚ) ((min k n : ℕ) : ℚ) 4 hk0 hc0 hρ
  obtain ⟨sY, hsY0, hsY2, hY⟩ := lin_tau k
  set X : ℚ := 4 * ((k : ℚ) ^ 2 / (((min k n : ℕ) : ℚ) + 1)) * u64 with hXdef
  have hX0 : 0 ≤ X := by rw [hXdef]; unfold u64; positivity
  refine ⟨X + sY, by linarith, ?_, ?_⟩
  · have h1 : (X + sY) ^ 2 ≤ 6 / 5 * X ^ 2 + 6 * sY ^ 2 := by nlinarith [sq_nonneg (X - 5 * sY)]
    have h2 : 16 * 4 * u64 ^ 2 * (k : ℚ) ^ 3 ≤ 79 / 100 * ((1 / 10 ^ 15) ^ 2 * (k : ℚ) ^ 3) := by
      have : (16 * 4 * u64 ^ 2 : ℚ) ≤ 79 / 100 * (1 / 10 ^ 15) ^ 2 := by unfold u64; norm_num
      have h3 : (0 : ℚ) ≤ (k : ℚ) ^ 3 := by positivity
      nlinarith
    have h4 : (0 : ℚ) ≤ (1 / 10 ^ 15) ^ 2 * (k : ℚ) ^ 3 := by positivity
    linarith
  · have e : wmaB k n = X + 4 * ((k : ℚ) + 2) * u64 := by rw [hXdef]; unfold wmaB; ring
    rw [e]; linarith

/-- for periods `n ≥ 707` the bound is below `τ(k)` on the whole range `k ≤ 2·10^6` of C13 -/
theorem wma_tau_large_period (k n : ℕ) (hn : 707 ≤ n) (hk : k ≤ 2000000) :
    ∃ s : ℚ, 0 ≤ s ∧ s ^ 2 ≤ (1 / 10 ^ 15) ^ 2 * (k : ℚ) ^ 3 ∧ wmaB k n ≤ 1 / 10 ^ 12 + s := by
  refine wma_tau k n ?_
  have : 708 ^ 2 ≤ (n + 1) ^ 2 := Nat.pow_le_pow_left (by omega) 2
  omega

/-- **WMA bound above τ.**  For `k ≥ 16·(n+1)²`, `k ≥ 121`, the worst-case coefficient `B(k,n)`
    is strictly above `τ(k)`: no `s ≥ 0` with `s² ≤ (1e-15)²·k³` satisfies `B ≤ 1e-12 + s`.
    (There `B ≥ 4·k²·u/(n+1) ≥ 16·u·k^1.5 ≈ 1.78e-15·k^1.5`.) -/
theorem wma_exceeds (k n : ℕ) (hk : 16 * (n + 1) ^ 2 ≤ k) (hk' : 121 ≤ k)
    (s : ℚ) (hs0 : 0 ≤ s) (hs : s ^ 2 ≤ (1 / 10 ^ 15) ^ 2 * (k : ℚ) ^ 3) :
    1 / 10 ^ 12 + s < wmaB k n := by
  have hk0 : (0 : ℚ) ≤ k := Nat.cast_nonneg k
  have hc0 : (0 : ℚ) ≤ ((min k n : ℕ) : ℚ) := Nat.cast_nonneg _
  have hnk : n ≤ k := by nlinarith
  have hρ : 16 * (((min k n : ℕ) : ℚ) + 1) ^ 2 ≤ (k : ℚ) := by
    rw [Nat.min_eq_right hnk]
    exact_mod_cast hk
  have hX := quad_sq_ge (k : ℚ) ((min k n : ℕ) : ℚ) 16 hk0 hc0 hρ
  set X : ℚ := 4 * ((k : ℚ) ^ 2 / (((min k n : ℕ) : ℚ) + 1)) * u64 with hXdef
  have hX0 : 0 ≤ X := by rw [hXdef]; unfold u64; positivity
  have e : wmaB k n = X + 4 * ((k : ℚ) + 2) * u64 := by rw [hXdef]; unfold wmaB; ring
  have hY : 0 < 4 * ((k : ℚ) + 2) * u64 := by unfold u64; positivity
  rw [e]
  by_contra hcon
  have hle : X ≤ 1 / 10 ^ 12 + s := by linarith [not_lt.mp hcon]
  -- X² ≤ (a+s)² ≤ (7/3)a² + (7/4)s²
  have h1 : X ^ 2 ≤ (1 / 10 ^ 12 + s) ^ 2 := pow_le_pow_left₀ hX0 hle 2
  have h2 : (1 / 10 ^ 12 + s) ^ 2 ≤ 7 / 3 * (1 / 10 ^ 12) ^ 2 + 7 / 4 * s ^ 2 := by
    nlinarith [sq_nonneg (4 * (1 / 10 ^ 12 : ℚ) - 3 * s)]
  -- X² ≥ 3.15·P
  have h3 : 315 / 100 * ((1 / 10 ^ 15) ^ 2 * (k : ℚ) ^ 3) ≤ 16 * 16 * u64 ^ 2 * (k : ℚ) ^ 3 := by
    have : (315 / 100 * (1 / 10 ^ 15) ^ 2 : ℚ) ≤ 16 * 16 * u64 ^ 2 := by unfold u64; norm_num
    have h3 : (0 : ℚ) ≤ (k : ℚ) ^ 3 := by positivity
    nlinarith
  -- P ≥ 121³·1e-30 > (7/3)/(1.4)·a²
  have h4 : (121 : ℚ) ^ 3 ≤ (k : ℚ) ^ 3 := pow_le_pow_left₀ (by norm_num) (by exact_mod_cast hk') 3
  have h5 : 7 / 3 * (1 / 10 ^ 12 : ℚ) ^ 2 < 140 / 100 * ((1 / 10 ^ 15) ^ 2 * (121 : ℚ) ^ 3) := by norm_num
  have h6 : (1 / 10 ^ 15 : ℚ) ^ 2 * (121 : ℚ) ^ 3 ≤ (1 / 10 ^ 15) ^ 2 * (k : ℚ) ^ 3 :=
    mul_le_mul_of_nonneg_left h4 (by positivity)
  linarith

/-- at the end of the C13 range, `k = 2·10^6`, the worst-case bound is above `τ` for every
    period `n ≤ 352` -/
theorem wma_exceeds_at_end (n : ℕ) (hn : n ≤ 352)
    (s : ℚ) (hs0 : 0 ≤ s) (hs : s ^ 2 ≤ (1 / 10 ^ 15) ^ 2 * ((2000000 : ℕ) : ℚ) ^ 3) :
    1 / 10 ^ 12 + s < wmaB 2000000 n := by
  refine wma_exceeds 2000000 n ?_ (by norm_num) s hs0 hs
  have : (n + 1) ^ 2 ≤ 353 ^ 2 := Nat.pow_le_pow_left (by omega) 2
  omega

/-! ## The main theorem at binary64 precision (any rounding on ℚ with `u ≤ 2^-53`) -/

/-- C13 shape for WMA: with unit roundoff at most `2^-53`, for every stream of at most `2·10^6`
    inputs bounded by `M`, the generated WMA never panics and every output `y` after `k` inputs
    is within `B(k,n)·|M|` of the exact weighted mean of the window; for `k ≤ 4·(n+1)²` that is
    within `τ(k)·|M|` (`τ(k) = 1e-12 + s`, `s² ≤ (1e-15)²·k³`). -/
theorem wma_within_tau [Rounding ℚ] (hu : (u : ℚ) ≤ u64) (n : Nat) (hn : 0 < n) (h8 : n * 8 ≤ isizeMax)
    (M : ℚ) (xs : List ℚ) (hM : ∀ x ∈ xs, |x| ≤ M) (ht : xs.length ≤ 2000000) :
    ∃ s' ys, runOut WeightedMovingAverage.next (WeightedMovingAverage.fresh n : WeightedMovingAverage (R ℚ))
        (xs.map R.mk) = some (s', ys) ∧
      List.Forall₂ (fun (y : R ℚ) (p : List ℚ) =>
          |y.v - wma (lastN n p)| ≤ wmaB p.length n * |M| ∧
          (p.length ≤ 4 * (n + 1) ^ 2 →
            ∃ s : ℚ, 0 ≤ s ∧ s ^ 2 ≤ (1 / 10 ^ 15) ^ 2 * (p.length : ℚ) ^ 3 ∧
              |y.v - wma (lastN n p)| ≤ (1 / 10 ^ 12 + s) * |M|))
        ys (prefixes xs) := by
  have hu0 : (0 : ℚ) ≤ u := u_nonneg
  have hsm : (xs.length : ℚ) * u ≤ 1 / 64 :=
    le_trans (mul_le_mul_of_nonneg_left hu (Nat.cast_nonneg _)) (wma_small _ ht)
  obtain ⟨s', ys, e, b⟩ := WMA.wma_rounding n hn h8 M xs hM hsm
  refine ⟨s', ys, e, b.imp ?_⟩
  intro y p hb
  have h1 : |y.v - wma (lastN n p)| ≤ wmaB p.length n * |M| := by
    refine le_trans hb ?_
    unfold wmaB
    have h0 : (0 : ℚ) ≤ 4 * ((p.length : ℚ) ^ 2 / (((min p.length n : ℕ) : ℚ) + 1) + (p.length : ℚ) + 2) := by
      positivity
    have := le_abs_self M
    calc 4 * ((p.length : ℚ) ^ 2 / (((min p.length n : ℕ) : ℚ) + 1) + (p.length : ℚ) + 2) * u * M
        ≤ 4 * ((p.length : ℚ) ^ 2 / (((min p.length n : ℕ) : ℚ) + 1) + (p.length : ℚ) + 2) * u * |M| :=
          mul_le_mul_of_nonneg_left this (mul_nonneg h0 hu0)
      _ ≤ 4 * ((p.length : ℚ) ^ 2 / (((min p.length n : ℕ) : ℚ) + 1) + (p.length : ℚ) + 2) * u64 * |M| :=
          mul_le_mul_of_nonneg_right (mul_le_mul_of_nonneg_left hu h0) (abs_nonneg _)
  refine ⟨h1, ?_⟩
  intro hp
  obtain ⟨s, hs0, hs2, hs⟩ := wma_tau p.length n hp
  exact ⟨s, hs0, hs2, le_trans h1 (mul_le_mul_of_nonneg_right hs (abs_nonneg _))⟩

/-! ## The worst case is attained inside the standard model (above τ) -/

section Worst
attribute [local instance] inflate64

/-- `inflate64` rounds every result away from zero by the full relative amount `2^-53` -/
theorem inflate64_fl (x : ℚ) : fl x = x * (1 + u) := rfl

/-- **WMA, worst case above τ.**  Rounding `inflate64` (`fl x = x·(1+2^-53)`: it obeys the
    standard model with `u = 2^-53`), any period `1 ≤ n ≤ 50`, the stream of `k = 2·10^6`
    inputs "`n` zeros, then ones" (`M = 1`): the generated WMA never panics, the exact value of
    its last output is `1`, and the computed last output `y` is off by MORE than
    `τ(k) = 1e-12 + 1e-15·k^1.5` (in fact by more than `6·10^-6 > 2·τ(k)`).
    So no bound below `τ` can be derived for WMA from the standard model alone. -/
theorem wma_worst_above_tau (n : ℕ) (hn1 : 1 ≤ n) (hn50 : n ≤ 50) :
    ∃ s' ys y, runOut WeightedMovingAverage.next (WeightedMovingAverage.fresh n : WeightedMovingAverage (R ℚ))
        ((WMA.zo n (2000000 - n) : List ℚ).map R.mk) = some (s', ys ++ [y]) ∧
      (WMA.zo n (2000000 - n) : List ℚ).length = 2000000 ∧
      (∀ a ∈ (WMA.zo n (2000000 - n) : List ℚ), |a| ≤ 1) ∧
      wma (lastN n (WMA.zo n (2000000 - n) : List ℚ)) = 1 ∧
      6 / 10 ^ 6 ≤ 1 - y.v ∧
      ∀ s : ℚ, 0 ≤ s → s ^ 2 ≤ (1 / 10 ^ 15) ^ 2 * ((2000000 : ℕ) : ℚ) ^ 3 → 1 / 10 ^ 12 + s < 1 - y.v := by
  have h8 : n * 8 ≤ isizeMax := by unfold isizeMax; omega
  have hN1 : (1 : ℚ) ≤ (n : ℚ) := by exact_mod_cast hn1
  have hN50 : (n : ℚ) ≤ 50 := by exact_mod_cast hn50
  have hjj : 2000000 - n = (1999999 - n) + 1 := by omega
  have hu64v : (u : ℚ) = 1 / 2 ^ 53 := rfl
  -- the number of full-window steps
  have htt : WMA.tt (K := ℚ) n ((1999999 - n) + 1) = 2000000 - 2 * (n : ℚ) := by
    unfold WMA.tt
    have : (1999999 - n) + 1 - n = 2000000 - 2 * n := by omega
    rw [this, Nat.cast_sub (by omega)]
    push_cast; ring
  have hj1 : (((1999999 - n) + 1 : ℕ) : ℚ) = 2000000 - (n : ℚ) := by
    have : (1999999 - n) + 1 = 2000000 - n := by omega
    rw [this, Nat.cast_sub (by omega)]
    push_cast; ring
  -- the bracket is large
  have hbr : (78 : ℚ) * 10 ^ 9 ≤ (2 * (n : ℚ) - 1) * (WMA.tt n ((1999999 - n) + 1) * (WMA.tt n ((1999999 - n) + 1) - 1))
        / ((n : ℚ) * ((n : ℚ) + 1)) - 2 * (((1999999 - n) + 1 : ℕ) : ℚ) * (2 + u) := by
    rw [htt, hj1, hu64v]
    have hq : (784 : ℚ) * 10 ^ 8 ≤ (2 * (n : ℚ) - 1) * ((2000000 - 2 * (n : ℚ)) * (2000000 - 2 * (n : ℚ) - 1))
        / ((n : ℚ) * ((n : ℚ) + 1)) := by
      rw [le_div_iff₀ (by positivity)]
      have ht : (1999900 : ℚ) ≤ 2000000 - 2 * (n : ℚ) := by linarith
      have h1 : (1999900 : ℚ) * 1999899 ≤ (2000000 - 2 * (n : ℚ)) * (2000000 - 2 * (n : ℚ) - 1) :=
        mul_le_mul ht (by linarith) (by norm_num) (by linarith)
      have h2 : (784 : ℚ) * 10 ^ 8 * ((n : ℚ) * ((n : ℚ) + 1)) ≤ (2 * (n : ℚ) - 1) * (1999900 * 1999899) := by
        nlinarith
      have h3 : (2 * (n : ℚ) - 1) * (1999900 * 1999899)
          ≤ (2 * (n : ℚ) - 1) * ((2000000 - 2 * (n : ℚ)) * (2000000 - 2 * (n : ℚ) - 1)) :=
        mul_le_mul_of_nonneg_left h1 (by linarith)
      linarith
    have h4 : 2 * (2000000 - (n : ℚ)) * (2 + 1 / 2 ^ 53) ≤ 2 * 2000000 * 3 := by
      have : (2 : ℚ) + 1 / 2 ^ 53 ≤ 3 := by norm_num
      have h5 : 2 * (2000000 - (n : ℚ)) ≤ 2 * 2000000 := by linarith
      exact mul_le_mul h5 this (by positivity) (by norm_num)
    linarith
  have hsm : (((n + (1999999 - n) + 1 : ℕ)) : ℚ) * u ≤ 1 / 64 := by
    have : n + (1999999 - n) + 1 = 2000000 := by omega
    rw [this]
    exact wma_small 2000000 (le_refl _)
  obtain ⟨s', ys, y, e, hw, hy⟩ := WMA.wma_worst (K := ℚ) inflate64_fl n (by omega) h8 (1999999 - n) (by omega) hsm
    (le_trans (by norm_num) hbr)
  rw [← hjj] at e hw
  have hgap : (6 : ℚ) / 10 ^ 6 ≤ 1 - y.v := by
    refine le_trans ?_ hy
    have h0 : (0 : ℚ) ≤ u := u_nonneg
    have h1 : 3 / 4 * ((78 : ℚ) * 10 ^ 9) * u ≤ 3 / 4 * ((2 * (n : ℚ) - 1) * (WMA.tt n ((1999999 - n) + 1) * (WMA.tt n ((1999999 - n) + 1) - 1))
        / ((n : ℚ) * ((n : ℚ) + 1)) - 2 * (((1999999 - n) + 1 : ℕ) : ℚ) * (2 + u)) * u :=
      mul_le_mul_of_nonneg_right (mul_le_mul_of_nonneg_left hbr (by norm_num)) h0
    refine le_trans ?_ h1
    rw [hu64v]
    norm_num
  refine ⟨s', ys, y, e, ?_, ?_, hw, hgap, ?_⟩
  · rw [WMA.zo_length]; omega
  · exact fun a ha => WMA.zo_abs n _ a ha
  · intro s hs0 hs
    have hs3 : s < 3 / 10 ^ 6 := by
      by_contra hcon
      have h1 : (3 / 10 ^ 6 : ℚ) ≤ s := not_lt.mp hcon
      have h2 : (3 / 10 ^ 6 : ℚ) ^ 2 ≤ s ^ 2 := pow_le_pow_left₀ (by norm_num) h1 2
      have h3 : (1 / 10 ^ 15 : ℚ) ^ 2 * ((2000000 : ℕ) : ℚ) ^ 3 < (3 / 10 ^ 6) ^ 2 := by norm_num
      linarith
    have : (1 : ℚ) / 10 ^ 12 + 3 / 10 ^ 6 < 6 / 10 ^ 6 := by norm_num
    linarith

end Worst

section NonVacuity
attribute [local instance] inflate

/-- `wma_rounding` applies: period 3, five inputs bounded by 5, rounding `inflate` -/
example : ∃ s' ys, runOut WeightedMovingAverage.next (WeightedMovingAverage.fresh 3 : WeightedMovingAverage (R ℚ))
      (([1, -2, 3, 1 / 2, 5] : List ℚ).map R.mk) = some (s', ys) ∧
    List.Forall₂ (fun (y : R ℚ) (p : List ℚ) =>
        |y.v - wma (lastN 3 p)|
          ≤ 4 * ((p.length : ℚ) ^ 2 / (((min p.length 3 : ℕ) : ℚ) + 1) + (p.length : ℚ) + 2) * (1 / 2 ^ 20) * 5) ys
      (prefixes [1, -2, 3, 1 / 2, 5]) :=
  WMA.wma_rounding 3 (by decide) (by decide) 5 [1, -2, 3, 1 / 2, 5]
    (by intro x hx; simp at hx; rcases hx with rfl | rfl | rfl | rfl | rfl <;> norm_num [abs_le])
    (by show ((5 : ℕ) : ℚ) * (1 / 2 ^ 20) ≤ 1 / 64; norm_num)

end NonVacuity

section NonVacuity64
attribute [local instance] inflate64

example : ∃ s' ys, runOut WeightedMovingAverage.next
      (WeightedMovingAverage.fresh 3 : WeightedMovingAverage (R ℚ))
      (([1, -2, 3] : List ℚ).map R.mk) = some (s', ys) ∧ ys.length = 3 := by
  obtain ⟨s', ys, e, b⟩ := wma_within_tau (le_refl _) 3 (by decide) (by decide) 3 [1, -2, 3]
    (by intro x hx; simp at hx; rcases hx with rfl | rfl | rfl <;> norm_num [abs_le]) (by simp)
  exact ⟨s', ys, e, by rw [b.length_eq]; rfl⟩

end NonVacuity64

end TaRs.Round.Tau
