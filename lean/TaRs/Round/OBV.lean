/-
  Layer R, OnBalanceVolume: rounding-error bound for the GENERATED `nextBar` under the standard
  model of floating-point arithmetic (`TaRs/Round/Model.lean`), from the L0 whole-stream identity
  `Props.C03.obv_stream` (the generated OBV IS the documented running total for every scalar).

  `obv_rounding`: for every stream of `t` bars with `|volume| ≤ W` and `t·u ≤ 1/8`, every output of
  the generated OBV is within `t²·u·W` of the exact running total `Σ ±volume` (the direction of each
  step is decided by exact comparisons of the given closes, so it is the same on both sides).
  The bound is quadratic in the stream length because the total itself may grow like `t·W` and is
  never recomputed: OBV is a pure accumulator.
-/
import TaRs.Round.Model
import TaRs.Round.ATRBar
import TaRs.Props.C03a
import Mathlib.Tactic.NormNum
import Mathlib.Tactic.Ring
import Mathlib.Tactic.Linarith
import Mathlib.Tactic.Positivity
set_option linter.unusedSectionVars false
namespace TaRs.Round.OBV
open TaRs TaRs.Rs TaRs.Gen Rounding
open TaRs.Round.ATRBar (barR)

variable {K : Type} [Field K] [LinearOrder K] [IsStrictOrderedRing K]

/-- exact OBV continued from running total `v` and previous close `pc` -/
def obvFromK (v pc : K) : List (Bar K) → List K
  | [] => []
  | b :: bs =>
    let v' := if pc < b.close then v + b.volume else if b.close < pc then v - b.volume else v
    v' :: obvFromK v' b.close bs

/-- exact OBV of a whole history -/
def obvSeqK (bs : List (Bar K)) : List K := obvFromK 0 0 bs

variable [Rounding K]

/-- one step of the running total: an optional rounded add / subtract of a volume -/
theorem step_err (v vK w W j : K) (hj : 0 ≤ j) (hW : |w| ≤ W) (hv : |v - vK| ≤ j ^ 2 * u * W)
    (hvK : |vK| ≤ j * W) (hju : (j + 1) * u ≤ 1 / 8) (s : K) (hs : s = 1 ∨ s = -1) :
    |fl (v + s * w) - (vK + s * w)| ≤ (j + 1) ^ 2 * u * W ∧ |vK + s * w| ≤ (j + 1) * W := by
  have hu : (0 : K) ≤ u := u_nonneg
  have hW0 : 0 ≤ W := le_trans (abs_nonneg _) hW
  have hsw : |s * w| ≤ W := by
    rcases hs with rfl | rfl
    · simpa using hW
    · simpa using hW
  have hb2 : |vK + s * w| ≤ (j + 1) * W := by
    have := abs_add_le vK (s * w)
    linarith
  refine ⟨?_, hb2⟩
  have hmag : |v + s * w| ≤ (j + 1) * W + j ^ 2 * u * W := by
    have e : v + s * w = (v - vK) + (vK + s * w) := by ring
    rw [e]
    have := abs_add_le (v - vK) (vK + s * w)
    linarith
  have h1 := fl_err_le (v + s * w) _ hmag
  have e : fl (v + s * w) - (vK + s * w) = (fl (v + s * w) - (v + s * w)) + (v - vK) := by ring
  rw [e]
  have t := abs_add_le (fl (v + s * w) - (v + s * w)) (v - vK)
  -- u((j+1)W + j²uW) + j²uW ≤ (j+1)²uW  ⟸  j²·u ≤ j  (from (j+1)u ≤ 1/8)
  have hju' : j * u ≤ 1 / 8 := by nlinarith
  have key : u * ((j + 1) * W + j ^ 2 * u * W) + j ^ 2 * u * W ≤ (j + 1) ^ 2 * u * W := by
    have h0 : 0 ≤ u * W := mul_nonneg hu hW0
    have h2 : j ^ 2 * u ≤ j := by nlinarith
    have : (j + 1) ^ 2 * u * W - (u * ((j + 1) * W + j ^ 2 * u * W) + j ^ 2 * u * W)
        = u * W * (j - j ^ 2 * u) := by ring
    nlinarith [mul_nonneg h0 (sub_nonneg.mpr h2)]
  linarith

theorem obvFrom_bound (W : K) (bs : List (Bar K)) :
    ∀ (j : Nat) (v : R K) (vK pc : K), |v.v - vK| ≤ (j : K) ^ 2 * u * W → |vK| ≤ (j : K) * W →
      ((j + bs.length : Nat) : K) * u ≤ 1 / 8 → (∀ b ∈ bs, |b.volume| ≤ W) →
      List.Forall₂ (fun (y : R K) (z : K) => |y.v - z| ≤ ((j + bs.length : Nat) : K) ^ 2 * u * W)
        (Props.C03.obvFrom v (R.mk pc) (bs.map barR)) (obvFromK vK pc bs) := by
  induction bs with
  | nil => intro _ _ _ _ _ _ _ _; exact List.Forall₂.nil
  | cons b bs ih =>
    intro j v vK pc hv hvK hu8 hbs
    have hu : (0 : K) ≤ u := u_nonneg
    have hW : |b.volume| ≤ W := hbs b (by simp)
    have hW0 : 0 ≤ W := le_trans (abs_nonneg _) hW
    have hj1 : (((j + 1 : Nat)) : K) * u ≤ 1 / 8 := by
      refine le_trans (mul_le_mul_of_nonneg_right ?_ hu) hu8
      exact_mod_cast (by simp : j + 1 ≤ j + (b :: bs).length)
    have hj1' : ((j : K) + 1) * u ≤ 1 / 8 := by simpa using hj1
    have hmono : (((j + 1 : Nat)) : K) ^ 2 * u * W ≤ ((j + (b :: bs).length : Nat) : K) ^ 2 * u * W := by
      have h1 : (((j + 1 : Nat)) : K) ≤ ((j + (b :: bs).length : Nat) : K) := by
        exact_mod_cast (by simp : j + 1 ≤ j + (b :: bs).length)
      have h0 : (0 : K) ≤ ((j + 1 : Nat) : K) := Nat.cast_nonneg _
      have := pow_le_pow_left₀ h0 h1 2
      exact mul_le_mul_of_nonneg_right (mul_le_mul_of_nonneg_right this hu) hW0
    have hlen : j + 1 + bs.length = j + (b :: bs).length := by simp; omega
    simp only [List.map_cons, Props.C03.obvFrom, obvFromK]
    have hlt1 : Scalar.lt (R.mk pc) (barR b).close = decide (pc < b.close) := rfl
    have hlt2 : Scalar.lt (barR b).close (R.mk pc) = decide (b.close < pc) := rfl
    by_cases c1 : pc < b.close
    · obtain ⟨e1, e2⟩ := step_err v.v vK b.volume W j (Nat.cast_nonneg _) hW hv hvK hj1' 1 (Or.inl rfl)
      simp only [one_mul] at e1 e2
      simp only [hlt1, c1, decide_true, if_true]
      have e1' : |(Scalar.add v (barR b).volume).v - (vK + b.volume)| ≤ (((j + 1 : Nat)) : K) ^ 2 * u * W := by
        push_cast; exact e1
      refine List.Forall₂.cons (le_trans e1' hmono) ?_
      have := ih (j + 1) (Scalar.add v (barR b).volume) (vK + b.volume) b.close e1'
        (by push_cast; exact e2) (by rw [hlen]; exact hu8) (fun b' hb' => hbs b' (by simp [hb']))
      rw [hlen] at this
      exact this
    · by_cases c2 : b.close < pc
      · obtain ⟨e1, e2⟩ := step_err v.v vK b.volume W j (Nat.cast_nonneg _) hW hv hvK hj1' (-1) (Or.inr rfl)
        simp only [neg_one_mul, ← sub_eq_add_neg] at e1 e2
        simp only [hlt1, hlt2, c1, c2, decide_true, decide_false, if_true, if_false, Bool.false_eq_true]
        have e1' : |(Scalar.sub v (barR b).volume).v - (vK - b.volume)| ≤ (((j + 1 : Nat)) : K) ^ 2 * u * W := by
          push_cast; exact e1
        refine List.Forall₂.cons (le_trans e1' hmono) ?_
        have := ih (j + 1) (Scalar.sub v (barR b).volume) (vK - b.volume) b.close e1'
          (by push_cast; exact e2) (by rw [hlen]; exact hu8) (fun b' hb' => hbs b' (by simp [hb']))
        rw [hlen] at this
        exact this
      · simp only [hlt1, hlt2, c1, c2, decide_false, if_false, Bool.false_eq_true]
        have hv' : |v.v - vK| ≤ (((j + 1 : Nat)) : K) ^ 2 * u * W := by
          refine le_trans hv ?_
          have h1 : ((j : Nat) : K) ≤ ((j + 1 : Nat) : K) := by exact_mod_cast Nat.le_succ j
          have := pow_le_pow_left₀ (Nat.cast_nonneg j) h1 2
          exact mul_le_mul_of_nonneg_right (mul_le_mul_of_nonneg_right this hu) hW0
        have hvK' : |vK| ≤ (((j + 1 : Nat)) : K) * W := by
          refine le_trans hvK ?_
          have h1 : ((j : Nat) : K) ≤ ((j + 1 : Nat) : K) := by exact_mod_cast Nat.le_succ j
          exact mul_le_mul_of_nonneg_right h1 hW0
        refine List.Forall₂.cons (le_trans hv' hmono) ?_
        have := ih (j + 1) v vK b.close hv' hvK' (by rw [hlen]; exact hu8) (fun b' hb' => hbs b' (by simp [hb']))
        rw [hlen] at this
        exact this

/-- **OnBalanceVolume rounding-error theorem** (standard model; generated code): for every stream
    of `t` bars with `|volume| ≤ W`, `t·u ≤ 1/8`, the generated OBV never panics and every output is
    within `t²·u·W` of the exact running total. -/
theorem obv_rounding (W : K) (bs : List (Bar K)) (hbs : ∀ b ∈ bs, |b.volume| ≤ W)
    (ht : ((bs.length : Nat) : K) * u ≤ 1 / 8) :
    ∃ s' ys, runOut OnBalanceVolume.nextBar (OnBalanceVolume.fresh : OnBalanceVolume (R K)) (bs.map barR)
        = some (s', ys) ∧
      List.Forall₂ (fun (y : R K) (z : K) => |y.v - z| ≤ ((bs.length : Nat) : K) ^ 2 * u * W) ys (obvSeqK bs) := by
  obtain ⟨s', h⟩ := Props.C03.obv_stream (F := R K) (bs.map barR)
  refine ⟨s', _, h, ?_⟩
  have := obvFrom_bound W bs 0 (Scalar.lit 0 0 : R K) 0 0 (by simp [R.lit_zero]) (by simp)
    (by simpa using ht) hbs
  simp only [Nat.zero_add] at this
  unfold Props.C03.obvSeq obvSeqK
  rw [R.lit_zero] at this ⊢
  exact this

end TaRs.Round.OBV
