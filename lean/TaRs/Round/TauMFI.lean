/-
  Layer R (MFI running totals), numeric corollaries over ℚ and non-vacuity examples.

  `MFI.mfi_totals_rounding` bounds the error of both running totals after `k` flows by
  `B(k,n)·M`, `B(k,n) = 3·k·min(k,n)·u`, `M` = the largest single-bar money flow.  With the
  binary64 unit roundoff `u = 2^-53` and the tolerance `τ(k) = 1e-12 + 1e-15·k^1.5` of C13:

  * `mfi_small`: every stream length `t ≤ 2·10^6` satisfies the smallness hypothesis `t·u ≤ 1/8`;
  * `mfi_tau`: for periods `n ≤ 30` (the default is 14) `B(k,n) ≤ τ(k)` for EVERY `k`, stated
    without square roots as `B(k,n)² ≤ (1e-12)² + (1e-15)²·k³`;
  * `mfi_bound_exceeds`: for `n = 1000` the WORST-CASE bound is above `τ` at `k = 10^4`: the totals
    result does not show the property's tolerance for long windows (the bound has the extra
    factor `min(k,n)` because the totals are sums of up to `n` flows, not means); that range stays
    with the sampled oracle.  Stated, not hidden.
-/
import TaRs.Round.MFI
import TaRs.Round.TauBase
import Mathlib.Tactic.NormNum
import Mathlib.Tactic.Linarith
import Mathlib.Tactic.Positivity
namespace TaRs.Round.Tau
open TaRs TaRs.Rs TaRs.Spec TaRs.Gen Rounding

/-- `t·u ≤ 1/8` for every `t ≤ 2·10^6` -/
theorem mfi_small (t : ℕ) (ht : t ≤ 2000000) : (t : ℚ) * u64 ≤ 1 / 8 := by
  have h : (t : ℚ) ≤ 2000000 := by exact_mod_cast ht
  unfold u64
  have : (0 : ℚ) ≤ 1 / 2 ^ 53 := by positivity
  calc (t : ℚ) * (1 / 2 ^ 53) ≤ 2000000 * (1 / 2 ^ 53) := mul_le_mul_of_nonneg_right h this
    _ ≤ 1 / 8 := by norm_num

/-- the coefficient of `M` in the MFI totals bound at binary64 precision -/
def mfiB (k n : ℕ) : ℚ := 3 * (k : ℚ) * ((min k n : ℕ) : ℚ) * u64

/-- `B(k,n) ≤ 90·k·u` for `n ≤ 30` -/
theorem mfiB_le (k n : ℕ) (hn : n ≤ 30) : mfiB k n ≤ 90 * (k : ℚ) * u64 := by
  unfold mfiB u64
  have h1 : ((min k n : ℕ) : ℚ) ≤ 30 := by exact_mod_cast (by omega : min k n ≤ 30)
  have h0 : (0 : ℚ) ≤ 3 * (k : ℚ) * (1 / 2 ^ 53) := by positivity
  nlinarith [mul_le_mul_of_nonneg_left h1 h0]

/-- for every period `n ≤ 30` and EVERY `k`: `B(k,n)² ≤ (1e-12)² + (1e-15)²·k³` -/
theorem mfi_tau (k n : ℕ) (hn : n ≤ 30) :
    (mfiB k n) ^ 2 ≤ (1 / 10 ^ 12) ^ 2 + (1 / 10 ^ 15) ^ 2 * (k : ℚ) ^ 3 := by
  have hB0 : 0 ≤ mfiB k n := by unfold mfiB u64; positivity
  have h90 := mfiB_le k n hn
  have hsq : (mfiB k n) ^ 2 ≤ (90 * (k : ℚ) * u64) ^ 2 := pow_le_pow_left₀ hB0 h90 2
  refine le_trans hsq ?_
  unfold u64
  have hk0 : (0 : ℚ) ≤ k := Nat.cast_nonneg _
  by_cases h : (k : ℚ) ≤ 100
  · have h1 : 90 * (k : ℚ) * (1 / 2 ^ 53) ≤ 1 / 10 ^ 12 := by
      have : 90 * (k : ℚ) * (1 / 2 ^ 53) ≤ 90 * 100 * (1 / 2 ^ 53) := by
        have : (0 : ℚ) ≤ 1 / 2 ^ 53 := by positivity
        nlinarith
      refine le_trans this ?_
      norm_num
    have h0 : (0 : ℚ) ≤ 90 * (k : ℚ) * (1 / 2 ^ 53) := by positivity
    have h2 := pow_le_pow_left₀ h0 h1 2
    have h3 : (0 : ℚ) ≤ (1 / 10 ^ 15) ^ 2 * (k : ℚ) ^ 3 := by positivity
    linarith
  · have hge : (100 : ℚ) ≤ k := le_of_lt (not_le.mp h)
    have e1 : (90 * (k : ℚ) * (1 / 2 ^ 53)) ^ 2 = 8100 / 2 ^ 106 * (k : ℚ) ^ 2 := by ring
    have e3 : (8100 : ℚ) / 2 ^ 106 ≤ (1 / 10 ^ 15) ^ 2 * 100 := by norm_num
    have e4 : (k : ℚ) ^ 3 = (k : ℚ) ^ 2 * k := by ring
    have ht2 : (0 : ℚ) ≤ (k : ℚ) ^ 2 := by positivity
    have h1 : (90 * (k : ℚ) * (1 / 2 ^ 53)) ^ 2 ≤ (1 / 10 ^ 15) ^ 2 * (k : ℚ) ^ 3 := by
      calc (90 * (k : ℚ) * (1 / 2 ^ 53)) ^ 2 = 8100 / 2 ^ 106 * (k : ℚ) ^ 2 := e1
        _ ≤ ((1 / 10 ^ 15) ^ 2 * 100) * (k : ℚ) ^ 2 := mul_le_mul_of_nonneg_right e3 ht2
        _ ≤ ((1 / 10 ^ 15) ^ 2 * k) * (k : ℚ) ^ 2 :=
            mul_le_mul_of_nonneg_right (mul_le_mul_of_nonneg_left hge (by positivity)) ht2
        _ = (1 / 10 ^ 15) ^ 2 * (k : ℚ) ^ 3 := by rw [e4]; ring
    have h3 : (0 : ℚ) ≤ (1 / 10 ^ 12) ^ 2 := by positivity
    linarith

/-- the worst-case bound is NOT below τ for long windows: `n = 1000`, `k = 10^4` -/
theorem mfi_bound_exceeds :
    (1 / 10 ^ 12) ^ 2 + (1 / 10 ^ 15) ^ 2 * ((10000 : ℕ) : ℚ) ^ 3 < (mfiB 10000 1000) ^ 2 := by
  unfold mfiB u64
  norm_num

/-- C13 shape for the MFI totals: unit roundoff at most `2^-53`, period `n ≤ 30`, at most
    `2·10^6` bars after the first, computed raw flows in `[0, M]`: the generated MFI never
    panics and both running totals are within `τ(t)·M` of the window sums of the computed
    flows (squared form). -/
theorem mfi_totals_within_tau [Rounding ℚ] (hu : (u : ℚ) ≤ u64) (n : Nat) (hn : 0 < n) (hn30 : n ≤ 30)
    (M : ℚ) (b0 : Bar (R ℚ)) (bs : List (Bar (R ℚ)))
    (hb : ∀ b ∈ bs, 0 ≤ MFI.rawR b ∧ MFI.rawR b ≤ M) (ht : bs.length ≤ 2000000) :
    ∃ s' outs, runOut MoneyFlowIndex.nextBar (MoneyFlowIndex.fresh n : MoneyFlowIndex (R ℚ)) (b0 :: bs)
        = some (s', outs) ∧
      (s'.total_positive_money_flow.v - (lastN n ((MFI.flows (b0 :: bs)).map MFI.pp)).sum) ^ 2
        ≤ ((1 / 10 ^ 12) ^ 2 + (1 / 10 ^ 15) ^ 2 * (bs.length : ℚ) ^ 3) * M ^ 2 ∧
      (s'.total_negative_money_flow.v - (lastN n ((MFI.flows (b0 :: bs)).map MFI.np)).sum) ^ 2
        ≤ ((1 / 10 ^ 12) ^ 2 + (1 / 10 ^ 15) ^ 2 * (bs.length : ℚ) ^ 3) * M ^ 2 := by
  have hu0 : (0 : ℚ) ≤ u := u_nonneg
  have h8 : n * 8 ≤ isizeMax := by
    have : n * 8 ≤ 240 := by omega
    exact le_trans this (by decide)
  have hsm : (bs.length : ℚ) * u ≤ 1 / 8 :=
    le_trans (mul_le_mul_of_nonneg_left hu (Nat.cast_nonneg _)) (mfi_small _ ht)
  obtain ⟨s', outs, e, bp, bn⟩ := MFI.mfi_totals_rounding n hn h8 M b0 bs hb hsm
  have conv : ∀ x : ℚ, |x| ≤ 3 * (bs.length : ℚ) * ((min bs.length n : ℕ) : ℚ) * u * M →
      x ^ 2 ≤ ((1 / 10 ^ 12) ^ 2 + (1 / 10 ^ 15) ^ 2 * (bs.length : ℚ) ^ 3) * M ^ 2 := by
    intro x hx
    have h1 : |x| ≤ mfiB bs.length n * |M| := by
      refine le_trans hx ?_
      unfold mfiB
      have h0 : (0 : ℚ) ≤ 3 * (bs.length : ℚ) * ((min bs.length n : ℕ) : ℚ) := by positivity
      have := le_abs_self M
      calc 3 * (bs.length : ℚ) * ((min bs.length n : ℕ) : ℚ) * u * M
          ≤ 3 * (bs.length : ℚ) * ((min bs.length n : ℕ) : ℚ) * u * |M| :=
            mul_le_mul_of_nonneg_left this (mul_nonneg h0 hu0)
        _ ≤ 3 * (bs.length : ℚ) * ((min bs.length n : ℕ) : ℚ) * u64 * |M| :=
            mul_le_mul_of_nonneg_right (mul_le_mul_of_nonneg_left hu h0) (abs_nonneg _)
    have h2 := pow_le_pow_left₀ (abs_nonneg _) h1 2
    rw [sq_abs, mul_pow, sq_abs] at h2
    exact le_trans h2 (mul_le_mul_of_nonneg_right (mfi_tau bs.length n hn30) (sq_nonneg M))
  exact ⟨s', outs, e, conv _ bp, conv _ bn⟩

section NonVacuity
attribute [local instance] inflate

private def bar (h l c v : ℚ) : Bar (R ℚ) := ⟨⟨c⟩, ⟨h⟩, ⟨l⟩, ⟨c⟩, ⟨v⟩⟩

/-- `mfi_totals_rounding` applies to a concrete stream (period 2, rising / falling / flat moves,
    rounding `inflate` with a genuine error): hypotheses satisfiable -/
example : ∃ s' outs, runOut MoneyFlowIndex.nextBar (MoneyFlowIndex.fresh 2 : MoneyFlowIndex (R ℚ))
      [bar 3 1 2 10, bar 4 2 3 5, bar 2 1 1 7, bar 2 1 1 3] = some (s', outs) ∧
    |s'.total_positive_money_flow.v
        - (lastN 2 ((MFI.flows [bar 3 1 2 10, bar 4 2 3 5, bar 2 1 1 7, bar 2 1 1 3]).map MFI.pp)).sum|
      ≤ 3 * ((3 : ℕ) : ℚ) * ((min 3 2 : ℕ) : ℚ) * (1 / 2 ^ 20) * 20 ∧
    |s'.total_negative_money_flow.v
        - (lastN 2 ((MFI.flows [bar 3 1 2 10, bar 4 2 3 5, bar 2 1 1 7, bar 2 1 1 3]).map MFI.np)).sum|
      ≤ 3 * ((3 : ℕ) : ℚ) * ((min 3 2 : ℕ) : ℚ) * (1 / 2 ^ 20) * 20 :=
  MFI.mfi_totals_rounding 2 (by decide) (by decide) 20 (bar 3 1 2 10) [bar 4 2 3 5, bar 2 1 1 7, bar 2 1 1 3]
    (by
      intro b hb
      simp only [List.mem_cons, List.not_mem_nil, or_false] at hb
      rcases hb with rfl | rfl | rfl <;>
        (simp only [MFI.rawR, MoneyFlowIndex.typical, bar, R.mul_v, R.div_v, R.add_v, R.lit_v, Rounding.fl]
         norm_num))
    (by show ((3 : ℕ) : ℚ) * (1 / 2 ^ 20) ≤ 1 / 8; norm_num)


/-- `mfi_reading_rounding` applies: the window's total flow dominates the drift bound on this stream -/
example : ∃ s2 outs y, runOut MoneyFlowIndex.nextBar (MoneyFlowIndex.fresh 2 : MoneyFlowIndex (R ℚ))
      (bar 3 1 2 10 :: ([bar 4 2 3 5, bar 2 1 1 7] ++ [bar 3 2 2 3])) = some (s2, outs ++ [y]) ∧
    |y.v - (lastN 2 ((MFI.flows (bar 3 1 2 10 :: ([bar 4 2 3 5, bar 2 1 1 7] ++ [bar 3 2 2 3]))).map MFI.pp)).sum
            / ((lastN 2 ((MFI.flows (bar 3 1 2 10 :: ([bar 4 2 3 5, bar 2 1 1 7] ++ [bar 3 2 2 3]))).map MFI.pp)).sum
                + (lastN 2 ((MFI.flows (bar 3 1 2 10 :: ([bar 4 2 3 5, bar 2 1 1 7] ++ [bar 3 2 2 3]))).map MFI.np)).sum) * 100|
      ≤ 100 * (2 * (3 * ((([bar 4 2 3 5, bar 2 1 1 7] ++ [bar 3 2 2 3] : List (Bar (R ℚ))).length : ℕ) : ℚ)
                  * ((min ([bar 4 2 3 5, bar 2 1 1 7] ++ [bar 3 2 2 3] : List (Bar (R ℚ))).length 2 : ℕ) : ℚ) * (1 / 2 ^ 20) * 20)
                / ((lastN 2 ((MFI.flows (bar 3 1 2 10 :: ([bar 4 2 3 5, bar 2 1 1 7] ++ [bar 3 2 2 3]))).map MFI.pp)).sum
                    + (lastN 2 ((MFI.flows (bar 3 1 2 10 :: ([bar 4 2 3 5, bar 2 1 1 7] ++ [bar 3 2 2 3]))).map MFI.np)).sum)
                + 12 * (1 / 2 ^ 20)) :=
  MFI.mfi_reading_rounding 2 (by decide) (by decide) 20 (bar 3 1 2 10) [bar 4 2 3 5, bar 2 1 1 7] (bar 3 2 2 3)
    (by decide +kernel) (by decide +kernel) (by decide +kernel) (by decide +kernel) (by decide +kernel)

end NonVacuity

end TaRs.Round.Tau
