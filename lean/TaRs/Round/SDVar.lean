/-
  Layer R, StandardDeviation, part 2: THE VARIANCE ACCUMULATOR `m2`.
  Rounding-error bound for the running sum of squared deviations `m2` of the GENERATED
  sliding-window Welford `StandardDeviation.next` under the standard model of floating-point
  arithmetic (`TaRs/Round/Model.lean`; trusted assumption: every operation is the exact one
  followed by a rounding `fl` with `|fl x − x| ≤ u·|x|`, i.e. no overflow / underflow).

  The code:   warm-up :  δ = x − m;  m += δ/count;  m2 += δ·(x − m)
              sliding :  δ = x − old; m₀ = m; m += δ/n;  m2 += δ·((x − m) + old − m₀)
              then      if m2 < 0 { m2 = 0 },   output sqrt(m2/count).

  WHAT IS TRUE.  A naive step-by-step comparison of `m2` with the exact `Σ(x−mean)²` gives a
  bound QUADRATIC in the number of inputs `k` (each step adds `δ·(error of m)`, and the error
  of `m` is itself of order `k·u·M`).  The truth is better, because the update formulas have an
  exact algebraic invariant that holds for ANY value of the stored mean `m`, right or wrong:

        m2 − ( Σ_window x² − count·m² )   is unchanged by an exactly computed step.

  So the rounded code keeps `Z := m2 − (Σ x² − count·m²)` small: every step changes `Z` only
  by the rounding errors of that step, at most `64·count·u·M²`.  (The factor `count` is real:
  the rounding error `≈ u·M` of the addition `m + δ/n` is multiplied by `n·(m + m')` when it
  is seen through `count·m²`.)  Hence `|Z| ≤ 64·k·min(k,n)·u·M²`, and since
  `Σ(x−mean)² = Σ x² − count·mean²`, with the mean bound of `SDMean.lean`
  (`|m − mean| ≤ 6·k·u·M`):

        |m2 − Σ_window (x − mean)²| ≤ 77·k·min(k,n)·u·M²           (`sd_var_rounding`)
        |m2/count − variance of the window| ≤ 77·k·u·M²             (no dependence on n).

  The order `k·min(k,n)` for `m2` (= `k` for the variance) is the true worst-case order under
  the standard model, not an artefact.  The clamp `if m2 < 0 { m2 = 0 }` can only move `m2`
  towards any non-negative reference value (`clamp_towards`), and makes `0 ≤ m2` hold after
  every call, for any state and any input whatsoever (`m2_nonneg_always`).

  The model's `sqrt` is a PLACEHOLDER (`sqrt a = a` in the `R K` instance), so the results are
  stated for `m2` and for the variance `m2/count`, not for the square root.  `sd_out_rounding`
  restates the variance bound for the value the generated `next` returns, which in this model
  is the rounded radicand `fl(m2/count)` itself.
-/
import TaRs.Round.SDMean
import Mathlib.Tactic.NormNum
import Mathlib.Tactic.Ring
import Mathlib.Tactic.Linarith
import Mathlib.Tactic.Positivity
import Mathlib.Tactic.FieldSimp
set_option linter.unusedSectionVars false
namespace TaRs.Round.SDVar
open TaRs TaRs.Rs TaRs.Spec TaRs.Gen Rounding
open TaRs.Round.SMA (evicted lastN_snoc mem_lastN)
open TaRs.Round.SDMean

variable {K : Type} [Field K] [LinearOrder K] [IsStrictOrderedRing K]

/-! ## List facts (exact arithmetic) -/

/-- Σ xᵢ² -/
def sumsq (w : List K) : K := (w.map (fun x => x ^ 2)).sum

/-- Σ (xᵢ − mean w)² : the quantity the `m2` field tracks (`= |w| · var w`) -/
def ssq (w : List K) : K := (w.map (fun x => (x - mean w) ^ 2)).sum

theorem var_eq_ssq (w : List K) : var w = ssq w / (w.length : K) := rfl

theorem sum_sq_sub_nonneg (w : List K) (μ : K) : 0 ≤ (w.map (fun x => (x - μ) ^ 2)).sum := by
  induction w with
  | nil => simp
  | cons a t ih =>
    simp only [List.map_cons, List.sum_cons]
    exact add_nonneg (sq_nonneg _) ih

theorem ssq_nonneg (w : List K) : 0 ≤ ssq w := sum_sq_sub_nonneg w (mean w)

theorem sumsq_nonneg (w : List K) : 0 ≤ sumsq w := by
  have := sum_sq_sub_nonneg w 0
  simpa [sumsq] using this

/-- Σ (xᵢ − μ)² = Σ xᵢ² − 2μ Σ xᵢ + kμ², for ANY centre μ -/
theorem sum_sq_sub (w : List K) (μ : K) :
    (w.map (fun x => (x - μ) ^ 2)).sum = sumsq w - 2 * μ * w.sum + (w.length : K) * μ ^ 2 := by
  unfold sumsq
  induction w with
  | nil => simp
  | cons a t ih =>
    simp only [List.map_cons, List.sum_cons, List.length_cons, ih]
    push_cast
    ring

/-- Σ (xᵢ − mean)² = Σ xᵢ² − k·mean² -/
theorem ssq_eq_sumsq (w : List K) : ssq w = sumsq w - (w.length : K) * mean w ^ 2 := by
  unfold ssq
  rw [sum_sq_sub]
  by_cases hw : w = []
  · subst hw; simp [mean]
  · have hk : (w.length : K) ≠ 0 := by
      exact_mod_cast (List.length_pos_iff.mpr hw).ne'
    have hs : w.sum = (w.length : K) * mean w := by
      unfold mean; field_simp
    rw [hs]; ring

theorem sumsq_le (w : List K) (M : K) (h : ∀ a ∈ w, |a| ≤ M) : sumsq w ≤ (w.length : K) * M ^ 2 := by
  unfold sumsq
  induction w with
  | nil => simp
  | cons a t ih =>
    have h1 : |a| ≤ M := h a (by simp)
    have h2 := ih (fun b hb => h b (by simp [hb]))
    have h3 : a ^ 2 ≤ M ^ 2 := by
      rw [← sq_abs a]
      exact pow_le_pow_left₀ (abs_nonneg a) h1 2
    simp only [List.map_cons, List.sum_cons, List.length_cons]
    push_cast
    linarith

/-- the squares of the window after a push -/
theorem sumsq_snoc (n : Nat) (hn : 0 < n) (h : List K) (x : K) :
    sumsq (lastN n (h ++ [x])) = sumsq (lastN (n - 1) h) + x ^ 2 := by
  rw [lastN_snoc n hn]; simp [sumsq]

/-- window sum of squares minus the square of the evicted value -/
theorem sumsq_sub_evicted (n : Nat) (hn : 0 < n) (h : List K) :
    sumsq (lastN n h) - evicted n h ^ 2 = sumsq (lastN (n - 1) h) := by
  unfold evicted sumsq
  by_cases hl : h.length < n
  · simp only [hl, if_true]
    rw [lastN_of_le n h (by omega), lastN_of_le (n - 1) h (by omega)]
    simp
  · simp only [hl, if_false]
    have hlt : h.length - n < h.length := by omega
    unfold lastN
    have e : h.length - (n - 1) = (h.length - n) + 1 := by omega
    rw [e, List.drop_eq_getElem_cons hlt, List.getElem?_eq_getElem hlt]
    simp only [List.map_cons, List.sum_cons, Option.getD_some]
    ring

/-- the population variance of values bounded by `M` is at most `M²` -/
theorem var_le (w : List K) (M : K) (h : ∀ a ∈ w, |a| ≤ M) : var w ≤ M ^ 2 := by
  rw [var_eq_ssq]
  by_cases hw : w = []
  · subst hw; simp [ssq]; positivity
  · have hk : (0 : K) < (w.length : K) := by exact_mod_cast List.length_pos_iff.mpr hw
    rw [div_le_iff₀ hk]
    have h1 := ssq_eq_sumsq w
    have h2 := sumsq_le w M h
    have h3 : 0 ≤ (w.length : K) * mean w ^ 2 := by positivity
    linarith [mul_comm (w.length : K) (M ^ 2)]

theorem var_nonneg (w : List K) : 0 ≤ var w :=
  div_nonneg (ssq_nonneg w) (Nat.cast_nonneg _)

/-! ## The clamp -/

/-- **The clamp `if m2 < 0 { m2 = 0 }` can only move `m2` towards a non-negative reference
    value**: it never increases the distance to any `S ≥ 0` (in particular to the exact sum of
    squared deviations). -/
theorem clamp_towards (r S : K) (hS : 0 ≤ S) : |(if r < 0 then 0 else r) - S| ≤ |r - S| := by
  by_cases hr : r < 0
  · rw [if_pos hr, zero_sub, abs_neg, abs_of_nonneg hS]
    have : S ≤ -(r - S) := by linarith
    exact le_trans this (neg_le_abs _)
  · rw [if_neg hr]

/-- clamped value against a reference `T` that may be slightly negative (`−B ≤ T`) -/
theorem clamp_err (r T B : K) (hr : |r - T| ≤ B) (hT : -B ≤ T) :
    |(if r < 0 then 0 else r) - T| ≤ B := by
  by_cases h : r < 0
  · rw [if_pos h, zero_sub, abs_neg]
    have := abs_le.mp hr
    exact abs_le.mpr ⟨hT, by linarith [this.1]⟩
  · rw [if_neg h]; exact hr

theorem clamp_nonneg (r : K) : 0 ≤ (if r < 0 then 0 else r) := by
  by_cases h : r < 0
  · rw [if_pos h]
  · rw [if_neg h]; exact not_lt.mp h

/-! ## Arithmetic cores (pure inequalities about `fl`) -/

section Arith
variable [Rounding K]

theorem abs_mul_le_mul {x y a b : K} (hx : |x| ≤ a) (hy : |y| ≤ b) : |x * y| ≤ a * b := by
  rw [abs_mul]
  exact mul_le_mul hx hy (abs_nonneg _) (le_trans (abs_nonneg _) hx)

/-- with `u ≤ 1/64`, a bound on the rounded value bounds the unrounded one -/
theorem abs_le_of_abs_fl_le (hu : (u : K) ≤ 1 / 64) (z B : K) (h : |fl z| ≤ B) :
    |z| ≤ 64 / 63 * B := by
  have h1 := fl_err z
  have h2 : |z| ≤ |fl z| + |fl z - z| := by
    have := abs_sub_abs_le_abs_sub z (fl z)
    rw [abs_sub_comm] at this
    linarith
  have h3 : u * |z| ≤ 1 / 64 * |z| := mul_le_mul_of_nonneg_right hu (abs_nonneg _)
  linarith

theorem rho_alg (m a c d q f : K) (hc : c ≠ 0) :
    c * (f - m) - a = c * (f - (m + q)) + c * (q - d / c) + (d - a) := by
  field_simp
  ring

/-- the residual of the mean update: how far `c·(m' − m)` is from the difference `a` it was
    computed from (`m' = fl (m + fl (fl a / c))`; exactly `0` in exact arithmetic) -/
theorem rho_bound (hu : (u : K) ≤ 1 / 64) (m a c M : K) (hc : 1 ≤ c) (hM : 0 ≤ M)
    (ha : |a| ≤ 67 / 32 * M) (hm' : |fl (m + fl (fl a / c))| ≤ 35 / 32 * M) :
    |c * (fl (m + fl (fl a / c)) - m) - a| ≤ u * ((9 / 2 + 10 / 9 * c) * M) := by
  have hu0 : (0 : K) ≤ u := u_nonneg
  have hc0 : 0 < c := by linarith
  have hz := abs_le_of_abs_fl_le hu _ _ hm'
  have e3 : |fl (m + fl (fl a / c)) - (m + fl (fl a / c))| ≤ u * (64 / 63 * (35 / 32 * M)) :=
    fl_err_le _ _ hz
  have hd : |fl a - a| ≤ u * (67 / 32 * M) := fl_err_le _ _ ha
  have hdb : |fl a| ≤ 65 / 64 * (67 / 32 * M) := abs_fl_le64 hu _ _ ha
  have e2 : |fl (fl a / c) - fl a / c| ≤ u * |fl a / c| := fl_err _
  have e2' : |c * (fl (fl a / c) - fl a / c)| ≤ u * (65 / 64 * (67 / 32 * M)) := by
    rw [abs_mul, abs_of_pos hc0]
    have h1 : c * |fl a / c| = |fl a| := by
      rw [abs_div, abs_of_pos hc0]; field_simp
    calc c * |fl (fl a / c) - fl a / c| ≤ c * (u * |fl a / c|) :=
          mul_le_mul_of_nonneg_left e2 (le_of_lt hc0)
      _ = u * |fl a| := by rw [← h1]; ring
      _ ≤ u * (65 / 64 * (67 / 32 * M)) := mul_le_mul_of_nonneg_left hdb hu0
  have e3' : |c * (fl (m + fl (fl a / c)) - (m + fl (fl a / c)))| ≤ c * (u * (64 / 63 * (35 / 32 * M))) := by
    rw [abs_mul, abs_of_pos hc0]
    exact mul_le_mul_of_nonneg_left e3 (le_of_lt hc0)
  rw [rho_alg m a c (fl a) (fl (fl a / c)) _ (ne_of_gt hc0)]
  have t1 := abs_add_le (c * (fl (m + fl (fl a / c)) - (m + fl (fl a / c))) + c * (fl (fl a / c) - fl a / c)) (fl a - a)
  have t2 := abs_add_le (c * (fl (m + fl (fl a / c)) - (m + fl (fl a / c)))) (c * (fl (fl a / c) - fl a / c))
  have key : c * (u * (64 / 63 * (35 / 32 * M))) + u * (65 / 64 * (67 / 32 * M)) + u * (67 / 32 * M)
      ≤ u * ((9 / 2 + 10 / 9 * c) * M) := by
    have hW : 0 ≤ u * M := mul_nonneg hu0 hM
    have e : u * ((9 / 2 + 10 / 9 * c) * M)
        - (c * (u * (64 / 63 * (35 / 32 * M))) + u * (65 / 64 * (67 / 32 * M)) + u * (67 / 32 * M))
        = (9 / 2 - 65 / 64 * (67 / 32) - 67 / 32) * (u * M) := by ring
    have : (0 : K) ≤ 9 / 2 - 65 / 64 * (67 / 32) - 67 / 32 := by norm_num
    linarith [mul_nonneg this hW]
  linarith

/-- the second factor in the sliding phase, `δ₂ = ((x − m') + old) − m₀` (three roundings) -/
theorem d2_slide (hu : (u : K) ≤ 1 / 64) (x o m m' M : K) (hM : 0 ≤ M) (hx : |x| ≤ M) (ho : |o| ≤ M)
    (hm : |m| ≤ 35 / 32 * M) (hm' : |m'| ≤ 35 / 32 * M) :
    |fl (fl (fl (x - m') + o) - m) - (x - m' + o - m)| ≤ u * (10 * M) ∧
      |fl (fl (fl (x - m') + o) - m)| ≤ 139 / 32 * M ∧ |x - m' + o - m| ≤ 134 / 32 * M := by
  have hu0 : (0 : K) ≤ u := u_nonneg
  have h0 : |x - m'| ≤ 67 / 32 * M := by have := abs_sub x m'; linarith
  have e1 : |fl (x - m') - (x - m')| ≤ u * (67 / 32 * M) := fl_err_le _ _ h0
  have b1 : |fl (x - m')| ≤ 69 / 32 * M := by
    have := abs_fl_le64 hu _ _ h0; linarith
  have h1 : |fl (x - m') + o| ≤ 101 / 32 * M := by
    have := abs_add_le (fl (x - m')) o; linarith
  have e2 : |fl (fl (x - m') + o) - (fl (x - m') + o)| ≤ u * (101 / 32 * M) := fl_err_le _ _ h1
  have b2 : |fl (fl (x - m') + o)| ≤ 103 / 32 * M := by
    have := abs_fl_le64 hu _ _ h1; linarith
  have h2 : |fl (fl (x - m') + o) - m| ≤ 138 / 32 * M := by
    have := abs_sub (fl (fl (x - m') + o)) m; linarith
  have e3 : |fl (fl (fl (x - m') + o) - m) - (fl (fl (x - m') + o) - m)| ≤ u * (138 / 32 * M) :=
    fl_err_le _ _ h2
  have hb : |x - m' + o - m| ≤ 134 / 32 * M := by
    have e : x - m' + o - m = (x - m') + (o - m) := by ring
    rw [e]
    have := abs_add_le (x - m') (o - m)
    have := abs_sub o m
    linarith
  have hε : |fl (fl (fl (x - m') + o) - m) - (x - m' + o - m)| ≤ u * (10 * M) := by
    have e : fl (fl (fl (x - m') + o) - m) - (x - m' + o - m)
        = (fl (fl (fl (x - m') + o) - m) - (fl (fl (x - m') + o) - m))
          + ((fl (fl (x - m') + o) - (fl (x - m') + o)) + (fl (x - m') - (x - m'))) := by ring
    rw [e]
    have := abs_add_le (fl (fl (fl (x - m') + o) - m) - (fl (fl (x - m') + o) - m))
      ((fl (fl (x - m') + o) - (fl (x - m') + o)) + (fl (x - m') - (x - m')))
    have := abs_add_le (fl (fl (x - m') + o) - (fl (x - m') + o)) (fl (x - m') - (x - m'))
    have hW : 0 ≤ u * M := mul_nonneg hu0 hM
    linarith
  refine ⟨hε, ?_, hb⟩
  have e : fl (fl (fl (x - m') + o) - m)
      = (fl (fl (fl (x - m') + o) - m) - (x - m' + o - m)) + (x - m' + o - m) := by ring
  rw [e]
  have := abs_add_le (fl (fl (fl (x - m') + o) - m) - (x - m' + o - m)) (x - m' + o - m)
  have h64 : u * (10 * M) ≤ 1 / 64 * (10 * M) := mul_le_mul_of_nonneg_right hu (by positivity)
  linarith

/-- accumulate a rounded product: `s ← fl (s + fl (d·d₂))` where `d ≈ a`, `d₂ ≈ b` -/
theorem acc_core (hu : (u : K) ≤ 1 / 64) (s a b d d2 Sb α β γ δ δ2 : K)
    (hs : |s| ≤ Sb) (hda : |d - a| ≤ u * α) (hd : |d| ≤ δ) (hb : |b| ≤ β)
    (hd2b : |d2 - b| ≤ u * γ) (hd2 : |d2| ≤ δ2) :
    |fl (s + fl (d * d2)) - s - a * b| ≤ u * (Sb + 129 / 64 * (δ * δ2) + α * β + δ * γ) := by
  have hu0 : (0 : K) ≤ u := u_nonneg
  have hp : |d * d2| ≤ δ * δ2 := abs_mul_le_mul hd hd2
  have hp0 : 0 ≤ δ * δ2 := le_trans (abs_nonneg _) hp
  have e5 : |fl (d * d2) - d * d2| ≤ u * (δ * δ2) := fl_err_le _ _ hp
  have b5 : |fl (d * d2)| ≤ 65 / 64 * (δ * δ2) := abs_fl_le64 hu _ _ hp
  have h6 : |s + fl (d * d2)| ≤ Sb + 65 / 64 * (δ * δ2) := by
    have := abs_add_le s (fl (d * d2)); linarith
  have e6 := fl_err_le _ _ h6
  have t1 : |(d - a) * b| ≤ u * α * β := abs_mul_le_mul hda hb
  have t2 : |d * (d2 - b)| ≤ δ * (u * γ) := abs_mul_le_mul hd hd2b
  have e : fl (s + fl (d * d2)) - s - a * b
      = (fl (s + fl (d * d2)) - (s + fl (d * d2))) + ((fl (d * d2) - d * d2)
        + ((d - a) * b + d * (d2 - b))) := by ring
  rw [e]
  have := abs_add_le (fl (s + fl (d * d2)) - (s + fl (d * d2)))
    ((fl (d * d2) - d * d2) + ((d - a) * b + d * (d2 - b)))
  have := abs_add_le (fl (d * d2) - d * d2) ((d - a) * b + d * (d2 - b))
  have := abs_add_le ((d - a) * b) (d * (d2 - b))
  have ident : u * (Sb + 129 / 64 * (δ * δ2) + α * β + δ * γ)
      = u * (Sb + 65 / 64 * (δ * δ2)) + u * (δ * δ2) + u * α * β + δ * (u * γ) := by ring
  rw [ident]
  linarith

/-- **one warm-up update of `m2`, seen through the invariant quantity.**
    `m` = stored mean, `s` = stored `m2`, `c` = new count.  The change of `m2` differs from the
    change of `Σx² − count·m²` only by rounding errors. -/
theorem z_warm (hu : (u : K) ≤ 1 / 64) (x m s c M Sb : K) (hM : 0 ≤ M) (hc : 1 ≤ c)
    (hx : |x| ≤ M) (hm : |m| ≤ 35 / 32 * M)
    (hm' : |fl (m + fl (fl (x - m) / c))| ≤ 35 / 32 * M) (hs : |s| ≤ Sb) :
    |fl (s + fl (fl (x - m) * fl (x - fl (m + fl (fl (x - m) / c))))) - s
        - (x ^ 2 - c * fl (m + fl (fl (x - m) / c)) ^ 2 + (c - 1) * m ^ 2)|
      ≤ u * (Sb + (58 + 5 / 2 * c) * M ^ 2) := by
  have hu0 : (0 : K) ≤ u := u_nonneg
  have ha : |x - m| ≤ 67 / 32 * M := by have := abs_sub x m; linarith
  have hρ := rho_bound hu m (x - m) c M hc hM ha hm'
  obtain ⟨m', hm'def⟩ : ∃ m', m' = fl (m + fl (fl (x - m) / c)) := ⟨_, rfl⟩
  rw [← hm'def] at hm' hρ ⊢
  have hb : |x - m'| ≤ 67 / 32 * M := by have := abs_sub x m'; linarith
  have hda : |fl (x - m) - (x - m)| ≤ u * (67 / 32 * M) := fl_err_le _ _ ha
  have hd : |fl (x - m)| ≤ 69 / 32 * M := by have := abs_fl_le64 hu _ _ ha; linarith
  have hd2b : |fl (x - m') - (x - m')| ≤ u * (67 / 32 * M) := fl_err_le _ _ hb
  have hd2 : |fl (x - m')| ≤ 69 / 32 * M := by have := abs_fl_le64 hu _ _ hb; linarith
  have hacc := acc_core hu s (x - m) (x - m') (fl (x - m)) (fl (x - m')) Sb _ _ _ _ _
    hs hda hd hb hd2b hd2
  have hmm : |m + m'| ≤ 35 / 16 * M := by have := abs_add_le m m'; linarith
  have hρm : |(c * (m' - m) - (x - m)) * (m + m')| ≤ u * ((9 / 2 + 10 / 9 * c) * M) * (35 / 16 * M) :=
    abs_mul_le_mul hρ hmm
  have e : fl (s + fl (fl (x - m) * fl (x - m'))) - s - (x ^ 2 - c * m' ^ 2 + (c - 1) * m ^ 2)
      = (fl (s + fl (fl (x - m) * fl (x - m'))) - s - (x - m) * (x - m'))
        + (c * (m' - m) - (x - m)) * (m + m') := by ring
  rw [e]
  have := abs_add_le (fl (s + fl (fl (x - m) * fl (x - m'))) - s - (x - m) * (x - m'))
    ((c * (m' - m) - (x - m)) * (m + m'))
  have hM2 : 0 ≤ M ^ 2 := sq_nonneg M
  have hW : 0 ≤ u * M ^ 2 := mul_nonneg hu0 hM2
  have hcW : 0 ≤ (c - 1) * (u * M ^ 2) := mul_nonneg (by linarith) hW
  have key : u * (Sb + 129 / 64 * (69 / 32 * M * (69 / 32 * M)) + 67 / 32 * M * (67 / 32 * M)
        + 69 / 32 * M * (67 / 32 * M)) + u * ((9 / 2 + 10 / 9 * c) * M) * (35 / 16 * M)
      ≤ u * (Sb + (58 + 5 / 2 * c) * M ^ 2) := by
    have e2 : u * (Sb + (58 + 5 / 2 * c) * M ^ 2)
        - (u * (Sb + 129 / 64 * (69 / 32 * M * (69 / 32 * M)) + 67 / 32 * M * (67 / 32 * M)
          + 69 / 32 * M * (67 / 32 * M)) + u * ((9 / 2 + 10 / 9 * c) * M) * (35 / 16 * M))
        = (58 + 5 / 2 - 129 / 64 * (69 / 32 * (69 / 32)) - 67 / 32 * (67 / 32) - 69 / 32 * (67 / 32)
            - (9 / 2 + 10 / 9) * (35 / 16)) * (u * M ^ 2)
          + (5 / 2 - 10 / 9 * (35 / 16)) * ((c - 1) * (u * M ^ 2)) := by ring
    have n1 : (0 : K) ≤ 58 + 5 / 2 - 129 / 64 * (69 / 32 * (69 / 32)) - 67 / 32 * (67 / 32)
        - 69 / 32 * (67 / 32) - (9 / 2 + 10 / 9) * (35 / 16) := by norm_num
    have n2 : (0 : K) ≤ 5 / 2 - 10 / 9 * (35 / 16) := by norm_num
    linarith [mul_nonneg n1 hW, mul_nonneg n2 hcW]
  linarith

/-- **one sliding update of `m2`, seen through the invariant quantity.**
    `m` = stored mean, `s` = stored `m2`, `o` = evicted value, `c` = period. -/
theorem z_slide (hu : (u : K) ≤ 1 / 64) (x o m s c M Sb : K) (hM : 0 ≤ M) (hc : 1 ≤ c)
    (hx : |x| ≤ M) (ho : |o| ≤ M) (hm : |m| ≤ 35 / 32 * M)
    (hm' : |fl (m + fl (fl (x - o) / c))| ≤ 35 / 32 * M) (hs : |s| ≤ Sb) :
    |fl (s + fl (fl (x - o) * fl (fl (fl (x - fl (m + fl (fl (x - o) / c))) + o) - m))) - s
        - (x ^ 2 - o ^ 2 - c * fl (m + fl (fl (x - o) / c)) ^ 2 + c * m ^ 2)|
      ≤ u * (Sb + (58 + 5 / 2 * c) * M ^ 2) := by
  have hu0 : (0 : K) ≤ u := u_nonneg
  have ha2 : |x - o| ≤ 2 * M := by have := abs_sub x o; linarith
  have ha : |x - o| ≤ 67 / 32 * M := by linarith
  have hρ := rho_bound hu m (x - o) c M hc hM ha hm'
  obtain ⟨m', hm'def⟩ : ∃ m', m' = fl (m + fl (fl (x - o) / c)) := ⟨_, rfl⟩
  rw [← hm'def] at hm' hρ ⊢
  obtain ⟨hd2b, hd2, hb⟩ := d2_slide hu x o m m' M hM hx ho hm hm'
  have hda : |fl (x - o) - (x - o)| ≤ u * (2 * M) := fl_err_le _ _ ha2
  have hd : |fl (x - o)| ≤ 65 / 32 * M := by have := abs_fl_le64 hu _ _ ha2; linarith
  have hacc := acc_core hu s (x - o) (x - m' + o - m) (fl (x - o)) (fl (fl (fl (x - m') + o) - m))
    Sb _ _ _ _ _ hs hda hd hb hd2b hd2
  have hmm : |m + m'| ≤ 35 / 16 * M := by have := abs_add_le m m'; linarith
  have hρm : |(c * (m' - m) - (x - o)) * (m + m')| ≤ u * ((9 / 2 + 10 / 9 * c) * M) * (35 / 16 * M) :=
    abs_mul_le_mul hρ hmm
  have e : fl (s + fl (fl (x - o) * fl (fl (fl (x - m') + o) - m))) - s
        - (x ^ 2 - o ^ 2 - c * m' ^ 2 + c * m ^ 2)
      = (fl (s + fl (fl (x - o) * fl (fl (fl (x - m') + o) - m))) - s - (x - o) * (x - m' + o - m))
        + (c * (m' - m) - (x - o)) * (m + m') := by ring
  rw [e]
  have := abs_add_le (fl (s + fl (fl (x - o) * fl (fl (fl (x - m') + o) - m))) - s
      - (x - o) * (x - m' + o - m)) ((c * (m' - m) - (x - o)) * (m + m'))
  have hM2 : 0 ≤ M ^ 2 := sq_nonneg M
  have hW : 0 ≤ u * M ^ 2 := mul_nonneg hu0 hM2
  have hcW : 0 ≤ (c - 1) * (u * M ^ 2) := mul_nonneg (by linarith) hW
  have key : u * (Sb + 129 / 64 * (65 / 32 * M * (139 / 32 * M)) + 2 * M * (134 / 32 * M)
        + 65 / 32 * M * (10 * M)) + u * ((9 / 2 + 10 / 9 * c) * M) * (35 / 16 * M)
      ≤ u * (Sb + (58 + 5 / 2 * c) * M ^ 2) := by
    have e2 : u * (Sb + (58 + 5 / 2 * c) * M ^ 2)
        - (u * (Sb + 129 / 64 * (65 / 32 * M * (139 / 32 * M)) + 2 * M * (134 / 32 * M)
          + 65 / 32 * M * (10 * M)) + u * ((9 / 2 + 10 / 9 * c) * M) * (35 / 16 * M))
        = (58 + 5 / 2 - 129 / 64 * (65 / 32 * (139 / 32)) - 2 * (134 / 32) - 65 / 32 * 10
            - (9 / 2 + 10 / 9) * (35 / 16)) * (u * M ^ 2)
          + (5 / 2 - 10 / 9 * (35 / 16)) * ((c - 1) * (u * M ^ 2)) := by ring
    have n1 : (0 : K) ≤ 58 + 5 / 2 - 129 / 64 * (65 / 32 * (139 / 32)) - 2 * (134 / 32) - 65 / 32 * 10
        - (9 / 2 + 10 / 9) * (35 / 16) := by norm_num
    have n2 : (0 : K) ≤ 5 / 2 - 10 / 9 * (35 / 16) := by norm_num
    linarith [mul_nonneg n1 hW, mul_nonneg n2 hcW]
  linarith

/-- the invariant quantity after one step: old bound `64·k·c₀·u·M²` plus the step's rounding
    errors stays below `64·(k+1)·c·u·M²` -/
theorem z_finish (Z Δ k1 c0 c M : K) (hk1 : 0 ≤ k1) (hc0 : 0 ≤ c0) (hc0c : c0 ≤ c) (hc : 1 ≤ c)
    (hku : k1 * u ≤ 1 / 64) (hZ : |Z| ≤ 64 * k1 * c0 * u * M ^ 2)
    (hΔ : |Δ| ≤ u * ((64 * k1 * c0 * u * M ^ 2 + c0 * (35 / 32 * M) ^ 2) + (58 + 5 / 2 * c) * M ^ 2)) :
    |Z + Δ| ≤ 64 * (k1 + 1) * c * u * M ^ 2 := by
  have hu0 : (0 : K) ≤ u := u_nonneg
  have hW : 0 ≤ u * M ^ 2 := mul_nonneg hu0 (sq_nonneg M)
  have h1 := abs_add_le Z Δ
  have t1 : 64 * k1 * c0 * u * M ^ 2 ≤ 64 * k1 * c * u * M ^ 2 := by
    have : 0 ≤ 64 * k1 * (u * M ^ 2) := by positivity
    linarith [mul_le_mul_of_nonneg_left hc0c this]
  have t2 : u * (64 * k1 * c0 * u * M ^ 2) ≤ c * (u * M ^ 2) := by
    have h64 : 64 * (k1 * u) ≤ 1 := by linarith
    have hcw : 0 ≤ c0 * (u * M ^ 2) := mul_nonneg hc0 hW
    have : 64 * (k1 * u) * (c0 * (u * M ^ 2)) ≤ 1 * (c0 * (u * M ^ 2)) :=
      mul_le_mul_of_nonneg_right h64 hcw
    have h3 : c0 * (u * M ^ 2) ≤ c * (u * M ^ 2) := mul_le_mul_of_nonneg_right hc0c hW
    linarith
  have t3 : u * (c0 * (35 / 32 * M) ^ 2) ≤ 1225 / 1024 * (c * (u * M ^ 2)) := by
    have h3 : c0 * (u * M ^ 2) ≤ c * (u * M ^ 2) := mul_le_mul_of_nonneg_right hc0c hW
    linarith
  have t4 : u * ((58 + 5 / 2 * c) * M ^ 2) ≤ (58 + 5 / 2) * (c * (u * M ^ 2)) := by
    have : 0 ≤ (c - 1) * (u * M ^ 2) := mul_nonneg (by linarith) hW
    linarith
  have hcW : 0 ≤ c * (u * M ^ 2) := mul_nonneg (by linarith) hW
  have hsum : u * ((64 * k1 * c0 * u * M ^ 2 + c0 * (35 / 32 * M) ^ 2) + (58 + 5 / 2 * c) * M ^ 2)
      = u * (64 * k1 * c0 * u * M ^ 2) + u * (c0 * (35 / 32 * M) ^ 2) + u * ((58 + 5 / 2 * c) * M ^ 2) := by
    ring
  rw [hsum] at hΔ
  have fin : 64 * (k1 + 1) * c * u * M ^ 2 = 64 * k1 * c * u * M ^ 2 + 64 * (c * (u * M ^ 2)) := by ring
  rw [fin]
  linarith

/-- `|m² − μ²| ≤ (201/16)·k·u·M²` when `|m − μ| ≤ 6·k·u·M`, `|μ| ≤ M`, `k·u ≤ 1/64` -/
theorem sq_diff_bound (m μ k M : K) (hM : 0 ≤ M) (hku : k * u ≤ 1 / 64)
    (he : |m - μ| ≤ 6 * k * u * M) (hμ : |μ| ≤ M) : |m ^ 2 - μ ^ 2| ≤ 201 / 16 * k * u * M ^ 2 := by
  have hsm := err_small k M hM hku
  have h1 : |m + μ| ≤ 67 / 32 * M := by
    have e : m + μ = (m - μ) + (μ + μ) := by ring
    rw [e]
    have := abs_add_le (m - μ) (μ + μ)
    have := abs_add_le μ μ
    linarith
  have e : m ^ 2 - μ ^ 2 = (m - μ) * (m + μ) := by ring
  rw [e]
  have := abs_mul_le_mul he h1
  have e2 : 6 * k * u * M * (67 / 32 * M) = 201 / 16 * k * u * M ^ 2 := by ring
  linarith

end Arith

/-! ## Abstraction invariant and the one-step lemma for the generated code -/

variable [Rounding K]

theorem lt_zero_eq (a : R K) : Scalar.lt a (Scalar.lit 0 0 : R K) = decide (a.v < 0) := by
  rw [R.lit_zero]; rfl

/-- the `m2` accumulator before the clamp, as a value of `K` -/
theorem nextM2Raw_v (s : StandardDeviation (R K)) (x v : R K) :
    (StandardDeviation.nextM2Raw s x v).v =
      if s.count < s.period then
        fl (s.m2.v + fl (fl (x.v - s.m.v) * fl (x.v - (StandardDeviation.nextM s x v).v)))
      else
        fl (s.m2.v + fl (fl (x.v - v.v)
          * fl (fl (fl (x.v - (StandardDeviation.nextM s x v).v) + v.v) - s.m.v))) := by
  unfold StandardDeviation.nextM2Raw
  split <;> simp

/-- the `m2` accumulator after the clamp, as a value of `K` -/
theorem nextM2_v (s : StandardDeviation (R K)) (x v : R K) :
    (StandardDeviation.nextM2 s x v).v =
      if (StandardDeviation.nextM2Raw s x v).v < 0 then 0 else (StandardDeviation.nextM2Raw s x v).v := by
  unfold StandardDeviation.nextM2
  rw [lt_zero_eq]
  by_cases h : (StandardDeviation.nextM2Raw s x v).v < 0 <;> simp [h]

/-- the clamp of the generated code never increases the distance of `m2` to a non-negative
    reference value `S` (e.g. the exact sum of squared deviations) -/
theorem nextM2_towards (s : StandardDeviation (R K)) (x v : R K) (S : K) (hS : 0 ≤ S) :
    |(StandardDeviation.nextM2 s x v).v - S| ≤ |(StandardDeviation.nextM2Raw s x v).v - S| := by
  rw [nextM2_v]; exact clamp_towards _ S hS

/-- **The variance accumulator never becomes negative**: whatever state (well-formed or not)
    and whatever input, if the generated `next` returns then the stored `m2` is `≥ 0`. -/
theorem m2_nonneg_always (s : StandardDeviation (R K)) (x : R K) (r : StandardDeviation (R K) × R K)
    (h : s.next x = some r) : 0 ≤ r.1.m2.v := by
  have h0 : Scalar.lt (Scalar.lit 0 0 : R K) (Scalar.lit 0 0) = false := by
    rw [lt_zero_eq, R.lit_zero]; simp
  have := StandardDeviation.next_m2_not_negative h0 s x r h
  rw [lt_zero_eq] at this
  exact not_lt.mp (by simpa using this)

/-- abstraction relation for the variance: the mean invariant of `SDMean.lean`, `0 ≤ m2`, and
    the quantity `Z = m2 − (Σ_window x² − count·m²)` (which an exactly computed step leaves
    unchanged, whatever the stored mean `m` is) is at most `64·k·min(k,n)·u·M²`, `k = |h|`. -/
structure VInv (n : Nat) (M : K) (s : StandardDeviation (R K)) (h : List K) : Prop where
  mean : MInv n M s h
  nn : 0 ≤ s.m2.v
  z : |s.m2.v - (sumsq (lastN n h) - ((min h.length n : Nat) : K) * s.m.v ^ 2)|
        ≤ 64 * (h.length : K) * ((min h.length n : Nat) : K) * u * M ^ 2

theorem vinv_fresh (n : Nat) (M : K) (hn : 0 < n) (h8 : n * 8 ≤ isizeMax) :
    VInv n M (StandardDeviation.fresh n : StandardDeviation (R K)) [] := by
  refine ⟨inv_fresh n M hn h8, ?_, ?_⟩
  · simp [StandardDeviation.fresh]
  · simp [StandardDeviation.fresh, lastN, sumsq]

/-- bound on the stored `m2` implied by the invariant -/
theorem abs_m2_le (s Q c0 m k M : K) (hc0 : 0 ≤ c0) (hQ0 : 0 ≤ Q) (hQ : Q ≤ c0 * M ^ 2)
    (hm : |m| ≤ 35 / 32 * M) (hz : |s - (Q - c0 * m ^ 2)| ≤ 64 * k * c0 * u * M ^ 2) :
    |s| ≤ 64 * k * c0 * u * M ^ 2 + c0 * (35 / 32 * M) ^ 2 := by
  have hm2 : m ^ 2 ≤ (35 / 32 * M) ^ 2 := by
    rw [← sq_abs m]; exact pow_le_pow_left₀ (abs_nonneg m) hm 2
  have h1 : c0 * m ^ 2 ≤ c0 * (35 / 32 * M) ^ 2 := mul_le_mul_of_nonneg_left hm2 hc0
  have h2 : 0 ≤ c0 * m ^ 2 := mul_nonneg hc0 (sq_nonneg m)
  have h3 : c0 * M ^ 2 ≤ c0 * (35 / 32 * M) ^ 2 := by
    have : M ^ 2 ≤ (35 / 32 * M) ^ 2 := by linarith [sq_nonneg M]
    exact mul_le_mul_of_nonneg_left this hc0
  have h4 : |Q - c0 * m ^ 2| ≤ c0 * (35 / 32 * M) ^ 2 := abs_le.mpr ⟨by linarith, by linarith⟩
  have e : s = (s - (Q - c0 * m ^ 2)) + (Q - c0 * m ^ 2) := by ring
  rw [e]
  have := abs_add_le (s - (Q - c0 * m ^ 2)) (Q - c0 * m ^ 2)
  linarith

/-- One call of the generated `next` on a state related to history `h`: it succeeds, the new
    state is related to `h ++ [x]`, and the value returned is (the model's placeholder `sqrt`
    of) the rounded quotient `fl (m2 / count)`. -/
theorem vstep {n : Nat} {M : K} {s : StandardDeviation (R K)} {h : List K} (i : VInv n M s h)
    (hh : ∀ a ∈ h, |a| ≤ M) (x : K) (hx : |x| ≤ M)
    (hu : ((h.length + 1 : Nat) : K) * u ≤ 1 / 64) :
    ∃ s' y, s.next (R.mk x) = some (s', y) ∧ VInv n M s' (h ++ [x]) ∧
      y.v = fl (s'.m2.v / ((min (h.length + 1) n : Nat) : K)) := by
  obtain ⟨s', y, e, i', hm', hm2', hcnt', hy⟩ := step i.mean hh x hx hu
  have hn := i.mean.ring.npos
  have hM : 0 ≤ M := le_trans (abs_nonneg _) hx
  have hu0 : (0 : K) ≤ u := u_nonneg
  have hk1 : ((h.length : K) + 1) * u ≤ 1 / 64 := by simpa using hu
  have hk0 : (h.length : K) * u ≤ 1 / 64 := by linarith
  have hu64 : (u : K) ≤ 1 / 64 := by
    have := mul_nonneg (Nat.cast_nonneg (α := K) h.length) hu0
    linarith
  have hh' : ∀ a ∈ h ++ [x], |a| ≤ M := by
    intro a ha
    rcases List.mem_append.mp ha with h1 | h1
    · exact hh a h1
    · simp at h1; rw [h1]; exact hx
  -- the stored means, old and new
  have hmb : |s.m.v| ≤ 35 / 32 * M := by
    have := inv_abs_m i.mean hM hh
    have := err_small (h.length : K) M hM hk0
    linarith
  have hlen' : ((h ++ [x]).length : K) = (h.length : K) + 1 := by simp
  have hmb' : |s'.m.v| ≤ 35 / 32 * M := by
    have h1 := inv_abs_m i' hM hh'
    rw [hlen'] at h1
    have := err_small ((h.length : K) + 1) M hM hk1
    linarith
  have hper : s.period = n := i.mean.period
  have hcnt : s.count = min h.length n := inv_count i.mean
  -- exact quantities
  have hQ' : sumsq (lastN n (h ++ [x])) = sumsq (lastN n h) - evicted n h ^ 2 + x ^ 2 := by
    rw [sumsq_snoc n hn, ← sumsq_sub_evicted n hn]
  have hQ0 := sumsq_nonneg (lastN n h)
  have hQ : sumsq (lastN n h) ≤ ((min h.length n : Nat) : K) * M ^ 2 := by
    have := sumsq_le (lastN n h) M (fun a ha => hh a (mem_lastN _ _ _ ha))
    rwa [lastN_length] at this
  have hSb := abs_m2_le s.m2.v _ _ s.m.v (h.length : K) M (Nat.cast_nonneg _) hQ0 hQ hmb i.z
  have hev := abs_evicted_le n h M hM hh
  have hc0c : ((min h.length n : Nat) : K) ≤ ((min (h.length + 1) n : Nat) : K) := by
    exact_mod_cast (by omega : min h.length n ≤ min (h.length + 1) n)
  have hc1 : (1 : K) ≤ ((min (h.length + 1) n : Nat) : K) := by
    exact_mod_cast (by omega : 1 ≤ min (h.length + 1) n)
  -- the raw accumulator against the invariant quantity
  have hraw : |(StandardDeviation.nextM2Raw s (R.mk x) (R.mk (evicted n h))).v
        - (sumsq (lastN n (h ++ [x])) - ((min (h.length + 1) n : Nat) : K) * s'.m.v ^ 2)|
      ≤ 64 * ((h.length : K) + 1) * ((min (h.length + 1) n : Nat) : K) * u * M ^ 2 := by
    have hz := i.z
    rw [hQ', nextM2Raw_v]
    rw [hm', nextM_v] at hmb' ⊢
    simp only [hper, hcnt] at hmb' ⊢
    by_cases hl : h.length < n
    · -- warming up
      have hmin0 : min h.length n = h.length := by omega
      have hmin1 : min (h.length + 1) n = h.length + 1 := by omega
      have hev0 : evicted n h = 0 := by unfold evicted; rw [if_pos hl]
      simp only [hmin0, hmin1] at hmb' hSb hc0c hc1 hz ⊢
      simp only [if_pos hl] at hmb' ⊢
      rw [hev0]
      have hΔ := z_warm hu64 x s.m.v s.m2.v ((h.length + 1 : Nat) : K) M _ hM hc1 hx hmb hmb' hSb
      have hfin := z_finish _ _ (h.length : K) (h.length : K) ((h.length + 1 : Nat) : K) M
        (Nat.cast_nonneg _) (Nat.cast_nonneg _) hc0c hc1 hk0 hz hΔ
      refine le_trans (le_of_eq ?_) hfin
      congr 1
      push_cast
      ring
    · -- sliding
      have hmin0 : min h.length n = n := by omega
      have hmin1 : min (h.length + 1) n = n := by omega
      simp only [hmin0, hmin1] at hmb' hSb hc0c hc1 hz ⊢
      simp only [lt_irrefl, if_false] at hmb' ⊢
      have hΔ := z_slide hu64 x (evicted n h) s.m.v s.m2.v (n : K) M _ hM hc1 hx hev hmb hmb' hSb
      have hfin := z_finish _ _ (h.length : K) (n : K) (n : K) M
        (Nat.cast_nonneg _) (Nat.cast_nonneg _) hc0c hc1 hk0 hz hΔ
      refine le_trans (le_of_eq ?_) hfin
      congr 1
      ring
  -- the reference value is not too negative
  have hT : -(64 * ((h.length : K) + 1) * ((min (h.length + 1) n : Nat) : K) * u * M ^ 2)
      ≤ sumsq (lastN n (h ++ [x])) - ((min (h.length + 1) n : Nat) : K) * s'.m.v ^ 2 := by
    have h1 := ssq_eq_sumsq (lastN n (h ++ [x]))
    have hl1 : (lastN n (h ++ [x])).length = min (h.length + 1) n := by rw [lastN_length]; simp
    rw [hl1] at h1
    have h2 := ssq_nonneg (lastN n (h ++ [x]))
    have hμ' : |mean (lastN n (h ++ [x]))| ≤ M :=
      abs_mean_le _ M hM (fun a ha => hh' a (mem_lastN _ _ _ ha))
    have herr' := i'.err
    rw [hlen'] at herr'
    have h3 := sq_diff_bound s'.m.v (mean (lastN n (h ++ [x]))) ((h.length : K) + 1) M hM
      hk1 herr' hμ'
    have h4 := (abs_le.mp h3).2
    have hc0 : (0 : K) ≤ ((min (h.length + 1) n : Nat) : K) := Nat.cast_nonneg _
    have h5 := mul_le_mul_of_nonneg_left h4 hc0
    have hW : 0 ≤ ((min (h.length + 1) n : Nat) : K) * (((h.length : K) + 1) * u * M ^ 2) := by positivity
    linarith
  refine ⟨s', y, e, ⟨i', ?_, ?_⟩, ?_⟩
  · rw [hm2', nextM2_v]; exact clamp_nonneg _
  · rw [hm2', nextM2_v]
    simp only [List.length_append, List.length_singleton]
    rw [Nat.cast_add, Nat.cast_one]
    exact clamp_err _ _ _ hraw hT
  · rw [hy, hcnt']; rfl

/-! ## What the invariant says about `m2` and the variance -/

/-- `m2` against the exact sum of squared deviations of the window -/
theorem vinv_m2_err {n : Nat} {M : K} {s : StandardDeviation (R K)} {h : List K} (i : VInv n M s h)
    (hM : 0 ≤ M) (hh : ∀ a ∈ h, |a| ≤ M) (hku : (h.length : K) * u ≤ 1 / 64) :
    |s.m2.v - ssq (lastN n h)|
      ≤ 77 * (h.length : K) * ((min h.length n : Nat) : K) * u * M ^ 2 := by
  have hu0 : (0 : K) ≤ u := u_nonneg
  have h1 := ssq_eq_sumsq (lastN n h)
  rw [lastN_length] at h1
  have hμ : |mean (lastN n h)| ≤ M :=
    abs_mean_le _ M hM (fun a ha => hh a (mem_lastN _ _ _ ha))
  have h3 := sq_diff_bound s.m.v (mean (lastN n h)) (h.length : K) M hM hku
    i.mean.err hμ
  have hc0 : (0 : K) ≤ ((min h.length n : Nat) : K) := Nat.cast_nonneg _
  have h4 : |((min h.length n : Nat) : K) * (s.m.v ^ 2 - mean (lastN n h) ^ 2)|
      ≤ ((min h.length n : Nat) : K) * (201 / 16 * (h.length : K) * u * M ^ 2) := by
    rw [abs_mul, abs_of_nonneg hc0]
    exact mul_le_mul_of_nonneg_left h3 hc0
  have e : s.m2.v - ssq (lastN n h)
      = (s.m2.v - (sumsq (lastN n h) - ((min h.length n : Nat) : K) * s.m.v ^ 2))
        + -(((min h.length n : Nat) : K) * (s.m.v ^ 2 - mean (lastN n h) ^ 2)) := by
    rw [h1]; ring
  rw [e]
  have := abs_add_le (s.m2.v - (sumsq (lastN n h) - ((min h.length n : Nat) : K) * s.m.v ^ 2))
    (-(((min h.length n : Nat) : K) * (s.m.v ^ 2 - mean (lastN n h) ^ 2)))
  rw [abs_neg] at this
  have hz := i.z
  have hW : 0 ≤ (h.length : K) * ((min h.length n : Nat) : K) * u * M ^ 2 := by positivity
  linarith

/-- the variance `m2/count` against the exact population variance of the window -/
theorem vinv_var_err {n : Nat} {M : K} {s : StandardDeviation (R K)} {h : List K} (i : VInv n M s h)
    (hM : 0 ≤ M) (hh : ∀ a ∈ h, |a| ≤ M) (hku : (h.length : K) * u ≤ 1 / 64) :
    |s.m2.v / ((min h.length n : Nat) : K) - var (lastN n h)| ≤ 77 * (h.length : K) * u * M ^ 2 := by
  have h1 := vinv_m2_err i hM hh hku
  rw [var_eq_ssq, lastN_length, ← sub_div]
  by_cases hc : min h.length n = 0
  · rw [hc]
    have : 0 ≤ 77 * (h.length : K) * u * M ^ 2 := by
      have hu0 : (0 : K) ≤ u := u_nonneg
      positivity
    simpa using this
  · have hc0 : (0 : K) < ((min h.length n : Nat) : K) := by
      exact_mod_cast Nat.pos_of_ne_zero hc
    rw [abs_div, abs_of_pos hc0, div_le_iff₀ hc0]
    linarith [h1]

/-- the value the generated `next` returns, `fl (m2/count)` (placeholder `sqrt`), against the
    exact population variance of the window; it is never negative -/
theorem vinv_out {n : Nat} {M : K} {s : StandardDeviation (R K)} {h : List K} (i : VInv n M s h)
    (hM : 0 ≤ M) (hh : ∀ a ∈ h, |a| ≤ M) (hku : (h.length : K) * u ≤ 1 / 64) :
    0 ≤ fl (s.m2.v / ((min h.length n : Nat) : K)) ∧
      |fl (s.m2.v / ((min h.length n : Nat) : K)) - var (lastN n h)|
        ≤ 77 * ((h.length : K) + 1) * u * M ^ 2 := by
  have hu0 : (0 : K) ≤ u := u_nonneg
  have h1 := vinv_var_err i hM hh hku
  have h2 : var (lastN n h) ≤ M ^ 2 := var_le _ M (fun a ha => hh a (mem_lastN _ _ _ ha))
  have h3 := var_nonneg (lastN n h)
  have hv0 : 0 ≤ s.m2.v / ((min h.length n : Nat) : K) := div_nonneg i.nn (Nat.cast_nonneg _)
  have hu64 : (u : K) ≤ 1 / 64 ∨ h.length = 0 := by
    rcases Nat.eq_zero_or_pos h.length with h0 | h0
    · exact Or.inr h0
    · left
      have : (1 : K) ≤ (h.length : K) := by exact_mod_cast h0
      linarith [mul_le_mul_of_nonneg_right this hu0]
  rcases hu64 with hu64 | h0
  · have hM2 : 0 ≤ M ^ 2 := sq_nonneg M
    have hsm : 77 * (h.length : K) * u * M ^ 2 ≤ 77 / 64 * M ^ 2 := by
      have := mul_le_mul_of_nonneg_right hku hM2
      linarith
    have hv : |s.m2.v / ((min h.length n : Nat) : K)| ≤ 141 / 64 * M ^ 2 := by
      rw [abs_of_nonneg hv0]
      have := (abs_le.mp h1).2
      linarith
    have he := fl_err_le _ _ hv
    have hb := fl_bounds (s.m2.v / ((min h.length n : Nat) : K))
    rw [abs_of_nonneg hv0] at hb
    constructor
    · have : 0 ≤ (1 - u) * (s.m2.v / ((min h.length n : Nat) : K)) :=
        mul_nonneg (by linarith) hv0
      linarith [hb.1]
    · have e : fl (s.m2.v / ((min h.length n : Nat) : K)) - var (lastN n h)
          = (fl (s.m2.v / ((min h.length n : Nat) : K)) - s.m2.v / ((min h.length n : Nat) : K))
            + (s.m2.v / ((min h.length n : Nat) : K) - var (lastN n h)) := by ring
      rw [e]
      have := abs_add_le
        (fl (s.m2.v / ((min h.length n : Nat) : K)) - s.m2.v / ((min h.length n : Nat) : K))
        (s.m2.v / ((min h.length n : Nat) : K) - var (lastN n h))
      have hW : 0 ≤ u * M ^ 2 := mul_nonneg hu0 hM2
      linarith
  · have hnil : h = [] := List.length_eq_zero_iff.mp h0
    subst hnil
    have : 0 ≤ 77 * ((0 : K) + 1) * u * M ^ 2 := by positivity
    simpa [lastN, var, fl_zero] using this

/-! ## Whole streams -/

/-- from `new(n)`: every call succeeds, the final state satisfies the invariant for the whole
    stream and every returned value is within the bound at its prefix -/
theorem run_vinv (n : Nat) (hn : 0 < n) (h8 : n * 8 ≤ isizeMax) (M : K) (xs : List K)
    (hM : ∀ x ∈ xs, |x| ≤ M) (ht : (xs.length : K) * u ≤ 1 / 64) :
    ∃ s' ys, runOut StandardDeviation.next (StandardDeviation.fresh n : StandardDeviation (R K))
        (xs.map R.mk) = some (s', ys) ∧ VInv n M s' xs ∧
      List.Forall₂ (fun (y : R K) (p : List K) =>
          0 ≤ y.v ∧ |y.v - var (lastN n p)| ≤ 77 * ((p.length : K) + 1) * u * M ^ 2)
        ys (prefixes xs) := by
  obtain ⟨s', ys, e, i, b⟩ := run_hist StandardDeviation.next R.mk (VInv n M) (Guard M)
    (fun (y : R K) (p : List K) =>
      0 ≤ y.v ∧ |y.v - var (lastN n p)| ≤ 77 * ((p.length : K) + 1) * u * M ^ 2)
    (guard_mono M)
    (by
      intro s h x i g
      obtain ⟨hh, hx, hu⟩ := guard_snoc g
      obtain ⟨s', y, e, i', hy⟩ := vstep i hh x hx hu
      refine ⟨s', y, e, i', ?_⟩
      have hM0 : 0 ≤ M := le_trans (abs_nonneg _) hx
      have := vinv_out i' hM0 g.1 g.2
      simp only [List.length_append, List.length_singleton] at this
      rw [hy]
      simpa using this)
    xs [] _ (vinv_fresh n M hn h8) (by rw [List.nil_append]; exact ⟨hM, ht⟩)
  exact ⟨s', ys, e, by simpa using i, by simpa using b⟩

/-- **StandardDeviation variance rounding-error theorem** (standard model; generated code).
    For every period `n ≥ 1` (accepted by `new`: `n·8 ≤ isize::MAX`), every bound `M`, every
    stream `xs` whose entries satisfy `|x| ≤ M` and whose length `t` satisfies `t·u ≤ 1/64`:
    feeding `xs` to the state `new(n)` builds never panics, and in the final state, with
    `W` = the last `min(t,n)` entries of `xs` (the current window),
    * the accumulator is not negative: `0 ≤ m2`;
    * the running mean: `|m − mean W| ≤ 6·t·u·M`;
    * the accumulator: `|m2 − Σ_{x∈W} (x − mean W)²| ≤ 77·t·min(t,n)·u·M²`;
    * the variance: `|m2/min(t,n) − var W| ≤ 77·t·u·M²`  (independent of `n`).
    (Apply it to a prefix of the stream for the state after that prefix.) -/
theorem sd_var_rounding (n : Nat) (hn : 0 < n) (h8 : n * 8 ≤ isizeMax) (M : K) (xs : List K)
    (hM : ∀ x ∈ xs, |x| ≤ M) (ht : (xs.length : K) * u ≤ 1 / 64) :
    ∃ s' ys, runOut StandardDeviation.next (StandardDeviation.fresh n : StandardDeviation (R K))
        (xs.map R.mk) = some (s', ys) ∧
      0 ≤ s'.m2.v ∧
      |s'.m.v - mean (lastN n xs)| ≤ 6 * (xs.length : K) * u * M ∧
      |s'.m2.v - ssq (lastN n xs)|
        ≤ 77 * (xs.length : K) * ((min xs.length n : Nat) : K) * u * M ^ 2 ∧
      |s'.m2.v / ((min xs.length n : Nat) : K) - var (lastN n xs)|
        ≤ 77 * (xs.length : K) * u * M ^ 2 := by
  obtain ⟨s', ys, e, i, _⟩ := run_vinv n hn h8 M xs hM ht
  refine ⟨s', ys, e, i.nn, i.mean.err, ?_, ?_⟩
  · by_cases hx : xs = []
    · subst hx
      have := i.z
      simpa [lastN, ssq, sumsq] using this
    · obtain ⟨a, ha⟩ := List.exists_mem_of_ne_nil xs hx
      exact vinv_m2_err i (le_trans (abs_nonneg _) (hM a ha)) hM ht
  · by_cases hx : xs = []
    · subst hx
      simp [lastN, var]
    · obtain ⟨a, ha⟩ := List.exists_mem_of_ne_nil xs hx
      exact vinv_var_err i (le_trans (abs_nonneg _) (hM a ha)) hM ht

/-- **StandardDeviation output rounding-error theorem** (standard model; generated code).
    Same hypotheses.  The value `y` returned by the generated `next` after the prefix `p` of
    `xs` — in this model the rounded radicand `fl (m2/count)`, because the model's `sqrt` is the
    identity placeholder — is not negative and satisfies
    `|y − var (last min(|p|,n) entries of p)| ≤ 77·(|p|+1)·u·M²`. -/
theorem sd_out_rounding (n : Nat) (hn : 0 < n) (h8 : n * 8 ≤ isizeMax) (M : K) (xs : List K)
    (hM : ∀ x ∈ xs, |x| ≤ M) (ht : (xs.length : K) * u ≤ 1 / 64) :
    ∃ s' ys, runOut StandardDeviation.next (StandardDeviation.fresh n : StandardDeviation (R K))
        (xs.map R.mk) = some (s', ys) ∧
      List.Forall₂ (fun (y : R K) (p : List K) =>
          0 ≤ y.v ∧ |y.v - var (lastN n p)| ≤ 77 * ((p.length : K) + 1) * u * M ^ 2)
        ys (prefixes xs) := by
  obtain ⟨s', ys, e, _, b⟩ := run_vinv n hn h8 M xs hM ht
  exact ⟨s', ys, e, b⟩

end TaRs.Round.SDVar
