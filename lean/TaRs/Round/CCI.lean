/-
  Layer R, CommodityChannelIndex: rounding-error statement for the GENERATED `nextBar` under the
  standard model of floating-point arithmetic (`TaRs/Round/Model.lean`), obtained by COMPOSING the
  SMA and MAD theorems of this layer through the L0 wiring lemma `nextBar_wiring`.

  `cci_rounding`: for every period `n ≥ 1`, every stream of bars whose COMPUTED typical prices
  are bounded by `M`, of length `k` with `k·u ≤ 1/64`: the generated CCI never panics, and its last
  output is

        0                                          if d = 0
        fl( fl(tp − a) / fl(d · fl(0.015)) )       otherwise

  where `a` is within `3(k+1)·u·M` of the exact mean and `d` within `(5k + 2·min(k,n) + 10)·u·M` of
  the exact mean absolute deviation of exactly the last `min(k,n)` computed typical prices.
  `quot_err` turns such component bounds into a bound on the quotient: with numerator error `EN`,
  denominator error `ED ≤ D0/2`, `|N/D − N0/D0| ≤ 2·EN/D0 + 2·|N0/D0|·ED/D0` — the error of the
  reading is the component drift divided by the exact denominator `0.015·MAD` (the condition
  number of the property's wording), and it is unbounded as the window flattens (known finding
  CommodityChannelIndex:neutral-residue lives exactly there).
-/
import TaRs.Round.Model
import TaRs.Round.SMA
import TaRs.Round.MAD
import TaRs.Lemmas.CommodityChannelIndex
import TaRs.Lemmas.Machine
import TaRs.Spec.Window
import Mathlib.Tactic.NormNum
import Mathlib.Tactic.Ring
import Mathlib.Tactic.Linarith
import Mathlib.Tactic.Positivity
set_option linter.unusedSectionVars false
set_option linter.unusedSimpArgs false
namespace TaRs.Round.CCI
open TaRs TaRs.Rs TaRs.Spec TaRs.Gen TaRs.Gen.CommodityChannelIndex Rounding

variable {K : Type} [Field K] [LinearOrder K] [IsStrictOrderedRing K] [Rounding K]

/-- computed typical price of a bar -/
def tpR (b : Bar (R K)) : K := (tp b).v

/-- both components related to the same history of computed typical prices -/
structure Inv (n : Nat) (M : K) (s : CommodityChannelIndex (R K)) (h : List K) : Prop where
  sma : SMA.Inv n M s.sma h
  mad : MAD.Inv n M s.mad h

theorem inv_fresh (n : Nat) (M : K) (hn : 0 < n) (h8 : n * 8 ≤ isizeMax) :
    Inv n M (fresh n : CommodityChannelIndex (R K)) [] :=
  ⟨SMA.inv_fresh n M hn h8, MAD.inv_fresh n M hn h8⟩

/-- the value the generated code returns, given the two component outputs -/
def cciOut (t a d : K) : K :=
  if d = 0 then 0 else fl (fl (t - a) / fl (d * fl ((15 : K) / 10 ^ 3)))

/-- One call of the generated `nextBar`: never panics, both components advance on the computed
    typical price, and the output is `cciOut tp a d` with `a`, `d` within the SMA / MAD bounds of
    the exact window mean / mean absolute deviation. -/
theorem step {n : Nat} {M : K} {s : CommodityChannelIndex (R K)} {h : List K} (i : Inv n M s h)
    (hh : ∀ a ∈ h, |a| ≤ M) (b : Bar (R K)) (hx : |tpR b| ≤ M)
    (hu : ((h.length + 1 : Nat) : K) * u ≤ 1 / 64) :
    ∃ s' y a d, s.nextBar b = some (s', y) ∧ Inv n M s' (h ++ [tpR b]) ∧
      |a - mean (lastN n (h ++ [tpR b]))| ≤ 3 * (((h.length + 1 : Nat) : K) + 1) * u * M ∧
      |d - mad (lastN n (h ++ [tpR b]))|
        ≤ (5 * ((h.length + 1 : Nat) : K) + 2 * ((min (h.length + 1) n : Nat) : K) + 10) * u * M ∧
      y.v = cciOut (tpR b) a d := by
  have hu8 : ((h.length + 1 : Nat) : K) * u ≤ 1 / 8 := le_trans hu (by norm_num)
  obtain ⟨sma', a, e1, i1, b1⟩ := SMA.step i.sma hh (tpR b) hx hu8
  obtain ⟨mad', d, e2, i2, b2⟩ := MAD.step i.mad hh (tpR b) hx hu
  have e1' : s.sma.next (tp b) = some (sma', a) := e1
  have e2' : s.mad.next (tp b) = some (mad', d) := e2
  refine ⟨_, _, a.v, d.v, nextBar_wiring s b sma' a mad' d e1' e2', ⟨i1, i2⟩, b1, b2, ?_⟩
  unfold cciOut
  by_cases hd : d.v = 0
  · have hb : Scalar.beq d (Scalar.lit 0 0 : R K) = true := by
      rw [R.lit_zero]
      show decide (d.v = 0) = true
      simp [hd]
    simp only [hb, if_true, hd]
    rw [R.lit_zero]
  · have hb : Scalar.beq d (Scalar.lit 0 0 : R K) = false := by
      rw [R.lit_zero]
      show decide (d.v = 0) = false
      simp [hd]
    simp only [hb, hd, if_false, Bool.false_eq_true]
    rfl

/-- a run of bars from a related state: never panics, the final state is related to the
    extended history -/
theorem run_from (n : Nat) (M : K) (bs : List (Bar (R K))) (hb : ∀ b ∈ bs, |tpR b| ≤ M) :
    ∀ (s : CommodityChannelIndex (R K)) (h : List K), Inv n M s h → (∀ a ∈ h, |a| ≤ M) →
      ((h.length + bs.length : Nat) : K) * u ≤ 1 / 64 →
      ∃ s' outs, runOut nextBar s bs = some (s', outs) ∧ Inv n M s' (h ++ bs.map tpR) := by
  induction bs with
  | nil => intro s h i _ _; exact ⟨s, [], rfl, by simpa using i⟩
  | cons y ys ih =>
    intro s h i hh hu
    have hu0 : (0 : K) ≤ u := u_nonneg
    have hy := hb y (by simp)
    have hu1 : ((h.length + 1 : Nat) : K) * u ≤ 1 / 64 := by
      refine le_trans (mul_le_mul_of_nonneg_right ?_ hu0) hu
      exact_mod_cast (by simp : h.length + 1 ≤ h.length + (y :: ys).length)
    obtain ⟨s1, o1, _, _, e1, i1, _⟩ := step i hh y hy hu1
    have hh1 : ∀ a ∈ h ++ [tpR y], |a| ≤ M := by
      intro a ha
      rcases List.mem_append.mp ha with ha | ha
      · exact hh a ha
      · simp at ha; rw [ha]; exact hy
    have hu2 : (((h ++ [tpR y]).length + ys.length : Nat) : K) * u ≤ 1 / 64 := by
      have : (h ++ [tpR y]).length + ys.length = h.length + (y :: ys).length := by simp; omega
      rw [this]; exact hu
    obtain ⟨s2, o2, e2, i2⟩ := ih (fun b hb' => hb b (by simp [hb'])) s1 _ i1 hh1 hu2
    refine ⟨s2, o1 :: o2, ?_, by simpa using i2⟩
    rw [runOut_cons nextBar s y _ s1 o1 e1, e2]; rfl

/-- **CCI rounding theorem** (standard model; generated code; composition of the SMA and MAD
    theorems): after every stream `bs ++ [bl]` of `k` bars whose computed typical prices are
    bounded by `M`, `k·u ≤ 1/64`, the generated CCI has not panicked and its last output is
    `cciOut tp a d` with `a` within `3(k+1)·u·M` of the exact mean and `d` within
    `(5k + 2·min(k,n) + 10)·u·M` of the exact mean absolute deviation of exactly the last
    `min(k,n)` computed typical prices. -/
theorem cci_rounding (n : Nat) (hn : 0 < n) (h8 : n * 8 ≤ isizeMax) (M : K)
    (bs : List (Bar (R K))) (bl : Bar (R K)) (hb : ∀ b ∈ bs ++ [bl], |tpR b| ≤ M)
    (ht : (((bs ++ [bl]).length : Nat) : K) * u ≤ 1 / 64) :
    ∃ s' outs y a d, runOut nextBar (fresh n : CommodityChannelIndex (R K)) (bs ++ [bl]) = some (s', outs ++ [y]) ∧
      |a - mean (lastN n ((bs ++ [bl]).map tpR))| ≤ 3 * ((((bs ++ [bl]).length : Nat) : K) + 1) * u * M ∧
      |d - mad (lastN n ((bs ++ [bl]).map tpR))|
        ≤ (5 * (((bs ++ [bl]).length : Nat) : K) + 2 * ((min (bs ++ [bl]).length n : Nat) : K) + 10) * u * M ∧
      y.v = cciOut (tpR bl) a d := by
  have hu0 : (0 : K) ≤ u := u_nonneg
  have ht' : ((([] : List K).length + bs.length : Nat) : K) * u ≤ 1 / 64 := by
    refine le_trans (mul_le_mul_of_nonneg_right ?_ hu0) ht
    exact_mod_cast (by simp : ([] : List K).length + bs.length ≤ (bs ++ [bl]).length)
  obtain ⟨sm, om, em, im⟩ := run_from n M bs (fun b hb' => hb b (by simp [hb'])) _ [] (inv_fresh n M hn h8) (by simp) ht'
  have hmem : ∀ a ∈ ([] ++ bs.map tpR), |a| ≤ M := by
    intro a ha
    simp only [List.nil_append, List.mem_map] at ha
    obtain ⟨b, hb', rfl⟩ := ha
    exact hb b (by simp [hb'])
  have hul : ((([] ++ bs.map tpR).length + 1 : Nat) : K) * u ≤ 1 / 64 := by
    have : ([] ++ bs.map tpR).length + 1 = (bs ++ [bl]).length := by simp
    rw [this]; exact ht
  obtain ⟨sl, y, a, d, el, _, ba, bd, hy⟩ := step im hmem bl (hb bl (by simp)) hul
  refine ⟨sl, om, y, a, d, ?_, ?_, ?_, hy⟩
  · rw [runOut_append, em]
    simp [runOut, el]
  · have e : [] ++ bs.map tpR ++ [tpR bl] = (bs ++ [bl]).map tpR := by simp
    have l : ([] ++ bs.map tpR).length + 1 = (bs ++ [bl]).length := by simp
    rw [e, l] at ba
    exact ba
  · have e : [] ++ bs.map tpR ++ [tpR bl] = (bs ++ [bl]).map tpR := by simp
    have l : ([] ++ bs.map tpR).length + 1 = (bs ++ [bl]).length := by simp
    rw [e, l] at bd
    exact bd

/-! ## From the components to the quotient -/

/-- perturbed numerator and denominator: with `|N − N0| ≤ EN`, `|D − D0| ≤ ED`, `0 < D0` and
    `2·ED ≤ D0`, the quotient moves by at most `2·EN/D0 + 2·|N0/D0|·ED/D0` -/
theorem quot_err (N D N0 D0 EN ED : K) (hD0 : 0 < D0) (hN : |N - N0| ≤ EN) (hD : |D - D0| ≤ ED)
    (hED : 2 * ED ≤ D0) :
    |N / D - N0 / D0| ≤ 2 * EN / D0 + 2 * |N0 / D0| * ED / D0 := by
  have hEN : 0 ≤ EN := le_trans (abs_nonneg _) hN
  have hED0 : 0 ≤ ED := le_trans (abs_nonneg _) hD
  have hD' := abs_le.mp hD
  have hDpos : D0 / 2 ≤ D := by linarith [hD'.1]
  have hD1 : 0 < D := by linarith
  have e : N / D - N0 / D0 = ((N - N0) * D0 - N0 * (D - D0)) / (D * D0) := by
    rw [div_sub_div _ _ (ne_of_gt hD1) (ne_of_gt hD0)]
    congr 1
    ring
  have hnum : |(N - N0) * D0 - N0 * (D - D0)| ≤ EN * D0 + |N0| * ED := by
    have a1 : |(N - N0) * D0| ≤ EN * D0 := by
      rw [abs_mul, abs_of_pos hD0]; exact mul_le_mul_of_nonneg_right hN (le_of_lt hD0)
    have a2 : |N0 * (D - D0)| ≤ |N0| * ED := by
      rw [abs_mul]; exact mul_le_mul_of_nonneg_left hD (abs_nonneg _)
    have := abs_sub ((N - N0) * D0) (N0 * (D - D0))
    linarith
  have hq : |N0 / D0| = |N0| / D0 := by rw [abs_div, abs_of_pos hD0]
  rw [e, abs_div, abs_of_pos (mul_pos hD1 hD0), div_le_iff₀ (mul_pos hD1 hD0), hq]
  have h1 : (2 * EN / D0 + 2 * (|N0| / D0) * ED / D0) * (D * D0) = (2 * EN + 2 * |N0| * ED / D0) * D := by
    field_simp
  rw [h1]
  have h2 : (EN + |N0| * ED / D0) * D0 ≤ (2 * EN + 2 * |N0| * ED / D0) * D := by
    have hnn : 0 ≤ EN + |N0| * ED / D0 :=
      add_nonneg hEN (div_nonneg (mul_nonneg (abs_nonneg _) hED0) (le_of_lt hD0))
    have h2' : (EN + |N0| * ED / D0) * (D0 / 2) ≤ (EN + |N0| * ED / D0) * D :=
      mul_le_mul_of_nonneg_left hDpos hnn
    have e2 : (2 * EN + 2 * |N0| * ED / D0) * D = 2 * ((EN + |N0| * ED / D0) * D) := by ring
    have e3 : (EN + |N0| * ED / D0) * D0 = 2 * ((EN + |N0| * ED / D0) * (D0 / 2)) := by ring
    rw [e2, e3]
    linarith
  have h3 : (EN + |N0| * ED / D0) * D0 = EN * D0 + |N0| * ED := by
    field_simp
  linarith

end TaRs.Round.CCI
