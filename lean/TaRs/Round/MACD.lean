/-
  Layer R, MovingAverageConvergenceDivergence: rounding-error bounds for the GENERATED `next`
  under the standard model of floating-point arithmetic (`TaRs/Round/Model.lean`; trusted
  assumption: every operation is the exact one followed by a rounding `fl` with
  `|fl x − x| ≤ u·|x|`, i.e. no overflow / underflow).

  Reference (exact arithmetic, exact `α = 2/(n+1)`, `emaSeqK` of TaRs/Round/EMA.lean):
      line_k   = EMA_nf(x)_k − EMA_ns(x)_k                      (`macdLineK`)
      signal_k = EMA_ng(line)_k                                 (`macdSignalK`)
      hist_k   = line_k − signal_k                              (`macdHistK`)

  Main theorem `macd_rounding`: periods `nf, ns, ng ≥ 1` with `(n+1)·u ≤ 1/64` for each of them,
  every stream with `|x| ≤ M` (ANY length): the generated code never panics and, with
  `Nf = nf+1`, `Ns = ns+1`, `Ng = ng+1`,

      |macd_k   − line_k|     ≤ C1·u·M,   C1 = 6·Nf + 6·Ns + 3
      |sig_k − signal_k|      ≤ C2·u·M,   C2 = 14·Ng + C1          = 14·Ng + 6·Nf + 6·Ns + 3
      |histogram_k − hist_k|  ≤ C3·u·M,   C3 = C1 + C2 + 5         = 14·Ng + 12·Nf + 12·Ns + 11

  How the constants arise: each EMA is within `6·N·u·M` of its exact value (`ema_rounding`);
  the subtraction adds one rounding of a quantity of size ≤ 2M + small (`3·u·M`).  The signal
  EMA is fed a line that is already off by `ε = C1·u·M` from the exact line (which is bounded by
  `2M`): `ema_pert_spec` gives `6·Ng·u·(2M + ε) + ε ≤ (14·Ng + C1)·u·M`.  The histogram is one
  more rounded subtraction of quantities of size ≤ 2M each.
  The statements are about the generated definitions through the L0 theorem
  `Props.C02.macd_stream` at `F = R K`.
-/
import TaRs.Round.EMAPert
set_option linter.unusedSectionVars false
namespace TaRs.Round.MACD
open TaRs TaRs.Rs TaRs.Gen Rounding TaRs.Round.EMA

variable {K : Type} [Field K] [LinearOrder K] [IsStrictOrderedRing K]

/-! ## The reference -/

/-- exact MACD line: `EMA_nf(x) − EMA_ns(x)`, exact arithmetic, exact `α` -/
def macdLineK (nf ns : Nat) (xs : List K) : List K :=
  List.zipWith (fun a b => a - b) (emaSeqK (2 / ((nf : K) + 1)) xs) (emaSeqK (2 / ((ns : K) + 1)) xs)

/-- exact signal line: `EMA_ng` of the exact MACD line -/
def macdSignalK (nf ns ng : Nat) (xs : List K) : List K :=
  emaSeqK (2 / ((ng : K) + 1)) (macdLineK nf ns xs)

/-- exact histogram: exact line − exact signal -/
def macdHistK (nf ns ng : Nat) (xs : List K) : List K :=
  List.zipWith (fun a b => a - b) (macdLineK nf ns xs) (macdSignalK nf ns ng xs)

theorem macdLineK_length (nf ns : Nat) (xs : List K) : (macdLineK nf ns xs).length = xs.length := by
  simp [macdLineK, emaSeqK_length']

theorem macdSignalK_length (nf ns ng : Nat) (xs : List K) :
    (macdSignalK nf ns ng xs).length = xs.length := by
  simp [macdSignalK, emaSeqK_length', macdLineK_length]

theorem macdHistK_length (nf ns ng : Nat) (xs : List K) :
    (macdHistK nf ns ng xs).length = xs.length := by
  simp [macdHistK, macdSignalK_length, macdLineK_length]

/-! ## Arithmetic cores -/
section Arith
variable [Rounding K]

/-- MACD line: `fl (fast − slow)` against `Fast − Slow` -/
theorem line_err (Nf Ns f s F S M : K) (hNf : Nf * u ≤ 1 / 64) (hNs : Ns * u ≤ 1 / 64)
    (hf : |f - F| ≤ 6 * Nf * u * M) (hs : |s - S| ≤ 6 * Ns * u * M) (hF : |F| ≤ M) (hS : |S| ≤ M) :
    |fl (f - s) - (F - S)| ≤ (6 * Nf + 6 * Ns + 3) * u * M := by
  have hu0 : (0 : K) ≤ u := u_nonneg
  have hM : 0 ≤ M := le_trans (abs_nonneg _) hF
  have huM : 0 ≤ u * M := mul_nonneg hu0 hM
  have h := sub_err f s F S _ _ M M hf hs hF hS
  refine le_trans h ?_
  have e1 : u * (6 * Nf * u * M) = 6 * (Nf * u) * (u * M) := by ring
  have e2 : u * (6 * Ns * u * M) = 6 * (Ns * u) * (u * M) := by ring
  have b1 : (Nf * u) * (u * M) ≤ 1 / 64 * (u * M) := mul_le_mul_of_nonneg_right hNf huM
  have b2 : (Ns * u) * (u * M) ≤ 1 / 64 * (u * M) := mul_le_mul_of_nonneg_right hNs huM
  have ex : u * (M + M + 6 * Nf * u * M + 6 * Ns * u * M)
      = 2 * (u * M) + u * (6 * Nf * u * M) + u * (6 * Ns * u * M) := by ring
  rw [ex, e1, e2]
  have et : (6 * Nf + 6 * Ns + 3) * u * M = 6 * Nf * u * M + 6 * Ns * u * M + 3 * (u * M) := by ring
  rw [et]
  linarith

/-- the bound delivered by `ema_pert_spec` for the signal line, simplified to `C2·u·M` -/
theorem signal_const (Nf Ns Ng M : K) (hM : 0 ≤ M) (h2f : 2 ≤ Nf) (h2g : 2 ≤ Ng)
    (hNf : Nf * u ≤ 1 / 64) (hNs : Ns * u ≤ 1 / 64) (hNg : Ng * u ≤ 1 / 64) :
    6 * Ng * u * (2 * M + (6 * Nf + 6 * Ns + 3) * u * M) + (6 * Nf + 6 * Ns + 3) * u * M
      ≤ (14 * Ng + (6 * Nf + 6 * Ns + 3)) * u * M := by
  have hu0 : (0 : K) ≤ u := u_nonneg
  have hu : (u : K) ≤ 1 / 128 := by nlinarith
  have hC : (6 * Nf + 6 * Ns + 3) * u ≤ 1 / 4 := by
    have : (6 * Nf + 6 * Ns + 3) * u = 6 * (Nf * u) + 6 * (Ns * u) + 3 * u := by ring
    rw [this]; linarith
  have hg0 : 0 ≤ 6 * Ng * u * M := by
    have : (0 : K) ≤ Ng := by linarith
    positivity
  have h1 : 6 * Ng * u * M * ((6 * Nf + 6 * Ns + 3) * u) ≤ 6 * Ng * u * M * (1 / 4) :=
    mul_le_mul_of_nonneg_left hC hg0
  have e : 6 * Ng * u * (2 * M + (6 * Nf + 6 * Ns + 3) * u * M) + (6 * Nf + 6 * Ns + 3) * u * M
      = 12 * Ng * u * M + 6 * Ng * u * M * ((6 * Nf + 6 * Ns + 3) * u)
        + (6 * Nf + 6 * Ns + 3) * u * M := by ring
  have e' : (14 * Ng + (6 * Nf + 6 * Ns + 3)) * u * M
      = 12 * Ng * u * M + 6 * Ng * u * M * (1 / 3) + (6 * Nf + 6 * Ns + 3) * u * M := by ring
  rw [e, e']
  have : 6 * Ng * u * M * (1 / 4) ≤ 6 * Ng * u * M * (1 / 3) :=
    mul_le_mul_of_nonneg_left (by norm_num) hg0
  linarith

/-- histogram: `fl (line − signal)` against `Line − Signal`, both exact quantities ≤ 2M -/
theorem hist_err (Nf Ns Ng m g L G M : K) (h2f : 2 ≤ Nf) (h2s : 2 ≤ Ns) (h2g : 2 ≤ Ng)
    (hNf : Nf * u ≤ 1 / 64) (hNs : Ns * u ≤ 1 / 64) (hNg : Ng * u ≤ 1 / 64)
    (hm : |m - L| ≤ (6 * Nf + 6 * Ns + 3) * u * M)
    (hg : |g - G| ≤ (14 * Ng + (6 * Nf + 6 * Ns + 3)) * u * M)
    (hL : |L| ≤ 2 * M) (hG : |G| ≤ 2 * M) :
    |fl (m - g) - (L - G)| ≤ (14 * Ng + 12 * Nf + 12 * Ns + 11) * u * M := by
  have hu0 : (0 : K) ≤ u := u_nonneg
  have hu : (u : K) ≤ 1 / 128 := by nlinarith
  have hM : 0 ≤ M := by
    have := le_trans (abs_nonneg _) hL
    linarith
  have huM : 0 ≤ u * M := mul_nonneg hu0 hM
  have h := sub_err m g L G _ _ _ _ hm hg hL hG
  refine le_trans h ?_
  have hS : (14 * Ng + 12 * Nf + 12 * Ns + 6) * u ≤ 1 := by
    have : (14 * Ng + 12 * Nf + 12 * Ns + 6) * u
        = 14 * (Ng * u) + 12 * (Nf * u) + 12 * (Ns * u) + 6 * u := by ring
    rw [this]; linarith
  have h1 : (14 * Ng + 12 * Nf + 12 * Ns + 6) * u * (u * M) ≤ 1 * (u * M) :=
    mul_le_mul_of_nonneg_right hS huM
  have e : u * (2 * M + 2 * M + (6 * Nf + 6 * Ns + 3) * u * M
        + (14 * Ng + (6 * Nf + 6 * Ns + 3)) * u * M)
      + (6 * Nf + 6 * Ns + 3) * u * M + (14 * Ng + (6 * Nf + 6 * Ns + 3)) * u * M
      = 4 * (u * M) + (14 * Ng + 12 * Nf + 12 * Ns + 6) * u * (u * M)
        + (14 * Ng + 12 * Nf + 12 * Ns + 6) * (u * M) := by ring
  have e' : (14 * Ng + 12 * Nf + 12 * Ns + 11) * u * M
      = 5 * (u * M) + (14 * Ng + 12 * Nf + 12 * Ns + 6) * (u * M) := by ring
  rw [e, e']
  linarith

end Arith

/-! ## The generated code -/

variable [Rounding K]

/-- the MACD line the code computes (C02 specification term at `F = R K`) -/
def lineR (nf ns : Nat) (xs : List (R K)) : List (R K) :=
  List.zipWith Scalar.sub (Props.C02.emaSeq (Props.C02.alpha nf) xs)
    (Props.C02.emaSeq (Props.C02.alpha ns) xs)

/-- the signal line the code computes (C02 specification term at `F = R K`) -/
def sigR (nf ns ng : Nat) (xs : List (R K)) : List (R K) :=
  Props.C02.emaSeq (Props.C02.alpha ng) (lineR nf ns xs)

/-- `Props.C02.macd_stream` at `F = R K`, with the lets named -/
theorem macd_stream_R (nf ns ng : Nat) (xs : List (R K)) :
    ∃ s', runOut MovingAverageConvergenceDivergence.next
        (MovingAverageConvergenceDivergence.fresh nf ns ng) xs =
      some (s', List.zipWith
        (fun m g => ({ macd := m, signal := g, histogram := Scalar.sub m g } :
          MovingAverageConvergenceDivergenceOutput (R K)))
        (lineR nf ns xs) (sigR nf ns ng xs)) :=
  Props.C02.macd_stream (F := R K) nf ns ng xs

theorem lineR_length (nf ns : Nat) (xs : List (R K)) : (lineR nf ns xs).length = xs.length := by
  simp [lineR, Props.C02.emaSeq_length]

theorem sigR_length (nf ns ng : Nat) (xs : List (R K)) : (sigR nf ns ng xs).length = xs.length := by
  simp [sigR, Props.C02.emaSeq_length, lineR_length]

theorem two_le_succ (n : Nat) (hn : 0 < n) : (2 : K) ≤ (n : K) + 1 := by
  have : (1 : K) ≤ n := by exact_mod_cast hn
  linarith

/-- exact EMA outputs bounded by `M` -/
theorem emaK_bound (n : Nat) (hn : 0 < n) (M : K) (xs : List K) (hM : ∀ x ∈ xs, |x| ≤ M) :
    ∀ w ∈ emaSeqK (2 / ((n : K) + 1)) xs, |w| ≤ M := by
  obtain ⟨ha0, ha1, _, _⟩ := period_facts (K := K) n hn
  exact emaSeqK_bound _ M ha0.le ha1 xs hM

/-- the exact MACD line is bounded by `2M` -/
theorem macdLineK_bound (nf ns : Nat) (hnf : 0 < nf) (hns : 0 < ns) (M : K) (xs : List K)
    (hM : ∀ x ∈ xs, |x| ≤ M) : ∀ w ∈ macdLineK nf ns xs, |w| ≤ 2 * M := by
  refine forall_mem_zipWith (P := fun a => |a| ≤ M) (Q := fun b => |b| ≤ M) ?_ _ _
    (emaK_bound nf hnf M xs hM) (emaK_bound ns hns M xs hM)
  intro a b ha hb
  have := abs_sub a b
  linarith

/-- the exact signal line is bounded by `2M` -/
theorem macdSignalK_bound (nf ns ng : Nat) (hnf : 0 < nf) (hns : 0 < ns) (hng : 0 < ng) (M : K)
    (xs : List K) (hM : ∀ x ∈ xs, |x| ≤ M) : ∀ w ∈ macdSignalK nf ns ng xs, |w| ≤ 2 * M :=
  emaK_bound ng hng (2 * M) _ (macdLineK_bound nf ns hnf hns M xs hM)

/-- MACD line: within `(6·Nf + 6·Ns + 3)·u·M` of the exact line -/
theorem line_bound (nf ns : Nat) (hnf : 0 < nf) (hns : 0 < ns) (M : K) (xs : List K)
    (hM : ∀ x ∈ xs, |x| ≤ M)
    (hf : ((nf : K) + 1) * u ≤ 1 / 64) (hs : ((ns : K) + 1) * u ≤ 1 / 64) :
    List.Forall₂ (fun (y : R K) (z : K) =>
        |y.v - z| ≤ (6 * ((nf : K) + 1) + 6 * ((ns : K) + 1) + 3) * u * M)
      (lineR nf ns (xs.map R.mk)) (macdLineK nf ns xs) := by
  have hF := forall₂_and_right (ema_rounding_spec nf hnf M xs hM hf) (emaK_bound nf hnf M xs hM)
  have hS := forall₂_and_right (ema_rounding_spec ns hns M xs hM hs) (emaK_bound ns hns M xs hM)
  refine forall₂_zipWith ?_ hF hS
  intro a b c d hab hcd
  rw [R.sub_v]
  exact line_err _ _ _ _ _ _ M hf hs hab.1 hcd.1 hab.2 hcd.2

/-- signal line: within `(14·Ng + 6·Nf + 6·Ns + 3)·u·M` of the exact signal line -/
theorem signal_bound (nf ns ng : Nat) (hnf : 0 < nf) (hns : 0 < ns) (hng : 0 < ng) (M : K)
    (xs : List K) (hM : ∀ x ∈ xs, |x| ≤ M)
    (hf : ((nf : K) + 1) * u ≤ 1 / 64) (hs : ((ns : K) + 1) * u ≤ 1 / 64)
    (hg : ((ng : K) + 1) * u ≤ 1 / 64) :
    List.Forall₂ (fun (y : R K) (z : K) =>
        |y.v - z| ≤ (14 * ((ng : K) + 1) + (6 * ((nf : K) + 1) + 6 * ((ns : K) + 1) + 3)) * u * M)
      (sigR nf ns ng (xs.map R.mk)) (macdSignalK nf ns ng xs) := by
  cases xs with
  | nil => exact List.Forall₂.nil
  | cons x xs =>
    have hM0 : 0 ≤ M := le_trans (abs_nonneg _) (hM x (by simp))
    have hl := line_bound nf ns hnf hns M (x :: xs) hM hf hs
    have h := ema_pert_spec ng hng (2 * M) _ _ _ hl (macdLineK_bound nf ns hnf hns M _ hM) hg
    refine h.imp ?_
    intro y z hyz
    exact le_trans hyz
      (signal_const _ _ _ M hM0 (two_le_succ nf hnf) (two_le_succ ng hng) hf hs hg)

/-- histogram: within `(14·Ng + 12·Nf + 12·Ns + 11)·u·M` of the exact histogram -/
theorem hist_bound (nf ns ng : Nat) (hnf : 0 < nf) (hns : 0 < ns) (hng : 0 < ng) (M : K)
    (xs : List K) (hM : ∀ x ∈ xs, |x| ≤ M)
    (hf : ((nf : K) + 1) * u ≤ 1 / 64) (hs : ((ns : K) + 1) * u ≤ 1 / 64)
    (hg : ((ng : K) + 1) * u ≤ 1 / 64) :
    List.Forall₂ (fun (y : R K) (z : K) =>
        |y.v - z| ≤ (14 * ((ng : K) + 1) + 12 * ((nf : K) + 1) + 12 * ((ns : K) + 1) + 11) * u * M)
      (List.zipWith Scalar.sub (lineR nf ns (xs.map R.mk)) (sigR nf ns ng (xs.map R.mk)))
      (macdHistK nf ns ng xs) := by
  have hL := forall₂_and_right (line_bound nf ns hnf hns M xs hM hf hs)
    (macdLineK_bound nf ns hnf hns M xs hM)
  have hG := forall₂_and_right (signal_bound nf ns ng hnf hns hng M xs hM hf hs hg)
    (macdSignalK_bound nf ns ng hnf hns hng M xs hM)
  refine forall₂_zipWith ?_ hL hG
  intro a b c d hab hcd
  rw [R.sub_v]
  exact hist_err _ _ _ _ _ _ _ M (two_le_succ nf hnf) (two_le_succ ns hns) (two_le_succ ng hng)
    hf hs hg hab.1 hcd.1 hab.2 hcd.2

/-- **MACD rounding-error theorem** (standard model; generated code).
    Periods `nf, ns, ng ≥ 1` (fast, slow, signal) with `(n+1)·u ≤ 1/64` for each of the three;
    any bound `M` and any stream `xs` (of any length) with `|x| ≤ M`.  Feeding `xs` to the state
    that `new(nf, ns, ng)` builds never panics, and for every output triple
      * the MACD line is within `(6·(nf+1) + 6·(ns+1) + 3)·u·M` of `EMA_nf(x) − EMA_ns(x)`,
      * the signal is within `(14·(ng+1) + 6·(nf+1) + 6·(ns+1) + 3)·u·M` of `EMA_ng` of that
        exact line,
      * the histogram is within `(14·(ng+1) + 12·(nf+1) + 12·(ns+1) + 11)·u·M` of
        exact line − exact signal,
    where every EMA on the reference side is the documented recursion in EXACT arithmetic with
    the exact `α = 2/(n+1)`.  The bounds do not depend on the stream length. -/
theorem macd_rounding (nf ns ng : Nat) (hnf : 0 < nf) (hns : 0 < ns) (hng : 0 < ng) (M : K)
    (xs : List K) (hM : ∀ x ∈ xs, |x| ≤ M)
    (hf : ((nf : K) + 1) * u ≤ 1 / 64) (hs : ((ns : K) + 1) * u ≤ 1 / 64)
    (hg : ((ng : K) + 1) * u ≤ 1 / 64) :
    ∃ s' ys, runOut MovingAverageConvergenceDivergence.next
        (MovingAverageConvergenceDivergence.fresh nf ns ng :
          MovingAverageConvergenceDivergence (R K)) (xs.map R.mk) = some (s', ys) ∧
      List.Forall₂ (fun (y : R K) (z : K) =>
          |y.v - z| ≤ (6 * ((nf : K) + 1) + 6 * ((ns : K) + 1) + 3) * u * M)
        (ys.map (·.macd)) (macdLineK nf ns xs) ∧
      List.Forall₂ (fun (y : R K) (z : K) =>
          |y.v - z| ≤ (14 * ((ng : K) + 1) + (6 * ((nf : K) + 1) + 6 * ((ns : K) + 1) + 3)) * u * M)
        (ys.map (·.signal)) (macdSignalK nf ns ng xs) ∧
      List.Forall₂ (fun (y : R K) (z : K) =>
          |y.v - z| ≤ (14 * ((ng : K) + 1) + 12 * ((nf : K) + 1) + 12 * ((ns : K) + 1) + 11) * u * M)
        (ys.map (·.histogram)) (macdHistK nf ns ng xs) := by
  obtain ⟨s', h⟩ := macd_stream_R (K := K) nf ns ng (xs.map R.mk)
  have hlen : (lineR nf ns (xs.map R.mk)).length = (sigR nf ns ng (xs.map R.mk)).length := by
    rw [lineR_length, sigR_length]
  refine ⟨s', _, h, ?_, ?_, ?_⟩
  · rw [map_zipWith_left (fun _ _ => rfl) _ _ hlen]
    exact line_bound nf ns hnf hns M xs hM hf hs
  · rw [map_zipWith_right (fun _ _ => rfl) _ _ hlen]
    exact signal_bound nf ns ng hnf hns hng M xs hM hf hs hg
  · rw [List.map_zipWith]
    exact hist_bound nf ns ng hnf hns hng M xs hM hf hs hg

/-- the same, indexed: for every position `k` (0-based) the `k`-th output triple exists and its
    three components are within the three bounds of the `k`-th exact values -/
theorem macd_rounding_get (nf ns ng : Nat) (hnf : 0 < nf) (hns : 0 < ns) (hng : 0 < ng) (M : K)
    (xs : List K) (hM : ∀ x ∈ xs, |x| ≤ M)
    (hf : ((nf : K) + 1) * u ≤ 1 / 64) (hs : ((ns : K) + 1) * u ≤ 1 / 64)
    (hg : ((ng : K) + 1) * u ≤ 1 / 64) :
    ∃ s' ys, runOut MovingAverageConvergenceDivergence.next
        (MovingAverageConvergenceDivergence.fresh nf ns ng :
          MovingAverageConvergenceDivergence (R K)) (xs.map R.mk) = some (s', ys) ∧
      ys.length = xs.length ∧
      ∀ k (hk : k < ys.length) (hk1 : k < (macdLineK nf ns xs).length)
        (hk2 : k < (macdSignalK nf ns ng xs).length) (hk3 : k < (macdHistK nf ns ng xs).length),
        |(ys[k]).macd.v - (macdLineK nf ns xs)[k]|
            ≤ (6 * ((nf : K) + 1) + 6 * ((ns : K) + 1) + 3) * u * M ∧
        |(ys[k]).signal.v - (macdSignalK nf ns ng xs)[k]|
            ≤ (14 * ((ng : K) + 1) + (6 * ((nf : K) + 1) + 6 * ((ns : K) + 1) + 3)) * u * M ∧
        |(ys[k]).histogram.v - (macdHistK nf ns ng xs)[k]|
            ≤ (14 * ((ng : K) + 1) + 12 * ((nf : K) + 1) + 12 * ((ns : K) + 1) + 11) * u * M := by
  obtain ⟨s', ys, e, b1, b2, b3⟩ := macd_rounding nf ns ng hnf hns hng M xs hM hf hs hg
  have hl : ys.length = xs.length := by
    have := b1.length_eq
    rw [List.length_map, macdLineK_length] at this
    exact this
  refine ⟨s', ys, e, hl, ?_⟩
  intro k hk hk1 hk2 hk3
  have g1 := List.Forall₂.get b1 (by simpa using hk) hk1
  have g2 := List.Forall₂.get b2 (by simpa using hk) hk2
  have g3 := List.Forall₂.get b3 (by simpa using hk) hk3
  simp only [List.get_eq_getElem, List.getElem_map] at g1 g2 g3
  exact ⟨g1, g2, g3⟩

end TaRs.Round.MACD
