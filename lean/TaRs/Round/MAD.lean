/-
  Layer R, MeanAbsoluteDeviation: rounding-error bound for the GENERATED `next` under the
  standard model of floating-point arithmetic (`TaRs/Round/Model.lean`; trusted assumption:
  every operation is the exact one followed by a rounding `fl` with `|fl x − x| ≤ u·|x|`,
  i.e. no overflow / underflow).

  Main theorem `mad_rounding`: for every period `n ≥ 1`, every stream `xs` with `|x| ≤ M`, of
  length `t` with `t·u ≤ 1/64`, the generated MAD never panics and its `k`-th output `y_k`
  (k = 1..t, window length `c = min(k,n)`) satisfies

        |y_k − mad (last c inputs)| ≤ (5·k + 2·c + 10)·u·M   ( ≤ (7·k + 10)·u·M ).

  Two sources of error: (1) the running `sum` (`(sum + x) − old`) keeps the rounding errors of
  all previous steps for ever, so the mean the deviations are taken about drifts linearly in
  `k` (as for SMA; constant 4 instead of 3 because the addition comes first); (2) the
  deviation loop `mad += |v − mean|` is evaluated from scratch at every call: one rounding per
  subtraction and one per partial sum, `≈ (c+3)·u·M` after the final division.  No hypothesis
  on `n·u` is needed (`c ≤ k`).

  Proof: abstraction invariant `Inv` (ring buffer tracked exactly with `RingInv`;
  `|sum − Σ window| ≤ 4·k·c·u·M`), error analysis of the fold (`dev_fold`, invariant
  `|acc_j − Σ_{i<j}|v_i − μ|| ≤ 17/16·j·(η + (j+1)·u·M)`, `η` = error of one deviation), the
  sum of deviations does not depend on the storage order (`RingInv.take_cnt_perm`), a one-step
  lemma obtained from the normal form `next_eq` of the generated code, induction over the stream.
-/
import TaRs.Round.Model
import TaRs.Round.SMA
import TaRs.Lemmas.MeanAbsoluteDeviation
import TaRs.Lemmas.Ring
import TaRs.Lemmas.Machine
import TaRs.Spec.Window
import Mathlib.Algebra.Order.Group.Abs
import Mathlib.Tactic.NormNum
import Mathlib.Tactic.Ring
import Mathlib.Tactic.Linarith
import Mathlib.Tactic.Positivity
import Mathlib.Tactic.FieldSimp
set_option linter.unusedSectionVars false
namespace TaRs.Round.MAD
open TaRs TaRs.Rs TaRs.Spec TaRs.Gen TaRs.Gen.MeanAbsoluteDeviation Rounding

variable {K : Type} [Field K] [LinearOrder K] [IsStrictOrderedRing K]

/-! ## Arithmetic cores (pure inequalities about `fl`) -/

section Arith
variable [Rounding K]

/-- numeric part shared by the two updates of the running sum -/
theorem msum_numeric (k1 c0 c M : K) (hk1 : 0 ≤ k1) (hc0 : 0 ≤ c0) (hc0c : c0 ≤ c) (hc1 : 1 ≤ c)
    (hM : 0 ≤ M) (hku : (k1 + 1) * u ≤ 1 / 64) :
    4 * k1 * c0 * u * M * (1 + u) ^ 2 + u * M * ((c + 1) * (1 + u) + c) ≤ 4 * (k1 + 1) * c * u * M := by
  have hu : (0 : K) ≤ u := u_nonneg
  have hp : 0 ≤ k1 * u := mul_nonneg hk1 hu
  have hpu : k1 * u + u ≤ 1 / 64 := by linarith [hku, (by ring : (k1 + 1) * u = k1 * u + u)]
  have hmono : 4 * k1 * c0 * u * M * (1 + u) ^ 2 ≤ 4 * k1 * c * u * M * (1 + u) ^ 2 := by
    have h0 : 0 ≤ 4 * k1 * u * M * (1 + u) ^ 2 := by positivity
    have := mul_le_mul_of_nonneg_left hc0c h0
    calc _ = 4 * k1 * u * M * (1 + u) ^ 2 * c0 := by ring
      _ ≤ 4 * k1 * u * M * (1 + u) ^ 2 * c := this
      _ = _ := by ring
  -- 4c − [4 k1 c (2u+u²) + 2c + 1 + (c+1)u] = c(1 − 4p(2+u) − u) + (c − 1)(1 ... )
  have hq : 0 ≤ 1 - 4 * (k1 * u) * (2 + u) - 2 * u := by
    have h1 : 4 * (k1 * u) * (2 + u) ≤ 4 * (1 / 64) * (2 + 1 / 64) :=
      mul_le_mul (by linarith) (by linarith) (by linarith) (by norm_num)
    have : (4 * (1 / 64) * (2 + 1 / 64) : K) + 2 * (1 / 64) ≤ 1 := by norm_num
    linarith
  have ident : 4 * (k1 + 1) * c * u * M
      - (4 * k1 * c * u * M * (1 + u) ^ 2 + u * M * ((c + 1) * (1 + u) + c))
      = u * M * (c * (1 - 4 * (k1 * u) * (2 + u) - 2 * u) + (c - 1) * (1 + u)) := by ring
  have hnn : 0 ≤ u * M * (c * (1 - 4 * (k1 * u) * (2 + u) - 2 * u) + (c - 1) * (1 + u)) := by
    have h1 : 0 ≤ c * (1 - 4 * (k1 * u) * (2 + u) - 2 * u) := mul_nonneg (by linarith) hq
    have h2 : 0 ≤ (c - 1) * (1 + u) := mul_nonneg (by linarith) (by linarith)
    exact mul_nonneg (mul_nonneg hu hM) (by linarith)
  linarith

/-- sliding phase, one update of the running sum: `sum' = fl (fl (sum + x) − old)` where
    `sum = S + e` (`S` = exact window sum, `e` = accumulated error).
    `k1` = number of earlier inputs, `c0`/`c` = window length before/after the push. -/
theorem msum_step_full (S e x old M k1 c0 c : K)
    (hk1 : 0 ≤ k1) (hc0 : 0 ≤ c0) (hc0c : c0 ≤ c) (hc1 : 1 ≤ c)
    (hku : (k1 + 1) * u ≤ 1 / 64)
    (hS : |S| ≤ c0 * M) (hx : |x| ≤ M) (hS' : |S + x - old| ≤ c * M) (he : |e| ≤ 4 * k1 * c0 * u * M) :
    |fl (fl (S + e + x) - old) - (S + x - old)| ≤ 4 * (k1 + 1) * c * u * M := by
  have hu : (0 : K) ≤ u := u_nonneg
  have hM : 0 ≤ M := le_trans (abs_nonneg _) hx
  set E := 4 * k1 * c0 * u * M with hEdef
  have hE0 : 0 ≤ E := le_trans (abs_nonneg _) he
  have h1 : |fl (S + e + x) - (S + e + x)| ≤ u * ((c + 1) * M + E) := by
    refine fl_err_le _ _ ?_
    have := abs_add_le (S + e) x
    have := abs_add_le S e
    have : c0 * M ≤ c * M := mul_le_mul_of_nonneg_right hc0c hM
    linarith
  have h2a : |fl (S + e + x) - old| ≤ c * M + E + u * ((c + 1) * M + E) := by
    have e1 : fl (S + e + x) - old = (fl (S + e + x) - (S + e + x)) + ((S + x - old) + e) := by ring
    rw [e1]
    have := abs_add_le (fl (S + e + x) - (S + e + x)) ((S + x - old) + e)
    have := abs_add_le (S + x - old) e
    linarith
  have h2 := fl_err_le _ _ h2a
  have e2 : fl (fl (S + e + x) - old) - (S + x - old)
      = (fl (fl (S + e + x) - old) - (fl (S + e + x) - old)) + ((fl (S + e + x) - (S + e + x)) + e) := by ring
  rw [e2]
  have := abs_add_le (fl (fl (S + e + x) - old) - (fl (S + e + x) - old)) ((fl (S + e + x) - (S + e + x)) + e)
  have := abs_add_le (fl (S + e + x) - (S + e + x)) e
  have hnum := msum_numeric k1 c0 c M hk1 hc0 hc0c hc1 hM hku
  have ident : u * (c * M + E + u * ((c + 1) * M + E)) + (u * ((c + 1) * M + E) + E)
      = E * (1 + u) ^ 2 + u * M * ((c + 1) * (1 + u) + c) := by ring
  linarith

/-- warm-up phase, one update of the running sum: `sum' = fl (sum + x)` -/
theorem msum_step_warm (S e x M k1 c0 c : K)
    (hk1 : 0 ≤ k1) (hc0 : 0 ≤ c0) (hc0c : c0 ≤ c) (hc1 : 1 ≤ c)
    (hku : (k1 + 1) * u ≤ 1 / 64)
    (hx : |x| ≤ M) (hS' : |S + x| ≤ c * M) (he : |e| ≤ 4 * k1 * c0 * u * M) :
    |fl (S + e + x) - (S + x)| ≤ 4 * (k1 + 1) * c * u * M := by
  have hu : (0 : K) ≤ u := u_nonneg
  have hM : 0 ≤ M := le_trans (abs_nonneg _) hx
  set E := 4 * k1 * c0 * u * M with hEdef
  have hE0 : 0 ≤ E := le_trans (abs_nonneg _) he
  have h1 : |fl (S + e + x) - (S + e + x)| ≤ u * (c * M + E) := by
    refine fl_err_le _ _ ?_
    have e1 : S + e + x = (S + x) + e := by ring
    rw [e1]
    have := abs_add_le (S + x) e
    linarith
  have e2 : fl (S + e + x) - (S + x) = (fl (S + e + x) - (S + e + x)) + e := by ring
  rw [e2]
  have := abs_add_le (fl (S + e + x) - (S + e + x)) e
  have hnum := msum_numeric k1 c0 c M hk1 hc0 hc0c hc1 hM hku
  have ident : E * (1 + u) ^ 2 + u * M * ((c + 1) * (1 + u) + c) - (u * (c * M + E) + E)
      = E * u * (1 + u) + u * M * ((c + 1) * (1 + u)) := by ring
  have hpos : 0 ≤ E * u * (1 + u) + u * M * ((c + 1) * (1 + u)) := by
    have : (0 : K) ≤ c + 1 := by linarith
    positivity
  linarith

/-- the mean as computed, `fl (sum / count)`, against the exact mean `S / count` -/
theorem mean_step (s S M k c : K) (hk : 0 ≤ k) (hc1 : 1 ≤ c) (hM : 0 ≤ M)
    (hku : k * u ≤ 1 / 64) (hS : |S| ≤ c * M) (he : |s - S| ≤ 4 * k * c * u * M) :
    |fl (s / c) - S / c| ≤ 4 * (k + 1) * u * M := by
  have hu : (0 : K) ≤ u := u_nonneg
  have hc : 0 < c := by linarith
  have hp : 0 ≤ k * u := mul_nonneg hk hu
  have hs : |s| ≤ c * (M * (1 + 4 * (k * u))) := by
    have e1 : s = (s - S) + S := by ring
    have := abs_add_le (s - S) S
    rw [← e1] at this
    have e2 : c * (M * (1 + 4 * (k * u))) = c * M + 4 * k * c * u * M := by ring
    linarith
  have hq : |s / c| ≤ M * (1 + 4 * (k * u)) := by
    rw [abs_div, abs_of_pos hc, div_le_iff₀ hc]
    linarith
  have h1 : |fl (s / c) - s / c| ≤ u * (M * (1 + 4 * (k * u))) := fl_err_le _ _ hq
  have h2 : |s / c - S / c| ≤ 4 * (k * u) * M := by
    rw [← sub_div, abs_div, abs_of_pos hc, div_le_iff₀ hc]
    have : 4 * (k * u) * M * c = 4 * k * c * u * M := by ring
    linarith
  have e3 : fl (s / c) - S / c = (fl (s / c) - s / c) + (s / c - S / c) := by ring
  rw [e3]
  have h3 := abs_add_le (fl (s / c) - s / c) (s / c - S / c)
  have h4 : u * (M * (1 + 4 * (k * u))) + 4 * (k * u) * M ≤ 4 * (k + 1) * u * M := by
    have : 0 ≤ u * M * (3 - 4 * (k * u)) := mul_nonneg (mul_nonneg hu hM) (by linarith)
    nlinarith
  linarith

/-- error of ONE computed deviation `|fl (v − m)|` against the exact `|v − μ|`, when the
    computed mean `m` is within `δ` of the exact mean `μ`: `η = δ + u·(2M + δ)` -/
def eta (M δ : K) : K := δ + u * (2 * M + δ)

/-- error budget of the partial sum of deviations after `j` terms -/
def gdev (M δ j : K) : K := 17 / 16 * j * (eta M δ + (j + 1) * u * M)

/-- one turn of the deviation loop: `acc' = fl (acc + |fl (v − m)|)` -/
theorem dev_step (a A v m μ M δ j : K) (hj : 0 ≤ j) (hju : (j + 1) * u ≤ 1 / 64)
    (hv : |v| ≤ M) (hμ : |μ| ≤ M) (hm : |m - μ| ≤ δ) (hA : |A| ≤ 2 * j * M)
    (ha : |a - A| ≤ gdev M δ j) :
    |fl (a + |fl (v - m)|) - (A + |v - μ|)| ≤ gdev M δ (j + 1) := by
  have hu : (0 : K) ≤ u := u_nonneg
  have hM : 0 ≤ M := le_trans (abs_nonneg _) hv
  have hδ : 0 ≤ δ := le_trans (abs_nonneg _) hm
  have hη : 0 ≤ eta M δ := by unfold eta; positivity
  have hg0 : 0 ≤ gdev M δ j := le_trans (abs_nonneg _) ha
  have hvμ : |v - μ| ≤ 2 * M := by
    have := abs_sub v μ
    linarith
  have hvm : |v - m| ≤ 2 * M + δ := by
    have e : v - m = (v - μ) + (μ - m) := by ring
    rw [e]
    have := abs_add_le (v - μ) (μ - m)
    rw [abs_sub_comm μ m] at this
    linarith
  have h1 : |fl (v - m) - (v - m)| ≤ u * (2 * M + δ) := fl_err_le _ _ hvm
  have hd : abs (abs (fl (v - m)) - abs (v - μ)) ≤ eta M δ := by
    refine le_trans (abs_abs_sub_abs_le_abs_sub _ _) ?_
    have e : fl (v - m) - (v - μ) = (fl (v - m) - (v - m)) + (μ - m) := by ring
    rw [e]
    have := abs_add_le (fl (v - m) - (v - m)) (μ - m)
    rw [abs_sub_comm μ m] at this
    unfold eta
    linarith
  have hs : abs (a + abs (fl (v - m))) ≤ 2 * (j + 1) * M + gdev M δ j + eta M δ := by
    have e : a + |fl (v - m)| = (a - A) + ((|fl (v - m)| - |v - μ|) + (A + |v - μ|)) := by ring
    rw [e]
    have := abs_add_le (a - A) ((|fl (v - m)| - |v - μ|) + (A + |v - μ|))
    have := abs_add_le (|fl (v - m)| - |v - μ|) (A + |v - μ|)
    have := abs_add_le A (|v - μ|)
    rw [abs_abs] at this
    linarith
  have h2 := fl_err_le _ _ hs
  have e2 : fl (a + |fl (v - m)|) - (A + |v - μ|)
      = (fl (a + |fl (v - m)|) - (a + |fl (v - m)|)) + ((a - A) + (|fl (v - m)| - |v - μ|)) := by ring
  rw [e2]
  have := abs_add_le (fl (a + |fl (v - m)|) - (a + |fl (v - m)|)) ((a - A) + (|fl (v - m)| - |v - μ|))
  have := abs_add_le (a - A) (|fl (v - m)| - |v - μ|)
  -- numeric part
  have hq : j * u ≤ 1 / 64 := by nlinarith
  have hu64 : (u : K) ≤ 1 / 64 := by nlinarith
  have hq0 : 0 ≤ j * u := mul_nonneg hj hu
  have ident : gdev M δ (j + 1)
      - (u * (2 * (j + 1) * M + gdev M δ j + eta M δ) + (gdev M δ j + eta M δ))
      = eta M δ * (17 / 16 * (1 - j * u) - 1 - u) + (j + 1) * u * M * (1 / 8 - 17 / 16 * (j * u)) := by
    unfold gdev
    ring
  have hnn : 0 ≤ eta M δ * (17 / 16 * (1 - j * u) - 1 - u)
      + (j + 1) * u * M * (1 / 8 - 17 / 16 * (j * u)) := by
    have h3 : 0 ≤ eta M δ * (17 / 16 * (1 - j * u) - 1 - u) := mul_nonneg hη (by linarith)
    have h4 : 0 ≤ (j + 1) * u * M * (1 / 8 - 17 / 16 * (j * u)) :=
      mul_nonneg (by positivity) (by linarith)
    linarith
  linarith

/-- the whole deviation loop over a list of values bounded by `M`, started after `j` terms -/
theorem dev_fold (m μ M δ : K) (hμ : |μ| ≤ M) (hm : |m - μ| ≤ δ) (vs : List K) :
    ∀ (j : Nat) (a A : K), (∀ v ∈ vs, |v| ≤ M) → ((j + vs.length : Nat) : K) * u ≤ 1 / 64 →
      |A| ≤ 2 * (j : K) * M → |a - A| ≤ gdev M δ (j : K) →
      |vs.foldl (fun acc v => fl (acc + |fl (v - m)|)) a - (A + (vs.map (fun v => |v - μ|)).sum)|
        ≤ gdev M δ ((j + vs.length : Nat) : K) := by
  induction vs with
  | nil =>
    intro j a A _ _ _ ha
    simpa using ha
  | cons v vs ih =>
    intro j a A hvs hju hA ha
    have hu : (0 : K) ≤ u := u_nonneg
    have hv : |v| ≤ M := hvs v (by simp)
    have hM : 0 ≤ M := le_trans (abs_nonneg _) hv
    have hju1 : ((j : K) + 1) * u ≤ 1 / 64 := by
      refine le_trans (mul_le_mul_of_nonneg_right ?_ hu) hju
      have : j + 1 ≤ j + (v :: vs).length := by simp
      exact_mod_cast this
    have hstep := dev_step a A v m μ M δ (j : K) (Nat.cast_nonneg _) hju1 hv hμ hm hA ha
    have hA' : abs (A + abs (v - μ)) ≤ 2 * ((j + 1 : Nat) : K) * M := by
      have h1 := abs_add_le A (|v - μ|)
      rw [abs_abs] at h1
      have h2 := abs_sub v μ
      push_cast
      linarith
    have hju2 : (((j + 1) + vs.length : Nat) : K) * u ≤ 1 / 64 := by
      have : (j + 1) + vs.length = j + (v :: vs).length := by simp; omega
      rw [this]; exact hju
    have := ih (j + 1) _ (A + |v - μ|) (fun w hw => hvs w (by simp [hw])) hju2 hA'
      (by push_cast; exact hstep)
    have e : (j + 1) + vs.length = j + (v :: vs).length := by simp; omega
    rw [e] at this
    simpa [List.foldl_cons, add_assoc] using this

/-- the output `fl (acc / c)` against `D / c` (`D` = exact sum of the absolute deviations),
    with the drift `δ = 4·(k+1)·u·M` of the mean: total `(5k + 2c + 10)·u·M` -/
theorem mad_out (acc D M k c : K) (hk : 1 ≤ k) (hc1 : 1 ≤ c) (hck : c ≤ k) (hM : 0 ≤ M)
    (hku : k * u ≤ 1 / 64) (hD : |D| ≤ 2 * c * M)
    (he : |acc - D| ≤ gdev M (4 * (k + 1) * u * M) c) :
    |fl (acc / c) - D / c| ≤ (5 * k + 2 * c + 10) * u * M := by
  have hu : (0 : K) ≤ u := u_nonneg
  have hc : 0 < c := by linarith
  have hu64 : (u : K) ≤ 1 / 64 := by nlinarith
  have huM : 0 ≤ u * M := mul_nonneg hu hM
  -- g / c
  set G := 17 / 16 * (eta M (4 * (k + 1) * u * M) + (c + 1) * u * M) with hGdef
  have hgG : gdev M (4 * (k + 1) * u * M) c = G * c := by rw [hGdef]; unfold gdev; ring
  have hη0 : 0 ≤ eta M (4 * (k + 1) * u * M) := by unfold eta; positivity
  have hG0 : 0 ≤ G := by rw [hGdef]; positivity
  rw [hgG] at he
  have h2 : |acc / c - D / c| ≤ G := by
    rw [← sub_div, abs_div, abs_of_pos hc, div_le_iff₀ hc]
    exact he
  have hq : |acc / c| ≤ 2 * M + G := by
    rw [abs_div, abs_of_pos hc, div_le_iff₀ hc]
    have := abs_add_le (acc - D) D
    rw [sub_add_cancel] at this
    have e : (2 * M + G) * c = G * c + 2 * c * M := by ring
    linarith
  have h1 := fl_err_le _ _ hq
  have e3 : fl (acc / c) - D / c = (fl (acc / c) - acc / c) + (acc / c - D / c) := by ring
  rw [e3]
  have h3 := abs_add_le (fl (acc / c) - acc / c) (acc / c - D / c)
  -- G ≤ (9/2·(k+1) + 11/10·(c+3) ... )·u·M : expand η
  have hG' : G * (1 + u) ≤ (9 / 2 * (k + 1) + 11 / 10 * (c + 3)) * (u * M) := by
    have e : G * (1 + u)
        = (17 / 16 * (1 + u) ^ 2 * (4 * (k + 1)) + 17 / 16 * (1 + u) * (c + 3)) * (u * M) := by
      rw [hGdef]; unfold eta; ring
    rw [e]
    have h5 : (17 / 16 * (1 + u) ^ 2 : K) ≤ 9 / 8 := by nlinarith
    have h6 : (17 / 16 * (1 + u) : K) ≤ 11 / 10 := by linarith
    have hk0 : (0 : K) ≤ 4 * (k + 1) := by linarith
    have hc3 : (0 : K) ≤ c + 3 := by linarith
    have h7 := mul_le_mul_of_nonneg_right h5 hk0
    have h8 := mul_le_mul_of_nonneg_right h6 hc3
    refine mul_le_mul_of_nonneg_right ?_ huM
    linarith
  have hfin : u * (2 * M + G) + G ≤ (5 * k + 2 * c + 10) * u * M := by
    have e : u * (2 * M + G) + G = G * (1 + u) + 2 * (u * M) := by ring
    rw [e]
    have h9 : (9 / 2 * (k + 1) + 11 / 10 * (c + 3)) * (u * M) + 2 * (u * M)
        ≤ (5 * k + 2 * c + 10) * (u * M) := by
      refine le_trans (le_of_eq (by ring : _ = (9 / 2 * (k + 1) + 11 / 10 * (c + 3) + 2) * (u * M))) ?_
      refine mul_le_mul_of_nonneg_right ?_ huM
      linarith
    calc G * (1 + u) + 2 * (u * M) ≤ (9 / 2 * (k + 1) + 11 / 10 * (c + 3)) * (u * M) + 2 * (u * M) := by
          linarith
      _ ≤ (5 * k + 2 * c + 10) * (u * M) := h9
      _ = (5 * k + 2 * c + 10) * u * M := by ring
  linarith

end Arith

/-! ## From the window to the output (values only) -/

section Out
variable [Rounding K]

/-- The output computed from a running sum `sv` that is within `4·k·c·u·M` of the exact sum
    of the window `W` (`c = |W| ≤ k`), the deviation loop running over any storage order `vs`
    of the window, against the exact mean absolute deviation of `W`. -/
theorem out_total (W vs : List K) (hperm : vs.Perm W) (sv M : K) (k : Nat)
    (hW : ∀ a ∈ W, |a| ≤ M) (hW1 : 1 ≤ W.length) (hck : W.length ≤ k)
    (hku : (k : K) * u ≤ 1 / 64)
    (hsv : |sv - W.sum| ≤ 4 * (k : K) * (W.length : K) * u * M) :
    |fl (vs.foldl (fun acc v => fl (acc + |fl (v - fl (sv / (W.length : K)))|)) 0 / (W.length : K)) - mad W|
      ≤ (5 * (k : K) + 2 * (W.length : K) + 10) * u * M := by
  have hu : (0 : K) ≤ u := u_nonneg
  have hc1 : (1 : K) ≤ (W.length : K) := by exact_mod_cast hW1
  have hc : (0 : K) < (W.length : K) := by linarith
  have hckK : (W.length : K) ≤ (k : K) := by exact_mod_cast hck
  have hk1 : (1 : K) ≤ (k : K) := by linarith
  have hM : 0 ≤ M := by
    obtain ⟨a, ha⟩ := List.exists_mem_of_length_pos (by omega : 0 < W.length)
    exact le_trans (abs_nonneg _) (hW a ha)
  have hS : |W.sum| ≤ (W.length : K) * M := SMA.abs_sum_le W M hW
  have hμ : |mean W| ≤ M := by
    unfold mean
    rw [abs_div, abs_of_pos hc, div_le_iff₀ hc]
    linarith
  have hm := mean_step sv W.sum M (k : K) (W.length : K) (by linarith) hc1 hM hku hS hsv
  have hlen : vs.length = W.length := hperm.length_eq
  have hfold := dev_fold (fl (sv / (W.length : K))) (mean W) M (4 * ((k : K) + 1) * u * M) hμ hm vs 0 0 0
    (fun v hv => hW v (hperm.mem_iff.mp hv))
    (by
      rw [Nat.zero_add, hlen]
      exact le_trans (mul_le_mul_of_nonneg_right hckK hu) hku)
    (by simp) (by simp [gdev])
  rw [Nat.zero_add, hlen, zero_add, (hperm.map (fun v => |v - mean W|)).sum_eq] at hfold
  have hD : |(W.map (fun v => |v - mean W|)).sum| ≤ 2 * (W.length : K) * M := by
    have := SMA.abs_sum_le (W.map (fun v => |v - mean W|)) (2 * M) (by
      intro a ha
      obtain ⟨v, hv, rfl⟩ := List.mem_map.mp ha
      rw [abs_abs]
      have := abs_sub v (mean W)
      have := hW v hv
      linarith)
    rw [List.length_map] at this
    linarith
  have := mad_out _ _ M (k : K) (W.length : K) hk1 hc1 hckK hM hku hD hfold
  unfold mad
  exact this

end Out

variable [Rounding K]

theorem abs_v (a : R K) : (Scalar.abs a).v = |a.v| := rfl

/-- the deviation loop at `R K`, read on the underlying values -/
theorem fold_v (mR : R K) (L : List (R K)) (a : R K) :
    (L.foldl (fun mad v => Scalar.add mad (Scalar.abs (Scalar.sub v mR))) a).v
      = (L.map (fun w => w.v)).foldl (fun acc v => fl (acc + |fl (v - mR.v)|)) a.v := by
  induction L generalizing a with
  | nil => rfl
  | cons w t ih =>
    simp only [List.foldl_cons, List.map_cons]
    rw [ih]
    rfl

/-- the value of the generated output expression -/
theorem madOut_v (sm : R K) (c : Nat) (d : Array (R K)) :
    (madOut sm c d).v
      = fl (((d.toList.take c).map (fun w => w.v)).foldl
              (fun acc v => fl (acc + |fl (v - fl (sm.v / (c : K)))|)) 0 / (c : K)) := by
  unfold madOut
  simp only [List.drop_zero, Nat.sub_zero, R.div_v, fold_v, R.ofNat_v, R.lit_zero, R.mk_v]

/-! ## Abstraction invariant and the one-step lemma for the generated code -/

/-- abstraction relation between a concrete state (over the rounding scalar `R K`) and the
    history `h` of inputs since the last reset: the ring buffer holds the inputs exactly; the
    running sum is off the exact window sum by at most `4·k·min(k,n)·u·M`, `k = |h|`. -/
structure Inv (n : Nat) (M : K) (s : MeanAbsoluteDeviation (R K)) (h : List K) : Prop where
  period : s.period = n
  small : n * 8 ≤ isizeMax
  ring : RingInv (R.mk (0 : K)) s.deque n s.index s.count (h.map R.mk)
  err : |s.sum.v - (lastN n h).sum| ≤ 4 * (h.length : K) * ((min h.length n : Nat) : K) * u * M

theorem inv_fresh (n : Nat) (M : K) (hn : 0 < n) (h8 : n * 8 ≤ isizeMax) :
    Inv n M (fresh n : MeanAbsoluteDeviation (R K)) [] := by
  refine ⟨rfl, h8, ?_, ?_⟩
  · simpa [fresh] using RingInv.fresh (R.mk (0 : K)) n hn
  · simp [fresh, lastN]

theorem inv_wf {n : Nat} {M : K} {s : MeanAbsoluteDeviation (R K)} {h : List K} (i : Inv n M s h) : WF s :=
  ⟨by rw [i.period]; exact i.ring.npos, by rw [i.period]; exact i.small, by rw [i.period]; exact i.ring.size,
   by rw [i.period]; exact i.ring.idx_lt, by rw [i.period]; exact i.ring.cnt_le⟩

theorem lastN_map {α β : Type} (f : α → β) (n : Nat) (h : List α) : lastN n (h.map f) = (lastN n h).map f := by
  simp [lastN, List.map_drop]

/-- One call of the generated `next` on a state related to history `h`: it succeeds, the new
    state is related to `h ++ [x]`, and the output is within `(5k + 2c + 10)·u·M` of the exact
    mean absolute deviation of the window (`k = |h| + 1` inputs so far, `c = min(k,n)`). -/
theorem step {n : Nat} {M : K} {s : MeanAbsoluteDeviation (R K)} {h : List K} (i : Inv n M s h)
    (hh : ∀ a ∈ h, |a| ≤ M) (x : K) (hx : |x| ≤ M)
    (hu : ((h.length + 1 : Nat) : K) * u ≤ 1 / 64) :
    ∃ s' y, s.next (R.mk x) = some (s', y) ∧ Inv n M s' (h ++ [x]) ∧
      |y.v - mad (lastN n (h ++ [x]))|
        ≤ (5 * ((h.length + 1 : Nat) : K) + 2 * ((min (h.length + 1) n : Nat) : K) + 10) * u * M := by
  have hn := i.ring.npos
  have hcur := i.ring.at_cursor
  have hceq := i.ring.cnt
  have hsmall := i.small
  have hpush := i.ring.push (R.mk x)
  have hwf := inv_wf i
  have hM : 0 ≤ M := le_trans (abs_nonneg _) hx
  have hu0 : (0 : K) ≤ u := u_nonneg
  obtain ⟨p, ix, c, sm, d⟩ := s
  have hp : p = n := i.period
  subst hp
  simp only [List.length_map] at hcur hpush hceq
  have herr : |sm.v - (lastN p h).sum| ≤ 4 * (h.length : K) * ((min h.length p : Nat) : K) * u * M := i.err
  -- the evicted value
  have hold : d[ix]? = some (R.mk (SMA.evicted p h)) := by
    rw [hcur]
    unfold SMA.evicted
    by_cases hl : h.length < p
    · simp [hl]
    · simp only [hl, if_false]
      have : h.length - p < h.length := by omega
      simp [List.getElem?_map, List.getElem?_eq_getElem this]
  -- count after the push
  have hc' : (if c < p then c + 1 else c) = min (h.length + 1) p := by
    have := hpush.cnt
    simpa using this
  -- the new window
  have hh1 : ∀ a ∈ h ++ [x], |a| ≤ M := by
    intro a ha
    rcases List.mem_append.mp ha with ha | ha
    · exact hh a ha
    · simp at ha; rw [ha]; exact hx
  have hWmem : ∀ a ∈ lastN p (h ++ [x]), |a| ≤ M := fun a ha => hh1 a (SMA.mem_lastN _ _ _ ha)
  have hlen : (lastN p (h ++ [x])).length = min (h.length + 1) p := by rw [lastN_length]; simp
  have hlen0 : (lastN p h).length = min h.length p := lastN_length p h
  have hS' : (lastN p (h ++ [x])).sum = (lastN p h).sum + x - SMA.evicted p h := by
    have h1 := SMA.sum_sub_evicted p hn h
    rw [SMA.lastN_snoc p hn, List.sum_append, List.sum_singleton, ← h1]; ring
  have hSb : |(lastN p h).sum| ≤ ((min h.length p : Nat) : K) * M := by
    rw [← hlen0]
    exact SMA.abs_sum_le _ _ (fun a ha => hh a (SMA.mem_lastN _ _ _ ha))
  have hS'b : |(lastN p h).sum + x - SMA.evicted p h| ≤ ((min (h.length + 1) p : Nat) : K) * M := by
    rw [← hS', ← hlen]
    exact SMA.abs_sum_le _ _ hWmem
  have hc1 : (1 : K) ≤ ((min (h.length + 1) p : Nat) : K) := by
    exact_mod_cast (by omega : 1 ≤ min (h.length + 1) p)
  have hc0c : ((min h.length p : Nat) : K) ≤ ((min (h.length + 1) p : Nat) : K) := by
    exact_mod_cast (by omega : min h.length p ≤ min (h.length + 1) p)
  have hku : ((h.length : K) + 1) * u ≤ 1 / 64 := by simpa using hu
  -- the written slots after the push are a permutation of the new window
  have hperm : (((d.setIfInBounds ix (R.mk x)).toList.take (min (h.length + 1) p)).map (fun w => w.v)).Perm
      (lastN p (h ++ [x])) := by
    have h1 := hpush.take_cnt_perm
    rw [hc', ← List.map_singleton (f := R.mk), ← List.map_append, lastN_map] at h1
    have h2 := h1.map (fun w : R K => w.v)
    simpa [List.map_map, Function.comp_def] using h2
  -- the new running sum, in either phase
  have hsm : sm.v = (lastN p h).sum + (sm.v - (lastN p h).sum) := by ring
  have hsum : |(if c < p then fl (sm.v + x) else fl (fl (sm.v + x) - SMA.evicted p h))
        - (lastN p (h ++ [x])).sum|
      ≤ 4 * ((h.length + 1 : Nat) : K) * ((lastN p (h ++ [x])).length : K) * u * M := by
    have ek : ((h.length + 1 : Nat) : K) = (h.length : K) + 1 := by push_cast; ring
    rw [hlen, hS', ek]
    by_cases hl : h.length < p
    · have hcp : c < p := by omega
      have hev : SMA.evicted p h = 0 := by simp [SMA.evicted, hl]
      simp only [hcp, if_true, hev, sub_zero] at hS'b ⊢
      have := msum_step_warm (lastN p h).sum (sm.v - (lastN p h).sum) x M (h.length : K)
        ((min h.length p : Nat) : K) ((min (h.length + 1) p : Nat) : K)
        (Nat.cast_nonneg _) (Nat.cast_nonneg _) hc0c hc1 hku hx hS'b herr
      rw [← hsm] at this
      exact this
    · have hcp : ¬ c < p := by omega
      simp only [hcp, if_false]
      have := msum_step_full (lastN p h).sum (sm.v - (lastN p h).sum) x (SMA.evicted p h) M (h.length : K)
        ((min h.length p : Nat) : K) ((min (h.length + 1) p : Nat) : K)
        (Nat.cast_nonneg _) (Nat.cast_nonneg _) hc0c hc1 hku hSb hx hS'b herr
      rw [← hsm] at this
      exact this
  have hout := out_total (lastN p (h ++ [x])) _ hperm _ M (h.length + 1) hWmem
    (by rw [hlen]; omega) (by rw [hlen]; omega) hu hsum
  refine ⟨_, _, next_eq _ _ _ hwf hold, ⟨rfl, hsmall, ?_, ?_⟩, ?_⟩
  · simpa using hpush
  · rw [hlen] at hsum
    simp only [List.length_append, List.length_singleton]
    by_cases hcp : c < p <;> simp only [hcp, if_true, if_false, R.add_v, R.sub_v, R.mk_v] at hsum ⊢ <;>
      exact hsum
  · rw [madOut_v, hc']
    rw [hlen] at hout
    by_cases hcp : c < p <;> simp only [hcp, if_true, if_false, R.add_v, R.sub_v, R.mk_v] at hout ⊢ <;>
      exact hout

/-! ## Whole streams -/

/-- from any related state: every call succeeds and every output is within the bound -/
theorem run_from (n : Nat) (M : K) (ys : List K) :
    ∀ (h : List K) (s : MeanAbsoluteDeviation (R K)), Inv n M s h → (∀ a ∈ h, |a| ≤ M) →
      (∀ a ∈ ys, |a| ≤ M) → ((h.length + ys.length : Nat) : K) * u ≤ 1 / 64 →
      ∃ s' outs, runOut next s (ys.map R.mk) = some (s', outs) ∧ Inv n M s' (h ++ ys) ∧
        List.Forall₂ (fun (y : R K) (p : List K) =>
            |y.v - mad (lastN n (h ++ p))|
              ≤ (5 * ((h.length + p.length : Nat) : K) + 2 * ((min (h.length + p.length) n : Nat) : K) + 10) * u * M)
          outs (prefixes ys) := by
  induction ys with
  | nil =>
    intro h s i _ _ _
    exact ⟨s, [], rfl, by simpa using i, by simp [prefixes]⟩
  | cons y ys ih =>
    intro h s i hh hys hu
    have hu0 : (0 : K) ≤ u := u_nonneg
    have hy : |y| ≤ M := hys y (by simp)
    have hu1 : ((h.length + 1 : Nat) : K) * u ≤ 1 / 64 := by
      refine le_trans (mul_le_mul_of_nonneg_right ?_ hu0) hu
      exact_mod_cast (by simp : h.length + 1 ≤ h.length + (y :: ys).length)
    obtain ⟨s1, o1, e1, i1, b1⟩ := step i hh y hy hu1
    have hh1 : ∀ a ∈ h ++ [y], |a| ≤ M := by
      intro a ha
      rcases List.mem_append.mp ha with ha | ha
      · exact hh a ha
      · simp at ha; rw [ha]; exact hy
    have hu2 : (((h ++ [y]).length + ys.length : Nat) : K) * u ≤ 1 / 64 := by
      have : (h ++ [y]).length + ys.length = h.length + (y :: ys).length := by simp; omega
      rw [this]; exact hu
    obtain ⟨s2, o2, e2, i2, b2⟩ := ih (h ++ [y]) s1 i1 hh1 (fun a ha => hys a (by simp [ha])) hu2
    refine ⟨s2, o1 :: o2, ?_, by simpa using i2, ?_⟩
    · rw [List.map_cons, runOut_cons next s (R.mk y) _ s1 o1 e1, e2]; rfl
    · rw [SMA.prefixes_cons]
      refine List.Forall₂.cons ?_ ?_
      · simpa using b1
      · rw [List.forall₂_map_right_iff]
        refine b2.imp ?_
        intro o p hb
        have e : (h ++ [y]).length + p.length = h.length + (y :: p).length := by simp; omega
        rw [e] at hb
        simpa using hb

/-- **MAD rounding-error theorem** (standard model; generated code).
    For every period `n ≥ 1` (accepted by `new`: `n·8 ≤ isize::MAX`), every bound `M`, every
    stream `xs` whose entries satisfy `|x| ≤ M` and whose length `t` satisfies `t·u ≤ 1/64`:
    feeding `xs` to the state `new(n)` builds never panics, and the output `y` produced after
    the prefix `p` of `xs` (`k = |p|` inputs, window length `c = min(k,n)`) satisfies
    `|y − mad (last c entries of p)| ≤ (5·k + 2·c + 10)·u·M`
    (`mad` = mean absolute deviation about the exact window mean).
    `5·k` is the drift of the running sum (hence of the mean), `2·c` the summation error of
    the deviation loop, which is evaluated from scratch at every call. -/
theorem mad_rounding (n : Nat) (hn : 0 < n) (h8 : n * 8 ≤ isizeMax) (M : K) (xs : List K)
    (hM : ∀ x ∈ xs, |x| ≤ M) (ht : (xs.length : K) * u ≤ 1 / 64) :
    ∃ s' ys, runOut next (fresh n : MeanAbsoluteDeviation (R K)) (xs.map R.mk) = some (s', ys) ∧
      List.Forall₂ (fun (y : R K) (p : List K) =>
          |y.v - mad (lastN n p)|
            ≤ (5 * (p.length : K) + 2 * ((min p.length n : Nat) : K) + 10) * u * M)
        ys (prefixes xs) := by
  obtain ⟨s', ys, e, _, b⟩ := run_from n M xs [] _ (inv_fresh n M hn h8) (by simp) hM (by simpa using ht)
  exact ⟨s', ys, e, by simpa using b⟩

/-- the bound without the period: `(7·k + 10)·u·M` -/
theorem mad_rounding_nofn (n : Nat) (hn : 0 < n) (h8 : n * 8 ≤ isizeMax) (M : K) (xs : List K)
    (hM : ∀ x ∈ xs, |x| ≤ M) (ht : (xs.length : K) * u ≤ 1 / 64) :
    ∃ s' ys, runOut next (fresh n : MeanAbsoluteDeviation (R K)) (xs.map R.mk) = some (s', ys) ∧
      List.Forall₂ (fun (y : R K) (p : List K) =>
          |y.v - mad (lastN n p)| ≤ (7 * (p.length : K) + 10) * u * |M|)
        ys (prefixes xs) := by
  obtain ⟨s', ys, e, b⟩ := mad_rounding n hn h8 M xs hM ht
  refine ⟨s', ys, e, b.imp ?_⟩
  intro y p hb
  refine le_trans hb ?_
  have hu0 : (0 : K) ≤ u := u_nonneg
  have hmin : ((min p.length n : Nat) : K) ≤ (p.length : K) := by exact_mod_cast Nat.min_le_left _ _
  have h0 : (0 : K) ≤ (5 * (p.length : K) + 2 * ((min p.length n : Nat) : K) + 10) * u := by positivity
  calc (5 * (p.length : K) + 2 * ((min p.length n : Nat) : K) + 10) * u * M
      ≤ (5 * (p.length : K) + 2 * ((min p.length n : Nat) : K) + 10) * u * |M| :=
        mul_le_mul_of_nonneg_left (le_abs_self M) h0
    _ ≤ (7 * (p.length : K) + 10) * u * |M| := by
        refine mul_le_mul_of_nonneg_right (mul_le_mul_of_nonneg_right ?_ hu0) (abs_nonneg _)
        linarith

/-- the same as `mad_rounding`, indexed: the `k`-th output (0-based) exists and is within the
    bound of the mean absolute deviation of the last `min(k+1, n)` of the first `k+1` inputs -/
theorem mad_rounding_get (n : Nat) (hn : 0 < n) (h8 : n * 8 ≤ isizeMax) (M : K) (xs : List K)
    (hM : ∀ x ∈ xs, |x| ≤ M) (ht : (xs.length : K) * u ≤ 1 / 64) :
    ∃ s' ys, runOut next (fresh n : MeanAbsoluteDeviation (R K)) (xs.map R.mk) = some (s', ys) ∧
      ys.length = xs.length ∧
      ∀ k (hk : k < ys.length),
        |(ys[k]).v - mad (lastN n (xs.take (k + 1)))|
          ≤ (5 * ((k + 1 : Nat) : K) + 2 * ((min (k + 1) n : Nat) : K) + 10) * u * M := by
  obtain ⟨s', ys, e, b⟩ := mad_rounding n hn h8 M xs hM ht
  have hl : ys.length = xs.length := by rw [b.length_eq, prefixes_length]
  refine ⟨s', ys, e, hl, ?_⟩
  intro k hk
  have hk2 : k < (prefixes xs).length := by rw [prefixes_length]; omega
  have hb := List.Forall₂.get b hk hk2
  have hp : (prefixes xs)[k] = xs.take (k + 1) := by simp [prefixes]
  simp only [List.get_eq_getElem, hp] at hb
  have hlen : (xs.take (k + 1)).length = k + 1 := by simp; omega
  rw [hlen] at hb
  exact hb

end TaRs.Round.MAD
