/-
  Layer R, WeightedMovingAverage: rounding-error bound for the GENERATED `next` under the
  standard model of floating-point arithmetic (`TaRs/Round/Model.lean`; trusted assumption:
  every operation is the exact one followed by a rounding `fl` with `|fl x − x| ≤ u·|x|`,
  i.e. no overflow / underflow).

  Main theorem `wma_rounding`: for every period `n ≥ 1`, every stream `xs` with `|x| ≤ M`, of
  length `t` with `t·u ≤ 1/64`, the generated WMA never panics and its `k`-th output `y_k`
  (k = 1..t, window length `c = min(k,n)`) satisfies

        |y_k − wma (last c inputs)| ≤ 4·(k²/(c+1) + k + 2)·u·M .

  The bound is QUADRATIC in the number of inputs since the last reset (divided by the window
  length): the code maintains two running sums, the plain window sum `sum_flat` (drift linear
  in `k`, exactly as for SMA) and the weighted sum `sum`, and subtracts the whole of
  `sum_flat` – including all of its accumulated error – from `sum` at EVERY step.  In the
  worst case allowed by the standard model (all rounding errors of the same sign) the error
  of `sum` is therefore the sum of the errors of `sum_flat`, i.e. grows like `k²·c·u·M`, and
  the output (`sum` divided by `c(c+1)/2`) is off by about `3·k²/(c+1)·u·M`.  While warming
  up (`k ≤ n`, so `c = k`) the bound is linear: `≤ 4·(2k+2)·u·M`.
  `TaRs/Round/WMAWorst.lean` shows that the quadratic growth is attained by a rounding that obeys
  the standard model (`fl x = x·(1+u)`), so it cannot be improved without further assumptions.

  Proof: abstraction invariant `Inv` (ring buffer tracked exactly with `RingInv`;
  `|sum_flat − Σ window| ≤ 3·k·c·u·M` by the SMA lemma `SMA.sum_step`;
  `|sum − wsum window| ≤ (7/4)·(k²·c + k·c·(c+1))·u·M`), a one-step lemma obtained from the
  normal form `next_eq` of the generated code, induction over the stream.
-/
import TaRs.Round.Model
import TaRs.Round.SMA
import TaRs.Lemmas.WeightedMovingAverage
import TaRs.Lemmas.Ring
import TaRs.Lemmas.Machine
import TaRs.Spec.Window
import Mathlib.Tactic.NormNum
import Mathlib.Tactic.Ring
import Mathlib.Tactic.Linarith
import Mathlib.Tactic.Positivity
import Mathlib.Tactic.FieldSimp
set_option linter.unusedSectionVars false
namespace TaRs.Round.WMA
open TaRs TaRs.Rs TaRs.Spec TaRs.Gen TaRs.Gen.WeightedMovingAverage Rounding

variable {K : Type} [Field K] [LinearOrder K] [IsStrictOrderedRing K]

/-! ## List facts (exact arithmetic): recursive characterisation of `Spec.wsum` -/

/-- `wsum` with the weights starting at `k + 1` -/
def wsumFrom (k : Nat) (w : List K) : K := ((w.zipIdx k).map (fun p => p.1 * ((p.2 : K) + 1))).sum

theorem wsum_eq_from (w : List K) : wsum w = wsumFrom 0 w := by
  cases w <;> simp [wsum, wsumFrom]

theorem wsumFrom_nil (k : Nat) : wsumFrom k ([] : List K) = 0 := by simp [wsumFrom]

theorem wsumFrom_cons (k : Nat) (a : K) (t : List K) :
    wsumFrom k (a :: t) = a * ((k : K) + 1) + wsumFrom (k + 1) t := by
  simp [wsumFrom]

theorem wsumFrom_succ (k : Nat) (t : List K) : wsumFrom (k + 1) t = wsumFrom k t + t.sum := by
  induction t generalizing k with
  | nil => simp [wsumFrom_nil]
  | cons a t ih =>
    rw [wsumFrom_cons, wsumFrom_cons, ih (k + 1), List.sum_cons]
    push_cast
    ring

theorem wsumFrom_append_one (k : Nat) (w : List K) (x : K) :
    wsumFrom k (w ++ [x]) = wsumFrom k w + x * (((k + w.length : Nat) : K) + 1) := by
  induction w generalizing k with
  | nil => simp [wsumFrom]
  | cons a t ih =>
    rw [List.cons_append, wsumFrom_cons, wsumFrom_cons, ih (k + 1), List.length_cons]
    have : k + 1 + t.length = k + (t.length + 1) := by omega
    rw [this]
    ring

/-- every weight of the tail is one more than in the tail alone -/
theorem wsum_cons (a : K) (t : List K) : wsum (a :: t) = a + wsum t + t.sum := by
  rw [wsum_eq_from, wsum_eq_from, wsumFrom_cons, wsumFrom_succ]
  push_cast
  ring

/-- the new value enters with the heaviest weight -/
theorem wsum_append_one (w : List K) (x : K) : wsum (w ++ [x]) = wsum w + x * ((w.length : K) + 1) := by
  rw [wsum_eq_from, wsum_eq_from, wsumFrom_append_one]
  simp

/-- `|Σ (i+1)·w[i]| ≤ L(L+1)/2 · M` -/
theorem abs_wsum_le (l : List K) (M : K) (h : ∀ a ∈ l, |a| ≤ M) :
    |wsum l| ≤ (l.length : K) * ((l.length : K) + 1) / 2 * M := by
  induction l with
  | nil => simp [wsum]
  | cons a t ih =>
    have h1 : |a| ≤ M := h a (by simp)
    have h2 := ih (fun b hb => h b (by simp [hb]))
    have h3 := SMA.abs_sum_le t M (fun b hb => h b (by simp [hb]))
    have h4 := abs_add_le (a + wsum t) t.sum
    have h5 := abs_add_le a (wsum t)
    rw [wsum_cons]
    simp only [List.length_cons]
    push_cast
    have e : ((t.length : K) + 1) * ((t.length : K) + 1 + 1) / 2 * M
        = M + (t.length : K) * ((t.length : K) + 1) / 2 * M + (t.length : K) * M := by ring
    rw [e]
    linarith

/-- a full window is its oldest value followed by the last `n−1` values -/
theorem lastN_full_cons (n : Nat) (hn : 0 < n) (h : List K) (hl : n ≤ h.length) :
    lastN n h = (h[h.length - n]?.getD 0) :: lastN (n - 1) h := by
  have hlt : h.length - n < h.length := by omega
  unfold lastN
  have e : h.length - (n - 1) = (h.length - n) + 1 := by omega
  rw [e, List.drop_eq_getElem_cons hlt, List.getElem?_eq_getElem hlt]
  simp

/-- full window: weighted sum minus plain sum = weighted sum of the values that stay -/
theorem wsum_sub_sum (n : Nat) (hn : 0 < n) (h : List K) (hl : n ≤ h.length) :
    wsum (lastN n h) - (lastN n h).sum = wsum (lastN (n - 1) h) := by
  rw [lastN_full_cons n hn h hl, wsum_cons, List.sum_cons]
  ring

/-! ## Arithmetic cores (pure inequalities about `fl`) -/

section Arith
variable [Rounding K]

/-- sliding phase, one update of the weighted sum: `sum' = fl (fl (sum − sum_flat) + fl (x·c))`
    where `sum − sum_flat = T + e` (`T` = exact weighted sum of the values that stay, `e` =
    accumulated error of both running sums, `|e| ≤ eb`), `c` = window length. -/
theorem wsum_step_full (T e x M c eb : K) (hc1 : 1 ≤ c) (hM : 0 ≤ M)
    (hT : |T| ≤ (c - 1) * c / 2 * M) (hx : |x| ≤ M) (he : |e| ≤ eb) :
    |fl (fl (T + e) + fl (x * c)) - (T + x * c)|
      ≤ eb * (1 + u) ^ 2 + u * M * (c * (c + 1) / 2) * (2 + u) := by
  have hu : (0 : K) ≤ u := u_nonneg
  have hc0 : (0 : K) ≤ c := by linarith
  have hxc : |x * c| ≤ c * M := by
    rw [abs_mul, abs_of_nonneg hc0, mul_comm]
    exact mul_le_mul_of_nonneg_left hx hc0
  have h1 : |fl (T + e) - (T + e)| ≤ u * ((c - 1) * c / 2 * M + eb) :=
    fl_err_le _ _ (by linarith [abs_add_le T e])
  have h2 : |fl (x * c) - x * c| ≤ u * (c * M) := fl_err_le _ _ hxc
  have hs : |fl (T + e) + fl (x * c)|
      ≤ c * (c + 1) / 2 * M + eb + u * ((c - 1) * c / 2 * M + eb) + u * (c * M) := by
    have e1 : fl (T + e) + fl (x * c)
        = (fl (T + e) - (T + e)) + ((fl (x * c) - x * c) + (T + (e + x * c))) := by ring
    rw [e1]
    have := abs_add_le (fl (T + e) - (T + e)) ((fl (x * c) - x * c) + (T + (e + x * c)))
    have := abs_add_le (fl (x * c) - x * c) (T + (e + x * c))
    have := abs_add_le T (e + x * c)
    have := abs_add_le e (x * c)
    have e2 : c * (c + 1) / 2 * M = (c - 1) * c / 2 * M + c * M := by ring
    linarith
  have h3 := fl_err_le _ _ hs
  have e3 : fl (fl (T + e) + fl (x * c)) - (T + x * c)
      = (fl (fl (T + e) + fl (x * c)) - (fl (T + e) + fl (x * c)))
        + ((fl (T + e) - (T + e)) + ((fl (x * c) - x * c) + e)) := by ring
  rw [e3]
  have := abs_add_le (fl (fl (T + e) + fl (x * c)) - (fl (T + e) + fl (x * c)))
    ((fl (T + e) - (T + e)) + ((fl (x * c) - x * c) + e))
  have := abs_add_le (fl (T + e) - (T + e)) ((fl (x * c) - x * c) + e)
  have := abs_add_le (fl (x * c) - x * c) e
  have ident : eb * (1 + u) ^ 2 + u * M * (c * (c + 1) / 2) * (2 + u)
      = u * (c * (c + 1) / 2 * M + eb + u * ((c - 1) * c / 2 * M + eb) + u * (c * M))
        + (u * ((c - 1) * c / 2 * M + eb) + (u * (c * M) + eb)) := by ring
  rw [ident]
  linarith

/-- warm-up phase, one update of the weighted sum: `sum' = fl (sum + fl (x·c))` where
    `sum = T + e`; the same bound as in the sliding phase holds. -/
theorem wsum_step_warm (T e x M c eb : K) (hc1 : 1 ≤ c) (hM : 0 ≤ M)
    (hT : |T| ≤ (c - 1) * c / 2 * M) (hx : |x| ≤ M) (he : |e| ≤ eb) :
    |fl ((T + e) + fl (x * c)) - (T + x * c)|
      ≤ eb * (1 + u) ^ 2 + u * M * (c * (c + 1) / 2) * (2 + u) := by
  have hu : (0 : K) ≤ u := u_nonneg
  have hc0 : (0 : K) ≤ c := by linarith
  have heb : 0 ≤ eb := le_trans (abs_nonneg _) he
  have hxc : |x * c| ≤ c * M := by
    rw [abs_mul, abs_of_nonneg hc0, mul_comm]
    exact mul_le_mul_of_nonneg_left hx hc0
  have h2 : |fl (x * c) - x * c| ≤ u * (c * M) := fl_err_le _ _ hxc
  have hs : |(T + e) + fl (x * c)| ≤ c * (c + 1) / 2 * M + eb + u * (c * M) := by
    have e1 : (T + e) + fl (x * c) = (fl (x * c) - x * c) + (T + (e + x * c)) := by ring
    rw [e1]
    have := abs_add_le (fl (x * c) - x * c) (T + (e + x * c))
    have := abs_add_le T (e + x * c)
    have := abs_add_le e (x * c)
    have e2 : c * (c + 1) / 2 * M = (c - 1) * c / 2 * M + c * M := by ring
    linarith
  have h3 := fl_err_le _ _ hs
  have e3 : fl ((T + e) + fl (x * c)) - (T + x * c)
      = (fl ((T + e) + fl (x * c)) - ((T + e) + fl (x * c))) + ((fl (x * c) - x * c) + e) := by ring
  rw [e3]
  have := abs_add_le (fl ((T + e) + fl (x * c)) - ((T + e) + fl (x * c))) ((fl (x * c) - x * c) + e)
  have := abs_add_le (fl (x * c) - x * c) e
  have ident : eb * (1 + u) ^ 2 + u * M * (c * (c + 1) / 2) * (2 + u)
      = u * (c * (c + 1) / 2 * M + eb + u * (c * M)) + (u * (c * M) + eb)
        + (1 + u) * (u * eb + u * M * ((c - 1) * c / 2)) := by ring
  have hpos : 0 ≤ (1 + u) * (u * eb + u * M * ((c - 1) * c / 2)) := by
    have : 0 ≤ (c - 1) * c / 2 := by
      have : 0 ≤ c - 1 := by linarith
      positivity
    positivity
  rw [ident]
  linarith

/-- the error bound of the weighted sum is inductive:
    `(Eb(k−1) + D(k−1))·(1+u)² + u·M·c(c+1)/2·(2+u) ≤ Eb(k)` with
    `Eb(k) = 7/4·(k²·c + k·c·(c+1))·u·M`, `D(k) = 3·k·c·u·M` (the drift of `sum_flat`). -/
theorem err_numeric (k1 c0 c M : K) (hk1 : 0 ≤ k1) (hc0 : 0 ≤ c0) (hc0c : c0 ≤ c) (hc1 : 1 ≤ c)
    (hM : 0 ≤ M) (hku : (k1 + 1) * u ≤ 1 / 64) :
    ((7 / 4 * k1 ^ 2 * c0 + 7 / 4 * k1 * c0 * (c0 + 1)) * u * M + 3 * k1 * c0 * u * M) * (1 + u) ^ 2
        + u * M * (c * (c + 1) / 2) * (2 + u)
      ≤ (7 / 4 * (k1 + 1) ^ 2 * c + 7 / 4 * (k1 + 1) * c * (c + 1)) * u * M := by
  have hu : (0 : K) ≤ u := u_nonneg
  have hc : (0 : K) ≤ c := by linarith
  have hp : 0 ≤ k1 * u := mul_nonneg hk1 hu
  have hpu : k1 * u + u ≤ 1 / 64 := by linarith [hku, (by ring : (k1 + 1) * u = k1 * u + u)]
  have hu64 : (u : K) ≤ 1 / 64 := by linarith
  -- monotone in the window length
  have hmono : 7 / 4 * k1 ^ 2 * c0 + 7 / 4 * k1 * c0 * (c0 + 1) + 3 * k1 * c0
      ≤ 7 / 4 * k1 ^ 2 * c + 7 / 4 * k1 * c * (c + 1) + 3 * k1 * c := by
    have h1 : k1 ^ 2 * c0 ≤ k1 ^ 2 * c := mul_le_mul_of_nonneg_left hc0c (by positivity)
    have h2 : c0 * (c0 + 1) ≤ c * (c + 1) := by nlinarith
    have h3 : k1 * (c0 * (c0 + 1)) ≤ k1 * (c * (c + 1)) := mul_le_mul_of_nonneg_left h2 hk1
    have h4 : k1 * c0 ≤ k1 * c := mul_le_mul_of_nonneg_left hc0c hk1
    nlinarith
  have hstep1 : ((7 / 4 * k1 ^ 2 * c0 + 7 / 4 * k1 * c0 * (c0 + 1)) * u * M + 3 * k1 * c0 * u * M) * (1 + u) ^ 2
      ≤ ((7 / 4 * k1 ^ 2 * c + 7 / 4 * k1 * c * (c + 1)) * u * M + 3 * k1 * c * u * M) * (1 + u) ^ 2 := by
    have h0 : 0 ≤ u * M * (1 + u) ^ 2 := by positivity
    have := mul_le_mul_of_nonneg_right hmono h0
    calc _ = (7 / 4 * k1 ^ 2 * c0 + 7 / 4 * k1 * c0 * (c0 + 1) + 3 * k1 * c0) * (u * M * (1 + u) ^ 2) := by ring
      _ ≤ (7 / 4 * k1 ^ 2 * c + 7 / 4 * k1 * c * (c + 1) + 3 * k1 * c) * (u * M * (1 + u) ^ 2) := this
      _ = _ := by ring
  -- numeric part, with p = k1·u
  have hX : 0 ≤ 1 / 2 - (2 + u) * (7 / 4 * (k1 * u) + 3 * u) := by
    have h1 : 7 / 4 * (k1 * u) + 3 * u ≤ 3 / 64 := by linarith
    have h2 : 0 ≤ 7 / 4 * (k1 * u) + 3 * u := by positivity
    have h3 : (2 + u) * (7 / 4 * (k1 * u) + 3 * u) ≤ (2 + 1 / 64) * (3 / 64) :=
      mul_le_mul (by linarith) h1 h2 (by norm_num)
    have : (2 + 1 / 64 : K) * (3 / 64) ≤ 1 / 2 := by norm_num
    linarith
  have hY : 0 ≤ 3 / 4 - u / 2 - 7 / 4 * (k1 * u) * (2 + u) := by
    have h1 : 7 / 4 * (k1 * u) ≤ 7 / 256 := by linarith
    have h3 : 7 / 4 * (k1 * u) * (2 + u) ≤ 7 / 256 * (2 + 1 / 64) :=
      mul_le_mul h1 (by linarith) (by positivity) (by norm_num)
    have : (7 / 256 : K) * (2 + 1 / 64) + 1 / 128 ≤ 3 / 4 := by norm_num
    linarith
  have ident : (7 / 4 * (k1 + 1) ^ 2 * c + 7 / 4 * (k1 + 1) * c * (c + 1)) * u * M
      - (((7 / 4 * k1 ^ 2 * c + 7 / 4 * k1 * c * (c + 1)) * u * M + 3 * k1 * c * u * M) * (1 + u) ^ 2
          + u * M * (c * (c + 1) / 2) * (2 + u))
      = u * M * c * (k1 * (1 / 2 - (2 + u) * (7 / 4 * (k1 * u) + 3 * u)) + 7 / 4
          + (c + 1) * (3 / 4 - u / 2 - 7 / 4 * (k1 * u) * (2 + u))) := by ring
  have hnn : 0 ≤ u * M * c * (k1 * (1 / 2 - (2 + u) * (7 / 4 * (k1 * u) + 3 * u)) + 7 / 4
          + (c + 1) * (3 / 4 - u / 2 - 7 / 4 * (k1 * u) * (2 + u))) := by
    have h1 := mul_nonneg hk1 hX
    have h2 : 0 ≤ (c + 1) * (3 / 4 - u / 2 - 7 / 4 * (k1 * u) * (2 + u)) := mul_nonneg (by linarith) hY
    exact mul_nonneg (by positivity) (by linarith)
  linarith

/-- quotient of two perturbed quantities: `s ≈ W` (absolute error `q·G`), `t ≈ G` (relative
    error `ε`), `|W| ≤ G·Mq`; `θ` is any upper bound of `1/(1−ε)`. -/
theorem div_close (s W t G Mq q ε θ : K) (hG : 0 < G) (hq : 0 ≤ q) (hMq : 0 ≤ Mq) (hε : 0 ≤ ε)
    (hθ0 : 0 ≤ θ) (hθ : 1 ≤ θ * (1 - ε))
    (hs : |s - W| ≤ q * G) (hW : |W| ≤ G * Mq) (ht : |t - G| ≤ ε * G) :
    |s / t - W / G| ≤ θ * (q + Mq * ε) ∧ |s / t| ≤ θ * (Mq + q) := by
  have htl : G - ε * G ≤ t := by linarith [(abs_le.mp ht).1]
  have hθt : G ≤ θ * t := by
    have h1 : θ * ((1 - ε) * G) ≤ θ * t := mul_le_mul_of_nonneg_left (by linarith) hθ0
    have h2 : 1 * G ≤ θ * (1 - ε) * G := mul_le_mul_of_nonneg_right hθ hG.le
    linarith [(by ring : θ * ((1 - ε) * G) = θ * (1 - ε) * G)]
  have ht0 : 0 < t := by
    rcases lt_or_ge 0 t with h | h
    · exact h
    · have : θ * t ≤ 0 := mul_nonpos_of_nonneg_of_nonpos hθ0 h
      linarith
  constructor
  · have e : s / t - W / G = ((s - W) * G + W * (G - t)) / (t * G) := by
      field_simp
      ring
    rw [e, abs_div, abs_of_pos (mul_pos ht0 hG), div_le_iff₀ (mul_pos ht0 hG)]
    have h1 : |(s - W) * G| ≤ q * G * G := by
      rw [abs_mul, abs_of_pos hG]
      exact mul_le_mul_of_nonneg_right hs hG.le
    have h2 : |W * (G - t)| ≤ G * Mq * (ε * G) := by
      rw [abs_mul, abs_sub_comm]
      exact mul_le_mul hW ht (abs_nonneg _) (by positivity)
    have h3 := abs_add_le ((s - W) * G) (W * (G - t))
    have h4 : G * (G * (q + Mq * ε)) ≤ θ * t * (G * (q + Mq * ε)) :=
      mul_le_mul_of_nonneg_right hθt (by positivity)
    calc |(s - W) * G + W * (G - t)| ≤ q * G * G + G * Mq * (ε * G) := by linarith
      _ = G * (G * (q + Mq * ε)) := by ring
      _ ≤ θ * t * (G * (q + Mq * ε)) := h4
      _ = θ * (q + Mq * ε) * (t * G) := by ring
  · rw [abs_div, abs_of_pos ht0, div_le_iff₀ ht0]
    have h1 : |s| ≤ G * Mq + q * G := by
      have := abs_add_le (s - W) W
      rw [sub_add_cancel] at this
      linarith
    have h4 : G * (Mq + q) ≤ θ * t * (Mq + q) := mul_le_mul_of_nonneg_right hθt (by positivity)
    calc |s| ≤ G * (Mq + q) := by linarith
      _ ≤ θ * t * (Mq + q) := h4
      _ = θ * (Mq + q) * t := by ring

/-- the denominator as computed, `fl (fl (c·fl (c + fl 1)) / fl 2)` (five roundings: the
    literals `1.0`, `2.0` are rounded in the model too), has relative error ≤ 5u -/
theorem den_bound (c : K) (hc1 : 1 ≤ c) (hu64 : (u : K) ≤ 1 / 64) :
    |fl (fl (c * fl (c + fl 1)) / fl 2) - c * (c + 1) / 2| ≤ 5 * u * (c * (c + 1) / 2) := by
  have hu : (0 : K) ≤ u := u_nonneg
  have hc0 : (0 : K) ≤ c := by linarith
  have h1 : |fl (1 : K) - 1| ≤ u * 1 := fl_err_le 1 1 (by simp)
  generalize fl (1 : K) = t1 at h1
  have ha2 : |c + t1| ≤ c + 1 + u := by
    have e : c + t1 = (t1 - 1) + (c + 1) := by ring
    rw [e]
    have := abs_add_le (t1 - 1) (c + 1)
    rw [abs_of_nonneg (by linarith : (0 : K) ≤ c + 1)] at this
    linarith
  have h2 : |fl (c + t1) - (c + t1)| ≤ u * (c + 1 + u) := fl_err_le _ _ ha2
  have h2' : |fl (c + t1) - (c + 1)| ≤ u * (c + 2 + u) := by
    have e : fl (c + t1) - (c + 1) = (fl (c + t1) - (c + t1)) + (t1 - 1) := by ring
    rw [e]
    have := abs_add_le (fl (c + t1) - (c + t1)) (t1 - 1)
    linarith
  generalize fl (c + t1) = t2 at h2'
  clear h2 ha2 h1 t1
  have h3a : |c * t2 - c * (c + 1)| ≤ c * (u * (c + 2 + u)) := by
    rw [← mul_sub, abs_mul, abs_of_nonneg hc0]
    exact mul_le_mul_of_nonneg_left h2' hc0
  have h3b : c * (u * (c + 2 + u)) ≤ c * (c + 1) * (u * (3 + u) / 2) := by
    have h0 : 0 ≤ c * u * ((c - 1) * (1 + u) / 2) := by
      have : 0 ≤ c - 1 := by linarith
      positivity
    have e : c * (c + 1) * (u * (3 + u) / 2) - c * (u * (c + 2 + u)) = c * u * ((c - 1) * (1 + u) / 2) := by
      ring
    linarith
  have hP : (0 : K) < c * (c + 1) := by positivity
  have ha3 : |c * t2| ≤ c * (c + 1) * (1 + u * (3 + u) / 2) := by
    have e : c * t2 = (c * t2 - c * (c + 1)) + c * (c + 1) := by ring
    rw [e]
    have := abs_add_le (c * t2 - c * (c + 1)) (c * (c + 1))
    rw [abs_of_pos hP] at this
    have e2 : c * (c + 1) * (1 + u * (3 + u) / 2) = c * (c + 1) * (u * (3 + u) / 2) + c * (c + 1) := by ring
    linarith
  have h3 : |fl (c * t2) - c * t2| ≤ u * (c * (c + 1) * (1 + u * (3 + u) / 2)) := fl_err_le _ _ ha3
  have h3' : |fl (c * t2) - c * (c + 1)| ≤ 41 / 32 * u * (c * (c + 1)) * 2 := by
    have e : fl (c * t2) - c * (c + 1) = (fl (c * t2) - c * t2) + (c * t2 - c * (c + 1)) := by ring
    rw [e]
    have := abs_add_le (fl (c * t2) - c * t2) (c * t2 - c * (c + 1))
    have hn : (u : K) * (1 + u * (3 + u) / 2) + u * (3 + u) / 2 ≤ 41 / 16 * u := by
      have e3 : 41 / 16 * (u : K) - (u * (1 + u * (3 + u) / 2) + u * (3 + u) / 2)
          = u * (1 / 16 - 2 * u - u * u / 2) := by ring
      have : 0 ≤ (u : K) * (1 / 16 - 2 * u - u * u / 2) := by
        have : (u : K) * u ≤ 1 / 64 * (1 / 64) := mul_le_mul hu64 hu64 hu (by norm_num)
        exact mul_nonneg hu (by linarith)
      linarith
    have := mul_le_mul_of_nonneg_left hn hP.le
    have e4 : c * (c + 1) * (u * (1 + u * (3 + u) / 2) + u * (3 + u) / 2)
        = u * (c * (c + 1) * (1 + u * (3 + u) / 2)) + c * (c + 1) * (u * (3 + u) / 2) := by ring
    have e5 : c * (c + 1) * (41 / 16 * u) = 41 / 32 * u * (c * (c + 1)) * 2 := by ring
    linarith
  generalize fl (c * t2) = t3 at h3'
  clear h3 ha3 h3a h3b h2' t2
  have h4 : |fl (2 : K) - 2| ≤ u * 2 := fl_err_le 2 2 (by simp)
  generalize fl (2 : K) = t4 at h4
  have hd := div_close t3 (c * (c + 1)) t4 2 (c * (c + 1) / 2) (41 / 32 * u * (c * (c + 1))) u (64 / 63)
    (by norm_num) (by positivity) (by positivity) hu (by norm_num)
    (by linarith) h3' (by rw [abs_of_pos hP]; linarith) h4
  obtain ⟨hd1, hd2⟩ := hd
  have h5 := fl_err_le _ _ hd2
  have e : fl (t3 / t4) - c * (c + 1) / 2 = (fl (t3 / t4) - t3 / t4) + (t3 / t4 - c * (c + 1) / 2) := by ring
  rw [e]
  have := abs_add_le (fl (t3 / t4) - t3 / t4) (t3 / t4 - c * (c + 1) / 2)
  have e6 : 5 * u * (c * (c + 1) / 2)
      - (u * (64 / 63 * (c * (c + 1) / 2 + 41 / 32 * u * (c * (c + 1))))
          + 64 / 63 * (41 / 32 * u * (c * (c + 1)) + c * (c + 1) / 2 * u))
      = c * (c + 1) * u * (23 / 126 - 82 / 63 * u) := by ring
  have : 0 ≤ c * (c + 1) * u * (23 / 126 - 82 / 63 * u) :=
    mul_nonneg (mul_nonneg hP.le hu) (by linarith)
  linarith

/-- the output `fl (sum / den)` against the exact weighted mean `W / (c(c+1)/2)` -/
theorem out_step (s W M k c t : K) (hk : 1 ≤ k) (hc1 : 1 ≤ c) (hM : 0 ≤ M) (hku : k * u ≤ 1 / 64)
    (hW : |W| ≤ c * (c + 1) / 2 * M)
    (he : |s - W| ≤ (7 / 4 * k ^ 2 * c + 7 / 4 * k * c * (c + 1)) * u * M)
    (ht : |t - c * (c + 1) / 2| ≤ 5 * u * (c * (c + 1) / 2)) :
    |fl (s / t) - W / (c * (c + 1) / 2)| ≤ 4 * (k ^ 2 / (c + 1) + k + 2) * u * M := by
  have hu : (0 : K) ≤ u := u_nonneg
  have hc0 : (0 : K) < c := by linarith
  have hk0 : (0 : K) ≤ k := by linarith
  have hu64 : (u : K) ≤ 1 / 64 := by nlinarith
  have hG : (0 : K) < c * (c + 1) / 2 := by positivity
  have hz : 0 ≤ k ^ 2 / (c + 1) := by positivity
  have hw : 0 ≤ (k ^ 2 / (c + 1) + k) * u * M := by positivity
  have hqG : (7 / 4 * k ^ 2 * c + 7 / 4 * k * c * (c + 1)) * u * M
      = 7 / 2 * ((k ^ 2 / (c + 1) + k) * u * M) * (c * (c + 1) / 2) := by
    have : c + 1 ≠ 0 := by positivity
    field_simp
    ring
  rw [hqG] at he
  obtain ⟨d1, d2⟩ := div_close s W t (c * (c + 1) / 2) M (7 / 2 * ((k ^ 2 / (c + 1) + k) * u * M)) (5 * u) (11 / 10)
    hG (by positivity) hM (by positivity) (by norm_num) (by linarith) he hW ht
  have h5 := fl_err_le _ _ d2
  have e : fl (s / t) - W / (c * (c + 1) / 2) = (fl (s / t) - s / t) + (s / t - W / (c * (c + 1) / 2)) := by ring
  rw [e]
  have := abs_add_le (fl (s / t) - s / t) (s / t - W / (c * (c + 1) / 2))
  have hwu : (k ^ 2 / (c + 1) + k) * u * M * u ≤ (k ^ 2 / (c + 1) + k) * u * M * (1 / 64) :=
    mul_le_mul_of_nonneg_left hu64 hw
  have huM : 0 ≤ u * M := mul_nonneg hu hM
  have e2 : 4 * (k ^ 2 / (c + 1) + k + 2) * u * M = 4 * ((k ^ 2 / (c + 1) + k) * u * M) + 8 * (u * M) := by ring
  rw [e2]
  nlinarith

/-- the output as computed (denominator included) against the exact weighted mean -/
theorem out_total (sv W M k c : K) (hk : 1 ≤ k) (hc1 : 1 ≤ c) (hM : 0 ≤ M) (hku : k * u ≤ 1 / 64)
    (hW : |W| ≤ c * (c + 1) / 2 * M)
    (he : |sv - W| ≤ (7 / 4 * k ^ 2 * c + 7 / 4 * k * c * (c + 1)) * u * M) :
    |fl (sv / fl (fl (c * fl (c + fl 1)) / fl 2)) - W / (c * (c + 1) / 2)|
      ≤ 4 * (k ^ 2 / (c + 1) + k + 2) * u * M := by
  have hu : (0 : K) ≤ u := u_nonneg
  have hu64 : (u : K) ≤ 1 / 64 := by nlinarith
  exact out_step _ _ _ _ _ _ hk hc1 hM hku hW he (den_bound c hc1 hu64)

end Arith

/-! ## Abstraction invariant and the one-step lemma for the generated code -/

variable [Rounding K]

/-- abstraction relation between a concrete state (over the rounding scalar `R K`) and the
    history `h` of inputs since the last reset (`k = |h|`, `c = min(k,n)`): the ring buffer
    holds the inputs exactly, `weight = c` exactly, `sum_flat` is off the exact window sum by at
    most `3·k·c·u·M`, `sum` is off the exact weighted sum by at most
    `7/4·(k²·c + k·c·(c+1))·u·M`. -/
structure Inv (n : Nat) (M : K) (s : WeightedMovingAverage (R K)) (h : List K) : Prop where
  period : s.period = n
  small : n * 8 ≤ isizeMax
  ring : RingInv (R.mk (0 : K)) s.deque n s.index s.count (h.map R.mk)
  weight : s.weight = R.mk ((min h.length n : Nat) : K)
  errF : |s.sum_flat.v - (lastN n h).sum| ≤ 3 * (h.length : K) * ((min h.length n : Nat) : K) * u * M
  errS : |s.sum.v - wsum (lastN n h)|
      ≤ (7 / 4 * (h.length : K) ^ 2 * ((min h.length n : Nat) : K)
          + 7 / 4 * (h.length : K) * ((min h.length n : Nat) : K) * (((min h.length n : Nat) : K) + 1)) * u * M

theorem inv_fresh (n : Nat) (M : K) (hn : 0 < n) (h8 : n * 8 ≤ isizeMax) :
    Inv n M (fresh n : WeightedMovingAverage (R K)) [] := by
  refine ⟨rfl, h8, ?_, ?_, ?_, ?_⟩
  · simpa [fresh] using RingInv.fresh (R.mk (0 : K)) n hn
  · simp [fresh]
  · simp [fresh, lastN]
  · simp [fresh, lastN, wsum]

theorem inv_wf {n : Nat} {M : K} {s : WeightedMovingAverage (R K)} {h : List K} (i : Inv n M s h) : WF s :=
  ⟨by rw [i.period]; exact i.ring.npos, by rw [i.period]; exact i.small, by rw [i.period]; exact i.ring.size,
   by rw [i.period]; exact i.ring.idx_lt, by rw [i.period]; exact i.ring.cnt_le⟩

/-- One call of the generated `next` on a state related to history `h`: it succeeds, the new
    state is related to `h ++ [x]`, and the output is within `4·(k²/(c+1) + k + 2)·u·M` of the
    exact weighted mean of the window (`k = |h| + 1` inputs so far, `c = min(k,n)`). -/
theorem step {n : Nat} {M : K} {s : WeightedMovingAverage (R K)} {h : List K} (i : Inv n M s h)
    (hh : ∀ a ∈ h, |a| ≤ M) (x : K) (hx : |x| ≤ M)
    (hu : ((h.length + 1 : Nat) : K) * u ≤ 1 / 64) :
    ∃ s' y, s.next (R.mk x) = some (s', y) ∧ Inv n M s' (h ++ [x]) ∧
      |y.v - wma (lastN n (h ++ [x]))|
        ≤ 4 * (((h.length + 1 : Nat) : K) ^ 2 / (((min (h.length + 1) n : Nat) : K) + 1)
              + ((h.length + 1 : Nat) : K) + 2) * u * M := by
  have hn := i.ring.npos
  have hcur := i.ring.at_cursor
  have hceq := i.ring.cnt
  have hsmall := i.small
  have hpush := i.ring.push (R.mk x)
  have hwf := inv_wf i
  have hM : 0 ≤ M := le_trans (abs_nonneg _) hx
  have hu0 : (0 : K) ≤ u := u_nonneg
  obtain ⟨p, ix, c, wt, sm, sf, d⟩ := s
  have hp : p = n := i.period
  subst hp
  simp only [List.length_map] at hcur hpush hceq
  have herrF : |sf.v - (lastN p h).sum| ≤ 3 * (h.length : K) * ((min h.length p : Nat) : K) * u * M := i.errF
  have herrS : |sm.v - wsum (lastN p h)|
      ≤ (7 / 4 * (h.length : K) ^ 2 * ((min h.length p : Nat) : K)
          + 7 / 4 * (h.length : K) * ((min h.length p : Nat) : K) * (((min h.length p : Nat) : K) + 1)) * u * M :=
    i.errS
  have hwt : wt = R.mk ((min h.length p : Nat) : K) := i.weight
  -- the evicted value
  have hold : d[ix]? = some (R.mk (SMA.evicted p h)) := by
    rw [hcur]
    unfold SMA.evicted
    by_cases hl : h.length < p
    · simp [hl]
    · simp only [hl, if_false]
      have : h.length - p < h.length := by omega
      simp [List.getElem?_map, List.getElem?_eq_getElem this]
  -- count after the push
  have hc' : (if c < p then c + 1 else c) = min (h.length + 1) p := by
    have := hpush.cnt
    simpa using this
  -- exact quantities
  have hlen : (lastN p (h ++ [x])).length = min (h.length + 1) p := by rw [lastN_length]; simp
  have hTlen : (lastN (p - 1) h).length + 1 = min (h.length + 1) p := by rw [lastN_length]; omega
  have hTK : ((lastN (p - 1) h).length : K) = ((min (h.length + 1) p : Nat) : K) - 1 := by
    rw [← hTlen]; push_cast; ring
  have hmemT : ∀ a ∈ lastN (p - 1) h, |a| ≤ M := fun a ha => hh a (SMA.mem_lastN _ _ _ ha)
  have hc1 : (1 : K) ≤ ((min (h.length + 1) p : Nat) : K) := by
    exact_mod_cast (by omega : 1 ≤ min (h.length + 1) p)
  have hc0c : ((min h.length p : Nat) : K) ≤ ((min (h.length + 1) p : Nat) : K) := by
    exact_mod_cast (by omega : min h.length p ≤ min (h.length + 1) p)
  have hku : ((h.length : K) + 1) * u ≤ 1 / 64 := by simpa using hu
  have hku8 : ((h.length : K) + 1) * u ≤ 1 / 8 := by linarith
  have hk1 : (1 : K) ≤ (h.length : K) + 1 := by
    have : (0 : K) ≤ (h.length : K) := Nat.cast_nonneg _
    linarith
  -- plain sum (as for SMA)
  have hS' : (lastN p (h ++ [x])).sum = (lastN (p - 1) h).sum + x := by rw [SMA.lastN_snoc p hn]; simp
  have hTb : |(lastN (p - 1) h).sum| ≤ (((min (h.length + 1) p : Nat) : K) - 1) * M := by
    rw [← hTK]
    exact SMA.abs_sum_le _ _ hmemT
  have hsplit : sf.v - SMA.evicted p h = (lastN (p - 1) h).sum + (sf.v - (lastN p h).sum) := by
    rw [← SMA.sum_sub_evicted p hn h]; ring
  have hsumF : |fl (fl (sf.v - SMA.evicted p h) + x) - ((lastN (p - 1) h).sum + x)|
      ≤ 3 * ((h.length : K) + 1) * ((min (h.length + 1) p : Nat) : K) * u * M := by
    rw [hsplit]
    exact SMA.sum_step _ _ x M _ _ _ (Nat.cast_nonneg _) (Nat.cast_nonneg _) hc0c hc1 hku8 hTb hx herrF
  -- weighted sum
  have hW' : wsum (lastN p (h ++ [x])) = wsum (lastN (p - 1) h) + x * ((min (h.length + 1) p : Nat) : K) := by
    rw [SMA.lastN_snoc p hn, wsum_append_one, hTK]; ring
  have hTWb : |wsum (lastN (p - 1) h)|
      ≤ (((min (h.length + 1) p : Nat) : K) - 1) * ((min (h.length + 1) p : Nat) : K) / 2 * M := by
    have := abs_wsum_le _ M hmemT
    rw [hTK] at this
    simpa using this
  have hWb : |wsum (lastN (p - 1) h) + x * ((min (h.length + 1) p : Nat) : K)|
      ≤ ((min (h.length + 1) p : Nat) : K) * (((min (h.length + 1) p : Nat) : K) + 1) / 2 * M := by
    have h1 := abs_add_le (wsum (lastN (p - 1) h)) (x * ((min (h.length + 1) p : Nat) : K))
    have h2 : |x * ((min (h.length + 1) p : Nat) : K)| ≤ ((min (h.length + 1) p : Nat) : K) * M := by
      rw [abs_mul, abs_of_nonneg (by linarith : (0 : K) ≤ ((min (h.length + 1) p : Nat) : K)), mul_comm]
      exact mul_le_mul_of_nonneg_left hx (by linarith)
    have e : ((min (h.length + 1) p : Nat) : K) * (((min (h.length + 1) p : Nat) : K) + 1) / 2 * M
        = (((min (h.length + 1) p : Nat) : K) - 1) * ((min (h.length + 1) p : Nat) : K) / 2 * M
          + ((min (h.length + 1) p : Nat) : K) * M := by ring
    rw [e]; linarith
  have hnum := err_numeric (h.length : K) ((min h.length p : Nat) : K) ((min (h.length + 1) p : Nat) : K) M
    (Nat.cast_nonneg _) (Nat.cast_nonneg _) hc0c hc1 hM hku
  by_cases hl : h.length < p
  · -- warming up
    have hcp : c < p := by omega
    have hcl : c = h.length := by omega
    have hmin : min (h.length + 1) p = c + 1 := by omega
    have hw : lastN p h = lastN (p - 1) h := by
      rw [lastN_of_le p h (by omega), lastN_of_le (p - 1) h (by omega)]
    have hsm : sm.v = wsum (lastN (p - 1) h) + (sm.v - wsum (lastN p h)) := by rw [hw]; ring
    have hsumS : |fl (sm.v + fl (x * ((min (h.length + 1) p : Nat) : K)))
          - (wsum (lastN (p - 1) h) + x * ((min (h.length + 1) p : Nat) : K))|
        ≤ (7 / 4 * ((h.length : K) + 1) ^ 2 * ((min (h.length + 1) p : Nat) : K)
            + 7 / 4 * ((h.length : K) + 1) * ((min (h.length + 1) p : Nat) : K)
              * (((min (h.length + 1) p : Nat) : K) + 1)) * u * M := by
      rw [hsm]
      have h0 : 0 ≤ 3 * (h.length : K) * ((min h.length p : Nat) : K) * u * M := by positivity
      exact le_trans (wsum_step_warm _ _ x M _ _ hc1 hM hTWb hx (by linarith)) hnum
    have hout := out_total _ _ M ((h.length : K) + 1) ((min (h.length + 1) p : Nat) : K) hk1 hc1 hM hku hWb hsumS
    refine ⟨_, _, next_eq _ _ _ hwf hold, ⟨rfl, hsmall, ?_, ?_, ?_, ?_⟩, ?_⟩
    · simpa using hpush
    · simp only [hcp, if_true, List.length_append, List.length_singleton, hmin]
      rfl
    · simp only [R.add_v, R.sub_v, R.mk_v, hS', List.length_append, List.length_singleton]
      push_cast at hsumF ⊢
      exact hsumF
    · simp only [hcp, if_true, R.add_v, R.mul_v, R.mk_v, R.ofNat_v, hW', List.length_append,
        List.length_singleton]
      rw [hmin] at hsumS ⊢
      push_cast at hsumS ⊢
      exact hsumS
    · simp only [hcp, if_true, R.div_v, R.add_v, R.mul_v, R.mk_v, R.ofNat_v, R.lit_v, wma, hW', hlen]
      rw [hmin] at hout ⊢
      simpa using hout
  · -- full window
    have hcp : ¬ c < p := by omega
    have hmin : min (h.length + 1) p = p := by omega
    have hmin0 : min h.length p = p := by omega
    have hsm : sm.v - sf.v = wsum (lastN (p - 1) h)
        + ((sm.v - wsum (lastN p h)) - (sf.v - (lastN p h).sum)) := by
      rw [← wsum_sub_sum p hn h (by omega)]; ring
    have he : |(sm.v - wsum (lastN p h)) - (sf.v - (lastN p h).sum)|
        ≤ (7 / 4 * (h.length : K) ^ 2 * ((min h.length p : Nat) : K)
          + 7 / 4 * (h.length : K) * ((min h.length p : Nat) : K) * (((min h.length p : Nat) : K) + 1)) * u * M
          + 3 * (h.length : K) * ((min h.length p : Nat) : K) * u * M := by
      have := abs_sub (sm.v - wsum (lastN p h)) (sf.v - (lastN p h).sum)
      linarith
    have hsumS : |fl (fl (sm.v - sf.v) + fl (x * ((min (h.length + 1) p : Nat) : K)))
          - (wsum (lastN (p - 1) h) + x * ((min (h.length + 1) p : Nat) : K))|
        ≤ (7 / 4 * ((h.length : K) + 1) ^ 2 * ((min (h.length + 1) p : Nat) : K)
            + 7 / 4 * ((h.length : K) + 1) * ((min (h.length + 1) p : Nat) : K)
              * (((min (h.length + 1) p : Nat) : K) + 1)) * u * M := by
      rw [hsm]
      exact le_trans (wsum_step_full _ _ x M _ _ hc1 hM hTWb hx he) hnum
    have hout := out_total _ _ M ((h.length : K) + 1) ((min (h.length + 1) p : Nat) : K) hk1 hc1 hM hku hWb hsumS
    rw [hmin0] at hwt
    refine ⟨_, _, next_eq _ _ _ hwf hold, ⟨rfl, hsmall, ?_, ?_, ?_, ?_⟩, ?_⟩
    · simpa using hpush
    · simp [hcp, hmin, hwt]
    · simp only [R.add_v, R.sub_v, R.mk_v, hS', List.length_append, List.length_singleton]
      push_cast at hsumF ⊢
      exact hsumF
    · simp only [hcp, if_false, R.add_v, R.sub_v, R.mul_v, R.mk_v, hwt, hW', List.length_append,
        List.length_singleton]
      rw [hmin] at hsumS ⊢
      push_cast at hsumS ⊢
      exact hsumS
    · simp only [hcp, if_false, R.div_v, R.add_v, R.sub_v, R.mul_v, R.mk_v, R.lit_v, hwt, wma, hW', hlen]
      rw [hmin] at hout ⊢
      simpa using hout

/-! ## Whole streams -/

/-- the bound on the `k`-th output, window length `c`: `4·(k²/(c+1) + k + 2)·u·M` -/
def bound (M : K) (k c : Nat) : K := 4 * ((k : K) ^ 2 / ((c : K) + 1) + (k : K) + 2) * u * M

/-- from any related state: every call succeeds and every output is within the bound -/
theorem run_from (n : Nat) (M : K) (ys : List K) :
    ∀ (h : List K) (s : WeightedMovingAverage (R K)), Inv n M s h → (∀ a ∈ h, |a| ≤ M) →
      (∀ a ∈ ys, |a| ≤ M) → ((h.length + ys.length : Nat) : K) * u ≤ 1 / 64 →
      ∃ s' outs, runOut next s (ys.map R.mk) = some (s', outs) ∧ Inv n M s' (h ++ ys) ∧
        List.Forall₂ (fun (y : R K) (p : List K) =>
            |y.v - wma (lastN n (h ++ p))|
              ≤ bound M (h.length + p.length) (min (h.length + p.length) n))
          outs (prefixes ys) := by
  induction ys with
  | nil =>
    intro h s i _ _ _
    exact ⟨s, [], rfl, by simpa using i, by simp [prefixes]⟩
  | cons y ys ih =>
    intro h s i hh hys hu
    have hu0 : (0 : K) ≤ u := u_nonneg
    have hy : |y| ≤ M := hys y (by simp)
    have hu1 : ((h.length + 1 : Nat) : K) * u ≤ 1 / 64 := by
      refine le_trans (mul_le_mul_of_nonneg_right ?_ hu0) hu
      exact_mod_cast (by simp : h.length + 1 ≤ h.length + (y :: ys).length)
    obtain ⟨s1, o1, e1, i1, b1⟩ := step i hh y hy hu1
    have hh1 : ∀ a ∈ h ++ [y], |a| ≤ M := by
      intro a ha
      rcases List.mem_append.mp ha with ha | ha
      · exact hh a ha
      · simp at ha; rw [ha]; exact hy
    have hu2 : (((h ++ [y]).length + ys.length : Nat) : K) * u ≤ 1 / 64 := by
      have : (h ++ [y]).length + ys.length = h.length + (y :: ys).length := by simp; omega
      rw [this]; exact hu
    obtain ⟨s2, o2, e2, i2, b2⟩ := ih (h ++ [y]) s1 i1 hh1 (fun a ha => hys a (by simp [ha])) hu2
    refine ⟨s2, o1 :: o2, ?_, by simpa using i2, ?_⟩
    · rw [List.map_cons, runOut_cons next s (R.mk y) _ s1 o1 e1, e2]; rfl
    · rw [SMA.prefixes_cons]
      refine List.Forall₂.cons ?_ ?_
      · simpa [bound] using b1
      · rw [List.forall₂_map_right_iff]
        refine b2.imp ?_
        intro o p hb
        have e : (h ++ [y]).length + p.length = h.length + (y :: p).length := by simp; omega
        rw [e] at hb
        simpa using hb

/-- **WMA rounding-error theorem** (standard model; generated code).
    For every period `n ≥ 1` (accepted by `new`: `n·8 ≤ isize::MAX`), every bound `M`, every
    stream `xs` whose entries satisfy `|x| ≤ M` and whose length `t` satisfies `t·u ≤ 1/64`:
    feeding `xs` to the state `new(n)` builds never panics, and the output `y` produced after
    the prefix `p` of `xs` (`k = |p|` inputs, window length `c = min(k,n)`) satisfies
    `|y − wma (last c entries of p)| ≤ 4·(k²/(c+1) + k + 2)·u·M`
    (`wma` = weights `1..c`, newest heaviest, divided by `c(c+1)/2`).
    The bound is quadratic in `k`: the accumulated error of `sum_flat` is subtracted from
    `sum` at every step. -/
theorem wma_rounding (n : Nat) (hn : 0 < n) (h8 : n * 8 ≤ isizeMax) (M : K) (xs : List K)
    (hM : ∀ x ∈ xs, |x| ≤ M) (ht : (xs.length : K) * u ≤ 1 / 64) :
    ∃ s' ys, runOut next (fresh n : WeightedMovingAverage (R K)) (xs.map R.mk) = some (s', ys) ∧
      List.Forall₂ (fun (y : R K) (p : List K) =>
          |y.v - wma (lastN n p)|
            ≤ 4 * ((p.length : K) ^ 2 / (((min p.length n : Nat) : K) + 1) + (p.length : K) + 2) * u * M)
        ys (prefixes xs) := by
  obtain ⟨s', ys, e, _, b⟩ := run_from n M xs [] _ (inv_fresh n M hn h8) (by simp) hM (by simpa using ht)
  exact ⟨s', ys, e, by simpa [bound] using b⟩

/-- the same, indexed: the `k`-th output (0-based) exists and is within the bound of the weighted
    mean of the last `min(k+1, n)` of the first `k+1` inputs -/
theorem wma_rounding_get (n : Nat) (hn : 0 < n) (h8 : n * 8 ≤ isizeMax) (M : K) (xs : List K)
    (hM : ∀ x ∈ xs, |x| ≤ M) (ht : (xs.length : K) * u ≤ 1 / 64) :
    ∃ s' ys, runOut next (fresh n : WeightedMovingAverage (R K)) (xs.map R.mk) = some (s', ys) ∧
      ys.length = xs.length ∧
      ∀ k (hk : k < ys.length),
        |(ys[k]).v - wma (lastN n (xs.take (k + 1)))|
          ≤ 4 * (((k + 1 : Nat) : K) ^ 2 / (((min (k + 1) n : Nat) : K) + 1) + ((k + 1 : Nat) : K) + 2) * u * M := by
  obtain ⟨s', ys, e, b⟩ := wma_rounding n hn h8 M xs hM ht
  have hl : ys.length = xs.length := by rw [b.length_eq, prefixes_length]
  refine ⟨s', ys, e, hl, ?_⟩
  intro k hk
  have hk2 : k < (prefixes xs).length := by rw [prefixes_length]; omega
  have hb := List.Forall₂.get b hk hk2
  have hp : (prefixes xs)[k] = xs.take (k + 1) := by simp [prefixes]
  simp only [List.get_eq_getElem, hp] at hb
  have hlen : (xs.take (k + 1)).length = k + 1 := by simp; omega
  rw [hlen] at hb
  exact hb

/-- as long as the window is not yet full (`k ≤ n`, so `c = k`) the bound is linear in `k`:
    at most `4·(2k + 2)·u·M` -/
theorem bound_warm (M : K) (hM : 0 ≤ M) (k n : Nat) (hk : k ≤ n) :
    4 * ((k : K) ^ 2 / (((min k n : Nat) : K) + 1) + (k : K) + 2) * u * M
      ≤ 4 * (2 * (k : K) + 2) * u * M := by
  have hu0 : (0 : K) ≤ u := u_nonneg
  have hmin : min k n = k := by omega
  rw [hmin]
  have hk0 : (0 : K) ≤ (k : K) := Nat.cast_nonneg _
  have h1 : (k : K) ^ 2 / ((k : K) + 1) ≤ (k : K) := by
    rw [div_le_iff₀ (by linarith)]
    nlinarith
  have h2 : 4 * ((k : K) ^ 2 / ((k : K) + 1) + (k : K) + 2) ≤ 4 * (2 * (k : K) + 2) := by linarith
  exact mul_le_mul_of_nonneg_right (mul_le_mul_of_nonneg_right h2 hu0) hM

end TaRs.Round.WMA
