/-
  Layer R (PPO line): non-vacuity of `PPO.ppo_line_rounding` at a concrete rounding with a genuine
  error, and the size of the bound for PPO(12, 26, ·) at binary64 precision.
-/
import TaRs.Round.PPO
import TaRs.Round.TauBase
import Mathlib.Tactic.NormNum
import Mathlib.Tactic.Linarith
import Mathlib.Tactic.Positivity
namespace TaRs.Round.Tau
open TaRs TaRs.Rs TaRs.Gen Rounding

/-- the bound of `ppo_line_rounding` for PPO(12, 26) at `u = 2^-53` on prices within a factor 2
    (`m = 1`, `M = 2`; the bound scales with `(M/m)²`): below 5e-11 percentage points, for every
    stream length -/
theorem ppo_12_26_bound :
    100 * ((1 + 5 * u64) *
        (2 * (6 * (((12 : ℕ) : ℚ) + 1) * u64 * 2 + 6 * (((26 : ℕ) : ℚ) + 1) * u64 * 2
              + u64 * (2 * 2 + 6 * (((12 : ℕ) : ℚ) + 1) * u64 * 2 + 6 * (((26 : ℕ) : ℚ) + 1) * u64 * 2)) / 1
          + 4 * 2 * (6 * (((26 : ℕ) : ℚ) + 1) * u64 * 2) / 1 ^ 2)
        + 5 * u64 * (2 * 2 / 1)) ≤ 5 / 10 ^ 11 := by
  unfold u64; norm_num

section NonVacuity
attribute [local instance] inflate

/-- `ppo_line_rounding` applies (periods 2, 3, 2; prices in [1, 2]; rounding `inflate`) -/
example : ∃ s' ys, runOut PercentagePriceOscillator.next
      (PercentagePriceOscillator.fresh 2 3 2 : PercentagePriceOscillator (R ℚ)) (([1, 2, 3 / 2] : List ℚ).map R.mk)
        = some (s', ys) := by
  obtain ⟨s', ys, e, _⟩ := PPO.ppo_line_rounding (K := ℚ) 2 3 2 (by decide) (by decide) (1 : ℚ) (2 : ℚ) (by norm_num)
    ([1, 2, 3 / 2] : List ℚ) (by decide +kernel) (by decide +kernel)
    (by show (((2 : ℕ) : ℚ) + 1) * (1 / 2 ^ 20) ≤ 1 / 64; norm_num)
    (by show (((3 : ℕ) : ℚ) + 1) * (1 / 2 ^ 20) ≤ 1 / 64; norm_num)
    (by show 2 * (6 * (((3 : ℕ) : ℚ) + 1) * (1 / 2 ^ 20) * 2) ≤ (1 : ℚ); norm_num)
  exact ⟨s', ys, e⟩

end NonVacuity

end TaRs.Round.Tau
