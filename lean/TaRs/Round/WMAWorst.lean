/-
  Layer R, WeightedMovingAverage: the QUADRATIC growth of the bound `WMA.wma_rounding` is
  attained inside the standard model (so it is a property of the algorithm, not of the proof).

  Take ANY rounding that obeys the standard-model law by always rounding away from zero by the
  full relative amount, `fl x = x·(1+u)` (e.g. `Tau.inflate64`, `u = 2^-53`).  Feed the
  generated WMA of period `n` with `n` zeros followed by `j` ones (`M = 1`).  Then
  `sum_flat` drifts upwards by `≥ (2n−1)·u` per step once the window is full of ones, this
  excess is subtracted from `sum` at every step, and after `j ≥ n` ones the output `y`
  (exact value: `wma = 1`) satisfies  (`wma_worst`)

        1 − y ≥ 3/4 · ( (2n−1)·(j−n)(j−n−1)/(n(n+1)) − 2·j·(2+u) ) · u      (≈ 3/2·j²·u/(n+1))

  (whenever the bracket is ≥ 0), against the upper bound `4·(k²/(n+1) + k + 2)·u` of
  `wma_rounding` (`k = n + j`): same order `k²·u/n`, constants within a factor ≈ 4.
  Numeric corollary `wma_worst_above_tau` (in `TauWMA.lean`): at `u = 2^-53`, `k = 2·10^6`
  inputs, every period `n ≤ 50`, that output is off by more than `τ(k)`.
-/
import TaRs.Round.WMA
set_option linter.unusedSectionVars false
namespace TaRs.Round.WMA
open TaRs TaRs.Rs TaRs.Spec TaRs.Gen TaRs.Gen.WeightedMovingAverage Rounding

variable {K : Type} [Field K] [LinearOrder K] [IsStrictOrderedRing K]

/-! ## Generic: feeding one more input -/

theorem runOut_snoc {S I O : Type} (next : S → I → Option (S × O)) (l : List I) :
    ∀ (s s1 s2 : S) (o1 : List O) (x : I) (y : O), runOut next s l = some (s1, o1) →
      next s1 x = some (s2, y) → runOut next s (l ++ [x]) = some (s2, o1 ++ [y]) := by
  induction l with
  | nil =>
    intro s s1 s2 o1 x y h1 h2
    simp only [runOut, Option.some.injEq, Prod.mk.injEq] at h1
    obtain ⟨rfl, rfl⟩ := h1
    simp [runOut, h2]
  | cons a l ih =>
    intro s s1 s2 o1 x y h1 h2
    cases hn : next s a with
    | none => simp [runOut, hn] at h1
    | some r =>
      obtain ⟨s', ya⟩ := r
      rw [runOut_cons next s a l s' ya hn] at h1
      cases hr : runOut next s' l with
      | none => simp [hr] at h1
      | some r2 =>
        obtain ⟨s'', o⟩ := r2
        simp only [hr, Option.map_some, Option.some.injEq, Prod.mk.injEq] at h1
        obtain ⟨rfl, rfl⟩ := h1
        rw [List.cons_append, runOut_cons next s a _ s' ya hn, ih s' _ s2 o x y hr h2]
        rfl

/-! ## The stream: `n` zeros, then `j` ones -/

/-- `n` zeros followed by `j` ones -/
def zo (n j : Nat) : List K := List.replicate n 0 ++ List.replicate j 1

theorem zo_length (n j : Nat) : (zo n j : List K).length = n + j := by simp [zo]

theorem zo_succ (n j : Nat) : (zo n (j + 1) : List K) = zo n j ++ [1] := by
  simp [zo, List.replicate_succ', List.append_assoc]

theorem zo_mem (n j : Nat) (a : K) (ha : a ∈ (zo n j : List K)) : 0 ≤ a ∧ a ≤ 1 := by
  simp only [zo, List.mem_append, List.mem_replicate] at ha
  rcases ha with ⟨_, rfl⟩ | ⟨_, rfl⟩ <;> constructor <;> norm_num

theorem zo_abs (n j : Nat) (a : K) (ha : a ∈ (zo n j : List K)) : |a| ≤ 1 := by
  obtain ⟨h0, h1⟩ := zo_mem n j a ha
  rw [abs_of_nonneg h0]; exact h1

/-- once `m` ones have arrived the last `m` values are ones -/
theorem lastN_zo (n j m : Nat) (hm : m ≤ j) : lastN m (zo n j : List K) = List.replicate m 1 := by
  unfold zo
  rw [lastN_append m _ _ (by simp; exact hm)]
  unfold lastN
  simp only [List.length_replicate, List.drop_replicate]
  congr 1
  omega

theorem sum_replicate_one (m : Nat) : (List.replicate m (1 : K)).sum = (m : K) := by
  simp

theorem wsum_replicate_one (m : Nat) : wsum (List.replicate m (1 : K)) = (m : K) * ((m : K) + 1) / 2 := by
  induction m with
  | zero => simp [wsum]
  | succ m ih =>
    rw [List.replicate_succ', wsum_append_one, ih, List.length_replicate]
    push_cast
    ring

theorem sum_nonneg_of (l : List K) (h : ∀ a ∈ l, 0 ≤ a) : 0 ≤ l.sum := by
  induction l with
  | nil => simp
  | cons a t ih =>
    have := h a (by simp)
    have := ih (fun b hb => h b (by simp [hb]))
    simp only [List.sum_cons]
    linarith

/-! ## The invariant of the second phase (ones arriving) -/

variable [Rounding K]

/-- number of steps with a window full of ones before step `j` (as a field element) -/
def tt (n j : Nat) : K := ((j - n : Nat) : K)

/-- `Σ_{i<j} tt i` -/
def qq (n j : Nat) : K := tt (K := K) n j * (tt n j - 1) / 2

theorem tt_nonneg (n j : Nat) : (0 : K) ≤ tt n j := Nat.cast_nonneg _

theorem tt_succ (n j : Nat) : tt (K := K) n (j + 1) = if n ≤ j then tt n j + 1 else tt n j := by
  unfold tt
  by_cases h : n ≤ j
  · simp only [h, if_true]
    have : j + 1 - n = (j - n) + 1 := by omega
    rw [this]; push_cast; ring
  · simp only [h, if_false]
    have h1 : j + 1 - n = 0 := by omega
    have h2 : j - n = 0 := by omega
    rw [h1, h2]

theorem qq_nonneg (n j : Nat) : (0 : K) ≤ qq n j := by
  unfold qq tt
  rcases Nat.eq_zero_or_pos (j - n) with h | h
  · rw [h]; simp
  · have h1 : (1 : K) ≤ ((j - n : Nat) : K) := by exact_mod_cast h
    have : (0 : K) ≤ ((j - n : Nat) : K) - 1 := by linarith
    positivity

theorem qq_succ (n j : Nat) : qq (K := K) n (j + 1) = qq n j + tt n j := by
  unfold qq
  rw [tt_succ]
  by_cases h : n ≤ j
  · simp only [h, if_true]; ring
  · simp only [h, if_false]
    have h2 : tt (K := K) n j = 0 := by unfold tt; have : j - n = 0 := by omega
                                        rw [this]; simp
    rw [h2]; ring

/-- per-step rounding excess of the weighted sum: `((1+u)² − 1)·n(n+1)/2` -/
def aa (n : Nat) : K := u * (2 + u) * ((n : K) * ((n : K) + 1) / 2)

/-- upper bound of `sum − exact` after `j` ones: `2·j·A − (2n−1)·u·Σ_{i<j} tt i` -/
def ebound (n j : Nat) : K := 2 * (j : K) * aa n - (2 * (n : K) - 1) * u * qq n j

/-- abstraction relation for the second phase: history = `n` zeros and `j` ones; ring buffer
    exact; `sum_flat` is ABOVE the exact window sum by at least `(2n−1)·u·tt j`; `sum` is
    above the exact weighted sum by at most `ebound n j` (negative for large `j`). -/
structure Inv2 (n j : Nat) (s : WeightedMovingAverage (R K)) : Prop where
  period : s.period = n
  small : n * 8 ≤ isizeMax
  ring : RingInv (R.mk (0 : K)) s.deque n s.index s.count ((zo n j : List K).map R.mk)
  weight : s.weight = R.mk (n : K)
  dpos : 0 ≤ s.sum_flat.v - (lastN n (zo n j : List K)).sum
  dlow : (2 * (n : K) - 1) * u * tt n j ≤ s.sum_flat.v - (lastN n (zo n j : List K)).sum
  eup : s.sum.v - wsum (lastN n (zo n j : List K)) ≤ ebound n j

theorem inv2_wf {n j : Nat} {s : WeightedMovingAverage (R K)} (i : Inv2 n j s) : WF s :=
  ⟨by rw [i.period]; exact i.ring.npos, by rw [i.period]; exact i.small, by rw [i.period]; exact i.ring.size,
   by rw [i.period]; exact i.ring.idx_lt, by rw [i.period]; exact i.ring.cnt_le⟩

/-- after the `n` zeros everything is still exactly zero -/
theorem inv2_zero {n : Nat} {s : WeightedMovingAverage (R K)}
    (i : Inv n (0 : K) s (List.replicate n (0 : K))) : Inv2 n 0 s := by
  have hF := i.errF
  have hS := i.errS
  simp only [mul_zero] at hF hS
  have hF0 := abs_eq_zero.mp (le_antisymm hF (abs_nonneg _))
  have hS0 := abs_eq_zero.mp (le_antisymm hS (abs_nonneg _))
  have hz : (zo n 0 : List K) = List.replicate n 0 := by simp [zo]
  refine ⟨i.period, i.small, by rw [hz]; exact i.ring, ?_, ?_, ?_, ?_⟩
  · have := i.weight
    simpa using this
  · rw [hz, hF0]
  · rw [hz, hF0]; simp [tt]
  · rw [hz, hS0]; simp [ebound, qq, tt]

section Step
variable (hfl : ∀ x : K, fl x = x * (1 + u))
include hfl

/-- update of `sum_flat` under `fl x = x(1+u)`: the excess `dd` over the exact sum grows -/
theorem worst_flat (sr dd : K) :
    fl (fl (sr + dd) + 1) - (sr + 1) = dd * (1 + u) ^ 2 + sr * (u * (2 + u)) + u := by
  rw [hfl, hfl]; ring

/-- update of `sum` under `fl x = x(1+u)` -/
theorem worst_sum (T ee dd n : K) :
    fl (fl (T + ee - dd) + fl (1 * n)) - (T + 1 * n)
      = (1 + u) ^ 2 * (ee - dd) + u * (2 + u) * (T + 1 * n) := by
  rw [hfl, hfl, hfl]; ring

/-- the computed output in closed form -/
theorem worst_out_eq (S' n : K) (hn : 1 ≤ n) :
    fl (S' / fl (fl (n * fl (n + fl 1)) / fl 2)) = 2 * S' / (n * (n + (1 + u)) * (1 + u)) := by
  have hu0 : (0 : K) ≤ u := u_nonneg
  have hg : (1 : K) + u ≠ 0 := by positivity
  have hpg : n + (1 + u) ≠ 0 := by
    have : (0 : K) < n + (1 + u) := by linarith
    exact ne_of_gt this
  have hp0 : n ≠ 0 := by
    have : (0 : K) < n := by linarith
    exact ne_of_gt this
  simp only [hfl, one_mul]
  field_simp

omit hfl in
/-- the excess of `sum_flat` grows by at least `(2n−1)·u` per step once the window is all ones -/
theorem worst_dlow (n j : Nat) (hn : 0 < n) (dd sr : K) (hdpos : 0 ≤ dd) (hsr0 : 0 ≤ sr)
    (hsr : n ≤ j → sr = (n : K) - 1)
    (hdlow : (2 * (n : K) - 1) * u * tt n j ≤ dd) :
    0 ≤ dd * (1 + u) ^ 2 + sr * (u * (2 + u)) + u ∧
    (2 * (n : K) - 1) * u * tt n (j + 1) ≤ dd * (1 + u) ^ 2 + sr * (u * (2 + u)) + u := by
  have hu0 : (0 : K) ≤ u := u_nonneg
  have hpK : (1 : K) ≤ (n : K) := by exact_mod_cast hn
  have hg2 : (1 : K) ≤ (1 + u) ^ 2 := by nlinarith
  have hpos : 0 ≤ dd * (1 + u) ^ 2 + sr * (u * (2 + u)) + u := by positivity
  refine ⟨hpos, ?_⟩
  rw [tt_succ]
  by_cases hpj : n ≤ j
  · simp only [hpj, if_true]
    rw [hsr hpj]
    have h1 : dd * 1 ≤ dd * (1 + u) ^ 2 := mul_le_mul_of_nonneg_left hg2 hdpos
    have h2 : ((n : K) - 1) * (u * 2) ≤ ((n : K) - 1) * (u * (2 + u)) :=
      mul_le_mul_of_nonneg_left (mul_le_mul_of_nonneg_left (by linarith) hu0) (by linarith)
    have e : (2 * (n : K) - 1) * u * (tt n j + 1)
        = (2 * (n : K) - 1) * u * tt n j + (((n : K) - 1) * (u * 2) + u) := by ring
    rw [e]
    linarith
  · simp only [hpj, if_false]
    have : tt (K := K) n j = 0 := by
      unfold tt; have : j - n = 0 := by omega
      rw [this]; simp
    rw [this, mul_zero]
    exact hpos

omit hfl in
/-- the (signed) error of `sum` is pushed down by the excess of `sum_flat` at every step -/
theorem worst_eup (n j : Nat) (hn : 0 < n) (ee dd W' : K)
    (hju : (j : K) * u ≤ 1 / 64) (hu64 : (u : K) ≤ 1 / 64) (hdpos : 0 ≤ dd)
    (hdlow : (2 * (n : K) - 1) * u * tt n j ≤ dd)
    (heup : ee ≤ ebound n j) (hW' : W' ≤ (n : K) * ((n : K) + 1) / 2) :
    (1 + u) ^ 2 * (ee - dd) + u * (2 + u) * W' ≤ ebound n (j + 1) := by
  have hu0 : (0 : K) ≤ u := u_nonneg
  have hpK : (1 : K) ≤ (n : K) := by exact_mod_cast hn
  have hjK : (0 : K) ≤ (j : K) := Nat.cast_nonneg _
  have hg2 : (1 : K) ≤ (1 + u) ^ 2 := by nlinarith
  have hA0 : (0 : K) ≤ aa n := by unfold aa; positivity
  have hjA : 2 * (j : K) * aa n * (u * (2 + u)) ≤ aa n := by
    have h2 : 2 * ((j : K) * u) * (2 + u) ≤ 2 * (1 / 64) * (2 + 1 / 64) :=
      mul_le_mul (by linarith) (by linarith) (by linarith) (by norm_num)
    have h3 : 2 * ((j : K) * u) * (2 + u) ≤ 1 := le_trans h2 (by norm_num)
    have := mul_le_mul_of_nonneg_left h3 hA0
    calc 2 * (j : K) * aa n * (u * (2 + u)) = aa n * (2 * ((j : K) * u) * (2 + u)) := by ring
      _ ≤ aa n * 1 := this
      _ = aa n := by ring
  have h1 : u * (2 + u) * W' ≤ aa n := by
    unfold aa
    exact mul_le_mul_of_nonneg_left hW' (by positivity)
  have h2 : (1 + u) ^ 2 * ee ≤ (1 + u) ^ 2 * ebound n j :=
    mul_le_mul_of_nonneg_left heup (by positivity)
  have h3 : dd * 1 ≤ dd * (1 + u) ^ 2 := mul_le_mul_of_nonneg_left hg2 hdpos
  have hq := qq_nonneg (K := K) n j
  have hc0 : (0 : K) ≤ (2 * (n : K) - 1) * u := mul_nonneg (by linarith) hu0
  have h4 : (2 * (n : K) - 1) * u * qq n j * 1 ≤ (2 * (n : K) - 1) * u * qq n j * (1 + u) ^ 2 :=
    mul_le_mul_of_nonneg_left hg2 (mul_nonneg hc0 hq)
  have h5 : (1 + u) ^ 2 * ebound n j
      = (2 * (j : K) * aa n + 2 * (j : K) * aa n * (u * (2 + u)))
        - (2 * (n : K) - 1) * u * qq n j * (1 + u) ^ 2 := by unfold ebound; ring
  have h6 : ebound (K := K) n (j + 1)
      = 2 * (j : K) * aa n + 2 * aa n - ((2 * (n : K) - 1) * u * qq n j + (2 * (n : K) - 1) * u * tt n j) := by
    unfold ebound; rw [qq_succ]; push_cast; ring
  rw [h6]
  have e : (1 + u) ^ 2 * (ee - dd) = (1 + u) ^ 2 * ee - dd * (1 + u) ^ 2 := by ring
  rw [e]
  linarith

omit hfl in
/-- the output `2·(G + e')/(n(n+g)g)` (`g = 1+u`, `e' ≤ 0`) is below `1 + 3/4·e'/G` -/
theorem worst_out_le (n e' : K) (hn : 1 ≤ n) (hu64 : (u : K) ≤ 1 / 64) (he' : e' ≤ 0) :
    2 * (n * (n + 1) / 2 + e') / (n * (n + (1 + u)) * (1 + u)) ≤ 1 + 3 / 4 * (e' / (n * (n + 1) / 2)) := by
  have hu0 : (0 : K) ≤ u := u_nonneg
  have hn0 : (0 : K) < n := by linarith
  have hden : (0 : K) < n * (n + (1 + u)) * (1 + u) := by positivity
  rw [div_le_iff₀ hden]
  have e1 : (1 + 3 / 4 * (e' / (n * (n + 1) / 2))) * (n * (n + (1 + u)) * (1 + u))
      = n * ((n + (1 + u)) * (1 + u)) + 3 / 2 * e' * ((n + (1 + u)) * (1 + u) / (n + 1)) := by
    field_simp
    ring
  rw [e1]
  have hρ1 : n + 1 ≤ (n + (1 + u)) * (1 + u) := by nlinarith
  have hρ2 : (n + (1 + u)) * (1 + u) / (n + 1) ≤ 4 / 3 := by
    rw [div_le_iff₀ (by linarith)]
    have h1 : (n + (1 + u)) * (1 + u) = (n + 1) + u * (n + 2 + u) := by ring
    have h2 : u * (n + 2 + u) ≤ 1 / 64 * (n + 2 + 1 / 64) :=
      mul_le_mul hu64 (by linarith) (by linarith) (by norm_num)
    rw [h1]
    linarith
  have h7 : 3 / 2 * e' * (4 / 3) ≤ 3 / 2 * e' * ((n + (1 + u)) * (1 + u) / (n + 1)) :=
    mul_le_mul_of_nonpos_left hρ2 (by linarith)
  have h8 : n * (n + 1) ≤ n * ((n + (1 + u)) * (1 + u)) := mul_le_mul_of_nonneg_left hρ1 hn0.le
  linarith

omit hfl in
/-- … hence the output is below `1` by at least `3/4·(−eb)/G` for any `eb` with `e' ≤ eb ≤ 0` -/
theorem worst_out_gap (n e' eb : K) (hn : 1 ≤ n) (hu64 : (u : K) ≤ 1 / 64) (he' : e' ≤ eb) (heb : eb ≤ 0) :
    3 / 4 * (-eb / (n * (n + 1) / 2))
      ≤ 1 - 2 * (n * (n + 1) / 2 + e') / (n * (n + (1 + u)) * (1 + u)) := by
  have hkey := worst_out_le n e' hn hu64 (le_trans he' heb)
  have hG : (0 : K) < n * (n + 1) / 2 := by
    have : (0 : K) < n := by linarith
    positivity
  have hmono : -eb / (n * (n + 1) / 2) ≤ -e' / (n * (n + 1) / 2) :=
    div_le_div_of_nonneg_right (by linarith) hG.le
  have e2 : -e' / (n * (n + 1) / 2) = -(e' / (n * (n + 1) / 2)) := neg_div _ _
  rw [e2] at hmono
  linarith

/-- one more `1` in the second phase -/
theorem step2 {n j : Nat} {s : WeightedMovingAverage (R K)} (i : Inv2 n j s)
    (hu : ((n + j + 1 : Nat) : K) * u ≤ 1 / 64) :
    ∃ s' y, s.next (R.mk 1) = some (s', y) ∧ Inv2 n (j + 1) s' ∧
      (n ≤ j + 1 → ebound (K := K) n (j + 1) ≤ 0 →
        3 / 4 * (-(ebound (K := K) n (j + 1)) / ((n : K) * ((n : K) + 1) / 2)) ≤ 1 - y.v) := by
  have hn := i.ring.npos
  have hcur := i.ring.at_cursor
  have hceq := i.ring.cnt
  have hsmall := i.small
  have hpush := i.ring.push (R.mk 1)
  have hwf := inv2_wf i
  have hu0 : (0 : K) ≤ u := u_nonneg
  obtain ⟨p, ix, c, wt, sm, sf, d⟩ := s
  have hp : p = n := i.period
  subst hp
  have hlenh : (zo p j : List K).length = p + j := zo_length p j
  simp only [List.length_map] at hcur hpush hceq
  rw [hlenh] at hcur hceq
  have hdpos : 0 ≤ sf.v - (lastN p (zo p j : List K)).sum := i.dpos
  have hdlow : (2 * (p : K) - 1) * u * tt p j ≤ sf.v - (lastN p (zo p j : List K)).sum := i.dlow
  have heup : sm.v - wsum (lastN p (zo p j : List K)) ≤ ebound p j := i.eup
  have hwt : wt = R.mk (p : K) := i.weight
  have hcp : ¬ c < p := by omega
  have hfull : p ≤ (zo p j : List K).length := by omega
  -- the evicted value
  have hold : d[ix]? = some (R.mk (SMA.evicted p (zo p j : List K))) := by
    rw [hcur]
    unfold SMA.evicted
    have hl : ¬ p + j < p := by omega
    have hl' : ¬ (zo p j : List K).length < p := by omega
    simp only [hl, hl', if_false, hlenh]
    have e : p + j - p = j := by omega
    have : j < (zo p j : List K).length := by omega
    rw [e]
    simp [List.getElem?_map, List.getElem?_eq_getElem this]
  -- exact quantities
  have hpK : (1 : K) ≤ (p : K) := by exact_mod_cast hn
  have hsgr : (lastN p (zo p j : List K)).sum - SMA.evicted p (zo p j : List K)
      = (lastN (p - 1) (zo p j : List K)).sum := SMA.sum_sub_evicted p hn _
  have hsg' : (lastN p ((zo p j : List K) ++ [1])).sum = (lastN (p - 1) (zo p j : List K)).sum + 1 := by
    rw [SMA.lastN_snoc p hn]; simp
  have hTW : wsum (lastN p (zo p j : List K)) - (lastN p (zo p j : List K)).sum
      = wsum (lastN (p - 1) (zo p j : List K)) := wsum_sub_sum p hn _ hfull
  have hTlen : ((lastN (p - 1) (zo p j : List K)).length : K) = (p : K) - 1 := by
    rw [lastN_length]
    have : min (zo p j : List K).length (p - 1) = p - 1 := by omega
    rw [this, Nat.cast_sub hn]; simp
  have hW' : wsum (lastN p ((zo p j : List K) ++ [1]))
      = wsum (lastN (p - 1) (zo p j : List K)) + 1 * (p : K) := by
    rw [SMA.lastN_snoc p hn, wsum_append_one, hTlen]; ring
  have hsr0 : 0 ≤ (lastN (p - 1) (zo p j : List K)).sum :=
    sum_nonneg_of _ (fun a ha => (zo_mem p j a (SMA.mem_lastN _ _ _ ha)).1)
  have hsrv : p ≤ j → (lastN (p - 1) (zo p j : List K)).sum = (p : K) - 1 := by
    intro hpj
    rw [lastN_zo p j (p - 1) (by omega), sum_replicate_one, Nat.cast_sub hn]; simp
  have hW'b : wsum (lastN (p - 1) (zo p j : List K)) + 1 * (p : K) ≤ (p : K) * ((p : K) + 1) / 2 := by
    rw [← hW']
    have hm : ∀ a ∈ lastN p ((zo p j : List K) ++ [1]), |a| ≤ (1 : K) := by
      intro a ha
      have := SMA.mem_lastN _ _ _ ha
      rw [← zo_succ] at this
      exact zo_abs p (j + 1) a this
    have h1 := abs_wsum_le _ (1 : K) hm
    have h2 : (lastN p ((zo p j : List K) ++ [1])).length = p := by rw [lastN_length]; simp; omega
    rw [h2, mul_one] at h1
    exact le_trans (le_abs_self _) h1
  have hu64 : (u : K) ≤ 1 / 64 := by
    have : (1 : K) ≤ ((p + j + 1 : Nat) : K) := by exact_mod_cast (by omega : 1 ≤ p + j + 1)
    nlinarith
  have hju : (j : K) * u ≤ 1 / 64 := by
    have : (j : K) ≤ ((p + j + 1 : Nat) : K) := by exact_mod_cast (by omega : j ≤ p + j + 1)
    exact le_trans (mul_le_mul_of_nonneg_right this hu0) hu
  -- the new values
  have hF' : fl (fl (sf.v - SMA.evicted p (zo p j : List K)) + 1) - ((lastN (p - 1) (zo p j : List K)).sum + 1)
      = (sf.v - (lastN p (zo p j : List K)).sum) * (1 + u) ^ 2
        + (lastN (p - 1) (zo p j : List K)).sum * (u * (2 + u)) + u := by
    have e1 : sf.v - SMA.evicted p (zo p j : List K)
        = (lastN (p - 1) (zo p j : List K)).sum + (sf.v - (lastN p (zo p j : List K)).sum) := by
      rw [← hsgr]; ring
    rw [e1, worst_flat hfl]
  have hS' : fl (fl (sm.v - sf.v) + fl (1 * (p : K))) - (wsum (lastN (p - 1) (zo p j : List K)) + 1 * (p : K))
      = (1 + u) ^ 2 * ((sm.v - wsum (lastN p (zo p j : List K))) - (sf.v - (lastN p (zo p j : List K)).sum))
        + u * (2 + u) * (wsum (lastN (p - 1) (zo p j : List K)) + 1 * (p : K)) := by
    have e1 : sm.v - sf.v = wsum (lastN (p - 1) (zo p j : List K))
        + (sm.v - wsum (lastN p (zo p j : List K))) - (sf.v - (lastN p (zo p j : List K)).sum) := by
      rw [← hTW]; ring
    rw [e1, worst_sum hfl]
  obtain ⟨hd'pos, hd'low⟩ := worst_dlow p j hn _ _ hdpos hsr0 hsrv hdlow
  have he' := worst_eup p j hn _ _ _ hju hu64 hdpos hdlow heup hW'b
  -- assemble
  refine ⟨_, _, next_eq _ _ _ hwf hold, ⟨rfl, hsmall, ?_, ?_, ?_, ?_, ?_⟩, ?_⟩
  · rw [zo_succ]; simpa using hpush
  · simp only [hcp, if_false]; exact hwt
  · rw [zo_succ, hsg']
    simp only [R.add_v, R.sub_v, R.mk_v]
    rw [hF']; exact hd'pos
  · rw [zo_succ, hsg']
    simp only [R.add_v, R.sub_v, R.mk_v]
    rw [hF']; exact hd'low
  · rw [zo_succ, hW']
    simp only [hcp, if_false, R.add_v, R.sub_v, R.mul_v, R.mk_v, hwt]
    rw [hS']; exact he'
  · -- the output
    intro hpj1 hneg
    simp only [hcp, if_false, R.div_v, R.add_v, R.sub_v, R.mul_v, R.mk_v, R.lit_v, hwt,
      Nat.cast_one, pow_zero, div_one, Nat.cast_ofNat]
    have hW'v : wsum (lastN (p - 1) (zo p j : List K)) + 1 * (p : K) = (p : K) * ((p : K) + 1) / 2 := by
      rw [← hW', ← zo_succ, lastN_zo p (j + 1) p hpj1, wsum_replicate_one]
    rw [worst_out_eq hfl _ _ hpK]
    have hS'eq : fl (fl (sm.v - sf.v) + fl (1 * (p : K))) = (p : K) * ((p : K) + 1) / 2
        + ((1 + u) ^ 2 * ((sm.v - wsum (lastN p (zo p j : List K))) - (sf.v - (lastN p (zo p j : List K)).sum))
            + u * (2 + u) * (wsum (lastN (p - 1) (zo p j : List K)) + 1 * (p : K))) := by
      rw [← hS', hW'v]; ring
    rw [hS'eq]
    exact worst_out_gap (p : K) _ _ hpK hu64 he' hneg

/-- **The quadratic growth is attained.**  With a rounding `fl x = x·(1+u)` (it obeys the
    standard model), period `n`, the stream "`n` zeros, then `j+1 ≥ n` ones" (so `M = 1`,
    `k = n + j + 1` inputs, `k·u ≤ 1/64`), the generated WMA succeeds and its LAST output `y`
    – whose exact value is `wma (window) = 1` – is too small by at least
    `3/4·((2n−1)·t(t−1)/(n(n+1)) − 2·(j+1)·(2+u))·u`, `t = j + 1 − n`, whenever that is `≥ 0`. -/
theorem wma_worst (n : Nat) (hn : 0 < n) (h8 : n * 8 ≤ isizeMax) (j : Nat) (hj : n ≤ j + 1)
    (hu : ((n + j + 1 : Nat) : K) * u ≤ 1 / 64)
    (hpos : 0 ≤ (2 * (n : K) - 1) * (tt n (j + 1) * (tt n (j + 1) - 1)) / ((n : K) * ((n : K) + 1))
              - 2 * ((j + 1 : Nat) : K) * (2 + u)) :
    ∃ s' ys y, runOut next (fresh n : WeightedMovingAverage (R K)) ((zo n (j + 1) : List K).map R.mk)
        = some (s', ys ++ [y]) ∧
      wma (lastN n (zo n (j + 1) : List K)) = 1 ∧
      3 / 4 * ((2 * (n : K) - 1) * (tt n (j + 1) * (tt n (j + 1) - 1)) / ((n : K) * ((n : K) + 1))
              - 2 * ((j + 1 : Nat) : K) * (2 + u)) * u ≤ 1 - y.v := by
  have hu0 : (0 : K) ≤ u := u_nonneg
  -- all prefixes: by induction on the number of ones
  have hrun : ∀ i, i ≤ j + 1 → ∃ s' ys, runOut next (fresh n : WeightedMovingAverage (R K))
      ((zo n i : List K).map R.mk) = some (s', ys) ∧ Inv2 n i s' := by
    intro i
    induction i with
    | zero =>
      intro _
      have hz : (zo n 0 : List K) = List.replicate n 0 := by simp [zo]
      have hsm : (((([] : List K).length + (List.replicate n (0 : K)).length : Nat)) : K) * u ≤ 1 / 64 := by
        refine le_trans (mul_le_mul_of_nonneg_right ?_ hu0) hu
        have : ([] : List K).length + (List.replicate n (0 : K)).length ≤ n + j + 1 := by simp; omega
        exact_mod_cast this
      obtain ⟨s', ys, e, i0, _⟩ := run_from n (0 : K) (List.replicate n (0 : K)) [] _
        (inv_fresh n 0 hn h8) (by simp) (by intro a ha; simp at ha; simp [ha.2]) hsm
      rw [hz]
      exact ⟨s', ys, e, inv2_zero (by simpa using i0)⟩
    | succ i ih =>
      intro hi
      obtain ⟨s1, ys1, e1, i1⟩ := ih (by omega)
      have hui : ((n + i + 1 : Nat) : K) * u ≤ 1 / 64 := by
        refine le_trans (mul_le_mul_of_nonneg_right ?_ hu0) hu
        exact_mod_cast (by omega : n + i + 1 ≤ n + j + 1)
      obtain ⟨s2, y, e2, i2, _⟩ := step2 hfl i1 hui
      refine ⟨s2, ys1 ++ [y], ?_, i2⟩
      rw [zo_succ, List.map_append, List.map_singleton]
      exact runOut_snoc next _ _ s1 s2 ys1 _ y e1 e2
  obtain ⟨s1, ys1, e1, i1⟩ := hrun j (by omega)
  obtain ⟨s2, y, e2, _, hy⟩ := step2 hfl i1 hu
  have hnK : (0 : K) < (n : K) := by exact_mod_cast hn
  have hG : (0 : K) < (n : K) * ((n : K) + 1) / 2 := by positivity
  -- −ebound / G in closed form
  have hform : -(ebound (K := K) n (j + 1)) / ((n : K) * ((n : K) + 1) / 2)
      = ((2 * (n : K) - 1) * (tt n (j + 1) * (tt n (j + 1) - 1)) / ((n : K) * ((n : K) + 1))
          - 2 * ((j + 1 : Nat) : K) * (2 + u)) * u := by
    have hn0 : (n : K) ≠ 0 := ne_of_gt hnK
    have hn1 : (n : K) + 1 ≠ 0 := by positivity
    unfold ebound aa qq
    field_simp
    ring
  have hneg : ebound (K := K) n (j + 1) ≤ 0 := by
    have h1 : 0 ≤ -(ebound (K := K) n (j + 1)) / ((n : K) * ((n : K) + 1) / 2) := by
      rw [hform]; exact mul_nonneg hpos hu0
    have h2 : 0 ≤ -(ebound (K := K) n (j + 1)) := by
      have := mul_nonneg h1 hG.le
      rwa [div_mul_cancel₀ _ (ne_of_gt hG)] at this
    linarith
  refine ⟨s2, ys1, y, ?_, ?_, ?_⟩
  · rw [zo_succ, List.map_append, List.map_singleton]
    exact runOut_snoc next _ _ s1 s2 ys1 _ y e1 e2
  · rw [lastN_zo n (j + 1) n hj]
    unfold wma
    rw [wsum_replicate_one, List.length_replicate]
    exact div_self (ne_of_gt hG)
  · have := hy hj hneg
    rw [hform] at this
    linarith

end Step

end TaRs.Round.WMA
