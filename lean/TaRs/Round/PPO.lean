/-
  Layer R, PercentagePriceOscillator (the `ppo` line): rounding-error bound for the GENERATED
  `next` under the standard model of floating-point arithmetic (`TaRs/Round/Model.lean`), from the
  L0 whole-stream identity `Props.C03.ppo_stream` (the generated line IS
  `zipWith ppoVal (EMA_fast x) (EMA_slow x)` for every scalar), the EMA theorem and `CCI.quot_err`.

  `ppo_line_rounding`: periods with `(n+1)·u ≤ 1/64`, every stream (any length) of prices in
  `[m, M]`, `m > 0`, with `12·(ns+1)·u·M ≤ m`: the generated PPO never panics and every value of its
  `ppo` line is within

        100 · ( (1 + 5u) · δ + 5u · 2M/m ),     δ = 2·EN/m + 4·M·ES/m²,
        ES = 6(ns+1)·u·M,  EN = (6(nf+1) + 6(ns+1) + 3)·u·M

  of the exact `100·(EMA_f − EMA_s)/EMA_s` (exact recursions, exact `α = 2/(n+1)`): rounding drift
  of the two averages times the condition number `M/m`, independent of the stream length.
  The signal line (an EMA of the computed ppo values) and the histogram are not covered here.
-/
import TaRs.Round.EMAPert
import TaRs.Round.MFI
import TaRs.Round.CCI
import TaRs.Props.C03a
import Mathlib.Tactic.NormNum
import Mathlib.Tactic.Ring
import Mathlib.Tactic.Linarith
import Mathlib.Tactic.Positivity
set_option linter.unusedSectionVars false
set_option linter.unusedSimpArgs false
namespace TaRs.Round.PPO
open TaRs TaRs.Rs TaRs.Gen Rounding TaRs.Round.EMA
open TaRs.Round.MFI (Rel rel_fl)
open TaRs.Gen.PercentagePriceOscillator (ppoVal)

variable {K : Type} [Field K] [LinearOrder K] [IsStrictOrderedRing K]

/-! ## exact EMA of values in `[m, M]` stays in `[m, M]` -/

theorem emaFromK_ge (a m : K) (ha0 : 0 ≤ a) (ha1 : a ≤ 1) (xs : List K) :
    ∀ z, m ≤ z → (∀ x ∈ xs, m ≤ x) → ∀ w ∈ emaFromK a z xs, m ≤ w := by
  induction xs with
  | nil => intro _ _ _ w hw; simp [emaFromK] at hw
  | cons x xs ih =>
    intro z hz hxs w hw
    have hx : m ≤ x := hxs x (by simp)
    have h1a : (0 : K) ≤ 1 - a := by linarith
    have hz' : m ≤ a * x + (1 - a) * z := by
      nlinarith [mul_le_mul_of_nonneg_left hx ha0, mul_le_mul_of_nonneg_left hz h1a]
    simp only [emaFromK, List.mem_cons] at hw
    rcases hw with rfl | hw
    · exact hz'
    · exact ih _ hz' (fun b hb => hxs b (by simp [hb])) w hw

theorem emaSeqK_ge (a m : K) (ha0 : 0 ≤ a) (ha1 : a ≤ 1) (xs : List K) (hxs : ∀ x ∈ xs, m ≤ x) :
    ∀ w ∈ emaSeqK a xs, m ≤ w := by
  cases xs with
  | nil => intro w hw; simp [emaSeqK] at hw
  | cons x xs =>
    intro w hw
    have hx : m ≤ x := hxs x (by simp)
    simp only [emaSeqK, List.mem_cons] at hw
    rcases hw with rfl | hw
    · exact hx
    · exact emaFromK_ge a m ha0 ha1 xs x hx (fun b hb => hxs b (by simp [hb])) w hw

variable [Rounding K]

/-! ## one value of the line -/

/-- `fl (fl (fl (F − S) / S) · fl 100)` against `100·(F̄ − S̄)/S̄` -/
theorem ppo_err (F S Fb Sb EF ES M m : K) (hm : 0 < m) (hSb : m ≤ Sb) (hSbM : |Sb| ≤ M) (hFbM : |Fb| ≤ M)
    (hF : |F - Fb| ≤ EF) (hS : |S - Sb| ≤ ES) (hES : 2 * ES ≤ m) (hu64 : (u : K) ≤ 1 / 64) :
    |fl (fl (fl (F - S) / S) * fl 100) - (Fb - Sb) / Sb * 100|
      ≤ 100 * ((1 + 5 * u) * (2 * (EF + ES + u * (2 * M + EF + ES)) / m + 4 * M * ES / m ^ 2)
                + 5 * u * (2 * M / m)) := by
  have hu : (0 : K) ≤ u := u_nonneg
  have hEF : 0 ≤ EF := le_trans (abs_nonneg _) hF
  have hES0 : 0 ≤ ES := le_trans (abs_nonneg _) hS
  have hM : 0 ≤ M := le_trans (abs_nonneg _) hSbM
  have hSb0 : 0 < Sb := lt_of_lt_of_le hm hSb
  have huu : (u : K) * u ≤ u * (1 / 64) := mul_le_mul_of_nonneg_left hu64 hu
  -- numerator
  have hFS : |F - S| ≤ 2 * M + EF + ES := by
    have e : F - S = (F - Fb) - (S - Sb) + (Fb - Sb) := by ring
    rw [e]
    have t1 := abs_add_le ((F - Fb) - (S - Sb)) (Fb - Sb)
    have t2 := abs_sub (F - Fb) (S - Sb)
    have t3 := abs_sub Fb Sb
    linarith
  have hN : |fl (F - S) - (Fb - Sb)| ≤ EF + ES + u * (2 * M + EF + ES) := by
    have e : fl (F - S) - (Fb - Sb) = (fl (F - S) - (F - S)) + ((F - Fb) - (S - Sb)) := by ring
    rw [e]
    have t1 := abs_add_le (fl (F - S) - (F - S)) ((F - Fb) - (S - Sb))
    have t2 := abs_sub (F - Fb) (S - Sb)
    have t3 := fl_err_le (F - S) _ hFS
    linarith
  set EN := EF + ES + u * (2 * M + EF + ES) with hENdef
  have hEN0 : 0 ≤ EN := le_trans (abs_nonneg _) hN
  -- quotient
  have hq := CCI.quot_err (fl (F - S)) S (Fb - Sb) Sb EN ES hSb0 hN hS (by linarith)
  set q := (Fb - Sb) / Sb with hqdef
  have hqabs : |q| ≤ 2 * M / m := by
    rw [hqdef, abs_div, abs_of_pos hSb0, div_le_div_iff₀ hSb0 hm]
    have t3 := abs_sub Fb Sb
    have h1 : |Fb - Sb| ≤ 2 * M := by linarith
    have h2 : |Fb - Sb| * m ≤ 2 * M * m := mul_le_mul_of_nonneg_right h1 (le_of_lt hm)
    have h3 : 2 * M * m ≤ 2 * M * Sb := mul_le_mul_of_nonneg_left hSb (by linarith)
    linarith
  -- the quotient bound with `m` in the denominators
  have hdelta : |fl (F - S) / S - q| ≤ 2 * EN / m + 4 * M * ES / m ^ 2 := by
    refine le_trans hq ?_
    have h1 : 2 * EN / Sb ≤ 2 * EN / m := div_le_div_of_nonneg_left (by linarith) hm hSb
    have h2 : 2 * |q| * ES / Sb ≤ 4 * M * ES / m ^ 2 := by
      have a1 : 2 * |q| * ES ≤ 2 * (2 * M / m) * ES :=
        mul_le_mul_of_nonneg_right (mul_le_mul_of_nonneg_left hqabs (by norm_num)) hES0
      have a2 : 2 * |q| * ES / Sb ≤ 2 * (2 * M / m) * ES / Sb :=
        div_le_div_of_nonneg_right a1 (le_of_lt hSb0)
      have a3 : 2 * (2 * M / m) * ES / Sb ≤ 2 * (2 * M / m) * ES / m :=
        div_le_div_of_nonneg_left (by positivity) hm hSb
      have e : 2 * (2 * M / m) * ES / m = 4 * M * ES / m ^ 2 := by
        field_simp
        ring
      linarith
    linarith
  set δ := 2 * EN / m + 4 * M * ES / m ^ 2 with hδdef
  have hδ0 : 0 ≤ δ := le_trans (abs_nonneg _) hdelta
  -- the last three roundings
  have r1 : Rel (fl (fl (F - S) / S)) (fl (F - S) / S) u := rel_fl _
  have r2 : Rel (fl (fl (F - S) / S) * fl 100) (fl (F - S) / S * 100) (3 * u) :=
    (r1.mul (rel_fl (100 : K))).mono (by nlinarith)
  have r3 : Rel (fl (fl (fl (F - S) / S) * fl 100)) (fl (F - S) / S * 100) (5 * u) :=
    ((rel_fl _).trans r2 hu).mono (by nlinarith)
  unfold Rel at r3
  rw [abs_mul, abs_of_nonneg (by norm_num : (0 : K) ≤ 100)] at r3
  have hNS : |fl (F - S) / S| ≤ 2 * M / m + δ := by
    have := abs_add_le (fl (F - S) / S - q) q
    rw [sub_add_cancel] at this
    linarith
  have e : fl (fl (fl (F - S) / S) * fl 100) - q * 100
      = (fl (fl (fl (F - S) / S) * fl 100) - fl (F - S) / S * 100) + (fl (F - S) / S - q) * 100 := by ring
  rw [e]
  have t := abs_add_le (fl (fl (fl (F - S) / S) * fl 100) - fl (F - S) / S * 100) ((fl (F - S) / S - q) * 100)
  rw [abs_mul (fl (F - S) / S - q), abs_of_nonneg (by norm_num : (0 : K) ≤ 100)] at t
  have h5 : 5 * u * (|fl (F - S) / S| * 100) ≤ 5 * u * ((2 * M / m + δ) * 100) :=
    mul_le_mul_of_nonneg_left (by linarith) (by linarith)
  have fin : 100 * ((1 + 5 * u) * δ + 5 * u * (2 * M / m)) = 5 * u * ((2 * M / m + δ) * 100) + δ * 100 := by ring
  rw [fin]
  linarith

/-- the generated `ppoVal` is that expression -/
theorem ppoVal_v (F S : R K) :
    (ppoVal F S).v = fl (fl (fl (F.v - S.v) / S.v) * fl ((100 : K) / 10 ^ 0)) := rfl

/-! ## the line over a whole stream -/

/-- exact PPO line -/
def ppoLineK (nf ns : Nat) (xs : List K) : List K :=
  List.zipWith (fun Fb Sb => (Fb - Sb) / Sb * 100)
    (emaSeqK (2 / ((nf : K) + 1)) xs) (emaSeqK (2 / ((ns : K) + 1)) xs)

/-- **PPO line rounding theorem** (standard model; generated code): see the header. -/
theorem ppo_line_rounding (nf ns ng : Nat) (hnf : 0 < nf) (hns : 0 < ns) (m M : K) (hm : 0 < m)
    (xs : List K) (hlo : ∀ x ∈ xs, m ≤ x) (hM : ∀ x ∈ xs, |x| ≤ M)
    (hf : ((nf : K) + 1) * u ≤ 1 / 64) (hs : ((ns : K) + 1) * u ≤ 1 / 64)
    (hcond : 2 * (6 * ((ns : K) + 1) * u * M) ≤ m) :
    ∃ s' ys, runOut PercentagePriceOscillator.next
        (PercentagePriceOscillator.fresh nf ns ng : PercentagePriceOscillator (R K)) (xs.map R.mk) = some (s', ys) ∧
      List.Forall₂ (fun (y : R K) (z : K) =>
          |y.v - z| ≤ 100 * ((1 + 5 * u) *
              (2 * (6 * ((nf : K) + 1) * u * M + 6 * ((ns : K) + 1) * u * M
                    + u * (2 * M + 6 * ((nf : K) + 1) * u * M + 6 * ((ns : K) + 1) * u * M)) / m
                + 4 * M * (6 * ((ns : K) + 1) * u * M) / m ^ 2)
              + 5 * u * (2 * M / m)))
        (List.zipWith ppoVal (Props.C02.emaSeq (Props.C02.alpha nf : R K) (xs.map R.mk))
          (Props.C02.emaSeq (Props.C02.alpha ns : R K) (xs.map R.mk)))
        (ppoLineK nf ns xs) ∧
      ys.map (·.ppo) = List.zipWith ppoVal (Props.C02.emaSeq (Props.C02.alpha nf : R K) (xs.map R.mk))
          (Props.C02.emaSeq (Props.C02.alpha ns : R K) (xs.map R.mk)) := by
  have hu : (0 : K) ≤ u := u_nonneg
  have hu64 : (u : K) ≤ 1 / 64 := by
    have h1 : (1 : K) ≤ nf := by exact_mod_cast hnf
    nlinarith
  obtain ⟨s', h⟩ := Props.C03.ppo_stream (F := R K) nf ns ng (xs.map R.mk)
  obtain ⟨hf0, hf1, _, _⟩ := period_facts (K := K) nf hnf
  obtain ⟨hs0, hs1, _, _⟩ := period_facts (K := K) ns hns
  have bF := forall₂_and_right (ema_rounding_spec nf hnf M xs hM hf) (emaSeqK_bound _ M hf0.le hf1 xs hM)
  have bS0 := forall₂_and_right (ema_rounding_spec ns hns M xs hM hs) (emaSeqK_bound _ M hs0.le hs1 xs hM)
  have bS := forall₂_and_right bS0 (emaSeqK_ge _ m hs0.le hs1 xs hlo)
  refine ⟨s', _, h, ?_, ?_⟩
  · unfold ppoLineK
    refine forall₂_zipWith ?_ bF bS
    intro F Fb S Sb hFF hSS
    rw [ppoVal_v]
    have e100 : ((100 : K) / 10 ^ 0) = 100 := by norm_num
    rw [e100]
    exact ppo_err F.v S.v Fb Sb _ _ M m hm hSS.2 hSS.1.2 hFF.2 hFF.1 hSS.1.1 hcond hu64
  · have hlen : (List.zipWith ppoVal (Props.C02.emaSeq (Props.C02.alpha nf : R K) (xs.map R.mk))
        (Props.C02.emaSeq (Props.C02.alpha ns : R K) (xs.map R.mk))).length
        = (Props.C02.emaSeq (Props.C02.alpha ng : R K)
            (List.zipWith ppoVal (Props.C02.emaSeq (Props.C02.alpha nf : R K) (xs.map R.mk))
              (Props.C02.emaSeq (Props.C02.alpha ns : R K) (xs.map R.mk)))).length := by
      simp [Props.C02.emaSeq_length]
    exact map_zipWith_left (g := fun (o : PercentagePriceOscillatorOutput (R K)) => o.ppo) (fun _ _ => rfl) _ _ hlen

end TaRs.Round.PPO
