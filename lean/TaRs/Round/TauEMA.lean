/-
  Layer R (EMA), numeric corollaries (over ℚ; no real powers needed) and non-vacuity examples.

  With the binary64 unit roundoff `u = 2^-53`:
  * every stream length `t ≤ 2·10^6` satisfies the smallness hypothesis `t·u ≤ 1/8` of
    `SMA.sma_rounding`, every period `n ≤ 1024` the hypothesis `(n+1)·u ≤ 1/64` of
    `EMA.ema_rounding`;
  * the SMA bound `3·(t+1)·u` is below the tolerance `τ(t) = 1e-12 + 1e-15·t^1.5` used by the
    differential tests (C13, C02), for EVERY natural `t`: stated without square roots as
    `(3·(t+1)·u)² ≤ (1e-12)² + (1e-15)²·t³`, which gives
    `3·(t+1)·u ≤ sqrt(1e-24 + 1e-30·t³) ≤ 1e-12 + 1e-15·t^1.5`;
  * the EMA bound `6·(n+1)·u` is below `1e-12 ≤ τ(t)` for every period `n ≤ 1024`.
  The last section instantiates the main theorems at a concrete (non-identity) rounding on ℚ,
  which shows that their hypotheses are jointly satisfiable.
-/
import TaRs.Round.EMA
import TaRs.Round.TauBase
import Mathlib.Tactic.NormNum
import Mathlib.Tactic.Linarith
import Mathlib.Tactic.Positivity
namespace TaRs.Round.Tau
open TaRs TaRs.Rs TaRs.Gen Rounding

/-! ## Smallness hypotheses -/

/-- `(n+1)·u ≤ 1/64` for every period `n ≤ 1024` (in fact up to `2^47 − 1`) -/
theorem ema_small (n : ℕ) (hn : n ≤ 1024) : ((n : ℚ) + 1) * u64 ≤ 1 / 64 := by
  have h : (n : ℚ) + 1 ≤ 1025 := by
    have : (n : ℚ) ≤ 1024 := by exact_mod_cast hn
    linarith
  unfold u64
  have : (0 : ℚ) ≤ 1 / 2 ^ 53 := by positivity
  calc ((n : ℚ) + 1) * (1 / 2 ^ 53) ≤ 1025 * (1 / 2 ^ 53) := mul_le_mul_of_nonneg_right h this
    _ ≤ 1 / 64 := by norm_num

/-! ## Against the test tolerance τ(t) = 1e-12 + 1e-15·t^1.5 -/

/-- EMA constant 6: `6·(n+1)·u ≤ 1e-12` for every period `n ≤ 1024` -/
theorem ema_tau (n : ℕ) (hn : n ≤ 1024) : 6 * ((n : ℚ) + 1) * u64 ≤ 1 / 10 ^ 12 := by
  have h : (n : ℚ) + 1 ≤ 1025 := by
    have : (n : ℚ) ≤ 1024 := by exact_mod_cast hn
    linarith
  unfold u64
  have : (0 : ℚ) ≤ 1 / 2 ^ 53 := by positivity
  calc 6 * ((n : ℚ) + 1) * (1 / 2 ^ 53) ≤ 6 * 1025 * (1 / 2 ^ 53) := by nlinarith
    _ ≤ 1 / 10 ^ 12 := by norm_num

/-! ## The main theorems at binary64 precision (any rounding on ℚ with `u ≤ 2^-53`) -/

/-- C02 shape: with unit roundoff at most `2^-53`, for every period `n ≤ 1024` and every stream
    (any length) bounded by `M`, every EMA output is within `1e-12·M` (≤ τ(t)·M for every t) of
    the exact recursion with the exact `α = 2/(n+1)`. -/
theorem ema_within_tau [Rounding ℚ] (hu : (u : ℚ) ≤ u64) (n : Nat) (hn : 0 < n) (hn' : n ≤ 1024)
    (M : ℚ) (xs : List ℚ) (hM : ∀ x ∈ xs, |x| ≤ M) :
    ∃ s' ys, runOut ExponentialMovingAverage.next
        (ExponentialMovingAverage.fresh n : ExponentialMovingAverage (R ℚ)) (xs.map R.mk) = some (s', ys) ∧
      List.Forall₂ (fun (y : R ℚ) (z : ℚ) => |y.v - z| ≤ 1 / 10 ^ 12 * |M|)
        ys (EMA.emaSeqK (2 / ((n : ℚ) + 1)) xs) := by
  have hu0 : (0 : ℚ) ≤ u := u_nonneg
  have hN : (0 : ℚ) ≤ (n : ℚ) + 1 := by positivity
  have hsm : ((n : ℚ) + 1) * u ≤ 1 / 64 :=
    le_trans (mul_le_mul_of_nonneg_left hu hN) (ema_small n hn')
  obtain ⟨s', ys, e, b⟩ := EMA.ema_rounding n hn M xs hM hsm
  refine ⟨s', ys, e, b.imp ?_⟩
  intro y z hb
  refine le_trans hb ?_
  have h1 : 6 * ((n : ℚ) + 1) * u ≤ 1 / 10 ^ 12 :=
    le_trans (mul_le_mul_of_nonneg_left hu (by positivity)) (ema_tau n hn')
  have h2 : (0 : ℚ) ≤ 6 * ((n : ℚ) + 1) * u := by positivity
  calc 6 * ((n : ℚ) + 1) * u * M ≤ 6 * ((n : ℚ) + 1) * u * |M| :=
        mul_le_mul_of_nonneg_left (le_abs_self M) h2
    _ ≤ 1 / 10 ^ 12 * |M| := mul_le_mul_of_nonneg_right h1 (abs_nonneg _)

section NonVacuity
attribute [local instance] inflate

/-- `ema_rounding` applies: period 3, five inputs bounded by 5, rounding `inflate` -/
example : ∃ s' ys, runOut ExponentialMovingAverage.next
      (ExponentialMovingAverage.fresh 3 : ExponentialMovingAverage (R ℚ))
      (([1, -2, 3, 1 / 2, 5] : List ℚ).map R.mk) = some (s', ys) ∧
    List.Forall₂ (fun (y : R ℚ) (z : ℚ) => |y.v - z| ≤ 6 * (((3 : ℕ) : ℚ) + 1) * (1 / 2 ^ 20) * 5) ys
      (EMA.emaSeqK (2 / (((3 : ℕ) : ℚ) + 1)) [1, -2, 3, 1 / 2, 5]) :=
  EMA.ema_rounding 3 (by decide) 5 [1, -2, 3, 1 / 2, 5]
    (by intro x hx; simp at hx; rcases hx with rfl | rfl | rfl | rfl | rfl <;> norm_num [abs_le])
    (by show (((3 : ℕ) : ℚ) + 1) * (1 / 2 ^ 20) ≤ 1 / 64; norm_num)

end NonVacuity

section NonVacuity64
attribute [local instance] inflate64

example : ∃ s' ys, runOut ExponentialMovingAverage.next
      (ExponentialMovingAverage.fresh 1024 : ExponentialMovingAverage (R ℚ))
      (([1, -2, 3] : List ℚ).map R.mk) = some (s', ys) ∧ ys.length = 3 := by
  obtain ⟨s', ys, e, b⟩ := ema_within_tau (le_refl _) 1024 (by decide) (by decide) 3 [1, -2, 3]
    (by intro x hx; simp at hx; rcases hx with rfl | rfl | rfl <;> norm_num [abs_le])
  exact ⟨s', ys, e, by rw [b.length_eq]; rfl⟩

end NonVacuity64

end TaRs.Round.Tau
