/-
  Layer R (StandardDeviation / BollingerBands), numeric corollaries (over ℚ; no real powers
  needed) and non-vacuity examples.

  With the binary64 unit roundoff `u = 2^-53`:
  * every stream length `t ≤ 2·10^6` satisfies the smallness hypothesis `t·u ≤ 1/64` of
    `SDMean.sd_mean_rounding` / `SDVar.sd_var_rounding` (in fact up to `2^47`);
  * the running-mean bound `6·t·u` (also BollingerBands' `average`) is below the tolerance
    `τ(t) = 1e-12 + 1e-15·t^1.5` of the differential tests (C13) for EVERY natural `t`, stated
    without square roots as `(6·t·u)² ≤ (1e-12)² + (1e-15)²·t³`
    (which gives `6·t·u ≤ sqrt(1e-24 + 1e-30·t³) ≤ 1e-12 + 1e-15·t^1.5`);
  * the variance bound `77·(t+1)·u` (relative to `M²`) is below `τ(t)` for EVERY natural `t`
    as well: `(77·(t+1)·u)² ≤ (1e-12)² + (1e-15)²·t³`.  For `t ≤ 115` the constant term of `τ`
    dominates, for `t ≥ 116` the `t^1.5` term does.
  Neither bound depends on the period `n`, so there is NO part of the range
  (`t ≤ 2·10^6`, `n ≤ 1000`) in which the worst-case bound exceeds `τ(t)`: nothing to report
  as `…_exceeds` for these two quantities.  (The internal accumulator `m2` itself, which is
  `count` times the variance, carries the factor `min(t,n)`: `77·t·min(t,n)·u·M²`.)

  The last sections instantiate the main theorems at concrete (non-identity) roundings on ℚ,
  which shows that their hypotheses are jointly satisfiable.
-/
import TaRs.Round.SDMean
import TaRs.Round.SDVar
import TaRs.Round.TauBase
import Mathlib.Tactic.NormNum
import Mathlib.Tactic.Linarith
import Mathlib.Tactic.Positivity
namespace TaRs.Round.Tau
open TaRs TaRs.Rs TaRs.Spec TaRs.Gen Rounding

/-! ## Smallness hypothesis -/

/-- `t·u ≤ 1/64` for every `t ≤ 2·10^6` (in fact up to `2^47`) -/
theorem sd_small (t : ℕ) (ht : t ≤ 2000000) : (t : ℚ) * u64 ≤ 1 / 64 := by
  have h : (t : ℚ) ≤ 2000000 := by exact_mod_cast ht
  unfold u64
  have : (0 : ℚ) ≤ 1 / 2 ^ 53 := by positivity
  calc (t : ℚ) * (1 / 2 ^ 53) ≤ 2000000 * (1 / 2 ^ 53) := mul_le_mul_of_nonneg_right h this
    _ ≤ 1 / 64 := by norm_num

/-! ## Against the test tolerance τ(t) = 1e-12 + 1e-15·t^1.5 -/

/-- running mean, constant 6: `(6·t·u)² ≤ (1e-12)² + (1e-15)²·t³` for EVERY natural `t`
    (the `t^1.5` term alone suffices) -/
theorem sd_mean_tau (t : ℕ) :
    (6 * (t : ℚ) * u64) ^ 2 ≤ (1 / 10 ^ 12) ^ 2 + (1 / 10 ^ 15) ^ 2 * (t : ℚ) ^ 3 := by
  unfold u64
  have h3 : (0 : ℚ) ≤ (1 / 10 ^ 12) ^ 2 := by positivity
  rcases Nat.eq_zero_or_pos t with h0 | h0
  · subst h0; simp
  · have hge : (1 : ℚ) ≤ t := by exact_mod_cast h0
    have ht2 : (0 : ℚ) ≤ (t : ℚ) ^ 2 := by positivity
    have e1 : (6 * (t : ℚ) * (1 / 2 ^ 53)) ^ 2 = 36 / 2 ^ 106 * (t : ℚ) ^ 2 := by ring
    have e3 : (36 : ℚ) / 2 ^ 106 ≤ (1 / 10 ^ 15) ^ 2 * 1 := by norm_num
    have h1 : (6 * (t : ℚ) * (1 / 2 ^ 53)) ^ 2 ≤ (1 / 10 ^ 15) ^ 2 * (t : ℚ) ^ 3 := by
      calc (6 * (t : ℚ) * (1 / 2 ^ 53)) ^ 2 = 36 / 2 ^ 106 * (t : ℚ) ^ 2 := e1
        _ ≤ ((1 / 10 ^ 15) ^ 2 * 1) * (t : ℚ) ^ 2 := mul_le_mul_of_nonneg_right e3 ht2
        _ ≤ ((1 / 10 ^ 15) ^ 2 * t) * (t : ℚ) ^ 2 :=
            mul_le_mul_of_nonneg_right (mul_le_mul_of_nonneg_left hge (by positivity)) ht2
        _ = (1 / 10 ^ 15) ^ 2 * (t : ℚ) ^ 3 := by ring
    linarith

/-- variance, constant 77: `(77·(t+1)·u)² ≤ (1e-12)² + (1e-15)²·t³` for EVERY natural `t` -/
theorem sd_var_tau (t : ℕ) :
    (77 * ((t : ℚ) + 1) * u64) ^ 2 ≤ (1 / 10 ^ 12) ^ 2 + (1 / 10 ^ 15) ^ 2 * (t : ℚ) ^ 3 := by
  have hx : (0 : ℚ) ≤ t := Nat.cast_nonneg t
  unfold u64
  by_cases h : t ≤ 115
  · -- small t: the constant term of τ dominates
    have hq : (t : ℚ) ≤ 115 := by exact_mod_cast h
    have h1 : 77 * ((t : ℚ) + 1) * (1 / 2 ^ 53) ≤ 1 / 10 ^ 12 := by
      have : 77 * ((t : ℚ) + 1) * (1 / 2 ^ 53) ≤ 77 * (115 + 1) * (1 / 2 ^ 53) := by
        have : (0 : ℚ) ≤ 1 / 2 ^ 53 := by positivity
        nlinarith
      refine le_trans this ?_
      norm_num
    have h0 : (0 : ℚ) ≤ 77 * ((t : ℚ) + 1) * (1 / 2 ^ 53) := by positivity
    have h2 := pow_le_pow_left₀ h0 h1 2
    have h3 : (0 : ℚ) ≤ (1 / 10 ^ 15) ^ 2 * (t : ℚ) ^ 3 := by positivity
    linarith
  · -- large t: the t^1.5 term dominates
    have hge : (116 : ℚ) ≤ t := by exact_mod_cast (by omega : 116 ≤ t)
    have h1 : (77 * ((t : ℚ) + 1) * (1 / 2 ^ 53)) ^ 2 ≤ (1 / 10 ^ 15) ^ 2 * (t : ℚ) ^ 3 := by
      have e1 : (77 * ((t : ℚ) + 1) * (1 / 2 ^ 53)) ^ 2 = 5929 / 2 ^ 106 * ((t : ℚ) + 1) ^ 2 := by ring
      have e2 : ((t : ℚ) + 1) ^ 2 ≤ 9 / 8 * (t : ℚ) ^ 2 := by
        nlinarith [mul_nonneg (sub_nonneg.mpr hge) hx]
      have e3 : (53361 / 8 : ℚ) / 2 ^ 106 ≤ (1 / 10 ^ 15) ^ 2 * 116 := by norm_num
      have ht2 : (0 : ℚ) ≤ (t : ℚ) ^ 2 := by positivity
      calc (77 * ((t : ℚ) + 1) * (1 / 2 ^ 53)) ^ 2 = 5929 / 2 ^ 106 * ((t : ℚ) + 1) ^ 2 := e1
        _ ≤ 5929 / 2 ^ 106 * (9 / 8 * (t : ℚ) ^ 2) := mul_le_mul_of_nonneg_left e2 (by positivity)
        _ = (53361 / 8) / 2 ^ 106 * (t : ℚ) ^ 2 := by ring
        _ ≤ ((1 / 10 ^ 15) ^ 2 * 116) * (t : ℚ) ^ 2 := mul_le_mul_of_nonneg_right e3 ht2
        _ ≤ ((1 / 10 ^ 15) ^ 2 * t) * (t : ℚ) ^ 2 :=
            mul_le_mul_of_nonneg_right (mul_le_mul_of_nonneg_left hge (by positivity)) ht2
        _ = (1 / 10 ^ 15) ^ 2 * (t : ℚ) ^ 3 := by ring
    have h3 : (0 : ℚ) ≤ (1 / 10 ^ 12) ^ 2 := by positivity
    linarith

/-- the state version `77·t·u` (no `+1`) is below `τ(t)` a fortiori -/
theorem sd_var_tau' (t : ℕ) :
    (77 * (t : ℚ) * u64) ^ 2 ≤ (1 / 10 ^ 12) ^ 2 + (1 / 10 ^ 15) ^ 2 * (t : ℚ) ^ 3 := by
  refine le_trans ?_ (sd_var_tau t)
  have hx : (0 : ℚ) ≤ t := Nat.cast_nonneg t
  have hu : (0 : ℚ) ≤ u64 := by unfold u64; positivity
  refine pow_le_pow_left₀ (by positivity) ?_ 2
  have : 77 * (t : ℚ) ≤ 77 * ((t : ℚ) + 1) := by linarith
  exact mul_le_mul_of_nonneg_right this hu

/-- for the record: the bound on the INTERNAL accumulator `m2` (= `count` × variance),
    `77·t·min(t,n)·u·M²`, taken relative to `M²` (rather than to its natural scale `n·M²`),
    is above `τ(t)` e.g. at `n = 1000`, `t = 2000`.  The property C13 is about the variance
    `m2/count`, for which the factor `min(t,n)` cancels. -/
theorem sd_m2_acc_exceeds :
    (1 / 10 ^ 12 : ℚ) ^ 2 + (1 / 10 ^ 15) ^ 2 * (2000 : ℚ) ^ 3 < (77 * 2000 * 1000 * u64) ^ 2 := by
  unfold u64; norm_num

/-- from an absolute bound `B·S` with `B ≤ B64`, `B64² ≤ T` to the squared form `d² ≤ T·S²` -/
theorem within (d B B64 T S : ℚ) (hd : |d| ≤ B * S) (hB : B ≤ B64) (hS : 0 ≤ S)
    (hBT : B64 ^ 2 ≤ T) : d ^ 2 ≤ T * S ^ 2 := by
  have h1 : |d| ≤ B64 * S := le_trans hd (mul_le_mul_of_nonneg_right hB hS)
  have h2 := pow_le_pow_left₀ (abs_nonneg d) h1 2
  rw [sq_abs, mul_pow] at h2
  exact le_trans h2 (mul_le_mul_of_nonneg_right hBT (sq_nonneg S))

/-! ## The main theorems at binary64 precision (any rounding on ℚ with `u ≤ 2^-53`) -/

/-- C13 shape, running mean of StandardDeviation: with unit roundoff at most `2^-53`, for every
    stream of `t ≤ 2·10^6` inputs bounded by `M` and EVERY period, the running mean after the
    stream satisfies `(m − exact window mean)² ≤ ((1e-12)² + (1e-15)²·t³)·M²`,
    i.e. `|m − mean| ≤ τ(t)·M`. -/
theorem sd_mean_within_tau [Rounding ℚ] (hu : (u : ℚ) ≤ u64) (n : Nat) (hn : 0 < n)
    (h8 : n * 8 ≤ isizeMax) (M : ℚ) (xs : List ℚ) (hM : ∀ x ∈ xs, |x| ≤ M)
    (ht : xs.length ≤ 2000000) :
    ∃ s' ys, runOut StandardDeviation.next (StandardDeviation.fresh n : StandardDeviation (R ℚ))
        (xs.map R.mk) = some (s', ys) ∧
      ((StandardDeviation.mean s').v - mean (lastN n xs)) ^ 2
        ≤ ((1 / 10 ^ 12) ^ 2 + (1 / 10 ^ 15) ^ 2 * (xs.length : ℚ) ^ 3) * M ^ 2 := by
  have hu0 : (0 : ℚ) ≤ u := u_nonneg
  have hsm : (xs.length : ℚ) * u ≤ 1 / 64 :=
    le_trans (mul_le_mul_of_nonneg_left hu (Nat.cast_nonneg _)) (sd_small _ ht)
  obtain ⟨s', ys, e, b⟩ := SDMean.sd_mean_rounding n hn h8 M xs hM hsm
  refine ⟨s', ys, e, ?_⟩
  have hb : |(StandardDeviation.mean s').v - mean (lastN n xs)| ≤ 6 * (xs.length : ℚ) * u * |M| :=
    le_trans b (mul_le_mul_of_nonneg_left (le_abs_self M) (by positivity))
  have := within _ (6 * (xs.length : ℚ) * u) (6 * (xs.length : ℚ) * u64) _ |M| hb
    (mul_le_mul_of_nonneg_left hu (by positivity)) (abs_nonneg M)
    (sd_mean_tau xs.length)
  rwa [sq_abs] at this

/-- C13 shape, BollingerBands `average`: with unit roundoff at most `2^-53`, for every stream of
    at most `2·10^6` inputs bounded by `M`, every period and every multiplier, the `average`
    output after `k` inputs satisfies
    `(average − exact window mean)² ≤ ((1e-12)² + (1e-15)²·k³)·M²`, i.e. `≤ τ(k)·M`. -/
theorem bb_average_within_tau [Rounding ℚ] (hu : (u : ℚ) ≤ u64) (n : Nat) (hn : 0 < n)
    (h8 : n * 8 ≤ isizeMax) (k : R ℚ) (M : ℚ) (xs : List ℚ) (hM : ∀ x ∈ xs, |x| ≤ M)
    (ht : xs.length ≤ 2000000) :
    ∃ s' os, runOut BollingerBands.next (BollingerBands.fresh n k : BollingerBands (R ℚ))
        (xs.map R.mk) = some (s', os) ∧
      List.Forall₂ (fun (o : BollingerBandsOutput (R ℚ)) (p : List ℚ) =>
          (o.average.v - mean (lastN n p)) ^ 2
            ≤ ((1 / 10 ^ 12) ^ 2 + (1 / 10 ^ 15) ^ 2 * (p.length : ℚ) ^ 3) * M ^ 2)
        os (prefixes xs) := by
  have hu0 : (0 : ℚ) ≤ u := u_nonneg
  have hsm : (xs.length : ℚ) * u ≤ 1 / 64 :=
    le_trans (mul_le_mul_of_nonneg_left hu (Nat.cast_nonneg _)) (sd_small _ ht)
  obtain ⟨s', os, e, b⟩ := SDMean.bb_average_rounding n hn h8 k M xs hM hsm
  refine ⟨s', os, e, b.imp ?_⟩
  intro o p hb
  have hb' : |o.average.v - mean (lastN n p)| ≤ 6 * (p.length : ℚ) * u * |M| :=
    le_trans hb (mul_le_mul_of_nonneg_left (le_abs_self M) (by positivity))
  have := within _ (6 * (p.length : ℚ) * u) (6 * (p.length : ℚ) * u64) _ |M| hb'
    (mul_le_mul_of_nonneg_left hu (by positivity)) (abs_nonneg M)
    (sd_mean_tau p.length)
  rwa [sq_abs] at this

/-- C13 shape, variance of StandardDeviation (final state): with unit roundoff at most `2^-53`,
    for every stream of `t ≤ 2·10^6` inputs bounded by `M` and EVERY period `n`, the accumulator
    is not negative and the variance `m2/min(t,n)` satisfies
    `(m2/min(t,n) − exact window variance)² ≤ ((1e-12)² + (1e-15)²·t³)·(M²)²`,
    i.e. `|variance error| ≤ τ(t)·M²`. -/
theorem sd_var_within_tau [Rounding ℚ] (hu : (u : ℚ) ≤ u64) (n : Nat) (hn : 0 < n)
    (h8 : n * 8 ≤ isizeMax) (M : ℚ) (xs : List ℚ) (hM : ∀ x ∈ xs, |x| ≤ M)
    (ht : xs.length ≤ 2000000) :
    ∃ s' ys, runOut StandardDeviation.next (StandardDeviation.fresh n : StandardDeviation (R ℚ))
        (xs.map R.mk) = some (s', ys) ∧ 0 ≤ s'.m2.v ∧
      (s'.m2.v / ((min xs.length n : Nat) : ℚ) - var (lastN n xs)) ^ 2
        ≤ ((1 / 10 ^ 12) ^ 2 + (1 / 10 ^ 15) ^ 2 * (xs.length : ℚ) ^ 3) * (M ^ 2) ^ 2 := by
  have hu0 : (0 : ℚ) ≤ u := u_nonneg
  have hsm : (xs.length : ℚ) * u ≤ 1 / 64 :=
    le_trans (mul_le_mul_of_nonneg_left hu (Nat.cast_nonneg _)) (sd_small _ ht)
  obtain ⟨s', ys, e, hnn, _, _, b⟩ := SDVar.sd_var_rounding n hn h8 M xs hM hsm
  refine ⟨s', ys, e, hnn, ?_⟩
  exact within _ (77 * (xs.length : ℚ) * u) (77 * (xs.length : ℚ) * u64) _ (M ^ 2) b
    (mul_le_mul_of_nonneg_left hu (by positivity)) (sq_nonneg M)
    (sd_var_tau' xs.length)

/-- C13 shape, the value returned by the generated `StandardDeviation.next` (in this model the
    rounded variance `fl(m2/count)`, the model's `sqrt` being the identity placeholder): with unit
    roundoff at most `2^-53`, for every stream of at most `2·10^6` inputs bounded by `M` and EVERY
    period, the value `y` returned after `k` inputs is not negative and satisfies
    `(y − exact window variance)² ≤ ((1e-12)² + (1e-15)²·k³)·(M²)²`, i.e. `≤ τ(k)·M²`. -/
theorem sd_out_within_tau [Rounding ℚ] (hu : (u : ℚ) ≤ u64) (n : Nat) (hn : 0 < n)
    (h8 : n * 8 ≤ isizeMax) (M : ℚ) (xs : List ℚ) (hM : ∀ x ∈ xs, |x| ≤ M)
    (ht : xs.length ≤ 2000000) :
    ∃ s' ys, runOut StandardDeviation.next (StandardDeviation.fresh n : StandardDeviation (R ℚ))
        (xs.map R.mk) = some (s', ys) ∧
      List.Forall₂ (fun (y : R ℚ) (p : List ℚ) => 0 ≤ y.v ∧
          (y.v - var (lastN n p)) ^ 2
            ≤ ((1 / 10 ^ 12) ^ 2 + (1 / 10 ^ 15) ^ 2 * (p.length : ℚ) ^ 3) * (M ^ 2) ^ 2)
        ys (prefixes xs) := by
  have hu0 : (0 : ℚ) ≤ u := u_nonneg
  have hsm : (xs.length : ℚ) * u ≤ 1 / 64 :=
    le_trans (mul_le_mul_of_nonneg_left hu (Nat.cast_nonneg _)) (sd_small _ ht)
  obtain ⟨s', ys, e, b⟩ := SDVar.sd_out_rounding n hn h8 M xs hM hsm
  refine ⟨s', ys, e, b.imp ?_⟩
  intro y p hb
  refine ⟨hb.1, ?_⟩
  exact within _ (77 * ((p.length : ℚ) + 1) * u) (77 * ((p.length : ℚ) + 1) * u64) _ (M ^ 2) hb.2
    (mul_le_mul_of_nonneg_left hu (by positivity)) (sq_nonneg M)
    (sd_var_tau p.length)

/-! ## Non-vacuity: the hypotheses are jointly satisfiable -/

section NonVacuity
attribute [local instance] inflate

theorem ex_bound : ∀ x ∈ ([1, -2, 3, 1 / 2, 5] : List ℚ), |x| ≤ 5 := by
  intro x hx; simp at hx; rcases hx with rfl | rfl | rfl | rfl | rfl <;> norm_num [abs_le]

/-- `sd_mean_rounding` applies: period 3, five inputs bounded by 5, rounding `inflate` -/
example : ∃ s' ys, runOut StandardDeviation.next (StandardDeviation.fresh 3 : StandardDeviation (R ℚ))
      (([1, -2, 3, 1 / 2, 5] : List ℚ).map R.mk) = some (s', ys) ∧
    |(StandardDeviation.mean s').v - mean (lastN 3 [1, -2, 3, 1 / 2, 5])|
      ≤ 6 * (([1, -2, 3, 1 / 2, 5] : List ℚ).length : ℚ) * (1 / 2 ^ 20) * 5 :=
  SDMean.sd_mean_rounding 3 (by decide) (by decide) 5 [1, -2, 3, 1 / 2, 5] ex_bound
    (by show ((5 : ℕ) : ℚ) * (1 / 2 ^ 20) ≤ 1 / 64; norm_num)

/-- `bb_average_rounding` applies: period 3, multiplier 2, rounding `inflate` -/
example : ∃ s' os, runOut BollingerBands.next
      (BollingerBands.fresh 3 (R.mk 2) : BollingerBands (R ℚ))
      (([1, -2, 3, 1 / 2, 5] : List ℚ).map R.mk) = some (s', os) ∧
    List.Forall₂ (fun (o : BollingerBandsOutput (R ℚ)) (p : List ℚ) =>
        |o.average.v - mean (lastN 3 p)| ≤ 6 * (p.length : ℚ) * (1 / 2 ^ 20) * 5) os
      (prefixes [1, -2, 3, 1 / 2, 5]) :=
  SDMean.bb_average_rounding 3 (by decide) (by decide) (R.mk 2) 5 [1, -2, 3, 1 / 2, 5] ex_bound
    (by show ((5 : ℕ) : ℚ) * (1 / 2 ^ 20) ≤ 1 / 64; norm_num)

/-- `sd_var_rounding` applies: period 3, five inputs bounded by 5, rounding `inflate` -/
example : ∃ s' ys, runOut StandardDeviation.next (StandardDeviation.fresh 3 : StandardDeviation (R ℚ))
      (([1, -2, 3, 1 / 2, 5] : List ℚ).map R.mk) = some (s', ys) ∧
    0 ≤ s'.m2.v ∧
    |s'.m2.v / ((min ([1, -2, 3, 1 / 2, 5] : List ℚ).length 3 : ℕ) : ℚ) - var (lastN 3 [1, -2, 3, 1 / 2, 5])|
      ≤ 77 * (([1, -2, 3, 1 / 2, 5] : List ℚ).length : ℚ) * (1 / 2 ^ 20) * 5 ^ 2 := by
  obtain ⟨s', ys, e, h0, _, _, hv⟩ := SDVar.sd_var_rounding 3 (by decide) (by decide) 5
    [1, -2, 3, 1 / 2, 5] ex_bound (by show ((5 : ℕ) : ℚ) * (1 / 2 ^ 20) ≤ 1 / 64; norm_num)
  exact ⟨s', ys, e, h0, hv⟩

/-- `sd_out_rounding` applies: period 3, five inputs bounded by 5, rounding `inflate` -/
example : ∃ s' ys, runOut StandardDeviation.next (StandardDeviation.fresh 3 : StandardDeviation (R ℚ))
      (([1, -2, 3, 1 / 2, 5] : List ℚ).map R.mk) = some (s', ys) ∧
    List.Forall₂ (fun (y : R ℚ) (p : List ℚ) =>
        0 ≤ y.v ∧ |y.v - var (lastN 3 p)| ≤ 77 * ((p.length : ℚ) + 1) * (1 / 2 ^ 20) * 5 ^ 2) ys
      (prefixes [1, -2, 3, 1 / 2, 5]) :=
  SDVar.sd_out_rounding 3 (by decide) (by decide) 5 [1, -2, 3, 1 / 2, 5] ex_bound
    (by show ((5 : ℕ) : ℚ) * (1 / 2 ^ 20) ≤ 1 / 64; norm_num)

end NonVacuity

section NonVacuity64
attribute [local instance] inflate64

/-- the `…_within_tau` theorems apply: a rounding with `u = 2^-53` exists -/
example : ∃ s' ys, runOut StandardDeviation.next
      (StandardDeviation.fresh 3 : StandardDeviation (R ℚ))
      (([1, -2, 3] : List ℚ).map R.mk) = some (s', ys) ∧ ys.length = 3 := by
  obtain ⟨s', ys, e, b⟩ := sd_out_within_tau (le_refl _) 3 (by decide) (by decide) 3 [1, -2, 3]
    (by intro x hx; simp at hx; rcases hx with rfl | rfl | rfl <;> norm_num [abs_le]) (by simp)
  exact ⟨s', ys, e, by rw [b.length_eq]; rfl⟩

example : ∃ s' os, runOut BollingerBands.next
      (BollingerBands.fresh 3 (R.mk 2) : BollingerBands (R ℚ))
      (([1, -2, 3] : List ℚ).map R.mk) = some (s', os) ∧ os.length = 3 := by
  obtain ⟨s', os, e, b⟩ := bb_average_within_tau (le_refl _) 3 (by decide) (by decide) (R.mk 2) 3
    [1, -2, 3]
    (by intro x hx; simp at hx; rcases hx with rfl | rfl | rfl <;> norm_num [abs_le]) (by simp)
  exact ⟨s', os, e, by rw [b.length_eq]; rfl⟩

end NonVacuity64

end TaRs.Round.Tau
