/-
  Layer R, ExponentialMovingAverage: rounding-error bound for the GENERATED `next` under the
  standard model of floating-point arithmetic (`TaRs/Round/Model.lean`; trusted assumption:
  every operation is the exact one followed by a rounding `fl` with `|fl x − x| ≤ u·|x|`,
  i.e. no overflow / underflow).

  Main theorem `ema_rounding`: for every period `n ≥ 1` with `(n+1)·u ≤ 1/64`, every stream
  with `|x| ≤ M` (ANY length), every output `y_k` of the generated EMA satisfies

        |y_k − z_k| ≤ 6·(n+1)·u·M

  where `z` is the documented recursion `z_1 = x_1`, `z_k = α·x_k + (1−α)·z_{k−1}` evaluated
  in EXACT arithmetic with the exact `α = 2/(n+1)` (`emaSeqK`).  The bound does not depend on
  the length of the stream: EMA is a contraction (factor `1−α`), so old rounding errors decay.

  What is accounted for: the smoothing factor the code computes, `2.0 / (period as f64 + 1.0)`,
  carries roundings (`k_err`: relative error ≤ 4u – in the model even the literals are rounded);
  one step `k·x + (1−k)·current` has four more roundings (two products, `1 − k`, the sum).
  The first output is the first input, unrounded.
-/
import TaRs.Round.Model
import TaRs.Props.C02
import TaRs.Lemmas.XLemmas
import Mathlib.Tactic.NormNum
import Mathlib.Tactic.Ring
import Mathlib.Tactic.Linarith
import Mathlib.Tactic.Positivity
import Mathlib.Tactic.FieldSimp
set_option linter.unusedSectionVars false
namespace TaRs.Round.EMA
open TaRs TaRs.Rs TaRs.Gen Rounding

variable {K : Type} [Field K] [LinearOrder K] [IsStrictOrderedRing K]

/-! ## The reference: the documented recursion in exact arithmetic -/

/-- the EMA recursion continued from a previous value, exact arithmetic: `a·x + (1 − a)·prev` -/
def emaFromK (a prev : K) : List K → List K
  | [] => []
  | x :: xs => (a * x + (1 - a) * prev) :: emaFromK a (a * x + (1 - a) * prev) xs

/-- exact EMA with smoothing factor `a` of a whole history: first output = first input -/
def emaSeqK (a : K) : List K → List K
  | [] => []
  | x :: xs => x :: emaFromK a x xs

/-! ## Arithmetic cores (pure inequalities about `fl`) -/
section Arith
variable [Rounding K]

theorem abs_le_of_sub {x y b : K} (h : |x - y| ≤ b) : |x| ≤ |y| + b := by
  have := abs_add_le (x - y) y
  rw [sub_add_cancel] at this
  linarith

/-- the smoothing factor as computed, `fl (fl 2 / fl (n + fl 1))`, has relative error ≤ 4u -/
theorem k_err (n a : K) (hn : 1 ≤ n) (ha : a * (n + 1) = 2) (hNu : (n + 1) * u ≤ 1 / 64) :
    |fl (fl 2 / fl (n + fl 1)) - a| ≤ 4 * u * a := by
  have hu0 : (0 : K) ≤ u := u_nonneg
  have hu : (u : K) ≤ 1 / 128 := by nlinarith
  have hN : (0 : K) < n + 1 := by linarith
  have ha0 : 0 < a := by
    by_contra hc
    have : a * (n + 1) ≤ 0 := mul_nonpos_of_nonpos_of_nonneg (not_lt.mp hc) hN.le
    linarith
  have ha1 : a ≤ 1 := by nlinarith
  have hauN : a * ((n + 1) * u) = 2 * u := by rw [← mul_assoc, ha]
  have huu : (u : K) * u ≤ u / 128 := by nlinarith
  -- literals
  have h1 := abs_le.mp (fl_err (1 : K))
  have h2 := abs_le.mp (fl_err (2 : K))
  rw [abs_one, mul_one] at h1
  rw [abs_two] at h2
  -- denominator
  have hs : |n + fl 1| ≤ (n + 1) + u := by
    rw [abs_le]; constructor <;> linarith [h1.1, h1.2]
  have h3 := abs_le.mp (fl_err_le (n + fl 1) _ hs)
  set den := fl (n + fl 1) with hden
  have hdlo : (n + 1) - u - u * ((n + 1) + u) ≤ den := by linarith [h3.1, h1.1]
  have hdhi : den ≤ (n + 1) + u + u * ((n + 1) + u) := by linarith [h3.2, h1.2]
  have hdpos : 0 < den := by nlinarith
  -- quotient
  have hq : |fl 2 / den - a| ≤ (27 / 10) * u * a := by
    have e : fl 2 / den - a = (fl 2 - a * den) / den := by field_simp
    rw [e, abs_div, abs_of_pos hdpos, div_le_iff₀ hdpos, abs_le]
    have hau : 0 ≤ a * u := mul_nonneg ha0.le hu0
    have hauu : a * u * u ≤ a * u / 128 := by nlinarith
    have e1 : a * den = 2 + a * (den - (n + 1)) := by rw [← ha]; ring
    have hlo : a * (den - (n + 1)) ≥ -(a * u) - 2 * u - a * u * u := by
      have : a * (den - (n + 1)) ≥ a * (-u - u * ((n + 1) + u)) :=
        mul_le_mul_of_nonneg_left (by linarith) ha0.le
      have e2 : a * (-u - u * ((n + 1) + u)) = -(a * u) - (a * ((n + 1) * u)) - a * u * u := by ring
      rw [e2, hauN] at this
      linarith
    have hhi : a * (den - (n + 1)) ≤ a * u + 2 * u + a * u * u := by
      have : a * (den - (n + 1)) ≤ a * (u + u * ((n + 1) + u)) :=
        mul_le_mul_of_nonneg_left (by linarith) ha0.le
      have e2 : a * (u + u * ((n + 1) + u)) = a * u + (a * ((n + 1) * u)) + a * u * u := by ring
      rw [e2, hauN] at this
      linarith
    -- X = a·den lies in 2 ± (a·u + 2u + …); then 2.7·u·X ≥ 5.4u − small
    have hau1 : a * u ≤ u := by nlinarith
    have hXlo : a * den ≥ 2 - a * u - 2 * u - a * u / 128 - u / 64 := by linarith
    have hXhi : a * den ≤ 2 + a * u + 2 * u + a * u / 128 := by linarith
    have hade : 27 / 10 * u * a * den = 27 / 10 * u * (a * den) := by ring
    have hprod : 27 / 10 * u * (a * den) ≥ 27 / 10 * u * (2 - a * u - 2 * u - a * u / 128 - u / 64) :=
      mul_le_mul_of_nonneg_left hXlo (by positivity)
    have hexp : 27 / 10 * u * (2 - a * u - 2 * u - a * u / 128 - u / 64)
        = 27 / 5 * u - 27 / 10 * (1 + 1 / 128) * (a * u * u) - 27 / 10 * (2 + 1 / 64) * (u * u) := by ring
    have hauu0 : 0 ≤ a * u * u := by positivity
    rw [hade]
    constructor <;> linarith [h2.1, h2.2]
  -- final rounding
  have hqa : |fl 2 / den| ≤ a + (27 / 10) * u * a := by
    have := abs_le_of_sub hq
    rwa [abs_of_pos ha0] at this
  have h4 := fl_err_le (fl 2 / den) _ hqa
  have e : fl (fl 2 / den) - a = (fl (fl 2 / den) - fl 2 / den) + (fl 2 / den - a) := by ring
  rw [e]
  have := abs_add_le (fl (fl 2 / den) - fl 2 / den) (fl 2 / den - a)
  have hau : 0 ≤ u * a := mul_nonneg hu0 ha0.le
  have huua : u * (u * a) ≤ 1 / 128 * (u * a) := mul_le_mul_of_nonneg_right hu hau
  linarith

/-- first product `fl (k·x)` against `a·x` -/
theorem p1_err (k a x M : K) (ha0 : 0 ≤ a) (hu : (u : K) ≤ 1 / 128)
    (hk : |k - a| ≤ 4 * u * a) (hx : |x| ≤ M) :
    |fl (k * x) - a * x| ≤ (504 / 100) * u * a * M := by
  have hu0 : (0 : K) ≤ u := u_nonneg
  have hM : 0 ≤ M := le_trans (abs_nonneg _) hx
  have hkabs : |k| ≤ a + 4 * u * a := by
    have := abs_le_of_sub hk
    rwa [abs_of_nonneg ha0] at this
  have hkx : |k * x| ≤ (a + 4 * u * a) * M := by
    rw [abs_mul]; exact mul_le_mul hkabs hx (abs_nonneg _) (by positivity)
  have h1 := fl_err_le (k * x) _ hkx
  have h2 : |k * x - a * x| ≤ 4 * u * a * M := by
    rw [← sub_mul, abs_mul]; exact mul_le_mul hk hx (abs_nonneg _) (by positivity)
  have e : fl (k * x) - a * x = (fl (k * x) - k * x) + (k * x - a * x) := by ring
  rw [e]
  have := abs_add_le (fl (k * x) - k * x) (k * x - a * x)
  have huaM : 0 ≤ u * a * M := by positivity
  nlinarith

/-- the complementary factor `fl (one − k)` against `1 − a` -/
theorem c_err (k one a : K) (ha0 : 0 ≤ a) (ha1 : a ≤ 1) (hu : (u : K) ≤ 1 / 128)
    (hk : |k - a| ≤ 4 * u * a) (hone : |one - 1| ≤ u) :
    |fl (one - k) - (1 - a)| ≤ u * (204 / 100 + 3 * a) := by
  have hu0 : (0 : K) ≤ u := u_nonneg
  have h0 : |one - k - (1 - a)| ≤ u + 4 * u * a := by
    have e : one - k - (1 - a) = (one - 1) + (a - k) := by ring
    rw [e]
    have := abs_add_le (one - 1) (a - k)
    rw [abs_sub_comm a k] at this
    linarith
  have h1 : |one - k| ≤ (1 - a) + (u + 4 * u * a) := by
    have := abs_le_of_sub h0
    rwa [abs_of_nonneg (by linarith : (0 : K) ≤ 1 - a)] at this
  have h2 := fl_err_le (one - k) _ h1
  have e : fl (one - k) - (1 - a) = (fl (one - k) - (one - k)) + (one - k - (1 - a)) := by ring
  rw [e]
  have := abs_add_le (fl (one - k) - (one - k)) (one - k - (1 - a))
  have hua : 0 ≤ u * a := mul_nonneg hu0 ha0
  have huu : (u : K) * u ≤ u / 128 := by nlinarith
  have huua : u * u * a ≤ u * u := by nlinarith [mul_nonneg hu0 hu0]
  nlinarith

/-- second product `fl (c·y)` against `(1−a)·y` -/
theorem p2_err (c a y Y : K) (ha0 : 0 ≤ a) (ha1 : a ≤ 1) (hu : (u : K) ≤ 1 / 128)
    (hc : |c - (1 - a)| ≤ u * (204 / 100 + 3 * a)) (hy : |y| ≤ Y) :
    |fl (c * y) - (1 - a) * y| ≤ u * (308 / 100 + 2 * a) * Y := by
  have hu0 : (0 : K) ≤ u := u_nonneg
  have hY : 0 ≤ Y := le_trans (abs_nonneg _) hy
  have hcabs : |c| ≤ (1 - a) + u * (204 / 100 + 3 * a) := by
    have := abs_le_of_sub hc
    rwa [abs_of_nonneg (by linarith : (0 : K) ≤ 1 - a)] at this
  have hcy : |c * y| ≤ ((1 - a) + u * (204 / 100 + 3 * a)) * Y := by
    rw [abs_mul]; exact mul_le_mul hcabs hy (abs_nonneg _) (by nlinarith)
  have h1 := fl_err_le (c * y) _ hcy
  have h2 : |c * y - (1 - a) * y| ≤ u * (204 / 100 + 3 * a) * Y := by
    rw [← sub_mul, abs_mul]; exact mul_le_mul hc hy (abs_nonneg _) (by nlinarith)
  have e : fl (c * y) - (1 - a) * y = (fl (c * y) - c * y) + (c * y - (1 - a) * y) := by ring
  rw [e]
  have := abs_add_le (fl (c * y) - c * y) (c * y - (1 - a) * y)
  have huY : 0 ≤ u * Y := mul_nonneg hu0 hY
  have huu : (u : K) * u ≤ u / 128 := by nlinarith
  have huuY : u * u * Y ≤ u / 128 * Y := mul_le_mul_of_nonneg_right huu hY
  have huuaY : u * u * a * Y ≤ u * u * Y := by
    have : 0 ≤ u * u * Y := by positivity
    nlinarith
  nlinarith

/-- the final sum `fl (p1 + p2)` against `a·x + (1−a)·z` -/
theorem sum_err (p1 p2 a x y z M E : K) (ha0 : 0 ≤ a) (ha1 : a ≤ 1) (hu : (u : K) ≤ 1 / 128)
    (hE : 0 ≤ E) (hx : |x| ≤ M) (hyz : |y - z| ≤ E) (hz : |z| ≤ M)
    (h1 : |p1 - a * x| ≤ (504 / 100) * u * a * M)
    (h2 : |p2 - (1 - a) * y| ≤ u * (308 / 100 + 2 * a) * (M + E)) :
    |fl (p1 + p2) - (a * x + (1 - a) * z)| ≤ (112 / 10) * u * M + (512 / 100) * u * E + (1 - a) * E := by
  have hu0 : (0 : K) ≤ u := u_nonneg
  have hM : 0 ≤ M := le_trans (abs_nonneg _) hx
  have hb : (0 : K) ≤ 1 - a := by linarith
  have hy : |y| ≤ M + E := by linarith [abs_le_of_sub hyz]
  have hax : |a * x| ≤ a * M := by
    rw [abs_mul, abs_of_nonneg ha0]; exact mul_le_mul_of_nonneg_left hx ha0
  have hby : |(1 - a) * y| ≤ (1 - a) * (M + E) := by
    rw [abs_mul, abs_of_nonneg hb]; exact mul_le_mul_of_nonneg_left hy hb
  have hbyz : |(1 - a) * y - (1 - a) * z| ≤ (1 - a) * E := by
    rw [← mul_sub, abs_mul, abs_of_nonneg hb]; exact mul_le_mul_of_nonneg_left hyz hb
  have hp1 := abs_le_of_sub h1
  have hp2 := abs_le_of_sub h2
  have hp : |p1 + p2| ≤ a * M + (504 / 100) * u * a * M + ((1 - a) * (M + E) + u * (308 / 100 + 2 * a) * (M + E)) := by
    have := abs_add_le p1 p2
    linarith
  have h3 := fl_err_le (p1 + p2) _ hp
  have e : fl (p1 + p2) - (a * x + (1 - a) * z)
      = (fl (p1 + p2) - (p1 + p2)) + ((p1 - a * x) + ((p2 - (1 - a) * y) + ((1 - a) * y - (1 - a) * z))) := by
    ring
  rw [e]
  have t1 := abs_add_le (fl (p1 + p2) - (p1 + p2)) ((p1 - a * x) + ((p2 - (1 - a) * y) + ((1 - a) * y - (1 - a) * z)))
  have t2 := abs_add_le (p1 - a * x) ((p2 - (1 - a) * y) + ((1 - a) * y - (1 - a) * z))
  have t3 := abs_add_le (p2 - (1 - a) * y) ((1 - a) * y - (1 - a) * z)
  -- numeric part
  have huM : 0 ≤ u * M := mul_nonneg hu0 hM
  have huE : 0 ≤ u * E := mul_nonneg hu0 hE
  have huu : (u : K) * u ≤ u / 128 := by nlinarith
  have huuM : u * u * M ≤ u / 128 * M := mul_le_mul_of_nonneg_right huu hM
  have huuE : u * u * E ≤ u / 128 * E := mul_le_mul_of_nonneg_right huu hE
  have huaM : u * a * M ≤ u * M := by
    have := mul_le_mul_of_nonneg_left ha1 huM; linarith
  have huaE : u * a * E ≤ u * E := by
    have := mul_le_mul_of_nonneg_left ha1 huE; linarith
  have huaM0 : 0 ≤ u * a * M := by positivity
  have huaE0 : 0 ≤ u * a * E := by positivity
  have huuaM : u * u * a * M ≤ u * u * M := by
    have h0 : 0 ≤ u * u * M := by positivity
    have := mul_le_mul_of_nonneg_left ha1 h0; linarith
  have huuaE : u * u * a * E ≤ u * u * E := by
    have h0 : 0 ≤ u * u * E := by positivity
    have := mul_le_mul_of_nonneg_left ha1 h0; linarith
  have huuaM0 : 0 ≤ u * u * a * M := by positivity
  have huuaE0 : 0 ≤ u * u * a * E := by positivity
  linarith

/-- **one EMA step**: if the stored value `y` is within `E = 6·N·u·M` of the exact EMA value `z`
    (`N = n+1`, `a·N = 2`), then so is the next one.  `k` = computed smoothing factor,
    `one` = the rounded literal `1.0`. -/
theorem ema_step (a N k one x y z M : K) (ha0 : 0 < a) (ha1 : a ≤ 1) (haN : a * N = 2)
    (hNu : N * u ≤ 1 / 64) (hk : |k - a| ≤ 4 * u * a) (hone : |one - 1| ≤ u)
    (hx : |x| ≤ M) (hz : |z| ≤ M) (hy : |y - z| ≤ 6 * N * u * M) :
    |fl (fl (k * x) + fl (fl (one - k) * y)) - (a * x + (1 - a) * z)| ≤ 6 * N * u * M := by
  have hu0 : (0 : K) ≤ u := u_nonneg
  have hM : 0 ≤ M := le_trans (abs_nonneg _) hx
  have hN : 2 ≤ N := by nlinarith
  have hu : (u : K) ≤ 1 / 128 := by nlinarith
  have hE : 0 ≤ 6 * N * u * M := by positivity
  have hyabs : |y| ≤ M + 6 * N * u * M := by linarith [abs_le_of_sub hy]
  have h1 := p1_err k a x M ha0.le hu hk hx
  have hc := c_err k one a ha0.le ha1 hu hk hone
  have h2 := p2_err (fl (one - k)) a y _ ha0.le ha1 hu hc hyabs
  have h3 := sum_err (fl (k * x)) (fl (fl (one - k) * y)) a x y z M _ ha0.le ha1 hu hE hx hy hz h1 h2
  refine le_trans h3 ?_
  -- a·E = 12·u·M and u·E = 6·(N·u)·u·M ≤ (6/64)·u·M
  have e1 : a * (6 * N * u * M) = 12 * (u * M) := by
    have : a * (6 * N * u * M) = 6 * (a * N) * (u * M) := by ring
    rw [this, haN]; ring
  have huM : 0 ≤ u * M := mul_nonneg hu0 hM
  have e2 : u * (6 * N * u * M) ≤ (6 / 64) * (u * M) := by
    have : u * (6 * N * u * M) = 6 * (N * u) * (u * M) := by ring
    rw [this]
    nlinarith [mul_le_mul_of_nonneg_right hNu huM]
  nlinarith

/-- the exact recursion is a convex combination: it stays within `M` -/
theorem exact_bound (a x z M : K) (ha0 : 0 ≤ a) (ha1 : a ≤ 1) (hx : |x| ≤ M) (hz : |z| ≤ M) :
    |a * x + (1 - a) * z| ≤ M := by
  have hb : (0 : K) ≤ 1 - a := by linarith
  have h1 : |a * x| ≤ a * M := by
    rw [abs_mul, abs_of_nonneg ha0]; exact mul_le_mul_of_nonneg_left hx ha0
  have h2 : |(1 - a) * z| ≤ (1 - a) * M := by
    rw [abs_mul, abs_of_nonneg hb]; exact mul_le_mul_of_nonneg_left hz hb
  have := abs_add_le (a * x) ((1 - a) * z)
  linarith

end Arith

/-! ## The generated code -/

variable [Rounding K]

/-- the value of the smoothing factor the generated `new` stores, at the rounding scalar -/
theorem alpha_v (n : Nat) :
    (ExponentialMovingAverage.alpha n : R K).v = fl (fl 2 / fl ((n : K) + fl 1)) := by
  simp [ExponentialMovingAverage.alpha]

/-- value of one generated update `k·x + (1 − k)·prev` at the rounding scalar -/
theorem update_v (k x prev : R K) :
    (Scalar.add (Scalar.mul k x) (Scalar.mul (Scalar.sub (Scalar.lit 1 0) k) prev)).v
      = fl (fl (k.v * x.v) + fl (fl (fl 1 - k.v) * prev.v)) := by
  simp

theorem period_facts (n : Nat) (hn : 0 < n) :
    (0 : K) < 2 / ((n : K) + 1) ∧ 2 / ((n : K) + 1) ≤ 1 ∧ 2 / ((n : K) + 1) * ((n : K) + 1) = 2 ∧ (1 : K) ≤ n := by
  have h1 : (1 : K) ≤ n := by exact_mod_cast hn
  have hN : (0 : K) < (n : K) + 1 := by linarith
  refine ⟨by positivity, ?_, by field_simp, h1⟩
  rw [div_le_iff₀ hN]; linarith

/-- from a stored value within the bound of the exact one, all further outputs are within it -/
theorem from_bound (n : Nat) (hn : 0 < n) (hNu : ((n : K) + 1) * u ≤ 1 / 64) (M : K) (xs : List K) :
    ∀ (prev : R K) (z : K), |z| ≤ M → |prev.v - z| ≤ 6 * ((n : K) + 1) * u * M →
      (∀ x ∈ xs, |x| ≤ M) →
      List.Forall₂ (fun (y : R K) (w : K) => |y.v - w| ≤ 6 * ((n : K) + 1) * u * M)
        (Props.C02.emaFrom (ExponentialMovingAverage.alpha n) prev (xs.map R.mk))
        (emaFromK (2 / ((n : K) + 1)) z xs) := by
  obtain ⟨ha0, ha1, haN, hn1⟩ := period_facts (K := K) n hn
  have hk : |(ExponentialMovingAverage.alpha n : R K).v - 2 / ((n : K) + 1)| ≤ 4 * u * (2 / ((n : K) + 1)) := by
    rw [alpha_v]; exact k_err _ _ hn1 haN hNu
  have hone : |fl (1 : K) - 1| ≤ u := by simpa using fl_err (1 : K)
  induction xs with
  | nil => intro _ _ _ _ _; exact List.Forall₂.nil
  | cons x xs ih =>
    intro prev z hz hp hxs
    have hx : |x| ≤ M := hxs x (by simp)
    have hstep := ema_step _ _ _ _ x prev.v z M ha0 ha1 haN hNu hk hone hx hz hp
    have hz' := exact_bound _ x z M ha0.le ha1 hx hz
    simp only [List.map_cons, Props.C02.emaFrom, emaFromK]
    refine List.Forall₂.cons ?_ (ih _ _ hz' ?_ (fun a ha => hxs a (by simp [ha])))
    · rw [update_v]; exact hstep
    · rw [update_v]; exact hstep

/-- **EMA rounding-error theorem** (standard model; generated code).
    For every period `n ≥ 1` with `(n+1)·u ≤ 1/64`, every bound `M` and every stream `xs` (of
    any length) whose entries satisfy `|x| ≤ M`: feeding `xs` to the state `new(n)` builds never
    panics, and every output is within `6·(n+1)·u·M` of the corresponding value of the
    documented recursion evaluated in exact arithmetic with the exact `α = 2/(n+1)`. -/
theorem ema_rounding (n : Nat) (hn : 0 < n) (M : K) (xs : List K)
    (hM : ∀ x ∈ xs, |x| ≤ M) (hNu : ((n : K) + 1) * u ≤ 1 / 64) :
    ∃ s' ys, runOut ExponentialMovingAverage.next
        (ExponentialMovingAverage.fresh n : ExponentialMovingAverage (R K)) (xs.map R.mk) = some (s', ys) ∧
      List.Forall₂ (fun (y : R K) (z : K) => |y.v - z| ≤ 6 * ((n : K) + 1) * u * M)
        ys (emaSeqK (2 / ((n : K) + 1)) xs) := by
  obtain ⟨s', h⟩ := Props.C02.ema_stream (F := R K) n (xs.map R.mk)
  refine ⟨s', _, h, ?_⟩
  cases xs with
  | nil => exact List.Forall₂.nil
  | cons x xs =>
    have hx : |x| ≤ M := hM x (by simp)
    have hM0 : 0 ≤ M := le_trans (abs_nonneg _) hx
    have hE : 0 ≤ 6 * ((n : K) + 1) * u * M := by
      have : (0 : K) ≤ u := u_nonneg
      positivity
    simp only [List.map_cons, Props.C02.emaSeq, emaSeqK]
    refine List.Forall₂.cons (by simpa using hE) ?_
    exact from_bound n hn hNu M xs (R.mk x) x hx (by simpa using hE) (fun a ha => hM a (by simp [ha]))

/-- the same, indexed: the `k`-th output (0-based) exists and is within the bound of the
    `k`-th value of the exact recursion -/
theorem ema_rounding_get (n : Nat) (hn : 0 < n) (M : K) (xs : List K)
    (hM : ∀ x ∈ xs, |x| ≤ M) (hNu : ((n : K) + 1) * u ≤ 1 / 64) :
    ∃ s' ys, runOut ExponentialMovingAverage.next
        (ExponentialMovingAverage.fresh n : ExponentialMovingAverage (R K)) (xs.map R.mk) = some (s', ys) ∧
      ∃ hl : ys.length = (emaSeqK (2 / ((n : K) + 1)) xs).length,
      ∀ k (hk : k < ys.length),
        |(ys[k]).v - (emaSeqK (2 / ((n : K) + 1)) xs)[k]| ≤ 6 * ((n : K) + 1) * u * M := by
  obtain ⟨s', ys, e, b⟩ := ema_rounding n hn M xs hM hNu
  refine ⟨s', ys, e, b.length_eq, ?_⟩
  intro k hk
  exact List.Forall₂.get b hk (by rw [← b.length_eq]; exact hk)

theorem emaFromK_length (a z : K) (xs : List K) : (emaFromK a z xs).length = xs.length := by
  induction xs generalizing z with
  | nil => rfl
  | cons x xs ih => simp [emaFromK, ih]

theorem emaSeqK_length (a : K) (xs : List K) : (emaSeqK a xs).length = xs.length := by
  cases xs <;> simp [emaSeqK, emaFromK_length]

/-! ## The reference is what the generated code computes in exact arithmetic

`emaSeqK` is not a new specification: it is the C02 specification `emaSeq (alpha n)` read at the
exact-arithmetic scalar `X K` (so by `Props.C02.ema_stream` at `F = X K` it is also literally the
output of the generated code run in exact arithmetic). -/
section ExactLink
variable [HasSqrt K]

theorem alpha_exact (n : Nat) :
    (ExponentialMovingAverage.alpha n : X K) = X.fin (2 / ((n : K) + 1)) := by
  have hN : ((n : K) + 1) ≠ 0 := by positivity
  simp [ExponentialMovingAverage.alpha, X.div_fin _ _ hN]

theorem emaFrom_exact (a z : K) (xs : List K) :
    Props.C02.emaFrom (X.fin a) (X.fin z) (xs.map X.fin) = (emaFromK a z xs).map X.fin := by
  induction xs generalizing z with
  | nil => rfl
  | cons x xs ih => simp [Props.C02.emaFrom, emaFromK, ih]

theorem emaSeq_exact (n : Nat) (xs : List K) :
    Props.C02.emaSeq (ExponentialMovingAverage.alpha n : X K) (xs.map X.fin)
      = (emaSeqK (2 / ((n : K) + 1)) xs).map X.fin := by
  rw [alpha_exact]
  cases xs with
  | nil => rfl
  | cons x xs => simp [Props.C02.emaSeq, emaSeqK, emaFrom_exact]

end ExactLink

end TaRs.Round.EMA
