/-
  Layer R (SMA), numeric corollaries (over ℚ; no real powers needed) and non-vacuity examples.

  With the binary64 unit roundoff `u = 2^-53`:
  * every stream length `t ≤ 2·10^6` satisfies the smallness hypothesis `t·u ≤ 1/8` of
    `SMA.sma_rounding`, every period `n ≤ 1024` the hypothesis `(n+1)·u ≤ 1/64` of
    `EMA.ema_rounding`;
  * the SMA bound `3·(t+1)·u` is below the tolerance `τ(t) = 1e-12 + 1e-15·t^1.5` used by the
    differential tests (C13, C02), for EVERY natural `t`: stated without square roots as
    `(3·(t+1)·u)² ≤ (1e-12)² + (1e-15)²·t³`, which gives
    `3·(t+1)·u ≤ sqrt(1e-24 + 1e-30·t³) ≤ 1e-12 + 1e-15·t^1.5`;
  * the EMA bound `6·(n+1)·u` is below `1e-12 ≤ τ(t)` for every period `n ≤ 1024`.
  The last section instantiates the main theorems at a concrete (non-identity) rounding on ℚ,
  which shows that their hypotheses are jointly satisfiable.
-/
import TaRs.Round.SMA
import TaRs.Round.TauBase
import Mathlib.Tactic.NormNum
import Mathlib.Tactic.Linarith
import Mathlib.Tactic.Positivity
namespace TaRs.Round.Tau
open TaRs TaRs.Rs TaRs.Spec TaRs.Gen Rounding

/-! ## Smallness hypotheses -/

/-- `t·u ≤ 1/8` for every `t ≤ 2·10^6` (in fact up to `2^50`) -/
theorem sma_small (t : ℕ) (ht : t ≤ 2000000) : (t : ℚ) * u64 ≤ 1 / 8 := by
  have h : (t : ℚ) ≤ 2000000 := by exact_mod_cast ht
  unfold u64
  have : (0 : ℚ) ≤ 1 / 2 ^ 53 := by positivity
  calc (t : ℚ) * (1 / 2 ^ 53) ≤ 2000000 * (1 / 2 ^ 53) := mul_le_mul_of_nonneg_right h this
    _ ≤ 1 / 8 := by norm_num

/-! ## Against the test tolerance τ(t) = 1e-12 + 1e-15·t^1.5 -/

/-- SMA constant 3: `(3·(t+1)·u)² ≤ (1e-12)² + (1e-15)²·t³` for EVERY natural `t` -/
theorem sma_tau (t : ℕ) :
    (3 * ((t : ℚ) + 1) * u64) ^ 2 ≤ (1 / 10 ^ 12) ^ 2 + (1 / 10 ^ 15) ^ 2 * (t : ℚ) ^ 3 := by
  have hx : (0 : ℚ) ≤ t := Nat.cast_nonneg t
  unfold u64
  by_cases h : (t : ℚ) ≤ 3000
  · -- small t: the constant term of τ dominates
    have h1 : 3 * ((t : ℚ) + 1) * (1 / 2 ^ 53) ≤ 1 / 10 ^ 12 := by
      have : 3 * ((t : ℚ) + 1) * (1 / 2 ^ 53) ≤ 3 * (3000 + 1) * (1 / 2 ^ 53) := by
        have : (0 : ℚ) ≤ 1 / 2 ^ 53 := by positivity
        nlinarith
      refine le_trans this ?_
      norm_num
    have h0 : (0 : ℚ) ≤ 3 * ((t : ℚ) + 1) * (1 / 2 ^ 53) := by positivity
    have h2 := pow_le_pow_left₀ h0 h1 2
    have h3 : (0 : ℚ) ≤ (1 / 10 ^ 15) ^ 2 * (t : ℚ) ^ 3 := by positivity
    linarith
  · -- large t: the t^1.5 term dominates
    have hge : (3000 : ℚ) ≤ t := le_of_lt (not_le.mp h)
    have h1 : (3 * ((t : ℚ) + 1) * (1 / 2 ^ 53)) ^ 2 ≤ (1 / 10 ^ 15) ^ 2 * (t : ℚ) ^ 3 := by
      have e1 : (3 * ((t : ℚ) + 1) * (1 / 2 ^ 53)) ^ 2 = 9 / 2 ^ 106 * ((t : ℚ) + 1) ^ 2 := by ring
      have e2 : ((t : ℚ) + 1) ^ 2 ≤ 4 * (t : ℚ) ^ 2 := by nlinarith
      have e3 : (36 : ℚ) / 2 ^ 106 ≤ (1 / 10 ^ 15) ^ 2 * 3000 := by norm_num
      have e4 : (t : ℚ) ^ 3 = (t : ℚ) ^ 2 * t := by ring
      have ht2 : (0 : ℚ) ≤ (t : ℚ) ^ 2 := by positivity
      calc (3 * ((t : ℚ) + 1) * (1 / 2 ^ 53)) ^ 2 = 9 / 2 ^ 106 * ((t : ℚ) + 1) ^ 2 := e1
        _ ≤ 9 / 2 ^ 106 * (4 * (t : ℚ) ^ 2) := mul_le_mul_of_nonneg_left e2 (by positivity)
        _ = 36 / 2 ^ 106 * (t : ℚ) ^ 2 := by ring
        _ ≤ ((1 / 10 ^ 15) ^ 2 * 3000) * (t : ℚ) ^ 2 := mul_le_mul_of_nonneg_right e3 ht2
        _ ≤ ((1 / 10 ^ 15) ^ 2 * t) * (t : ℚ) ^ 2 :=
            mul_le_mul_of_nonneg_right (mul_le_mul_of_nonneg_left hge (by positivity)) ht2
        _ = (1 / 10 ^ 15) ^ 2 * (t : ℚ) ^ 3 := by rw [e4]; ring
    have h3 : (0 : ℚ) ≤ (1 / 10 ^ 12) ^ 2 := by positivity
    linarith

/-! ## The main theorems at binary64 precision (any rounding on ℚ with `u ≤ 2^-53`) -/

/-- C13 shape: with unit roundoff at most `2^-53`, for every stream of at most `2·10^6` inputs
    bounded by `M`, every SMA output `y` after `k` inputs satisfies
    `(y − exact window mean)² ≤ ((1e-12)² + (1e-15)²·k³)·M²`, i.e. `|y − mean| ≤ τ(k)·M`. -/
theorem sma_within_tau [Rounding ℚ] (hu : (u : ℚ) ≤ u64) (n : Nat) (hn : 0 < n) (h8 : n * 8 ≤ isizeMax)
    (M : ℚ) (xs : List ℚ) (hM : ∀ x ∈ xs, |x| ≤ M) (ht : xs.length ≤ 2000000) :
    ∃ s' ys, runOut SimpleMovingAverage.next (SimpleMovingAverage.fresh n : SimpleMovingAverage (R ℚ))
        (xs.map R.mk) = some (s', ys) ∧
      List.Forall₂ (fun (y : R ℚ) (p : List ℚ) =>
          (y.v - mean (lastN n p)) ^ 2 ≤ ((1 / 10 ^ 12) ^ 2 + (1 / 10 ^ 15) ^ 2 * (p.length : ℚ) ^ 3) * M ^ 2)
        ys (prefixes xs) := by
  have hu0 : (0 : ℚ) ≤ u := u_nonneg
  have hsm : (xs.length : ℚ) * u ≤ 1 / 8 :=
    le_trans (mul_le_mul_of_nonneg_left hu (Nat.cast_nonneg _)) (sma_small _ ht)
  obtain ⟨s', ys, e, b⟩ := SMA.sma_rounding n hn h8 M xs hM hsm
  refine ⟨s', ys, e, b.imp ?_⟩
  intro y p hb
  have h1 : |y.v - mean (lastN n p)| ≤ 3 * ((p.length : ℚ) + 1) * u64 * |M| := by
    refine le_trans hb ?_
    have h0 : (0 : ℚ) ≤ 3 * ((p.length : ℚ) + 1) := by positivity
    have := le_abs_self M
    have h2 : 3 * ((p.length : ℚ) + 1) * u ≤ 3 * ((p.length : ℚ) + 1) * u64 :=
      mul_le_mul_of_nonneg_left hu h0
    have h3 : (0 : ℚ) ≤ 3 * ((p.length : ℚ) + 1) * u := mul_nonneg h0 hu0
    calc 3 * ((p.length : ℚ) + 1) * u * M ≤ 3 * ((p.length : ℚ) + 1) * u * |M| :=
          mul_le_mul_of_nonneg_left this h3
      _ ≤ 3 * ((p.length : ℚ) + 1) * u64 * |M| := mul_le_mul_of_nonneg_right h2 (abs_nonneg _)
  have h2 := pow_le_pow_left₀ (abs_nonneg _) h1 2
  rw [sq_abs, mul_pow, sq_abs] at h2
  exact le_trans h2 (mul_le_mul_of_nonneg_right (sma_tau p.length) (sq_nonneg M))

section NonVacuity
attribute [local instance] inflate

/-- `sma_rounding` applies: period 3, five inputs bounded by 5, rounding `inflate` -/
example : ∃ s' ys, runOut SimpleMovingAverage.next (SimpleMovingAverage.fresh 3 : SimpleMovingAverage (R ℚ))
      (([1, -2, 3, 1 / 2, 5] : List ℚ).map R.mk) = some (s', ys) ∧
    List.Forall₂ (fun (y : R ℚ) (p : List ℚ) =>
        |y.v - mean (lastN 3 p)| ≤ 3 * ((p.length : ℚ) + 1) * (1 / 2 ^ 20) * 5) ys
      (prefixes [1, -2, 3, 1 / 2, 5]) :=
  SMA.sma_rounding 3 (by decide) (by decide) 5 [1, -2, 3, 1 / 2, 5]
    (by intro x hx; simp at hx; rcases hx with rfl | rfl | rfl | rfl | rfl <;> norm_num [abs_le])
    (by show ((5 : ℕ) : ℚ) * (1 / 2 ^ 20) ≤ 1 / 8; norm_num)

end NonVacuity

section NonVacuity64
attribute [local instance] inflate64

example : ∃ s' ys, runOut SimpleMovingAverage.next
      (SimpleMovingAverage.fresh 3 : SimpleMovingAverage (R ℚ))
      (([1, -2, 3] : List ℚ).map R.mk) = some (s', ys) ∧ ys.length = 3 := by
  obtain ⟨s', ys, e, b⟩ := sma_within_tau (le_refl _) 3 (by decide) (by decide) 3 [1, -2, 3]
    (by intro x hx; simp at hx; rcases hx with rfl | rfl | rfl <;> norm_num [abs_le]) (by simp)
  exact ⟨s', ys, e, by rw [b.length_eq]; rfl⟩

end NonVacuity64

end TaRs.Round.Tau
