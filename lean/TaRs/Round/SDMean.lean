/-
  Layer R, StandardDeviation / BollingerBands, part 1: THE RUNNING MEAN.
  Rounding-error bound for the running mean `m` of the GENERATED sliding-window Welford
  `StandardDeviation.next` under the standard model of floating-point arithmetic
  (`TaRs/Round/Model.lean`: every operation is the exact one followed by a rounding `fl`
  with `|fl x − x| ≤ u·|x|`, i.e. no overflow / underflow).

  The code updates the mean incrementally,
        warm-up :  m ← m + (x − m)/count          sliding :  m ← m + (x − old)/n ,
  three roundings per step (subtraction, division, addition).  In exact arithmetic `m` is the
  mean of the current window (`TaRs/Lemmas/Exact/StandardDeviation.lean`).  Under rounding the
  error of `m` is carried from step to step (contracted by `1 − 1/count` while warming up,
  carried unchanged afterwards) and every step adds at most `6·u·M`.

  Main theorem `sd_mean_rounding`: for every period `n ≥ 1`, every stream `xs` with `|x| ≤ M`
  of length `t` with `t·u ≤ 1/64`, the generated StandardDeviation never panics and its
  running mean after the `t` inputs satisfies

        |m − mean (last min(t,n) inputs)| ≤ 6·t·u·M .

  The bound does not depend on `n`; it grows linearly with the number of inputs since the last
  reset (the drift C13 is about).  Corollary `bb_average_rounding`: the same bound for every
  `average` output of the generated `BollingerBands.next` (which returns `sd.mean()`).

  Also here, for reuse by `SDVar.lean`: the abstraction invariant `MInv`, the one-step lemma
  `step` (which exposes the new state through the L0 normal form `next_eq`), and the generic
  stream induction `run_hist`.
-/
import TaRs.Round.Model
import TaRs.Round.SMA
import TaRs.Lemmas.StandardDeviation
import TaRs.Lemmas.BollingerBands
import TaRs.Lemmas.Ring
import TaRs.Lemmas.Machine
import TaRs.Spec.Window
import Mathlib.Tactic.NormNum
import Mathlib.Tactic.Ring
import Mathlib.Tactic.Linarith
import Mathlib.Tactic.Positivity
import Mathlib.Tactic.FieldSimp
set_option linter.unusedSectionVars false
namespace TaRs.Round.SDMean
open TaRs TaRs.Rs TaRs.Spec TaRs.Gen Rounding
open TaRs.Round.SMA (evicted lastN_snoc sum_sub_evicted abs_sum_le mem_lastN prefixes_cons)

variable {K : Type} [Field K] [LinearOrder K] [IsStrictOrderedRing K]

/-! ## List facts (exact arithmetic) -/

/-- the mean of values bounded by `M` is bounded by `M` -/
theorem abs_mean_le (w : List K) (M : K) (hM : 0 ≤ M) (h : ∀ a ∈ w, |a| ≤ M) : |mean w| ≤ M := by
  unfold mean
  by_cases hw : w = []
  · subst hw; simpa using hM
  · have hk : (0 : K) < (w.length : K) := by exact_mod_cast List.length_pos_iff.mpr hw
    rw [abs_div, abs_of_pos hk, div_le_iff₀ hk]
    have := abs_sum_le w M h
    linarith [mul_comm (w.length : K) M]

/-- the evicted value is bounded like the inputs -/
theorem abs_evicted_le (n : Nat) (h : List K) (M : K) (hM : 0 ≤ M) (hh : ∀ a ∈ h, |a| ≤ M) :
    |evicted n h| ≤ M := by
  unfold evicted
  by_cases hl : h.length < n
  · simpa [hl] using hM
  · simp only [hl, if_false]
    cases hg : h[h.length - n]? with
    | none => simpa using hM
    | some a => simpa using hh a (List.mem_of_getElem? hg)

/-- scalar identity behind the growing-phase mean update -/
theorem grow_mean_aux (S k x : K) (hk : 0 < k) :
    (S + x) / (k + 1) = S / k + (x - S / k) / (k + 1) := by
  have h0 : k ≠ 0 := ne_of_gt hk
  have h1 : k + 1 ≠ 0 := by positivity
  field_simp
  ring

/-- appending `x` to a window: Welford's mean update (exact arithmetic) -/
theorem mean_append (w : List K) (x : K) :
    mean (w ++ [x]) = mean w + (x - mean w) / ((w.length : K) + 1) := by
  by_cases hw : w = []
  · subst hw; simp [mean]
  · have hk : (0 : K) < (w.length : K) := by
      exact_mod_cast List.length_pos_iff.mpr hw
    have := grow_mean_aux w.sum (w.length : K) x hk
    simp only [mean, List.sum_append, List.sum_singleton, List.length_append,
      List.length_singleton]
    push_cast
    exact this

/-- a full window slides: the mean moves by `(x − evicted)/n` (exact arithmetic) -/
theorem mean_slide (n : Nat) (hn : 0 < n) (h : List K) (x : K) (hl : n ≤ h.length) :
    mean (lastN n (h ++ [x])) = mean (lastN n h) + (x - evicted n h) / (n : K) := by
  have h1 : (lastN n (h ++ [x])).sum = (lastN (n - 1) h).sum + x := by
    rw [lastN_snoc n hn]; simp
  have h2 := sum_sub_evicted n hn h
  have l1 : (lastN n (h ++ [x])).length = n := by rw [lastN_length]; simp; omega
  have l2 : (lastN n h).length = n := by rw [lastN_length]; omega
  unfold mean
  rw [l1, l2, h1, ← h2]
  ring

/-! ## Small facts about `fl` -/

section Arith
variable [Rounding K]

theorem abs_div_le_of_one_le (x c : K) (hc : 1 ≤ c) : |x / c| ≤ |x| := by
  have hc0 : 0 < c := by linarith
  rw [abs_div, abs_of_pos hc0, div_le_iff₀ hc0]
  exact le_mul_of_one_le_right (abs_nonneg x) hc

/-- `e − e/c` is a contraction of `e` for `c ≥ 1` -/
theorem abs_contract (e c : K) (hc : 1 ≤ c) : |e - e / c| ≤ |e| := by
  have hc0 : 0 < c := by linarith
  have h1 : 0 ≤ 1 - 1 / c := by
    rw [sub_nonneg, div_le_iff₀ hc0]; linarith
  have h2 : 1 - 1 / c ≤ 1 := by
    have : 0 ≤ 1 / c := by positivity
    linarith
  have e1 : e - e / c = e * (1 - 1 / c) := by ring
  rw [e1, abs_mul, abs_of_nonneg h1]
  exact mul_le_of_le_one_right (abs_nonneg _) h2

/-- with `u ≤ 1/64`: `|fl x| ≤ 65/64·B` whenever `|x| ≤ B` -/
theorem abs_fl_le64 (hu : (u : K) ≤ 1 / 64) (x B : K) (h : |x| ≤ B) : |fl x| ≤ 65 / 64 * B := by
  have h1 := abs_fl_le x B h
  have hB : 0 ≤ B := le_trans (abs_nonneg _) h
  have := mul_le_mul_of_nonneg_right hu hB
  linarith

/-- **arithmetic core of the mean update.**  `m` = stored mean, `a` = the difference the code
    forms (`x − m` or `x − old`), `c` = the divisor (count or period), `μ'` = exact new mean,
    `r = m + a/c − μ'` = the old error as carried (contracted) by the exact update, `E` = bound
    on the old error.  The three roundings add at most `6·u·M`. -/
theorem mean_core (m μ' a r c M E : K) (hc : 1 ≤ c) (hM : 0 ≤ M) (hu : (u : K) ≤ 1 / 64)
    (hE0 : 0 ≤ E) (hE : E ≤ 3 / 32 * M) (ha : |a| ≤ 2 * M + E) (hr : |r| ≤ E)
    (hid : m + a / c - μ' = r) (hμ' : |μ'| ≤ M) :
    |fl (m + fl (fl a / c)) - μ'| ≤ E + 6 * u * M := by
  have hu0 : (0 : K) ≤ u := u_nonneg
  set D := 2 * M + E with hD
  have hD0 : 0 ≤ D := by linarith
  -- subtraction
  have h1 : |fl a - a| ≤ u * D := fl_err_le _ _ ha
  have h1' : |fl a| ≤ (1 + u) * D := abs_fl_le _ _ ha
  -- division
  have h2q : |fl a / c| ≤ (1 + u) * D := le_trans (abs_div_le_of_one_le _ _ hc) h1'
  have h2 : |fl (fl a / c) - fl a / c| ≤ u * ((1 + u) * D) := fl_err_le _ _ h2q
  have h1c : |(fl a - a) / c| ≤ u * D := le_trans (abs_div_le_of_one_le _ _ hc) h1
  -- addition
  have ez : m + fl (fl a / c) - μ' = (fl (fl a / c) - fl a / c) + ((fl a - a) / c + r) := by
    rw [← hid]; ring
  have hz : |m + fl (fl a / c) - μ'| ≤ u * ((1 + u) * D) + (u * D + E) := by
    rw [ez]
    have := abs_add_le (fl (fl a / c) - fl a / c) ((fl a - a) / c + r)
    have := abs_add_le ((fl a - a) / c) r
    linarith
  have hzb : |m + fl (fl a / c)| ≤ M + (u * ((1 + u) * D) + (u * D + E)) := by
    have e1 : m + fl (fl a / c) = (m + fl (fl a / c) - μ') + μ' := by ring
    rw [e1]
    have := abs_add_le (m + fl (fl a / c) - μ') μ'
    linarith
  have h3 := fl_err_le _ _ hzb
  have et : fl (m + fl (fl a / c)) - μ'
      = (fl (m + fl (fl a / c)) - (m + fl (fl a / c))) + (m + fl (fl a / c) - μ') := by ring
  have htot : |fl (m + fl (fl a / c)) - μ'|
      ≤ u * (M + (u * ((1 + u) * D) + (u * D + E))) + (u * ((1 + u) * D) + (u * D + E)) := by
    rw [et]
    have := abs_add_le (fl (m + fl (fl a / c)) - (m + fl (fl a / c))) (m + fl (fl a / c) - μ')
    linarith
  refine le_trans htot ?_
  -- numeric part: D·(2+u)(1+u) + M + E ≤ 6·M
  have hq : (2 + (u : K)) * (1 + u) ≤ 33 / 16 := by
    have huu : (u : K) * u ≤ 1 / 64 * u := mul_le_mul_of_nonneg_right hu hu0
    linarith
  have hq0 : (0 : K) ≤ (2 + (u : K)) * (1 + u) := by positivity
  have hDM : D ≤ 67 / 32 * M := by rw [hD]; linarith
  have hprod : D * ((2 + u) * (1 + u)) ≤ 67 / 32 * M * (33 / 16) :=
    mul_le_mul hDM hq hq0 (by linarith)
  have hin : D * ((2 + u) * (1 + u)) + M + E ≤ 6 * M := by linarith
  have := mul_le_mul_of_nonneg_left hin hu0
  have ident : u * (M + (u * ((1 + u) * D) + (u * D + E))) + (u * ((1 + u) * D) + (u * D + E))
      = E + u * (D * ((2 + u) * (1 + u)) + M + E) := by ring
  rw [ident]
  linarith

end Arith

/-! ## Abstraction invariant and the one-step lemma for the generated code -/

variable [Rounding K]

/-- the running mean after one `next`, as a value of `K` -/
theorem nextM_v (s : StandardDeviation (R K)) (x v : R K) :
    (StandardDeviation.nextM s x v).v =
      if s.count < s.period then fl (s.m.v + fl (fl (x.v - s.m.v) / ((s.count + 1 : Nat) : K)))
      else fl (s.m.v + fl (fl (x.v - v.v) / (s.period : K))) := by
  unfold StandardDeviation.nextM
  split <;> simp

/-- abstraction relation between a concrete state (over the rounding scalar `R K`) and the
    history `h` of inputs since the last reset: the ring buffer holds the inputs exactly; the
    running mean is off the exact window mean by at most `6·k·u·M`, `k = |h|`.
    (Nothing is said about `m2` here: see `SDVar.lean`.) -/
structure MInv (n : Nat) (M : K) (s : StandardDeviation (R K)) (h : List K) : Prop where
  period : s.period = n
  small : n * 8 ≤ isizeMax
  ring : RingInv (R.mk (0 : K)) s.deque n s.index s.count (h.map R.mk)
  err : |s.m.v - mean (lastN n h)| ≤ 6 * (h.length : K) * u * M

theorem inv_fresh (n : Nat) (M : K) (hn : 0 < n) (h8 : n * 8 ≤ isizeMax) :
    MInv n M (StandardDeviation.fresh n : StandardDeviation (R K)) [] := by
  refine ⟨rfl, h8, ?_, ?_⟩
  · simpa [StandardDeviation.fresh] using RingInv.fresh (R.mk (0 : K)) n hn
  · simp [StandardDeviation.fresh, lastN, mean]

theorem inv_wf {n : Nat} {M : K} {s : StandardDeviation (R K)} {h : List K} (i : MInv n M s h) :
    StandardDeviation.WF s :=
  ⟨by rw [i.period]; exact i.ring.npos, by rw [i.period]; exact i.small,
   by rw [i.period]; exact i.ring.size, by rw [i.period]; exact i.ring.idx_lt,
   by rw [i.period]; exact i.ring.cnt_le⟩

/-- the slot under the cursor holds the value the next push evicts -/
theorem inv_old {n : Nat} {M : K} {s : StandardDeviation (R K)} {h : List K} (i : MInv n M s h) :
    s.deque[s.index]? = some (R.mk (evicted n h)) := by
  rw [i.ring.at_cursor]
  unfold evicted
  by_cases hl : h.length < n
  · simp [hl]
  · simp only [List.length_map, hl, if_false]
    have hn := i.ring.npos
    have : h.length - n < h.length := by omega
    simp [List.getElem?_map, List.getElem?_eq_getElem this]

theorem inv_count {n : Nat} {M : K} {s : StandardDeviation (R K)} {h : List K} (i : MInv n M s h) :
    s.count = min h.length n := by
  simpa using i.ring.cnt

/-- the stored mean is bounded by `M` plus its error bound -/
theorem inv_abs_m {n : Nat} {M : K} {s : StandardDeviation (R K)} {h : List K} (i : MInv n M s h)
    (hM : 0 ≤ M) (hh : ∀ a ∈ h, |a| ≤ M) : |s.m.v| ≤ M + 6 * (h.length : K) * u * M := by
  have h1 := abs_mean_le (lastN n h) M hM (fun a ha => hh a (mem_lastN _ _ _ ha))
  have h2 := i.err
  have e : s.m.v = (s.m.v - mean (lastN n h)) + mean (lastN n h) := by ring
  rw [e]
  have := abs_add_le (s.m.v - mean (lastN n h)) (mean (lastN n h))
  linarith

/-- `6·k·u·M ≤ 3/32·M` when `k·u ≤ 1/64` -/
theorem err_small (k M : K) (hM : 0 ≤ M) (hk : k * u ≤ 1 / 64) : 6 * k * u * M ≤ 3 / 32 * M := by
  have := mul_le_mul_of_nonneg_right hk hM
  linarith

/-- One call of the generated `next` on a state related to history `h`: it succeeds, the new
    state is related to `h ++ [x]` (so its mean is within `6·(|h|+1)·u·M` of the exact window
    mean), and the new state / output are the ones of the L0 normal form `next_eq`. -/
theorem step {n : Nat} {M : K} {s : StandardDeviation (R K)} {h : List K} (i : MInv n M s h)
    (hh : ∀ a ∈ h, |a| ≤ M) (x : K) (hx : |x| ≤ M)
    (hu : ((h.length + 1 : Nat) : K) * u ≤ 1 / 64) :
    ∃ s' y, s.next (R.mk x) = some (s', y) ∧ MInv n M s' (h ++ [x]) ∧
      s'.m = StandardDeviation.nextM s (R.mk x) (R.mk (evicted n h)) ∧
      s'.m2 = StandardDeviation.nextM2 s (R.mk x) (R.mk (evicted n h)) ∧
      s'.count = min (h.length + 1) n ∧
      y = Scalar.sqrt (Scalar.div s'.m2 (Scalar.ofNat s'.count)) := by
  have hn := i.ring.npos
  have hsmall := i.small
  have hpush := i.ring.push (R.mk x)
  have hwf := inv_wf i
  have hold := inv_old i
  have hcnt := inv_count i
  have hM : 0 ≤ M := le_trans (abs_nonneg _) hx
  have hu0 : (0 : K) ≤ u := u_nonneg
  have habsm := inv_abs_m i hM hh
  have hev := abs_evicted_le n h M hM hh
  obtain ⟨p, ix, c, sm, sq, d⟩ := s
  have hp : p = n := i.period
  subst hp
  simp only at hold hpush hcnt habsm
  have herr : |sm.v - mean (lastN p h)| ≤ 6 * (h.length : K) * u * M := i.err
  -- smallness
  have hk1 : ((h.length : K) + 1) * u ≤ 1 / 64 := by simpa using hu
  have hk0 : (h.length : K) * u ≤ 1 / 64 := by linarith
  have hu64 : (u : K) ≤ 1 / 64 := by
    have := mul_nonneg (Nat.cast_nonneg (α := K) h.length) hu0
    linarith
  have hE0 : (0 : K) ≤ 6 * (h.length : K) * u * M := by positivity
  have hE := err_small (h.length : K) M hM hk0
  -- count after the push
  have hc' : (if c < p then c + 1 else c) = min (h.length + 1) p := by
    have := hpush.cnt
    simpa using this
  have hmean' : |mean (lastN p (h ++ [x]))| ≤ M := by
    refine abs_mean_le _ M hM (fun a ha => ?_)
    have := mem_lastN _ _ _ ha
    rcases List.mem_append.mp this with h1 | h1
    · exact hh a h1
    · simp at h1; rw [h1]; exact hx
  have hmean : |mean (lastN p h)| ≤ M :=
    abs_mean_le _ M hM (fun a ha => hh a (mem_lastN _ _ _ ha))
  refine ⟨_, _, StandardDeviation.next_eq _ _ _ hwf hold, ⟨rfl, hsmall, ?_, ?_⟩, rfl, rfl, hc', rfl⟩
  · simpa using hpush
  · -- the new mean
    have hgoal : 6 * ((h ++ [x]).length : K) * u * M = 6 * (h.length : K) * u * M + 6 * u * M := by
      simp only [List.length_append, List.length_singleton]; push_cast; ring
    rw [hgoal, nextM_v]
    dsimp only
    by_cases hl : h.length < p
    · -- warming up: Welford update, divisor = count + 1
      have hc : c = h.length := by omega
      subst hc
      have w0 : lastN p h = h := lastN_of_le p h (by omega)
      have w1 : lastN p (h ++ [x]) = h ++ [x] := lastN_of_le p _ (by simp; omega)
      rw [w0] at herr hmean
      rw [w1] at hmean' ⊢
      rw [if_pos hl]
      have hc1 : (1 : K) ≤ ((h.length + 1 : Nat) : K) := by
        exact_mod_cast (by omega : 1 ≤ h.length + 1)
      refine mean_core sm.v (mean (h ++ [x])) (x - sm.v)
        ((sm.v - mean h) - (sm.v - mean h) / ((h.length + 1 : Nat) : K)) _ M _ hc1 hM hu64 hE0 hE
        ?_ ?_ ?_ hmean'
      · have e : x - sm.v = x + (-(mean h) + -(sm.v - mean h)) := by ring
        rw [e]
        have := abs_add_le x (-(mean h) + -(sm.v - mean h))
        have := abs_add_le (-(mean h)) (-(sm.v - mean h))
        rw [abs_neg, abs_neg] at this
        linarith
      · exact le_trans (abs_contract _ _ hc1) herr
      · rw [mean_append]; push_cast; ring
    · -- sliding: divisor = period, the evicted value leaves
      have hc : c = p := by omega
      subst hc
      rw [if_neg (lt_irrefl _)]
      have hc1 : (1 : K) ≤ (c : K) := by exact_mod_cast hn
      refine mean_core sm.v (mean (lastN c (h ++ [x]))) (x - evicted c h)
        (sm.v - mean (lastN c h)) _ M _ hc1 hM hu64 hE0 hE ?_ herr ?_ hmean'
      · have := abs_sub x (evicted c h)
        linarith
      · rw [mean_slide c hn h x (by omega)]; ring

/-! ## Whole streams -/

/-- Generic stream induction with a history: if one call from a state related to `h` (under a
    prefix-closed guard `G` on the extended history) succeeds, re-establishes the relation for
    `h ++ [x]` and its output satisfies `P · (h ++ [x])`, then a whole stream succeeds, the
    final state is related to the whole history and every output satisfies `P` at its prefix. -/
theorem run_hist {S α I O : Type} (next : S → I → Option (S × O)) (emb : α → I)
    (Iv : S → List α → Prop) (G : List α → Prop) (P : O → List α → Prop)
    (Gmono : ∀ a b, G (a ++ b) → G a)
    (hstep : ∀ s h x, Iv s h → G (h ++ [x]) →
      ∃ s' y, next s (emb x) = some (s', y) ∧ Iv s' (h ++ [x]) ∧ P y (h ++ [x]))
    (ys : List α) : ∀ (h : List α) (s : S), Iv s h → G (h ++ ys) →
      ∃ s' outs, runOut next s (ys.map emb) = some (s', outs) ∧ Iv s' (h ++ ys) ∧
        List.Forall₂ (fun y p => P y (h ++ p)) outs (prefixes ys) := by
  induction ys with
  | nil =>
    intro h s i _
    exact ⟨s, [], rfl, by simpa using i, by simp [prefixes]⟩
  | cons y ys ih =>
    intro h s i hG
    have hG' : G ((h ++ [y]) ++ ys) := by simpa using hG
    obtain ⟨s1, o1, e1, i1, b1⟩ := hstep s h y i (Gmono _ _ hG')
    obtain ⟨s2, o2, e2, i2, b2⟩ := ih (h ++ [y]) s1 i1 hG'
    refine ⟨s2, o1 :: o2, ?_, by simpa using i2, ?_⟩
    · rw [List.map_cons, runOut_cons next s (emb y) _ s1 o1 e1, e2]; rfl
    · rw [prefixes_cons]
      refine List.Forall₂.cons b1 ?_
      rw [List.forall₂_map_right_iff]
      refine b2.imp ?_
      intro o p hb
      simpa using hb

/-- the guard of the rounding theorems: inputs bounded by `M`, `length·u ≤ 1/64` -/
def Guard (M : K) (h : List K) : Prop := (∀ a ∈ h, |a| ≤ M) ∧ (h.length : K) * u ≤ 1 / 64

theorem guard_mono (M : K) (a b : List K) (g : Guard M (a ++ b)) : Guard M a := by
  refine ⟨fun x hx => g.1 x (by simp [hx]), le_trans ?_ g.2⟩
  refine mul_le_mul_of_nonneg_right ?_ u_nonneg
  exact_mod_cast (by simp : a.length ≤ (a ++ b).length)

theorem guard_snoc {M : K} {h : List K} {x : K} (g : Guard M (h ++ [x])) :
    (∀ a ∈ h, |a| ≤ M) ∧ |x| ≤ M ∧ ((h.length + 1 : Nat) : K) * u ≤ 1 / 64 := by
  refine ⟨fun a ha => g.1 a (by simp [ha]), g.1 x (by simp), ?_⟩
  have := g.2
  simpa using this

/-- **StandardDeviation running-mean rounding-error theorem** (standard model; generated code).
    For every period `n ≥ 1` (accepted by `new`: `n·8 ≤ isize::MAX`), every bound `M`, every
    stream `xs` whose entries satisfy `|x| ≤ M` and whose length `t` satisfies `t·u ≤ 1/64`:
    feeding `xs` to the state `new(n)` builds never panics, and the running mean `m` (what the
    accessor `mean()` returns) of the final state satisfies
    `|m − mean (last min(t,n) entries of xs)| ≤ 6·t·u·M`.
    (Apply it to a prefix of the stream for the state after that prefix.) -/
theorem sd_mean_rounding (n : Nat) (hn : 0 < n) (h8 : n * 8 ≤ isizeMax) (M : K) (xs : List K)
    (hM : ∀ x ∈ xs, |x| ≤ M) (ht : (xs.length : K) * u ≤ 1 / 64) :
    ∃ s' ys, runOut StandardDeviation.next (StandardDeviation.fresh n : StandardDeviation (R K))
        (xs.map R.mk) = some (s', ys) ∧
      |(StandardDeviation.mean s').v - mean (lastN n xs)| ≤ 6 * (xs.length : K) * u * M := by
  obtain ⟨s', ys, e, i, _⟩ := run_hist StandardDeviation.next R.mk (MInv n M) (Guard M)
    (fun _ _ => True) (guard_mono M)
    (by
      intro s h x i g
      obtain ⟨hh, hx, hu⟩ := guard_snoc g
      obtain ⟨s', y, e, i', _⟩ := step i hh x hx hu
      exact ⟨s', y, e, i', trivial⟩)
    xs [] _ (inv_fresh n M hn h8) (by rw [List.nil_append]; exact ⟨hM, ht⟩)
  refine ⟨s', ys, e, ?_⟩
  have := i.err
  rw [List.nil_append] at this
  exact this

/-! ## BollingerBands: the `average` output is the StandardDeviation's running mean -/

/-- one step of the generated `BollingerBands.next` when the embedded StandardDeviation is
    related to `h`: the `average` output is within `6·(|h|+1)·u·M` of the exact window mean -/
theorem bb_step {n : Nat} {M : K} {s : BollingerBands (R K)} {h : List K} (i : MInv n M s.sd h)
    (hh : ∀ a ∈ h, |a| ≤ M) (x : K) (hx : |x| ≤ M)
    (hu : ((h.length + 1 : Nat) : K) * u ≤ 1 / 64) :
    ∃ s' o, s.next (R.mk x) = some (s', o) ∧ MInv n M s'.sd (h ++ [x]) ∧
      |o.average.v - mean (lastN n (h ++ [x]))| ≤ 6 * ((h ++ [x]).length : K) * u * M := by
  obtain ⟨sd', y, e, i', _⟩ := step i hh x hx hu
  exact ⟨_, _, BollingerBands.next_eq_sd s (R.mk x) sd' y e, i', i'.err⟩

/-- **BollingerBands `average` rounding-error theorem** (standard model; generated code).
    For every period `n ≥ 1`, every multiplier `k`, every stream `xs` bounded by `M` of length
    `t` with `t·u ≤ 1/64`: the generated `BollingerBands.next` never panics and the `average`
    field of the output produced after the prefix `p` of `xs` satisfies
    `|average − mean (last min(|p|,n) entries of p)| ≤ 6·|p|·u·M`. -/
theorem bb_average_rounding (n : Nat) (hn : 0 < n) (h8 : n * 8 ≤ isizeMax) (k : R K) (M : K)
    (xs : List K) (hM : ∀ x ∈ xs, |x| ≤ M) (ht : (xs.length : K) * u ≤ 1 / 64) :
    ∃ s' os, runOut BollingerBands.next (BollingerBands.fresh n k : BollingerBands (R K))
        (xs.map R.mk) = some (s', os) ∧
      List.Forall₂ (fun (o : BollingerBandsOutput (R K)) (p : List K) =>
          |o.average.v - mean (lastN n p)| ≤ 6 * (p.length : K) * u * M) os (prefixes xs) := by
  obtain ⟨s', os, e, _, b⟩ := run_hist BollingerBands.next R.mk
    (fun (s : BollingerBands (R K)) h => MInv n M s.sd h) (Guard M)
    (fun (o : BollingerBandsOutput (R K)) p =>
      |o.average.v - mean (lastN n p)| ≤ 6 * (p.length : K) * u * M) (guard_mono M)
    (by
      intro s h x i g
      obtain ⟨hh, hx, hu⟩ := guard_snoc g
      exact bb_step i hh x hx hu)
    xs [] (BollingerBands.fresh n k) (inv_fresh n M hn h8) (by rw [List.nil_append]; exact ⟨hM, ht⟩)
  exact ⟨s', os, e, by simpa using b⟩

/-- the same, indexed: the `j`-th output (0-based) exists and its `average` is within
    `6·(j+1)·u·M` of the mean of the last `min(j+1, n)` of the first `j+1` inputs -/
theorem bb_average_rounding_get (n : Nat) (hn : 0 < n) (h8 : n * 8 ≤ isizeMax) (k : R K) (M : K)
    (xs : List K) (hM : ∀ x ∈ xs, |x| ≤ M) (ht : (xs.length : K) * u ≤ 1 / 64) :
    ∃ s' os, runOut BollingerBands.next (BollingerBands.fresh n k : BollingerBands (R K))
        (xs.map R.mk) = some (s', os) ∧ os.length = xs.length ∧
      ∀ j (hj : j < os.length),
        |(os[j]).average.v - mean (lastN n (xs.take (j + 1)))| ≤ 6 * ((j + 1 : Nat) : K) * u * M := by
  obtain ⟨s', os, e, b⟩ := bb_average_rounding n hn h8 k M xs hM ht
  have hl : os.length = xs.length := by rw [b.length_eq, prefixes_length]
  refine ⟨s', os, e, hl, ?_⟩
  intro j hj
  have hj2 : j < (prefixes xs).length := by rw [prefixes_length]; omega
  have hb := List.Forall₂.get b hj hj2
  have hp : (prefixes xs)[j] = xs.take (j + 1) := by simp [prefixes]
  simp only [List.get_eq_getElem, hp] at hb
  have hlen : (xs.take (j + 1)).length = j + 1 := by simp; omega
  rw [hlen] at hb
  exact hb

end TaRs.Round.SDMean
