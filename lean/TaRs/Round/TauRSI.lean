/-
  Layer R (RSI): the period condition at binary64 precision and a non-vacuity example of
  `RSI.rsi_rounding` at a concrete rounding with a genuine error.
-/
import TaRs.Round.RSI
import TaRs.Round.TauBase
import Mathlib.Tactic.NormNum
import Mathlib.Tactic.Linarith
import Mathlib.Tactic.Positivity
namespace TaRs.Round.Tau
open TaRs TaRs.Rs TaRs.Gen Rounding

/-- `(n+1)·u ≤ 1/64` for every period `n ≤ 10^6` at `u = 2^-53` (any stream length) -/
theorem rsi_period_ok (n : ℕ) (hn : n ≤ 1000000) : ((n : ℚ) + 1) * u64 ≤ 1 / 64 := by
  have h : (n : ℚ) ≤ 1000000 := by exact_mod_cast hn
  unfold u64
  have : (0 : ℚ) ≤ 1 / 2 ^ 53 := by positivity
  calc ((n : ℚ) + 1) * (1 / 2 ^ 53) ≤ (1000000 + 1) * (1 / 2 ^ 53) :=
        mul_le_mul_of_nonneg_right (by linarith) this
    _ ≤ 1 / 64 := by norm_num

/-- the accumulated-error term `E = 6(n+1)u·G` of `rsi_rounding` for RSI(14) on prices up to 1000
    at binary64 precision is below 2e-11: readings whose averages sum to at least 8e-11 are covered -/
theorem rsi14_E : 6 * (((14 : ℕ) : ℚ) + 1) * u64 * ((1 + u64) * (2 * 1000 + 1 / 10)) ≤ 2 / 10 ^ 11 := by
  unfold u64; norm_num

section NonVacuity
attribute [local instance] inflate

/-- `rsi_rounding` applies (period 2, rounding `inflate`, three inputs bounded by 2) -/
example : ∃ s' ys, runOut RelativeStrengthIndex.next
      (RelativeStrengthIndex.fresh 2 : RelativeStrengthIndex (R ℚ)) (([1, 2, 3 / 2] : List ℚ).map R.mk) = some (s', ys) ∧
    ys.length = 3 := by
  obtain ⟨s', ys, us, ds, e, hl, _⟩ := RSI.rsi_rounding (K := ℚ) 2 (by decide) (2 : ℚ) ([1, 2, 3 / 2] : List ℚ)
    (by decide +kernel) (by show (((2 : ℕ) : ℚ) + 1) * (1 / 2 ^ 20) ≤ 1 / 64; norm_num)
  exact ⟨s', ys, e, hl⟩

end NonVacuity

end TaRs.Round.Tau
