/-
  Layer R (MAD), numeric corollaries (over ℚ; no real powers needed) and non-vacuity examples.

  `MAD.mad_rounding` bounds the `k`-th output of the generated MeanAbsoluteDeviation by
  `B(k,n)·M`, `B(k,n) = (5·k + 2·min(k,n) + 10)·u`.  With the binary64 unit roundoff
  `u = 2^-53` and the test tolerance `τ(k) = 1e-12 + 1e-15·k^1.5` of C13:

  * every stream length `t ≤ 2·10^6` satisfies the smallness hypothesis `t·u ≤ 1/64`
    (no hypothesis on the period is needed);
  * `mad_tau`: `B(k,n) ≤ τ(k)` for EVERY `k` and EVERY period `n`, stated without square roots
    as `B(k,n)² ≤ (1e-12)² + (1e-15)²·k³` (which gives
    `B ≤ sqrt(1e-24 + 1e-30·k³) ≤ 1e-12 + 1e-15·k^1.5`).  The worst-case bound never exceeds
    the tolerance.
  The last section instantiates the main theorem at concrete (non-identity) roundings on ℚ.
-/
import TaRs.Round.MAD
import TaRs.Round.TauBase
import Mathlib.Tactic.NormNum
import Mathlib.Tactic.Linarith
import Mathlib.Tactic.Positivity
namespace TaRs.Round.Tau
open TaRs TaRs.Rs TaRs.Spec TaRs.Gen Rounding

/-! ## Smallness hypothesis -/

/-- `t·u ≤ 1/64` for every `t ≤ 2·10^6` (in fact up to `2^47`) -/
theorem mad_small (t : ℕ) (ht : t ≤ 2000000) : (t : ℚ) * u64 ≤ 1 / 64 := by
  have h : (t : ℚ) ≤ 2000000 := by exact_mod_cast ht
  unfold u64
  have : (0 : ℚ) ≤ 1 / 2 ^ 53 := by positivity
  calc (t : ℚ) * (1 / 2 ^ 53) ≤ 2000000 * (1 / 2 ^ 53) := mul_le_mul_of_nonneg_right h this
    _ ≤ 1 / 64 := by norm_num

/-! ## Against the test tolerance τ(k) = 1e-12 + 1e-15·k^1.5 -/

/-- the coefficient of `M` in the MAD bound at binary64 precision -/
def madB (k n : ℕ) : ℚ := (5 * (k : ℚ) + 2 * ((min k n : ℕ) : ℚ) + 10) * u64

/-- `B(k,n) ≤ 10·(k+1)·u` -/
theorem madB_le (k n : ℕ) : madB k n ≤ 10 * ((k : ℚ) + 1) * u64 := by
  have hmin : ((min k n : ℕ) : ℚ) ≤ (k : ℚ) := by exact_mod_cast Nat.min_le_left _ _
  have hk0 : (0 : ℚ) ≤ k := Nat.cast_nonneg k
  unfold madB
  refine mul_le_mul_of_nonneg_right ?_ (by unfold u64; positivity)
  linarith

/-- **MAD bound below τ**, for EVERY `k` and EVERY period:
    `((5k + 2·min(k,n) + 10)·2^-53)² ≤ (1e-12)² + (1e-15)²·k³` -/
theorem mad_tau (k n : ℕ) :
    (madB k n) ^ 2 ≤ (1 / 10 ^ 12) ^ 2 + (1 / 10 ^ 15) ^ 2 * (k : ℚ) ^ 3 := by
  have hx : (0 : ℚ) ≤ k := Nat.cast_nonneg k
  have hB0 : 0 ≤ madB k n := by unfold madB u64; positivity
  have hB := madB_le k n
  have hsq : (madB k n) ^ 2 ≤ (10 * ((k : ℚ) + 1) * u64) ^ 2 := pow_le_pow_left₀ hB0 hB 2
  refine le_trans hsq ?_
  unfold u64
  by_cases h : (k : ℚ) ≤ 800
  · -- small k: the constant term of τ dominates
    have h1 : 10 * ((k : ℚ) + 1) * (1 / 2 ^ 53) ≤ 1 / 10 ^ 12 := by
      have : 10 * ((k : ℚ) + 1) * (1 / 2 ^ 53) ≤ 10 * (800 + 1) * (1 / 2 ^ 53) := by
        have : (0 : ℚ) ≤ 1 / 2 ^ 53 := by positivity
        nlinarith
      refine le_trans this ?_
      norm_num
    have h0 : (0 : ℚ) ≤ 10 * ((k : ℚ) + 1) * (1 / 2 ^ 53) := by positivity
    have h2 := pow_le_pow_left₀ h0 h1 2
    have h3 : (0 : ℚ) ≤ (1 / 10 ^ 15) ^ 2 * (k : ℚ) ^ 3 := by positivity
    linarith
  · -- large k: the k^1.5 term dominates
    have hge : (800 : ℚ) ≤ k := le_of_lt (not_le.mp h)
    have h1 : (10 * ((k : ℚ) + 1) * (1 / 2 ^ 53)) ^ 2 ≤ (1 / 10 ^ 15) ^ 2 * (k : ℚ) ^ 3 := by
      have e1 : (10 * ((k : ℚ) + 1) * (1 / 2 ^ 53)) ^ 2 = 100 / 2 ^ 106 * ((k : ℚ) + 1) ^ 2 := by ring
      have e2 : ((k : ℚ) + 1) ^ 2 ≤ 4 * (k : ℚ) ^ 2 := by nlinarith
      have e3 : (400 : ℚ) / 2 ^ 106 ≤ (1 / 10 ^ 15) ^ 2 * 800 := by norm_num
      have e4 : (k : ℚ) ^ 3 = (k : ℚ) ^ 2 * k := by ring
      have ht2 : (0 : ℚ) ≤ (k : ℚ) ^ 2 := by positivity
      calc (10 * ((k : ℚ) + 1) * (1 / 2 ^ 53)) ^ 2 = 100 / 2 ^ 106 * ((k : ℚ) + 1) ^ 2 := e1
        _ ≤ 100 / 2 ^ 106 * (4 * (k : ℚ) ^ 2) := mul_le_mul_of_nonneg_left e2 (by positivity)
        _ = 400 / 2 ^ 106 * (k : ℚ) ^ 2 := by ring
        _ ≤ ((1 / 10 ^ 15) ^ 2 * 800) * (k : ℚ) ^ 2 := mul_le_mul_of_nonneg_right e3 ht2
        _ ≤ ((1 / 10 ^ 15) ^ 2 * k) * (k : ℚ) ^ 2 :=
            mul_le_mul_of_nonneg_right (mul_le_mul_of_nonneg_left hge (by positivity)) ht2
        _ = (1 / 10 ^ 15) ^ 2 * (k : ℚ) ^ 3 := by rw [e4]; ring
    have h3 : (0 : ℚ) ≤ (1 / 10 ^ 12) ^ 2 := by positivity
    linarith

/-! ## The main theorem at binary64 precision (any rounding on ℚ with `u ≤ 2^-53`) -/

/-- C13 shape for MAD: with unit roundoff at most `2^-53`, for every period and every stream of
    at most `2·10^6` inputs bounded by `M`, the generated MAD never panics and every output `y`
    after `k` inputs satisfies
    `(y − exact window MAD)² ≤ ((1e-12)² + (1e-15)²·k³)·M²`, i.e. `|y − mad| ≤ τ(k)·M`. -/
theorem mad_within_tau [Rounding ℚ] (hu : (u : ℚ) ≤ u64) (n : Nat) (hn : 0 < n) (h8 : n * 8 ≤ isizeMax)
    (M : ℚ) (xs : List ℚ) (hM : ∀ x ∈ xs, |x| ≤ M) (ht : xs.length ≤ 2000000) :
    ∃ s' ys, runOut MeanAbsoluteDeviation.next (MeanAbsoluteDeviation.fresh n : MeanAbsoluteDeviation (R ℚ))
        (xs.map R.mk) = some (s', ys) ∧
      List.Forall₂ (fun (y : R ℚ) (p : List ℚ) =>
          (y.v - mad (lastN n p)) ^ 2 ≤ ((1 / 10 ^ 12) ^ 2 + (1 / 10 ^ 15) ^ 2 * (p.length : ℚ) ^ 3) * M ^ 2)
        ys (prefixes xs) := by
  have hu0 : (0 : ℚ) ≤ u := u_nonneg
  have hsm : (xs.length : ℚ) * u ≤ 1 / 64 :=
    le_trans (mul_le_mul_of_nonneg_left hu (Nat.cast_nonneg _)) (mad_small _ ht)
  obtain ⟨s', ys, e, b⟩ := MAD.mad_rounding n hn h8 M xs hM hsm
  refine ⟨s', ys, e, b.imp ?_⟩
  intro y p hb
  have h1 : |y.v - mad (lastN n p)| ≤ madB p.length n * |M| := by
    refine le_trans hb ?_
    unfold madB
    have h0 : (0 : ℚ) ≤ 5 * (p.length : ℚ) + 2 * ((min p.length n : ℕ) : ℚ) + 10 := by positivity
    have := le_abs_self M
    calc (5 * (p.length : ℚ) + 2 * ((min p.length n : ℕ) : ℚ) + 10) * u * M
        ≤ (5 * (p.length : ℚ) + 2 * ((min p.length n : ℕ) : ℚ) + 10) * u * |M| :=
          mul_le_mul_of_nonneg_left this (mul_nonneg h0 hu0)
      _ ≤ (5 * (p.length : ℚ) + 2 * ((min p.length n : ℕ) : ℚ) + 10) * u64 * |M| :=
          mul_le_mul_of_nonneg_right (mul_le_mul_of_nonneg_left hu h0) (abs_nonneg _)
  have h2 := pow_le_pow_left₀ (abs_nonneg _) h1 2
  rw [sq_abs, mul_pow, sq_abs] at h2
  exact le_trans h2 (mul_le_mul_of_nonneg_right (mad_tau p.length n) (sq_nonneg M))

section NonVacuity
attribute [local instance] inflate

/-- `mad_rounding` applies: period 3, five inputs bounded by 5, rounding `inflate` -/
example : ∃ s' ys, runOut MeanAbsoluteDeviation.next (MeanAbsoluteDeviation.fresh 3 : MeanAbsoluteDeviation (R ℚ))
      (([1, -2, 3, 1 / 2, 5] : List ℚ).map R.mk) = some (s', ys) ∧
    List.Forall₂ (fun (y : R ℚ) (p : List ℚ) =>
        |y.v - mad (lastN 3 p)|
          ≤ (5 * (p.length : ℚ) + 2 * ((min p.length 3 : ℕ) : ℚ) + 10) * (1 / 2 ^ 20) * 5) ys
      (prefixes [1, -2, 3, 1 / 2, 5]) :=
  MAD.mad_rounding 3 (by decide) (by decide) 5 [1, -2, 3, 1 / 2, 5]
    (by intro x hx; simp at hx; rcases hx with rfl | rfl | rfl | rfl | rfl <;> norm_num [abs_le])
    (by show ((5 : ℕ) : ℚ) * (1 / 2 ^ 20) ≤ 1 / 64; norm_num)

end NonVacuity

section NonVacuity64
attribute [local instance] inflate64

example : ∃ s' ys, runOut MeanAbsoluteDeviation.next
      (MeanAbsoluteDeviation.fresh 3 : MeanAbsoluteDeviation (R ℚ))
      (([1, -2, 3] : List ℚ).map R.mk) = some (s', ys) ∧ ys.length = 3 := by
  obtain ⟨s', ys, e, b⟩ := mad_within_tau (le_refl _) 3 (by decide) (by decide) 3 [1, -2, 3]
    (by intro x hx; simp at hx; rcases hx with rfl | rfl | rfl <;> norm_num [abs_le]) (by simp)
  exact ⟨s', ys, e, by rw [b.length_eq]; rfl⟩

end NonVacuity64

end TaRs.Round.Tau
