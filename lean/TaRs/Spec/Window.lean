/-
  Textbook window statistics over a history list (hand-written spec; short enough to read
  in a minute).  A history is oldest-first; the window of period `n` is `lastN n h`.
-/
import TaRs.Lemmas.Ring
import Mathlib.Algebra.Order.Field.Basic
import Mathlib.Algebra.BigOperators.Group.List.Basic
set_option linter.unusedSectionVars false
namespace TaRs.Spec
open TaRs

variable {K : Type} [Field K] [LinearOrder K]

/-- arithmetic mean -/
def mean (w : List K) : K := w.sum / (w.length : K)

/-- population variance -/
def var (w : List K) : K := (w.map (fun x => (x - mean w) ^ 2)).sum / (w.length : K)

/-- mean absolute deviation about the window mean -/
def mad (w : List K) : K := (w.map (fun x => |x - mean w|)).sum / (w.length : K)

/-- Σ (i+1)·w[i]: weights 1..k, newest (last) heaviest -/
def wsum : List K → K
  | [] => 0
  | w => (w.zipIdx.map (fun p => p.1 * ((p.2 : K) + 1))).sum

/-- weighted moving average, weights 1..k, newest heaviest -/
def wma (w : List K) : K := wsum w / ((w.length : K) * ((w.length : K) + 1) / 2)

/-- the non-empty prefixes of a stream, shortest first -/
def prefixes {α : Type} (xs : List α) : List (List α) := (List.range xs.length).map (fun i => xs.take (i + 1))

theorem prefixes_nil {α : Type} : prefixes ([] : List α) = [] := rfl

theorem prefixes_length {α : Type} (xs : List α) : (prefixes xs).length = xs.length := by
  simp [prefixes]

end TaRs.Spec
