import TaRs.Prelude.Scalar
import TaRs.Prelude.Rs
import TaRs.Prelude.Codec
import TaRs.Gen.All
import TaRs.Gen.Surface
