/-
  tars_drv — replays an op file produced by the Rust harness on the *generated* model
  instantiated at `Float`, and compares every recorded result of the real crate with the
  model's (outputs bit for bit, bincode state bytes by FNV-1a hash + length, Display text,
  constructor verdicts, panics).  Prints one MISMATCH line per disagreement and a SUMMARY.
-/
import TaRs.Prelude.FloatInst
import TaRs.Gen.All
import TaRs.Gen.DataItem
open TaRs TaRs.Gen

def hexVal (c : Char) : Option Nat :=
  if '0' ≤ c ∧ c ≤ '9' then some (c.toNat - '0'.toNat)
  else if 'a' ≤ c ∧ c ≤ 'f' then some (c.toNat - 'a'.toNat + 10)
  else if 'A' ≤ c ∧ c ≤ 'F' then some (c.toNat - 'A'.toNat + 10)
  else none

def parseHex (s : String) : Option Nat :=
  s.toList.foldl (fun acc c => match acc, hexVal c with
    | some a, some v => some (a * 16 + v)
    | _, _ => none) (some 0)

def nanBits : UInt64 := 0x7FF8000000000000

def parseF (s : String) : Option Float :=
  if s == "nan" then some (Float.ofBits nanBits)
  else (parseHex s).map (fun n => Float.ofBits (UInt64.ofNat n))

def hexDigit (n : Nat) : Char :=
  if n < 10 then Char.ofNat ('0'.toNat + n) else Char.ofNat ('a'.toNat + n - 10)

def toHex16 (n : UInt64) : String :=
  String.ofList ((List.range 16).map (fun i => hexDigit ((n >>> (UInt64.ofNat (60 - 4 * i))).toNat % 16)))

def showF (x : Float) : String :=
  if x.isNaN then "nan" else toHex16 x.toBits

/-- bincode writes the raw bits; NaN payload/sign is not modelled (canonical NaN). -/
def tb (x : Float) : UInt64 := x.toBits
def ob (b : UInt64) : Float := Float.ofBits b

def fnv (bs : List UInt8) : UInt64 :=
  bs.foldl (fun h b => (h ^^^ b.toUInt64) * 0x100000001b3) 0xcbf29ce484222325

structure St where
  inst : Array (Option (AnyInd Float)) := #[]
  lines : Nat := 0
  mism : Nat := 0
  skipped : Nat := 0

def St.get (s : St) (i : Nat) : Option (AnyInd Float) := (s.inst.getD i none)
def St.set (s : St) (i : Nat) (a : Option (AnyInd Float)) : St :=
  let arr := if i < s.inst.size then s.inst else s.inst ++ Array.replicate (i + 1 - s.inst.size) none
  { s with inst := arr.set! i a }

def outStr (xs : List Float) : String :=
  "out " ++ toString xs.length ++ String.join (xs.map (fun x => " " ++ showF x))

def parseNats (ts : List String) : Option (List Nat) := ts.mapM String.toNat?
def parseFs (ts : List String) : Option (List Float) := ts.mapM parseF

/-- model result for one op; `none` = malformed line. Returns (new state, result text). -/
def step (s : St) (ts : List String) : Option (St × String) :=
  match ts with
  | "new" :: id :: name :: np :: rest => do
    let id ← id.toNat?
    let np ← np.toNat?
    let ps ← parseNats (rest.take np)
    let rest := rest.drop np
    let nm ← (rest.head?).bind String.toNat?
    let ms ← parseFs ((rest.drop 1).take nm)
    match AnyInd.create (F := Float) name ps ms with
    | none => none
    | some (.ok a) => some (s.set id (some a), "ok")
    | some (.err _) => some (s.set id none, "err")
    | some .panic => some (s.set id none, "panic")
  | ["default", id, name] => do
    let id ← id.toNat?
    match AnyInd.default_ (F := Float) name with
    | some a => some (s.set id (some a), "ok")
    | none => some (s.set id none, "panic")
  | ["next", id, x] => do
    let id ← id.toNat?
    let x ← parseF x
    let a ← s.get id
    match a.next x with
    | some (a', out) => some (s.set id (some a'), outStr out)
    | none => some (s, "panic")
  | ["bar", id, o, h, l, c, v] => do
    let id ← id.toNat?
    let o ← parseF o
    let h ← parseF h
    let l ← parseF l
    let c ← parseF c
    let v ← parseF v
    let a ← s.get id
    match a.nextBar { open_ := o, high := h, low := l, close := c, volume := v } with
    | some (a', out) => some (s.set id (some a'), outStr out)
    | none => some (s, "panic")
  | ["reset", id] => do
    let id ← id.toNat?
    let a ← s.get id
    match a.reset with
    | some a' => some (s.set id (some a'), "ok")
    | none => some (s, "panic")
  | ["state", id] => do
    let id ← id.toNat?
    let a ← s.get id
    let bs ← a.enc tb
    some (s, toHex16 (fnv bs) ++ " " ++ toString bs.length)
  | ["display", id, m] => do
    let id ← id.toNat?
    let a ← s.get id
    let d ← a.display (fun _ => m)
    some (s, d)
  | ["period", id] => do
    let id ← id.toNat?
    let a ← s.get id
    match a.period_fn with
    | some p => some (s, toString p)
    | none => some (s, "none")
  | ["multiplier", id] => do
    let id ← id.toNat?
    let a ← s.get id
    match a.multiplier_fn with
    | some p => some (s, showF p)
    | none => some (s, "none")
  | ["clone", id, nid] => do
    let id ← id.toNat?
    let nid ← nid.toNat?
    let a ← s.get id
    some (s.set nid (some a), "ok")
  | ["serde", id, nid] => do
    let id ← id.toNat?
    let nid ← nid.toNat?
    let a ← s.get id
    let bs ← a.enc tb
    match AnyInd.dec ob a.name bs with
    | some (a', []) => some (s.set nid (some a'), "ok")
    | _ => some (s, "decode-failed")
  | ["drop", id] => do
    let id ← id.toNat?
    some (s.set id none, "ok")
  | "build" :: rest => do
    -- build <k> (<field> <hex>)*  : DataItem builder, setters applied in order
    let rec go (b : DataItemBuilder Float) : List String → Option (DataItemBuilder Float)
      | [] => some b
      | f :: x :: r => do
        let x ← parseF x
        let b' ← (match f with
          | "open" => some (b.open_fn x)
          | "high" => some (b.high_fn x)
          | "low" => some (b.low_fn x)
          | "close" => some (b.close_fn x)
          | "volume" => some (b.volume_fn x)
          | _ => none)
        go b' r
      | _ => none
    let b ← go DataItemBuilder.new rest
    match b.build with
    | .ok d => some (s, "ok " ++ showF d.open_fn ++ " " ++ showF d.high_fn ++ " " ++ showF d.low_fn ++ " " ++ showF d.close_fn ++ " " ++ showF d.volume_fn)
    | .err .DataItemIncomplete => some (s, "err incomplete")
    | .err .DataItemInvalid => some (s, "err invalid")
    | .err .InvalidParameter => some (s, "err param")
    | .panic => some (s, "panic")
  | _ => none

def splitArrow (line : String) : (String × String) :=
  match line.splitOn " => " with
  | [a, b] => (a, b)
  | a :: rest => (a, " => ".intercalate rest)
  | [] => ("", "")

partial def loop (h : IO.FS.Stream) (s : St) : IO St := do
  let line ← h.getLine
  if line.isEmpty then return s
  let line := (line.dropEndWhile (fun c => c == '\n' || c == '\r')).toString
  if line.isEmpty || line.startsWith "#" then loop h s else
  let (lhs, expected) := splitArrow line
  let ts := (lhs.splitOn " ").filter (· ≠ "")
  match step s ts with
  | none =>
    IO.println s!"MISMATCH line {s.lines + 1}: {line} model=malformed-or-unknown"
    loop h { s with lines := s.lines + 1, mism := s.mism + 1 }
  | some (s', got) =>
    let ok := if expected == "*" then true else if expected == "out *" then got.startsWith "out " else got == expected
    if ok then loop h { s' with lines := s.lines + 1 }
    else do
      IO.println s!"MISMATCH line {s.lines + 1}: {line} model={got}"
      loop h { s' with lines := s.lines + 1, mism := s.mism + 1 }

def main (args : List String) : IO UInt32 := do
  let stdin ← IO.getStdin
  let h : IO.FS.Stream ← match args with
    | [path] => do
      let hd ← IO.FS.Handle.mk path IO.FS.Mode.read
      pure (IO.FS.Stream.ofHandle hd)
    | _ => pure stdin
  let s ← loop h {}
  IO.println s!"SUMMARY lines={s.lines} mismatches={s.mism}"
  return (if s.mism == 0 then 0 else 1)
