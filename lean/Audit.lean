/-
  Axiom audit: lists every theorem declared in the given module(s) together with the
  axioms it depends on (what `#print axioms` would show), as JSON lines.
  usage: lake env lean --run Audit.lean TaRs.Props.C04 [more modules…]
-/
import Lean
open Lean

instance : MonadEnv (StateM Environment) where
  getEnv := get
  modifyEnv f := modify f

def jsonStr (s : String) : String := "\"" ++ (s.replace "\\" "\\\\").replace "\"" "\\\"" ++ "\""

unsafe def main (args : List String) : IO UInt32 := do
  initSearchPath (← findSysroot)
  let mods := args.map String.toName
  let env ← importModules (mods.toArray.map (fun m => { module := m })) {}
  let mut bad : Nat := 0
  for m in mods do
    let some idx := env.getModuleIdx? m | do
      IO.eprintln s!"module {m} not found"
      return 2
    let mut names : Array Name := #[]
    for (n, ci) in env.constants.map₁.toList do
      if env.getModuleIdxFor? n == some idx then
        match ci with
        | .thmInfo _ =>
          if !n.isInternal then names := names.push n
        | _ => pure ()
    let sorted := names.qsort (fun a b => a.toString < b.toString)
    for n in sorted do
      let arr : Array Name := ((collectAxioms n : StateM Environment (Array Name)).run' env)
      let axs := arr.toList.map (fun a => a.toString)
      IO.println ("{\"module\":" ++ jsonStr m.toString ++ ",\"theorem\":" ++ jsonStr n.toString ++ ",\"axioms\":[" ++ ", ".intercalate (axs.map jsonStr) ++ "]}")
      for a in axs do
        if a != "propext" && a != "Classical.choice" && a != "Quot.sound" then bad := bad + 1
  return (if bad == 0 then 0 else 1)
