//! Uniform wrapper over the 22 real indicators of the `ta` crate.
use ta::indicators::*;
use ta::{Close, High, Low, Next, Open, Period, Reset, Volume};

/// A user-defined implementor of the price traits (five independent fields).
#[derive(Clone, Copy, Debug, PartialEq)]
pub struct B {
    pub o: f64,
    pub h: f64,
    pub l: f64,
    pub c: f64,
    pub v: f64,
}
impl Open for B {
    fn open(&self) -> f64 {
        self.o
    }
}
impl High for B {
    fn high(&self) -> f64 {
        self.h
    }
}
impl Low for B {
    fn low(&self) -> f64 {
        self.l
    }
}
impl Close for B {
    fn close(&self) -> f64 {
        self.c
    }
}
impl Volume for B {
    fn volume(&self) -> f64 {
        self.v
    }
}
impl B {
    pub fn flat(x: f64) -> B {
        B { o: x, h: x, l: x, c: x, v: 0.0 }
    }
}

pub trait Flat {
    fn flat(self) -> Vec<f64>;
}
impl Flat for f64 {
    fn flat(self) -> Vec<f64> {
        vec![self]
    }
}
impl Flat for MovingAverageConvergenceDivergenceOutput {
    fn flat(self) -> Vec<f64> {
        vec![self.macd, self.signal, self.histogram]
    }
}
impl Flat for PercentagePriceOscillatorOutput {
    fn flat(self) -> Vec<f64> {
        vec![self.ppo, self.signal, self.histogram]
    }
}
impl Flat for BollingerBandsOutput {
    fn flat(self) -> Vec<f64> {
        vec![self.average, self.upper, self.lower]
    }
}
impl Flat for KeltnerChannelOutput {
    fn flat(self) -> Vec<f64> {
        vec![self.average, self.upper, self.lower]
    }
}
impl Flat for ChandelierExitOutput {
    fn flat(self) -> Vec<f64> {
        vec![self.long, self.short]
    }
}

macro_rules! inds {
    ($( $name:ident : np=$np:expr, nm=$nm:expr, next=$hn:tt, period=$hp:tt, mult=$hm:tt, new=$ctor:expr ;)*) => {
        #[derive(Clone, Debug)]
        pub enum Ind { $( $name($name), )* }

        pub const NAMES: &[&str] = &[ $( stringify!($name), )* ];

        pub fn arity(name: &str) -> Option<(usize, usize)> {
            match name { $( stringify!($name) => Some(($np, $nm)), )* _ => None }
        }
        pub fn has_next_name(name: &str) -> bool {
            match name { $( stringify!($name) => inds!(@bool $hn), )* _ => false }
        }

        impl Ind {
            pub fn create(name: &str, ps: &[usize], ms: &[f64]) -> Option<Result<Ind, ta::errors::TaError>> {
                match name {
                    $( stringify!($name) => {
                        if ps.len() != $np || ms.len() != $nm { return None; }
                        let f: fn(&[usize], &[f64]) -> Result<$name, ta::errors::TaError> = $ctor;
                        Some(f(ps, ms).map(Ind::$name))
                    } )*
                    _ => None,
                }
            }
            pub fn default_of(name: &str) -> Option<Ind> {
                match name { $( stringify!($name) => Some(Ind::$name(<$name>::default())), )* _ => None }
            }
            pub fn name(&self) -> &'static str {
                match self { $( Ind::$name(_) => stringify!($name), )* }
            }
            pub fn has_next(&self) -> bool {
                match self { $( Ind::$name(_) => inds!(@bool $hn), )* }
            }
            pub fn next(&mut self, x: f64) -> Vec<f64> {
                match self { $( Ind::$name(i) => inds!(@next $hn, i, x), )* }
            }
            pub fn next_bar(&mut self, b: &B) -> Vec<f64> {
                match self { $( Ind::$name(i) => Next::<&B>::next(i, b).flat(), )* }
            }
            pub fn next_item(&mut self, b: &ta::DataItem) -> Vec<f64> {
                match self { $( Ind::$name(i) => Next::<&ta::DataItem>::next(i, b).flat(), )* }
            }
            pub fn reset(&mut self) {
                match self { $( Ind::$name(i) => i.reset(), )* }
            }
            pub fn display(&self) -> String {
                match self { $( Ind::$name(i) => format!("{}", i), )* }
            }
            pub fn debug(&self) -> String {
                match self { $( Ind::$name(i) => format!("{:?}", i), )* }
            }
            pub fn period(&self) -> Option<usize> {
                match self { $( Ind::$name(i) => inds!(@period $hp, i), )* }
            }
            pub fn multiplier(&self) -> Option<f64> {
                match self { $( Ind::$name(i) => inds!(@mult $hm, i), )* }
            }
            /// bincode bytes of the *inner* indicator (no enum tag)
            pub fn ser(&self) -> Vec<u8> {
                match self { $( Ind::$name(i) => bincode::serialize(i).unwrap(), )* }
            }
            /// `Clone::clone_from` of the INNER indicator (the second method of the Clone trait: the copy is
            /// written into an instance that already exists and may have been used, with the same or with
            /// different parameters).  Different indicator types: plain assignment of a clone.
            pub fn clone_from_ind(&mut self, src: &Ind) {
                match (self, src) {
                    $( (Ind::$name(d), Ind::$name(s)) => Clone::clone_from(d, s), )*
                    (d, s) => *d = s.clone(),
                }
            }
            pub fn de(name: &str, bytes: &[u8]) -> Option<Ind> {
                match name { $( stringify!($name) => bincode::deserialize::<$name>(bytes).ok().map(Ind::$name), )* _ => None }
            }
        }
    };
    (@bool y) => { true };
    (@bool n) => { false };
    (@next y, $i:ident, $x:ident) => { Next::<f64>::next($i, $x).flat() };
    (@next n, $i:ident, $x:ident) => { { let _ = ($i, $x); panic!("harness: indicator has no Next<f64>") } };
    (@period y, $i:ident) => { Some($i.period()) };
    (@period n, $i:ident) => { { let _ = $i; None } };
    (@mult y, $i:ident) => { Some($i.multiplier()) };
    (@mult n, $i:ident) => { { let _ = $i; None } };
    (@wrap $name:ident, $ctor:expr) => { ($ctor).map(Ind::$name) };
}

fn ok<T>(x: T) -> Result<T, ta::errors::TaError> {
    Ok(x)
}

inds! {
    SimpleMovingAverage: np=1, nm=0, next=y, period=y, mult=n, new=|p, m| { let _ = (p, m); SimpleMovingAverage::new(p[0]) };
    ExponentialMovingAverage: np=1, nm=0, next=y, period=y, mult=n, new=|p, m| { let _ = (p, m); ExponentialMovingAverage::new(p[0]) };
    WeightedMovingAverage: np=1, nm=0, next=y, period=y, mult=n, new=|p, m| { let _ = (p, m); WeightedMovingAverage::new(p[0]) };
    StandardDeviation: np=1, nm=0, next=y, period=y, mult=n, new=|p, m| { let _ = (p, m); StandardDeviation::new(p[0]) };
    MeanAbsoluteDeviation: np=1, nm=0, next=y, period=y, mult=n, new=|p, m| { let _ = (p, m); MeanAbsoluteDeviation::new(p[0]) };
    RelativeStrengthIndex: np=1, nm=0, next=y, period=y, mult=n, new=|p, m| { let _ = (p, m); RelativeStrengthIndex::new(p[0]) };
    Minimum: np=1, nm=0, next=y, period=y, mult=n, new=|p, m| { let _ = (p, m); Minimum::new(p[0]) };
    Maximum: np=1, nm=0, next=y, period=y, mult=n, new=|p, m| { let _ = (p, m); Maximum::new(p[0]) };
    FastStochastic: np=1, nm=0, next=y, period=y, mult=n, new=|p, m| { let _ = (p, m); FastStochastic::new(p[0]) };
    SlowStochastic: np=2, nm=0, next=y, period=n, mult=n, new=|p, m| { let _ = (p, m); SlowStochastic::new(p[0], p[1]) };
    TrueRange: np=0, nm=0, next=y, period=n, mult=n, new=|p, m| { let _ = (p, m); ok(TrueRange::new()) };
    AverageTrueRange: np=1, nm=0, next=y, period=y, mult=n, new=|p, m| { let _ = (p, m); AverageTrueRange::new(p[0]) };
    MovingAverageConvergenceDivergence: np=3, nm=0, next=y, period=n, mult=n, new=|p, m| { let _ = (p, m); MovingAverageConvergenceDivergence::new(p[0], p[1], p[2]) };
    PercentagePriceOscillator: np=3, nm=0, next=y, period=n, mult=n, new=|p, m| { let _ = (p, m); PercentagePriceOscillator::new(p[0], p[1], p[2]) };
    CommodityChannelIndex: np=1, nm=0, next=n, period=y, mult=n, new=|p, m| { let _ = (p, m); CommodityChannelIndex::new(p[0]) };
    EfficiencyRatio: np=1, nm=0, next=y, period=y, mult=n, new=|p, m| { let _ = (p, m); EfficiencyRatio::new(p[0]) };
    BollingerBands: np=1, nm=1, next=y, period=y, mult=y, new=|p, m| { let _ = (p, m); BollingerBands::new(p[0], m[0]) };
    ChandelierExit: np=1, nm=1, next=n, period=y, mult=y, new=|p, m| { let _ = (p, m); ChandelierExit::new(p[0], m[0]) };
    KeltnerChannel: np=1, nm=1, next=y, period=y, mult=y, new=|p, m| { let _ = (p, m); KeltnerChannel::new(p[0], m[0]) };
    RateOfChange: np=1, nm=0, next=y, period=y, mult=n, new=|p, m| { let _ = (p, m); RateOfChange::new(p[0]) };
    MoneyFlowIndex: np=1, nm=0, next=n, period=y, mult=n, new=|p, m| { let _ = (p, m); MoneyFlowIndex::new(p[0]) };
    OnBalanceVolume: np=0, nm=0, next=n, period=n, mult=n, new=|p, m| { let _ = (p, m); ok(OnBalanceVolume::new()) };
}
