mod alloc;
mod case;
mod dd;
mod diff;
mod gen;
mod ind;
mod props;
mod rec;
mod rng;
mod runner;
mod spec;

use std::io::{BufWriter, Write};

#[global_allocator]
static GLOBAL: alloc::Counting = alloc::Counting;

fn jstr(s: &str) -> String {
    let mut o = String::from("\"");
    for c in s.chars() {
        match c {
            '"' => o.push_str("\\\""),
            '\\' => o.push_str("\\\\"),
            '\n' => o.push_str("\\n"),
            '\t' => o.push_str("\\t"),
            c if (c as u32) < 0x20 => o.push_str(&format!("\\u{:04x}", c as u32)),
            c => o.push(c),
        }
    }
    o.push('"');
    o
}

fn main() {
    std::panic::set_hook(Box::new(|_| {}));
    let args: Vec<String> = std::env::args().collect();
    let cmd = args.get(1).map(|s| s.as_str()).unwrap_or("");
    match cmd {
        "diff" => {
            let seed: u64 = args[2].parse().unwrap();
            let n: usize = args[3].parse().unwrap();
            let out = &args[4];
            let w = BufWriter::new(std::fs::File::create(out).unwrap());
            let mut rec = rec::Rec::new(Some(Box::new(w)));
            let mut rng = rng::Rng::new(seed);
            let st = diff::run(&mut rec, &mut rng, n, 300, 400);
            rec.flush();
            println!("sessions={} steps={} weird={} resets={} lines={} panics={} unexpected={}", st.sessions, st.steps, st.weird_steps, st.resets, rec.lines, rec.panics, st.unexpected_panics.len());
            for p in st.unexpected_panics.iter().take(10) {
                println!("  {}", p);
            }
        }
        // harness prop <Cxx> <seed> <quick|thorough> <ops out> <report out>
        "prop" => {
            let prop = args[2].clone();
            let seed: u64 = args[3].parse().unwrap();
            let tier = if args[4] == "thorough" { runner::Tier::Thorough } else { runner::Tier::Quick };
            let check = match props::check_fn(&prop) {
                Some(c) => c,
                None => {
                    eprintln!("unknown property {}", prop);
                    std::process::exit(2);
                }
            };
            let w: Box<dyn Write> = Box::new(BufWriter::new(std::fs::File::create(&args[5]).unwrap()));
            let mut r = runner::Runner::new(Some(w), seed, tier, check);
            let t0 = std::time::Instant::now();
            props::generate(&prop, &mut r);
            r.finish();
            let mut rep = String::from("{");
            rep.push_str(&format!("\"property\":{},", jstr(&prop)));
            rep.push_str(&format!("\"evaluations\":{},\"steps\":{},\"distinct\":{},\"distinct_nontrivial\":{},\"logged_cases\":{},\"lines\":{},\"impl_panics\":{},\"exhaustive\":{},\"wall_s\":{:.3},", r.evaluations, r.steps, r.distinct.len(), r.nontrivial, r.logged_cases, r.rec.lines, r.rec.panics, r.exhaustive, t0.elapsed().as_secs_f64()));
            rep.push_str(&format!("\"rule\":{},", jstr(props::rule(&prop))));
            rep.push_str("\"dist\":{");
            rep.push_str(&r.dist.iter().map(|(k, v)| format!("{}:{}", jstr(k), v)).collect::<Vec<_>>().join(","));
            rep.push_str("},\"opmix\":{");
            rep.push_str(&r.rec.opcount.iter().map(|(k, v)| format!("{}:{}", jstr(k), v)).collect::<Vec<_>>().join(","));
            rep.push_str("},\"samples\":[");
            rep.push_str(&r.samples.iter().map(|s| jstr(s)).collect::<Vec<_>>().join(","));
            rep.push_str("],\"failures\":[");
            rep.push_str(
                &r.failures
                    .iter()
                    .map(|(c, f)| format!("{{\"key\":{},\"msg\":{},\"case\":{},\"pretty\":{}}}", jstr(&f.key), jstr(&f.msg), jstr(&c.encode()), jstr(&c.pretty(40))))
                    .collect::<Vec<_>>()
                    .join(","),
            );
            rep.push_str("]}");
            std::fs::write(&args[6], rep).unwrap();
            println!("property={} evaluations={} steps={} failures={} wall={:.1}s", prop, r.evaluations, r.steps, r.failures.len(), t0.elapsed().as_secs_f64());
        }
        // harness replay <file containing "case":"…">
        "replay" => {
            let txt = std::fs::read_to_string(&args[2]).unwrap();
            let kpos = txt.find("\"case\"").expect("no case in replay file");
            let colon = txt[kpos..].find(':').unwrap() + kpos;
            let i = txt[colon..].find('"').unwrap() + colon + 1;
            let j = txt[i..].find('"').unwrap() + i;
            let enc = txt[i..j].replace("\\\\", "\\");
            let case = case::Case::decode(&enc).expect("bad case encoding");
            let mut rec = rec::Rec::new(None);
            match props::check_case(&case, &mut rec) {
                Some(f) => {
                    println!("REPRODUCED {} {}", f.key, f.msg);
                    std::process::exit(1);
                }
                None => {
                    println!("NOT-REPRODUCED (property holds on this case now)");
                }
            }
        }
        _ => eprintln!("usage: harness diff|prop|replay …"),
    }
}
