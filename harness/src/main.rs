mod diff;
mod gen;
mod ind;
mod rec;
mod rng;

use std::io::BufWriter;

fn main() {
    std::panic::set_hook(Box::new(|_| {}));
    let args: Vec<String> = std::env::args().collect();
    let cmd = args.get(1).map(|s| s.as_str()).unwrap_or("");
    match cmd {
        "diff" => {
            let seed: u64 = args[2].parse().unwrap();
            let n: usize = args[3].parse().unwrap();
            let out = &args[4];
            let w = BufWriter::new(std::fs::File::create(out).unwrap());
            let mut rec = rec::Rec::new(Some(Box::new(w)));
            let mut rng = rng::Rng::new(seed);
            let st = diff::run(&mut rec, &mut rng, n, 300, 400);
            rec.flush();
            println!("sessions={} steps={} weird={} resets={} lines={} panics={} unexpected={}", st.sessions, st.steps, st.weird_steps, st.resets, rec.lines, rec.panics, st.unexpected_panics.len());
            for p in st.unexpected_panics.iter().take(10) {
                println!("  {}", p);
            }
        }
        _ => eprintln!("usage: harness diff <seed> <sessions-per-indicator> <out>"),
    }
}
