//! Generic differential program: random sessions over all indicators exercising every op
//! of the protocol.  Used to validate translator + prelude + Float assumption
//! (bit-for-bit outputs, byte-for-byte state) and as the C12 no-panic exploration.
use crate::gen;
use crate::ind::{self, B};
use crate::rec::{NewRes, Rec};
use crate::rng::Rng;

pub struct DiffStats {
    pub sessions: u64,
    pub steps: u64,
    pub weird_steps: u64,
    pub resets: u64,
    pub wraps2: u64, // sessions that wrapped the ring at least twice
    pub unexpected_panics: Vec<String>,
}

pub fn params_for(rng: &mut Rng, name: &str, maxp: usize) -> (Vec<usize>, Vec<f64>) {
    let (np, nm) = ind::arity(name).unwrap();
    let ps: Vec<usize> = (0..np).map(|_| gen::period(rng, maxp)).collect();
    let ms: Vec<f64> = (0..nm).map(|_| gen::multiplier(rng)).collect();
    (ps, ms)
}

/// one session on one indicator. `weird_p` = probability of a non-finite/extreme input.
pub fn session(rec: &mut Rec, rng: &mut Rng, name: &str, maxp: usize, len: usize, weird_p: f64, st: &mut DiffStats) {
    let (ps, ms) = params_for(rng, name, maxp);
    let (id, r) = rec.new_ind(name, &ps, &ms);
    if r != NewRes::Ok {
        st.unexpected_panics.push(format!("new {} {:?} {:?} -> {:?}", name, ps, ms, r));
        return;
    }
    st.sessions += 1;
    let has_next = rec.get(id).unwrap().has_next();
    let regime = *rng.pick(gen::REGIMES);
    let scale = *rng.pick(&[1e-3, 1.0, 100.0, 1e6, 1e9]);
    let positive = rng.chance(0.6);
    let xs = gen::stream(rng, regime, len, positive, scale);
    let bars = gen::valid_bars(rng, &xs);
    let use_bars = !has_next || rng.chance(0.4);
    let mut live: Vec<usize> = vec![id];
    let maxper = ps.iter().copied().max().unwrap_or(1);
    if len >= 2 * maxper + 2 {
        st.wraps2 += 1;
    }
    rec.display(id);
    rec.period(id);
    rec.multiplier(id);
    for i in 0..len {
        let cur = live[rng.below(live.len())];
        if rec.get(cur).is_none() {
            continue;
        }
        st.steps += 1;
        let weird = rng.chance(weird_p);
        if weird {
            st.weird_steps += 1;
        }
        let ok = if use_bars || (weird && rng.chance(0.3)) {
            let b: B = if weird {
                gen::weird_bar(rng, scale)
            } else if rng.chance(0.1) {
                gen::free_bar(rng, scale)
            } else {
                bars[i]
            };
            rec.bar(cur, &b).is_some()
        } else {
            let x = if weird { gen::weird(rng) } else { xs[i] };
            rec.next(cur, x).is_some()
        };
        if !ok {
            st.unexpected_panics.push(format!("step panic {} {:?} {:?} at {}", name, ps, ms, i));
            live.retain(|&l| l != cur);
            if live.is_empty() {
                return;
            }
            continue;
        }
        match rng.below(40) {
            0 => {
                st.resets += 1;
                if !rec.reset(cur) {
                    st.unexpected_panics.push(format!("reset panic {} {:?}", name, ps));
                }
            }
            1 => {
                let c = rec.clone_(cur);
                if live.len() < 4 {
                    live.push(c);
                } else {
                    rec.drop_(c);
                }
            }
            2 => {
                let c = rec.serde(cur);
                if rec.get(c).is_some() {
                    if live.len() < 4 {
                        live.push(c);
                    } else {
                        rec.drop_(c);
                    }
                }
            }
            3 | 4 => {
                rec.state(cur);
            }
            5 => {
                rec.display(cur);
                rec.period(cur);
            }
            _ => {}
        }
    }
    for l in live {
        if rec.get(l).is_some() {
            rec.state(l);
            rec.drop_(l);
        }
    }
}

pub fn run(rec: &mut Rec, rng: &mut Rng, sessions_per_ind: usize, maxp: usize, maxlen: usize) -> DiffStats {
    let mut st = DiffStats { sessions: 0, steps: 0, weird_steps: 0, resets: 0, wraps2: 0, unexpected_panics: vec![] };
    for name in ind::NAMES {
        for k in 0..sessions_per_ind {
            let len = if k % 4 == 0 { rng.range(1, 12) } else { rng.range(1, maxlen) };
            let weird_p = if k % 3 == 0 { 0.05 } else { 0.0 };
            session(rec, rng, name, maxp, len, weird_p, &mut st);
        }
    }
    st
}
