//! C01 — sliding-window statistics equal the textbook value of exactly the last n inputs.
use super::util::*;
use crate::case::{Case, Failure, Op};
use crate::dd::*;
use crate::gen;
use super::c13::{every_step, nextval, odd_period, Due, Schedule, WinRef, WmaDrift, REGIMES};
use crate::ind::Ind;
use crate::rec::Rec;
use crate::rng::Rng;
use crate::runner::{Runner, Tier};
use crate::spec;

pub const INDS: &[&str] = &["SimpleMovingAverage", "WeightedMovingAverage", "StandardDeviation", "MeanAbsoluteDeviation", "Minimum", "Maximum", "BollingerBands"];

/// exact references of the window statistics (only the ones the indicator needs are filled in)
pub struct Refs {
    pub mean: DD,
    pub wma: DD,
    pub var: DD,
    pub mad: DD,
    pub min: f64,
    pub max: f64,
}
impl Refs {
    pub fn scratch(ind: &str, w: &[f64]) -> Refs {
        let z = DD::ZERO;
        let mut r = Refs { mean: z, wma: z, var: z, mad: z, min: 0.0, max: 0.0 };
        match ind {
            "SimpleMovingAverage" => r.mean = spec::mean(w),
            "WeightedMovingAverage" => r.wma = spec::wma(w),
            "MeanAbsoluteDeviation" => r.mad = spec::mad(w),
            "StandardDeviation" => r.var = spec::var(w),
            "Minimum" => r.min = spec::fmin(w),
            "Maximum" => r.max = spec::fmax(w),
            "BollingerBands" => {
                r.mean = spec::mean(w);
                r.var = spec::var(w);
            }
            _ => {}
        }
        r
    }
    /// the running double-double evaluations of a long run (not MAD)
    pub fn running(ind: &str, win: &WinRef) -> Refs {
        let z = DD::ZERO;
        let mut r = Refs { mean: z, wma: z, var: z, mad: z, min: 0.0, max: 0.0 };
        match ind {
            "SimpleMovingAverage" => r.mean = win.mean(),
            "WeightedMovingAverage" => r.wma = win.wma(),
            "StandardDeviation" => r.var = win.var(),
            "Minimum" => r.min = win.min(),
            "Maximum" => r.max = win.max(),
            "BollingerBands" => {
                r.mean = win.mean();
                r.var = win.var();
            }
            _ => {}
        }
        r
    }
}

/// verdict on one output: `i` = op index (or step), `t` = inputs since construction/reset, `big` = largest magnitude
/// fed since then, `k` = window length, `w` = (a preview of) the window for the message
fn judge(case: &Case, out: &[f64], rf: &Refs, i: usize, t: usize, big: f64, k: usize, w: &[f64]) -> Option<Failure> {
    let n = case.ps[0];
    let tol = tau(t) * big;
    let tol2 = tau(t) * big * big;
    let bad = |what: &str, got: f64, want: DD, tol: f64| -> Option<Failure> {
        let d = absdiff(got, want);
        if !(d <= tol) {
            // known finding: WMA's running weighted sum drifts to just beyond the envelope on long streams
            let what = if what == "wma" && t >= 1000 && d <= 2.0 * tol { "wma-drift-marginal" } else { what };
            fail(case, what, format!("step {} (t={}, n={}): got {:e}, exact {:e}, |diff|={:e} > tol {:e}; window={:?}", i, t, n, got, want.to_f64(), d, tol, &w[..w.len().min(8)]))
        } else {
            None
        }
    };
    match case.ind.as_str() {
        "SimpleMovingAverage" => bad("mean", out[0], rf.mean, tol),
        "WeightedMovingAverage" => bad("wma", out[0], rf.wma, tol),
        "MeanAbsoluteDeviation" => bad("mad", out[0], rf.mad, tol),
        "StandardDeviation" => bad("variance", dd(out[0]).mul(dd(out[0])).to_f64(), rf.var, tol2).or_else(|| if out[0] < 0.0 { fail(case, "negative-sd", format!("step {}: sd {:e}", i, out[0])) } else { None }),
        "Minimum" => {
            if out[0] == rf.min {
                None
            } else {
                fail(case, "min", format!("step {}: got {:e}, least element of the last {} inputs is {:e}; window={:?}", i, out[0], k, rf.min, &w[..w.len().min(8)]))
            }
        }
        "Maximum" => {
            if out[0] == rf.max {
                None
            } else {
                fail(case, "max", format!("step {}: got {:e}, greatest element of the last {} inputs is {:e}; window={:?}", i, out[0], k, rf.max, &w[..w.len().min(8)]))
            }
        }
        "BollingerBands" => {
            let m = case.ms[0];
            let (avg, up, lo) = (out[0], out[1], out[2]);
            let mut r = bad("bb-average", avg, rf.mean, tol);
            if r.is_none() {
                if m == 0.0 {
                    if !(up == avg && lo == avg) {
                        r = fail(case, "bb-width", format!("step {}: multiplier 0 but bands {:e} {:e} differ from average {:e}", i, up, lo, avg));
                    }
                } else {
                    // band half-widths, compared as variances: ((upper - average)/m)^2 vs var
                    let v = rf.var;
                    for (name, hw) in [("upper", dd(up).sub(dd(avg))), ("lower", dd(avg).sub(dd(lo)))] {
                        let q = hw.div(dd(m));
                        let obs = q.mul(q);
                        // rounding of `mean ± sd*m` itself: one ulp of the band level, propagated to the square
                        let e_abs = 4.0 * f64::EPSILON * (avg.abs() + hw.abs().to_f64());
                        let e_q = e_abs / m.abs();
                        let slack = 2.0 * q.abs().to_f64() * e_q + e_q * e_q;
                        let d = obs.sub(v).abs().to_f64();
                        if !(d <= tol2 + slack) {
                            r = fail(case, "bb-width", format!("step {}: {} half-width/m squared {:e} vs variance {:e}, diff {:e} > {:e}", i, name, obs.to_f64(), v.to_f64(), d, tol2 + slack));
                        }
                    }
                }
            }
            r
        }
        _ => None,
    }
}

pub fn check(case: &Case, rec: &mut Rec) -> Option<Failure> {
    if case.kind.starts_with("long-") {
        return check_long(case);
    }
    // kinds "default-…": the instance comes from Default::default(); ps/ms hold the documented default parameters
    let id = if case.kind.starts_with("default-") {
        let id = rec.default_ind(&case.ind);
        if rec.get(id).is_none() {
            return fail(case, "panic", "Default::default() panicked".into());
        }
        id
    } else {
        match mk(case, rec) {
            Ok(i) => i,
            Err(f) => return Some(f),
        }
    };
    let n = case.ps[0];
    let mut h: Vec<f64> = vec![];
    let mut big = 0.0f64;
    for (i, op) in case.ops.iter().enumerate() {
        let x = match op {
            Op::Next(x) => *x,
            Op::Reset => {
                // t, the window and the largest magnitude are counted since construction/reset
                if !rec.reset(id) {
                    return fail(case, "panic", format!("reset panicked at op {}", i));
                }
                h.clear();
                big = 0.0;
                continue;
            }
            _ => continue,
        };
        h.push(x);
        big = big.max(x.abs());
        let t = h.len();
        let out = match rec.next(id, x) {
            Some(o) => o,
            None => return fail(case, "panic", format!("panic at step {}", i)),
        };
        let w = spec::last_n(&h, n);
        let r = judge(case, &out, &Refs::scratch(&case.ind, w), i, t, big, w.len(), w);
        if r.is_some() {
            return r;
        }
    }
    None
}

pub const SIGNS: &[&str] = &["positive", "negative", "mixed"];

/// Long reset-free run: the stream is regenerated from extra = (seed, regime index of c13::REGIMES, scale, length,
/// sign mode); ops stay empty.  Values: the regime's band [scale/1000, scale], as is / negated / shifted by the
/// centre of the band (both signs).  Compared from scratch at the steps of c13::Schedule; SMA, WMA, SD, BB, Minimum
/// and Maximum in addition at every step with the exact running evaluations of c13::WinRef.
fn check_long(case: &Case) -> Option<Failure> {
    let seed = case.extra[0] as u64;
    let regime = REGIMES[case.extra[1] as usize % REGIMES.len()];
    let scale = case.extra[2];
    let len = case.extra[3] as usize;
    let sign = case.extra[4] as usize % SIGNS.len();
    let n = case.ps[0];
    let m = scale / 1000.0;
    let mut rng = Rng::new(seed);
    let mut inst = Ind::create(&case.ind, &case.ps, &case.ms).unwrap().unwrap();
    let mut win = WinRef::new_for(&case.ind, n);
    let mut sched = Schedule::new(len, 2 * n + 2, 400);
    let fast = every_step(&case.ind);
    let mut prev = m * 30.0;
    let mut big = 0.0f64;
    let mut marginal: Option<Failure> = None;
    let mut drift = WmaDrift { prev: 0.0, worst: 0.0 };
    for i in 0..len {
        let v = nextval(&mut rng, regime, i, m, prev);
        prev = v;
        let x = match sign {
            0 => v,
            1 => -v,
            _ => v - 500.5 * m,
        };
        let out = inst.next(x);
        win.push(x);
        big = big.max(x.abs());
        let t = i + 1;
        let scratch = match sched.due(t) {
            Due::Sampled => true,
            Due::Dense => !fast,
            Due::No => false,
        };
        if !scratch && !fast {
            continue;
        }
        let r = if case.ind == "WeightedMovingAverage" && marginal.is_some() {
            // inside the known drift regime (see c13::WmaDrift): only a JUMP of the error is a new failure
            let want = win.wma();
            let e = dd(out[0]).sub(want).to_f64();
            let tol = tau(t) * big;
            drift.worst = drift.worst.max(e.abs() / tol);
            let jumped = (e - drift.prev).abs() > WmaDrift::JUMP * tol;
            let pe = drift.prev;
            drift.prev = e;
            if jumped {
                fail(case, "wma", format!("step {} (t={}, n={}): got {:e}, exact {:e}; the error jumped from {:e} to {:e} in ONE step (> tol/4 = {:e}; rounding drift moves it by < tol/100 per step)", i, t, n, out[0], want.to_f64(), pe, e, WmaDrift::JUMP * tol))
            } else {
                None
            }
        } else if scratch {
            let w = win.window();
            if let Some(msg) = win.selfcheck(&w, big) {
                return fail(case, "harness-reference", msg);
            }
            judge(case, &out, &Refs::scratch(&case.ind, &w), i, t, big, w.len(), &w)
        } else {
            let k = win.ring.len();
            let pre: Vec<f64> = win.ring.iter().take(8).copied().collect();
            judge(case, &out, &Refs::running(&case.ind, &win), i, t, big, k, &pre)
        };
        if case.ind == "WeightedMovingAverage" && marginal.is_none() {
            drift.prev = dd(out[0]).sub(win.wma()).to_f64();
        }
        if let Some(f) = r {
            // the known marginal WMA drift does not end the run: a later failure beyond it takes precedence
            if f.key.ends_with(":wma-drift-marginal") {
                if marginal.is_none() {
                    marginal = Some(f);
                }
            } else {
                return Some(Failure { key: f.key, msg: format!("long run ({} regime, scale {:e}, {} values, seed {}): {}", regime, scale, SIGNS[sign], seed, f.msg) });
            }
        }
    }
    marginal.map(|f| drift.annotate(f))
}

const SMALL_ALPHABET: &[f64] = &[-2.0, -1.0, 0.0, 1.0, 1.0e6, 3.0];

pub fn generate(r: &mut Runner) {
    // stage 1: small-scope exhaustive — periods 1..=5, all sequences over a 6-symbol alphabet
    let depth = if r.tier == Tier::Quick { 5 } else { 7 };
    let a = SMALL_ALPHABET;
    let total = a.len().pow(depth as u32);
    r.log_every = if r.tier == Tier::Quick { 97 } else { 1999 };
    for ind in INDS {
        for n in 1..=5usize {
            for code in 0..total {
                let mut c = Case::new("C01", "window-exhaustive", ind, &[n], if *ind == "BollingerBands" { &[2.0] } else { &[] });
                let mut k = code;
                let mut ties = false;
                let mut prev = f64::NAN;
                for _ in 0..depth {
                    let x = a[k % a.len()];
                    if x == prev {
                        ties = true;
                    }
                    prev = x;
                    c.ops.push(Op::Next(x));
                    k /= a.len();
                }
                // non-trivial: wraps the ring (depth > n) — every such sequence evicts at least once
                let _ = ties;
                if code % 7 == 3 {
                    // same sequence once more after a reset at full depth: the window must restart empty
                    let again: Vec<Op> = c.ops.iter().rev().cloned().collect();
                    c.ops.push(Op::Reset);
                    c.ops.extend(again);
                    c.kind = "window-exhaustive-reset".into();
                }
                r.run(c, depth > n);
            }
        }
    }
    r.exhaustive = false; // the random stage below is sampled
    // stage 2: sampled periods up to 1024, long streams, magnitudes to 1e12, any sign
    let cases = if r.tier == Tier::Quick { 210 } else { 6000 };
    r.log_every = if r.tier == Tier::Quick { 7 } else { 97 };
    for i in 0..cases {
        let ind = INDS[i % INDS.len()];
        let n = if i % 5 == 0 { r.rng.range(1, 1024) } else { gen::period(&mut r.rng, 1024) };
        let len = if r.tier == Tier::Quick { r.rng.range(1, 600) } else { r.rng.range(1, 5000) };
        let regime = *r.rng.pick(gen::REGIMES);
        let scale = *r.rng.pick(&[1e-12, 1e-9, 1e-6, 1e-3, 1.0, 100.0, 1e6, 1e9, 1e11]);
        let positive = r.rng.chance(0.4);
        let mut xs = gen::stream(&mut r.rng, regime, len, positive, scale);
        // a quarter of the streams negated as a whole: all-negative (or mirrored mixed) windows with distinct values
        let negated = r.rng.chance(0.25);
        if negated {
            for x in xs.iter_mut() {
                *x = -*x;
            }
        }
        let ms: Vec<f64> = if ind == "BollingerBands" { vec![*r.rng.pick(&[0.0, 0.5, 1.0, 2.0, 3.0, 10.0])] } else { vec![] };
        let mut c = Case::new("C01", &format!("window-{}", regime), ind, &[n], &ms);
        c.ops = xs.into_iter().filter(|x| x.abs() <= 1e12).map(Op::Next).collect();
        // a third of the cases: resets at random points (the statistic restarts: t counts inputs since reset)
        if i % 3 == 1 && c.ops.len() > 2 {
            let k = r.rng.range(1, 3);
            for _ in 0..k {
                let at = r.rng.range(1, c.ops.len() - 1);
                c.ops.insert(at, Op::Reset);
            }
            c.kind = format!("{}-with-reset", c.kind);
        }
        let nt = c.ops.len() >= 2 * n + 1;
        r.count(&format!("regime:{}", regime));
        r.count(if negated { "sign:negated" } else if positive { "sign:positive" } else { "sign:any" });
        r.run(c, nt);
    }
    // stage 3: instances obtained from Default::default() (documented default period / multiplier) instead of new:
    // every sequence of depth d over the stage-1 alphabet (all inside the warm-up of the default periods 9 and 14 —
    // a pre-filled or padded window shows there) and sampled signed streams that wrap the ring several times
    let ddepth = if r.tier == Tier::Quick { 4 } else { 6 };
    r.log_every = if r.tier == Tier::Quick { 41 } else { 1999 };
    for ind in INDS {
        let (ps, ms) = super::c11::defaults(ind);
        for code in 0..a.len().pow(ddepth as u32) {
            let mut c = Case::new("C01", "default-exhaustive", ind, &ps, &ms);
            let mut k = code;
            for _ in 0..ddepth {
                c.ops.push(Op::Next(a[k % a.len()]));
                k /= a.len();
            }
            r.run(c, true);
        }
        let dcases = if r.tier == Tier::Quick { 12 } else { 300 };
        for j in 0..dcases {
            let len = r.rng.range(1, if r.tier == Tier::Quick { 200 } else { 2000 });
            let regime = *r.rng.pick(gen::REGIMES);
            let scale = *r.rng.pick(&[1e-9, 1e-3, 1.0, 100.0, 1e6, 1e11]);
            let mut xs = gen::stream(&mut r.rng, regime, len, j % 3 != 2, scale); // positive; positive, negated below; any sign
            if j % 3 == 1 {
                for x in xs.iter_mut() {
                    *x = -*x;
                }
            }
            let mut c = Case::new("C01", &format!("default-{}", regime), ind, &ps, &ms);
            c.ops = xs.into_iter().filter(|x| x.abs() <= 1e12).map(Op::Next).collect();
            if j % 4 == 3 && c.ops.len() > 2 {
                let at = r.rng.range(1, c.ops.len() - 1);
                c.ops.insert(at, Op::Reset);
                c.kind = format!("{}-with-reset", c.kind);
            }
            let nt = c.ops.len() > ps[0];
            r.run(c, nt);
        }
    }
    // stage 4: long reset-free runs on ONE instance (hidden update counters: "every 2^k / 10^k calls" branches)
    r.log_every = u64::MAX; // streams regenerated from the seed, too long for the op log
    let q = r.tier == Tier::Quick;
    for (k, ind) in INDS.iter().enumerate() {
        let linear = *ind == "MeanAbsoluteDeviation";
        // (length beyond the round count, number of runs): past 2^20 in several regimes, past 2^24 in the regimes
        // whose windows spread over the whole band (the tolerance at t = 2^24 is 7e-5·M)
        let mut plan: Vec<(usize, usize, bool)> = vec![(1 << 20, if q { 3 } else { 8 }, false)];
        if !linear {
            plan.push((1 << 24, if q { 1 } else { 4 }, true));
        }
        for (round, runs, contrast) in plan {
            for j in 0..runs {
                let g = if contrast { [7usize, 1][(j + k) % 2] } else { r.rng.below(REGIMES.len()) };
                let maxn = if linear { 64 } else if contrast { 100 } else { 1000 };
                let n = match (j + k) % 4 {
                    0 | 1 => odd_period(&mut r.rng, 3, maxn),
                    2 => odd_period(&mut r.rng, 3, 16),
                    _ => r.rng.range(1, maxn),
                };
                let scale = *r.rng.pick(&[1e-9, 1e-3, 1.0, 100.0, 1e6, 1e12]);
                let sign = (j + k) % SIGNS.len();
                let ms: Vec<f64> = if *ind == "BollingerBands" { vec![*r.rng.pick(&[0.5, 2.0, 3.0])] } else { vec![] };
                let len = round + 2 * n + 3 + r.rng.below(50);
                let mut c = Case::new("C01", &format!("long-{}-{}", REGIMES[g], SIGNS[sign]), ind, &[n], &ms);
                c.extra = vec![(r.rng.u64() % (1 << 50)) as f64, g as f64, scale, len as f64, sign as f64];
                r.steps += len as u64;
                r.run(c, true);
            }
        }
    }
}

pub const RULE: &str = "stage 1: every sequence of the stated depth over the alphabet {-2,-1,0,1,1e6,3} (ties, sign changes, zero, a 10^6 spike) for periods 1..=5 and all 7 indicators (all prefixes are checked, so shorter sequences are included); stage 2: sampled periods to 1024, regimes walk/alt/spike/plateau/saw/alphabet/flat/trend/mixed, magnitudes from 1e-12 to 1e12, any sign, a quarter of the streams negated as a whole (all-negative windows with distinct values when the stream was a positive one); a third of the sampled cases and a seventh of the exhaustive ones contain reset() calls (t and the window restart); stage 3: instances obtained from Default::default() (judged with the documented default period 9 / 14 and multiplier 2): every sequence of depth 4 (quick) / 6 (thorough) over the stage-1 alphabet (inside the warm-up: a padded or pre-filled window shows) and 12 / 300 sampled streams per indicator (a third positive, a third negated, a third of any sign; a quarter with a reset); stage 4 (hidden update counters): long reset-free runs on one instance, the stream regenerated from a seed stored in the case — per indicator 3 (quick) / 8 (thorough) runs of 2^20+2n+3.. inputs in a random regime of {walk, alt, spike, plateau, saw, ticks, quiet, iid, hush} over the band [scale/1000, scale] (scale from 1e-9 to 1e12; values as is, negated, or shifted to both signs), and for all but MeanAbsoluteDeviation 1 (quick) / 4 (thorough) runs of 2^24+2n+3.. inputs in the regimes whose windows spread over the whole band (iid uniform, alternating extremes; tau(2^24) = 7e-5); periods to 1000 (to 100 for the 2^24 runs, to 64 for MAD), three quarters of them coprime to 10 (dividing no round count; the rest includes powers of two and 1); compared from scratch at the first 2n+2 steps, 400 evenly spaced steps and the end, MeanAbsoluteDeviation in addition at EVERY step of [N-1, N+2n+2] for every round count N (powers of two 2^10..2^24, 10^3, 5·10^3, …, 10^7), and SMA, WMA, SD, BB, Minimum, Maximum at EVERY step of the run against exact running double-double evaluations of the window (cross-checked against the from-scratch evaluation at the sampled steps), so that a counter of any interval up to 2^24 is observed even if its effect heals; the known WMA drift (first exceedance of tau·M by at most 2× at t >= 1000, reported as wma-drift-marginal) does not end a long run: from there on a jump of WMA's signed error by more than tau·M/4 in one step is a failure (rounding moves it by < tau·M/100 per step). A case is non-trivial when the stream is longer than the period (stages 1, 3) or wraps the ring at least twice (stage 2; always in stage 4); distinct = distinct (indicator, params, stream) encodings.";
