//! C01 — sliding-window statistics equal the textbook value of exactly the last n inputs.
use super::util::*;
use crate::case::{Case, Failure, Op};
use crate::dd::*;
use crate::gen;
use crate::rec::Rec;
use crate::runner::{Runner, Tier};
use crate::spec;

pub const INDS: &[&str] = &["SimpleMovingAverage", "WeightedMovingAverage", "StandardDeviation", "MeanAbsoluteDeviation", "Minimum", "Maximum", "BollingerBands"];

pub fn check(case: &Case, rec: &mut Rec) -> Option<Failure> {
    let id = match mk(case, rec) {
        Ok(i) => i,
        Err(f) => return Some(f),
    };
    let n = case.ps[0];
    let mut h: Vec<f64> = vec![];
    let mut big = 0.0f64;
    for (i, op) in case.ops.iter().enumerate() {
        let x = match op {
            Op::Next(x) => *x,
            Op::Reset => {
                // t, the window and the largest magnitude are counted since construction/reset
                if !rec.reset(id) {
                    return fail(case, "panic", format!("reset panicked at op {}", i));
                }
                h.clear();
                big = 0.0;
                continue;
            }
            _ => continue,
        };
        h.push(x);
        big = big.max(x.abs());
        let t = h.len();
        let out = match rec.next(id, x) {
            Some(o) => o,
            None => return fail(case, "panic", format!("panic at step {}", i)),
        };
        let w = spec::last_n(&h, n);
        let tol = tau(t) * big;
        let tol2 = tau(t) * big * big;
        let bad = |what: &str, got: f64, want: DD, tol: f64| -> Option<Failure> {
            let d = absdiff(got, want);
            if !(d <= tol) {
                // known finding: WMA's running weighted sum drifts to just beyond the envelope on long streams
                let what = if what == "wma" && t >= 1000 && d <= 2.0 * tol { "wma-drift-marginal" } else { what };
                fail(case, what, format!("step {} (t={}, n={}): got {:e}, exact {:e}, |diff|={:e} > tol {:e}; window={:?}", i, t, n, got, want.to_f64(), d, tol, &w[..w.len().min(8)]))
            } else {
                None
            }
        };
        let r = match case.ind.as_str() {
            "SimpleMovingAverage" => bad("mean", out[0], spec::mean(w), tol),
            "WeightedMovingAverage" => bad("wma", out[0], spec::wma(w), tol),
            "MeanAbsoluteDeviation" => bad("mad", out[0], spec::mad(w), tol),
            "StandardDeviation" => bad("variance", dd(out[0]).mul(dd(out[0])).to_f64(), spec::var(w), tol2).or_else(|| if out[0] < 0.0 { fail(case, "negative-sd", format!("step {}: sd {:e}", i, out[0])) } else { None }),
            "Minimum" => {
                let m = spec::fmin(w);
                if out[0] == m {
                    None
                } else {
                    fail(case, "min", format!("step {}: got {:e}, least element of the last {} inputs is {:e}; window={:?}", i, out[0], w.len(), m, &w[..w.len().min(8)]))
                }
            }
            "Maximum" => {
                let m = spec::fmax(w);
                if out[0] == m {
                    None
                } else {
                    fail(case, "max", format!("step {}: got {:e}, greatest element of the last {} inputs is {:e}; window={:?}", i, out[0], w.len(), m, &w[..w.len().min(8)]))
                }
            }
            "BollingerBands" => {
                let m = case.ms[0];
                let (avg, up, lo) = (out[0], out[1], out[2]);
                let mut r = bad("bb-average", avg, spec::mean(w), tol);
                if r.is_none() {
                    if m == 0.0 {
                        if !(up == avg && lo == avg) {
                            r = fail(case, "bb-width", format!("step {}: multiplier 0 but bands {:e} {:e} differ from average {:e}", i, up, lo, avg));
                        }
                    } else {
                        // band half-widths, compared as variances: ((upper - average)/m)^2 vs var
                        let v = spec::var(w);
                        for (name, hw) in [("upper", dd(up).sub(dd(avg))), ("lower", dd(avg).sub(dd(lo)))] {
                            let q = hw.div(dd(m));
                            let obs = q.mul(q);
                            // rounding of `mean ± sd*m` itself: one ulp of the band level, propagated to the square
                            let e_abs = 4.0 * f64::EPSILON * (avg.abs() + hw.abs().to_f64());
                            let e_q = e_abs / m.abs();
                            let slack = 2.0 * q.abs().to_f64() * e_q + e_q * e_q;
                            let d = obs.sub(v).abs().to_f64();
                            if !(d <= tol2 + slack) {
                                r = fail(case, "bb-width", format!("step {}: {} half-width/m squared {:e} vs variance {:e}, diff {:e} > {:e}", i, name, obs.to_f64(), v.to_f64(), d, tol2 + slack));
                            }
                        }
                    }
                }
                r
            }
            _ => None,
        };
        if r.is_some() {
            return r;
        }
    }
    None
}

const SMALL_ALPHABET: &[f64] = &[-2.0, -1.0, 0.0, 1.0, 1.0e6, 3.0];

pub fn generate(r: &mut Runner) {
    // stage 1: small-scope exhaustive — periods 1..=5, all sequences over a 6-symbol alphabet
    let depth = if r.tier == Tier::Quick { 5 } else { 7 };
    let a = SMALL_ALPHABET;
    let total = a.len().pow(depth as u32);
    r.log_every = if r.tier == Tier::Quick { 97 } else { 1999 };
    for ind in INDS {
        for n in 1..=5usize {
            for code in 0..total {
                let mut c = Case::new("C01", "window-exhaustive", ind, &[n], if *ind == "BollingerBands" { &[2.0] } else { &[] });
                let mut k = code;
                let mut ties = false;
                let mut prev = f64::NAN;
                for _ in 0..depth {
                    let x = a[k % a.len()];
                    if x == prev {
                        ties = true;
                    }
                    prev = x;
                    c.ops.push(Op::Next(x));
                    k /= a.len();
                }
                // non-trivial: wraps the ring (depth > n) — every such sequence evicts at least once
                let _ = ties;
                if code % 7 == 3 {
                    // same sequence once more after a reset at full depth: the window must restart empty
                    let again: Vec<Op> = c.ops.iter().rev().cloned().collect();
                    c.ops.push(Op::Reset);
                    c.ops.extend(again);
                    c.kind = "window-exhaustive-reset".into();
                }
                r.run(c, depth > n);
            }
        }
    }
    r.exhaustive = false; // the random stage below is sampled
    // stage 2: sampled periods up to 1024, long streams, magnitudes to 1e12, any sign
    let cases = if r.tier == Tier::Quick { 210 } else { 6000 };
    r.log_every = if r.tier == Tier::Quick { 7 } else { 97 };
    for i in 0..cases {
        let ind = INDS[i % INDS.len()];
        let n = if i % 5 == 0 { r.rng.range(1, 1024) } else { gen::period(&mut r.rng, 1024) };
        let len = if r.tier == Tier::Quick { r.rng.range(1, 600) } else { r.rng.range(1, 5000) };
        let regime = *r.rng.pick(gen::REGIMES);
        let scale = *r.rng.pick(&[1e-12, 1e-9, 1e-6, 1e-3, 1.0, 100.0, 1e6, 1e9, 1e11]);
        let positive = r.rng.chance(0.4);
        let xs = gen::stream(&mut r.rng, regime, len, positive, scale);
        let ms: Vec<f64> = if ind == "BollingerBands" { vec![*r.rng.pick(&[0.0, 0.5, 1.0, 2.0, 3.0, 10.0])] } else { vec![] };
        let mut c = Case::new("C01", &format!("window-{}", regime), ind, &[n], &ms);
        c.ops = xs.into_iter().filter(|x| x.abs() <= 1e12).map(Op::Next).collect();
        // a third of the cases: resets at random points (the statistic restarts: t counts inputs since reset)
        if i % 3 == 1 && c.ops.len() > 2 {
            let k = r.rng.range(1, 3);
            for _ in 0..k {
                let at = r.rng.range(1, c.ops.len() - 1);
                c.ops.insert(at, Op::Reset);
            }
            c.kind = format!("{}-with-reset", c.kind);
        }
        let nt = c.ops.len() >= 2 * n + 1;
        r.count(&format!("regime:{}", regime));
        r.run(c, nt);
    }
}

pub const RULE: &str = "stage 1: every sequence of the stated depth over the alphabet {-2,-1,0,1,1e6,3} (ties, sign changes, zero, a 10^6 spike) for periods 1..=5 and all 7 indicators (all prefixes are checked, so shorter sequences are included); stage 2: sampled periods to 1024, regimes walk/alt/spike/plateau/saw/alphabet/flat/trend/mixed, magnitudes from 1e-12 to 1e12, any sign; a third of the sampled cases and a seventh of the exhaustive ones contain reset() calls (t and the window restart). A case is non-trivial when the stream is longer than the period (stage 1) or wraps the ring at least twice (stage 2); distinct = distinct (indicator, params, stream) encodings.";
