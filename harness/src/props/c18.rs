//! C18 — state size and heap use depend on the parameters only, never on stream length.
use super::util::*;
use crate::case::{Case, Failure, Op};
use crate::ind::{self, Ind, B};
use crate::rec::Rec;
use crate::rng::Rng;
use crate::runner::{Runner, Tier};

/// value injected into the ordinary stream (index 0 = none)
pub const SPECIAL_VALUES: &[f64] = &[0.0, f64::NAN, f64::INFINITY, f64::NEG_INFINITY, -0.0];
pub const TAILS: &[&str] = &["rising", "alternating", "flat", "falling", "random"];
pub const POSITIONS: &[&str] = &["first sample", "right after the window filled", "mid-stream", "repeated"];

/// extra = [seed, len, tail, special, position]; the stream is regenerated from the seed
pub fn check(case: &Case, rec: &mut Rec) -> Option<Failure> {
    let bound = 256 + 64 * case.ps.iter().sum::<usize>();
    if case.kind == "short" {
        // serialized size at EVERY step
        let id = match mk(case, rec) {
            Ok(i) => i,
            Err(f) => return Some(f),
        };
        let mut after_first: Option<usize> = None;
        for (i, op) in case.ops.iter().enumerate() {
            feed(rec, id, op)?;
            let len = rec.state(id).len();
            if len > bound {
                return fail(case, "size-bound", format!("after {} inputs the bincode size is {} > 256 + 64·Σperiods = {}", i + 1, len, bound));
            }
            match after_first {
                None => after_first = Some(len),
                Some(l0) => {
                    if len != l0 {
                        return fail(case, "size-not-constant", format!("bincode size changed from {} (after the first input) to {} after {} inputs", l0, len, i + 1));
                    }
                }
            }
        }
        return None;
    }
    if case.kind == "short-restored-every-step" {
        // like `short`, but after EVERY input the instance is serialized, restored, and the RESTORED copy carries on
        // (a loader that pads / re-derives something only shows when checkpoints are taken during warm-up)
        let mut id = match mk(case, rec) {
            Ok(i) => i,
            Err(f) => return Some(f),
        };
        let mut after_first: Option<usize> = None;
        for (i, op) in case.ops.iter().enumerate() {
            feed(rec, id, op)?;
            let c = rec.serde(id);
            if rec.get(c).is_none() {
                return fail(case, "decode-failed", format!("deserialize failed after {} inputs", i + 1));
            }
            rec.drop_(id);
            id = c;
            let len = rec.state(id).len();
            if len > bound {
                return fail(case, "size-bound", format!("after {} inputs (restored after every input) the bincode size is {} > 256 + 64·Σperiods = {}", i + 1, len, bound));
            }
            match after_first {
                None => after_first = Some(len),
                Some(l0) => {
                    if len != l0 {
                        return fail(case, "size-not-constant", format!("bincode size changed from {} (after the first input) to {} after {} inputs, the instance being serialized and restored after every input", l0, len, i + 1));
                    }
                }
            }
        }
        return None;
    }
    let seed = case.extra[0] as u64;
    let len = case.extra[1] as usize;
    // extra = [seed, len, tail, special, position]; replay files written before the product of shapes existed
    // carry [seed, len, shape]: shapes 0..=4 are the plain tails, 5 / 6 = one NaN as third sample, then falling / flat
    let (tail, special, position) = if case.extra.len() >= 5 {
        (case.extra[2] as usize, case.extra[3] as usize, case.extra[4] as usize)
    } else {
        match case.extra[2] as usize {
            5 => (3, 1, 4),
            6 => (2, 1, 4),
            t => (t, 0, 0),
        }
    };
    let mut rng = Rng::new(seed);
    let mut inst = Ind::create(&case.ind, &case.ps, &case.ms).unwrap().unwrap();
    let bars = !inst.has_next();
    let maxp = case.ps.iter().copied().max().unwrap_or(1);
    let warm = 3 * maxp + 10;
    let sv = SPECIAL_VALUES[special % SPECIAL_VALUES.len()];
    // where the special value is injected: first sample / right after the window has filled / mid-stream (long after
    // the warm-up measurement) / repeatedly, every `gap` inputs (gap drawn from the case's seed, 2..=2n+50)
    let gap = 2 + rng.below(2 * maxp + 49);
    let mid = warm + len / 2 + rng.below(maxp + 1);
    let mut live_warm = 0isize;
    let mut size_warm = 0usize;
    let mut y = 100.0f64; // the ordinary stream keeps evolving underneath the injected values
    for i in 0..(warm + len) {
        y = match tail {
            0 => y + 0.01,                                   // rising (worst case for monotonic-deque structures)
            1 => if i % 2 == 0 { 50.0 } else { 150.0 },      // alternating
            2 => 100.0,                                      // flat
            3 => y * (1.0 - 1e-6),                           // falling, strictly, for the whole stream
            _ => 100.0 + (rng.unit() - 0.5) * 50.0,          // random
        };
        let inject = special != 0
            && match position {
                0 => i == 0,
                1 => i == maxp + 1,
                2 => i == mid,
                3 => i % gap == gap - 1,
                _ => i == 2,
            };
        let x = if inject { sv } else { y };
        if bars {
            // an injected value is put into every price field unchanged (x + 1.0 would turn -0.0 into an ordinary value)
            let b = if inject { B { o: x, h: x, l: x, c: x, v: 10.0 } } else { B { o: x, h: x + 1.0, l: x - 0.4, c: x + 0.3, v: 10.0 + (i % 5) as f64 } };
            inst.next_bar(&b);
        } else {
            inst.next(x);
        }
        if i + 1 == warm {
            live_warm = crate::alloc::live();
            size_warm = inst.ser().len();
        }
        if i >= warm && (i - warm) % (len / 8).max(1) == 0 {
            let sz = inst.ser().len();
            if sz > bound || sz != size_warm {
                return fail(case, "size-grows", format!("bincode size {} after {} inputs (was {} after warm-up; bound {})", sz, i + 1, size_warm, bound));
            }
        }
    }
    let live_end = crate::alloc::live();
    let growth = live_end - live_warm;
    if growth > bound as isize {
        return fail(case, "heap-grows", format!("live heap grew by {} bytes over {} inputs after warm-up (bound {} = 256 + 64·Σperiods); stream: {} tail{}", growth, len, bound, TAILS[tail.min(4)], if special == 0 { String::new() } else { format!(", {} injected at: {}", sv, POSITIONS.get(position).copied().unwrap_or("third sample")) }));
    }
    drop(inst);
    None
}

pub fn generate(r: &mut Runner) {
    r.log_every = if r.tier == Tier::Quick { 3 } else { 17 };
    // short runs: size at every step, periods 1..=N
    let pmax = if r.tier == Tier::Quick { 48 } else { 512 };
    for name in ind::NAMES {
        let (np, nm) = ind::arity(name).unwrap();
        let mut p = 1;
        while p <= pmax {
            let ps: Vec<usize> = (0..np).map(|j| if j == 0 { p } else { 1 + (p + 3 * j) % pmax }).collect();
            let ms: Vec<f64> = (0..nm).map(|_| 2.0).collect();
            let mut c = Case::new("C18", "short", name, &ps, &ms);
            let mx = ps.iter().copied().max().unwrap_or(1);
            c.ops = super::c04::history(r, name, (2 * mx + 5).min(300), 0.0, 100.0).into_iter().filter(|o| *o != Op::Reset).collect();
            // every third configuration also with a serialize + restore after every input
            if p % 3 == 1 {
                let mut c2 = c.clone();
                c2.kind = "short-restored-every-step".into();
                c2.ops.truncate(140);
                r.run(c2, true);
            }
            r.run(c, true);
            p = if p < 16 { p + 1 } else { p + p / 3 };
            if np == 0 {
                break;
            }
        }
    }
    // long runs: live heap + size at checkpoints, every shape
    let len = if r.tier == Tier::Quick { 100_000usize } else { 1_000_000usize };
    r.log_every = u64::MAX;
    // the FULL product  tail {rising, alternating, flat, falling, random}
    //                 × ( no special value  +  {NaN, +inf, -inf, -0.0} × {first sample, right after the window filled,
    //                                                                     mid-stream, repeated} )
    // for every indicator: which combination hurts a data-dependent structure cannot be known in advance
    let mut combos: Vec<(usize, usize, usize)> = vec![];
    for tail in 0..TAILS.len() {
        combos.push((tail, 0, 0));
        for special in 1..SPECIAL_VALUES.len() {
            for position in 0..POSITIONS.len() {
                combos.push((tail, special, position));
            }
        }
    }
    for (k, name) in ind::NAMES.iter().enumerate() {
        let (np, nm) = ind::arity(name).unwrap();
        for (j, &(tail, special, position)) in combos.iter().enumerate() {
            let p = [1usize, 7, 64, 200, 512, 14, 3][(k + j + j / 7) % 7];
            let p = if matches!(*name, "MeanAbsoluteDeviation" | "CommodityChannelIndex" | "EfficiencyRatio") { p.min(64) } else { p };
            let ps: Vec<usize> = (0..np).map(|_| p).collect();
            let ms: Vec<f64> = (0..nm).map(|_| 2.0).collect();
            let mut c = Case::new("C18", "long", name, &ps, &ms);
            c.extra = vec![(r.rng.u64() % (1 << 50)) as f64, len as f64, tail as f64, special as f64, position as f64];
            r.steps += len as u64;
            r.run(c, true);
        }
    }
}

pub const RULE: &str = "short-restored-every-step: a third of the short configurations are run again with the instance serialized and restored after EVERY input, the restored copy carrying on (size constant and within the bound at every step); short: all 22 indicators, periods 1..=16 densely then geometrically to 48 (quick) / 512 (thorough): bincode size after EVERY input of 2n+5 inputs must stay <= 256 + 64·Σperiods and be constant after the first input; long: streams of 10^5 (quick) / 10^6 (thorough) inputs, for every indicator the full product of tail {rising, alternating, flat, strictly falling, random} × (no special value + special value {NaN, +inf, -inf, -0.0} × position {first sample, right after the window has filled, mid-stream (half-way, long after warm-up), repeated every g inputs with g drawn in 2..=2n+50}) = 85 shapes (shapes matter for data-dependent structures; the special value replaces the ordinary sample, for bar inputs in every price field) with periods from {1,3,7,14,64,200,512}: bincode size at 8 checkpoints, and live heap bytes (counting global allocator of the harness process) after warm-up (3n+10 inputs) vs at the end must not grow by more than the same bound. Every case non-trivial.";
