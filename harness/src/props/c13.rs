//! C13 — incremental accumulators do not drift from recomputation over long streams.
use super::util::*;
use crate::case::{Case, Failure};
use crate::dd::*;
use crate::ind::{Ind, B};
use crate::rec::Rec;
use crate::rng::Rng;
use crate::runner::{Runner, Tier};
use crate::spec;

pub const INDS: &[&str] = &[
    "SimpleMovingAverage", "WeightedMovingAverage", "StandardDeviation", "BollingerBands", "MeanAbsoluteDeviation",
    "CommodityChannelIndex", "MoneyFlowIndex", "Minimum", "Maximum",
];
pub const REGIMES: &[&str] = &["walk", "alt", "spike", "plateau", "saw", "ticks", "quiet"];

/// one value of the band [m, 1000·m] under a regime
fn nextval(rng: &mut Rng, regime: &str, i: usize, m: f64, prev: f64) -> f64 {
    let (lo, hi) = (m, 1000.0 * m);
    let v = match regime {
        "walk" => prev * (1.0 + (rng.unit() - 0.5) * 0.02),
        "alt" => if i % 2 == 0 { lo * (1.0 + rng.unit() * 1e-3) } else { hi * (1.0 - rng.unit() * 1e-3) },
        "spike" => if rng.chance(0.01) { hi } else { lo * (1.0 + rng.unit()) },
        "plateau" => if i % 257 == 0 { lo + (hi - lo) * rng.unit() } else { prev },
        // tick-quoted random walk on 16 price levels: ties everywhere (double tops / bottoms, equal neighbours)
        "ticks" => {
            let k = ((prev / lo).round() as i64 - 1).clamp(0, 15);
            let k2 = (k + [-1i64, 0, 0, 1, 1, -1, 2, -2][rng.below(8)]).clamp(0, 15);
            lo * (1.0 + k2 as f64)
        }
        // violent / quiet alternation: 500 inputs jumping between the ends of the band, then 500 inputs of tiny
        // (relative 1e-8) jitter around one level — quiet but NOT flat, so a variance clamp may fire on a live window
        "quiet" => {
            if (i / 500) % 2 == 0 {
                if i % 2 == 0 { lo * (1.0 + rng.unit() * 1e-3) } else { hi * (1.0 - rng.unit() * 1e-3) }
            } else {
                lo * 730.0 * (1.0 + (rng.unit() - 0.5) * 2e-8)
            }
        }
        _ => lo + (hi - lo) * ((i % 97) as f64 / 97.0),
    };
    v.max(lo).min(hi)
}

/// The stream is regenerated from (seed, regime, m, len) = extra[0..4]; ops stay empty (2·10^6
/// inputs are not stored in the replay file).
pub fn check(case: &Case, _rec: &mut Rec) -> Option<Failure> {
    let seed = case.extra[0] as u64;
    let regime = REGIMES[case.extra[1] as usize % REGIMES.len()];
    let m = case.extra[2];
    let len = case.extra[3] as usize;
    let n = case.ps[0];
    let mut rng = Rng::new(seed);
    let mut inst = Ind::create(&case.ind, &case.ps, &case.ms).unwrap().unwrap();
    let bars = !inst.has_next();
    let mut ring: std::collections::VecDeque<f64> = std::collections::VecDeque::with_capacity(n + 2);
    let mut bring: std::collections::VecDeque<B> = std::collections::VecDeque::with_capacity(n + 2);
    let mut prev = m * 30.0;
    let mut big = 0.0f64;
    let sample_every = (len / 400).max(1);
    let mut maxflow = 0.0f64;
    for i in 0..len {
        let x = nextval(&mut rng, regime, i, m, prev);
        prev = x;
        let mut b = B { o: x, h: x * (1.0 + rng.unit() * 0.01), l: x * (1.0 - rng.unit() * 0.01), c: x * (1.0 + (rng.unit() - 0.5) * 0.01), v: 100.0 * (0.5 + rng.unit()) };
        // plateaus repeat the previous bar's prices exactly (equal consecutive typical prices), with fresh volume
        if regime == "plateau" && i % 257 != 0 {
            if let Some(pb) = bring.back() {
                b = B { v: b.v, ..*pb };
            }
        }
        let out = if bars { inst.next_bar(&b) } else { inst.next(x) };
        if bars {
            big = big.max(b.h);
            bring.push_back(b);
            if bring.len() > n + 1 {
                bring.pop_front();
            }
            maxflow = maxflow.max(spec::typical(&b).to_f64() * b.v);
        } else {
            big = big.max(x.abs());
            ring.push_back(x);
            if ring.len() > n {
                ring.pop_front();
            }
        }
        let t = i + 1;
        // the variance never becomes negative or NaN (checked at EVERY step)
        if case.ind == "StandardDeviation" && !(out[0] >= 0.0) {
            return fail(case, "variance-negative-or-nan", format!("t={}: StandardDeviation = {}", t, out[0]));
        }
        // Minimum / Maximum are compared at EVERY step (a stale extreme only survives for < n steps)
        let every = matches!(case.ind.as_str(), "Minimum" | "Maximum");
        if !every && t % sample_every != 0 && t != len {
            continue;
        }
        let w: Vec<f64> = ring.iter().copied().collect();
        let tol = tau(t) * big;
        let chk = |what: &str, got: f64, want: DD, tol: f64| -> Option<Failure> {
            let d = absdiff(got, want);
            if !(d <= tol) {
                let sym = if what == "WMA" && d <= 2.0 * tol { "drift-marginal" } else { "drift" };
                fail(case, sym, format!("t={} ({} regime, m={:e}, n={}): {} = {:e}, from-scratch evaluation of the current window = {:e}, |diff| {:e} > τ(t)·M = {:e}", t, regime, m, n, what, got, want.to_f64(), d, tol))
            } else {
                None
            }
        };
        let r = match case.ind.as_str() {
            "SimpleMovingAverage" => chk("SMA", out[0], spec::mean(&w), tol),
            "WeightedMovingAverage" => chk("WMA", out[0], spec::wma(&w), tol),
            "MeanAbsoluteDeviation" => chk("MAD", out[0], spec::mad(&w), tol),
            "StandardDeviation" => chk("variance", dd(out[0]).mul(dd(out[0])).to_f64(), spec::var(&w), tau(t) * big * big),
            "BollingerBands" => chk("BB.average", out[0], spec::mean(&w), tol).or_else(|| {
                let hw = dd(out[1]).sub(dd(out[0])).div(dd(case.ms[0]));
                chk("BB half-width² / m²", hw.mul(hw).to_f64(), spec::var(&w), tau(t) * big * big * 1.0001 + 1e-15 * big * big)
            }),
            "Minimum" => if out[0] == spec::fmin(&w) { None } else { fail(case, "drift", format!("t={}: Minimum {} != least element {}", t, out[0], spec::fmin(&w))) },
            "Maximum" => if out[0] == spec::fmax(&w) { None } else { fail(case, "drift", format!("t={}: Maximum {} != greatest element {}", t, out[0], spec::fmax(&w))) },
            "CommodityChannelIndex" => {
                let bw: Vec<B> = bring.iter().rev().take(n).rev().copied().collect();
                let tps: Vec<DD> = bw.iter().map(spec::typical).collect();
                let k = DD::fromu(tps.len());
                let mean = tps.iter().fold(DD::ZERO, |a, x| a.add(*x)).div(k);
                let mad = tps.iter().fold(DD::ZERO, |a, x| a.add(x.sub(mean).abs())).div(k);
                let c = if mad.is_zero() { f64::INFINITY } else { (big / mad.to_f64()).max(1.0) };
                if c <= 1e6 {
                    let want = tps.last().unwrap().sub(mean).div(mad.mul(dd(15.0).div(dd(1000.0))));
                    chk("CCI", out[0], want, tau(t) * c / 0.015)
                } else {
                    None
                }
            }
            "MoneyFlowIndex" => {
                let bw: Vec<B> = bring.iter().copied().collect();
                if bw.len() < 2 {
                    None
                } else {
                    let (mut pos, mut neg) = (DD::ZERO, DD::ZERO);
                    let mut ambiguous = false;
                    for j in 1..bw.len() {
                        let a = spec::typical(&bw[j]);
                        let p = spec::typical(&bw[j - 1]);
                        let fa = (bw[j].c + bw[j].h + bw[j].l) / 3.0;
                        let fp = (bw[j - 1].c + bw[j - 1].h + bw[j - 1].l) / 3.0;
                        if (p.lt(a)) != (fa > fp) || (a.lt(p)) != (fa < fp) {
                            ambiguous = true;
                        }
                        let flow = a.mul(dd(bw[j].v));
                        if p.lt(a) {
                            pos = pos.add(flow);
                        } else if a.lt(p) {
                            neg = neg.add(flow);
                        }
                    }
                    let den = pos.add(neg);
                    let c = if den.is_zero() { f64::INFINITY } else { (maxflow / den.to_f64()).max(1.0) };
                    if !ambiguous && c <= 1000.0 {
                        chk("MFI", out[0], pos.div(den).mul(dd(100.0)), tau(t) * c * 100.0)
                    } else {
                        None
                    }
                }
            }
            _ => None,
        };
        if r.is_some() {
            return r;
        }
    }
    None
}

pub fn generate(r: &mut Runner) {
    let len = if r.tier == Tier::Quick { 100_000usize } else { 2_000_000usize };
    let reps = if r.tier == Tier::Quick { 1 } else { 3 };
    r.log_every = u64::MAX; // streams are too long for the op log; the model tie of these indicators is exercised by C01/C03
    for rep in 0..reps {
        for (k, ind) in INDS.iter().enumerate() {
            for (g, _regime) in REGIMES.iter().enumerate() {
                let n = match (k + g + rep) % 5 {
                    0 => 1,
                    1 => r.rng.range(2, 10),
                    2 => r.rng.range(11, 100),
                    3 => r.rng.range(101, 1000),
                    _ => 1000,
                };
                // O(n) indicators: keep n·len affordable
                let n = if matches!(*ind, "MeanAbsoluteDeviation" | "CommodityChannelIndex") && r.tier == Tier::Thorough { n.min(200) } else { n };
                let m = *r.rng.pick(&[1e-3, 1e-2, 1.0, 50.0, 1e3, 1e6]);
                let ms: Vec<f64> = if *ind == "BollingerBands" { vec![2.0] } else { vec![] };
                let mut c = Case::new("C13", &format!("long-{}", REGIMES[g]), ind, &[n], &ms);
                c.extra = vec![(r.rng.u64() % (1 << 50)) as f64, g as f64, m, len as f64];
                r.steps += len as u64;
                r.run(c, true);
            }
        }
    }
}

pub const RULE: &str = "9 indicators × 7 regimes (random walk, alternating extremes of the band [m, 1000m], spikes, plateaus, saw-tooth, tick-quoted walk on 16 levels with ties everywhere, violent/quiet alternation with 1e-8 jitter) × periods from {1, 2..10, 11..100, 101..1000, 1000} × m from {1e-3,1e-2,1,50,1e3,1e6}; one stream of 10^5 (quick) / 2·10^6 (thorough, 3 repetitions) consecutive inputs without reset each, regenerated from the seed stored in the case; outputs compared with a from-scratch double-double evaluation of the harness's own copy of the window at 400 evenly spaced steps and at the end (tau(t)·M; variances for SD and BB; exact for Minimum/Maximum, which are compared at EVERY step; CCI when c <= 1e6; MFI when c <= 1000); SD >= 0 and not NaN at EVERY step. Every case non-trivial (thousands of wrap-arounds).";
