//! C13 — incremental accumulators do not drift from recomputation over long streams.
use super::util::*;
use crate::case::{Case, Failure};
use crate::dd::*;
use crate::ind::{Ind, B};
use crate::rec::Rec;
use crate::rng::Rng;
use crate::runner::{Runner, Tier};
use crate::spec;
use std::collections::VecDeque;

pub const INDS: &[&str] = &[
    "SimpleMovingAverage", "WeightedMovingAverage", "StandardDeviation", "BollingerBands", "MeanAbsoluteDeviation",
    "CommodityChannelIndex", "MoneyFlowIndex", "Minimum", "Maximum",
];
/// (new regimes are appended: replay files store the index)
pub const REGIMES: &[&str] = &["walk", "alt", "spike", "plateau", "saw", "ticks", "quiet", "iid", "hush"];

/// one value of the band [m, 1000·m] under a regime
pub fn nextval(rng: &mut Rng, regime: &str, i: usize, m: f64, prev: f64) -> f64 {
    let (lo, hi) = (m, 1000.0 * m);
    let v = match regime {
        "walk" => prev * (1.0 + (rng.unit() - 0.5) * 0.02),
        "alt" => if i % 2 == 0 { lo * (1.0 + rng.unit() * 1e-3) } else { hi * (1.0 - rng.unit() * 1e-3) },
        "spike" => if rng.chance(0.01) { hi } else { lo * (1.0 + rng.unit()) },
        "plateau" => if i % 257 == 0 { lo + (hi - lo) * rng.unit() } else { prev },
        // tick-quoted random walk on 16 price levels: ties everywhere (double tops / bottoms, equal neighbours)
        "ticks" => {
            let k = ((prev / lo).round() as i64 - 1).clamp(0, 15);
            let k2 = (k + [-1i64, 0, 0, 1, 1, -1, 2, -2][rng.below(8)]).clamp(0, 15);
            lo * (1.0 + k2 as f64)
        }
        // violent / quiet alternation: 500 inputs jumping between the ends of the band, then 500 inputs of tiny
        // (relative 1e-8) jitter around one level — quiet but NOT flat, so a variance clamp may fire on a live window
        "quiet" => {
            if (i / 500) % 2 == 0 {
                if i % 2 == 0 { lo * (1.0 + rng.unit() * 1e-3) } else { hi * (1.0 - rng.unit() * 1e-3) }
            } else {
                lo * 730.0 * (1.0 + (rng.unit() - 0.5) * 2e-8)
            }
        }
        // independent uniform draws over the whole band: any two elements of a window differ at the scale of the
        // largest magnitude, so a mis-placed, mis-weighted or double-counted element moves the statistic by far more
        // than τ(t)·M even at t = 2^24 (τ = 7e-5)
        "iid" => lo + (hi - lo) * rng.unit(),
        // like "quiet", but the calm stretch has a relative dispersion of 3e-5 (a 150.00 instrument moving in 0.0075
        // ticks): far above rounding noise (variance 4e-10·M² vs tau <= 1e-10 early in the run), far below anything a
        // "noise floor" keyed on the price level would keep — and what such a floor discards never comes back
        "hush" => {
            if (i / 500) % 2 == 0 {
                if i % 2 == 0 { lo * (1.0 + rng.unit() * 1e-3) } else { hi * (1.0 - rng.unit() * 1e-3) }
            } else {
                lo * 730.0 * (1.0 + (rng.unit() - 0.5) * 1e-4)
            }
        }
        _ => lo + (hi - lo) * ((i % 97) as f64 / 97.0),
    };
    v.max(lo).min(hi)
}

/// "Round" update counts at which a hidden update counter (periodic re-synchronisation, cache refresh, rebuild
/// "every N calls") would plausibly fire: every power of two 2^10..2^24 and the round decimals 10^3..10^7 and 5·10^k.
pub fn round_counts(limit: usize) -> Vec<usize> {
    let mut v: Vec<usize> = (10..=24).map(|k| 1usize << k).collect();
    let mut p = 1000usize;
    while p <= 10_000_000 {
        v.push(p);
        if 5 * p < 10_000_000 {
            v.push(5 * p);
        }
        p *= 10;
    }
    v.retain(|x| *x <= limit);
    v.sort();
    v.dedup();
    v
}

/// a period in lo..=hi that divides no round count (coprime to 10, >= 3): the ring cursor is then never at slot 0
/// when a round count is reached, so a rebuild that confuses slot order with age order cannot hide
pub fn odd_period(rng: &mut Rng, lo: usize, hi: usize) -> usize {
    for _ in 0..64 {
        let n = rng.range(lo.max(3), hi.max(3));
        if n % 2 != 0 && n % 5 != 0 {
            return n;
        }
    }
    3
}

/// which steps of a long run are compared FROM SCRATCH
#[derive(Clone, Copy, PartialEq, Debug)]
pub enum Due {
    No,
    /// inside [N-1, N+span] of a round count N
    Dense,
    /// one of the first `span` steps, of the `samples` evenly spaced steps, or the last step
    Sampled,
}
pub struct Schedule {
    rounds: Vec<usize>,
    k: usize,
    span: usize,
    every: usize,
    len: usize,
}
impl Schedule {
    pub fn new(len: usize, span: usize, samples: usize) -> Schedule {
        Schedule { rounds: round_counts(usize::MAX), k: 0, span, every: (len / samples.max(1)).max(1), len }
    }
    /// `t` = number of inputs since construction/reset (must be called with increasing t)
    pub fn due(&mut self, t: usize) -> Due {
        while self.k < self.rounds.len() && t > self.rounds[self.k] + self.span {
            self.k += 1;
        }
        if t % self.every == 0 || t == self.len || t <= self.span {
            Due::Sampled
        } else if self.k < self.rounds.len() && t + 1 >= self.rounds[self.k] {
            Due::Dense
        } else {
            Due::No
        }
    }
}

/// The harness's own copy of the window (last n inputs) with EXACT-to-1e-25 running evaluations in double-double:
/// Σx, Σx², Σ i·x_i are updated by subtract-evicted/add-new in 106-bit arithmetic (error per update 2^-104 of the
/// operands; after 2^24 updates still < 1e-24·n·M, i.e. thirteen orders below τ·M), sliding minimum / maximum by
/// monotonic deques (exact).  They allow a comparison at EVERY step of a multi-million-step run; at the scheduled
/// steps they are themselves checked against the from-scratch evaluation of the window (`selfcheck`).
pub struct WinRef {
    pub n: usize,
    pub ring: VecDeque<f64>,
    s1: DD,
    s2: DD,
    sw: DD,
    pushed: usize,
    maxq: VecDeque<(usize, f64)>,
    minq: VecDeque<(usize, f64)>,
    /// which running evaluations are maintained: (Σ i·x_i, Σx², extremes); Σx always
    keep: (bool, bool, bool),
}
impl WinRef {
    pub fn new(n: usize) -> WinRef {
        WinRef { n, ring: VecDeque::with_capacity(n + 2), s1: DD::ZERO, s2: DD::ZERO, sw: DD::ZERO, pushed: 0, maxq: VecDeque::new(), minq: VecDeque::new(), keep: (true, true, true) }
    }
    /// only the running evaluations that the indicator's comparison needs
    pub fn new_for(ind: &str, n: usize) -> WinRef {
        let mut w = WinRef::new(n);
        w.keep = (ind == "WeightedMovingAverage", matches!(ind, "StandardDeviation" | "BollingerBands"), matches!(ind, "Minimum" | "Maximum"));
        w
    }
    pub fn push(&mut self, x: f64) {
        let k = self.ring.len();
        let xd = dd(x);
        if k == self.n {
            let old = dd(self.ring.pop_front().unwrap());
            // every weight drops by one (Σ i·x_i − Σ x_i), then the newest enters with weight n
            if self.keep.0 {
                self.sw = self.sw.sub(self.s1).add(xd.mul(DD::fromu(self.n)));
            }
            self.s1 = self.s1.sub(old).add(xd);
            if self.keep.1 {
                self.s2 = self.s2.sub(old.mul(old)).add(xd.mul(xd));
            }
        } else {
            if self.keep.0 {
                self.sw = self.sw.add(xd.mul(DD::fromu(k + 1)));
            }
            self.s1 = self.s1.add(xd);
            if self.keep.1 {
                self.s2 = self.s2.add(xd.mul(xd));
            }
        }
        self.ring.push_back(x);
        let t = self.pushed;
        self.pushed += 1;
        if !self.keep.2 {
            return;
        }
        while let Some(&(_, v)) = self.maxq.back() {
            if v <= x { self.maxq.pop_back(); } else { break; }
        }
        self.maxq.push_back((t, x));
        while let Some(&(_, v)) = self.minq.back() {
            if v >= x { self.minq.pop_back(); } else { break; }
        }
        self.minq.push_back((t, x));
        if self.maxq.front().unwrap().0 + self.n <= t {
            self.maxq.pop_front();
        }
        if self.minq.front().unwrap().0 + self.n <= t {
            self.minq.pop_front();
        }
    }
    pub fn window(&self) -> Vec<f64> {
        self.ring.iter().copied().collect()
    }
    pub fn mean(&self) -> DD {
        self.s1.div(DD::fromu(self.ring.len()))
    }
    pub fn wma(&self) -> DD {
        let k = self.ring.len();
        self.sw.div(DD::fromu(k * (k + 1) / 2))
    }
    pub fn var(&self) -> DD {
        let k = DD::fromu(self.ring.len());
        let m = self.s1.div(k);
        self.s2.div(k).sub(m.mul(m))
    }
    pub fn max(&self) -> f64 {
        self.maxq.front().unwrap().1
    }
    pub fn min(&self) -> f64 {
        self.minq.front().unwrap().1
    }
    /// the running evaluations against the from-scratch evaluation of `w` (= self.window()); `big` = largest
    /// magnitude pushed.  A disagreement is a defect of the HARNESS, reported as such.
    pub fn selfcheck(&self, w: &[f64], big: f64) -> Option<String> {
        let e1 = self.mean().sub(spec::mean(w)).abs().to_f64();
        let e2 = if self.keep.0 { self.wma().sub(spec::wma(w)).abs().to_f64() } else { 0.0 };
        let e3 = if self.keep.1 { self.var().sub(spec::var(w)).abs().to_f64() } else { 0.0 };
        let ext = !self.keep.2 || (self.max() == spec::fmax(w) && self.min() == spec::fmin(w));
        if !(e1 <= 1e-18 * big && e2 <= 1e-18 * big && e3 <= 1e-18 * big * big) || !ext {
            return Some(format!("running double-double reference disagrees with the from-scratch evaluation: mean {:e} wma {:e} var {:e} (M={:e}) extremes agree: {}", e1, e2, e3, big, ext));
        }
        None
    }
}

/// Known finding (WMA's weighted running sum integrates the rounding error of its flat running sum): on long
/// streams the error crosses tau(t)·M smoothly.  The FIRST exceedance is reported as `…drift-marginal` when it is
/// <= 2·tau·M (with a comparison at every step a smooth drift always is; a larger first exceedance is a plain
/// failure).  The run then continues, so that a different defect later in the run is not masked; since the drift
/// itself keeps growing (like t² in the worst case against tau ~ t^1.5), the criterion from there on is a JUMP: the
/// signed error moving by more than tau(t)·M/4 in ONE step.  Rounding cannot do that: one update changes the error
/// by at most |error of the flat sum|/(n(n+1)/2) + O(u·M) <= 2·t·u·M/(n+1), which is < 0.01·tau(t)·M for t >= 1000.
pub struct WmaDrift {
    pub prev: f64,
    pub worst: f64,
}
impl WmaDrift {
    pub const JUMP: f64 = 0.25;
    pub fn annotate(&self, f: Failure) -> Failure {
        Failure { key: f.key, msg: format!("{} [first exceedance; the run was continued: largest |diff|/(τ(t)·M) until its end = {:.3}, no jump of the error]", f.msg, self.worst.max(1.0)) }
    }
}

/// does the running reference of `WinRef` cover this indicator (comparison at every step)?
pub fn every_step(ind: &str) -> bool {
    matches!(ind, "SimpleMovingAverage" | "WeightedMovingAverage" | "StandardDeviation" | "BollingerBands" | "Minimum" | "Maximum")
}

/// The stream is regenerated from (seed, regime, m, len, prior) = extra[0..5]; ops stay empty (2·10^6 inputs are not
/// stored in the replay file).  prior > 0: a prior session of that many inputs (same regime and band) is fed first
/// and closed by reset(); the long reset-free stream, t, M and the window start after the reset.
pub fn check(case: &Case, _rec: &mut Rec) -> Option<Failure> {
    let seed = case.extra[0] as u64;
    let regime = REGIMES[case.extra[1] as usize % REGIMES.len()];
    let m = case.extra[2];
    let len = case.extra[3] as usize;
    let prior = case.extra.get(4).copied().unwrap_or(0.0) as usize;
    let n = case.ps[0];
    let mut rng = Rng::new(seed);
    let mut inst = Ind::create(&case.ind, &case.ps, &case.ms).unwrap().unwrap();
    let bars = !inst.has_next();
    let mkbar = |rng: &mut Rng, x: f64| B { o: x, h: x * (1.0 + rng.unit() * 0.01), l: x * (1.0 - rng.unit() * 0.01), c: x * (1.0 + (rng.unit() - 0.5) * 0.01), v: 100.0 * (0.5 + rng.unit()) };
    let mut prev = m * 30.0;
    if prior > 0 {
        for i in 0..prior {
            let x = nextval(&mut rng, regime, i, m, prev);
            prev = x;
            let b = mkbar(&mut rng, x);
            if bars { inst.next_bar(&b) } else { inst.next(x) };
        }
        inst.reset();
    }
    let mut win = WinRef::new_for(&case.ind, n);
    let mut bring: VecDeque<B> = VecDeque::with_capacity(n + 2);
    let mut tring: VecDeque<DD> = VecDeque::with_capacity(n + 2); // typical prices of `bring`, in double-double
    let mut big = 0.0f64;
    let mut sched = Schedule::new(len, 2 * n + 2, 400);
    let mut maxflow = 0.0f64;
    let fast = every_step(&case.ind);
    // the known marginal WMA drift does not end the run: a later failure beyond it (a different defect) takes precedence
    let mut marginal: Option<Failure> = None;
    let mut drift = WmaDrift { prev: 0.0, worst: 0.0 };
    for i in 0..len {
        let x = nextval(&mut rng, regime, i, m, prev);
        prev = x;
        let mut b = mkbar(&mut rng, x);
        // plateaus repeat the previous bar's prices exactly (equal consecutive typical prices), with fresh volume
        if regime == "plateau" && i % 257 != 0 {
            if let Some(pb) = bring.back() {
                b = B { v: b.v, ..*pb };
            }
        }
        let out = if bars { inst.next_bar(&b) } else { inst.next(x) };
        if bars {
            big = big.max(b.h);
            bring.push_back(b);
            tring.push_back(spec::typical(&b));
            if bring.len() > n + 1 {
                bring.pop_front();
                tring.pop_front();
            }
            maxflow = maxflow.max(tring.back().unwrap().to_f64() * b.v);
        } else {
            big = big.max(x.abs());
            win.push(x);
        }
        let t = i + 1;
        // the variance never becomes negative or NaN (checked at EVERY step)
        if case.ind == "StandardDeviation" && !(out[0] >= 0.0) {
            return fail(case, "variance-negative-or-nan", format!("t={}: StandardDeviation = {}", t, out[0]));
        }
        // from scratch: at the sampled steps for everyone, inside the dense intervals for the indicators that have no
        // running reference; the others are compared with the running reference at every other step
        let due = match sched.due(t) {
            Due::Sampled => true,
            Due::Dense => !fast,
            Due::No => false,
        };
        if !due && !fast {
            continue;
        }
        let tol = tau(t) * big;
        let how = if due { "from-scratch evaluation of the current window" } else { "exact running (double-double) evaluation of the current window" };
        let chk = |what: &str, got: f64, want: DD, tol: f64| -> Option<Failure> {
            let d = absdiff(got, want);
            if !(d <= tol) {
                let sym = if what == "WMA" && d <= 2.0 * tol { "drift-marginal" } else { "drift" };
                fail(case, sym, format!("t={} ({} regime, m={:e}, n={}{}): {} = {:e}, {} = {:e}, |diff| {:e} > τ(t)·M = {:e}", t, regime, m, n, if prior > 0 { format!(", after a prior session of {} inputs and reset()", prior) } else { String::new() }, what, got, how, want.to_f64(), d, tol))
            } else {
                None
            }
        };
        let exact = |what: &str, got: f64, want: f64| -> Option<Failure> {
            if got == want { None } else { fail(case, "drift", format!("t={} ({} regime, m={:e}, n={}): {} {} != {} element {} of the current window", t, regime, m, n, what, got, if what == "Minimum" { "least" } else { "greatest" }, want)) }
        };
        let w: Vec<f64> = if due && !bars { win.window() } else { vec![] };
        if due && !bars {
            if let Some(msg) = win.selfcheck(&w, big) {
                return fail(case, "harness-reference", msg);
            }
        }
        let r = match case.ind.as_str() {
            "SimpleMovingAverage" => chk("SMA", out[0], if due { spec::mean(&w) } else { win.mean() }, tol),
            "WeightedMovingAverage" => {
                let want = if due { spec::wma(&w) } else { win.wma() };
                let e = dd(out[0]).sub(want).to_f64();
                let r = if marginal.is_some() {
                    // inside the known drift regime (see `WmaDrift`): only a JUMP of the error is a new failure
                    drift.worst = drift.worst.max(e.abs() / tol);
                    if (e - drift.prev).abs() > WmaDrift::JUMP * tol {
                        fail(case, "drift", format!("t={} ({} regime, m={:e}, n={}): WMA = {:e}, {} = {:e}; the error jumped from {:e} to {:e} in ONE step (> τ(t)·M/4 = {:e}; rounding drift moves it by < τ·M/100 per step)", t, regime, m, n, out[0], how, want.to_f64(), drift.prev, e, WmaDrift::JUMP * tol))
                    } else {
                        None
                    }
                } else {
                    chk("WMA", out[0], want, tol)
                };
                drift.prev = e;
                r
            }
            "MeanAbsoluteDeviation" => chk("MAD", out[0], spec::mad(&w), tol),
            "StandardDeviation" => chk("variance", dd(out[0]).mul(dd(out[0])).to_f64(), if due { spec::var(&w) } else { win.var() }, tau(t) * big * big),
            "BollingerBands" => chk("BB.average", out[0], if due { spec::mean(&w) } else { win.mean() }, tol).or_else(|| {
                let hw = dd(out[1]).sub(dd(out[0])).div(dd(case.ms[0]));
                chk("BB half-width² / m²", hw.mul(hw).to_f64(), if due { spec::var(&w) } else { win.var() }, tau(t) * big * big * 1.0001 + 1e-15 * big * big)
            }),
            "Minimum" => exact("Minimum", out[0], if due { spec::fmin(&w) } else { win.min() }),
            "Maximum" => exact("Maximum", out[0], if due { spec::fmax(&w) } else { win.max() }),
            "CommodityChannelIndex" => {
                let tps: Vec<DD> = tring.iter().rev().take(n).rev().copied().collect();
                let k = DD::fromu(tps.len());
                let mean = tps.iter().fold(DD::ZERO, |a, x| a.add(*x)).div(k);
                let mad = tps.iter().fold(DD::ZERO, |a, x| a.add(x.sub(mean).abs())).div(k);
                let c = if mad.is_zero() { f64::INFINITY } else { (big / mad.to_f64()).max(1.0) };
                if c <= 1e6 {
                    let want = tps.last().unwrap().sub(mean).div(mad.mul(dd(15.0).div(dd(1000.0))));
                    chk("CCI", out[0], want, tau(t) * c / 0.015)
                } else {
                    None
                }
            }
            "MoneyFlowIndex" => {
                let bw: Vec<B> = bring.iter().copied().collect();
                if bw.len() < 2 {
                    None
                } else {
                    let (mut pos, mut neg) = (DD::ZERO, DD::ZERO);
                    let mut ambiguous = false;
                    for j in 1..bw.len() {
                        let a = tring[j];
                        let p = tring[j - 1];
                        let fa = (bw[j].c + bw[j].h + bw[j].l) / 3.0;
                        let fp = (bw[j - 1].c + bw[j - 1].h + bw[j - 1].l) / 3.0;
                        if (p.lt(a)) != (fa > fp) || (a.lt(p)) != (fa < fp) {
                            ambiguous = true;
                        }
                        let flow = a.mul(dd(bw[j].v));
                        if p.lt(a) {
                            pos = pos.add(flow);
                        } else if a.lt(p) {
                            neg = neg.add(flow);
                        }
                    }
                    let den = pos.add(neg);
                    let c = if den.is_zero() { f64::INFINITY } else { (maxflow / den.to_f64()).max(1.0) };
                    if !ambiguous && c <= 1000.0 {
                        chk("MFI", out[0], pos.div(den).mul(dd(100.0)), tau(t) * c * 100.0)
                    } else {
                        None
                    }
                }
            }
            _ => None,
        };
        if let Some(f) = r {
            if f.key.ends_with(":drift-marginal") {
                if marginal.is_none() {
                    marginal = Some(f);
                }
            } else {
                return Some(f);
            }
        }
    }
    marginal.map(|f| drift.annotate(f))
}

/// O(period) work per input in the crate itself
fn linear_cost(ind: &str) -> bool {
    matches!(ind, "MeanAbsoluteDeviation" | "CommodityChannelIndex")
}

pub fn generate(r: &mut Runner) {
    // quick: past 2^20 (the largest round count of the tier) plus its dense interval; thorough: the property's 2·10^6
    let base = if r.tier == Tier::Quick { (1usize << 20) + 40 } else { 2_000_000usize };
    let reps = if r.tier == Tier::Quick { 1 } else { 3 };
    r.log_every = u64::MAX; // streams are too long for the op log; the model tie of these indicators is exercised by C01/C03
    for rep in 0..reps {
        for (k, ind) in INDS.iter().enumerate() {
            for (g, _regime) in REGIMES.iter().enumerate() {
                let n = match (k + g + rep) % 5 {
                    0 => 1,
                    1 => r.rng.range(2, 10),
                    2 => r.rng.range(11, 100),
                    3 => r.rng.range(101, 1000),
                    _ => 1000,
                };
                // two thirds of the periods > 2 are replaced by a nearby period that divides no round count
                let n = if n > 2 && r.rng.chance(0.67) { odd_period(&mut r.rng, (n * 3 / 4).max(3), n) } else { n };
                // O(n) indicators: keep n·len affordable
                let n = if linear_cost(ind) && r.tier == Tier::Thorough { n.min(200) } else { n };
                let len = if r.tier == Tier::Quick && linear_cost(ind) && n > 64 { 100_000 } else { base + if r.tier == Tier::Quick { 2 * n + 2 } else { 0 } };
                let m = *r.rng.pick(&[1e-3, 1e-2, 1.0, 50.0, 1e3, 1e6]);
                let ms: Vec<f64> = if *ind == "BollingerBands" { vec![2.0] } else { vec![] };
                // a third of the cases: a prior session (1..3n+50 inputs) closed by reset() precedes the stream
                let prior = if (k + 2 * g + rep) % 3 == 0 { r.rng.range(1, 3 * n + 50) } else { 0 };
                let mut c = Case::new("C13", &format!("long-{}{}", REGIMES[g], if prior > 0 { "-after-reset" } else { "" }), ind, &[n], &ms);
                c.extra = vec![(r.rng.u64() % (1 << 50)) as f64, g as f64, m, len as f64, prior as f64];
                r.steps += (len + prior) as u64;
                r.run(c, true);
            }
        }
    }
}

pub const RULE: &str = "9 indicators × 9 regimes (random walk, alternating extremes of the band [m, 1000m], spikes, plateaus, saw-tooth, tick-quoted walk on 16 levels with ties everywhere, violent/quiet alternation with 1e-8 jitter, independent uniform draws over the band, violent/hushed alternation with a calm relative dispersion of 3e-5) × periods from {1, 2..10, 11..100, 101..1000, 1000}, two thirds of those > 2 moved to a nearby period coprime to 10 (it divides no round count; the rest includes powers of two) × m from {1e-3,1e-2,1,50,1e3,1e6}; one stream of 2^20+2n+42 (quick; 10^5 for MAD/CCI with n > 64) / 2·10^6 (thorough, 3 repetitions) consecutive inputs without reset each, regenerated from the seed stored in the case; a third of the cases (every indicator in at least two regimes) first run a prior session of 1..3n+50 inputs closed by reset() on the same instance (t, M and the window restart at the reset). Outputs are compared with a from-scratch double-double evaluation of the harness's own copy of the window at the first 2n+2 steps, at 400 evenly spaced steps and at the end; MeanAbsoluteDeviation, CCI and MFI in addition from scratch at EVERY step of [N-1, N+2n+2] for every round update count N (all powers of two 2^10..2^20 and 10^3, 5·10^3, …, 10^6; 2·10^6 is the end of a thorough run) — a hidden update counter firing there is observed even if its effect heals after n steps; SMA, WMA, SD (variance), BB, Minimum, Maximum are compared at EVERY step of the run with exact running double-double evaluations of the window (Σx, Σx², Σi·x_i updated in 106-bit arithmetic, sliding extremes by monotonic deques; themselves cross-checked against the from-scratch evaluation at the sampled steps), so a counter of ANY interval is observed for them. Tolerances: tau(t)·M; variances for SD and BB; exact for Minimum/Maximum; CCI when c <= 1e6; MFI when c <= 1000; SD >= 0 and not NaN at EVERY step. The known WMA drift (first exceedance of tau·M by at most 2×, reported as drift-marginal) does not end a run: the run continues and from there on a jump of WMA's signed error by more than tau·M/4 in one step is a failure (rounding moves it by < tau·M/100 per step). Every case non-trivial (thousands of wrap-arounds).";
