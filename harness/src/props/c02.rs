//! C02 — EMA recursion and everything wired from it follow the documented definition.
use super::util::*;
use crate::case::{Case, Failure, Op};
use crate::dd::*;
use crate::gen;
use crate::rec::Rec;
use crate::runner::{Runner, Tier};
use crate::spec::{self, EmaRef, TrRef};

pub const INDS: &[&str] = &["ExponentialMovingAverage", "TrueRange", "AverageTrueRange", "MovingAverageConvergenceDivergence", "KeltnerChannel", "ChandelierExit"];

pub fn check(case: &Case, rec: &mut Rec) -> Option<Failure> {
    let id = match mk(case, rec) {
        Ok(i) => i,
        Err(f) => return Some(f),
    };
    let p = &case.ps;
    let m = case.ms.first().copied().unwrap_or(1.0);
    let mut big = 0.0f64;
    let mut t = 0usize;
    // reference state
    let mut ema = EmaRef::new(p.first().copied().unwrap_or(1));
    let mut ema2 = EmaRef::new(p.get(1).copied().unwrap_or(1));
    let mut ema3 = EmaRef::new(p.get(2).copied().unwrap_or(1));
    let mut atr = EmaRef::new(p.first().copied().unwrap_or(1));
    let mut tr = TrRef::new();
    let mut highs: Vec<f64> = vec![];
    let mut lows: Vec<f64> = vec![];
    for (i, op) in case.ops.iter().enumerate() {
        let (out, refs): (Vec<f64>, Vec<DD>) = match op {
            Op::Next(x) => {
                let x = *x;
                big = big.max(x.abs());
                t += 1;
                let out = match rec.next(id, x) {
                    Some(o) => o,
                    None => return fail(case, "panic", format!("panic at step {}", i)),
                };
                let refs = match case.ind.as_str() {
                    "ExponentialMovingAverage" => {
                        if t == 1 && out[0].to_bits() != x.to_bits() {
                            return fail(case, "first-output", format!("first output {:e} is not the first input {:e}", out[0], x));
                        }
                        vec![ema.next(dd(x))]
                    }
                    "TrueRange" => vec![tr.next(x)],
                    "AverageTrueRange" => vec![atr.next(tr.next(x))],
                    "MovingAverageConvergenceDivergence" => {
                        let f = ema.next(dd(x));
                        let s = ema2.next(dd(x));
                        let line = f.sub(s);
                        let sig = ema3.next(line);
                        vec![line, sig, line.sub(sig)]
                    }
                    "KeltnerChannel" => {
                        let a = atr.next(tr.next(x));
                        let avg = ema.next(dd(x));
                        vec![avg, avg.add(a.mul(dd(m))), avg.sub(a.mul(dd(m)))]
                    }
                    _ => return fail(case, "harness", "indicator has no scalar path".into()),
                };
                (out, refs)
            }
            Op::Bar(b) => {
                big = big.max(bar_mag(b));
                t += 1;
                let out = match rec.bar(id, b) {
                    Some(o) => o,
                    None => return fail(case, "panic", format!("panic at step {}", i)),
                };
                highs.push(b.h);
                lows.push(b.l);
                let refs = match case.ind.as_str() {
                    "ExponentialMovingAverage" => vec![ema.next(dd(b.c))],
                    "TrueRange" => vec![tr.next_bar(b)],
                    "AverageTrueRange" => vec![atr.next(tr.next_bar(b))],
                    "MovingAverageConvergenceDivergence" => {
                        let f = ema.next(dd(b.c));
                        let s = ema2.next(dd(b.c));
                        let line = f.sub(s);
                        let sig = ema3.next(line);
                        vec![line, sig, line.sub(sig)]
                    }
                    "KeltnerChannel" => {
                        let avg = ema.next(spec::typical(b));
                        let a = atr.next(tr.next_bar(b));
                        vec![avg, avg.add(a.mul(dd(m))), avg.sub(a.mul(dd(m)))]
                    }
                    "ChandelierExit" => {
                        let a = atr.next(tr.next_bar(b)).mul(dd(m));
                        let n = p[0];
                        let mx = spec::fmax(spec::last_n(&highs, n));
                        let mn = spec::fmin(spec::last_n(&lows, n));
                        vec![dd(mx).sub(a), dd(mn).add(a)]
                    }
                    _ => return fail(case, "harness", "unknown indicator".into()),
                };
                (out, refs)
            }
            _ => continue,
        };
        let tol = tau(t) * big * m.abs().max(1.0);
        for (j, (o, r)) in out.iter().zip(refs.iter()).enumerate() {
            let d = absdiff(*o, *r);
            if !(d <= tol) {
                return fail(case, &format!("formula-out{}", j), format!("step {} (t={}): output #{} = {:e}, from-scratch formula = {:e}, |diff| {:e} > tol {:e}", i, t, j, o, r.to_f64(), d, tol));
            }
        }
    }
    None
}

/// "every multiplier": zero, the usual small ones, NEGATIVE ones (the bands swap sides: upper = average + m·ATR lies
/// below the average), fractional values that are not exactly representable (and not f32-representable), tiny and
/// huge ones, and a random one of either sign
pub const MULTIPLIERS: &[f64] = &[0.0, 0.5, 1.0, 2.0, 3.0, 10.0, -1.0, -2.0, -0.5, -2.5, -1.618, 2.1, 1.618, 0.1, 1e-3, 1e-9, 1e3, 1e6, -1e-9, -1e6];
pub fn multiplier(rng: &mut crate::rng::Rng) -> f64 {
    if rng.chance(0.2) {
        let mag = 10f64.powf(rng.unit() * 6.0 - 3.0);
        if rng.chance(0.5) { -mag } else { mag }
    } else {
        *rng.pick(MULTIPLIERS)
    }
}

pub fn gen_case(r: &mut Runner, ind: &str, maxp: usize, maxlen: usize) -> Case {
    let np = crate::ind::arity(ind).unwrap().0;
    let mut ps: Vec<usize> = (0..np).map(|_| gen::period(&mut r.rng, maxp)).collect();
    if np == 3 && r.rng.chance(0.2) {
        ps[1] = ps[0]; // equal fast/slow
    }
    let ms: Vec<f64> = if crate::ind::arity(ind).unwrap().1 == 1 { vec![multiplier(&mut r.rng)] } else { vec![] };
    let len = r.rng.range(1, maxlen);
    let regime = *r.rng.pick(gen::REGIMES);
    let scale = *r.rng.pick(&[1e-3, 1.0, 100.0, 1e6, 1e9, 8.900295434028806e-308]);
    let bars_only = !crate::ind::has_next_name(ind);
    let use_bars = bars_only || r.rng.chance(0.5);
    // scalars of any sign (MACD feeds negative values to its signal EMA); bars positive
    let xs = gen::stream(&mut r.rng, regime, len, use_bars, scale);
    let mut c = Case::new("C02", &format!("{}-{}", if use_bars { "bars" } else { "scalars" }, regime), ind, &ps, &ms);
    if use_bars {
        c.ops = gen::valid_bars(&mut r.rng, &xs).into_iter().map(Op::Bar).collect();
    } else {
        c.ops = xs.into_iter().map(Op::Next).collect();
    }
    c
}

pub fn generate(r: &mut Runner) {
    // small scope: periods 1..=3 (α = 1 for period 1), all scalar sequences of depth d over a signed alphabet
    let a: &[f64] = &[-2.0, 0.0, 1.0, 3.0, 1.0e6];
    let depth = if r.tier == Tier::Quick { 4 } else { 6 };
    r.log_every = 53;
    for ind in ["ExponentialMovingAverage", "TrueRange", "AverageTrueRange", "MovingAverageConvergenceDivergence", "KeltnerChannel"] {
        let np = crate::ind::arity(ind).unwrap().0;
        let combos: Vec<Vec<usize>> = match np {
            0 => vec![vec![]],
            1 => (1..=3).map(|p| vec![p]).collect(),
            _ => vec![vec![1, 1, 1], vec![1, 2, 1], vec![2, 1, 3], vec![2, 2, 2], vec![3, 2, 1]],
        };
        // KeltnerChannel: the whole small scope once per multiplier of {2, -1.5, 2.1, 0} (positive, negative, inexact, zero)
        let mults: Vec<Vec<f64>> = if ind == "KeltnerChannel" { vec![vec![2.0], vec![-1.5], vec![2.1], vec![0.0]] } else { vec![vec![]] };
        for ps in combos {
            for ms in &mults {
                for code in 0..a.len().pow(depth as u32) {
                    let mut c = Case::new("C02", "scalars-exhaustive", ind, &ps, ms);
                    let mut k = code;
                    for _ in 0..depth {
                        c.ops.push(Op::Next(a[k % a.len()]));
                        k /= a.len();
                    }
                    r.run(c, true);
                }
            }
        }
    }
    let cases = if r.tier == Tier::Quick { 360 } else { 12000 };
    r.log_every = if r.tier == Tier::Quick { 5 } else { 101 };
    let maxlen = if r.tier == Tier::Quick { 500 } else { 4000 };
    for i in 0..cases {
        let ind = INDS[i % INDS.len()];
        let c = gen_case(r, ind, 1024, maxlen);
        let nt = c.ops.len() >= 3;
        if let Some(m) = c.ms.first() {
            r.count(if *m < 0.0 { "multiplier:negative" } else if *m == 0.0 { "multiplier:zero" } else { "multiplier:positive" });
        }
        r.run(c, nt);
    }
    // LONG runs on one instance (a state flag kept in a narrow counter, a periodic re-seed … only shows after 2^16 / 2^20
    // calls): 70 000 inputs quick, 2^20 + 100 thorough, every step compared with the incremental reference; not logged
    // to the model driver (the model tie of these indicators is exercised by the short cases)
    {
        let len = if r.tier == Tier::Quick { 70_000usize } else { (1usize << 20) + 100 };
        let saved = r.log_every;
        r.log_every = u64::MAX;
        for ind in INDS {
            for bars in [false, true] {
                if !bars && !crate::ind::has_next_name(ind) {
                    continue;
                }
                let np = crate::ind::arity(ind).unwrap().0;
                let nm = crate::ind::arity(ind).unwrap().1;
                let ps: Vec<usize> = (0..np).map(|j| [14usize, 26, 9][j % 3]).collect();
                let ms: Vec<f64> = (0..nm).map(|_| 2.0).collect();
                let mut c = Case::new("C02", if bars { "long-run-bars" } else { "long-run-scalars" }, ind, &ps, &ms);
                let xs = gen::stream(&mut r.rng, "walk", len, true, 100.0);
                if bars {
                    c.ops = gen::valid_bars(&mut r.rng, &xs).into_iter().map(Op::Bar).collect();
                } else {
                    c.ops = xs.into_iter().map(Op::Next).collect();
                }
                r.run(c, true);
            }
        }
        r.log_every = saved;
    }
    // HUGE positive scalars (0.61..0.75 × 1e308, above f64::MAX / 3): every quantity of the documented definitions stays
    // finite there (|multiplier| <= 0.5), so a detour through `(x + x + x) / 3` or any other intermediate that overflows shows
    for ind in ["ExponentialMovingAverage", "TrueRange", "AverageTrueRange", "MovingAverageConvergenceDivergence", "KeltnerChannel"] {
        for rep in 0..(if r.tier == Tier::Quick { 6 } else { 60 }) {
            let np = crate::ind::arity(ind).unwrap().0;
            let nm = crate::ind::arity(ind).unwrap().1;
            let ps: Vec<usize> = (0..np).map(|_| gen::period(&mut r.rng, if rep % 2 == 0 { 5 } else { 64 })).collect();
            let ms: Vec<f64> = (0..nm).map(|_| *r.rng.pick(&[0.5, -0.5, 0.25, 0.0])).collect();
            let mut c = Case::new("C02", "huge-positive-scalars", ind, &ps, &ms);
            let n = r.rng.range(2, 60);
            for _ in 0..n {
                c.ops.push(Op::Next(1e308 * (0.61 + 0.14 * r.rng.unit())));
            }
            r.run(c, true);
        }
    }
    // every listed multiplier at least once for both band indicators, on bars (and scalars for KeltnerChannel)
    for ind in ["KeltnerChannel", "ChandelierExit"] {
        for m in MULTIPLIERS {
            for rep in 0..(if r.tier == Tier::Quick { 2 } else { 6 }) {
                let mut c = gen_case(r, ind, if rep % 2 == 0 { 8 } else { 200 }, maxlen.min(300));
                c.ms = vec![*m];
                c.kind = format!("{}-multiplier-sweep", c.kind);
                let nt = c.ops.len() >= 3;
                r.count(if *m < 0.0 { "multiplier:negative" } else if *m == 0.0 { "multiplier:zero" } else { "multiplier:positive" });
                r.run(c, nt);
            }
        }
    }
}

pub const RULE: &str = "small scope: every scalar sequence of the stated depth over {-2,0,1,3,1e6} for periods 1..=3 (period 1 ⇒ α = 1; MACD with equal and inverted fast/slow; KeltnerChannel once per multiplier of {2,-1.5,2.1,0}); sampled: periods to 1024 (equal fast/slow forced in 20% of MACD cases), multipliers of KeltnerChannel/ChandelierExit from {0,0.5,1,2,3,10,-1,-2,-0.5,-2.5,-1.618,2.1,1.618,0.1,1e-3,1e-9,1e3,1e6,-1e-9,-1e6} (zero, negative — the bands swap sides —, fractional values not representable in f64/f32, tiny, huge) or, in a fifth of the cases, ±10^u with u uniform in [-3,3]; in addition a sweep running every listed multiplier at least twice (thorough: 6×) per band indicator; scalar streams of any sign and valid bars (gap up / gap down / inside bars arise from the walk, alt and spike regimes), all prefixes checked; tolerance tau(t)·M·max(1,|multiplier|). Long runs: one instance per indicator and input kind fed 70 000 (quick) / 2^20+100 (thorough) inputs, every step compared. Huge positive scalars 0.61..0.75×1e308 (above f64::MAX/3) with |multiplier| <= 0.5 for the scalar path of EMA, TR, ATR, MACD, KC. Non-trivial = at least 3 inputs (recursion exercised beyond seeding); distinct = distinct encodings.";
