//! C11 — constructors reject exactly period 0; accessors, Display, Default are faithful.
use super::util::*;
use crate::case::{Case, Failure, Op};
use crate::ind;
use crate::rec::{NewRes, Rec};
use crate::runner::{Runner, Tier};

pub fn short_name(name: &str) -> &'static str {
    match name {
        "SimpleMovingAverage" => "SMA",
        "ExponentialMovingAverage" => "EMA",
        "WeightedMovingAverage" => "WMA",
        "StandardDeviation" => "SD",
        "MeanAbsoluteDeviation" => "MAD",
        "RelativeStrengthIndex" => "RSI",
        "Minimum" => "MIN",
        "Maximum" => "MAX",
        "FastStochastic" => "FAST_STOCH",
        "SlowStochastic" => "SLOW_STOCH",
        "TrueRange" => "TRUE_RANGE",
        "AverageTrueRange" => "ATR",
        "MovingAverageConvergenceDivergence" => "MACD",
        "PercentagePriceOscillator" => "PPO",
        "CommodityChannelIndex" => "CCI",
        "EfficiencyRatio" => "ER",
        "BollingerBands" => "BB",
        "ChandelierExit" => "CE",
        "KeltnerChannel" => "KC",
        "RateOfChange" => "ROC",
        "MoneyFlowIndex" => "MFI",
        "OnBalanceVolume" => "OBV",
        _ => "?",
    }
}

pub fn expected_display(name: &str, ps: &[usize], ms: &[f64]) -> String {
    if name == "OnBalanceVolume" {
        return "OBV".into();
    }
    let mut parts: Vec<String> = ps.iter().map(|p| p.to_string()).collect();
    parts.extend(ms.iter().map(|m| format!("{}", m)));
    format!("{}({})", short_name(name), parts.join(", "))
}

pub fn defaults(name: &str) -> (Vec<usize>, Vec<f64>) {
    match name {
        "ExponentialMovingAverage" | "SimpleMovingAverage" | "WeightedMovingAverage" | "StandardDeviation" | "MeanAbsoluteDeviation" | "RateOfChange" => (vec![9], vec![]),
        "RelativeStrengthIndex" | "AverageTrueRange" | "EfficiencyRatio" | "MoneyFlowIndex" | "Minimum" | "Maximum" | "FastStochastic" => (vec![14], vec![]),
        "SlowStochastic" => (vec![14, 3], vec![]),
        "MovingAverageConvergenceDivergence" | "PercentagePriceOscillator" => (vec![12, 26, 9], vec![]),
        "CommodityChannelIndex" => (vec![20], vec![]),
        "BollingerBands" => (vec![9], vec![2.0]),
        "KeltnerChannel" => (vec![10], vec![2.0]),
        "ChandelierExit" => (vec![22], vec![3.0]),
        _ => (vec![], vec![]),
    }
}

pub fn alloc_free(name: &str) -> bool {
    matches!(name, "ExponentialMovingAverage" | "RelativeStrengthIndex" | "AverageTrueRange" | "MovingAverageConvergenceDivergence" | "PercentagePriceOscillator" | "KeltnerChannel" | "TrueRange" | "OnBalanceVolume")
}

pub fn check(case: &Case, rec: &mut Rec) -> Option<Failure> {
    if case.kind == "default" {
        let (ps, ms) = defaults(&case.ind);
        let d = rec.default_ind(&case.ind);
        if rec.get(d).is_none() {
            return fail(case, "default-panic", "Default::default() panicked".into());
        }
        let (n, r) = rec.new_ind(&case.ind, &ps, &ms);
        if r != NewRes::Ok {
            return fail(case, "ctor", format!("new(documented defaults {:?} {:?}) -> {:?}", ps, ms, r));
        }
        if rec.display(d) != rec.display(n) || rec.get(d).unwrap().ser() != rec.get(n).unwrap().ser() {
            return fail(case, "default-differs", format!("Default::default() is {} but documented defaults are {}", rec.get(d).unwrap().display(), rec.get(n).unwrap().display()));
        }
        // …and behaves as new(defaults) afterwards
        for (i, op) in case.ops.iter().enumerate() {
            let a = feed(rec, d, op);
            let b = feed(rec, n, op);
            match (a, b) {
                (Some(Some(x)), Some(Some(y))) => {
                    if !all_close(&x, &y, 0.0) {
                        return fail(case, "default-differs", format!("op {}: default gives {:?}, new(defaults) gives {:?}", i, x, y));
                    }
                }
                (None, None) => {}
                _ => return fail(case, "panic", format!("panic at op {}", i)),
            }
        }
        return None;
    }
    let (id, r) = rec.new_ind(&case.ind, &case.ps, &case.ms);
    let any_zero = case.ps.iter().any(|p| *p == 0);
    match (&r, any_zero) {
        (NewRes::Panic, _) => return fail(case, "ctor-panic", format!("new({:?}, {:?}) panicked", case.ps, case.ms)),
        (NewRes::Err, false) => return fail(case, "ctor-rejects-valid", format!("new({:?}, {:?}) returned Err although every period is positive", case.ps, case.ms)),
        (NewRes::Ok, true) => return fail(case, "ctor-accepts-zero", format!("new({:?}, {:?}) returned Ok although a period is 0", case.ps, case.ms)),
        (NewRes::Err, true) => return None,
        (NewRes::Ok, false) => {}
    }
    let want_disp = expected_display(&case.ind, &case.ps, &case.ms);
    let chk = |rec: &mut Rec, when: &str| -> Option<Failure> {
        let inst = rec.get(id).unwrap();
        if let Some(p) = inst.period() {
            if p != case.ps[0] {
                return fail(case, "period-accessor", format!("{}: period() = {} but constructed with {:?}", when, p, case.ps));
            }
        }
        if let Some(m) = inst.multiplier() {
            if m.to_bits() != case.ms[0].to_bits() && !(m.is_nan() && case.ms[0].is_nan()) {
                return fail(case, "multiplier-accessor", format!("{}: multiplier() = {} but constructed with {:?}", when, m, case.ms));
            }
        }
        let d = rec.display(id);
        rec.period(id);
        rec.multiplier(id);
        if d != want_disp {
            return fail(case, "display", format!("{}: Display = {:?}, documented form {:?}", when, d, want_disp));
        }
        None
    };
    if let Some(f) = chk(rec, "after new") {
        return Some(f);
    }
    for (i, op) in case.ops.iter().enumerate() {
        if let Some(None) = feed(rec, id, op) {
            return fail(case, "panic", format!("panic at op {}", i));
        }
    }
    if !case.ops.is_empty() {
        if let Some(f) = chk(rec, "after later history") {
            return Some(f);
        }
    }
    None
}

pub fn generate(r: &mut Runner) {
    r.log_every = if r.tier == Tier::Quick { 29 } else { 211 };
    let single_max = if r.tier == Tier::Quick { 1024 } else { 4096 };
    let tuple_max = if r.tier == Tier::Quick { 9 } else { 24 };
    for name in ind::NAMES {
        let (np, nm) = ind::arity(name).unwrap();
        let ms: Vec<f64> = (0..nm).map(|_| 2.0).collect();
        match np {
            0 => {
                let mut c = Case::new("C11", "ctor", name, &[], &[]);
                c.ops = super::c04::history(r, name, 5, 0.0, 1.0);
                r.run(c, true);
            }
            1 => {
                for p in 0..=single_max {
                    let mut c = Case::new("C11", "ctor", name, &[p], &ms);
                    if p > 0 && (p < 40 || p % 97 == 0) {
                        c.ops = super::c04::history(r, name, (p + 2).min(60), 0.0, 1.0);
                        c.ops.push(Op::Reset);
                    }
                    r.run(c, p <= 1 || p % 2 == 0);
                }
                // multipliers incl. 0, negative, NaN, inf
                if nm == 1 {
                    for m in [0.0, -1.5, f64::NAN, f64::INFINITY, 1e300, 2.5] {
                        let mut c = Case::new("C11", "ctor-multiplier", name, &[7], &[m]);
                        c.ops = super::c04::history(r, name, 10, 0.0, 1.0);
                        r.run(c, true);
                    }
                }
            }
            _ => {
                let total = (tuple_max + 1usize).pow(np as u32);
                for code in 0..total {
                    let mut k = code;
                    let ps: Vec<usize> = (0..np).map(|_| { let v = k % (tuple_max + 1); k /= tuple_max + 1; v }).collect();
                    let mut c = Case::new("C11", "ctor-tuple", name, &ps, &ms);
                    if code % 37 == 0 && ps.iter().all(|p| *p > 0) {
                        c.ops = super::c04::history(r, name, 12, 0.0, 1.0);
                    }
                    r.run(c, true);
                }
            }
        }
        // boundary values for constructors that allocate no window (run under overflow checks)
        let big: [usize; 5] = [1 << 31, 1 << 32, (1 << 53) + 1, usize::MAX - 1, usize::MAX];
        if alloc_free(name) && np > 0 {
            for b in big {
                for pos in 0..np {
                    let mut ps = vec![3usize; np];
                    ps[pos] = b;
                    let mut c = Case::new("C11", "ctor-boundary", name, &ps, &ms);
                    c.ops = super::c04::history(r, name, 6, 0.0, 1.0);
                    r.run(c, true);
                }
                let c = Case::new("C11", "ctor-boundary", name, &vec![b; np], &ms);
                r.run(c, true);
            }
        }
        if *name == "SlowStochastic" {
            for b in big {
                let c = Case::new("C11", "ctor-boundary", name, &[5, b], &[]);
                r.run(c, true);
            }
        }
        let mut c = Case::new("C11", "default", name, &[], &[]);
        c.ops = super::c04::history(r, name, 40, 0.0, 1.0);
        r.run(c, true);
    }
}

pub const RULE: &str = "every single-period constructor over 0..=N exhaustively (N = 1024 quick / 4096 thorough), every tuple over 0..=K for SlowStochastic/MACD/PPO (K = 9 quick / 24 thorough), boundary periods 2^31, 2^32, 2^53+1, usize::MAX-1, usize::MAX in each position for the allocation-free constructors (EMA, RSI, ATR, MACD, PPO, KeltnerChannel, and the EMA period of SlowStochastic), multipliers {0,-1.5,NaN,inf,1e300,2.5}; verdict Err iff some period is 0, never a panic (overflow checks on); period()/multiplier()/Display compared with the arguments right after new and again after a later history incl. reset; Default::default() compared with new(documented defaults) by serialized state, Display and 40 subsequent outputs. Distinct = distinct (indicator, params, history).";
