//! C11 — constructors reject exactly period 0; accessors, Display, Default are faithful.
use super::util::*;
use crate::case::{Case, Failure, Op};
use crate::ind;
use crate::rec::{NewRes, Rec};
use crate::runner::{Runner, Tier};

pub fn short_name(name: &str) -> &'static str {
    match name {
        "SimpleMovingAverage" => "SMA",
        "ExponentialMovingAverage" => "EMA",
        "WeightedMovingAverage" => "WMA",
        "StandardDeviation" => "SD",
        "MeanAbsoluteDeviation" => "MAD",
        "RelativeStrengthIndex" => "RSI",
        "Minimum" => "MIN",
        "Maximum" => "MAX",
        "FastStochastic" => "FAST_STOCH",
        "SlowStochastic" => "SLOW_STOCH",
        "TrueRange" => "TRUE_RANGE",
        "AverageTrueRange" => "ATR",
        "MovingAverageConvergenceDivergence" => "MACD",
        "PercentagePriceOscillator" => "PPO",
        "CommodityChannelIndex" => "CCI",
        "EfficiencyRatio" => "ER",
        "BollingerBands" => "BB",
        "ChandelierExit" => "CE",
        "KeltnerChannel" => "KC",
        "RateOfChange" => "ROC",
        "MoneyFlowIndex" => "MFI",
        "OnBalanceVolume" => "OBV",
        _ => "?",
    }
}

pub fn expected_display(name: &str, ps: &[usize], ms: &[f64]) -> String {
    if name == "OnBalanceVolume" {
        return "OBV".into();
    }
    let mut parts: Vec<String> = ps.iter().map(|p| p.to_string()).collect();
    parts.extend(ms.iter().map(|m| format!("{}", m)));
    format!("{}({})", short_name(name), parts.join(", "))
}

pub fn defaults(name: &str) -> (Vec<usize>, Vec<f64>) {
    match name {
        "ExponentialMovingAverage" | "SimpleMovingAverage" | "WeightedMovingAverage" | "StandardDeviation" | "MeanAbsoluteDeviation" | "RateOfChange" => (vec![9], vec![]),
        "RelativeStrengthIndex" | "AverageTrueRange" | "EfficiencyRatio" | "MoneyFlowIndex" | "Minimum" | "Maximum" | "FastStochastic" => (vec![14], vec![]),
        "SlowStochastic" => (vec![14, 3], vec![]),
        "MovingAverageConvergenceDivergence" | "PercentagePriceOscillator" => (vec![12, 26, 9], vec![]),
        "CommodityChannelIndex" => (vec![20], vec![]),
        "BollingerBands" => (vec![9], vec![2.0]),
        "KeltnerChannel" => (vec![10], vec![2.0]),
        "ChandelierExit" => (vec![22], vec![3.0]),
        _ => (vec![], vec![]),
    }
}

pub fn alloc_free(name: &str) -> bool {
    matches!(name, "ExponentialMovingAverage" | "RelativeStrengthIndex" | "AverageTrueRange" | "MovingAverageConvergenceDivergence" | "PercentagePriceOscillator" | "KeltnerChannel" | "TrueRange" | "OnBalanceVolume")
}

/// notable multipliers: the special values, and for every way of "tidying" the stored value a witness that is not a
/// fixed point of it — more than 4 (6, 15) significant decimals, not representable in f32 or as a short decimal,
/// tiny and huge normal magnitudes, subnormals, both zeros, both infinities
pub const MULTIPLIERS: &[f64] = &[
    0.0, -1.5, f64::NAN, f64::INFINITY, 1e300, 2.5,
    -0.0, f64::NEG_INFINITY, 2.00001, 0.1 + 0.2, 0.30000000000000004, 1.0 / 3.0, -2.0 / 3.0, 0.12345678, 2.1, 1.3, 1.618, 1.6180339887498949,
    3.141592653589793, 1e-5, 1e-7, -1e-7, 1e-15, 1e15, 123456.789, 1e16, 9007199254740993.0, 1e21, 1.5e-300, f64::MAX, -f64::MAX, 1.7976931348623155e308,
    f64::MIN_POSITIVE, -f64::MIN_POSITIVE, 2.2250738585072009e-308, 1e-310, -1e-310, 5e-324, -5e-324, 1.0 + f64::EPSILON, 1.0 - f64::EPSILON / 2.0,
    16777217.0, 3.4028235677973366e38, 1e39, 1e-46, 65504.5, 0.1, 0.7, 100.0, 1e2 + 1e-12,
];

/// a multiplier "as a user writes it" (decimal with 1..17 significant digits at a random decimal exponent), an
/// arbitrary bit pattern (any sign/binade, NaN, inf, subnormals), or a neighbour of a round value
pub fn random_multiplier(r: &mut Runner) -> f64 {
    match r.rng.below(6) {
        0 => f64::from_bits(r.rng.u64()),
        1 => {
            let x = f64::from_bits(r.rng.u64() & 0x000f_ffff_ffff_ffff); // subnormal
            if r.rng.chance(0.5) { -x } else { x }
        }
        2 => {
            let base = *r.rng.pick(&[1.0, 2.0, 3.0, 0.5, 10.0, 2.5, 0.0001, 1e4]);
            let k = r.rng.range(0, 8) as i64 - 4;
            let b = (base as f64).to_bits() as i64 + k;
            f64::from_bits(b as u64)
        }
        _ => {
            let digits = r.rng.range(1, 17) as u32;
            let mant = (r.rng.u64() % 10u64.pow(digits)) as f64;
            let exp = match r.rng.below(4) {
                0 => r.rng.range(0, 640) as i32 - 330,
                _ => -(r.rng.range(0, digits as usize + 3) as i32),
            };
            let x: f64 = format!("{}e{}", mant, exp).parse().unwrap_or(2.0);
            if r.rng.chance(0.25) { -x } else { x }
        }
    }
}

pub fn check(case: &Case, rec: &mut Rec) -> Option<Failure> {
    if case.kind == "default" {
        let (ps, ms) = defaults(&case.ind);
        let d = rec.default_ind(&case.ind);
        if rec.get(d).is_none() {
            return fail(case, "default-panic", "Default::default() panicked".into());
        }
        let (n, r) = rec.new_ind(&case.ind, &ps, &ms);
        if r != NewRes::Ok {
            return fail(case, "ctor", format!("new(documented defaults {:?} {:?}) -> {:?}", ps, ms, r));
        }
        if rec.display(d) != rec.display(n) || rec.get(d).unwrap().ser() != rec.get(n).unwrap().ser() {
            return fail(case, "default-differs", format!("Default::default() is {} but documented defaults are {}", rec.get(d).unwrap().display(), rec.get(n).unwrap().display()));
        }
        // …and behaves as new(defaults) afterwards
        for (i, op) in case.ops.iter().enumerate() {
            let a = feed(rec, d, op);
            let b = feed(rec, n, op);
            match (a, b) {
                (Some(Some(x)), Some(Some(y))) => {
                    if !all_close(&x, &y, 0.0) {
                        return fail(case, "default-differs", format!("op {}: default gives {:?}, new(defaults) gives {:?}", i, x, y));
                    }
                }
                (None, None) => {}
                _ => return fail(case, "panic", format!("panic at op {}", i)),
            }
        }
        return None;
    }
    let (id, r) = rec.new_ind(&case.ind, &case.ps, &case.ms);
    let any_zero = case.ps.iter().any(|p| *p == 0);
    match (&r, any_zero) {
        (NewRes::Panic, _) => return fail(case, "ctor-panic", format!("new({:?}, {:?}) panicked", case.ps, case.ms)),
        (NewRes::Err, false) => return fail(case, "ctor-rejects-valid", format!("new({:?}, {:?}) returned Err although every period is positive", case.ps, case.ms)),
        (NewRes::Ok, true) => return fail(case, "ctor-accepts-zero", format!("new({:?}, {:?}) returned Ok although a period is 0", case.ps, case.ms)),
        (NewRes::Err, true) => return None,
        (NewRes::Ok, false) => {}
    }
    let want_disp = expected_display(&case.ind, &case.ps, &case.ms);
    let chk = |rec: &mut Rec, when: &str| -> Option<Failure> {
        let inst = rec.get(id).unwrap();
        if let Some(p) = inst.period() {
            if p != case.ps[0] {
                return fail(case, "period-accessor", format!("{}: period() = {} but constructed with {:?}", when, p, case.ps));
            }
        }
        if let Some(m) = inst.multiplier() {
            if m.to_bits() != case.ms[0].to_bits() && !(m.is_nan() && case.ms[0].is_nan()) {
                return fail(case, "multiplier-accessor", format!("{}: multiplier() = {} but constructed with {:?}", when, m, case.ms));
            }
        }
        let d = rec.display(id);
        rec.period(id);
        rec.multiplier(id);
        if d != want_disp {
            return fail(case, "display", format!("{}: Display = {:?}, documented form {:?}", when, d, want_disp));
        }
        None
    };
    if let Some(f) = chk(rec, "after new") {
        return Some(f);
    }
    for (i, op) in case.ops.iter().enumerate() {
        if let Some(None) = feed(rec, id, op) {
            return fail(case, "panic", format!("panic at op {}", i));
        }
    }
    if !case.ops.is_empty() {
        if let Some(f) = chk(rec, "after later history") {
            return Some(f);
        }
    }
    None
}

pub fn generate(r: &mut Runner) {
    r.log_every = if r.tier == Tier::Quick { 29 } else { 211 };
    let single_max = if r.tier == Tier::Quick { 1024 } else { 4096 };
    let tuple_max = if r.tier == Tier::Quick { 9 } else { 24 };
    for name in ind::NAMES {
        let (np, nm) = ind::arity(name).unwrap();
        let ms: Vec<f64> = (0..nm).map(|_| 2.0).collect();
        match np {
            0 => {
                let mut c = Case::new("C11", "ctor", name, &[], &[]);
                c.ops = super::c04::history(r, name, 5, 0.0, 1.0);
                r.run(c, true);
            }
            1 => {
                for p in 0..=single_max {
                    let mut c = Case::new("C11", "ctor", name, &[p], &ms);
                    if p > 0 && (p < 40 || p % 97 == 0) {
                        c.ops = super::c04::history(r, name, (p + 2).min(60), 0.0, 1.0);
                        c.ops.push(Op::Reset);
                    }
                    r.run(c, p <= 1 || p % 2 == 0);
                }
                // multipliers incl. 0, negative, NaN, inf — "accepted as given": multiplier() is compared bit for bit and
                // Display against Rust's own `{}` of the ARGUMENT, so the set must contain values that are not fixed
                // points of any rounding, narrowing or flushing of the stored value
                if nm == 1 {
                    let mut mults: Vec<f64> = MULTIPLIERS.to_vec();
                    let extra = if r.tier == Tier::Quick { 160 } else { 4000 };
                    for _ in 0..extra {
                        mults.push(random_multiplier(r));
                    }
                    for (i, m) in mults.into_iter().enumerate() {
                        let p = if i < 6 { 7 } else { *r.rng.pick(&[1usize, 2, 7, 14, 20, 33]) };
                        let mut c = Case::new("C11", "ctor-multiplier", name, &[p], &[m]);
                        c.ops = super::c04::history(r, name, 10, 0.0, 1.0);
                        if r.rng.chance(0.5) {
                            c.ops.push(Op::Reset);
                        }
                        r.run(c, true);
                    }
                }
            }
            _ => {
                let total = (tuple_max + 1usize).pow(np as u32);
                for code in 0..total {
                    let mut k = code;
                    let ps: Vec<usize> = (0..np).map(|_| { let v = k % (tuple_max + 1); k /= tuple_max + 1; v }).collect();
                    let mut c = Case::new("C11", "ctor-tuple", name, &ps, &ms);
                    if code % 37 == 0 && ps.iter().all(|p| *p > 0) {
                        c.ops = super::c04::history(r, name, 12, 0.0, 1.0);
                    }
                    r.run(c, true);
                }
            }
        }
        // boundary values for constructors that allocate no window (run under overflow checks)
        let big: [usize; 5] = [1 << 31, 1 << 32, (1 << 53) + 1, usize::MAX - 1, usize::MAX];
        if alloc_free(name) && np > 0 {
            for b in big {
                for pos in 0..np {
                    let mut ps = vec![3usize; np];
                    ps[pos] = b;
                    let mut c = Case::new("C11", "ctor-boundary", name, &ps, &ms);
                    c.ops = super::c04::history(r, name, 6, 0.0, 1.0);
                    r.run(c, true);
                }
                let c = Case::new("C11", "ctor-boundary", name, &vec![b; np], &ms);
                r.run(c, true);
            }
        }
        if *name == "SlowStochastic" {
            for b in big {
                let c = Case::new("C11", "ctor-boundary", name, &[5, b], &[]);
                r.run(c, true);
            }
        }
        let mut c = Case::new("C11", "default", name, &[], &[]);
        c.ops = super::c04::history(r, name, 40, 0.0, 1.0);
        r.run(c, true);
    }
}

pub const RULE: &str = "every single-period constructor over 0..=N exhaustively (N = 1024 quick / 4096 thorough), every tuple over 0..=K for SlowStochastic/MACD/PPO (K = 9 quick / 24 thorough), boundary periods 2^31, 2^32, 2^53+1, usize::MAX-1, usize::MAX in each position for the allocation-free constructors (EMA, RSI, ATR, MACD, PPO, KeltnerChannel, and the EMA period of SlowStochastic), multipliers for BollingerBands/ChandelierExit/KeltnerChannel (periods from {1,2,7,14,20,33}): the 50 notable values of MULTIPLIERS (±0, ±inf, NaN, 2.5, -1.5, 1e300, values with more than 4/6/15 significant decimals such as 2.00001, 0.1+0.2, 1/3, 0.12345678, 1.618…, not representable in f32 such as 2.1, 1.3, 2^24+1, f32::MAX-ish, 1e39, 1e-46, tiny/huge normals 1e-7, 1e-15, 1e16, 2^53+1, 1e21, ±f64::MAX, its predecessor, ±MIN_POSITIVE, its predecessor, subnormals ±1e-310, ±5e-324, 1±ulp) plus N random ones (N = 160 quick / 4000 thorough per indicator: arbitrary bit patterns incl. NaN/inf, subnormal bit patterns, decimals of 1..17 significant digits at exponents −330..310, neighbours within 4 ulps of round values) — multiplier() compared bit for bit with the argument and Display with Rust's own `{}` rendering of the ARGUMENT, right after new and after a history (half of them ending in reset); verdict Err iff some period is 0, never a panic (overflow checks on); period()/multiplier()/Display compared with the arguments right after new and again after a later history incl. reset; Default::default() compared with new(documented defaults) by serialized state, Display and 40 subsequent outputs. Distinct = distinct (indicator, params, history).";
