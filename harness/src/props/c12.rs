//! C12 — next() is total: no panic for any input and valid configuration.
use super::util::*;
use crate::case::{Case, Failure, Op};
use crate::gen;
use crate::ind;
use crate::rec::Rec;
use crate::runner::{Runner, Tier};

pub fn check(case: &Case, rec: &mut Rec) -> Option<Failure> {
    let id = match mk(case, rec) {
        Ok(i) => i,
        Err(f) => return Some(f),
    };
    for (i, op) in case.ops.iter().enumerate() {
        match op {
            Op::Mark => {
                // clone, Display, Debug, serialization return normally
                let r = std::panic::catch_unwind(std::panic::AssertUnwindSafe(|| {
                    let inst = rec.get(id).unwrap();
                    let c = inst.clone();
                    let _ = format!("{}", c.display());
                    let _ = c.debug();
                    let b = c.ser();
                    b.len()
                }));
                if r.is_err() {
                    return fail(case, "panic-aux", format!("clone/Display/Debug/serialize panicked at op {}", i));
                }
                rec.state(id);
                rec.display(id);
            }
            _ => {
                if let Some(None) = feed(rec, id, op) {
                    return fail(case, "panic", format!("panic at op {} ({:?})", i, op));
                }
            }
        }
    }
    None
}

pub fn generate(r: &mut Runner) {
    // every period 1..=64 for >= 3·period+3 calls, all 22 indicators, non-finite values and resets injected
    let maxp = 64;
    r.log_every = if r.tier == Tier::Quick { 3 } else { 5 };
    let reps = if r.tier == Tier::Quick { 1 } else { 6 };
    for name in ind::NAMES {
        let (np, nm) = ind::arity(name).unwrap();
        for p in 1..=maxp {
            for rep in 0..reps {
                let ps: Vec<usize> = (0..np).map(|j| if j == 0 { p } else { 1 + (p * (j + 2) + rep) % maxp }).collect();
                let ms: Vec<f64> = (0..nm).map(|_| *r.rng.pick(&[0.0, -1.0, 2.0, 1e300, f64::NAN, f64::INFINITY])).collect();
                let len = 3 * p + 3 + r.rng.below(10);
                let mut c = Case::new("C12", "every-period", name, &ps, &ms);
                let weird_p = [0.0, 0.05, 0.3][(p + rep) % 3];
                c.ops = super::c04::history(r, name, len, weird_p, *[1.0, 1e6, 1e300][..].get(rep % 3).unwrap());
                c.ops.push(Op::Mark);
                r.run(c, true);
            }
        }
        if np == 0 {
            continue;
        }
    }
    // sampled periods up to 4096
    let cases = if r.tier == Tier::Quick { 110 } else { 2200 };
    r.log_every = if r.tier == Tier::Quick { 11 } else { 101 };
    for i in 0..cases {
        let name = ind::NAMES[i % ind::NAMES.len()];
        let (np, nm) = ind::arity(name).unwrap();
        let ps: Vec<usize> = (0..np).map(|_| r.rng.range(65, 4096)).collect();
        let ms: Vec<f64> = (0..nm).map(|_| gen::multiplier(&mut r.rng)).collect();
        let maxp = ps.iter().copied().max().unwrap_or(1);
        let len = if r.tier == Tier::Quick { maxp + 10 } else { 3 * maxp + 3 };
        let mut c = Case::new("C12", "large-period", name, &ps, &ms);
        c.ops = super::c04::history(r, name, len, 0.02, 1.0);
        c.ops.push(Op::Mark);
        r.run(c, true);
    }
    // the generic differential sessions (all ops of the protocol)
    let mut st_rng = r.rng.fork();
    let _ = &mut st_rng;
}

pub const RULE: &str = "all 22 indicators × every period 1..=64 × at least 3·period+3 calls (every reachable cursor/counter state), with 0% / 5% / 30% injected values from {NaN, ±inf, ±f64::MAX, ±1e308, MIN_POSITIVE, ±5e-324, ±0}, malformed bars (five independent fields), interior resets, multipliers from {0,-1,2,1e300,NaN,inf}; then sampled periods 65..=4096; at the end of each case clone, Display, Debug and bincode serialization are invoked. Built with overflow-checks and debug-assertions on; every call under catch_unwind. Every case is non-trivial (wraps each ring at least 3 times or, for large periods in the quick tier, fills it).";
