//! C12 — next() is total: no panic for any input and valid configuration.
use super::util::*;
use crate::case::{Case, Failure, Op};
use crate::gen;
use crate::ind::{self, Ind, B};
use crate::rec::Rec;
use crate::rng::Rng;
use crate::runner::{Runner, Tier};

/// kind long-run: extra = [seed, number of calls, probability of an injected non-finite / extreme value].
/// One reset-free run, regenerated from the seed (2^20 .. 2^24+ calls are not stored), driven directly under
/// catch_unwind; clone / Display / Debug / serialization at the end.
fn check_long(case: &Case) -> Option<Failure> {
    let seed = case.extra[0] as u64;
    let len = case.extra[1] as usize;
    let wp = case.extra[2];
    let mut rng = Rng::new(seed);
    let mut inst = match std::panic::catch_unwind(|| Ind::create(&case.ind, &case.ps, &case.ms)) {
        Ok(Some(Ok(i))) => i,
        _ => return fail(case, "ctor", format!("constructor failed for {:?} {:?}", case.ps, case.ms)),
    };
    let bars = !inst.has_next();
    let mut t = 0usize;
    let r = std::panic::catch_unwind(std::panic::AssertUnwindSafe(|| {
        while t < len {
            let x = if wp > 0.0 && rng.chance(wp) { gen::weird(&mut rng) } else { 100.0 + (rng.unit() - 0.5) * 20.0 };
            if bars {
                inst.next_bar(&B { o: x, h: x + 1.0, l: x - 0.4, c: x + 0.3, v: 10.0 + (t % 5) as f64 });
            } else {
                inst.next(x);
            }
            t += 1;
        }
    }));
    if r.is_err() {
        return fail(case, "panic", format!("panic at call #{} of a reset-free run (period(s) {:?})", t, case.ps));
    }
    let r = std::panic::catch_unwind(std::panic::AssertUnwindSafe(|| {
        let c = inst.clone();
        let _ = c.display();
        let _ = c.debug();
        c.ser().len()
    }));
    if r.is_err() {
        return fail(case, "panic-aux", format!("clone/Display/Debug/serialize panicked after {} calls", len));
    }
    None
}

/// kind clone-from: ops = <destination's own history> Mark <source's history> Mark <continuation incl. resets>,
/// extra = the destination's parameters. dst.clone_from(&src), then the copy keeps being driven.
fn check_clone_from(case: &Case, rec: &mut Rec) -> Option<Failure> {
    let marks: Vec<usize> = case.ops.iter().enumerate().filter(|(_, o)| **o == Op::Mark).map(|(i, _)| i).collect();
    if marks.len() < 2 {
        return None;
    }
    let (dps, dms) = super::c05::dst_params(case);
    let src = match mk(case, rec) {
        Ok(i) => i,
        Err(f) => return Some(f),
    };
    let (dst, res) = rec.new_ind(&case.ind, &dps, &dms);
    if res != crate::rec::NewRes::Ok {
        return fail(case, "ctor", format!("constructor returned {:?} for {:?} {:?}", res, dps, dms));
    }
    for (i, op) in case.ops[..marks[0]].iter().enumerate() {
        if let Some(None) = feed(rec, dst, op) {
            return fail(case, "panic", format!("panic at destination history op {} ({:?})", i, op));
        }
    }
    for (i, op) in case.ops[marks[0] + 1..marks[1]].iter().enumerate() {
        if let Some(None) = feed(rec, src, op) {
            return fail(case, "panic", format!("panic at source history op {} ({:?})", i, op));
        }
    }
    if !rec.clone_from(dst, src) {
        return fail(case, "panic", format!("dst.clone_from(&src) panicked (dst built with {:?} {:?})", dps, dms));
    }
    for (i, op) in case.ops[marks[1] + 1..].iter().enumerate() {
        if *op == Op::Mark {
            continue;
        }
        if let Some(None) = feed(rec, dst, op) {
            return fail(case, "panic", format!("panic at op {} ({:?}) after dst.clone_from(&src) (dst built with {:?} {:?}, src with {:?} {:?})", i, op, dps, dms, case.ps, case.ms));
        }
    }
    let r = std::panic::catch_unwind(std::panic::AssertUnwindSafe(|| {
        let c = rec.get(dst).unwrap().clone();
        let _ = c.display();
        let _ = c.debug();
        c.ser().len()
    }));
    if r.is_err() {
        return fail(case, "panic-aux", "clone/Display/Debug/serialize panicked on a clone_from copy".into());
    }
    None
}

pub fn check(case: &Case, rec: &mut Rec) -> Option<Failure> {
    if case.kind == "long-run" {
        return check_long(case);
    }
    if case.kind == "clone-from" {
        return check_clone_from(case, rec);
    }
    let id = match mk(case, rec) {
        Ok(i) => i,
        Err(f) => return Some(f),
    };
    for (i, op) in case.ops.iter().enumerate() {
        match op {
            Op::Mark => {
                // clone, Display, Debug, serialization return normally
                let r = std::panic::catch_unwind(std::panic::AssertUnwindSafe(|| {
                    let inst = rec.get(id).unwrap();
                    let c = inst.clone();
                    let _ = format!("{}", c.display());
                    let _ = c.debug();
                    let b = c.ser();
                    b.len()
                }));
                if r.is_err() {
                    return fail(case, "panic-aux", format!("clone/Display/Debug/serialize panicked at op {}", i));
                }
                rec.state(id);
                rec.display(id);
            }
            _ => {
                if let Some(None) = feed(rec, id, op) {
                    return fail(case, "panic", format!("panic at op {} ({:?})", i, op));
                }
            }
        }
    }
    None
}

pub fn generate(r: &mut Runner) {
    // every period 1..=64 for >= 3·period+3 calls, all 22 indicators, non-finite values and resets injected
    let maxp = 64;
    r.log_every = if r.tier == Tier::Quick { 3 } else { 5 };
    let reps = if r.tier == Tier::Quick { 1 } else { 6 };
    for name in ind::NAMES {
        let (np, nm) = ind::arity(name).unwrap();
        for p in 1..=maxp {
            for rep in 0..reps {
                let ps: Vec<usize> = (0..np).map(|j| if j == 0 { p } else { 1 + (p * (j + 2) + rep) % maxp }).collect();
                let ms: Vec<f64> = (0..nm).map(|_| *r.rng.pick(&[0.0, -1.0, 2.0, 1e300, f64::NAN, f64::INFINITY])).collect();
                let len = 3 * p + 3 + r.rng.below(10);
                let mut c = Case::new("C12", "every-period", name, &ps, &ms);
                let weird_p = [0.0, 0.05, 0.3][(p + rep) % 3];
                c.ops = super::c04::history(r, name, len, weird_p, *[1.0, 1e6, 1e300][..].get(rep % 3).unwrap());
                c.ops.push(Op::Mark);
                r.run(c, true);
            }
        }
        if np == 0 {
            continue;
        }
    }
    // sampled periods up to 4096
    let cases = if r.tier == Tier::Quick { 110 } else { 2200 };
    r.log_every = if r.tier == Tier::Quick { 11 } else { 101 };
    for i in 0..cases {
        let name = ind::NAMES[i % ind::NAMES.len()];
        let (np, nm) = ind::arity(name).unwrap();
        let ps: Vec<usize> = (0..np).map(|_| r.rng.range(65, 4096)).collect();
        let ms: Vec<f64> = (0..nm).map(|_| gen::multiplier(&mut r.rng)).collect();
        let maxp = ps.iter().copied().max().unwrap_or(1);
        let len = if r.tier == Tier::Quick { maxp + 10 } else { 3 * maxp + 3 };
        let mut c = Case::new("C12", "large-period", name, &ps, &ms);
        c.ops = super::c04::history(r, name, len, 0.02, 1.0);
        c.ops.push(Op::Mark);
        r.run(c, true);
    }
    // Clone::clone_from into an already used instance with the same / other parameters, then keep driving the copy
    // (next, reset, clone, Display, Debug, serialization)
    let cf = if r.tier == Tier::Quick { 440 } else { 6600 };
    r.log_every = if r.tier == Tier::Quick { 11 } else { 101 };
    for i in 0..cf {
        let name = ind::NAMES[i % ind::NAMES.len()];
        let (np, nm) = ind::arity(name).unwrap();
        let top = if r.rng.chance(0.5) { 6 } else { 64 };
        let ps: Vec<usize> = (0..np).map(|_| r.rng.range(1, top)).collect();
        let ms: Vec<f64> = (0..nm).map(|_| gen::multiplier(&mut r.rng)).collect();
        let same = r.rng.chance(0.3);
        let dps: Vec<usize> = if same { ps.clone() } else { (0..np).map(|_| r.rng.range(1, top)).collect() };
        let dms: Vec<f64> = if same { ms.clone() } else { (0..nm).map(|_| gen::multiplier(&mut r.rng)).collect() };
        let mx = ps.iter().chain(dps.iter()).copied().max().unwrap_or(1);
        let mut c = Case::new("C12", "clone-from", name, &ps, &ms);
        c.extra = dps.iter().map(|p| *p as f64).chain(dms.iter().copied()).collect();
        let wp = [0.0, 0.05, 0.3][i % 3];
        let hd = r.rng.range(0, 3 * mx + 3);
        let ha = r.rng.range(0, 3 * mx + 3);
        c.ops = super::c04::history(r, name, hd, wp, 1.0);
        c.ops.push(Op::Mark);
        c.ops.extend(super::c04::history(r, name, ha, wp, 1.0));
        c.ops.push(Op::Mark);
        let cl = 3 * mx + 3 + r.rng.below(10);
        c.ops.extend(super::c04::history(r, name, cl, wp, 1.0));
        r.run(c, true);
    }
    // long reset-free runs: counters / cursors that only matter after 2^16, 2^20 (thorough: 2^24) calls; periods that are
    // NOT powers of two (so that no ring cursor is back at 0 when the call count reaches a power of two) and 2^k ones
    r.log_every = u64::MAX;
    let rounds = if r.tier == Tier::Quick { 2 } else { 4 };
    for round in 0..rounds {
        for name in ind::NAMES {
            let (np, nm) = ind::arity(name).unwrap();
            let slow = matches!(*name, "MeanAbsoluteDeviation" | "CommodityChannelIndex" | "EfficiencyRatio");
            let big = r.tier == Tier::Thorough && round == 0;
            let top = if slow { if big { 9 } else { 24 } } else if round % 2 == 0 { 100 } else { 1000 };
            let ps: Vec<usize> = (0..np)
                .map(|_| loop {
                    let p = r.rng.range(3, top);
                    if round == 3 || !p.is_power_of_two() {
                        break p;
                    }
                })
                .collect();
            let ms: Vec<f64> = (0..nm).map(|_| gen::multiplier(&mut r.rng)).collect();
            let mx = ps.iter().copied().max().unwrap_or(1);
            let len = (if big { 1usize << 24 } else { 1usize << 20 }) + 2 * mx + 3 + r.rng.below(1000);
            let mut c = Case::new("C12", "long-run", name, &ps, &ms);
            let wp = if round % 2 == 0 { 0.0 } else { 1e-4 };
            c.extra = vec![(r.rng.u64() % (1 << 50)) as f64, len as f64, wp];
            r.steps += len as u64;
            r.run(c, true);
        }
    }
    // the generic differential sessions (all ops of the protocol)
    let mut st_rng = r.rng.fork();
    let _ = &mut st_rng;
}

pub const RULE: &str = "all 22 indicators × every period 1..=64 × at least 3·period+3 calls (every reachable cursor/counter state), with 0% / 5% / 30% injected values from {NaN, ±inf, ±f64::MAX, ±1e308, MIN_POSITIVE, ±5e-324, ±0}, malformed bars (five independent fields), interior resets, multipliers from {0,-1,2,1e300,NaN,inf}; then sampled periods 65..=4096; at the end of each case clone, Display, Debug and bincode serialization are invoked. kind clone-from: an already used instance (history 0..3n+3 ops; same parameters in 30% of the cases, else independently drawn periods 1..6 / 1..64 and multipliers) is overwritten with dst.clone_from(&src) (src fed 0..3n+3 ops), then the copy is driven for 3n+3.. more ops incl. injected values and resets, and cloned / displayed / serialized. kind long-run (stream regenerated from a seed in extra): every indicator, reset-free runs of 2^20 + 2n + 3.. calls (thorough: one round of 2^24+ calls) with periods that are not powers of two (3..100 and 3..1000; 3..24 for the O(period)-per-step indicators), without and with 1e-4 injected non-finite / extreme values. Built with overflow-checks and debug-assertions on; every call under catch_unwind. Every case is non-trivial (wraps each ring at least 3 times or, for large periods in the quick tier, fills it).";
