pub mod c01;
pub mod c02;
pub mod c04;
pub mod c03;
pub mod c05;
pub mod c06;
pub mod c10;
pub mod c11;
pub mod c12;
pub mod util;

use crate::case::{Case, Failure};
use crate::rec::Rec;
use crate::runner::Runner;

pub fn check_fn(prop: &str) -> Option<crate::runner::CheckFn> {
    Some(match prop {
        "C01" => c01::check,
        "C02" => c02::check,
        "C04" => c04::check,
        "C03" => c03::check,
        "C05" => c05::check,
        "C06" => c06::check,
        "C10" => c10::check,
        "C11" => c11::check,
        "C12" => c12::check,
        _ => return None,
    })
}

pub fn generate(prop: &str, r: &mut Runner) {
    match prop {
        "C01" => c01::generate(r),
        "C02" => c02::generate(r),
        "C04" => c04::generate(r),
        "C03" => c03::generate(r),
        "C05" => c05::generate(r),
        "C06" => c06::generate(r),
        "C10" => c10::generate(r),
        "C11" => c11::generate(r),
        "C12" => c12::generate(r),
        _ => {}
    }
}

pub fn rule(prop: &str) -> &'static str {
    match prop {
        "C01" => c01::RULE,
        "C02" => c02::RULE,
        "C04" => c04::RULE,
        "C03" => c03::RULE,
        "C05" => c05::RULE,
        "C06" => c06::RULE,
        "C10" => c10::RULE,
        "C11" => c11::RULE,
        "C12" => c12::RULE,
        _ => "",
    }
}

pub fn check_case(case: &Case, rec: &mut Rec) -> Option<Failure> {
    match check_fn(&case.prop) {
        Some(f) => f(case, rec),
        None => Some(Failure { key: "harness:unknown-property".into(), msg: case.prop.clone() }),
    }
}
