pub mod c01;
pub mod c02;
pub mod c04;
pub mod c03;
pub mod c05;
pub mod c06;
pub mod c07;
pub mod c08;
pub mod c09;
pub mod c10;
pub mod c11;
pub mod c12;
pub mod c13;
pub mod c14;
pub mod c15;
pub mod c16;
pub mod c17;
pub mod c18;
pub mod util;

use crate::case::{Case, Failure};
use crate::rec::Rec;
use crate::runner::Runner;

pub fn check_fn(prop: &str) -> Option<crate::runner::CheckFn> {
    Some(match prop {
        "C01" => c01::check,
        "C02" => c02::check,
        "C04" => c04::check,
        "C03" => c03::check,
        "C05" => c05::check,
        "C06" => c06::check,
        "C07" => c07::check,
        "C08" => c08::check,
        "C09" => c09::check,
        "C10" => c10::check,
        "C11" => c11::check,
        "C12" => c12::check,
        "C13" => c13::check,
        "C14" => c14::check,
        "C15" => c15::check,
        "C16" => c16::check,
        "C17" => c17::check,
        "C18" => c18::check,
        _ => return None,
    })
}

pub fn generate(prop: &str, r: &mut Runner) {
    match prop {
        "C01" => c01::generate(r),
        "C02" => c02::generate(r),
        "C04" => c04::generate(r),
        "C03" => c03::generate(r),
        "C05" => c05::generate(r),
        "C06" => c06::generate(r),
        "C07" => c07::generate(r),
        "C08" => c08::generate(r),
        "C09" => c09::generate(r),
        "C10" => c10::generate(r),
        "C11" => c11::generate(r),
        "C12" => c12::generate(r),
        "C18" => c18::generate(r),
        "C17" => c17::generate(r),
        "C16" => c16::generate(r),
        "C15" => c15::generate(r),
        "C14" => c14::generate(r),
        "C13" => c13::generate(r),
        _ => {}
    }
}

pub fn rule(prop: &str) -> &'static str {
    match prop {
        "C01" => c01::RULE,
        "C02" => c02::RULE,
        "C04" => c04::RULE,
        "C03" => c03::RULE,
        "C05" => c05::RULE,
        "C06" => c06::RULE,
        "C07" => c07::RULE,
        "C08" => c08::RULE,
        "C09" => c09::RULE,
        "C10" => c10::RULE,
        "C11" => c11::RULE,
        "C12" => c12::RULE,
        "C18" => c18::RULE,
        "C17" => c17::RULE,
        "C16" => c16::RULE,
        "C15" => c15::RULE,
        "C14" => c14::RULE,
        "C13" => c13::RULE,
        _ => "",
    }
}

pub fn check_case(case: &Case, rec: &mut Rec) -> Option<Failure> {
    match check_fn(&case.prop) {
        Some(f) => f(case, rec),
        None => Some(Failure { key: "harness:unknown-property".into(), msg: case.prop.clone() }),
    }
}
