pub mod c01;
pub mod c02;
pub mod c04;
pub mod c12;
pub mod util;

use crate::case::{Case, Failure};
use crate::rec::Rec;
use crate::runner::Runner;

pub fn check_fn(prop: &str) -> Option<crate::runner::CheckFn> {
    Some(match prop {
        "C01" => c01::check,
        "C02" => c02::check,
        "C04" => c04::check,
        "C12" => c12::check,
        _ => return None,
    })
}

pub fn generate(prop: &str, r: &mut Runner) {
    match prop {
        "C01" => c01::generate(r),
        "C02" => c02::generate(r),
        "C04" => c04::generate(r),
        "C12" => c12::generate(r),
        _ => {}
    }
}

pub fn rule(prop: &str) -> &'static str {
    match prop {
        "C01" => c01::RULE,
        "C02" => c02::RULE,
        "C04" => c04::RULE,
        "C12" => c12::RULE,
        _ => "",
    }
}

pub fn check_case(case: &Case, rec: &mut Rec) -> Option<Failure> {
    match check_fn(&case.prop) {
        Some(f) => f(case, rec),
        None => Some(Failure { key: "harness:unknown-property".into(), msg: case.prop.clone() }),
    }
}
