//! C03 — oscillators equal their documented formulas wherever these are well-conditioned.
use super::util::*;
use crate::case::{Case, Failure, Op};
use crate::dd::*;
use crate::gen;
use crate::ind::B;
use crate::rec::Rec;
use crate::runner::{Runner, Tier};
use crate::spec::{self, EmaRef};

pub const INDS: &[&str] = &[
    "RelativeStrengthIndex", "FastStochastic", "SlowStochastic", "RateOfChange", "EfficiencyRatio",
    "PercentagePriceOscillator", "CommodityChannelIndex", "MoneyFlowIndex", "OnBalanceVolume",
];

/// reference evaluation of one step: list of (reference value, reference denominator, scale)
/// `None` for an output = not judged at this step (degenerate / ambiguous reference).
pub struct Ref {
    pub ind: String,
    pub n: usize,
    pub xs: Vec<f64>,   // scalar history (close for bar inputs)
    pub bars: Vec<B>,   // bar history
    pub big: f64,       // largest magnitude that entered
    pub ema_u: EmaRef,
    pub ema_d: EmaRef,
    pub ema_f: EmaRef,
    pub ema_s: EmaRef,
    pub ema_g: EmaRef,
    pub worst_c: f64,   // largest condition number seen by a value that an EMA still carries
    pub obv: DD,
    pub cumvol: f64,
    pub ambiguous_until: usize,
    pub maxflow: f64,
}

pub struct Judged {
    pub refv: DD,
    pub c: f64,
    pub scale: f64,
}

impl Ref {
    pub fn new(ind: &str, ps: &[usize]) -> Ref {
        let n = ps.first().copied().unwrap_or(1);
        Ref {
            ind: ind.to_string(),
            n,
            xs: vec![],
            bars: vec![],
            big: 0.0,
            ema_u: EmaRef::new(n),
            ema_d: EmaRef::new(n),
            ema_f: EmaRef::new(ps.first().copied().unwrap_or(1)),
            ema_s: EmaRef::new(ps.get(1).copied().unwrap_or(1)),
            ema_g: EmaRef::new(ps.get(2).copied().unwrap_or(1)),
            worst_c: 1.0,
            obv: DD::ZERO,
            cumvol: 0.0,
            ambiguous_until: 0,
            maxflow: 0.0,
        }
    }

    fn cond(&self, den: DD) -> f64 {
        let d = den.abs().to_f64();
        if d == 0.0 {
            f64::INFINITY
        } else {
            (self.big / d).max(1.0)
        }
    }

    /// feed one input (scalar or bar) and return the judged references for each output
    pub fn step(&mut self, x: Option<f64>, bar: Option<&B>) -> Vec<Option<Judged>> {
        let price = match (x, bar) {
            (Some(x), _) => x,
            (None, Some(b)) => b.c,
            _ => unreachable!(),
        };
        self.xs.push(price);
        if let Some(b) = bar {
            self.bars.push(*b);
            self.big = self.big.max(bar_mag(b));
        } else {
            self.big = self.big.max(price.abs());
        }
        let t = self.xs.len();
        let n = self.n;
        match self.ind.as_str() {
            "RelativeStrengthIndex" => {
                let (g, l) = if t == 1 {
                    (dd(0.1), dd(0.1))
                } else {
                    let (cur, prev) = (self.xs[t - 1], self.xs[t - 2]);
                    if cur > prev {
                        (dd(cur).sub(dd(prev)), DD::ZERO)
                    } else {
                        (DD::ZERO, dd(prev).sub(dd(cur)))
                    }
                };
                let u = self.ema_u.next(g);
                let d = self.ema_d.next(l);
                let den = u.add(d);
                if den.is_zero() {
                    return vec![None];
                }
                // magnitudes entering: the seeds and price differences
                let c = ((self.big.max(0.1)) / den.abs().to_f64()).max(1.0);
                vec![Some(Judged { refv: dd(100.0).mul(u).div(den), c, scale: 100.0 })]
            }
            "FastStochastic" | "SlowStochastic" => {
                let (lo, hi, cur) = match bar {
                    Some(_) => {
                        let w = spec::last_n(&self.bars, n);
                        let lo = w.iter().fold(f64::INFINITY, |a, b| if b.l < a { b.l } else { a });
                        let hi = w.iter().fold(f64::NEG_INFINITY, |a, b| if b.h > a { b.h } else { a });
                        (lo, hi, price)
                    }
                    None => {
                        let w = spec::last_n(&self.xs, n);
                        (spec::fmin(w), spec::fmax(w), price)
                    }
                };
                let (fast, c) = if hi == lo {
                    (dd(50.0), 1.0)
                } else {
                    let den = dd(hi).sub(dd(lo));
                    (dd(cur).sub(dd(lo)).div(den).mul(dd(100.0)), self.cond(den))
                };
                if self.ind == "FastStochastic" {
                    vec![Some(Judged { refv: fast, c, scale: 100.0 })]
                } else {
                    self.worst_c = self.worst_c.max(c);
                    let s = self.ema_s.next(fast);
                    vec![Some(Judged { refv: s, c: self.worst_c, scale: 100.0 })]
                }
            }
            "RateOfChange" => {
                let base = if t > n { self.xs[t - 1 - n] } else { self.xs[0] };
                if base == 0.0 {
                    return vec![None];
                }
                let r = dd(price).sub(dd(base)).div(dd(base)).mul(dd(100.0));
                vec![Some(Judged { refv: r, c: self.cond(dd(base)), scale: 100.0 })]
            }
            "EfficiencyRatio" => {
                if t == 1 {
                    return vec![Some(Judged { refv: dd(1.0), c: 1.0, scale: 1.0 })];
                }
                let bi = if t > n { t - 1 - n } else { 0 };
                let mut vol = DD::ZERO;
                for i in bi + 1..t {
                    vol = vol.add(dd(self.xs[i]).sub(dd(self.xs[i - 1])).abs());
                }
                if vol.is_zero() {
                    return vec![None];
                }
                let r = dd(price).sub(dd(self.xs[bi])).abs().div(vol);
                vec![Some(Judged { refv: r, c: self.cond(vol), scale: 1.0 })]
            }
            "PercentagePriceOscillator" => {
                let f = self.ema_f.next(dd(price));
                let s = self.ema_s.next(dd(price));
                if s.is_zero() {
                    return vec![None, None, None];
                }
                let ppo = f.sub(s).div(s).mul(dd(100.0));
                let c = self.cond(s);
                self.worst_c = self.worst_c.max(c);
                let sig = self.ema_g.next(ppo);
                vec![
                    Some(Judged { refv: ppo, c, scale: 100.0 }),
                    Some(Judged { refv: sig, c: self.worst_c, scale: 100.0 }),
                    Some(Judged { refv: ppo.sub(sig), c: self.worst_c, scale: 100.0 }),
                ]
            }
            "CommodityChannelIndex" => {
                let w = spec::last_n(&self.bars, n);
                let tps: Vec<DD> = w.iter().map(spec::typical).collect();
                let k = DD::fromu(tps.len());
                let mean = tps.iter().fold(DD::ZERO, |a, x| a.add(*x)).div(k);
                let mad = tps.iter().fold(DD::ZERO, |a, x| a.add(x.sub(mean).abs())).div(k);
                if mad.is_zero() {
                    // reference denominator is zero: condition number infinite, not judged here
                    // (the degenerate window is C08's business)
                    return vec![None];
                }
                let tp = *tps.last().unwrap();
                let r = tp.sub(mean).div(mad.mul(dd(15.0).div(dd(1000.0))));
                vec![Some(Judged { refv: r, c: self.cond(mad), scale: 1.0 / 0.015 })]
            }
            "MoneyFlowIndex" => {
                let b = bar.unwrap();
                self.maxflow = self.maxflow.max((spec::typical(b).to_f64() * b.v).abs());
                if t == 1 {
                    return vec![Some(Judged { refv: dd(50.0), c: 1.0, scale: 100.0 })];
                }
                // direction ambiguity: exact typical prices differ by less than rounding
                let tp_now = spec::typical(b);
                let tp_prev = spec::typical(&self.bars[t - 2]);
                let diff = tp_now.sub(tp_prev).abs().to_f64();
                let f_now = (b.c + b.h + b.l) / 3.0;
                let pb = &self.bars[t - 2];
                let f_prev = (pb.c + pb.h + pb.l) / 3.0;
                let exact_sign = if tp_prev.lt(tp_now) { 1 } else if tp_now.lt(tp_prev) { -1 } else { 0 };
                let f_sign = if f_now > f_prev { 1 } else if f_now < f_prev { -1 } else { 0 };
                if exact_sign != f_sign || (diff > 0.0 && diff < 1e-13 * tp_now.abs().to_f64()) {
                    self.ambiguous_until = t + n;
                }
                if t <= self.ambiguous_until {
                    return vec![None];
                }
                let first_move = if t - 1 > n { t - n } else { 1 }; // index of the first bar whose move counts
                let (mut pos, mut neg) = (DD::ZERO, DD::ZERO);
                for i in first_move..t {
                    let a = spec::typical(&self.bars[i]);
                    let p = spec::typical(&self.bars[i - 1]);
                    let flow = a.mul(dd(self.bars[i].v));
                    if p.lt(a) {
                        pos = pos.add(flow);
                    } else if a.lt(p) {
                        neg = neg.add(flow);
                    }
                }
                let den = pos.add(neg);
                if den.is_zero() {
                    return vec![None];
                }
                let c = (self.maxflow / den.abs().to_f64()).max(1.0);
                vec![Some(Judged { refv: pos.div(den).mul(dd(100.0)), c, scale: 100.0 })]
            }
            "OnBalanceVolume" => {
                let b = bar.unwrap();
                let prev = if t == 1 { 0.0 } else { self.xs[t - 2] };
                if b.c > prev {
                    self.obv = self.obv.add(dd(b.v));
                } else if b.c < prev {
                    self.obv = self.obv.sub(dd(b.v));
                }
                self.cumvol += b.v.abs();
                vec![Some(Judged { refv: self.obv, c: 1.0, scale: self.cumvol.max(f64::MIN_POSITIVE) })]
            }
            _ => vec![],
        }
    }
}

pub fn check(case: &Case, rec: &mut Rec) -> Option<Failure> {
    let id = match mk(case, rec) {
        Ok(i) => i,
        Err(f) => return Some(f),
    };
    let mut r = Ref::new(&case.ind, &case.ps);
    let mut t = 0usize;
    for (i, op) in case.ops.iter().enumerate() {
        let (out, judged) = match op {
            Op::Next(x) => {
                let o = match rec.next(id, *x) {
                    Some(o) => o,
                    None => return fail(case, "panic", format!("panic at step {}", i)),
                };
                (o, r.step(Some(*x), None))
            }
            Op::Bar(b) => {
                let o = match rec.bar(id, b) {
                    Some(o) => o,
                    None => return fail(case, "panic", format!("panic at step {}", i)),
                };
                (o, r.step(None, Some(b)))
            }
            Op::Reset => {
                if !rec.reset(id) {
                    return fail(case, "panic", format!("reset panicked at op {}", i));
                }
                r = Ref::new(&case.ind, &case.ps);
                t = 0;
                continue;
            }
            _ => continue,
        };
        t += 1;
        for (j, (o, jd)) in out.iter().zip(judged.iter()).enumerate() {
            if let Some(jd) = jd {
                if !(jd.c <= 1e6) {
                    continue;
                }
                let tol = tau(t) * jd.c * jd.scale;
                let d = absdiff(*o, jd.refv);
                if !(d <= tol) {
                    return fail(case, &format!("formula-out{}", j), format!("step {} (t={}): output #{} = {:e}, documented formula from scratch = {:e}, |diff| {:e} > τ·c·scale = {:e} (c = {:e})", i, t, j, o, jd.refv.to_f64(), d, tol, jd.c));
                }
            }
        }
    }
    None
}

/// bars in which close != (high+low)/2, volumes incl. 0, equal neighbours
fn osc_bars(r: &mut Runner, len: usize, scale: f64) -> Vec<B> {
    let regime = *r.rng.pick(gen::REGIMES);
    let xs = gen::stream(&mut r.rng, regime, len, true, scale);
    gen::valid_bars(&mut r.rng, &xs)
}

pub fn gen_case(r: &mut Runner, prop: &str, ind: &str, maxp: usize, maxlen: usize) -> Case {
    let np = crate::ind::arity(ind).unwrap().0;
    let ps: Vec<usize> = (0..np).map(|_| gen::period(&mut r.rng, maxp)).collect();
    let len = r.rng.range(1, maxlen);
    let scale = *r.rng.pick(&[1e-17, 1e-9, 1e-2, 1.0, 100.0, 1e4, 1e6, 8.900295434028806e-308, 1e-310]);
    let bars_only = !crate::ind::has_next_name(ind);
    let use_bars = bars_only || ((ind == "FastStochastic" || ind == "SlowStochastic") && r.rng.chance(0.5));
    let mut c = Case::new(prop, if use_bars { "bars" } else { "scalars" }, ind, &ps, &[]);
    if use_bars {
        c.ops = osc_bars(r, len, scale).into_iter().map(Op::Bar).collect();
    } else {
        let regime = *r.rng.pick(gen::REGIMES);
        c.ops = gen::stream(&mut r.rng, regime, len, true, scale).into_iter().map(Op::Next).collect();
    }
    c
}

pub fn generate(r: &mut Runner) {
    // small scope: periods 1..=5, all sequences up to depth d over a small alphabet of positive
    // prices with equal neighbours; bars built from (close, spread, volume) triples incl. zero volume
    let depth = if r.tier == Tier::Quick { 5 } else { 7 };
    let a: &[f64] = &[1.0, 2.0, 2.5, 4.0];
    r.log_every = 61;
    let bar_alpha: Vec<B> = vec![
        B { o: 1.0, h: 2.0, l: 1.0, c: 1.5, v: 10.0 },
        B { o: 1.5, h: 3.0, l: 1.0, c: 1.0, v: 0.0 },
        B { o: 2.0, h: 2.0, l: 2.0, c: 2.0, v: 5.0 },
        B { o: 1.0, h: 4.0, l: 0.5, c: 3.5, v: 7.0 },
    ];
    for ind in INDS {
        let np = crate::ind::arity(ind).unwrap().0;
        let bars_only = !crate::ind::has_next_name(ind);
        let psets: Vec<Vec<usize>> = match np {
            0 => vec![vec![]],
            1 => (1..=5).map(|p| vec![p]).collect(),
            2 => vec![vec![1, 1], vec![2, 3], vec![3, 2], vec![5, 1]],
            _ => vec![vec![1, 2, 1], vec![2, 3, 2], vec![3, 5, 4]],
        };
        for ps in psets {
            for code in 0..a.len().pow(depth as u32) {
                let mut c = Case::new("C03", "exhaustive", ind, &ps, &[]);
                let mut k = code;
                for _ in 0..depth {
                    let j = k % a.len();
                    k /= a.len();
                    c.ops.push(if bars_only { Op::Bar(bar_alpha[j]) } else { Op::Next(a[j]) });
                }
                r.run(c, true);
            }
        }
    }
    // tie stage (bar-only indicators): DIFFERENT bars with the SAME typical price 7/3 (sum of prices not a
    // multiple of 3, so a reformulated typical price rounds differently), mixed with bars at 2 and 3
    let tie_alpha: Vec<B> = vec![
        B { o: 2.0, h: 3.0, l: 2.0, c: 2.0, v: 10.0 },
        B { o: 2.0, h: 4.0, l: 1.0, c: 2.0, v: 7.0 },
        B { o: 2.0, h: 3.0, l: 1.0, c: 2.0, v: 5.0 },
        B { o: 3.0, h: 4.0, l: 2.0, c: 3.0, v: 3.0 },
    ];
    for ind in INDS {
        if crate::ind::has_next_name(ind) {
            continue;
        }
        let np = crate::ind::arity(ind).unwrap().0;
        let psets: Vec<Vec<usize>> = match np {
            0 => vec![vec![]],
            1 => (1..=4).map(|p| vec![p]).collect(),
            _ => continue,
        };
        for ps in psets {
            for code in 0..tie_alpha.len().pow(depth as u32) {
                let mut c = Case::new("C03", "exhaustive-tp-ties", ind, &ps, &[]);
                let mut k = code;
                for _ in 0..depth {
                    c.ops.push(Op::Bar(tie_alpha[k % tie_alpha.len()]));
                    k /= tie_alpha.len();
                }
                r.run(c, true);
            }
        }
    }
    let cases = if r.tier == Tier::Quick { 450 } else { 18000 };
    r.log_every = if r.tier == Tier::Quick { 5 } else { 151 };
    let maxlen = if r.tier == Tier::Quick { 400 } else { 3000 };
    for i in 0..cases {
        let ind = INDS[i % INDS.len()];
        let mut c = gen_case(r, "C03", ind, 512, maxlen);
        if i % 5 == 2 && c.ops.len() > 3 {
            let at = r.rng.range(1, c.ops.len() - 1);
            c.ops.insert(at, Op::Reset);
            c.kind = format!("{}-with-reset", c.kind);
        }
        let maxp = c.ps.iter().copied().max().unwrap_or(1);
        let nt = c.ops.len() > maxp + 1;
        r.run(c, nt);
    }
}

pub const RULE: &str = "small scope: all sequences of the stated depth over 4 positive prices with equal neighbours (scalar indicators) or over 4 bars incl. a zero-volume bar, a one-price bar and bars with close != (high+low)/2 (bar-only indicators), periods 1..=5; tie stage: all sequences over 4 bars of which two DIFFERENT ones have the same typical price 7/3 (bar-only indicators, periods 1..=4); sampled: periods to 512, positive price streams in 9 regimes, valid bars with independent open/high/low/close and volumes incl. 0. Each output is compared with the documented formula evaluated from scratch in double-double on the whole history, tolerance tau(t)·c·scale, judged only when c <= 1e6 and the reference denominator is non-zero (MFI additionally skips n steps after a typical-price comparison whose exact and f64 signs differ). Non-trivial = longer than the largest period + 1 (steady state reached).";
