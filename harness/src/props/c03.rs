//! C03 — oscillators equal their documented formulas wherever these are well-conditioned.
use super::util::*;
use crate::case::{Case, Failure, Op};
use crate::dd::*;
use crate::gen;
use crate::ind::B;
use crate::rec::Rec;
use crate::rng::Rng;
use crate::runner::{Runner, Tier};
use crate::spec::{self, EmaRef};

pub const INDS: &[&str] = &[
    "RelativeStrengthIndex", "FastStochastic", "SlowStochastic", "RateOfChange", "EfficiencyRatio",
    "PercentagePriceOscillator", "CommodityChannelIndex", "MoneyFlowIndex", "OnBalanceVolume",
];

/// reference evaluation of one step: list of (reference value, reference denominator, scale)
/// `None` for an output = not judged at this step (degenerate / ambiguous reference).
pub struct Ref {
    pub ind: String,
    pub n: usize,
    pub xs: Vec<f64>,   // scalar history (close for bar inputs)
    pub bars: Vec<B>,   // bar history
    pub big: f64,       // largest magnitude that entered
    pub ema_u: EmaRef,
    pub ema_d: EmaRef,
    pub ema_f: EmaRef,
    pub ema_s: EmaRef,
    pub ema_g: EmaRef,
    pub worst_c: f64,   // largest condition number seen by a value that an EMA still carries
    pub obv: DD,
    pub cumvol: f64,
    pub ambiguous_until: usize,
    pub maxflow: f64,
    pub count: usize,   // inputs since creation (the histories below may have been trimmed)
    pub bounded: bool,  // long runs: keep only the last n+2 inputs (everything older is outside every lookback)
}

pub struct Judged {
    pub refv: DD,
    pub c: f64,
    pub scale: f64,
}

impl Ref {
    pub fn new(ind: &str, ps: &[usize]) -> Ref {
        let n = ps.first().copied().unwrap_or(1);
        Ref {
            ind: ind.to_string(),
            n,
            xs: vec![],
            bars: vec![],
            big: 0.0,
            ema_u: EmaRef::new(n),
            ema_d: EmaRef::new(n),
            ema_f: EmaRef::new(ps.first().copied().unwrap_or(1)),
            ema_s: EmaRef::new(ps.get(1).copied().unwrap_or(1)),
            ema_g: EmaRef::new(ps.get(2).copied().unwrap_or(1)),
            worst_c: 1.0,
            obv: DD::ZERO,
            cumvol: 0.0,
            ambiguous_until: 0,
            maxflow: 0.0,
            count: 0,
            bounded: false,
        }
    }

    fn cond(&self, den: DD) -> f64 {
        let d = den.abs().to_f64();
        if d == 0.0 {
            f64::INFINITY
        } else {
            (self.big / d).max(1.0)
        }
    }

    /// feed one input (scalar or bar) and return the judged references for each output
    pub fn step(&mut self, x: Option<f64>, bar: Option<&B>) -> Vec<Option<Judged>> {
        self.step_opt(x, bar, true)
    }

    /// the three f64 summation orders of the typical price all give the exact value: the direction test
    /// of this bar is then the same under every reasonable evaluation of (high+low+close)/3
    fn tp_robustly_exact(b: &B) -> bool {
        let e = spec::typical(b);
        [(b.c + b.h) + b.l, (b.h + b.l) + b.c, (b.c + b.l) + b.h].iter().all(|s| dd(s / 3.0) == e)
    }

    /// `judge` = false: only the reference STATE is advanced (histories, exponential averages, running
    /// volume, ambiguity bookkeeping); the from-scratch window evaluations are skipped and `vec![]` returned
    /// for the windowed indicators.  Used by the long runs, which judge densely only around round counts.
    pub fn step_opt(&mut self, x: Option<f64>, bar: Option<&B>, judge: bool) -> Vec<Option<Judged>> {
        let keep = self.n + 2;
        if self.bounded && self.xs.len() >= 2 * keep + 4096 {
            let cut = self.xs.len() - keep;
            self.xs.drain(..cut);
            if !self.bars.is_empty() {
                let cutb = self.bars.len() - keep;
                self.bars.drain(..cutb);
            }
        }
        let price = match (x, bar) {
            (Some(x), _) => x,
            (None, Some(b)) => b.c,
            _ => unreachable!(),
        };
        self.xs.push(price);
        if let Some(b) = bar {
            self.bars.push(*b);
            self.big = self.big.max(bar_mag(b));
        } else {
            self.big = self.big.max(price.abs());
        }
        self.count += 1;
        let t = self.count; // inputs so far
        let len = self.xs.len(); // of which still held (== t unless trimmed; always > n+1 once trimmed)
        let n = self.n;
        match self.ind.as_str() {
            "RelativeStrengthIndex" => {
                let (g, l) = if t == 1 {
                    (dd(0.1), dd(0.1))
                } else {
                    let (cur, prev) = (self.xs[len - 1], self.xs[len - 2]);
                    if cur > prev {
                        (dd(cur).sub(dd(prev)), DD::ZERO)
                    } else {
                        (DD::ZERO, dd(prev).sub(dd(cur)))
                    }
                };
                let u = self.ema_u.next(g);
                let d = self.ema_d.next(l);
                let den = u.add(d);
                if den.is_zero() {
                    return vec![None];
                }
                // magnitudes entering: the seeds and price differences
                let c = ((self.big.max(0.1)) / den.abs().to_f64()).max(1.0);
                vec![Some(Judged { refv: dd(100.0).mul(u).div(den), c, scale: 100.0 })]
            }
            "FastStochastic" | "SlowStochastic" => {
                if !judge && self.ind == "FastStochastic" {
                    return vec![];
                }
                let (lo, hi, cur) = match bar {
                    Some(_) => {
                        let w = spec::last_n(&self.bars, n);
                        let lo = w.iter().fold(f64::INFINITY, |a, b| if b.l < a { b.l } else { a });
                        let hi = w.iter().fold(f64::NEG_INFINITY, |a, b| if b.h > a { b.h } else { a });
                        (lo, hi, price)
                    }
                    None => {
                        let w = spec::last_n(&self.xs, n);
                        (spec::fmin(w), spec::fmax(w), price)
                    }
                };
                let (fast, c) = if hi == lo {
                    (dd(50.0), 1.0)
                } else {
                    let den = dd(hi).sub(dd(lo));
                    (dd(cur).sub(dd(lo)).div(den).mul(dd(100.0)), self.cond(den))
                };
                if self.ind == "FastStochastic" {
                    vec![Some(Judged { refv: fast, c, scale: 100.0 })]
                } else {
                    self.worst_c = self.worst_c.max(c);
                    let s = self.ema_s.next(fast);
                    vec![Some(Judged { refv: s, c: self.worst_c, scale: 100.0 })]
                }
            }
            "RateOfChange" => {
                let base = if t > n { self.xs[len - 1 - n] } else { self.xs[0] };
                if base == 0.0 {
                    return vec![None];
                }
                let r = dd(price).sub(dd(base)).div(dd(base)).mul(dd(100.0));
                vec![Some(Judged { refv: r, c: self.cond(dd(base)), scale: 100.0 })]
            }
            "EfficiencyRatio" => {
                if t == 1 {
                    return vec![Some(Judged { refv: dd(1.0), c: 1.0, scale: 1.0 })];
                }
                if !judge {
                    return vec![];
                }
                let bi = if t > n { len - 1 - n } else { 0 };
                let mut vol = DD::ZERO;
                for i in bi + 1..len {
                    vol = vol.add(dd(self.xs[i]).sub(dd(self.xs[i - 1])).abs());
                }
                if vol.is_zero() {
                    return vec![None];
                }
                let r = dd(price).sub(dd(self.xs[bi])).abs().div(vol);
                vec![Some(Judged { refv: r, c: self.cond(vol), scale: 1.0 })]
            }
            "PercentagePriceOscillator" => {
                let f = self.ema_f.next(dd(price));
                let s = self.ema_s.next(dd(price));
                if s.is_zero() {
                    return vec![None, None, None];
                }
                let ppo = f.sub(s).div(s).mul(dd(100.0));
                let c = self.cond(s);
                self.worst_c = self.worst_c.max(c);
                let sig = self.ema_g.next(ppo);
                vec![
                    Some(Judged { refv: ppo, c, scale: 100.0 }),
                    Some(Judged { refv: sig, c: self.worst_c, scale: 100.0 }),
                    Some(Judged { refv: ppo.sub(sig), c: self.worst_c, scale: 100.0 }),
                ]
            }
            "CommodityChannelIndex" => {
                if !judge {
                    return vec![];
                }
                let w = spec::last_n(&self.bars, n);
                let tps: Vec<DD> = w.iter().map(spec::typical).collect();
                let k = DD::fromu(tps.len());
                let mean = tps.iter().fold(DD::ZERO, |a, x| a.add(*x)).div(k);
                let mad = tps.iter().fold(DD::ZERO, |a, x| a.add(x.sub(mean).abs())).div(k);
                if mad.is_zero() {
                    // reference denominator is zero: condition number infinite, not judged here
                    // (the degenerate window is C08's business)
                    return vec![None];
                }
                let tp = *tps.last().unwrap();
                let r = tp.sub(mean).div(mad.mul(dd(15.0).div(dd(1000.0))));
                vec![Some(Judged { refv: r, c: self.cond(mad), scale: 1.0 / 0.015 })]
            }
            "MoneyFlowIndex" => {
                let b = bar.unwrap();
                self.maxflow = self.maxflow.max((spec::typical(b).to_f64() * b.v).abs());
                if t == 1 {
                    return vec![Some(Judged { refv: dd(50.0), c: 1.0, scale: 100.0 })];
                }
                // direction ambiguity: exact typical prices differ by less than rounding
                let tp_now = spec::typical(b);
                let tp_prev = spec::typical(&self.bars[len - 2]);
                let diff = tp_now.sub(tp_prev).abs().to_f64();
                let f_now = (b.c + b.h + b.l) / 3.0;
                let pb = &self.bars[len - 2];
                let f_prev = (pb.c + pb.h + pb.l) / 3.0;
                let exact_sign = if tp_prev.lt(tp_now) { 1 } else if tp_now.lt(tp_prev) { -1 } else { 0 };
                let f_sign = if f_now > f_prev { 1 } else if f_now < f_prev { -1 } else { 0 };
                // a difference below 1e-13 relative could flip under a re-associated f64 typical price — unless both
                // typical prices are exactly representable and exact under every summation order (near-tie stage)
                if exact_sign != f_sign || (diff > 0.0 && diff < 1e-13 * tp_now.abs().to_f64() && !(Self::tp_robustly_exact(b) && Self::tp_robustly_exact(pb))) {
                    self.ambiguous_until = t + n;
                }
                if t <= self.ambiguous_until {
                    return vec![None];
                }
                if !judge {
                    return vec![];
                }
                let first_move = if t - 1 > n { len - n } else { 1 }; // index of the first bar whose move counts
                let (mut pos, mut neg) = (DD::ZERO, DD::ZERO);
                for i in first_move..len {
                    let a = spec::typical(&self.bars[i]);
                    let p = spec::typical(&self.bars[i - 1]);
                    let flow = a.mul(dd(self.bars[i].v));
                    if p.lt(a) {
                        pos = pos.add(flow);
                    } else if a.lt(p) {
                        neg = neg.add(flow);
                    }
                }
                let den = pos.add(neg);
                if den.is_zero() {
                    return vec![None];
                }
                let c = (self.maxflow / den.abs().to_f64()).max(1.0);
                vec![Some(Judged { refv: pos.div(den).mul(dd(100.0)), c, scale: 100.0 })]
            }
            "OnBalanceVolume" => {
                let b = bar.unwrap();
                let prev = if t == 1 { 0.0 } else { self.xs[len - 2] };
                if b.c > prev {
                    self.obv = self.obv.add(dd(b.v));
                } else if b.c < prev {
                    self.obv = self.obv.sub(dd(b.v));
                }
                self.cumvol += b.v.abs();
                vec![Some(Judged { refv: self.obv, c: 1.0, scale: self.cumvol.max(f64::MIN_POSITIVE) })]
            }
            _ => vec![],
        }
    }
}

pub fn check(case: &Case, rec: &mut Rec) -> Option<Failure> {
    if case.kind.starts_with("long-") {
        return check_long(case);
    }
    let id = match mk(case, rec) {
        Ok(i) => i,
        Err(f) => return Some(f),
    };
    let mut r = Ref::new(&case.ind, &case.ps);
    let mut t = 0usize;
    for (i, op) in case.ops.iter().enumerate() {
        let (out, judged) = match op {
            Op::Next(x) => {
                let o = match rec.next(id, *x) {
                    Some(o) => o,
                    None => return fail(case, "panic", format!("panic at step {}", i)),
                };
                (o, r.step(Some(*x), None))
            }
            Op::Bar(b) => {
                let o = match rec.bar(id, b) {
                    Some(o) => o,
                    None => return fail(case, "panic", format!("panic at step {}", i)),
                };
                (o, r.step(None, Some(b)))
            }
            Op::Reset => {
                if !rec.reset(id) {
                    return fail(case, "panic", format!("reset panicked at op {}", i));
                }
                r = Ref::new(&case.ind, &case.ps);
                t = 0;
                continue;
            }
            _ => continue,
        };
        t += 1;
        for (j, (o, jd)) in out.iter().zip(judged.iter()).enumerate() {
            if let Some(jd) = jd {
                if !(jd.c <= 1e6) {
                    continue;
                }
                let tol = tau(t) * jd.c * jd.scale;
                let d = absdiff(*o, jd.refv);
                if !(d <= tol) {
                    return fail(case, &format!("formula-out{}", j), format!("step {} (t={}): output #{} = {:e}, documented formula from scratch = {:e}, |diff| {:e} > τ·c·scale = {:e} (c = {:e})", i, t, j, o, jd.refv.to_f64(), d, tol, jd.c));
                }
            }
        }
    }
    None
}

// ---------------------------------------------------------------------------------------------------
// long runs on ONE instance (state that only shows after very many updates: counters, periodic re-syncs)

pub const LONG_REGIMES: &[&str] = &["walk", "ticks", "heavy-light"];

/// the round update counts after which a long run is judged at EVERY step for 2·period+2 steps:
/// 2^10..2^k, 10^k and 5·10^k up to `len`
pub fn round_counts(len: usize) -> Vec<usize> {
    let mut v = vec![];
    let mut p = 1usize << 10;
    while p <= len {
        v.push(p);
        p <<= 1;
    }
    let mut d = 1000usize;
    while d <= len {
        v.push(d);
        if 5 * d <= len {
            v.push(5 * d);
        }
        d *= 10;
    }
    v.sort();
    v
}

/// next bar of a long stream inside the band [scale, 1000·scale] (valid: low <= open, close <= high, volume >= 0)
fn long_bar(rng: &mut Rng, regime: &str, i: usize, scale: f64, prev: &B) -> B {
    let (lo, hi) = (scale, 1000.0 * scale);
    let c = match regime {
        // tick-quoted walk on 16 price levels: equal neighbours everywhere
        "ticks" => {
            let k = ((prev.c / lo).round() as i64 - 1).clamp(0, 15);
            let k2 = (k + [-1i64, 0, 0, 1, 1, -1, 2, -2][rng.below(8)]).clamp(0, 15);
            lo * (1.0 + k2 as f64)
        }
        // multiplicative walk, a tenth of the steps repeat the previous close
        _ => {
            if rng.chance(0.1) {
                prev.c
            } else {
                (prev.c * (1.0 + (rng.unit() - 0.5) * 0.02)).max(lo).min(hi)
            }
        }
    };
    let o = prev.c;
    let (top, bot) = (o.max(c), o.min(c));
    let (h, l) = if rng.chance(0.15) { (top, bot) } else { (top * (1.0 + rng.unit() * 0.01), bot * (1.0 - rng.unit() * 0.01)) };
    let v = match regime {
        // sessions of 300 heavy bars (×10^4 volume) and 300 light ones
        "heavy-light" => 100.0 * (0.5 + rng.unit()) * if (i / 300) % 2 == 0 { 1e4 } else { 1.0 },
        _ => {
            if rng.chance(0.05) {
                0.0
            } else {
                100.0 * (0.5 + rng.unit())
            }
        }
    };
    B { o, h, l, c, v }
}

/// The stream is regenerated from (seed, regime, scale, len) = extra[0..4]; ops stay empty.  Judged at every step
/// with N−1 <= t <= N+2·period+2 for every round count N, at 400 evenly spaced steps and at the last step.
fn check_long(case: &Case) -> Option<Failure> {
    let seed = case.extra[0] as u64;
    let regime = LONG_REGIMES[case.extra[1] as usize % LONG_REGIMES.len()];
    let scale = case.extra[2];
    let len = case.extra[3] as usize;
    let mut inst = match crate::ind::Ind::create(&case.ind, &case.ps, &case.ms) {
        Some(Ok(i)) => i,
        _ => return fail(case, "ctor", format!("constructor failed for {:?}", case.ps)),
    };
    let bars = !inst.has_next();
    let mut rng = Rng::new(seed);
    let mut r = Ref::new(&case.ind, &case.ps);
    r.bounded = true;
    let span = 2 * case.ps.iter().copied().max().unwrap_or(1) + 2;
    let rounds = round_counts(len);
    let mut ri = 0usize; // first round count whose dense window has not ended yet
    let sample_every = (len / 400).max(1);
    let mut prev = B { o: 30.0 * scale, h: 30.0 * scale, l: 30.0 * scale, c: 30.0 * scale, v: 0.0 };
    for i in 0..len {
        let b = long_bar(&mut rng, regime, i, scale, &prev);
        prev = b;
        let t = i + 1;
        while ri < rounds.len() && rounds[ri] + span < t {
            ri += 1;
        }
        let dense = ri < rounds.len() && t + 1 >= rounds[ri];
        let judge = dense || t % sample_every == 0 || t == len;
        let (out, judged) = if bars { (inst.next_bar(&b), r.step_opt(None, Some(&b), judge)) } else { (inst.next(b.c), r.step_opt(Some(b.c), None, judge)) };
        if !judge {
            continue;
        }
        for (j, (o, jd)) in out.iter().zip(judged.iter()).enumerate() {
            if let Some(jd) = jd {
                if !(jd.c <= 1e6) {
                    continue;
                }
                let tol = tau(t) * jd.c * jd.scale;
                let d = absdiff(*o, jd.refv);
                if !(d <= tol) {
                    return fail(case, &format!("formula-out{}", j), format!("long run ({} regime, scale {:e}, seed {}), update t={}: output #{} = {:e}, documented formula from scratch on the last period+1 inputs = {:e}, |diff| {:e} > τ·c·scale = {:e} (c = {:e})", regime, scale, seed, t, j, o, jd.refv.to_f64(), d, tol, jd.c));
                }
            }
        }
    }
    None
}

// ---------------------------------------------------------------------------------------------------
// near-ties: consecutive prices one or two ulps apart are MOVES (only bit-equal prices are ties)

pub fn ulps(x: f64, k: i64) -> f64 {
    // x finite, positive and far from 0 / overflow
    f64::from_bits((x.to_bits() as i64 + k) as u64)
}
/// x with its three lowest significand bits cleared: 3·x, 2·x and (x+x+x)/3 are then exact, and so are the
/// neighbours 4 and 8 ulps away — typical prices of one-price bars on this grid are exact in every summation order
pub fn grid(x: f64) -> f64 {
    f64::from_bits(x.to_bits() & !7u64)
}
/// 0.3 is here because 0.1 + 0.2 == next_up(0.3)
pub const NEAR_LEVELS: &[f64] = &[1e-300, 1e-9, 0.3, 1.0, 100.0, 12345.678, 1e6, 1e12];

/// the near-tie alphabet of an indicator at a level: price / one-price bar / bar with that close
fn near_symbol(ind: &str, level: f64, j: usize, pos: usize) -> Op {
    let tp_compare = ind == "MoneyFlowIndex" || ind == "CommodityChannelIndex";
    let vol = [10.0, 0.0, 5.0, 7.5][(j + pos) % 4];
    if tp_compare {
        // typical-price comparers: one-price bars 4 and 8 ulps apart on the exact grid
        let g = grid(level);
        let x = [g, ulps(g, 4), ulps(g, -4), ulps(g, 8), grid(g * 1.25)][j];
        Op::Bar(B { o: x, h: x, l: x, c: x, v: vol })
    } else {
        let x = [level, ulps(level, 1), ulps(level, -1), ulps(level, 2), level * 1.25][j];
        if crate::ind::has_next_name(ind) {
            Op::Next(x)
        } else {
            // close comparers (OBV): a valid bar whose close is the near-tie price
            Op::Bar(B { o: x, h: level * 1.5, l: level * 0.5, c: x, v: vol })
        }
    }
}

/// sampled near-tie stream: 60% moves of ±1/±2 ulps (±4/±8 on the exact grid for typical-price comparers),
/// 15% bit-equal repeats, 25% genuine moves of up to 1%
fn near_tie_case(r: &mut Runner, ind: &str, level: f64, maxp: usize, maxlen: usize) -> Case {
    let np = crate::ind::arity(ind).unwrap().0;
    let ps: Vec<usize> = (0..np).map(|_| gen::period(&mut r.rng, maxp)).collect();
    let tp_compare = ind == "MoneyFlowIndex" || ind == "CommodityChannelIndex";
    let one_price = tp_compare && r.rng.chance(0.7);
    let unit = if tp_compare { 4 } else { 1 };
    let scalars = crate::ind::has_next_name(ind) && !(matches!(ind, "FastStochastic" | "SlowStochastic") && r.rng.chance(0.3));
    let len = r.rng.range(2, maxlen);
    let mut c = Case::new("C03", "near-ties-sampled", ind, &ps, &[]);
    let mut x = if tp_compare { grid(level) } else { level };
    let mut prev_c = x;
    for _ in 0..len {
        let u = r.rng.unit();
        if u < 0.6 {
            x = ulps(x, unit * *r.rng.pick(&[-2i64, -1, 1, 2]));
        } else if u < 0.75 {
            // bit-equal repeat
        } else {
            x = (x * (1.0 + (r.rng.unit() - 0.5) * 0.02)).max(level * 0.5).min(level * 2.0);
            if tp_compare {
                x = grid(x);
            }
        }
        let v = match r.rng.below(6) {
            0 => 0.0,
            1 => 1.0,
            2 => 1e4 * r.rng.unit(),
            _ => 1000.0 * r.rng.unit(),
        };
        if scalars {
            c.ops.push(Op::Next(x));
        } else if one_price {
            c.ops.push(Op::Bar(B { o: x, h: x, l: x, c: x, v }));
        } else {
            // valid bar: high / low a few grid units (or a genuine spread) away from open and close
            let (top, bot) = (x.max(prev_c), x.min(prev_c));
            let (h, l) = if r.rng.chance(0.5) { (ulps(top, unit * r.rng.below(3) as i64), ulps(bot, -unit * r.rng.below(3) as i64)) } else { (top * 1.001, bot * 0.999) };
            c.ops.push(Op::Bar(B { o: prev_c, h, l, c: x, v }));
        }
        prev_c = x;
    }
    c
}

/// bars in which close != (high+low)/2, volumes incl. 0, equal neighbours
fn osc_bars(r: &mut Runner, len: usize, scale: f64) -> Vec<B> {
    let regime = *r.rng.pick(gen::REGIMES);
    let xs = gen::stream(&mut r.rng, regime, len, true, scale);
    gen::valid_bars(&mut r.rng, &xs)
}

pub fn gen_case(r: &mut Runner, prop: &str, ind: &str, maxp: usize, maxlen: usize) -> Case {
    let np = crate::ind::arity(ind).unwrap().0;
    let ps: Vec<usize> = (0..np).map(|_| gen::period(&mut r.rng, maxp)).collect();
    let len = r.rng.range(1, maxlen);
    let scale = *r.rng.pick(&[1e-17, 1e-9, 1e-2, 1.0, 100.0, 1e4, 1e6, 8.900295434028806e-308, 1e-310]);
    let bars_only = !crate::ind::has_next_name(ind);
    let use_bars = bars_only || ((ind == "FastStochastic" || ind == "SlowStochastic") && r.rng.chance(0.5));
    let mut c = Case::new(prop, if use_bars { "bars" } else { "scalars" }, ind, &ps, &[]);
    if use_bars {
        c.ops = osc_bars(r, len, scale).into_iter().map(Op::Bar).collect();
    } else {
        let regime = *r.rng.pick(gen::REGIMES);
        c.ops = gen::stream(&mut r.rng, regime, len, true, scale).into_iter().map(Op::Next).collect();
    }
    c
}

pub fn generate(r: &mut Runner) {
    // small scope: periods 1..=5, all sequences up to depth d over a small alphabet of positive
    // prices with equal neighbours; bars built from (close, spread, volume) triples incl. zero volume
    let depth = if r.tier == Tier::Quick { 5 } else { 7 };
    let a: &[f64] = &[1.0, 2.0, 2.5, 4.0];
    r.log_every = 61;
    let bar_alpha: Vec<B> = vec![
        B { o: 1.0, h: 2.0, l: 1.0, c: 1.5, v: 10.0 },
        B { o: 1.5, h: 3.0, l: 1.0, c: 1.0, v: 0.0 },
        B { o: 2.0, h: 2.0, l: 2.0, c: 2.0, v: 5.0 },
        B { o: 1.0, h: 4.0, l: 0.5, c: 3.5, v: 7.0 },
    ];
    for ind in INDS {
        let np = crate::ind::arity(ind).unwrap().0;
        let bars_only = !crate::ind::has_next_name(ind);
        let psets: Vec<Vec<usize>> = match np {
            0 => vec![vec![]],
            1 => (1..=5).map(|p| vec![p]).collect(),
            2 => vec![vec![1, 1], vec![2, 3], vec![3, 2], vec![5, 1]],
            _ => vec![vec![1, 2, 1], vec![2, 3, 2], vec![3, 5, 4]],
        };
        for ps in psets {
            for code in 0..a.len().pow(depth as u32) {
                let mut c = Case::new("C03", "exhaustive", ind, &ps, &[]);
                let mut k = code;
                for _ in 0..depth {
                    let j = k % a.len();
                    k /= a.len();
                    c.ops.push(if bars_only { Op::Bar(bar_alpha[j]) } else { Op::Next(a[j]) });
                }
                r.run(c, true);
            }
        }
    }
    // tie stage (bar-only indicators): DIFFERENT bars with the SAME typical price 7/3 (sum of prices not a
    // multiple of 3, so a reformulated typical price rounds differently), mixed with bars at 2 and 3
    let tie_alpha: Vec<B> = vec![
        B { o: 2.0, h: 3.0, l: 2.0, c: 2.0, v: 10.0 },
        B { o: 2.0, h: 4.0, l: 1.0, c: 2.0, v: 7.0 },
        B { o: 2.0, h: 3.0, l: 1.0, c: 2.0, v: 5.0 },
        B { o: 3.0, h: 4.0, l: 2.0, c: 3.0, v: 3.0 },
    ];
    for ind in INDS {
        if crate::ind::has_next_name(ind) {
            continue;
        }
        let np = crate::ind::arity(ind).unwrap().0;
        let psets: Vec<Vec<usize>> = match np {
            0 => vec![vec![]],
            1 => (1..=4).map(|p| vec![p]).collect(),
            _ => continue,
        };
        for ps in psets {
            for code in 0..tie_alpha.len().pow(depth as u32) {
                let mut c = Case::new("C03", "exhaustive-tp-ties", ind, &ps, &[]);
                let mut k = code;
                for _ in 0..depth {
                    c.ops.push(Op::Bar(tie_alpha[k % tie_alpha.len()]));
                    k /= tie_alpha.len();
                }
                r.run(c, true);
            }
        }
    }
    let cases = if r.tier == Tier::Quick { 450 } else { 18000 };
    r.log_every = if r.tier == Tier::Quick { 5 } else { 151 };
    let maxlen = if r.tier == Tier::Quick { 400 } else { 3000 };
    for i in 0..cases {
        let ind = INDS[i % INDS.len()];
        let mut c = gen_case(r, "C03", ind, 512, maxlen);
        if i % 5 == 2 && c.ops.len() > 3 {
            let at = r.rng.range(1, c.ops.len() - 1);
            c.ops.insert(at, Op::Reset);
            c.kind = format!("{}-with-reset", c.kind);
        }
        let maxp = c.ps.iter().copied().max().unwrap_or(1);
        let nt = c.ops.len() > maxp + 1;
        r.run(c, nt);
    }
    // near-tie stage, small scope: every sequence of the stated depth over {L, L+1ulp, L−1ulp, L+2ulp, 1.25·L}
    // (close comparers; for the typical-price comparers MFI and CCI one-price bars at {G, G±4ulp, G+8ulp, 1.25·G}
    // on the grid G of prices whose typical price is exact), volumes {10, 0, 5, 7.5} by position, at 8 magnitudes
    let ndepth = if r.tier == Tier::Quick { 4 } else { 6 };
    r.log_every = if r.tier == Tier::Quick { 97 } else { 9973 };
    for ind in INDS {
        let np = crate::ind::arity(ind).unwrap().0;
        let psets: Vec<Vec<usize>> = match np {
            0 => vec![vec![]],
            1 => (1..=3).map(|p| vec![p]).collect(),
            2 => vec![vec![1, 1], vec![2, 3]],
            _ => vec![vec![1, 2, 1], vec![2, 3, 2]],
        };
        for ps in psets {
            for level in NEAR_LEVELS {
                for code in 0..5usize.pow(ndepth as u32) {
                    let mut c = Case::new("C03", "near-ties-exhaustive", ind, &ps, &[]);
                    let mut k = code;
                    for pos in 0..ndepth {
                        c.ops.push(near_symbol(ind, *level, k % 5, pos));
                        k /= 5;
                    }
                    r.run(c, true);
                }
            }
        }
    }
    // near-tie stage, sampled: longer streams, periods to 64
    r.log_every = if r.tier == Tier::Quick { 5 } else { 151 };
    let reps = if r.tier == Tier::Quick { 4 } else { 120 };
    for rep in 0..reps {
        for ind in INDS {
            for level in NEAR_LEVELS {
                let c = near_tie_case(r, ind, *level, if rep % 2 == 0 { 4 } else { 64 }, if r.tier == Tier::Quick { 160 } else { 1200 });
                let maxp = c.ps.iter().copied().max().unwrap_or(1);
                let nt = c.ops.len() > maxp + 1;
                r.run(c, nt);
            }
        }
    }
    // long runs on one instance: 2^20 (quick) / 2^24 (thorough) updates plus the last dense window
    r.log_every = u64::MAX; // too long for the op log; the model tie of these indicators is exercised by the stages above
    let nmax = if r.tier == Tier::Quick { 1usize << 20 } else { 1usize << 24 };
    let lreps = if r.tier == Tier::Quick { 1 } else { 2 };
    for rep in 0..lreps {
        for (k, ind) in INDS.iter().enumerate() {
            let np = crate::ind::arity(ind).unwrap().0;
            let ps: Vec<usize> = (0..np).map(|j| if j == 0 { *r.rng.pick(&[1usize, 2, 3, 5, 9, 14, 20, 32]) } else { r.rng.range(1, 12) }).collect();
            let g = (k + rep + r.rng.below(LONG_REGIMES.len())) % LONG_REGIMES.len();
            let scale = *r.rng.pick(&[1e-2, 1.0, 50.0, 1e3]);
            let span = 2 * ps.iter().copied().max().unwrap_or(1) + 2;
            let len = nmax + span + 37;
            let mut c = Case::new("C03", &format!("long-{}", LONG_REGIMES[g]), ind, &ps, &[]);
            c.extra = vec![(r.rng.u64() % (1 << 50)) as f64, g as f64, scale, len as f64];
            r.steps += len as u64;
            r.run(c, true);
        }
    }
}

pub const RULE: &str = "small scope: all sequences of the stated depth over 4 positive prices with equal neighbours (scalar indicators) or over 4 bars incl. a zero-volume bar, a one-price bar and bars with close != (high+low)/2 (bar-only indicators), periods 1..=5; tie stage: all sequences over 4 bars of which two DIFFERENT ones have the same typical price 7/3 (bar-only indicators, periods 1..=4); sampled: periods to 512, positive price streams in 9 regimes, valid bars with independent open/high/low/close and volumes incl. 0. Near-tie stage (only bit-equal prices are ties; prices 1 or 2 ulps apart are moves), all 9 indicators, at the 8 magnitudes {1e-300, 1e-9, 0.3 (0.1+0.2 is its upper neighbour), 1, 100, 12345.678, 1e6, 1e12}: all sequences of depth 4 (quick) / 6 (thorough) over {L, L+1ulp, L-1ulp, L+2ulp, 1.25L} fed as prices (scalar indicators) or as the close of valid bars with volumes {10, 0, 5, 7.5} (OBV), and - for the typical-price comparers MFI and CCI - over one-price bars at {G, G+4ulp, G-4ulp, G+8ulp, 1.25G} on the grid G of prices with three cleared low bits, whose typical price is exact under every summation order; periods 1..=3; plus sampled near-tie streams to 160 (quick) / 1200 (thorough) inputs, periods to 64: 60% moves of +-1/+-2 ulps (+-4/+-8 on the grid), 15% bit-equal repeats, 25% genuine moves up to 1%, volumes incl. 0, one-price and ordinary valid bars. Long-run stage (state that shows only after very many updates on ONE instance): each of the 9 indicators is fed 2^20 (quick) / 2^24 (thorough, twice) + 2*period + 39 consecutive inputs without reset, regenerated from the seed stored in the case (regimes: multiplicative walk with 10% equal neighbours and 5% zero volume; tick-quoted walk on 16 levels; walk with sessions of 300 heavy (x10^4 volume) / 300 light bars; band [m, 1000m], m in {1e-2, 1, 50, 1e3}; first period from {1,2,3,5,9,14,20,32}); judged at EVERY step t with N-1 <= t <= N + 2*period + 2 for every round count N (2^10, 2^11, ..., 10^k, 5*10^k up to the length), at 400 evenly spaced steps and at the last step, the reference keeping the last period+2 inputs and its exponential averages. Each output is compared with the documented formula evaluated from scratch in double-double on the whole history (long runs: on the lookback window), tolerance tau(t)*c*scale, judged only when c <= 1e6 and the reference denominator is non-zero (MFI additionally skips n steps after a typical-price comparison whose exact and f64 signs differ, or whose operands differ by less than 1e-13 relative unless both typical prices are exact under all three f64 summation orders). Non-trivial = longer than the largest period + 1 (steady state reached).";
