//! C06 — serialize/deserialize at any point of a stream preserves all future outputs.
use super::util::*;
use crate::case::{Case, Failure, Op};
use crate::ind::{self, Ind, B};
use crate::rec::Rec;
use crate::rng::Rng;
use crate::runner::{Runner, Tier};

/// per-step cost O(period): big windows are only driven through warm-up / at moderate sizes
fn slow(name: &str) -> bool {
    matches!(name, "MeanAbsoluteDeviation" | "CommodityChannelIndex" | "EfficiencyRatio")
}

/// kinds long-continuation and large-window: the stream is regenerated from a seed (it is too long to store),
/// extra = [seed, total number of inputs, tick value, tick position 1, tick position 2, checkpoint 1..4]
/// (a position of -1 = unused; a checkpoint at k is taken after k inputs, 0 = on the fresh instance).
/// Ordinary prices 100 ± 10 with the (huge) tick value at the tick positions. Every restored copy runs alongside
/// the original to the end of the stream. Driven directly: nothing of this is logged for the model replay.
fn check_seeded(case: &Case) -> Option<Failure> {
    let e = &case.extra;
    let seed = e[0] as u64;
    let total = e[1] as usize;
    let tick = e[2];
    let ticks: Vec<usize> = e[3..5].iter().filter(|x| **x >= 0.0).map(|x| *x as usize).collect();
    let cps: Vec<usize> = e[5..9].iter().filter(|x| **x >= 0.0).map(|x| *x as usize).collect();
    let mut rng = Rng::new(seed);
    let mut a = Ind::create(&case.ind, &case.ps, &case.ms).unwrap().unwrap();
    let bars = !a.has_next();
    let mut copies: Vec<(Ind, usize)> = vec![];
    for t in 0..=total {
        if cps.contains(&t) {
            let bytes = a.ser();
            let c = match Ind::de(&case.ind, &bytes) {
                Some(c) => c,
                None => return fail(case, "decode-failed", format!("deserialize failed at the checkpoint after {} inputs ({} bytes)", t, bytes.len())),
            };
            if c.display() != a.display() || c.period() != a.period() || c.multiplier().map(|x| x.to_bits()) != a.multiplier().map(|x| x.to_bits()) {
                return fail(case, "params-changed", format!("checkpoint after {} inputs: parameters {:?}/{:?}/{} became {:?}/{:?}/{}", t, a.period(), a.multiplier(), a.display(), c.period(), c.multiplier(), c.display()));
            }
            if c.ser() != bytes {
                return fail(case, "roundtrip-unstable", format!("checkpoint after {} inputs: second round-trip changes the serialized form", t));
            }
            copies.push((c, t));
        }
        if t == total {
            break;
        }
        let x = if ticks.contains(&t) { tick } else { 100.0 + (rng.unit() - 0.5) * 20.0 };
        let b = B { o: x, h: x + 1.0, l: x - 0.4, c: x + 0.3, v: 10.0 + (t % 5) as f64 };
        let want = if bars { a.next_bar(&b) } else { a.next(x) };
        for (c, at) in copies.iter_mut() {
            let got = if bars { c.next_bar(&b) } else { c.next(x) };
            if !all_close(&got, &want, 1e-12) {
                return fail(case, "restored-differs", format!("input #{} ({}; {:e} ticks at {:?}): copy restored after {} inputs gives {:?}, original gives {:?}", t, x, tick, ticks, at, got, want));
            }
        }
    }
    None
}

pub fn check(case: &Case, rec: &mut Rec) -> Option<Failure> {
    if case.kind == "dataitem" {
        let e = &case.extra;
        let item = ta::DataItem::builder().open(e[0]).high(e[1]).low(e[2]).close(e[3]).volume(e[4]).build();
        if let Ok(item) = item {
            let bytes = bincode::serialize(&item).unwrap();
            let back: Result<ta::DataItem, _> = bincode::deserialize(&bytes);
            match back {
                Ok(b) if b == item => {}
                other => return fail(case, "dataitem-roundtrip", format!("DataItem {:?} round-trips to {:?}", item, other.ok())),
            }
        }
        return None;
    }
    if case.kind == "long-continuation" || case.kind == "large-window" {
        return check_seeded(case);
    }
    let a = match mk(case, rec) {
        Ok(i) => i,
        Err(f) => return Some(f),
    };
    // every Mark is a checkpoint: serialize, deserialize, keep the copy running alongside
    let mut copies: Vec<(usize, usize)> = vec![]; // (id, op index of checkpoint)
    for (i, op) in case.ops.iter().enumerate() {
        if *op == Op::Mark {
            let (d0, p0, m0) = (rec.display(a), rec.period(a), rec.multiplier(a));
            let bytes = rec.state(a);
            let c = rec.serde(a);
            if rec.get(c).is_none() {
                return fail(case, "decode-failed", format!("deserialize failed at checkpoint op {}", i));
            }
            let (d1, p1, m1) = (rec.display(c), rec.period(c), rec.multiplier(c));
            if d0 != d1 || p0 != p1 || m0.map(|x| x.to_bits()) != m1.map(|x| x.to_bits()) {
                return fail(case, "params-changed", format!("checkpoint op {}: parameters {:?}/{:?}/{} became {:?}/{:?}/{}", i, p0, m0, d0, p1, m1, d1));
            }
            // repeated round-trips are stable
            let c2 = rec.serde(c);
            if rec.get(c2).is_none() || rec.get(c2).unwrap().ser() != bytes && !bytes.windows(8).any(|w| f64::from_le_bytes([w[0], w[1], w[2], w[3], w[4], w[5], w[6], w[7]]).is_nan()) {
                return fail(case, "roundtrip-unstable", format!("checkpoint op {}: second round-trip changes the serialized form", i));
            }
            rec.drop_(c2);
            if copies.len() < 6 {
                copies.push((c, i));
            } else {
                rec.drop_(c);
            }
            continue;
        }
        let want = match feed(rec, a, op) {
            Some(Some(o)) => o,
            Some(None) => return fail(case, "panic", format!("panic at op {}", i)),
            None => continue,
        };
        for (c, at) in &copies {
            let got = match feed(rec, *c, op) {
                Some(Some(o)) => o,
                _ => return fail(case, "panic", format!("restored copy panicked at op {}", i)),
            };
            if !all_close(&got, &want, 1e-12) {
                return fail(case, "restored-differs", format!("op {} ({:?}): copy restored at op {} gives {:?}, original gives {:?}", i, op, at, got, want));
            }
        }
    }
    None
}

pub fn generate(r: &mut Runner) {
    // exhaustive over checkpoint positions for short histories: a checkpoint after EVERY prefix
    let cases = if r.tier == Tier::Quick { 660 } else { 13200 };
    r.log_every = if r.tier == Tier::Quick { 11 } else { 151 };
    for i in 0..cases {
        let name = ind::NAMES[i % ind::NAMES.len()];
        let small = r.rng.chance(0.5);
        let (ps, ms) = crate::diff::params_for(&mut r.rng, name, if small { 4 } else { 64 });
        let mx = ps.iter().copied().max().unwrap_or(1);
        let scale = *r.rng.pick(&[1.0, 100.0, 1e6]);
        let mut c = Case::new("C06", if small { "every-prefix" } else { "random-position" }, name, &ps, &ms);
        if small {
            let hl = 2 * mx + 3;
            let wp = if r.rng.chance(0.25) { 0.2 } else { 0.0 };
            let h = super::c04::history(r, name, hl, wp, scale);
            c.ops.push(Op::Mark); // fresh
            for op in h {
                c.ops.push(op);
                c.ops.push(Op::Mark);
            }
            c.ops.push(Op::Reset);
            c.ops.push(Op::Mark); // just reset
        } else {
            let hl = r.rng.range(0, 400);
            let wp = if r.rng.chance(0.15) { 0.02 } else { 0.0 };
            c.ops = super::c04::history(r, name, hl, wp, scale);
            c.ops.push(Op::Mark);
        }
        let cl = mx + 2 + r.rng.below(6);
        let cont = super::c04::history(r, name, cl, 0.0, scale);
        c.ops.extend(cont.into_iter().filter(|o| *o != Op::Reset));
        r.run(c, true);
    }
    // boundary periods for the allocation-free constructors (a payload that narrows `usize` is only wrong there)
    for name in ind::NAMES {
        let (np, _) = ind::arity(name).unwrap();
        if np == 0 || !super::c11::alloc_free(name) {
            continue;
        }
        let big: [usize; 6] = [(1 << 32) - 1, 1 << 32, (1 << 32) + 9, (1 << 53) + 1, usize::MAX - 1, usize::MAX];
        for pos in 0..np {
            for b in big {
                let (mut ps, ms) = crate::diff::params_for(&mut r.rng, name, 16);
                ps[pos] = b;
                let mut c = Case::new("C06", "boundary-period", name, &ps, &ms);
                c.ops.push(Op::Mark);
                let h = super::c04::history(r, name, 5, 0.0, 100.0);
                c.ops.extend(h.into_iter().filter(|o| *o != Op::Reset));
                c.ops.push(Op::Mark);
                let cont = super::c04::history(r, name, 6, 0.0, 100.0);
                c.ops.extend(cont.into_iter().filter(|o| *o != Op::Reset));
                r.run(c, true);
            }
        }
    }
    // long continuations after the checkpoint on an ill-conditioned state: state that is not carried by the bytes may
    // only be consulted every 2^k calls, and what it does is only visible when the running sums carry a rounding
    // residue (a 1e17 / 1e18 tick somewhere in the history and/or early in the continuation)
    r.log_every = u64::MAX;
    let seedf = |r: &mut Runner| (r.rng.u64() % (1 << 50)) as f64;
    let rounds = if r.tier == Tier::Quick { 1 } else { 4 };
    for _ in 0..rounds {
        for name in ind::NAMES {
            let mut conts: Vec<usize> = vec![9000 + r.rng.below(2000), 9000 + r.rng.below(2000), 70_000 + r.rng.below(5000)];
            if r.tier == Tier::Thorough {
                conts.push((1 << 20) + r.rng.range(1, 70_000));
            }
            for (k, cl) in conts.into_iter().enumerate() {
                let (ps, ms) = crate::diff::params_for(&mut r.rng, name, if k == 0 { 4 } else { 64 });
                let mx = ps.iter().copied().max().unwrap_or(1);
                let cl = if slow(name) { cl.min(200_000) } else { cl };
                let hl = r.rng.range(1, 400);
                let mut c = Case::new("C06", "long-continuation", name, &ps, &ms);
                let t1 = r.rng.below(hl) as f64;
                let t2 = if r.rng.chance(0.5) { (hl + r.rng.below(cl / 3)) as f64 } else { -1.0 };
                // checkpoints: after the history, a random number of inputs later, sometimes on the fresh instance
                let cp2 = (hl + r.rng.range(1, 5000)) as f64;
                let cp3 = if r.rng.chance(0.3) { 0.0 } else { -1.0 };
                c.extra = vec![seedf(r), (hl + cl.max(mx + 2)) as f64, *r.rng.pick(&[1e17, 1e18]), t1, t2, hl as f64, cp2, cp3, -1.0];
                r.steps += (hl + cl) as u64;
                r.run(c, true);
            }
        }
    }
    // big windows: periods beyond 2^12 / 2^13 / 2^16 values (sizes at which a length limit, a chunked or a compressed
    // encoding of the window would start to matter), checkpoints fresh / in warm-up / on the full window
    let big: &[usize] = if r.tier == Tier::Quick { &[4097, 5000, 10_000, 65_536] } else { &[4097, 5000, 10_000, 65_536, 65_537, 200_000] };
    for name in ind::NAMES {
        let (np, _) = ind::arity(name).unwrap();
        if np == 0 {
            continue;
        }
        for &p in big {
            let (mut ps, ms) = crate::diff::params_for(&mut r.rng, name, 16);
            for q in ps.iter_mut() {
                *q = p;
            }
            let mut c = Case::new("C06", "large-window", name, &ps, &ms);
            let full = !(slow(name) && p > if r.tier == Tier::Quick { 5000 } else { 10_000 });
            let (total, cps) = if full { (2 * p + 5 + r.rng.below(10), [0.0, 3.0, (p / 2) as f64, (p + 3) as f64]) } else { (120, [0.0, 3.0, 40.0, -1.0]) };
            let t1 = if r.rng.chance(0.5) { r.rng.below(total) as f64 } else { -1.0 };
            c.extra = vec![seedf(r), total as f64, 1e17, t1, -1.0, cps[0], cps[1], cps[2], cps[3]];
            r.steps += total as u64;
            r.run(c, true);
        }
    }
    let dcases = if r.tier == Tier::Quick { 200 } else { 5000 };
    for _ in 0..dcases {
        let mut c = Case::new("C06", "dataitem", "DataItem", &[], &[]);
        let b = if r.rng.chance(0.7) {
            let x = 1.0 + r.rng.unit() * 100.0;
            crate::gen::valid_bars(&mut r.rng, &[x, x * 1.01])[1]
        } else {
            crate::gen::free_bar(&mut r.rng, 100.0)
        };
        c.extra = vec![b.o, b.h, b.l, b.c, b.v];
        r.run(c, true);
    }
}

pub const RULE: &str = "every-prefix: for periods 1..=4 a checkpoint (bincode serialize + deserialize) is taken on the fresh instance, after EVERY input of a history of 2n+3 inputs, and right after a reset; every restored copy is then fed all remaining inputs plus a continuation of >= n+2 inputs alongside the original (1e-12 relative, NaN = NaN), parameters and Display compared, and each copy is round-tripped a second time (bytes must be stable). random-position: periods to 64, histories to 400 inputs (2% non-finite in one case of seven), one checkpoint. boundary-period: periods 2^32-1, 2^32, 2^32+9, 2^53+1, usize::MAX-1, usize::MAX in each position for the allocation-free constructors, checkpoints on the fresh instance and after 5 inputs. long-continuation (stream regenerated from a seed in extra): all 22 indicators, periods to 4 / to 64, a history of 1..400 ordinary prices containing one 1e17 or 1e18 tick at a random position (so that it has usually left the window: the running sums carry a rounding residue), checkpoints after the history, 1..5000 inputs later and (30%) on the fresh instance, then a continuation of 9000..11000 (twice) and 70000..75000 inputs (thorough: also 2^20+k; capped at 200000 for the O(period)-per-step indicators), half of them with a second tick in the first third; every restored copy runs alongside the original to the end (1e-12 relative). large-window (seeded too): every indicator with a period, all periods set to 4097, 5000, 10000, 65536 (thorough: also 65537, 200000): checkpoints on the fresh instance, after 3 inputs, after period/2 and after period+3 inputs (full window), stream of 2·period+5.. inputs, half of them with one 1e17 tick (for MeanAbsoluteDeviation / CommodityChannelIndex / EfficiencyRatio beyond period 5000 (thorough 10000): checkpoints fresh, after 3 and after 40 inputs, 120 inputs); decode must succeed, parameters / Display equal, second round-trip byte-stable, outputs 1e-12 relative. dataitem: built DataItems round-trip to an equal value. All cases non-trivial.";
