//! C06 — serialize/deserialize at any point of a stream preserves all future outputs.
use super::util::*;
use crate::case::{Case, Failure, Op};
use crate::ind;
use crate::rec::Rec;
use crate::runner::{Runner, Tier};

pub fn check(case: &Case, rec: &mut Rec) -> Option<Failure> {
    if case.kind == "dataitem" {
        let e = &case.extra;
        let item = ta::DataItem::builder().open(e[0]).high(e[1]).low(e[2]).close(e[3]).volume(e[4]).build();
        if let Ok(item) = item {
            let bytes = bincode::serialize(&item).unwrap();
            let back: Result<ta::DataItem, _> = bincode::deserialize(&bytes);
            match back {
                Ok(b) if b == item => {}
                other => return fail(case, "dataitem-roundtrip", format!("DataItem {:?} round-trips to {:?}", item, other.ok())),
            }
        }
        return None;
    }
    let a = match mk(case, rec) {
        Ok(i) => i,
        Err(f) => return Some(f),
    };
    // every Mark is a checkpoint: serialize, deserialize, keep the copy running alongside
    let mut copies: Vec<(usize, usize)> = vec![]; // (id, op index of checkpoint)
    for (i, op) in case.ops.iter().enumerate() {
        if *op == Op::Mark {
            let (d0, p0, m0) = (rec.display(a), rec.period(a), rec.multiplier(a));
            let bytes = rec.state(a);
            let c = rec.serde(a);
            if rec.get(c).is_none() {
                return fail(case, "decode-failed", format!("deserialize failed at checkpoint op {}", i));
            }
            let (d1, p1, m1) = (rec.display(c), rec.period(c), rec.multiplier(c));
            if d0 != d1 || p0 != p1 || m0.map(|x| x.to_bits()) != m1.map(|x| x.to_bits()) {
                return fail(case, "params-changed", format!("checkpoint op {}: parameters {:?}/{:?}/{} became {:?}/{:?}/{}", i, p0, m0, d0, p1, m1, d1));
            }
            // repeated round-trips are stable
            let c2 = rec.serde(c);
            if rec.get(c2).is_none() || rec.get(c2).unwrap().ser() != bytes && !bytes.windows(8).any(|w| f64::from_le_bytes([w[0], w[1], w[2], w[3], w[4], w[5], w[6], w[7]]).is_nan()) {
                return fail(case, "roundtrip-unstable", format!("checkpoint op {}: second round-trip changes the serialized form", i));
            }
            rec.drop_(c2);
            if copies.len() < 6 {
                copies.push((c, i));
            } else {
                rec.drop_(c);
            }
            continue;
        }
        let want = match feed(rec, a, op) {
            Some(Some(o)) => o,
            Some(None) => return fail(case, "panic", format!("panic at op {}", i)),
            None => continue,
        };
        for (c, at) in &copies {
            let got = match feed(rec, *c, op) {
                Some(Some(o)) => o,
                _ => return fail(case, "panic", format!("restored copy panicked at op {}", i)),
            };
            if !all_close(&got, &want, 1e-12) {
                return fail(case, "restored-differs", format!("op {} ({:?}): copy restored at op {} gives {:?}, original gives {:?}", i, op, at, got, want));
            }
        }
    }
    None
}

pub fn generate(r: &mut Runner) {
    // exhaustive over checkpoint positions for short histories: a checkpoint after EVERY prefix
    let cases = if r.tier == Tier::Quick { 660 } else { 13200 };
    r.log_every = if r.tier == Tier::Quick { 11 } else { 151 };
    for i in 0..cases {
        let name = ind::NAMES[i % ind::NAMES.len()];
        let small = r.rng.chance(0.5);
        let (ps, ms) = crate::diff::params_for(&mut r.rng, name, if small { 4 } else { 64 });
        let mx = ps.iter().copied().max().unwrap_or(1);
        let scale = *r.rng.pick(&[1.0, 100.0, 1e6]);
        let mut c = Case::new("C06", if small { "every-prefix" } else { "random-position" }, name, &ps, &ms);
        if small {
            let hl = 2 * mx + 3;
            let wp = if r.rng.chance(0.25) { 0.2 } else { 0.0 };
            let h = super::c04::history(r, name, hl, wp, scale);
            c.ops.push(Op::Mark); // fresh
            for op in h {
                c.ops.push(op);
                c.ops.push(Op::Mark);
            }
            c.ops.push(Op::Reset);
            c.ops.push(Op::Mark); // just reset
        } else {
            let hl = r.rng.range(0, 400);
            let wp = if r.rng.chance(0.15) { 0.02 } else { 0.0 };
            c.ops = super::c04::history(r, name, hl, wp, scale);
            c.ops.push(Op::Mark);
        }
        let cl = mx + 2 + r.rng.below(6);
        let cont = super::c04::history(r, name, cl, 0.0, scale);
        c.ops.extend(cont.into_iter().filter(|o| *o != Op::Reset));
        r.run(c, true);
    }
    // boundary periods for the allocation-free constructors (a payload that narrows `usize` is only wrong there)
    for name in ind::NAMES {
        let (np, _) = ind::arity(name).unwrap();
        if np == 0 || !super::c11::alloc_free(name) {
            continue;
        }
        let big: [usize; 6] = [(1 << 32) - 1, 1 << 32, (1 << 32) + 9, (1 << 53) + 1, usize::MAX - 1, usize::MAX];
        for pos in 0..np {
            for b in big {
                let (mut ps, ms) = crate::diff::params_for(&mut r.rng, name, 16);
                ps[pos] = b;
                let mut c = Case::new("C06", "boundary-period", name, &ps, &ms);
                c.ops.push(Op::Mark);
                let h = super::c04::history(r, name, 5, 0.0, 100.0);
                c.ops.extend(h.into_iter().filter(|o| *o != Op::Reset));
                c.ops.push(Op::Mark);
                let cont = super::c04::history(r, name, 6, 0.0, 100.0);
                c.ops.extend(cont.into_iter().filter(|o| *o != Op::Reset));
                r.run(c, true);
            }
        }
    }
    let dcases = if r.tier == Tier::Quick { 200 } else { 5000 };
    for _ in 0..dcases {
        let mut c = Case::new("C06", "dataitem", "DataItem", &[], &[]);
        let b = if r.rng.chance(0.7) {
            let x = 1.0 + r.rng.unit() * 100.0;
            crate::gen::valid_bars(&mut r.rng, &[x, x * 1.01])[1]
        } else {
            crate::gen::free_bar(&mut r.rng, 100.0)
        };
        c.extra = vec![b.o, b.h, b.l, b.c, b.v];
        r.run(c, true);
    }
}

pub const RULE: &str = "every-prefix: for periods 1..=4 a checkpoint (bincode serialize + deserialize) is taken on the fresh instance, after EVERY input of a history of 2n+3 inputs, and right after a reset; every restored copy is then fed all remaining inputs plus a continuation of >= n+2 inputs alongside the original (1e-12 relative, NaN = NaN), parameters and Display compared, and each copy is round-tripped a second time (bytes must be stable). random-position: periods to 64, histories to 400 inputs (2% non-finite in one case of seven), one checkpoint. boundary-period: periods 2^32-1, 2^32, 2^32+9, 2^53+1, usize::MAX-1, usize::MAX in each position for the allocation-free constructors, checkpoints on the fresh instance and after 5 inputs. dataitem: built DataItems round-trip to an equal value. All cases non-trivial.";
