//! C07 — bounded oscillators stay inside their documented range.
use super::c03::Ref;
use super::util::*;
use crate::case::{Case, Failure, Op};
use crate::dd::tau;
use crate::rec::Rec;
use crate::runner::{Runner, Tier};

pub const INDS: &[&str] = &["RelativeStrengthIndex", "FastStochastic", "SlowStochastic", "MoneyFlowIndex", "EfficiencyRatio"];

pub fn check(case: &Case, rec: &mut Rec) -> Option<Failure> {
    let id = match mk(case, rec) {
        Ok(i) => i,
        Err(f) => return Some(f),
    };
    let mut r = Ref::new(&case.ind, &case.ps);
    let hi = if case.ind == "EfficiencyRatio" { 1.0 } else { 100.0 };
    let mut t = 0usize;
    for (i, op) in case.ops.iter().enumerate() {
        let (out, judged) = match op {
            Op::Next(x) => match rec.next(id, *x) {
                Some(o) => (o, r.step(Some(*x), None)),
                None => return fail(case, "panic", format!("panic at step {}", i)),
            },
            Op::Bar(b) => match rec.bar(id, b) {
                Some(o) => (o, r.step(None, Some(b))),
                None => return fail(case, "panic", format!("panic at step {}", i)),
            },
            Op::Reset => {
                if !rec.reset(id) {
                    return fail(case, "panic", format!("reset panicked at op {}", i));
                }
                r = Ref::new(&case.ind, &case.ps);
                t = 0;
                continue;
            }
            _ => continue,
        };
        t += 1;
        // the claim applies at steps whose reference denominator is non-zero
        let jd = match &judged[0] {
            Some(j) => j,
            None => continue,
        };
        let slack = if case.ind == "MoneyFlowIndex" {
            if !(jd.c <= 1000.0) {
                continue; // running totals are cancellation residue: degenerate window (C08)
            }
            (100.0 * tau(t) * jd.c).max(1e-9)
        } else if case.ind == "EfficiencyRatio" {
            1e-9
        } else {
            1e-9
        };
        let v = out[0];
        if !(v >= -slack && v <= hi + slack) {
            return fail(case, "out-of-range", format!("step {} (t={}): output {:e} outside [0, {}] (slack {:e}); reference value {:e}", i, t, v, hi, slack, jd.refv.to_f64()));
        }
    }
    None
}

pub fn generate(r: &mut Runner) {
    let cases = if r.tier == Tier::Quick { 600 } else { 20000 };
    r.log_every = if r.tier == Tier::Quick { 7 } else { 211 };
    let maxlen = if r.tier == Tier::Quick { 600 } else { 4000 };
    for i in 0..cases {
        let ind = INDS[i % INDS.len()];
        let mut c = super::c03::gen_case(r, "C07", ind, if i % 3 == 0 { 3 } else { 256 }, maxlen);
        c.kind = format!("range-{}", c.kind);
        if i % 4 == 1 && c.ops.len() > 3 {
            let at = r.rng.range(1, c.ops.len() - 1);
            c.ops.insert(at, Op::Reset);
            c.kind = format!("{}-with-reset", c.kind);
        }
        let maxp = c.ps.iter().copied().max().unwrap_or(1);
        let nt = c.ops.len() > maxp + 1;
        r.run(c, nt);
    }
    // long monotone runs and one-tick ranges (EMA of values equal to 100 can exceed 100 by an ulp)
    for i in 0..(if r.tier == Tier::Quick { 60 } else { 600 }) {
        let ind = INDS[i % INDS.len()];
        let np = crate::ind::arity(ind).unwrap().0;
        let ps: Vec<usize> = (0..np).map(|j| if i % 4 == 0 { 1 } else { 2 + (i + j) % 14 }).collect();
        let mut c = Case::new("C07", "monotone", ind, &ps, &[]);
        let up = i % 2 == 0;
        let tick = if i % 3 == 0 { 1e-9 } else { 0.37 };
        let mut x = 100.0f64;
        for k in 0..800 {
            x = if up { x + tick * (1.0 + (k % 3) as f64) } else { (x - tick * 0.1).max(1e-3) };
            if crate::ind::has_next_name(ind) {
                c.ops.push(Op::Next(x));
            } else {
                c.ops.push(Op::Bar(crate::ind::B { o: x, h: x + tick, l: x - tick * 0.5, c: x, v: 10.0 + (k % 7) as f64 }));
            }
        }
        r.run(c, true);
    }
}

pub const RULE: &str = "RSI, FastStochastic (scalars and valid bars), SlowStochastic, MoneyFlowIndex, EfficiencyRatio on positive price streams / valid bars in 9 regimes (trending, oscillating, gapping, flat, spikes, widely varying volume incl. 0), periods incl. 1 up to 256, plus 800-step strictly monotone runs with one-tick (1e-9) and coarse ranges; every step whose reference denominator (recomputed from scratch in double-double) is non-zero must lie in [0,100] ([0,1] for ER) with 1e-9 slack; MFI slack 100·tau(t)·c, judged when c <= 1000. Non-trivial = longer than period+1.";
