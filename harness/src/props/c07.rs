//! C07 — bounded oscillators stay inside their documented range.
use super::c03::Ref;
use super::util::*;
use crate::case::{Case, Failure, Op};
use crate::dd::tau;
use crate::rec::Rec;
use crate::runner::{Runner, Tier};

pub const INDS: &[&str] = &["RelativeStrengthIndex", "FastStochastic", "SlowStochastic", "MoneyFlowIndex", "EfficiencyRatio"];

pub fn check(case: &Case, rec: &mut Rec) -> Option<Failure> {
    let id = match mk(case, rec) {
        Ok(i) => i,
        Err(f) => return Some(f),
    };
    let mut r = Ref::new(&case.ind, &case.ps);
    let hi = if case.ind == "EfficiencyRatio" { 1.0 } else { 100.0 };
    let mut t = 0usize;
    for (i, op) in case.ops.iter().enumerate() {
        let (out, judged) = match op {
            Op::Next(x) => match rec.next(id, *x) {
                Some(o) => (o, r.step(Some(*x), None)),
                None => return fail(case, "panic", format!("panic at step {}", i)),
            },
            Op::Bar(b) => match rec.bar(id, b) {
                Some(o) => (o, r.step(None, Some(b))),
                None => return fail(case, "panic", format!("panic at step {}", i)),
            },
            Op::Reset => {
                if !rec.reset(id) {
                    return fail(case, "panic", format!("reset panicked at op {}", i));
                }
                r = Ref::new(&case.ind, &case.ps);
                t = 0;
                continue;
            }
            _ => continue,
        };
        t += 1;
        // the claim applies at steps whose reference denominator is non-zero
        let jd = match &judged[0] {
            Some(j) => j,
            None => continue,
        };
        let slack = if case.ind == "MoneyFlowIndex" {
            if !(jd.c <= 1000.0) {
                continue; // running totals are cancellation residue: degenerate window (C08)
            }
            (100.0 * tau(t) * jd.c).max(1e-9)
        } else if case.ind == "EfficiencyRatio" {
            1e-9
        } else {
            1e-9
        };
        let v = out[0];
        if !(v >= -slack && v <= hi + slack) {
            return fail(case, "out-of-range", format!("step {} (t={}): output {:e} outside [0, {}] (slack {:e}); reference value {:e}", i, t, v, hi, slack, jd.refv.to_f64()));
        }
    }
    None
}

pub fn generate(r: &mut Runner) {
    let cases = if r.tier == Tier::Quick { 600 } else { 20000 };
    r.log_every = if r.tier == Tier::Quick { 7 } else { 211 };
    let maxlen = if r.tier == Tier::Quick { 600 } else { 4000 };
    for i in 0..cases {
        let ind = INDS[i % INDS.len()];
        let mut c = super::c03::gen_case(r, "C07", ind, if i % 3 == 0 { 3 } else { 256 }, maxlen);
        c.kind = format!("range-{}", c.kind);
        if i % 4 == 1 && c.ops.len() > 3 {
            let at = r.rng.range(1, c.ops.len() - 1);
            c.ops.insert(at, Op::Reset);
            c.kind = format!("{}-with-reset", c.kind);
        }
        let maxp = c.ps.iter().copied().max().unwrap_or(1);
        let nt = c.ops.len() > maxp + 1;
        r.run(c, nt);
    }
    // long monotone runs and one-tick ranges (EMA of values equal to 100 can exceed 100 by an ulp)
    for i in 0..(if r.tier == Tier::Quick { 60 } else { 600 }) {
        let ind = INDS[i % INDS.len()];
        let np = crate::ind::arity(ind).unwrap().0;
        let ps: Vec<usize> = (0..np).map(|j| if i % 4 == 0 { 1 } else { 2 + (i + j) % 14 }).collect();
        let mut c = Case::new("C07", "monotone", ind, &ps, &[]);
        let up = i % 2 == 0;
        let tick = if i % 3 == 0 { 1e-9 } else { 0.37 };
        let mut x = 100.0f64;
        for k in 0..800 {
            x = if up { x + tick * (1.0 + (k % 3) as f64) } else { (x - tick * 0.1).max(1e-3) };
            if crate::ind::has_next_name(ind) {
                c.ops.push(Op::Next(x));
            } else {
                c.ops.push(Op::Bar(crate::ind::B { o: x, h: x + tick, l: x - tick * 0.5, c: x, v: 10.0 + (k % 7) as f64 }));
            }
        }
        r.run(c, true);
    }
    // sessions: a heavy session (large swings, volumes ×10^3..10^6) of at least period+1 inputs, reset(), a quiet
    // two-sided session of at least period+1 inputs — sometimes followed by a second reset and another heavy session.
    // Whatever reset() leaves behind (ring slots, running totals, counters) is large against the quiet session.
    let nsess = if r.tier == Tier::Quick { 150 } else { 3000 };
    for i in 0..nsess {
        let ind = INDS[i % INDS.len()];
        let np = crate::ind::arity(ind).unwrap().0;
        let p0 = match (i / INDS.len()) % 6 { 0 => 1, 1 => 2, 2 => 3, 3 => r.rng.range(4, 8), 4 => r.rng.range(9, 20), _ => r.rng.range(21, 64) };
        let ps: Vec<usize> = (0..np).map(|j| if j == 0 { p0 } else { r.rng.range(1, 6) }).collect();
        let bars = !crate::ind::has_next_name(ind) || (matches!(ind, "FastStochastic" | "SlowStochastic") && r.rng.chance(0.5));
        let mut c = Case::new("C07", "sessions", ind, &ps, &[]);
        let heavy_vol = *r.rng.pick(&[1e3, 1e4, 1e5, 1e6]);
        let nsessions = if r.rng.chance(0.3) { 3 } else { 2 };
        for sidx in 0..nsessions {
            let heavy = sidx % 2 == 0;
            let len = p0 + 1 + r.rng.below(2 * p0 + 8);
            let level = if heavy { 100.0 } else { *r.rng.pick(&[40.0, 50.0, 97.0]) };
            let mut x = level;
            let mut prev = x;
            for _ in 0..len {
                // heavy: swings of up to 20% with an upward bias (a rally); quiet: two-sided moves of up to 0.2%
                let step = if heavy { (r.rng.unit() - 0.3) * 0.2 } else { (r.rng.unit() - 0.5) * 0.004 };
                x = (x * (1.0 + step)).max(level * 0.05);
                if bars {
                    let (top, bot) = (x.max(prev), x.min(prev));
                    let v = (0.5 + r.rng.unit()) * if heavy { 250.0 * heavy_vol } else { 900.0 };
                    c.ops.push(Op::Bar(crate::ind::B { o: prev, h: top * (1.0 + r.rng.unit() * 0.002), l: bot * (1.0 - r.rng.unit() * 0.002), c: x, v }));
                } else {
                    c.ops.push(Op::Next(x));
                }
                prev = x;
            }
            if sidx + 1 < nsessions {
                c.ops.push(Op::Reset);
            }
        }
        r.run(c, true);
    }
    // spike, then a tiny-range monotone run: an outlier move S (once there-and-back, once a level shift) followed by
    // 3n+12.. strictly monotone inputs whose tick is S/f, f in {1e6,…,1e10}: the true ratio sits AT the bound (ER = 1,
    // stochastics 0/100) while anything still carrying rounding residue of S is off by S·2^-52 / (n·tick)
    let nspike = if r.tier == Tier::Quick { 200 } else { 4000 };
    for i in 0..nspike {
        let ind = INDS[i % INDS.len()];
        let np = crate::ind::arity(ind).unwrap().0;
        let p0 = *r.rng.pick(&[1usize, 2, 3, 5, 8, 14, 20, 50]);
        let ps: Vec<usize> = (0..np).map(|j| if j == 0 { p0 } else { r.rng.range(1, 6) }).collect();
        let bars = !crate::ind::has_next_name(ind) || (matches!(ind, "FastStochastic" | "SlowStochastic") && r.rng.chance(0.5));
        let level = *r.rng.pick(&[1.0, 100.0, 1e4]);
        let s = level * *r.rng.pick(&[0.5, 10.0, 1000.0]);
        let f = *r.rng.pick(&[1e6, 1e7, 1e8, 1e9, 1e10]);
        let tick = s / f;
        let back = r.rng.chance(0.5);
        let up = r.rng.chance(0.5);
        let mut c = Case::new("C07", "spike-then-monotone", ind, &ps, &[]);
        c.extra = vec![s, f];
        let mut xs: Vec<f64> = vec![];
        let mut x = level;
        for _ in 0..r.rng.below(2 * p0 + 2) {
            x = (x * (1.0 + (r.rng.unit() - 0.5) * 0.02)).max(level * 0.5);
            xs.push(x);
        }
        for _ in 0..r.rng.range(1, 3) {
            xs.push(x + s);
        }
        let mut x = if back { x } else { x + s };
        for k in 0..(3 * p0 + 12 + r.rng.below(40)) {
            let d = tick * (1.0 + (k % 3) as f64);
            x = if up { x + d } else { (x - d).max(level * 0.25) };
            xs.push(x);
        }
        let mut prev = xs[0];
        for (k, &x) in xs.iter().enumerate() {
            if bars {
                let (top, bot) = (x.max(prev), x.min(prev));
                c.ops.push(Op::Bar(crate::ind::B { o: prev, h: top + tick * r.rng.unit(), l: (bot - tick * r.rng.unit()).max(level * 0.2), c: x, v: 10.0 + (k % 7) as f64 }));
            } else {
                c.ops.push(Op::Next(x));
            }
            prev = x;
        }
        r.run(c, true);
    }
}

pub const RULE: &str = "RSI, FastStochastic (scalars and valid bars), SlowStochastic, MoneyFlowIndex, EfficiencyRatio on positive price streams / valid bars in 9 regimes (trending, oscillating, gapping, flat, spikes, widely varying volume incl. 0), periods incl. 1 up to 256, a quarter of the cases with a reset() at a random position; plus 800-step strictly monotone runs with one-tick (1e-9) and coarse ranges; plus sessions (150 quick / 3000 thorough cases): a heavy session (swings to 20%, volumes 250*{1e3..1e6}) of period+1..3*period+8 inputs, reset(), a quiet two-sided session (moves to 0.2%, volume ~900) of the same length range, in 30% of the cases a second reset() and another heavy session, periods 1, 2, 3, 4..8, 9..20, 21..64 - so that anything reset() leaves behind is large against what follows; plus spike-then-tiny-monotone (200 / 4000 cases): 0..2n+1 warm-up inputs, 1..3 inputs displaced by S = level*{0.5, 10, 1000} (there-and-back or a level shift), then 3n+12..3n+51 strictly monotone inputs (up or down) with tick S/f, f in {1e6, 1e7, 1e8, 1e9, 1e10}, levels {1, 100, 1e4}, periods {1,2,3,5,8,14,20,50}, scalars or valid bars of one-tick range - the true ratio sits at the bound (ER = 1, stochastics 0 or 100) and residue of S in any running sum is S*2^-52/(n*tick) of it; every step whose reference denominator (recomputed from scratch in double-double, restarted at reset) is non-zero must lie in [0,100] ([0,1] for ER) with 1e-9 slack; MFI slack 100*tau(t)*c, judged when c <= 1000. Non-trivial = longer than period+1.";
