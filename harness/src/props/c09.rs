//! C09 — dispersion measures are non-negative and bands are ordered around their middle.
use super::util::*;
use crate::case::{Case, Failure, Op};
use crate::dd::tau;
use crate::gen;
use crate::ind::{self, Ind};
use crate::rec::Rec;
use crate::runner::{Runner, Tier};
use crate::spec;

pub const INDS: &[&str] = &[
    "StandardDeviation", "MeanAbsoluteDeviation", "TrueRange", "AverageTrueRange", "Minimum", "BollingerBands", "KeltnerChannel",
    "ChandelierExit", "MovingAverageConvergenceDivergence", "PercentagePriceOscillator", "SimpleMovingAverage", "WeightedMovingAverage",
    "ExponentialMovingAverage",
];

pub fn check(case: &Case, rec: &mut Rec) -> Option<Failure> {
    let id = match mk(case, rec) {
        Ok(i) => i,
        Err(f) => return Some(f),
    };
    let name = case.ind.as_str();
    let n = case.ps.first().copied().unwrap_or(1);
    // Minimum <= Maximum over the same stream: a Maximum twin
    let mut twin = if name == "Minimum" { Some(Ind::create("Maximum", &case.ps, &[]).unwrap().unwrap()) } else { None };
    let mut xs: Vec<f64> = vec![];
    let mut highs: Vec<f64> = vec![];
    let mut lows: Vec<f64> = vec![];
    let mut big = 0.0f64;
    let (mut hmin, mut hmax) = (f64::INFINITY, f64::NEG_INFINITY);
    for (i, op) in case.ops.iter().enumerate() {
        let out = match op {
            Op::Next(x) => {
                xs.push(*x);
                big = big.max(x.abs());
                hmin = hmin.min(*x);
                hmax = hmax.max(*x);
                match rec.next(id, *x) {
                    Some(o) => o,
                    None => return fail(case, "panic", format!("panic at {}", i)),
                }
            }
            Op::Bar(b) => {
                xs.push(b.c);
                highs.push(b.h);
                lows.push(b.l);
                big = big.max(bar_mag(b));
                match rec.bar(id, b) {
                    Some(o) => o,
                    None => return fail(case, "panic", format!("panic at {}", i)),
                }
            }
            Op::Reset => {
                // everything restarts: the window, the history hull, the magnitude budget and the twin
                rec.reset(id);
                if let Some(tw) = twin.as_mut() {
                    tw.reset();
                }
                xs.clear();
                highs.clear();
                lows.clear();
                big = 0.0;
                hmin = f64::INFINITY;
                hmax = f64::NEG_INFINITY;
                continue;
            }
            _ => continue,
        };
        let t = xs.len();
        let tol = tau(t) * big;
        let bad = |sym: &str, msg: String| fail(case, sym, format!("step {} (t={}): {}", i, t, msg));
        let r = match name {
            "StandardDeviation" | "MeanAbsoluteDeviation" if !(out[0] >= 0.0) => bad("negative-or-nan", format!("{} = {}", name, out[0])),
            "TrueRange" | "AverageTrueRange" if !(out[0] >= 0.0) => bad("negative-or-nan", format!("{} = {} for bars with low <= high", name, out[0])),
            "Minimum" => {
                let mx = match op {
                    Op::Next(x) => twin.as_mut().unwrap().next(*x)[0],
                    Op::Bar(b) => twin.as_mut().unwrap().next(b.l)[0],
                    _ => 0.0,
                };
                if !(out[0] <= mx) {
                    bad("min-gt-max", format!("Minimum {} > Maximum {} over the same stream", out[0], mx))
                } else {
                    None
                }
            }
            "BollingerBands" | "KeltnerChannel" => {
                if !(out[2] <= out[0] && out[0] <= out[1]) {
                    bad("band-order", format!("lower {} <= average {} <= upper {} violated (multiplier {})", out[2], out[0], out[1], case.ms[0]))
                } else {
                    None
                }
            }
            "ChandelierExit" => {
                let mx = spec::fmax(spec::last_n(&highs, n));
                let mn = spec::fmin(spec::last_n(&lows, n));
                if !(out[0] <= mx && out[1] >= mn) {
                    bad("exit-order", format!("long {} <= window max {} and short {} >= window min {} violated", out[0], mx, out[1], mn))
                } else {
                    None
                }
            }
            "MovingAverageConvergenceDivergence" | "PercentagePriceOscillator" => {
                let d = out[0] - out[1];
                if !(out[2] == d || (out[2].is_nan() && d.is_nan())) {
                    bad("histogram", format!("histogram {:e} != line {:e} − signal {:e}", out[2], out[0], out[1]))
                } else {
                    None
                }
            }
            "SimpleMovingAverage" | "WeightedMovingAverage" => {
                let w = spec::last_n(&xs, n);
                let (lo, hi) = (spec::fmin(w), spec::fmax(w));
                if !(out[0] >= lo - tol && out[0] <= hi + tol) {
                    bad("outside-hull", format!("{} = {:e} outside [window min {:e}, window max {:e}] ± {:e}", name, out[0], lo, hi, tol))
                } else {
                    None
                }
            }
            "ExponentialMovingAverage" => {
                if !(out[0] >= hmin - tol && out[0] <= hmax + tol) {
                    bad("outside-hull", format!("EMA = {:e} outside [history min {:e}, history max {:e}] ± {:e}", out[0], hmin, hmax, tol))
                } else {
                    None
                }
            }
            _ => None,
        };
        if r.is_some() {
            return r;
        }
    }
    None
}

pub fn generate(r: &mut Runner) {

    // flat and nearly flat windows at "ordinary" decimal prices (668.49, 956.06, 250006172837.839 …): a dispersion written as a
    // DIFFERENCE of two rounded quantities goes slightly negative there, one written as a sum of absolute terms cannot
    {
        let n = if r.tier == Tier::Quick { 6000 } else { 120000 };
        for i in 0..n {
            let name = ["MeanAbsoluteDeviation", "StandardDeviation", "BollingerBands"][i % 3];
            let (_, nm) = ind::arity(name).unwrap();
            let period = r.rng.range(2, 40);
            let ms: Vec<f64> = (0..nm).map(|_| 2.0).collect();
            let decimals = *r.rng.pick(&[100.0, 1000.0, 10.0]);
            let mag = *r.rng.pick(&[1e3, 1e5, 1e2, 1e12, 1.0]);
            let level = ((r.rng.unit() * mag * decimals).round() / decimals).max(1.0 / decimals);
            let mut c = Case::new("C09", "flat-decimal", name, &[period], &ms);
            for _ in 0..r.rng.below(6) {
                let x = ((r.rng.unit() * mag * decimals).round() / decimals).max(1.0 / decimals);
                c.ops.push(Op::Next(x));
            }
            for _ in 0..(period + 3) {
                c.ops.push(Op::Next(level));
            }
            r.run(c, true);
        }
    }
    let cases = if r.tier == Tier::Quick { 650 } else { 26000 };
    r.log_every = if r.tier == Tier::Quick { 7 } else { 307 };
    let maxlen = if r.tier == Tier::Quick { 500 } else { 4000 };
    for i in 0..cases {
        let name = INDS[i % INDS.len()];
        let (np, nm) = ind::arity(name).unwrap();
        let ps: Vec<usize> = (0..np).map(|_| gen::period(&mut r.rng, 300)).collect();
        let ms: Vec<f64> = (0..nm).map(|_| *r.rng.pick(&[0.0, 0.5, 1.0, 2.0, 3.0, 10.0, 1e3, 1e6])).collect();
        let len = r.rng.range(1, maxlen);
        // magnitudes: the everyday ones and — every fourth case — tiny ones (C09 has no lower bound on the magnitude:
        // an absolute epsilon anywhere in a mean or a band shows only on values far below 1)
        let scale = if i % 4 == 1 { *r.rng.pick(TINY_SCALES) } else { *r.rng.pick(&[1e-3, 1.0, 100.0, 1e6, 1e9, 1e11]) };
        // cancellation-engineered: large values then a flat stretch (variance could go negative)
        let cancel = i % 4 == 0;
        let regime = if cancel { "plateau" } else { *r.rng.pick(gen::REGIMES) };
        let bars = !ind::has_next_name(name) || (matches!(name, "TrueRange" | "AverageTrueRange" | "KeltnerChannel") && r.rng.chance(0.6));
        let mut xs = gen::stream(&mut r.rng, regime, len, bars, scale);
        if cancel {
            let k = xs.len() / 2;
            let lvl = scale * 1.000_000_1;
            for (j, x) in xs.iter_mut().enumerate() {
                if j >= k {
                    *x = lvl + (j % 2) as f64 * lvl * 1e-15;
                } else if j % 3 == 0 {
                    *x *= 1e4;
                }
            }
        }
        let mut c = Case::new("C09", &format!("order-{}", regime), name, &ps, &ms);
        if bars {
            c.ops = gen::valid_bars(&mut r.rng, &xs).into_iter().map(Op::Bar).collect();
        } else {
            c.ops = xs.into_iter().filter(|x| x.abs() <= 1e12).map(Op::Next).collect();
        }
        let maxp = ps.iter().copied().max().unwrap_or(1);
        // a fifth of the cases: one or two reset() calls somewhere (state left over by reset shows up later)
        if i % 5 == 3 && c.ops.len() > 2 {
            for _ in 0..(1 + r.rng.below(2)) {
                let at = r.rng.range(1, c.ops.len() - 1);
                c.ops.insert(at, Op::Reset);
            }
            c.kind = format!("{}-with-reset", c.kind);
        }
        let nt = c.ops.len() > maxp;
        r.run(c, nt);
    }
    // tiny same-sign streams for every indicator: strictly positive (or strictly negative) values at each tiny scale
    for (i, name) in INDS.iter().enumerate() {
        let (np, nm) = ind::arity(name).unwrap();
        for (si, scale) in TINY_SCALES.iter().enumerate() {
            for rep in 0..(if r.tier == Tier::Quick { 2 } else { 12 }) {
                let ps: Vec<usize> = (0..np).map(|_| if rep == 0 { 1 + (i + si) % 4 } else { gen::period(&mut r.rng, 60) }).collect();
                let ms: Vec<f64> = (0..nm).map(|_| *r.rng.pick(&[0.0, 0.5, 2.0, 1e3])).collect();
                let regime = *r.rng.pick(&["walk", "flat", "plateau", "saw", "trend", "alt"]);
                let len = r.rng.range(1, 200);
                let neg = has_scalar_any_sign(name) && r.rng.chance(0.3);
                let xs: Vec<f64> = gen::stream(&mut r.rng, regime, len, true, *scale).into_iter().map(|x| if neg { -x } else { x }).collect();
                let mut c = Case::new("C09", &format!("tiny-{}", regime), name, &ps, &ms);
                if !ind::has_next_name(name) || (matches!(*name, "TrueRange" | "AverageTrueRange" | "KeltnerChannel") && r.rng.chance(0.5) && !neg) {
                    c.ops = gen::valid_bars(&mut r.rng, &xs).into_iter().map(Op::Bar).collect();
                } else {
                    c.ops = xs.into_iter().map(Op::Next).collect();
                }
                if rep % 2 == 1 && c.ops.len() > 2 {
                    let at = r.rng.range(1, c.ops.len() - 1);
                    c.ops.insert(at, Op::Reset);
                    c.kind = format!("{}-with-reset", c.kind);
                }
                let maxp = ps.iter().copied().max().unwrap_or(1);
                let nt = c.ops.len() > maxp;
                r.run(c, nt);
            }
        }
    }
    // boundary periods for the constructors that allocate no window (the exponential family): each period position
    // in turn takes a value next to 2^31, 2^32, 2^53, 2^63 or usize::MAX, the other positions a small sampled period
    for name in INDS {
        if !ALLOC_FREE.contains(name) {
            continue;
        }
        let (np, nm) = ind::arity(name).unwrap();
        for pos in 0..np {
            for b in BOUNDARY_PERIODS {
                let ps: Vec<usize> = (0..np).map(|j| if j == pos { *b } else { gen::period(&mut r.rng, 30) }).collect();
                let ms: Vec<f64> = (0..nm).map(|_| *r.rng.pick(&[0.0, 0.5, 2.0, 1e3])).collect();
                let regime = *r.rng.pick(gen::REGIMES);
                let scale = *r.rng.pick(&[1e-3, 1.0, 100.0, 1e6]);
                let len = r.rng.range(2, 60);
                let bars = matches!(*name, "AverageTrueRange" | "KeltnerChannel") && r.rng.chance(0.5);
                let xs = gen::stream(&mut r.rng, regime, len, bars, scale);
                let mut c = Case::new("C09", "boundary-period", name, &ps, &ms);
                if bars {
                    c.ops = gen::valid_bars(&mut r.rng, &xs).into_iter().map(Op::Bar).collect();
                } else {
                    c.ops = xs.into_iter().filter(|x| x.abs() <= 1e12).map(Op::Next).collect();
                }
                if c.ops.len() > 2 && r.rng.chance(0.3) {
                    let at = r.rng.range(1, c.ops.len() - 1);
                    c.ops.insert(at, Op::Reset);
                }
                r.run(c, true);
            }
        }
    }
}

/// tiny magnitudes (normal doubles with 17 significant digits; squares of the last one underflow)
pub const TINY_SCALES: &[f64] = &[1e-9, 1e-17, 1e-20, 1e-300];
/// constructors that allocate no window: every usize is a legal period
pub const ALLOC_FREE: &[&str] = &["ExponentialMovingAverage", "AverageTrueRange", "KeltnerChannel", "MovingAverageConvergenceDivergence", "PercentagePriceOscillator"];
pub const BOUNDARY_PERIODS: &[usize] = &[
    (1 << 31) - 1, 1 << 31, (1 << 32) - 1, 1 << 32, (1 << 32) + 1, (1 << 53) - 1, 1 << 53, (1 << 53) + 1, (1 << 63) - 1, 1 << 63, usize::MAX - 1, usize::MAX,
];
/// scalar-fed indicators whose claim covers any sign
fn has_scalar_any_sign(name: &str) -> bool {
    ind::has_next_name(name) && !matches!(name, "TrueRange" | "AverageTrueRange" | "KeltnerChannel")
}

pub const RULE: &str = "flat-decimal stage: 6000 (quick) / 120000 (thorough) cases for MAD, SD, BB: period 2..40, 0..5 moving inputs, then period+3 repetitions of one 1-3-decimal price at magnitudes 1..1e12 (dispersion must stay >= 0 and not NaN at every step); then: 13 indicators x sampled periods to 300 x multipliers {0,0.5,1,2,3,10,1e3,1e6} x finite streams of any sign in 9 regimes, magnitudes 1e-3..1e11 and - every fourth case - tiny magnitudes {1e-9, 1e-17, 1e-20, 1e-300}, a quarter of them engineered for cancellation (values x10^4 then a flat stretch with 1-ulp ripple, as in test_next_floating_point_error); plus, for every indicator and every tiny magnitude, same-sign streams (strictly positive; 30% strictly negative for the scalar-fed any-sign indicators) of 1..200 inputs in walk/flat/plateau/saw/trend/alt regimes, periods 1..4 and sampled to 60, multipliers {0,0.5,2,1e3}, half of them with a reset(); plus boundary periods for the constructors that allocate no window (EMA, ATR, KeltnerChannel, MACD, PPO): each period position in turn takes each of 2^31-1, 2^31, 2^32-1, 2^32, 2^32+1, 2^53-1, 2^53, 2^53+1, 2^63-1, 2^63, usize::MAX-1, usize::MAX (the other positions sampled to 30), streams of 2..60 inputs, the constructor must succeed; checked at every step: SD, MAD >= 0 and not NaN; TR, ATR >= 0 (valid bars); Minimum <= Maximum (twin instance); lower <= average <= upper exactly (BB, KC); CE long <= window max(high), short >= window min(low) exactly; MACD/PPO histogram == line - signal exactly; SMA/WMA within [window min, max] +- tau(t)*M; EMA within [history min, max] +- tau(t)*M (M = largest magnitude fed since reset, so the slack scales with the data). A fifth of the cases contain one or two reset() calls (window, history hull and t restart). Non-trivial = longer than the period.";
