//! C17 — windowed indicators forget: only the last n (or n+1) inputs matter.
use super::util::*;
use crate::case::{Case, Failure, Op};
use crate::dd::tau;
use crate::gen;
use crate::ind::Ind;
use crate::rec::Rec;
use crate::rng::Rng;
use crate::runner::{Runner, Tier};

pub const INDS: &[&str] = &[
    "SimpleMovingAverage", "WeightedMovingAverage", "StandardDeviation", "MeanAbsoluteDeviation", "Minimum", "Maximum", "FastStochastic",
    "BollingerBands", "CommodityChannelIndex", "RateOfChange", "EfficiencyRatio", "MoneyFlowIndex",
];

fn memory(name: &str, n: usize) -> usize {
    match name {
        "RateOfChange" | "EfficiencyRatio" | "MoneyFlowIndex" => n + 1,
        _ => n,
    }
}

/// indicators whose input may have any sign
pub const ANY_SIGN: &[&str] = &["SimpleMovingAverage", "WeightedMovingAverage", "StandardDeviation", "MeanAbsoluteDeviation", "Minimum", "Maximum", "BollingerBands"];
pub const SIGNS: &[&str] = &["positive", "any-sign", "negated"];
/// scalar-input accumulating indicators whose arithmetic is exact on integer data with power-of-two periods and spikes
pub const DYADIC: &[&str] = &["SimpleMovingAverage", "WeightedMovingAverage", "StandardDeviation", "MeanAbsoluteDeviation", "BollingerBands", "RateOfChange", "EfficiencyRatio"];

/// a stream under a sign mode: 0 = strictly positive prices, 1 = any sign (gen::stream's shifted / signed-alphabet
/// variants), 2 = the positive stream negated as a whole (all-negative windows with distinct values)
fn signed_stream(rng: &mut Rng, regime: &str, len: usize, scale: f64, sign: usize) -> Vec<f64> {
    let mut v = gen::stream(rng, regime, len, sign != 1, scale);
    if sign == 2 {
        for x in v.iter_mut() {
            *x = -*x;
        }
    }
    v
}

/// state of one comparison run: magnitudes seen by the long-lived instance over the WHOLE history
struct Hist {
    big: f64,
    allflow: f64, // largest money flow that ever entered MFI's running totals
    t: usize,
}
impl Hist {
    fn see(&mut self, op: &Op) {
        match op {
            Op::Next(x) => self.big = self.big.max(x.abs()),
            Op::Bar(b) => {
                self.big = self.big.max(bar_mag(b));
                self.allflow = self.allflow.max(((b.c + b.h + b.l) / 3.0 * b.v).abs());
            }
            _ => {}
        }
        self.t += 1;
    }
}

/// the exactness precondition of the dyadic-spike stage, checked on the case ITSELF (a shrunk or hand-edited case that
/// leaves the class is judged with the ordinary tolerances): periods 1, 2, 4, 8; every input an integer below 2^22 in
/// magnitude (means are multiples of 2^-3, Welford products multiples of 2^-6 below 2^47: fewer than 53 bits); and the
/// first `period` inputs small (|x| <= 8), so that the inexact warm-up divisions by 3, 5, 6, 7 happen at the small scale
fn dyadic_ok(case: &Case) -> bool {
    let n = case.ps.first().copied().unwrap_or(0);
    if ![1usize, 2, 4, 8].contains(&n) {
        return false;
    }
    let xs: Vec<f64> = case.ops.iter().filter_map(|o| if let Op::Next(x) = o { Some(*x) } else { None }).collect();
    if xs.len() < n || case.ops.iter().any(|o| matches!(o, Op::Bar(_))) {
        return false;
    }
    xs.iter().all(|x| x.fract() == 0.0 && x.abs() < 4194304.0) && xs[..n].iter().all(|x| x.abs() <= 8.0)
}

/// outputs of the full-history instance (`oa`) vs the fresh suffix-only instance (`of`) at suffix length `j1`
fn agree(case: &Case, oa: &[f64], of: &[f64], judged: &[Option<super::c03::Judged>], cref: &super::c03::Ref, h: &Hist, j1: usize) -> Option<Failure> {
    let name = case.ind.as_str();
    let exact = matches!(name, "Minimum" | "Maximum" | "FastStochastic");
    let (big, t) = (h.big, h.t);
    let dyadic = case.kind == "dyadic-spike" && dyadic_ok(case);
    if dyadic && (name == "StandardDeviation" || name == "BollingerBands") {
        // second moments are compared as VARIANCES: the inexact warm-up divisions (by 3, 5, 6, 7) leave a residue of
        // 1e-16 in m2, which the square root turns into 1e-8 on a flat window
        let lin = 1e-9 * cref.big.max(1.0);
        let quad = 1e-9 * (cref.big * cref.big).max(1.0);
        let (va, vf, mids) = if name == "StandardDeviation" {
            (oa[0] * oa[0], of[0] * of[0], None)
        } else {
            let (ha, hf) = ((oa[1] - oa[2]) / 2.0, (of[1] - of[2]) / 2.0);
            (ha * ha, hf * hf, Some(((oa[0], of[0]), ((oa[1] + oa[2]) / 2.0, (of[1] + of[2]) / 2.0))))
        };
        let mut ok = (va - vf).abs() <= quad;
        if let Some(((a0, f0), (am, fm))) = mids {
            ok = ok && (a0 - f0).abs() <= lin && (am - fm).abs() <= lin;
        }
        if !ok {
            return fail(case, "remembers-old-input", format!("suffix step {} (t={}): after the full history outputs = {:?}, a fresh instance fed only the last {} inputs gives {:?} (exact-arithmetic class: second moments compared as variances at 1e-9 of the suffix scale)", j1, h.t, oa, j1, of));
        }
        return None;
    }
    for (q, (x, y)) in oa.iter().zip(of.iter()).enumerate() {
        let ok = if exact {
            x == y || (x.is_nan() && y.is_nan())
        } else if dyadic {
            // integer data, power-of-two spikes and periods: the long-lived instance's arithmetic is exact once the
            // spike has passed (every intermediate is a dyadic rational of < 53 bits), the fresh one rounds at the
            // level of the SUFFIX only — so the old spike may not show at all, not even at sqrt(tau)·spike
            x == y || (x - y).abs() <= 1e-9 * cref.big.max(y.abs()).max(1.0)
        } else {
            // ratios: × condition number (of the suffix-only reference), gate 1e6
            let (cond, scale) = match judged.get(q).and_then(|z| z.as_ref()) {
                Some(jd) => (jd.c, jd.scale),
                None => {
                    if matches!(name, "RateOfChange" | "EfficiencyRatio" | "MoneyFlowIndex" | "CommodityChannelIndex") {
                        continue;
                    }
                    (1.0, 1.0)
                }
            };
            // MFI: the totals of the long-lived instance saw every flow of the whole history
            let cond = if name == "MoneyFlowIndex" && cref.maxflow > 0.0 { cond * (h.allflow / cref.maxflow).max(1.0) } else { cond };
            if !(cond <= 1e6) {
                continue;
            }
            let is_ratio = matches!(name, "RateOfChange" | "EfficiencyRatio" | "MoneyFlowIndex" | "CommodityChannelIndex");
            // for ratios the running totals saw `big`: condition relative to the whole history
            let tol = if is_ratio { tau(t) * cond * scale * (big / cref.big.max(1e-300)).max(1.0) } else if name == "StandardDeviation" || name == "BollingerBands" { (tau(t)).sqrt() * big } else { tau(t) * big };
            x == y || (x - y).abs() <= tol
        };
        if !ok {
            return fail(case, "remembers-old-input", format!("suffix step {} (t={}): after the full history output #{} = {:e}, a fresh instance fed only the last {} inputs gives {:e}", j1, t, q, x, j1, y));
        }
    }
    None
}

/// ops = prefix, Mark, common suffix (length >= memory).  The full-history instance is compared
/// with a fresh instance fed only the suffix, at every step from the point where the suffix
/// covers the memory.
pub fn check(case: &Case, rec: &mut Rec) -> Option<Failure> {
    if case.kind.starts_with("long-prefix") {
        return check_long(case);
    }
    let a = match mk(case, rec) {
        Ok(i) => i,
        Err(f) => return Some(f),
    };
    let name = case.ind.as_str();
    let n = case.ps[0];
    let mem = memory(name, n);
    let mark = case.ops.iter().position(|o| *o == Op::Mark).unwrap_or(0);
    let mut h = Hist { big: 0.0, allflow: 0.0, t: 0 };
    for op in &case.ops[..mark] {
        h.see(op);
        feed(rec, a, op)?;
    }
    let mut fresh = Ind::create(&case.ind, &case.ps, &case.ms).unwrap().unwrap();
    let mut cref = super::c03::Ref::new(name, &case.ps);
    for (j, op) in case.ops[mark + 1..].iter().enumerate() {
        let (oa, of, judged) = match op {
            Op::Next(x) => (rec.next(a, *x)?, fresh.next(*x), cref.step(Some(*x), None)),
            Op::Bar(b) => (rec.bar(a, b)?, fresh.next_bar(b), cref.step(None, Some(b))),
            _ => continue,
        };
        h.see(op);
        if j + 1 < mem {
            continue;
        }
        if let Some(f) = agree(case, &oa, &of, &judged, &cref, &h, j + 1) {
            return Some(f);
        }
    }
    None
}

/// regimes without outliers and without flat stretches: the dynamic range of the history stays within 10^4, so the
/// tolerance tau(t)·M (M = largest magnitude of the WHOLE history) stays below the differences between neighbouring
/// inputs — a wrongly remembered, mis-ordered or mis-weighted ordinary input is then observable.  ("trend" is not
/// calm: compounding up to 1% per step it spans dozens of decades within one chunk of thousands of inputs.)
pub const CALM: &[&str] = &["walk", "alt", "saw"];

/// Long prefix: regenerated from extra = (seed, prefix length, scale, wild 0/1, sign mode) in chunks of 1..8192
/// inputs of freshly drawn regimes — wild: any regime of gen::REGIMES and every 7th value ×10^6; otherwise the CALM
/// regimes — (bars iff the stored suffix consists of bars); ops = Mark, suffix.  No recorder (up to millions of
/// inputs): both instances are driven directly.
fn check_long(case: &Case) -> Option<Failure> {
    let name = case.ind.as_str();
    let n = case.ps[0];
    let mem = memory(name, n);
    let mut rng = Rng::new(case.extra[0] as u64);
    let plen = case.extra[1] as usize;
    let scale = case.extra[2];
    let spiky = case.extra[3] != 0.0;
    let sign = case.extra[4] as usize % SIGNS.len();
    let mark = case.ops.iter().position(|o| *o == Op::Mark).unwrap_or(0);
    let bars = matches!(case.ops.get(mark + 1), Some(Op::Bar(_)));
    let mut a = Ind::create(&case.ind, &case.ps, &case.ms).unwrap().unwrap();
    let mut h = Hist { big: 0.0, allflow: 0.0, t: 0 };
    let mut fed = 0usize;
    while fed < plen {
        let chunk = (1 + rng.below(8192)).min(plen - fed);
        let regime = if spiky { *rng.pick(gen::REGIMES) } else { *rng.pick(CALM) };
        let mut xs = signed_stream(&mut rng, regime, chunk, scale, sign);
        if spiky {
            for (k, x) in xs.iter_mut().enumerate() {
                if (fed + k) % 7 == 0 {
                    *x *= 1e6;
                }
            }
        }
        if bars {
            for b in gen::valid_bars(&mut rng, &xs) {
                h.see(&Op::Bar(b));
                a.next_bar(&b);
            }
        } else {
            for x in xs {
                h.see(&Op::Next(x));
                a.next(x);
            }
        }
        fed += chunk;
    }
    let mut fresh = Ind::create(&case.ind, &case.ps, &case.ms).unwrap().unwrap();
    let mut cref = super::c03::Ref::new(name, &case.ps);
    for (j, op) in case.ops[mark + 1..].iter().enumerate() {
        let (oa, of, judged) = match op {
            Op::Next(x) => (a.next(*x), fresh.next(*x), cref.step(Some(*x), None)),
            Op::Bar(b) => (a.next_bar(b), fresh.next_bar(b), cref.step(None, Some(b))),
            _ => continue,
        };
        h.see(op);
        if j + 1 < mem {
            continue;
        }
        if let Some(f) = agree(case, &oa, &of, &judged, &cref, &h, j + 1) {
            return Some(Failure { key: f.key, msg: format!("after a prefix of {} inputs regenerated from seed {} (scale {:e}, {}{}): {}", plen, case.extra[0] as u64, scale, SIGNS[sign], if spiky { ", any regime, every 7th ×10^6" } else { ", calm regimes" }, f.msg) });
        }
    }
    None
}

pub fn generate(r: &mut Runner) {
    // stage 1: small scope with exact ties — periods 1..=4, every sequence of length d over {1,2,3} (bars: three
    // fixed bars), split into prefix | suffix of exactly the memory length + 1
    let depth = if r.tier == Tier::Quick { 7 } else { 9 };
    let sym: [f64; 3] = [1.0, 2.0, 3.0];
    let bsym = [
        crate::ind::B { o: 1.0, h: 2.0, l: 1.0, c: 1.5, v: 10.0 },
        crate::ind::B { o: 2.0, h: 3.0, l: 1.5, c: 2.0, v: 0.0 },
        crate::ind::B { o: 2.0, h: 2.0, l: 2.0, c: 2.0, v: 5.0 },
    ];
    r.log_every = 211;
    for name in INDS {
        let (np, nm) = crate::ind::arity(name).unwrap();
        let bars = !crate::ind::has_next_name(name);
        for n in 1..=4usize {
            let mem = memory(name, n);
            if mem + 1 > depth {
                continue;
            }
            let ps: Vec<usize> = (0..np).map(|_| n).collect();
            let ms: Vec<f64> = (0..nm).map(|_| 2.0).collect();
            for code in 0..3usize.pow(depth as u32) {
                let mut c = Case::new("C17", "ties-exhaustive", name, &ps, &ms);
                let mut k = code;
                for j in 0..depth {
                    if j == depth - (mem + 1) {
                        c.ops.push(Op::Mark);
                    }
                    let s = k % 3;
                    k /= 3;
                    c.ops.push(if bars { Op::Bar(bsym[s]) } else { Op::Next(sym[s]) });
                }
                r.run(c, true);
            }
        }
    }
    // stage 1b: signed alphabets, for the indicators whose input may have any sign — {1, −3, 2}: sums cancel exactly
    // (1 − 3 + 2 = 0; a running total that happens to be exactly 0 must not be mistaken for an empty window);
    // {−1, −3, −2}: every window all-negative with distinct values (an extreme search or padding seeded with 0);
    // {−2, 0, 3}: zero between both signs
    for (kind, ssym) in [("signed-cancelling-exhaustive", [1.0, -3.0, 2.0]), ("all-negative-exhaustive", [-1.0, -3.0, -2.0]), ("signed-zero-exhaustive", [-2.0, 0.0, 3.0])] {
        for name in ANY_SIGN {
            let (np, nm) = crate::ind::arity(name).unwrap();
            for n in 1..=4usize {
                let mem = memory(name, n);
                if mem + 1 > depth {
                    continue;
                }
                let ps: Vec<usize> = (0..np).map(|_| n).collect();
                let ms: Vec<f64> = (0..nm).map(|_| 2.0).collect();
                for code in 0..3usize.pow(depth as u32) {
                    let mut c = Case::new("C17", kind, name, &ps, &ms);
                    let mut k = code;
                    for j in 0..depth {
                        if j == depth - (mem + 1) {
                            c.ops.push(Op::Mark);
                        }
                        c.ops.push(Op::Next(ssym[k % 3]));
                        k /= 3;
                    }
                    r.run(c, true);
                }
            }
        }
    }
    let cases = if r.tier == Tier::Quick { 960 } else { 36000 };
    r.log_every = if r.tier == Tier::Quick { 11 } else { 401 };
    for i in 0..cases {
        let name = INDS[i % INDS.len()];
        let (np, nm) = crate::ind::arity(name).unwrap();
        let n = if r.rng.chance(0.33) { r.rng.range(1, 5) } else { gen::period(&mut r.rng, 128) };
        let ps: Vec<usize> = (0..np).map(|_| n).collect();
        let ms: Vec<f64> = (0..nm).map(|_| 2.0).collect();
        let mem = memory(name, n);
        let scale = *r.rng.pick(&[1.0, 100.0, 1e4]);
        let plen = r.rng.range(0, if r.tier == Tier::Quick { 300 } else { 2000 });
        let slen = mem + r.rng.below(2 * n + 5);
        let spike = r.rng.chance(0.5);
        let regime = *r.rng.pick(gen::REGIMES);
        let bars = !crate::ind::has_next_name(name) || (name == "FastStochastic" && r.rng.chance(0.5));
        // sign mode (scalar streams of the indicators that accept any sign): a third each positive / any sign / negated
        let sign = if !bars && ANY_SIGN.contains(&name) { r.rng.below(3) } else { 0 };
        let mut pre = signed_stream(&mut r.rng, regime, plen, scale, sign);
        if spike {
            for x in pre.iter_mut().step_by(7) {
                *x *= 1e6;
            }
        }
        let regime2 = *r.rng.pick(gen::REGIMES);
        let suf = signed_stream(&mut r.rng, regime2, slen, scale, sign);
        r.count(&format!("sign:{}", SIGNS[sign]));
        let mut c = Case::new("C17", &format!("{}{}", if spike { "spiky-prefix" } else { "prefix" }, if sign > 0 { format!("-{}", SIGNS[sign]) } else { String::new() }), name, &ps, &ms);
        if bars {
            c.ops = gen::valid_bars(&mut r.rng, &pre).into_iter().map(Op::Bar).collect();
            c.ops.push(Op::Mark);
            c.ops.extend(gen::valid_bars(&mut r.rng, &suf).into_iter().map(Op::Bar));
        } else {
            c.ops = pre.into_iter().map(Op::Next).collect();
            c.ops.push(Op::Mark);
            c.ops.extend(suf.into_iter().map(Op::Next));
        }
        r.run(c, plen > 0);
    }
    // stage 2b: dyadic spikes — integer prices 1..8, periods 1, 2, 4, 8, a prefix containing spikes of 2^18..3·2^20 (10^6 times the
    // later prices), then an integer suffix: Welford / running sums are EXACT there, so state that remembers the spike
    // (a floor, a scale, a clamp sized from the all-time magnitude) shows at the suffix's own rounding level
    for i in 0..(if r.tier == Tier::Quick { 240 } else { 6000 }) {
        let name = DYADIC[i % DYADIC.len()];
        let (np, nm) = crate::ind::arity(name).unwrap();
        let n = *r.rng.pick(&[1usize, 2, 4, 8]);
        let ps: Vec<usize> = (0..np).map(|_| n).collect();
        let ms: Vec<f64> = (0..nm).map(|_| 2.0).collect();
        let mem = memory(name, n);
        let mut c = Case::new("C17", "dyadic-spike", name, &ps, &ms);
        for _ in 0..n + 3 {
            c.ops.push(Op::Next(r.rng.range(1, 8) as f64));
        }
        for _ in 0..r.rng.range(3, 40) {
            let x = if r.rng.chance(0.3) { (r.rng.range(1, 3) as f64) * (1u64 << r.rng.range(18, 20)) as f64 } else { r.rng.range(1, 8) as f64 };
            c.ops.push(Op::Next(x));
        }
        c.ops.push(Op::Next(3.0 * (1u64 << 20) as f64));
        c.ops.push(Op::Mark);
        // a QUIET suffix (one level, an occasional +1: second moments of a fraction of a unit) in two thirds of the cases
        let level = r.rng.range(1, 7) as f64;
        let quiet = r.rng.chance(0.67);
        for _ in 0..mem + r.rng.below(2 * n + 5) {
            c.ops.push(Op::Next(if quiet { level + if r.rng.chance(0.15) { 1.0 } else { 0.0 } } else { r.rng.range(1, 8) as f64 }));
        }
        r.run(c, true);
    }
    // stage 2c: micro-drift bars — one price per bar (open = high = low = close) creeping by a few 1e-10 relative per
    // bar, volumes varying: moves far below any "jitter" dead-band yet millions of ulps wide, so the direction of every
    // move is unambiguous and must be classified from the PREVIOUS bar alone
    for i in 0..(if r.tier == Tier::Quick { 120 } else { 3000 }) {
        let name = ["MoneyFlowIndex", "CommodityChannelIndex", "FastStochastic"][i % 3];
        let (np, nm) = crate::ind::arity(name).unwrap();
        let n = r.rng.range(1, 6);
        let ps: Vec<usize> = (0..np).map(|_| n).collect();
        let ms: Vec<f64> = (0..nm).map(|_| 2.0).collect();
        let mem = memory(name, n);
        let mut c = Case::new("C17", "micro-drift-bars", name, &ps, &ms);
        let mut x = *r.rng.pick(&[1.0, 100.0, 2500.0]) * (1.0 + r.rng.unit());
        let plen = r.rng.range(1, 40);
        let slen = mem + r.rng.below(2 * n + 5);
        for j in 0..plen + slen {
            if j == plen {
                c.ops.push(Op::Mark);
            }
            let step = (r.rng.range(1, 9) as f64) * 1e-10 * if r.rng.chance(0.7) { 1.0 } else { -1.0 };
            x *= 1.0 + step;
            c.ops.push(Op::Bar(crate::ind::B { o: x, h: x, l: x, c: x, v: 1000.0 * (0.5 + r.rng.unit()) }));
        }
        r.run(c, true);
    }
    // stage 3: long prefixes on ONE instance (hidden update counters), placed around every round count N: variant A —
    // N + d inputs (d <= memory+2) before the suffix, i.e. the N-th update lies inside the prefix (an effect that
    // persists is seen by every compared suffix step); variant B — N − d inputs (2 <= d <= memory+2) before a suffix of
    // more than memory + d inputs, i.e. the N-th update happens INSIDE the common suffix and the steps right after it are
    // compared (an effect that heals after a window length is seen too)
    r.log_every = u64::MAX; // prefixes are regenerated from a seed, too long for the op log
    let limit = if r.tier == Tier::Quick { 1usize << 17 } else { 1usize << 22 };
    // suffixes in which neighbouring window elements differ (a flat window hides a mis-ordered or stale element)
    let lively: &[&str] = &["walk", "alt", "spike", "saw", "alphabet", "mixed", "trend"];
    for name in INDS {
        let (np, nm) = crate::ind::arity(name).unwrap();
        for big_n in super::c13::round_counts(limit) {
            for variant in 0..2usize {
                // three quarters of the periods divide no round count (coprime to 10): the ring cursor is not at slot 0 there
                let n = if r.rng.chance(0.75) { super::c13::odd_period(&mut r.rng, 3, 128) } else { gen::period(&mut r.rng, 128) };
                let ps: Vec<usize> = (0..np).map(|_| n).collect();
                let ms: Vec<f64> = (0..nm).map(|_| 2.0).collect();
                let mem = memory(name, n);
                let (plen, slen) = if variant == 0 {
                    (big_n + r.rng.below(mem + 3), mem + r.rng.below(2 * n + 5))
                } else {
                    let d = 2 + r.rng.below(mem + 1);
                    (big_n - d.min(big_n), mem + d + 1 + r.rng.below(2 * n + 5))
                };
                let scale = *r.rng.pick(&[1.0, 100.0, 1e4]);
                let bars = !crate::ind::has_next_name(name) || (*name == "FastStochastic" && r.rng.chance(0.5));
                let sign = if !bars && ANY_SIGN.contains(&name) { r.rng.below(3) } else { 0 };
                // variant A: calm history; variant B: half of them wild (any regime, every 7th prefix value ×10^6)
                let spiky = variant == 1 && r.rng.chance(0.5);
                let regime2 = if spiky { *r.rng.pick(lively) } else { *r.rng.pick(CALM) };
                let suf = signed_stream(&mut r.rng, regime2, slen, scale, sign);
                let mut c = Case::new("C17", if variant == 0 { "long-prefix-past-round-count" } else { "long-prefix-round-count-in-suffix" }, name, &ps, &ms);
                c.extra = vec![(r.rng.u64() % (1 << 50)) as f64, plen as f64, scale, if spiky { 1.0 } else { 0.0 }, sign as f64];
                c.ops.push(Op::Mark);
                if bars {
                    c.ops.extend(gen::valid_bars(&mut r.rng, &suf).into_iter().map(Op::Bar));
                } else {
                    c.ops.extend(suf.into_iter().map(Op::Next));
                }
                r.steps += plen as u64;
                r.run(c, true);
            }
        }
    }
}

pub const RULE: &str = "stage 1 (exact ties): periods 1..=4, every sequence of length 7 (quick) / 9 (thorough) over three symbols, split into an arbitrary prefix and a suffix of memory+1 inputs; stage 1b: the same over the signed alphabets {1,-3,2} (sums cancel exactly), {-1,-3,-2} (every window all-negative with distinct values) and {-2,0,3} for SMA, WMA, SD, MAD, Min, Max, BB; stage 2: 12 windowed indicators × periods 1..=4 (a third) and sampled to 128 × an arbitrary prefix (0..300 / 0..2000 inputs, half of them with every 7th value ×10^6) followed by a common suffix of at least n (n+1 for ROC, ER, MFI) inputs; for the 7 indicators that accept any sign the scalar streams are, a third each, positive, of any sign (shifted around zero / signed alphabet) and negated as a whole (all-negative windows); stage 3 (hidden update counters): every indicator × every round count N (powers of two 2^10..2^17 quick / ..2^22 thorough, and 10^3, 5·10^3, 10^4, … up to that limit) × two placements of a long prefix regenerated from a stored seed in chunks of 1..8192 inputs of freshly drawn regimes — A: N+d inputs (d <= memory+2) before the suffix (the N-th update lies in the prefix), B: N−d inputs (2 <= d <= memory+2) before a suffix longer than memory+d (the N-th update happens inside the common suffix and the steps right after it are compared) — with periods to 128, three quarters of them coprime to 10 (dividing no round count, so the ring cursor is not at slot 0 there; the rest includes powers of two), sign modes as in stage 2; all A and half of the B histories are calm (prefix chunks and suffix from walk/alt/saw only: no outliers and no flat stretches, so that tau(t)·M stays below the differences between neighbouring inputs and an ordinary input remembered, mis-ordered or mis-weighted is observable), the other B histories are wild (any regime per chunk, every 7th prefix value ×10^6, non-flat suffix). In all stages the instance that saw the whole history is compared with a fresh instance fed only the suffix at every suffix length from n (n+1) on: exactly for Minimum, Maximum, FastStochastic; tau(t)·M for the accumulating ones (sqrt(tau)·M on the SD scale), × the condition number of the suffix reference for ratios (gate 1e6). Non-trivial = non-empty prefix. Stage 2b (dyadic spikes): 240 (quick) / 6000 streams of integer prices 1..8 for SMA, WMA, SD, MAD, BB, ROC, ER with periods 1, 2, 4, 8, the prefix containing spikes of 2^18..3·2^20 and ending in one of 3·2^20 (every intermediate below 53 bits; the precondition is re-checked on the case itself, so a shrunk case that leaves the class is judged with the ordinary tolerance), the suffix integer again and in two thirds of the cases quiet (one level with an occasional +1): the long-lived instance's arithmetic is exact there, so both outputs must agree to 1e-9 of the SUFFIX magnitude (state sized from the all-time magnitude shows). Stage 2c (micro-drift bars): 120 / 3000 streams of one-price bars creeping by 1..9e-10 relative per bar with varying volume, periods 1..6, for MFI, CCI, FastStochastic.";
