//! C17 — windowed indicators forget: only the last n (or n+1) inputs matter.
use super::util::*;
use crate::case::{Case, Failure, Op};
use crate::dd::tau;
use crate::gen;
use crate::ind::Ind;
use crate::rec::Rec;
use crate::runner::{Runner, Tier};

pub const INDS: &[&str] = &[
    "SimpleMovingAverage", "WeightedMovingAverage", "StandardDeviation", "MeanAbsoluteDeviation", "Minimum", "Maximum", "FastStochastic",
    "BollingerBands", "CommodityChannelIndex", "RateOfChange", "EfficiencyRatio", "MoneyFlowIndex",
];

fn memory(name: &str, n: usize) -> usize {
    match name {
        "RateOfChange" | "EfficiencyRatio" | "MoneyFlowIndex" => n + 1,
        _ => n,
    }
}

/// ops = prefix, Mark, common suffix (length >= memory).  The full-history instance is compared
/// with a fresh instance fed only the suffix, at every step from the point where the suffix
/// covers the memory.
pub fn check(case: &Case, rec: &mut Rec) -> Option<Failure> {
    let a = match mk(case, rec) {
        Ok(i) => i,
        Err(f) => return Some(f),
    };
    let name = case.ind.as_str();
    let n = case.ps[0];
    let mem = memory(name, n);
    let mark = case.ops.iter().position(|o| *o == Op::Mark).unwrap_or(0);
    let mut big = 0.0f64;
    let mut t = 0usize;
    let mut allflow = 0.0f64; // largest money flow that ever entered MFI's running totals
    for op in &case.ops[..mark] {
        match op {
            Op::Next(x) => big = big.max(x.abs()),
            Op::Bar(b) => {
                big = big.max(bar_mag(b));
                allflow = allflow.max(((b.c + b.h + b.l) / 3.0 * b.v).abs());
            }
            _ => {}
        }
        t += 1;
        feed(rec, a, op)?;
    }
    let mut fresh = Ind::create(&case.ind, &case.ps, &case.ms).unwrap().unwrap();
    let mut cref = super::c03::Ref::new(name, &case.ps);
    let exact = matches!(name, "Minimum" | "Maximum" | "FastStochastic");
    for (j, op) in case.ops[mark + 1..].iter().enumerate() {
        let (oa, of, judged) = match op {
            Op::Next(x) => {
                big = big.max(x.abs());
                (rec.next(a, *x)?, fresh.next(*x), cref.step(Some(*x), None))
            }
            Op::Bar(b) => {
                big = big.max(bar_mag(b));
                allflow = allflow.max(((b.c + b.h + b.l) / 3.0 * b.v).abs());
                (rec.bar(a, b)?, fresh.next_bar(b), cref.step(None, Some(b)))
            }
            _ => continue,
        };
        t += 1;
        if j + 1 < mem {
            continue;
        }
        for (q, (x, y)) in oa.iter().zip(of.iter()).enumerate() {
            let ok = if exact {
                x == y || (x.is_nan() && y.is_nan())
            } else {
                // ratios: × condition number (of the suffix-only reference), gate 1e6
                let (cond, scale) = match judged.get(q).and_then(|z| z.as_ref()) {
                    Some(jd) => (jd.c, jd.scale),
                    None => {
                        if matches!(name, "RateOfChange" | "EfficiencyRatio" | "MoneyFlowIndex" | "CommodityChannelIndex") {
                            continue;
                        }
                        (1.0, 1.0)
                    }
                };
                // MFI: the totals of the long-lived instance saw every flow of the whole history
                let cond = if name == "MoneyFlowIndex" && cref.maxflow > 0.0 { cond * (allflow / cref.maxflow).max(1.0) } else { cond };
                if !(cond <= 1e6) {
                    continue;
                }
                let is_ratio = matches!(name, "RateOfChange" | "EfficiencyRatio" | "MoneyFlowIndex" | "CommodityChannelIndex");
                // for ratios the running totals saw `big`: condition relative to the whole history
                let tol = if is_ratio { tau(t) * cond * scale * (big / cref.big.max(1e-300)).max(1.0) } else if name == "StandardDeviation" || name == "BollingerBands" { (tau(t)).sqrt() * big } else { tau(t) * big };
                x == y || (x - y).abs() <= tol
            };
            if !ok {
                return fail(case, "remembers-old-input", format!("suffix step {} (t={}): after the full history output #{} = {:e}, a fresh instance fed only the last {} inputs gives {:e}", j + 1, t, q, x, j + 1, y));
            }
        }
    }
    None
}

pub fn generate(r: &mut Runner) {
    // stage 1: small scope with exact ties — periods 1..=4, every sequence of length d over {1,2,3} (bars: three
    // fixed bars), split into prefix | suffix of exactly the memory length + 1
    let depth = if r.tier == Tier::Quick { 7 } else { 9 };
    let sym: [f64; 3] = [1.0, 2.0, 3.0];
    let bsym = [
        crate::ind::B { o: 1.0, h: 2.0, l: 1.0, c: 1.5, v: 10.0 },
        crate::ind::B { o: 2.0, h: 3.0, l: 1.5, c: 2.0, v: 0.0 },
        crate::ind::B { o: 2.0, h: 2.0, l: 2.0, c: 2.0, v: 5.0 },
    ];
    r.log_every = 211;
    for name in INDS {
        let (np, nm) = crate::ind::arity(name).unwrap();
        let bars = !crate::ind::has_next_name(name);
        for n in 1..=4usize {
            let mem = memory(name, n);
            if mem + 1 > depth {
                continue;
            }
            let ps: Vec<usize> = (0..np).map(|_| n).collect();
            let ms: Vec<f64> = (0..nm).map(|_| 2.0).collect();
            for code in 0..3usize.pow(depth as u32) {
                let mut c = Case::new("C17", "ties-exhaustive", name, &ps, &ms);
                let mut k = code;
                for j in 0..depth {
                    if j == depth - (mem + 1) {
                        c.ops.push(Op::Mark);
                    }
                    let s = k % 3;
                    k /= 3;
                    c.ops.push(if bars { Op::Bar(bsym[s]) } else { Op::Next(sym[s]) });
                }
                r.run(c, true);
            }
        }
    }
    // stage 1b: signed symbols whose sums cancel exactly ({1, −3, 2}: 1 − 3 + 2 = 0), for the indicators whose input may
    // have any sign — a running total that happens to be exactly 0 must not be mistaken for an empty window
    let ssym: [f64; 3] = [1.0, -3.0, 2.0];
    for name in ["SimpleMovingAverage", "WeightedMovingAverage", "StandardDeviation", "MeanAbsoluteDeviation", "Minimum", "Maximum", "BollingerBands"] {
        let (np, nm) = crate::ind::arity(name).unwrap();
        for n in 1..=4usize {
            let mem = memory(name, n);
            if mem + 1 > depth {
                continue;
            }
            let ps: Vec<usize> = (0..np).map(|_| n).collect();
            let ms: Vec<f64> = (0..nm).map(|_| 2.0).collect();
            for code in 0..3usize.pow(depth as u32) {
                let mut c = Case::new("C17", "signed-cancelling-exhaustive", name, &ps, &ms);
                let mut k = code;
                for j in 0..depth {
                    if j == depth - (mem + 1) {
                        c.ops.push(Op::Mark);
                    }
                    c.ops.push(Op::Next(ssym[k % 3]));
                    k /= 3;
                }
                r.run(c, true);
            }
        }
    }
    let cases = if r.tier == Tier::Quick { 960 } else { 36000 };
    r.log_every = if r.tier == Tier::Quick { 11 } else { 401 };
    for i in 0..cases {
        let name = INDS[i % INDS.len()];
        let (np, nm) = crate::ind::arity(name).unwrap();
        let n = if r.rng.chance(0.33) { r.rng.range(1, 5) } else { gen::period(&mut r.rng, 128) };
        let ps: Vec<usize> = (0..np).map(|_| n).collect();
        let ms: Vec<f64> = (0..nm).map(|_| 2.0).collect();
        let mem = memory(name, n);
        let scale = *r.rng.pick(&[1.0, 100.0, 1e4]);
        let plen = r.rng.range(0, if r.tier == Tier::Quick { 300 } else { 2000 });
        let slen = mem + r.rng.below(2 * n + 5);
        let spike = r.rng.chance(0.5);
        let regime = *r.rng.pick(gen::REGIMES);
        let mut pre = gen::stream(&mut r.rng, regime, plen, true, scale);
        if spike {
            for x in pre.iter_mut().step_by(7) {
                *x *= 1e6;
            }
        }
        let regime2 = *r.rng.pick(gen::REGIMES);
        let suf = gen::stream(&mut r.rng, regime2, slen, true, scale);
        let bars = !crate::ind::has_next_name(name) || (name == "FastStochastic" && r.rng.chance(0.5));
        let mut c = Case::new("C17", if spike { "spiky-prefix" } else { "prefix" }, name, &ps, &ms);
        if bars {
            c.ops = gen::valid_bars(&mut r.rng, &pre).into_iter().map(Op::Bar).collect();
            c.ops.push(Op::Mark);
            c.ops.extend(gen::valid_bars(&mut r.rng, &suf).into_iter().map(Op::Bar));
        } else {
            c.ops = pre.into_iter().map(Op::Next).collect();
            c.ops.push(Op::Mark);
            c.ops.extend(suf.into_iter().map(Op::Next));
        }
        r.run(c, plen > 0);
    }
}

pub const RULE: &str = "stage 1 (exact ties): periods 1..=4, every sequence of length 7 (quick) / 9 (thorough) over three symbols, split into an arbitrary prefix and a suffix of memory+1 inputs; stage 1b: the same over the signed symbols {1,-3,2} (sums cancel exactly) for SMA, WMA, SD, MAD, Min, Max, BB; stage 2: 12 windowed indicators × periods 1..=4 (a third) and sampled to 128 × an arbitrary prefix (0..300 / 0..2000 inputs, half of them with every 7th value ×10^6) followed by a common suffix of at least n (n+1 for ROC, ER, MFI) inputs; the instance that saw the whole history is compared with a fresh instance fed only the suffix at every suffix length from n (n+1) on: exactly for Minimum, Maximum, FastStochastic; tau(t)·M for the accumulating ones (sqrt(tau)·M on the SD scale), × the condition number of the suffix reference for ratios (gate 1e6). Non-trivial = non-empty prefix.";
