//! C16 — DataItem builder accepts exactly the consistent bars and returns what was set.
use super::util::*;
use crate::case::{Case, Failure};
use crate::rec::{hexf, Rec};
use crate::runner::{Runner, Tier};
use ta::errors::TaError;
use ta::{Close, High, Low, Open, Volume};

pub const LATTICE: &[f64] = &[f64::NEG_INFINITY, -2.0, -1.0, -0.0, 0.0, 1.0, 2.0, 3.0, f64::INFINITY, f64::NAN];

/// extra = sequence of (field code 0..4, value) pairs: the setters called, in order
pub fn check(case: &Case, rec: &mut Rec) -> Option<Failure> {
    let mut b = ta::DataItem::builder();
    let mut last: [Option<f64>; 5] = [None; 5];
    let mut line = String::from("build");
    for pair in case.extra.chunks(2) {
        let (f, v) = (pair[0] as usize, pair[1]);
        last[f] = Some(v);
        let nm = ["open", "high", "low", "close", "volume"][f];
        line.push_str(&format!(" {} {}", nm, hexf(v)));
        b = match f {
            0 => b.open(v),
            1 => b.high(v),
            2 => b.low(v),
            3 => b.close(v),
            _ => b.volume(v),
        };
    }
    let res = std::panic::catch_unwind(std::panic::AssertUnwindSafe(|| b.build()));
    let res = match res {
        Ok(r) => r,
        Err(_) => return fail(case, "panic", "build() panicked".into()),
    };
    // log for the model differential
    let rhs = match &res {
        Ok(d) => format!("ok {} {} {} {} {}", hexf(d.open()), hexf(d.high()), hexf(d.low()), hexf(d.close()), hexf(d.volume())),
        Err(TaError::DataItemIncomplete) => "err incomplete".to_string(),
        Err(TaError::DataItemInvalid) => "err invalid".to_string(),
        Err(_) => "err param".to_string(),
    };
    if let Some(w) = rec.w.as_mut() {
        use std::io::Write;
        writeln!(w, "{} => {}", line, rhs).unwrap();
        rec.lines += 1;
    }
    let complete = last.iter().all(|x| x.is_some());
    match (&res, complete) {
        (Err(TaError::DataItemIncomplete), false) => return None,
        (_, false) => return fail(case, "incomplete-not-rejected", format!("setters {:?}: build() = {:?}, expected Err(DataItemIncomplete)", last, res)),
        (Err(TaError::DataItemIncomplete), true) => return fail(case, "complete-rejected-as-incomplete", format!("all five fields set {:?} but build() = Err(DataItemIncomplete)", last)),
        _ => {}
    }
    let (o, h, l, c, v) = (last[0].unwrap(), last[1].unwrap(), last[2].unwrap(), last[3].unwrap(), last[4].unwrap());
    let valid = l <= o && l <= c && l <= h && h >= o && h >= c && v >= 0.0;
    match (&res, valid) {
        (Ok(d), true) => {
            let same = |a: f64, b: f64| a.to_bits() == b.to_bits();
            if !(same(d.open(), o) && same(d.high(), h) && same(d.low(), l) && same(d.close(), c) && same(d.volume(), v)) {
                return fail(case, "getter", format!("set (o,h,l,c,v) = ({},{},{},{},{}) but getters return ({},{},{},{},{})", o, h, l, c, v, d.open(), d.high(), d.low(), d.close(), d.volume()));
            }
            if d.clone() != *d {
                return fail(case, "clone-ne", "clone does not compare equal".into());
            }
            None
        }
        (Err(TaError::DataItemInvalid), false) => None,
        (Ok(_), false) => fail(case, "invalid-accepted", format!("(o,h,l,c,v) = ({},{},{},{},{}) violates the six comparisons but build() = Ok", o, h, l, c, v)),
        (Err(e), true) => fail(case, "valid-rejected", format!("(o,h,l,c,v) = ({},{},{},{},{}) satisfies the six comparisons but build() = Err({:?})", o, h, l, c, v, e)),
        (Err(e), false) => fail(case, "wrong-error", format!("expected Err(DataItemInvalid), got Err({:?})", e)),
    }
}

pub fn generate(r: &mut Runner) {
    r.log_every = if r.tier == Tier::Quick { 13 } else { 7 };
    // all 10^5 lattice tuples, canonical setter order
    let n = LATTICE.len();
    for code in 0..n.pow(5) {
        let mut k = code;
        let mut c = Case::new("C16", "lattice", "DataItem", &[], &[]);
        for f in 0..5 {
            c.extra.push(f as f64);
            c.extra.push(LATTICE[k % n]);
            k /= n;
        }
        r.run(c, true);
    }
    r.exhaustive = true;
    // all 32 subsets of setters
    for mask in 0..32u32 {
        let mut c = Case::new("C16", "subset", "DataItem", &[], &[]);
        for f in 0..5 {
            if mask & (1 << f) != 0 {
                c.extra.push(f as f64);
                c.extra.push([1.5, 3.0, 1.0, 2.0, 10.0][f]);
            }
        }
        r.run(c, true);
    }
    // orders with repetitions: the last value per field wins, order is irrelevant
    let cases = if r.tier == Tier::Quick { 3000 } else { 60000 };
    for _ in 0..cases {
        let mut c = Case::new("C16", "orders", "DataItem", &[], &[]);
        let k = r.rng.range(3, 12);
        for _ in 0..k {
            let f = r.rng.below(5);
            let v = if r.rng.chance(0.5) { *r.rng.pick(LATTICE) } else { (r.rng.unit() - 0.2) * 100.0 };
            c.extra.push(f as f64);
            c.extra.push(v);
        }
        r.run(c, true);
    }
}

pub const RULE: &str = "all 10^5 five-tuples over the lattice {-inf,-2,-1,-0.0,0.0,1,2,3,+inf,NaN} (every order type of the four prices, every sign class of volume, NaN in every position) — exhaustive; all 32 subsets of the five setters; random setter sequences of length 3..12 with repetitions and arbitrary order (half lattice, half random finite values): the oracle recomputes completeness and the six comparisons from the LAST value per field, and compares getters bit for bit. Every build is also logged and replayed on the generated model of DataItemBuilder (sampled). All cases non-trivial; distinct = distinct setter sequences.";
