//! C16 — DataItem builder accepts exactly the consistent bars and returns what was set.
use super::util::*;
use crate::case::{Case, Failure};
use crate::rec::{hexf, Rec};
use crate::runner::{Runner, Tier};
use ta::errors::TaError;
use ta::{Close, High, Low, Open, Volume};

pub const LATTICE: &[f64] = &[f64::NEG_INFINITY, -2.0, -1.0, -0.0, 0.0, 1.0, 2.0, 3.0, f64::INFINITY, f64::NAN];

/// extra = sequence of (field code 0..4, value) pairs: the setters called, in order
pub fn check(case: &Case, rec: &mut Rec) -> Option<Failure> {
    let mut b = ta::DataItem::builder();
    let mut last: [Option<f64>; 5] = [None; 5];
    let mut line = String::from("build");
    for pair in case.extra.chunks(2) {
        let (f, v) = (pair[0] as usize, pair[1]);
        last[f] = Some(v);
        let nm = ["open", "high", "low", "close", "volume"][f];
        line.push_str(&format!(" {} {}", nm, hexf(v)));
        b = match f {
            0 => b.open(v),
            1 => b.high(v),
            2 => b.low(v),
            3 => b.close(v),
            _ => b.volume(v),
        };
    }
    let res = std::panic::catch_unwind(std::panic::AssertUnwindSafe(|| b.build()));
    let res = match res {
        Ok(r) => r,
        Err(_) => return fail(case, "panic", "build() panicked".into()),
    };
    // log for the model differential
    let rhs = match &res {
        Ok(d) => format!("ok {} {} {} {} {}", hexf(d.open()), hexf(d.high()), hexf(d.low()), hexf(d.close()), hexf(d.volume())),
        Err(TaError::DataItemIncomplete) => "err incomplete".to_string(),
        Err(TaError::DataItemInvalid) => "err invalid".to_string(),
        Err(_) => "err param".to_string(),
    };
    if let Some(w) = rec.w.as_mut() {
        use std::io::Write;
        writeln!(w, "{} => {}", line, rhs).unwrap();
        rec.lines += 1;
    }
    let complete = last.iter().all(|x| x.is_some());
    match (&res, complete) {
        (Err(TaError::DataItemIncomplete), false) => return None,
        (_, false) => return fail(case, "incomplete-not-rejected", format!("setters {:?}: build() = {:?}, expected Err(DataItemIncomplete)", last, res)),
        (Err(TaError::DataItemIncomplete), true) => return fail(case, "complete-rejected-as-incomplete", format!("all five fields set {:?} but build() = Err(DataItemIncomplete)", last)),
        _ => {}
    }
    let (o, h, l, c, v) = (last[0].unwrap(), last[1].unwrap(), last[2].unwrap(), last[3].unwrap(), last[4].unwrap());
    let valid = l <= o && l <= c && l <= h && h >= o && h >= c && v >= 0.0;
    match (&res, valid) {
        (Ok(d), true) => {
            let same = |a: f64, b: f64| a.to_bits() == b.to_bits();
            if !(same(d.open(), o) && same(d.high(), h) && same(d.low(), l) && same(d.close(), c) && same(d.volume(), v)) {
                return fail(case, "getter", format!("set (o,h,l,c,v) = ({},{},{},{},{}) but getters return ({},{},{},{},{})", o, h, l, c, v, d.open(), d.high(), d.low(), d.close(), d.volume()));
            }
            if d.clone() != *d {
                return fail(case, "clone-ne", "clone does not compare equal".into());
            }
            None
        }
        (Err(TaError::DataItemInvalid), false) => None,
        (Ok(_), false) => fail(case, "invalid-accepted", format!("(o,h,l,c,v) = ({},{},{},{},{}) violates the six comparisons but build() = Ok", o, h, l, c, v)),
        (Err(e), true) => fail(case, "valid-rejected", format!("(o,h,l,c,v) = ({},{},{},{},{}) satisfies the six comparisons but build() = Err({:?})", o, h, l, c, v, e)),
        (Err(e), false) => fail(case, "wrong-error", format!("expected Err(DataItemInvalid), got Err({:?})", e)),
    }
}

/// `x` moved by `k` units in the last place (k < 0: towards −inf), walking over the sign change and through the
/// subnormals; saturates at ±f64::MAX (never produces inf/NaN from a finite input)
pub fn step_ulps(x: f64, k: i64) -> f64 {
    // monotone integer image of the finite floats: −0.0 and 0.0 both map to 0
    let b = x.to_bits();
    let mag = (b & 0x7fff_ffff_ffff_ffff) as i64;
    let ord = if b >> 63 == 1 { -mag } else { mag };
    let top = f64::MAX.to_bits() as i64;
    let o = (ord + k).clamp(-top, top);
    if o < 0 {
        -f64::from_bits((-o) as u64)
    } else {
        f64::from_bits(o as u64)
    }
}

/// a finite price of an arbitrary binade (sign, exponent and mantissa all random), or one of the extreme finite values
fn any_finite(r: &mut Runner) -> f64 {
    match r.rng.below(8) {
        0 => *r.rng.pick(&[f64::MAX, -f64::MAX, 1e308, -1e308, 1.7e308, 6e307, f64::MIN_POSITIVE, -f64::MIN_POSITIVE, 5e-324, -5e-324, 1e-310, 2.2250738585072009e-308, 0.0, -0.0]),
        1 => {
            // subnormal
            let m = r.rng.u64() & 0x000f_ffff_ffff_ffff;
            let x = f64::from_bits(m);
            if r.rng.chance(0.3) { -x } else { x }
        }
        2 | 3 => {
            // the top binades: sums of two or three such prices overflow
            let e = 0x7fe - r.rng.below(3) as u64;
            let x = f64::from_bits((e << 52) | (r.rng.u64() & 0x000f_ffff_ffff_ffff));
            if r.rng.chance(0.3) { -x } else { x }
        }
        _ => loop {
            let x = f64::from_bits(r.rng.u64());
            if x.is_finite() {
                break x;
            }
        },
    }
}

/// a "market" price: the cent grid 0.01..=1000.00 (k/100 rounded to f64, as parsed from a decimal string), sometimes
/// a tick grid of another size or an arbitrary value
fn market_price(r: &mut Runner) -> f64 {
    match r.rng.below(6) {
        0 => r.rng.range(1, 100000) as f64 / 1e4,
        1 => (r.rng.unit() - 0.2) * 1000.0,
        2 => r.rng.range(1, 100000) as f64 * 0.01,
        _ => r.rng.range(1, 100000) as f64 / 100.0,
    }
}

fn bar_case(kind: &str, o: f64, h: f64, l: f64, c: f64, v: f64) -> Case {
    let mut cs = Case::new("C16", kind, "DataItem", &[], &[]);
    cs.extra = vec![0.0, o, 1.0, h, 2.0, l, 3.0, c, 4.0, v];
    cs
}

pub fn generate(r: &mut Runner) {
    r.log_every = if r.tier == Tier::Quick { 13 } else { 7 };
    // all 10^5 lattice tuples, canonical setter order
    let n = LATTICE.len();
    for code in 0..n.pow(5) {
        let mut k = code;
        let mut c = Case::new("C16", "lattice", "DataItem", &[], &[]);
        for f in 0..5 {
            c.extra.push(f as f64);
            c.extra.push(LATTICE[k % n]);
            k /= n;
        }
        r.run(c, true);
    }
    r.exhaustive = true;
    // all 32 subsets of setters
    for mask in 0..32u32 {
        let mut c = Case::new("C16", "subset", "DataItem", &[], &[]);
        for f in 0..5 {
            if mask & (1 << f) != 0 {
                c.extra.push(f as f64);
                c.extra.push([1.5, 3.0, 1.0, 2.0, 10.0][f]);
            }
        }
        r.run(c, true);
    }
    // orders with repetitions: the last value per field wins, order is irrelevant
    let cases = if r.tier == Tier::Quick { 3000 } else { 60000 };
    for _ in 0..cases {
        let mut c = Case::new("C16", "orders", "DataItem", &[], &[]);
        let k = r.rng.range(3, 12);
        for _ in 0..k {
            let f = r.rng.below(5);
            let v = if r.rng.chance(0.5) { *r.rng.pick(LATTICE) } else { (r.rng.unit() - 0.2) * 100.0 };
            c.extra.push(f as f64);
            c.extra.push(v);
        }
        r.run(c, true);
    }
    // FLAT bars (open = high = low = close = p, always consistent): every price of the cent grid 0.01..=1000.00
    // (thorough: all 10^5; quick: every 7th plus random ones), with volume 0 / positive
    let stride = if r.tier == Tier::Quick { 7 } else { 1 };
    let mut k = 1 + r.rng.below(stride);
    while k <= 100000 {
        let p = k as f64 / 100.0;
        let v = *r.rng.pick(&[0.0, 1.0, 1250.0, 1e9]);
        r.run(bar_case("flat-cent", p, p, p, p, v), true);
        k += stride;
    }
    // flat and consistent bars at arbitrary finite magnitudes: any sign, every binade, subnormals, the top binades
    // (where sums of prices overflow) and the extreme values themselves
    let cases = if r.tier == Tier::Quick { 6000 } else { 200000 };
    for i in 0..cases {
        let v = match r.rng.below(5) {
            0 => 0.0,
            1 => any_finite(r).abs(),
            2 => f64::MAX,
            _ => r.rng.unit() * 1e6,
        };
        if i % 2 == 0 {
            let p = if r.rng.chance(0.3) { market_price(r) } else { any_finite(r) };
            r.run(bar_case("flat-any", p, p, p, p, v), true);
        } else {
            // four prices of (mostly) neighbouring magnitudes, sorted into a consistent bar
            let a = any_finite(r);
            let mut q = [a, 0.0, 0.0, 0.0];
            for j in 1..4 {
                q[j] = match r.rng.below(4) {
                    0 => any_finite(r),
                    1 => q[r.rng.below(j)],
                    2 => a * (0.5 + r.rng.unit()),
                    _ => step_ulps(a, r.rng.range(0, 2000) as i64 - 1000),
                };
            }
            let lo = q.iter().cloned().fold(f64::INFINITY, f64::min);
            let hi = q.iter().cloned().fold(f64::NEG_INFINITY, f64::max);
            let (o, c) = (*r.rng.pick(&q), *r.rng.pick(&q));
            r.run(bar_case("consistent-any", o, hi, lo, c, v), true);
        }
    }
    // NEAR-TIES around each of the six comparisons: a consistent bar is drawn, then the field on one side of one
    // comparison is placed k units in the last place (k in −4..=4, every value) from the field on the other side —
    // the boundary of the accepted set, one ulp at a time; the oracle recomputes the exact comparisons
    let rounds = if r.tier == Tier::Quick { 700 } else { 30000 };
    for _ in 0..rounds {
        // base bar l <= o, c <= h at a market or an arbitrary magnitude
        let (mut o, mut h, mut l, mut c);
        if r.rng.chance(0.6) {
            let p = market_price(r);
            let w = p.abs() * 0.02 * r.rng.unit();
            l = p - w;
            h = p + w;
            o = l + (h - l) * r.rng.unit();
            c = l + (h - l) * r.rng.unit();
        } else {
            let p = any_finite(r);
            l = step_ulps(p, -(r.rng.range(0, 64) as i64));
            h = step_ulps(p, r.rng.range(0, 64) as i64);
            o = p;
            c = if r.rng.chance(0.5) { l } else { h };
        }
        if r.rng.chance(0.2) {
            // flat base: every comparison is a tie
            o = l;
            c = l;
            h = l;
        }
        let v0 = if r.rng.chance(0.5) { 0.0 } else { r.rng.unit() * 1e4 };
        let cmp = r.rng.below(6);
        let moved_first = r.rng.chance(0.5);
        for k in -4i64..=4 {
            let (mut o2, mut h2, mut l2, mut c2, mut v2) = (o, h, l, c, v0);
            // comparison #cmp is  a <= b ; either a := b + k ulps or b := a + k ulps
            match (cmp, moved_first) {
                (0, true) => l2 = step_ulps(o, k),
                (0, false) => o2 = step_ulps(l, k),
                (1, true) => l2 = step_ulps(c, k),
                (1, false) => c2 = step_ulps(l, k),
                (2, true) => l2 = step_ulps(h, k),
                (2, false) => h2 = step_ulps(l, k),
                (3, true) => o2 = step_ulps(h, k),
                (3, false) => h2 = step_ulps(o, k),
                (4, true) => c2 = step_ulps(h, k),
                (4, false) => h2 = step_ulps(c, k),
                _ => v2 = step_ulps(if moved_first { 0.0 } else { -0.0 }, k),
            }
            r.run(bar_case("near-tie", o2, h2, l2, c2, v2), true);
        }
    }
}

pub const RULE: &str = "all 10^5 five-tuples over the lattice {-inf,-2,-1,-0.0,0.0,1,2,3,+inf,NaN} (every order type of the four prices, every sign class of volume, NaN in every position) — exhaustive; all 32 subsets of the five setters; random setter sequences of length 3..12 with repetitions and arbitrary order (half lattice, half random finite values); FLAT bars o=h=l=c=p for the prices of the cent grid 0.01..=1000.00 (all 10^5 thorough, every 7th from a random offset quick) and for p of any sign and binade: uniformly random bit patterns, subnormals, the three top binades, f64::MAX, 1e308, MIN_POSITIVE, 5e-324, ±0 (volume 0, random, subnormal or f64::MAX); consistent non-flat bars sorted from four such prices (equal, neighbouring within 1000 ulps, within a factor 2, or unrelated); NEAR-TIES: from a consistent (20% flat) bar on a market grid or at an arbitrary magnitude, one side of ONE of the six comparisons (l<=o, l<=c, l<=h, o<=h, c<=h, 0<=v; which side moves is random) is set to the other side + k units in the last place for every k in −4..=4 (crossing zero and the subnormals for volume): the oracle recomputes completeness and the six comparisons exactly from the LAST value per field, and compares getters bit for bit. Every build is also logged and replayed on the generated model of DataItemBuilder (sampled). All cases non-trivial; distinct = distinct setter sequences.";
