//! C10 — feeding a bar equals feeding its documented price field; other fields are ignored.
use super::util::*;
use crate::case::{Case, Failure, Op};
use crate::dd::tau;
use crate::gen;
use crate::ind::{self, Ind, B};
use crate::rec::Rec;
use crate::runner::{Runner, Tier};

/// which field the bar path is documented to equal on the scalar path
fn scalar_field(name: &str) -> Option<fn(&B) -> f64> {
    match name {
        "SimpleMovingAverage" | "ExponentialMovingAverage" | "WeightedMovingAverage" | "StandardDeviation" | "MeanAbsoluteDeviation"
        | "RelativeStrengthIndex" | "MovingAverageConvergenceDivergence" | "PercentagePriceOscillator" | "EfficiencyRatio" | "BollingerBands"
        | "RateOfChange" => Some(|b| b.c),
        "Minimum" => Some(|b| b.l),
        "Maximum" => Some(|b| b.h),
        _ => None,
    }
}
const ONE_PRICE: &[&str] = &["FastStochastic", "SlowStochastic", "TrueRange", "AverageTrueRange", "KeltnerChannel"];

/// fields an indicator is documented to read: (open, high, low, close, volume)
fn reads(name: &str) -> [bool; 5] {
    match name {
        "Minimum" => [false, false, true, false, false],
        "Maximum" => [false, true, false, false, false],
        "FastStochastic" | "SlowStochastic" | "TrueRange" | "AverageTrueRange" | "KeltnerChannel" | "ChandelierExit" | "CommodityChannelIndex" => [false, true, true, true, false],
        "MoneyFlowIndex" => [false, true, true, true, true],
        "OnBalanceVolume" => [false, false, false, true, true],
        _ => [false, false, false, true, false],
    }
}

pub fn check(case: &Case, rec: &mut Rec) -> Option<Failure> {
    let a = match mk(case, rec) {
        Ok(i) => i,
        Err(f) => return Some(f),
    };
    match case.kind.as_str() {
        "bar-vs-field" | "one-price" => {
            let s = match mk(case, rec) {
                Ok(i) => i,
                Err(f) => return Some(f),
            };
            let fld = scalar_field(&case.ind);
            let mut big = 0.0f64;
            for (i, op) in case.ops.iter().enumerate() {
                if let Op::Bar(b) = op {
                    let x = match fld {
                        Some(f) => f(b),
                        None => b.c, // one-price bar: all four equal
                    };
                    big = big.max(x.abs());
                    let ob = match rec.bar(a, b) {
                        Some(o) => o,
                        None => return fail(case, "panic", format!("bar path panicked at {}", i)),
                    };
                    let os = match rec.next(s, x) {
                        Some(o) => o,
                        None => return fail(case, "panic", format!("scalar path panicked at {}", i)),
                    };
                    let ok = if case.ind == "KeltnerChannel" {
                        // (x+x+x)/3 may round: within τ(t)·M
                        ob.iter().zip(os.iter()).all(|(p, q)| (p.is_nan() && q.is_nan()) || (p - q).abs() <= tau(i + 1) * big * case.ms[0].abs().max(1.0) || p == q)
                    } else {
                        all_close(&ob, &os, 1e-12)
                    };
                    if !ok {
                        return fail(case, "bar-differs-from-field", format!("op {}: next(&bar {:?}) = {:?} but next({:e}) = {:?}", i, b, ob, x, os));
                    }
                    // after a non-finite one-price bar the two TrueRange paths legitimately differ
                    // (f64::max drops the NaN distance): the one-price claim is compared up to that bar
                    if case.kind == "one-price" && !x.is_finite() {
                        break;
                    }
                }
            }
            None
        }
        "unread-fields" => {
            // twin fed the same bars with every undocumented field replaced by garbage
            let t = match mk(case, rec) {
                Ok(i) => i,
                Err(f) => return Some(f),
            };
            let rd = reads(&case.ind);
            for (i, op) in case.ops.iter().enumerate() {
                if let Op::Bar(b) = op {
                    let g = case.extra[i % case.extra.len()];
                    let p = B {
                        o: if rd[0] { b.o } else { g },
                        h: if rd[1] { b.h } else { -g * 3.0 },
                        l: if rd[2] { b.l } else { g * 7.0 + 1.0 },
                        c: if rd[3] { b.c } else { g },
                        v: if rd[4] { b.v } else { -g - 2.0 },
                    };
                    let o1 = rec.bar(a, b);
                    let o2 = rec.bar(t, &p);
                    match (o1, o2) {
                        (Some(x), Some(y)) => {
                            if !all_close(&x, &y, 0.0) {
                                return fail(case, "reads-undocumented-field", format!("op {}: {:?} -> {:?} but with unread fields perturbed {:?} -> {:?}", i, b, x, p, y));
                            }
                        }
                        _ => return fail(case, "panic", format!("panic at {}", i)),
                    }
                }
            }
            None
        }
        "dataitem" => {
            // DataItem behaves like any other implementor carrying the same numbers
            let mut other = Ind::create(&case.ind, &case.ps, &case.ms).unwrap().unwrap();
            for (i, op) in case.ops.iter().enumerate() {
                if let Op::Bar(b) = op {
                    let item = match ta::DataItem::builder().open(b.o).high(b.h).low(b.l).close(b.c).volume(b.v).build() {
                        Ok(it) => it,
                        Err(_) => continue,
                    };
                    let o1 = match rec.bar(a, b) {
                        Some(o) => o,
                        None => return fail(case, "panic", format!("panic at {}", i)),
                    };
                    let o2 = other.next_item(&item);
                    if !all_close(&o1, &o2, 0.0) {
                        return fail(case, "dataitem-differs", format!("op {}: user type gives {:?}, DataItem with the same numbers gives {:?}", i, o1, o2));
                    }
                }
            }
            None
        }
        _ => None,
    }
}

pub fn generate(r: &mut Runner) {
    let cases = if r.tier == Tier::Quick { 1100 } else { 30000 };
    r.log_every = if r.tier == Tier::Quick { 17 } else { 307 };
    let maxlen = if r.tier == Tier::Quick { 120 } else { 800 };
    for i in 0..cases {
        let name = ind::NAMES[i % ind::NAMES.len()];
        let (ps, ms) = crate::diff::params_for(&mut r.rng, name, 40);
        // "every parameter choice": multipliers of either sign, fractional, zero of either sign, large
        let ms: Vec<f64> = ms.iter().map(|_| *r.rng.pick(MULTIPLIERS)).collect();
        let len = r.rng.range(1, maxlen);
        // every fourth round of the indicator list on a tiny scale (an absolute epsilon in one of the two paths
        // shows only on values far below 1)
        let scale = if (i / ind::NAMES.len()) % 4 == 3 { *r.rng.pick(TINY_SCALES) } else { *r.rng.pick(&[1.0, 100.0, 1e6]) };
        let kinds: Vec<&str> = {
            let mut k = vec!["unread-fields", "dataitem"];
            if scalar_field(name).is_some() {
                k.push("bar-vs-field");
                k.push("bar-vs-field");
            }
            if ONE_PRICE.contains(&name) {
                k.push("one-price");
                k.push("one-price");
            }
            k
        };
        let kind = kinds[(i / ind::NAMES.len()) % kinds.len()];
        let mut c = Case::new("C10", kind, name, &ps, &ms);
        match kind {
            "one-price" => {
                let regime = *r.rng.pick(gen::REGIMES);
                let xs = gen::stream(&mut r.rng, regime, len, false, scale);
                c.ops = xs.into_iter().map(|x| Op::Bar(B { o: x, h: x, l: x, c: x, v: 1.0 })).collect();
                if i % 3 == 0 && c.ops.len() > 2 {
                    let at = r.rng.range(1, c.ops.len() - 1);
                    let w = *r.rng.pick(&[f64::NAN, f64::INFINITY, f64::NEG_INFINITY]);
                    c.ops[at] = Op::Bar(B { o: w, h: w, l: w, c: w, v: 1.0 });
                }
            }
            "dataitem" => {
                let regime = *r.rng.pick(gen::REGIMES);
                let xs = gen::stream(&mut r.rng, regime, len, true, scale);
                c.ops = gen::valid_bars(&mut r.rng, &xs).into_iter().map(Op::Bar).collect();
            }
            _ => {
                // five independent fields, not only consistent OHLC
                c.ops = (0..len).map(|_| Op::Bar(if r.rng.chance(0.05) { gen::weird_bar(&mut r.rng, scale) } else { gen::free_bar(&mut r.rng, scale) })).collect();
                c.extra = (0..7).map(|_| (r.rng.unit() - 0.5) * scale * 10.0).collect();
            }
        }
        r.run(c, len > 1);
    }
    // one-price bars vs the scalar path and bar vs documented field on tiny scales, all-positive streams (spreads far
    // below 2.2e-16 between DIFFERENT prices), for every multiplier sign
    let reps = if r.tier == Tier::Quick { 3 } else { 40 };
    for name in ind::NAMES {
        let one = ONE_PRICE.contains(name);
        if !one && scalar_field(name).is_none() {
            continue;
        }
        for scale in TINY_SCALES {
            for _ in 0..reps {
                let (ps, ms) = crate::diff::params_for(&mut r.rng, name, 20);
                let ms: Vec<f64> = ms.iter().map(|_| *r.rng.pick(MULTIPLIERS)).collect();
                let len = r.rng.range(2, maxlen);
                let regime = *r.rng.pick(&["walk", "alt", "plateau", "saw", "trend", "mixed", "alphabet"]);
                let xs = gen::stream(&mut r.rng, regime, len, true, *scale);
                let mut c = Case::new("C10", if one { "one-price" } else { "bar-vs-field" }, name, &ps, &ms);
                if one {
                    c.ops = xs.into_iter().map(|x| Op::Bar(B { o: x, h: x, l: x, c: x, v: 1.0 })).collect();
                } else {
                    // the documented field follows the stream, the other four fields are unrelated values on the same scale
                    let f = scalar_field(name).unwrap();
                    c.ops = xs
                        .into_iter()
                        .map(|x| {
                            let mut b = B { o: *scale * r.rng.unit(), h: *scale * 3.0 * r.rng.unit(), l: -*scale * r.rng.unit(), c: *scale * 7.0 * r.rng.unit(), v: r.rng.unit() };
                            // put x into the field the indicator is documented to read
                            for (k, probe) in [B { o: 1.0, h: 0.0, l: 0.0, c: 0.0, v: 0.0 }, B { o: 0.0, h: 1.0, l: 0.0, c: 0.0, v: 0.0 }, B { o: 0.0, h: 0.0, l: 1.0, c: 0.0, v: 0.0 }, B { o: 0.0, h: 0.0, l: 0.0, c: 1.0, v: 0.0 }].iter().enumerate() {
                                if f(probe) == 1.0 {
                                    match k {
                                        0 => b.o = x,
                                        1 => b.h = x,
                                        2 => b.l = x,
                                        _ => b.c = x,
                                    }
                                }
                            }
                            Op::Bar(b)
                        })
                        .collect();
                }
                r.run(c, true);
            }
        }
    }
}

pub const TINY_SCALES: &[f64] = &[1e-9, 1e-17, 1e-20, 1e-300];
pub const MULTIPLIERS: &[f64] = &[-1e3, -3.0, -2.5, -1.0, -0.5, -0.0, 0.0, 0.25, 1.0 / 3.0, 0.5, 1.0, 1.5, 2.0, 2.5, 3.0, 10.0, 1e3];

pub const RULE: &str = "bar-vs-field: an instance fed bars whose five fields vary independently (5% with non-finite fields) vs a twin fed the documented scalar field (close; low for Minimum; high for Maximum), 1e-12 relative; one-price: FastStochastic, SlowStochastic, TrueRange, ATR, KeltnerChannel fed bars open=high=low=close=x vs the scalar path on x (KeltnerChannel within tau(t)*M for the rounding of (x+x+x)/3); unread-fields: twin fed the same bars with every field outside the documented read set (open always; volume except MFI/OBV; high/low for close-only indicators, ...) replaced by unrelated values - outputs must be bit-identical; dataitem: a user-defined implementor vs ta::DataItem carrying the same numbers. Parameters: periods to 40; multipliers (BB, KC, CE) from {-1e3, -3, -2.5, -1, -0.5, -0, 0, 0.25, 1/3, 0.5, 1, 1.5, 2, 2.5, 3, 10, 1e3} (either sign, fractional). Scales {1, 100, 1e6} and, every fourth round of the indicator list, the tiny scales {1e-9, 1e-17, 1e-20, 1e-300}; plus a tiny-scale stage: for each tiny scale, 3 (quick) / 40 (thorough) all-positive streams per indicator (periods to 20) - one-price bars for the five one-price indicators, and for the bar-vs-field indicators bars whose documented field follows the stream while the other fields are unrelated values of the same scale - so that DIFFERENT prices less than 2.2e-16 apart are compared. Non-trivial = more than one bar.";
