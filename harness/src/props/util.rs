use crate::case::{Case, Failure, Op};
use crate::ind::B;
use crate::rec::{NewRes, Rec};

pub fn fail(case: &Case, symptom: &str, msg: String) -> Option<Failure> {
    Some(Failure { key: format!("{}:{}", case.ind, symptom), msg })
}

/// construct the case's indicator; a failing constructor is itself a failure of the case
pub fn mk(case: &Case, rec: &mut Rec) -> Result<usize, Failure> {
    let (id, r) = rec.new_ind(&case.ind, &case.ps, &case.ms);
    if r == NewRes::Ok {
        Ok(id)
    } else {
        Err(Failure { key: format!("{}:ctor", case.ind), msg: format!("constructor returned {:?} for {:?} {:?}", r, case.ps, case.ms) })
    }
}

pub fn bar_mag(b: &B) -> f64 {
    b.h.abs().max(b.l.abs()).max(b.c.abs())
}

/// same value up to `rel` relative (bit-identical, both NaN, or equal infinities also pass)
pub fn close_rel(a: f64, b: f64, rel: f64) -> bool {
    if a.is_nan() && b.is_nan() {
        return true;
    }
    if a == b {
        return true;
    }
    if !a.is_finite() || !b.is_finite() {
        return false;
    }
    (a - b).abs() <= rel * a.abs().max(b.abs())
}

pub fn all_close(a: &[f64], b: &[f64], rel: f64) -> bool {
    a.len() == b.len() && a.iter().zip(b.iter()).all(|(x, y)| close_rel(*x, *y, rel))
}

pub fn feed(rec: &mut Rec, id: usize, op: &Op) -> Option<Option<Vec<f64>>> {
    match op {
        Op::Next(x) => Some(rec.next(id, *x)),
        Op::Bar(b) => Some(rec.bar(id, b)),
        Op::Reset => {
            if rec.reset(id) {
                Some(Some(vec![]))
            } else {
                Some(None)
            }
        }
        Op::Mark => None,
    }
}
