//! C15 — composite indicators agree with wiring their public building blocks by hand.
use super::util::*;
use crate::case::{Case, Failure, Op};
use crate::dd::*;
use crate::gen;
use crate::ind::{Ind, B};
use crate::rec::Rec;
use crate::runner::{Runner, Tier};

pub const INDS: &[&str] = &["BollingerBands", "SlowStochastic", "AverageTrueRange", "MovingAverageConvergenceDivergence", "PercentagePriceOscillator", "KeltnerChannel", "ChandelierExit", "CommodityChannelIndex"];

fn mkp(name: &str, ps: &[usize]) -> Ind {
    Ind::create(name, ps, &[]).unwrap().unwrap()
}

pub fn check(case: &Case, rec: &mut Rec) -> Option<Failure> {
    let id = match mk(case, rec) {
        Ok(i) => i,
        Err(f) => return Some(f),
    };
    let p = &case.ps;
    let m = case.ms.first().copied().unwrap_or(1.0);
    let name = case.ind.as_str();
    // standalone public parts
    let mut sma = mkp("SimpleMovingAverage", &[p[0]]);
    let mut sd = mkp("StandardDeviation", &[p[0]]);
    let mut mad = mkp("MeanAbsoluteDeviation", &[p[0]]);
    let mut fast = mkp("FastStochastic", &[p[0]]);
    let mut ema_a = mkp("ExponentialMovingAverage", &[p[0]]);
    let mut ema_b = mkp("ExponentialMovingAverage", &[p.get(1).copied().unwrap_or(1)]);
    let mut ema_c = mkp("ExponentialMovingAverage", &[p.get(2).copied().unwrap_or(1)]);
    let mut tr = mkp("TrueRange", &[]);
    let mut atr = mkp("AverageTrueRange", &[p[0]]);
    let mut mn = mkp("Minimum", &[p[0]]);
    let mut mx = mkp("Maximum", &[p[0]]);
    let mut big = 0.0f64;
    let mut t = 0usize;
    for (i, op) in case.ops.iter().enumerate() {
        let (out, x, bar): (Vec<f64>, f64, Option<B>) = match op {
            Op::Next(x) => (rec.next(id, *x)?, *x, None),
            Op::Bar(b) => (rec.bar(id, b)?, b.c, Some(*b)),
            _ => continue,
        };
        t += 1;
        big = big.max(match &bar {
            Some(b) => bar_mag(b),
            None => x.abs(),
        });
        let tol = tau(t) * big;
        // expected outputs from the parts, with per-output tolerance
        let exp: Vec<(f64, f64)> = match name {
            "BollingerBands" => {
                let a = sma.next(x)[0];
                let s = sd.next(x)[0];
                // average within τ·M of SMA; half-width vs m·SD on variances
                let hw_u = (out[1] - out[0]) / m;
                let hw_l = (out[0] - out[2]) / m;
                let vtol = tau(t) * big * big + 8.0 * f64::EPSILON * (out[0].abs() + (s * m).abs()) * (s / m.abs().max(1e-300)).abs().max(f64::EPSILON * big);
                if m != 0.0 && (!((hw_u * hw_u - s * s).abs() <= vtol) || !((hw_l * hw_l - s * s).abs() <= vtol)) {
                    return fail(case, "bb-halfwidth", format!("step {}: half-widths/m = {:e}, {:e} vs standalone SD {:e}", i, hw_u, hw_l, s));
                }
                vec![(a, tol), (out[1], 0.0), (out[2], 0.0)]
            }
            "SlowStochastic" => {
                let f = match &bar {
                    Some(b) => fast.next_bar(b)[0],
                    None => fast.next(x)[0],
                };
                vec![(ema_b.next(f)[0], tau(t) * 100.0)]
            }
            "AverageTrueRange" => {
                let r = match &bar {
                    Some(b) => tr.next_bar(b)[0],
                    None => tr.next(x)[0],
                };
                vec![(ema_a.next(r)[0], tol)]
            }
            "MovingAverageConvergenceDivergence" => {
                let line = ema_a.next(x)[0] - ema_b.next(x)[0];
                let sig = ema_c.next(line)[0];
                vec![(line, tol), (sig, tol), (line - sig, tol)]
            }
            "PercentagePriceOscillator" => {
                let (f, s) = (ema_a.next(x)[0], ema_b.next(x)[0]);
                let line = (f - s) / s * 100.0;
                let sig = ema_c.next(line)[0];
                let c = (big / s.abs()).max(1.0);
                if !(c <= 1e6) {
                    continue;
                }
                vec![(line, tau(t) * c * 100.0), (sig, tau(t) * c * 100.0), (line - sig, tau(t) * c * 100.0)]
            }
            "KeltnerChannel" => {
                let (avg, a) = match &bar {
                    Some(b) => (ema_a.next((b.c + b.h + b.l) / 3.0)[0], atr.next_bar(b)[0]),
                    None => (ema_a.next(x)[0], atr.next(x)[0]),
                };
                let tm = tol * m.abs().max(1.0);
                vec![(avg, tol), (avg + a * m, tm), (avg - a * m, tm)]
            }
            "ChandelierExit" => {
                let b = bar.as_ref().unwrap();
                let a = atr.next_bar(b)[0] * m;
                let lo = mn.next(b.l)[0];
                let hi = mx.next(b.h)[0];
                let tm = tol * m.abs().max(1.0);
                vec![(hi - a, tm), (lo + a, tm)]
            }
            "CommodityChannelIndex" => {
                let b = bar.as_ref().unwrap();
                let tp = (b.c + b.h + b.l) / 3.0;
                let a = sma.next(tp)[0];
                let d = mad.next(tp)[0];
                if d == 0.0 {
                    vec![(0.0, 0.0)]
                } else {
                    let c = (big / d).max(1.0);
                    if !(c <= 1e6) {
                        continue;
                    }
                    vec![((tp - a) / (0.015 * d), tau(t) * c / 0.015)]
                }
            }
            _ => vec![],
        };
        for (j, ((want, tl), got)) in exp.iter().zip(out.iter()).enumerate() {
            let ok = (got.is_nan() && want.is_nan()) || got == want || (got - want).abs() <= *tl;
            if !ok {
                return fail(case, &format!("wiring-out{}", j), format!("step {} (t={}): composite output #{} = {:e}, hand-wired public parts give {:e} (|diff| {:e} > {:e})", i, t, j, got, want, (got - want).abs(), tl));
            }
        }
    }
    None
}

/// band multipliers: a third small dyadic rationals (exact in every float format), a third "decimal" factors as users
/// write them (not representable in binary, let alone in f32 or in a few mantissa bits), a third random ones with a
/// full 53-bit mantissa in (−4, 12), any sign
pub const DYADIC_MULTS: &[f64] = &[0.5, 1.0, 2.0, 3.0, 10.0, 0.0, -1.0, -2.5];
pub const DECIMAL_MULTS: &[f64] = &[2.1, 1.3, 1.618, 1.0 / 3.0, 0.1, 2.2, 2.3, 1.9, 0.7, 2.00001, 3.3, -1.1, -0.3, 1.4142135623730951, 2.718281828459045, 1e-3, 7.77];
fn multiplier(r: &mut Runner) -> f64 {
    match r.rng.below(3) {
        0 => *r.rng.pick(DYADIC_MULTS),
        1 => *r.rng.pick(DECIMAL_MULTS),
        _ => r.rng.unit() * 16.0 - 4.0,
    }
}

pub fn generate(r: &mut Runner) {

    // HUGE positive scalars (0.61..0.75 × 1e308, above f64::MAX / 3) for the composites with a scalar path: the hand-wired
    // public parts stay finite there (|multiplier| <= 0.5), so must the composite
    for name in ["MovingAverageConvergenceDivergence", "PercentagePriceOscillator", "KeltnerChannel"] {
        // (only the composites whose definition is LINEAR in the prices: squares overflow legitimately at this magnitude)
        for rep in 0..(if r.tier == Tier::Quick { 4 } else { 40 }) {
            let (np, nm) = crate::ind::arity(name).unwrap();
            let ps: Vec<usize> = (0..np).map(|_| gen::period(&mut r.rng, if rep % 2 == 0 { 5 } else { 40 })).collect();
            let ms: Vec<f64> = (0..nm).map(|_| *r.rng.pick(&[0.5, -0.5, 0.25, 0.0])).collect();
            let mut c = Case::new("C15", "huge-positive-scalars", name, &ps, &ms);
            let n = r.rng.range(2, 40);
            for _ in 0..n {
                c.ops.push(Op::Next(1e308 * (0.61 + 0.14 * r.rng.unit())));
            }
            r.run(c, true);
        }
    }
    let cases = if r.tier == Tier::Quick { 640 } else { 24000 };
    r.log_every = if r.tier == Tier::Quick { 7 } else { 307 };
    let maxlen = if r.tier == Tier::Quick { 400 } else { 3000 };
    for i in 0..cases {
        let name = INDS[i % INDS.len()];
        let (np, nm) = crate::ind::arity(name).unwrap();
        let ps: Vec<usize> = (0..np).map(|_| gen::period(&mut r.rng, 200)).collect();
        let ms: Vec<f64> = (0..nm).map(|_| multiplier(r)).collect();
        let len = r.rng.range(1, maxlen);
        let regime = *r.rng.pick(gen::REGIMES);
        let scale = *r.rng.pick(&[1e-17, 1e-9, 1e-2, 1.0, 100.0, 1e6]);
        let bars = !crate::ind::has_next_name(name) || (name != "BollingerBands" && name != "MovingAverageConvergenceDivergence" && name != "PercentagePriceOscillator" && r.rng.chance(0.5));
        let positive = bars || r.rng.chance(0.5);
        let xs = gen::stream(&mut r.rng, regime, len, positive, scale);
        let mut c = Case::new("C15", if bars { "bars" } else { "scalars" }, name, &ps, &ms);
        if bars {
            c.ops = gen::valid_bars(&mut r.rng, &xs).into_iter().map(Op::Bar).collect();
        } else {
            c.ops = xs.into_iter().map(Op::Next).collect();
        }
        let maxp = ps.iter().copied().max().unwrap_or(1);
        let nt = c.ops.len() > maxp;
        r.run(c, nt);
    }
    // long / wide stage (hidden update counters inside a composite, "re-derive the state every 2^k inputs", windows
    // larger than such an interval): per composite (a) periods in 513..=1300 over 4000 (quick) / 12000 inputs and
    // (b) small periods over 2^16+ (quick) / 2^20+ inputs, every step compared with the hand-wired public parts
    r.log_every = u64::MAX; // too long for the op log
    let reps = if r.tier == Tier::Quick { 1 } else { 3 };
    for name in INDS {
        for rep in 0..2 * reps {
            let wide = rep % 2 == 0;
            let (np, nm) = crate::ind::arity(name).unwrap();
            let ps: Vec<usize> = (0..np).map(|_| if wide { r.rng.range(513, 1300) } else { r.rng.range(1, 20) }).collect();
            let ms: Vec<f64> = (0..nm).map(|_| multiplier(r)).collect();
            let len = if wide { if r.tier == Tier::Quick { 4000 } else { 12000 } } else { (if r.tier == Tier::Quick { 1usize << 16 } else { 1usize << 20 }) + r.rng.range(50, 400) };
            let regime = *r.rng.pick(gen::REGIMES);
            let scale = *r.rng.pick(&[1e-2, 1.0, 100.0, 1e6]);
            let bars = !crate::ind::has_next_name(name) || (*name != "BollingerBands" && *name != "MovingAverageConvergenceDivergence" && *name != "PercentagePriceOscillator" && r.rng.chance(0.5));
            let xs = gen::stream(&mut r.rng, regime, len, true, scale);
            let mut c = Case::new("C15", if wide { "long-wide" } else { "long-narrow" }, name, &ps, &ms);
            if bars {
                c.ops = gen::valid_bars(&mut r.rng, &xs).into_iter().map(Op::Bar).collect();
            } else {
                c.ops = xs.into_iter().map(Op::Next).collect();
            }
            r.run(c, true);
        }
    }
}

pub const RULE: &str = "huge-positive-scalars stage: MACD, PPO and KeltnerChannel (definitions linear in the prices) fed 2..40 values in 0.61..0.75×1e308 with |multiplier| <= 0.5 (parts and composite must both stay finite and agree); then: 8 composites × periods to 200 × multipliers (a third each: the dyadic set {0.5,1,2,3,10,0,-1,-2.5}; decimal factors not representable in binary/f32 {2.1,1.3,1.618,1/3,0.1,2.2,2.3,1.9,0.7,2.00001,3.3,-1.1,-0.3,sqrt 2,e,1e-3,7.77}; uniformly random 53-bit values in [−4,12)) × finite scalar streams (half strictly positive, half of any sign — centred on zero with probability 1/2 — for every composite with a scalar path, PPO included: its division by the slow EMA is judged whenever M/|slow EMA| <= 1e6, negative slow EMAs too) / valid bars with close != (high+low)/2 in 9 regimes; at every step the composite's outputs are compared with separately constructed PUBLIC parts (SMA, StandardDeviation, MAD, FastStochastic, EMA×3, TrueRange, ATR, Minimum, Maximum) fed the same stream and combined as documented: tau(t)·M (×condition number for PPO and CCI, on variances for the Bollinger half-width). Non-trivial = longer than the largest period. Long / wide stage (not in the op log): per composite 1 (quick) / 3 (thorough) streams of 4000 / 12000 inputs with every period in 513..=1300 and as many streams of 2^16+ / 2^20+ inputs with periods 1..=20, every step compared the same way (a window wider than, or a run longer than, any internal re-derivation interval up to 2^16 / 2^20).";
