//! C14 — outputs are covariant with the price unit: rescaling/shifting act as in the math.
use super::util::*;
use crate::case::{Case, Failure, Op};
use crate::gen;
use crate::ind::{self, Ind, B};
use crate::rec::Rec;
use crate::runner::{Runner, Tier};

/// price-valued outputs scale with c; dimensionless ones do not
fn price_valued(name: &str) -> bool {
    matches!(name, "SimpleMovingAverage" | "ExponentialMovingAverage" | "WeightedMovingAverage" | "Minimum" | "Maximum" | "StandardDeviation"
        | "MeanAbsoluteDeviation" | "TrueRange" | "AverageTrueRange" | "MovingAverageConvergenceDivergence" | "BollingerBands" | "KeltnerChannel" | "ChandelierExit")
}
/// shift behaviour: Some(true) = shifts by d, Some(false) = unchanged, None = not claimed
fn shift_kind(name: &str) -> Option<bool> {
    match name {
        "SimpleMovingAverage" | "ExponentialMovingAverage" | "WeightedMovingAverage" | "Minimum" | "Maximum" | "BollingerBands" | "KeltnerChannel" | "ChandelierExit" => Some(true),
        "StandardDeviation" | "MeanAbsoluteDeviation" | "TrueRange" | "AverageTrueRange" | "MovingAverageConvergenceDivergence" | "FastStochastic" => Some(false),
        _ => None,
    }
}

fn scale_op(op: &Op, c: f64, d: f64, scale_volume: bool) -> Op {
    match op {
        Op::Next(x) => Op::Next(x * c + d),
        Op::Bar(b) => Op::Bar(B { o: b.o * c + d, h: b.h * c + d, l: b.l * c + d, c: b.c * c + d, v: if scale_volume { b.v } else { b.v } }),
        o => o.clone(),
    }
}

/// the scaled stream is the stream: x·c is finite, non-zero (unless x is) and scales back to x exactly
fn scales_exactly(x: f64, c: f64) -> bool {
    let y = x * c;
    y.is_finite() && (y != 0.0 || x == 0.0) && y / c == x
}

/// factors outside the documented 2^±40 band ("arbitrary positive factors"): the claim is about f(c·x), so such a
/// case is judged only if c·x IS the scaled stream — every scaled price exactly representable (no overflow, no bits
/// lost in the subnormal range).  Always true inside the band.
pub fn scaled_stream_exact(case: &Case) -> bool {
    let c = case.extra[0];
    if c.abs().log2().abs() <= 40.0 {
        return true;
    }
    case.ops.iter().all(|op| match op {
        Op::Next(x) => scales_exactly(*x, c),
        Op::Bar(b) => scales_exactly(b.o, c) && scales_exactly(b.h, c) && scales_exactly(b.l, c) && scales_exactly(b.c, c),
        _ => true,
    })
}

/// extra = [c, d, mode, fresh]  mode 0: scale by c; mode 1: shift by d; mode 2: Maximum(x) = −Minimum(−x);
/// fresh (optional, default 0) = 1: at an Op::Reset the instance under test is reset but its twin is REPLACED by a
/// newly constructed one (a recycled instance must be covariant with a fresh one), 0: both are reset
pub fn check(case: &Case, rec: &mut Rec) -> Option<Failure> {
    let (c, d, mode) = (case.extra[0], case.extra[1], case.extra[2] as i32);
    let fresh = case.extra.get(3).copied().unwrap_or(0.0) == 1.0;
    if mode == 0 && !scaled_stream_exact(case) {
        return None;
    }
    let a = match mk(case, rec) {
        Ok(i) => i,
        Err(f) => return Some(f),
    };
    let name = case.ind.as_str();
    if mode == 2 {
        let mut mn = Ind::create("Minimum", &case.ps, &[]).unwrap().unwrap();
        for (i, op) in case.ops.iter().enumerate() {
            if *op == Op::Reset {
                if !rec.reset(a) {
                    return fail(case, "panic", format!("reset panicked at op {}", i));
                }
                if fresh {
                    mn = Ind::create("Minimum", &case.ps, &[]).unwrap().unwrap();
                } else {
                    mn.reset();
                }
            }
            if let Op::Next(x) = op {
                let mx = rec.next(a, *x)?;
                let m = mn.next(-*x);
                if mx[0] != -m[0] {
                    return fail(case, "max-min-duality", format!("step {}: Maximum(x) = {} but −Minimum(−x) = {}", i, mx[0], -m[0]));
                }
            }
        }
        return None;
    }
    let mut twin = Ind::create(&case.ind, &case.ps, &case.ms).unwrap().unwrap();
    let pow2 = c.abs().log2().fract() == 0.0;
    let rel = if mode == 0 { if pow2 { 1e-12 } else { 1e-9 } } else { 1e-9 };
    let mut big = 0.0f64;
    let mut big2 = 0.0f64; // magnitude of the TRANSFORMED run: tolerances are relative to it
    // conditioning of dimensionless outputs (ratios): reuse the C03 reference
    let mut cref = super::c03::Ref::new(name, &case.ps);
    for (i, op) in case.ops.iter().enumerate() {
        let (o1, o2, judged) = match op {
            Op::Next(x) => {
                big = big.max(x.abs());
                big2 = big2.max((x * c + d).abs());
                let o1 = rec.next(a, *x)?;
                let o2 = twin.next(x * c + d);
                (o1, o2, cref.step(Some(*x), None))
            }
            Op::Bar(b) => {
                big = big.max(bar_mag(b));
                big2 = big2.max(bar_mag(b) * c.abs() + d.abs());
                let o1 = rec.bar(a, b)?;
                let sb = scale_op(op, c, d, false);
                let o2 = if let Op::Bar(sb) = &sb { twin.next_bar(sb) } else { vec![] };
                (o1, o2, cref.step(None, Some(b)))
            }
            Op::Reset => {
                // both runs restart: the instance under test is reset; its twin is reset too, or replaced by a new one
                if !rec.reset(a) {
                    return fail(case, "panic", format!("reset panicked at op {}", i));
                }
                if fresh {
                    twin = Ind::create(&case.ind, &case.ps, &case.ms).unwrap().unwrap();
                } else {
                    twin.reset();
                }
                cref = super::c03::Ref::new(name, &case.ps);
                big = 0.0;
                big2 = 0.0;
                continue;
            }
            _ => continue,
        };
        for (j, (p, q)) in o1.iter().zip(o2.iter()).enumerate() {
            // dispersion outputs are compared as variances (sqrt is ill-conditioned near 0):
            // SD itself, and the Bollinger half-widths
            let disp = name == "StandardDeviation" || (name == "BollingerBands" && j > 0);
            if disp {
                // Bollinger half-widths are multiplier·SD: compare the SDs
                let mdiv = if name == "BollingerBands" && case.ms[0] != 0.0 { case.ms[0] } else { 1.0 };
                let (a, b) = if name == "BollingerBands" { ((p - o1[0]) / mdiv, (q - o2[0]) / mdiv) } else { (*p, *q) };
                let want = if mode == 0 { a * c } else { a };
                let scale = big2;
                let ok = (a.is_nan() && b.is_nan()) || (b * b - want * want).abs() <= rel * scale * scale;
                if !ok {
                    return fail(case, if mode == 0 { "scale-covariance" } else { "shift-covariance" }, format!("step {} output #{} (dispersion, compared as variance): {:e} vs {:e} expected {:e}", i, j, a, b, want));
                }
                continue;
            }
            let (want, tol) = if mode == 0 {
                if price_valued(name) {
                    // compare relative to the largest magnitude (differences of EMAs may cancel)
                    (p * c, rel * big2.max(p.abs() * c.abs()))
                } else {
                    let cond = judged.get(j).and_then(|x| x.as_ref()).map(|x| x.c * x.scale).unwrap_or(f64::INFINITY);
                    if !(cond <= 1e6) && !pow2 {
                        continue;
                    }
                    (*p, if pow2 { rel * p.abs() } else { rel * cond })
                }
            } else {
                match shift_kind(name) {
                    Some(true) => (p + d, rel * big2),
                    Some(false) => {
                        if name == "FastStochastic" {
                            let cond = judged.get(j).and_then(|x| x.as_ref()).map(|x| x.c * x.scale).unwrap_or(f64::INFINITY);
                            if !(cond * (1.0 + d.abs() / big.max(1e-300)) <= 1e6) {
                                continue;
                            }
                            (*p, rel * cond * (1.0 + d.abs()))
                        } else {
                            // "unchanged within rounding": both runs are within the drift budget tau(t) of the
                            // exact value (C13), which is tighter than 1e-9 for t below a few thousand
                            let t = (i + 1) as f64;
                            (*p, (2.0 * (1e-12 + 1e-15 * t.powf(1.5))).min(rel) * big2)
                        }
                    }
                    None => continue,
                }
            };
            let ok = (p.is_nan() && q.is_nan()) || *q == want || (q - want).abs() <= tol;
            if !ok {
                let what = if mode == 0 { format!("scale c = {:e}", c) } else { format!("shift d = {:e}", d) };
                return fail(case, if mode == 0 { "scale-covariance" } else { "shift-covariance" }, format!("step {} output #{}: f(x) = {:e}, f({}) = {:e}, expected {:e} (tol {:e})", i, j, p, what, q, want, tol));
            }
        }
    }
    None
}

pub fn generate(r: &mut Runner) {
    let cases = if r.tier == Tier::Quick { 1100 } else { 33000 };
    r.log_every = if r.tier == Tier::Quick { 23 } else { 503 };
    let maxlen = if r.tier == Tier::Quick { 200 } else { 1500 };
    let names: Vec<&str> = ind::NAMES.iter().copied().filter(|n| *n != "RelativeStrengthIndex").collect();
    for i in 0..cases {
        let name = names[i % names.len()];
        let (ps, ms) = crate::diff::params_for(&mut r.rng, name, 64);
        // every random choice comes from the PRNG (index arithmetic would alias with the indicator cycle)
        let mode = match r.rng.below(4) {
            0 | 1 => 0,
            2 => if shift_kind(name).is_some() { 1 } else { 0 },
            _ => if name == "Maximum" { 2 } else { 0 },
        };
        // exponents: the extremes of −40..=40 as often as the middle (absolute epsilons / hard-coded levels
        // only show in very small or very large price units)
        let k = if r.rng.chance(0.5) { *r.rng.pick(&[-40, -39, -36, -33, -30, -27, 27, 30, 33, 36, 39, 40]) } else { r.rng.range(0, 80) as i32 - 40 };
        let c = if mode != 0 { 1.0 } else if r.rng.chance(0.33) { *r.rng.pick(&[3.0, 0.1, 7.25, 1e3, 0.37]) } else { (2.0f64).powi(k) };
        let scale = *r.rng.pick(&[1.0, 100.0, 1e4]);
        let d = if mode == 1 { scale * *r.rng.pick(&[0.5, 3.0, 10.0, 100.0]) } else { 0.0 };
        let len = r.rng.range(1, maxlen);
        let regime = *r.rng.pick(gen::REGIMES);
        let mut xs = gen::stream(&mut r.rng, regime, len, true, scale);
        let mut d = d;
        let mut kind = ["scale", "shift", "max-min"][mode as usize].to_string();
        // shift, nearly flat stream: prices B + r·2^-20 (r in −8..=8, all exact), shifted by a d that is orders of
        // magnitude above B: a threshold RELATIVE to the price level is scale-covariant but not shift-covariant
        if mode == 1 && r.rng.chance(0.35) {
            let (b0, d0) = *r.rng.pick(&[(2.0, 1048576.0), (384.0, 16000.0), (1.0, 65536.0)]);
            let tick = (2.0f64).powi(-20);
            for x in xs.iter_mut() {
                *x = b0 + (r.rng.below(17) as f64 - 8.0) * tick;
            }
            d = d0;
            kind = "shift-nearly-flat".to_string();
        }
        let mut cse = Case::new("C14", &kind, name, &ps, &ms);
        cse.extra = vec![c, d, mode as f64];
        if ind::has_next_name(name) && (mode == 2 || r.rng.chance(0.6)) {
            cse.ops = xs.into_iter().map(Op::Next).collect();
        } else {
            cse.ops = gen::valid_bars(&mut r.rng, &xs).into_iter().map(Op::Bar).collect();
        }
        add_resets(r, &mut cse, 0.4);
        r.run(cse, len > 2);
    }
    // EXTREME factors ("arbitrary positive factors", far outside 2^±40) on streams that live on a coarse dyadic grid
    let cases = if r.tier == Tier::Quick { 420 } else { 12000 };
    for i in 0..cases {
        let name = names[i % names.len()];
        let (ps, ms) = crate::diff::params_for(&mut r.rng, name, 64);
        let len = r.rng.range(1, maxlen.min(400));
        let bars = !(ind::has_next_name(name) && r.rng.chance(0.5));
        let ops = grid_ops(r, len, bars);
        let ks = extreme_exponents(name);
        let k = *r.rng.pick(ks);
        // mostly pure powers of two; sometimes 3·2^k, 5·2^k (still exact on a grid with few mantissa bits)
        let m = if r.rng.chance(0.8) { 1.0 } else { *r.rng.pick(&[3.0, 5.0, 0.75]) };
        let c = m * (2.0f64).powi(k / 2) * (2.0f64).powi(k - k / 2);
        let mut cse = Case::new("C14", "scale-extreme", name, &ps, &ms);
        cse.extra = vec![c, 0.0, 0.0];
        cse.ops = ops;
        add_resets(r, &mut cse, 0.25);
        let judged = scaled_stream_exact(&cse);
        r.count(if judged { "extreme:judged" } else { "extreme:not-judged(scaled stream inexact)" });
        r.run(cse, len > 2 && judged);
    }
}

/// with probability `p` insert one or two resets at random interior positions; half of those cases re-create the
/// twin instead of resetting it (extra[3] = 1)
fn add_resets(r: &mut Runner, cse: &mut Case, p: f64) {
    if cse.ops.len() < 2 || !r.rng.chance(p) {
        return;
    }
    let k = r.rng.range(1, 2);
    for _ in 0..k {
        let pos = r.rng.range(1, cse.ops.len() - 1);
        cse.ops.insert(pos, Op::Reset);
    }
    let fresh = r.rng.chance(0.5);
    cse.extra.push(if fresh { 1.0 } else { 0.0 });
    cse.kind = format!("{}+{}", cse.kind, if fresh { "reset-vs-new" } else { "reset" });
}

/// exponents k of the extreme factors 2^k explored per indicator — see RULE for the three classes
fn extreme_exponents(name: &str) -> &'static [i32] {
    match name {
        // only exact operations on the grid (compare, add, subtract) and quotients of exactly scaled operands
        "Minimum" | "Maximum" | "FastStochastic" | "SlowStochastic" | "RateOfChange" | "EfficiencyRatio" | "TrueRange" | "OnBalanceVolume" => &[-1060, -1040, -1030, -1022, -1012, -1000, -960, -700, -300, -100, -41, 41, 100, 300, 700, 900, 960, 1010],
        // squares of prices: twice the exponent must stay in range
        "StandardDeviation" | "BollingerBands" => &[-480, -300, -100, -41, 41, 100, 300, 480],
        // rounded products / means of prices: every intermediate must stay a NORMAL number
        _ => &[-900, -700, -300, -100, -41, 41, 100, 300, 700, 900],
    }
}

/// a stream on a coarse dyadic grid: prices B + r·2^-j (r a small integer), as scalars or as consistent bars whose
/// four prices all lie on the grid (volume a small integer)
fn grid_ops(r: &mut Runner, len: usize, bars: bool) -> Vec<Op> {
    let (b0, j) = *r.rng.pick(&[(100.0f64, 2), (100.0, 13), (96.0, 0), (1.0, 10), (1000.0, 3), (25.5, 4), (3.0, 1), (100.0, 0)]);
    let tick = (2.0f64).powi(-j);
    let room = (b0 / tick / 4.0).floor().max(1.0) as usize;
    let amp = (*r.rng.pick(&[1usize, 3, 8, 100, 1000])).min(room);
    let walk = r.rng.chance(0.5);
    let mut pos: i64 = 0;
    let mut ops = Vec::with_capacity(len);
    let mut prev = b0;
    for _ in 0..len {
        if walk {
            pos = (pos + r.rng.range(0, 4) as i64 - 2).clamp(-(amp as i64), amp as i64);
        } else if !r.rng.chance(0.15) {
            pos = r.rng.range(0, 2 * amp) as i64 - amp as i64;
        }
        let x = b0 + pos as f64 * tick;
        if bars {
            let o = if r.rng.chance(0.5) { prev } else { x };
            let up = r.rng.below(4) as f64 * tick;
            let dn = (r.rng.below(4) as f64 * tick).min(o.min(x) - tick);
            let flat = r.rng.chance(0.1);
            let (o, h, l) = if flat { (x, x, x) } else { (o, o.max(x) + up, o.min(x) - dn) };
            ops.push(Op::Bar(B { o, h, l, c: x, v: r.rng.below(1000) as f64 }));
        } else {
            ops.push(Op::Next(x));
        }
        prev = x;
    }
    ops
}

pub const RULE: &str = "21 indicators (RSI excluded as the property states) × periods to 64 × positive price streams / valid bars in 9 regimes; two instances fed x and c·x (c = 2^k, k in −40..=40, in two thirds of the scale cases; c in {3, 0.1, 7.25, 1e3, 0.37} otherwise) or x and x + d (d > 0) step by step (a third of the shift cases: nearly flat streams B + r·2^-20 shifted by d >> B; outputs that must stay unchanged are then compared within 2·tau(t)·M); price-valued outputs must scale / shift, dimensionless ones stay equal: 1e-12 relative for powers of two, 1e-9 otherwise, ratios judged when their condition number (from the C03 reference) is <= 1e6; Maximum(x) = −Minimum(−x) exactly. RESETS: 40% of these cases (25% of the extreme ones) carry one or two reset() calls at random interior positions of the op sequence; the instance under test is reset, and its twin is either reset at the same point or (half of them, kind …+reset-vs-new) REPLACED by a newly constructed instance, so a recycled instance must be covariant with a fresh one; magnitudes and conditioning restart at the reset. EXTREME FACTORS (kind scale-extreme, 420 quick / 12000 thorough): streams on a coarse dyadic grid — prices B + r·2^-j with (B, j) in {(100,2),(100,13),(96,0),(1,10),(1000,3),(25.5,4),(3,1),(100,0)}, r an integer walk or i.i.d. draw of amplitude 1..1000 ticks, as scalars or as consistent bars with all four prices on the grid (10% flat bars, integer volume) — scaled by c = m·2^k, m = 1 (80%) or 3, 5, 0.75, judged only if every scaled price is exactly representable (x·c finite, non-zero, (x·c)/c = x; counted as extreme:judged / not-judged), with the same tolerances as above; k per class, each verified on the unchanged crate: (A) Minimum, Maximum, FastStochastic, SlowStochastic, RateOfChange, EfficiencyRatio, TrueRange, OBV use only comparisons, exact sums/differences of grid values and quotients of exactly scaled operands, so scaling is bit-exact down into the subnormals and up to overflow: k in {−1060,−1040,−1030,−1022,−1012,−1000,−960,−700,−300,−100,−41,41,100,300,700,900,960,1010}; (B) SMA, EMA, WMA, MAD, ATR, MACD, PPO, CCI, MFI, Keltner, Chandelier round products/means of prices, which is covariant only while every intermediate is a normal number (measured: first failures at k <= −1000 and k >= 1010): k in {±41,±100,±300,±700,±900}; (C) StandardDeviation, BollingerBands square prices (overflow from k ~ 500, squares flush to zero below k ~ −500): k in {±41,±100,±300,±480}. Volume is not a price and is left unscaled. Non-trivial = more than 2 inputs (and, for extreme factors, judged).";
