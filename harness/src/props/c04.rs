//! C04 — reset() returns every indicator to a state indistinguishable from a fresh one.
use super::util::*;
use crate::case::{Case, Failure, Op};
use crate::gen;
use crate::ind;
use crate::rec::Rec;
use crate::runner::{Runner, Tier};

pub fn check(case: &Case, rec: &mut Rec) -> Option<Failure> {
    let a = match mk(case, rec) {
        Ok(i) => i,
        Err(f) => return Some(f),
    };
    let mark = case.ops.iter().position(|o| *o == Op::Mark).unwrap_or(case.ops.len());
    for (i, op) in case.ops[..mark].iter().enumerate() {
        match feed(rec, a, op) {
            Some(None) => return fail(case, "panic", format!("panic in history at op {}", i)),
            _ => {}
        }
    }
    let (p0, m0, d0) = (rec.period(a), rec.multiplier(a), rec.display(a));
    if !rec.reset(a) {
        return fail(case, "panic", "reset panicked".into());
    }
    let (p1, m1, d1) = (rec.period(a), rec.multiplier(a), rec.display(a));
    if p0 != p1 || d0 != d1 || m0.map(|x| x.to_bits()) != m1.map(|x| x.to_bits()) {
        return fail(case, "params-changed", format!("reset changed parameters: {:?}/{:?}/{} -> {:?}/{:?}/{}", p0, m0, d0, p1, m1, d1));
    }
    // twice-reset copy, fresh twin, fresh-then-reset twin
    let a2 = rec.clone_(a);
    if !rec.reset(a2) {
        return fail(case, "panic", "second reset panicked".into());
    }
    let b = match mk(case, rec) {
        Ok(i) => i,
        Err(f) => return Some(f),
    };
    let b2 = match mk(case, rec) {
        Ok(i) => i,
        Err(f) => return Some(f),
    };
    if !rec.reset(b2) {
        return fail(case, "panic", "reset of a fresh instance panicked".into());
    }
    for (i, op) in case.ops[(mark + 1).min(case.ops.len())..].iter().enumerate() {
        let want = match feed(rec, b, op) {
            Some(Some(o)) => o,
            Some(None) => return fail(case, "panic", format!("fresh instance panicked at continuation op {}", i)),
            None => continue,
        };
        for (who, id) in [("after reset", a), ("after two resets", a2), ("fresh then reset", b2)] {
            let got = match feed(rec, id, op) {
                Some(Some(o)) => o,
                _ => return fail(case, "panic", format!("{} instance panicked at continuation op {}", who, i)),
            };
            if !all_close(&got, &want, 1e-12) {
                let sym = if who == "after reset" { "differs-from-fresh" } else if who == "after two resets" { "not-idempotent" } else { "reset-of-fresh-changes" };
                return fail(case, sym, format!("continuation op {} ({:?}): {} gives {:?}, fresh instance gives {:?}", i, op, who, got, want));
            }
        }
    }
    None
}

/// a history for `ind`: finite regime + optional weird values + interior resets
pub fn history(r: &mut Runner, ind: &str, len: usize, weird_p: f64, scale: f64) -> Vec<Op> {
    let bars_only = !ind::has_next_name(ind);
    let regime = *r.rng.pick(gen::REGIMES);
    let positive = r.rng.chance(0.5);
    let xs = gen::stream(&mut r.rng, regime, len, positive, scale);
    let bars = gen::valid_bars(&mut r.rng, &xs);
    let use_bars = bars_only || r.rng.chance(0.4);
    let mut ops = vec![];
    for i in 0..len {
        let weird = r.rng.chance(weird_p);
        if use_bars {
            ops.push(Op::Bar(if weird { gen::weird_bar(&mut r.rng, scale) } else if r.rng.chance(0.05) { gen::free_bar(&mut r.rng, scale) } else { bars[i] }));
        } else {
            ops.push(Op::Next(if weird { gen::weird(&mut r.rng) } else { xs[i] }));
        }
        if r.rng.chance(0.02) {
            ops.push(Op::Reset);
        }
    }
    ops
}

pub fn generate(r: &mut Runner) {
    // stage 1: exhaustive small scope — periods 1..=4 (single-period indicators), alphabet incl. NaN and +inf,
    // all histories up to depth d followed by a fixed discriminating continuation
    let a: &[f64] = &[1.0, 3.0, -2.0, f64::NAN, f64::INFINITY];
    let depth = if r.tier == Tier::Quick { 3 } else { 5 };
    r.log_every = 41;
    for name in ind::NAMES {
        let (np, nm) = ind::arity(name).unwrap();
        let bars_only = !ind::has_next_name(name);
        let period_sets: Vec<Vec<usize>> = match np {
            0 => vec![vec![]],
            1 => (1..=4).map(|p| vec![p]).collect(),
            2 => vec![vec![1, 1], vec![2, 3], vec![3, 1], vec![4, 2]],
            _ => vec![vec![1, 1, 1], vec![1, 2, 3], vec![3, 2, 1], vec![4, 2, 2]],
        };
        for ps in period_sets {
            let maxp = ps.iter().copied().max().unwrap_or(1);
            for d in 0..=depth {
                for code in 0..a.len().pow(d as u32) {
                    let ms: Vec<f64> = (0..nm).map(|_| 2.0).collect();
                    let mut c = Case::new("C04", "reset-exhaustive", name, &ps, &ms);
                    let mut k = code;
                    for _ in 0..d {
                        let x = a[k % a.len()];
                        k /= a.len();
                        c.ops.push(if bars_only { Op::Bar(crate::ind::B { o: x, h: x + 1.0, l: x - 1.0, c: x, v: 10.0 }) } else { Op::Next(x) });
                    }
                    c.ops.push(Op::Mark);
                    // continuation: n+3 *different* values incl. a NaN early and late
                    let cont_len = maxp + 3;
                    for j in 0..cont_len {
                        let x = if j == 0 && code % 2 == 1 { f64::NAN } else { 5.0 + (j as f64) * 1.5 * if j % 2 == 0 { 1.0 } else { -1.0 } };
                        c.ops.push(if bars_only { Op::Bar(crate::ind::B { o: x, h: x + 2.0, l: x - 0.5, c: x + 0.25, v: 7.0 + j as f64 }) } else { Op::Next(x) });
                    }
                    let nt = d > maxp; // history wrapped the window before the reset
                    r.run(c, nt);
                }
            }
        }
    }
    // stage 2: random deep histories incl. non-finite values and interior resets
    let cases = if r.tier == Tier::Quick { 660 } else { 22000 };
    r.log_every = if r.tier == Tier::Quick { 11 } else { 211 };
    for i in 0..cases {
        let name = ind::NAMES[i % ind::NAMES.len()];
        let (ps, ms) = crate::diff::params_for(&mut r.rng, name, if r.tier == Tier::Quick { 64 } else { 512 });
        let maxp = ps.iter().copied().max().unwrap_or(1);
        let hl = r.rng.range(0, if r.tier == Tier::Quick { 300 } else { 3000 });
        let weird_p = if r.rng.chance(0.5) { 0.03 } else { 0.0 };
        let scale = *r.rng.pick(&[1.0, 100.0, 1e6]);
        let mut c = Case::new("C04", "reset-random", name, &ps, &ms);
        c.ops = history(r, name, hl, weird_p, scale);
        c.ops.push(Op::Mark);
        let wp2 = if r.rng.chance(0.25) { 0.1 } else { 0.0 };
        let cl = maxp + 2 + r.rng.below(8);
        let cont = history(r, name, cl, wp2, scale);
        c.ops.extend(cont.into_iter().filter(|o| *o != Op::Reset));
        let nt = hl > maxp;
        r.run(c, nt);
    }
}

pub const RULE: &str = "stage 1: for all 22 indicators and periods 1..=4, every history of length 0..=d over {1,3,-2,NaN,+inf} followed by reset and a continuation of n+3 distinct values (starting with NaN for half of them), compared against a fresh instance, a twice-reset instance and a fresh-then-reset instance; stage 2: random deep histories (several regimes, 3% non-finite inputs, interior resets), random periods, continuation >= n+2 inputs (10% non-finite for a quarter of them). Non-trivial = the history before the reset is longer than the largest period (window filled / wrapped). Comparison: 1e-12 relative (NaN = NaN).";
