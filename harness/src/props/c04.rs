//! C04 — reset() returns every indicator to a state indistinguishable from a fresh one.
use super::util::*;
use crate::case::{Case, Failure, Op};
use crate::gen;
use crate::ind::{self, Ind, B};
use crate::rec::Rec;
use crate::rng::Rng;
use crate::runner::{Runner, Tier};

/// the special values of the small alphabets (window sentinels of Minimum/Maximum, NaN, signed zero)
pub const SPECIALS: &[f64] = &[f64::NAN, f64::INFINITY, f64::NEG_INFINITY, -0.0];

fn long_input(bars: bool, x: f64, i: usize) -> Op {
    if bars {
        Op::Bar(B { o: x, h: x + 1.0, l: x - 0.4, c: x + 0.3, v: 10.0 + (i % 5) as f64 })
    } else {
        Op::Next(x)
    }
}

fn drive(inst: &mut Ind, op: &Op) -> Vec<f64> {
    match op {
        Op::Next(x) => inst.next(*x),
        Op::Bar(b) => inst.next_bar(b),
        _ => vec![],
    }
}

/// kind reset-long: extra = [seed, history length, continuation length, spike position, spike value].
/// Both streams are regenerated from the seed (up to 2^24 inputs are not stored in the replay file); the
/// instances are driven directly (not through the recorder: nothing of this is logged for the model replay).
fn check_long(case: &Case) -> Option<Failure> {
    let seed = case.extra[0] as u64;
    let hl = case.extra[1] as usize;
    let cl = case.extra[2] as usize;
    let spike_at = case.extra[3] as usize;
    let spike = case.extra[4];
    let mut rng = Rng::new(seed);
    let mut a = Ind::create(&case.ind, &case.ps, &case.ms).unwrap().unwrap();
    let bars = !a.has_next();
    // history: ordinary prices around 100 with rare huge / non-finite ticks (reset has to wipe all of it)
    for i in 0..hl {
        let u = rng.unit();
        let x = if u < 0.0005 {
            *rng.pick(&[1e17, -1e17, f64::NAN, f64::INFINITY, f64::NEG_INFINITY, 1e-300])
        } else {
            100.0 + (rng.unit() - 0.5) * 20.0
        };
        drive(&mut a, &long_input(bars, x, i));
    }
    a.reset();
    let mut b = Ind::create(&case.ind, &case.ps, &case.ms).unwrap().unwrap();
    for t in 0..cl {
        let x = if t == spike_at { spike } else { 100.0 + (rng.unit() - 0.5) * 20.0 };
        let op = long_input(bars, x, t);
        let got = drive(&mut a, &op);
        let want = drive(&mut b, &op);
        if !all_close(&got, &want, 1e-12) {
            return fail(case, "differs-from-fresh", format!("history of {} inputs, reset, continuation input #{} ({:?}; one {:e} tick at #{}): after reset gives {:?}, fresh instance gives {:?}", hl, t, op, spike, spike_at, got, want));
        }
    }
    None
}

pub fn check(case: &Case, rec: &mut Rec) -> Option<Failure> {
    if case.kind == "reset-long" {
        return check_long(case);
    }
    let a = match mk(case, rec) {
        Ok(i) => i,
        Err(f) => return Some(f),
    };
    let mark = case.ops.iter().position(|o| *o == Op::Mark).unwrap_or(case.ops.len());
    for (i, op) in case.ops[..mark].iter().enumerate() {
        match feed(rec, a, op) {
            Some(None) => return fail(case, "panic", format!("panic in history at op {}", i)),
            _ => {}
        }
    }
    let (p0, m0, d0) = (rec.period(a), rec.multiplier(a), rec.display(a));
    if !rec.reset(a) {
        return fail(case, "panic", "reset panicked".into());
    }
    let (p1, m1, d1) = (rec.period(a), rec.multiplier(a), rec.display(a));
    if p0 != p1 || d0 != d1 || m0.map(|x| x.to_bits()) != m1.map(|x| x.to_bits()) {
        return fail(case, "params-changed", format!("reset changed parameters: {:?}/{:?}/{} -> {:?}/{:?}/{}", p0, m0, d0, p1, m1, d1));
    }
    // twice-reset copy, fresh twin, fresh-then-reset twin
    let a2 = rec.clone_(a);
    if !rec.reset(a2) {
        return fail(case, "panic", "second reset panicked".into());
    }
    let b = match mk(case, rec) {
        Ok(i) => i,
        Err(f) => return Some(f),
    };
    let b2 = match mk(case, rec) {
        Ok(i) => i,
        Err(f) => return Some(f),
    };
    if !rec.reset(b2) {
        return fail(case, "panic", "reset of a fresh instance panicked".into());
    }
    for (i, op) in case.ops[(mark + 1).min(case.ops.len())..].iter().enumerate() {
        let want = match feed(rec, b, op) {
            Some(Some(o)) => o,
            Some(None) => return fail(case, "panic", format!("fresh instance panicked at continuation op {}", i)),
            None => continue,
        };
        for (who, id) in [("after reset", a), ("after two resets", a2), ("fresh then reset", b2)] {
            let got = match feed(rec, id, op) {
                Some(Some(o)) => o,
                _ => return fail(case, "panic", format!("{} instance panicked at continuation op {}", who, i)),
            };
            if !all_close(&got, &want, 1e-12) {
                let sym = if who == "after reset" { "differs-from-fresh" } else if who == "after two resets" { "not-idempotent" } else { "reset-of-fresh-changes" };
                return fail(case, sym, format!("continuation op {} ({:?}): {} gives {:?}, fresh instance gives {:?}", i, op, who, got, want));
            }
        }
    }
    None
}

/// a history for `ind`: finite regime + optional weird values + interior resets
pub fn history(r: &mut Runner, ind: &str, len: usize, weird_p: f64, scale: f64) -> Vec<Op> {
    let bars_only = !ind::has_next_name(ind);
    let regime = *r.rng.pick(gen::REGIMES);
    let positive = r.rng.chance(0.5);
    let xs = gen::stream(&mut r.rng, regime, len, positive, scale);
    let bars = gen::valid_bars(&mut r.rng, &xs);
    let use_bars = bars_only || r.rng.chance(0.4);
    let mut ops = vec![];
    for i in 0..len {
        let weird = r.rng.chance(weird_p);
        if use_bars {
            ops.push(Op::Bar(if weird { gen::weird_bar(&mut r.rng, scale) } else if r.rng.chance(0.05) { gen::free_bar(&mut r.rng, scale) } else { bars[i] }));
        } else {
            ops.push(Op::Next(if weird { gen::weird(&mut r.rng) } else { xs[i] }));
        }
        if r.rng.chance(0.02) {
            ops.push(Op::Reset);
        }
    }
    ops
}

pub fn generate(r: &mut Runner) {
    // stage 1: exhaustive small scope — periods 1..=4 (single-period indicators), alphabet incl. NaN, BOTH infinities
    // (the window sentinels of Maximum and Minimum) and -0.0, all histories up to depth d, each followed by a
    // discriminating continuation whose first input is finite / NaN / +inf / -inf
    let a: &[f64] = &[1.0, 3.0, -2.0, f64::NAN, f64::INFINITY, f64::NEG_INFINITY, -0.0];
    let heads: &[Option<f64>] = &[None, Some(f64::NAN), Some(f64::INFINITY), Some(f64::NEG_INFINITY)];
    let depth = if r.tier == Tier::Quick { 3 } else { 5 };
    r.log_every = if r.tier == Tier::Quick { 401 } else { 4001 };
    for name in ind::NAMES {
        let (np, nm) = ind::arity(name).unwrap();
        let bars_only = !ind::has_next_name(name);
        let period_sets: Vec<Vec<usize>> = match np {
            0 => vec![vec![]],
            1 => (1..=4).map(|p| vec![p]).collect(),
            2 => vec![vec![1, 1], vec![2, 3], vec![3, 1], vec![4, 2]],
            _ => vec![vec![1, 1, 1], vec![1, 2, 3], vec![3, 2, 1], vec![4, 2, 2]],
        };
        for ps in period_sets {
            let maxp = ps.iter().copied().max().unwrap_or(1);
            for d in 0..=depth {
                // all four continuation heads up to depth 3; {finite, NaN} at depth 4; one (rotating) at depth 5
                let nheads = if d <= 3 { 4 } else if d == 4 { 2 } else { 1 };
                for code in 0..a.len().pow(d as u32) {
                    for hk in 0..nheads {
                        let head = if nheads == 1 { heads[code % 4] } else { heads[hk] };
                        let ms: Vec<f64> = (0..nm).map(|_| 2.0).collect();
                        let mut c = Case::new("C04", "reset-exhaustive", name, &ps, &ms);
                        let mut k = code;
                        for _ in 0..d {
                            let x = a[k % a.len()];
                            k /= a.len();
                            c.ops.push(if bars_only { Op::Bar(B { o: x, h: x + 1.0, l: x - 1.0, c: x, v: 10.0 }) } else { Op::Next(x) });
                        }
                        c.ops.push(Op::Mark);
                        // continuation: n+3 *different* values, the first one replaced by the head
                        let cont_len = maxp + 3;
                        for j in 0..cont_len {
                            let x = match (j, head) {
                                (0, Some(h)) => h,
                                _ => 5.0 + (j as f64) * 1.5 * if j % 2 == 0 { 1.0 } else { -1.0 },
                            };
                            c.ops.push(if bars_only { Op::Bar(B { o: x, h: x + 2.0, l: x - 0.5, c: x + 0.25, v: 7.0 + j as f64 }) } else { Op::Next(x) });
                        }
                        let nt = d > maxp; // history wrapped the window before the reset
                        r.run(c, nt);
                    }
                }
            }
        }
    }
    // stage 2: random deep histories incl. non-finite values and interior resets
    let cases = if r.tier == Tier::Quick { 660 } else { 22000 };
    r.log_every = if r.tier == Tier::Quick { 11 } else { 211 };
    for i in 0..cases {
        let name = ind::NAMES[i % ind::NAMES.len()];
        let (ps, ms) = crate::diff::params_for(&mut r.rng, name, if r.tier == Tier::Quick { 64 } else { 512 });
        let maxp = ps.iter().copied().max().unwrap_or(1);
        let hl = r.rng.range(0, if r.tier == Tier::Quick { 300 } else { 3000 });
        let weird_p = if r.rng.chance(0.5) { 0.03 } else { 0.0 };
        let scale = *r.rng.pick(&[1.0, 100.0, 1e6]);
        let mut c = Case::new("C04", "reset-random", name, &ps, &ms);
        c.ops = history(r, name, hl, weird_p, scale);
        // a third of the histories END in a run of special values (1..=n+2 inputs, one dominant value from
        // {NaN,+inf,-inf,-0.0} with a few others mixed in): the whole window is sentinel-like at the reset
        if r.rng.chance(0.33) {
            let k = r.rng.range(1, maxp + 2);
            let dom = *r.rng.pick(SPECIALS);
            let bars = !ind::has_next_name(name) || c.ops.iter().any(|o| matches!(o, Op::Bar(_)));
            for _ in 0..k {
                let x = if r.rng.chance(0.8) { dom } else { *r.rng.pick(SPECIALS) };
                c.ops.push(if bars { Op::Bar(B { o: x, h: x, l: x, c: x, v: 10.0 }) } else { Op::Next(x) });
            }
        }
        c.ops.push(Op::Mark);
        let wp2 = if r.rng.chance(0.25) { 0.1 } else { 0.0 };
        let cl = maxp + 2 + r.rng.below(8);
        let mut cont: Vec<Op> = history(r, name, cl, wp2, scale).into_iter().filter(|o| *o != Op::Reset).collect();
        // a third of the continuations START with a special value
        if r.rng.chance(0.33) {
            let x = *r.rng.pick(SPECIALS);
            cont[0] = match cont[0] {
                Op::Bar(b) => Op::Bar(if r.rng.chance(0.5) { B { h: x, ..b } } else { B { o: x, h: x, l: x, c: x, v: b.v } }),
                _ => Op::Next(x),
            };
        }
        c.ops.extend(cont);
        let nt = hl > maxp;
        r.run(c, nt);
    }
    // stage 3: LONG histories before the reset and long continuations: state that reset() forgets to clear may only be
    // consulted every 2^k calls (call counters, periodic re-synchronisation of running sums, …), and what it
    // does then is only visible on an ill-conditioned window: one 1e17 / 1e18 tick in the continuation leaves a
    // rounding residue in every incremental sum. History lengths straddle 2^12, 2^16, 2^20 (thorough: 2^24).
    r.log_every = u64::MAX;
    let rounds = if r.tier == Tier::Quick { 1 } else { 3 };
    for _ in 0..rounds {
        for name in ind::NAMES {
            let cl = if r.tier == Tier::Quick { 70_000usize } else { 140_000 };
            let mut hls: Vec<usize> = vec![
                65_530,
                (1 << 16) - r.rng.range(1, 60_000),
                (1 << 16) + r.rng.range(0, 5_000),
                (1 << 20) - r.rng.range(1, 60_000),
                (1 << 12) - r.rng.range(1, 4_000),
                r.rng.range(1, 200_000),
            ];
            if r.tier == Tier::Thorough {
                hls.push((1 << 20) + r.rng.range(0, 5_000));
                hls.push((1 << 24) - r.rng.range(1, 120_000));
            }
            for hl in hls {
                let (ps, ms) = crate::diff::params_for(&mut r.rng, name, 64);
                let maxp = ps.iter().copied().max().unwrap_or(1);
                let mut c = Case::new("C04", "reset-long", name, &ps, &ms);
                let spike_at = r.rng.below(cl - maxp - 100);
                let spike = *r.rng.pick(&[1e17, 1e18]);
                c.extra = vec![(r.rng.u64() % (1 << 50)) as f64, hl as f64, cl as f64, spike_at as f64, spike];
                r.steps += (hl + cl) as u64;
                r.run(c, true);
            }
        }
    }
}

pub const RULE: &str = "stage 1: for all 22 indicators and periods 1..=4, every history of length 0..=d (d = 3 quick / 5 thorough) over {1,3,-2,NaN,+inf,-inf,-0.0} followed by reset and a continuation of n+3 distinct values whose first input is, in turn, finite / NaN / +inf / -inf (all four up to depth 3, {finite,NaN} at depth 4, one rotating head at depth 5), compared against a fresh instance, a twice-reset instance and a fresh-then-reset instance; stage 2: random deep histories (several regimes, 3% non-finite inputs, interior resets; a third of them END in a run of 1..=n+2 special values from {NaN,+inf,-inf,-0.0}, one of them dominant, so that the whole window is sentinel-like at the reset), random periods, continuation >= n+2 inputs (10% non-finite for a quarter of them; a third START with a special value); stage 3 (kind reset-long, streams regenerated from a seed in extra): all 22 indicators, periods to 64, histories of 65530, 2^16-k, 2^16+k, 2^20-k, 2^12-k and a random number (<= 200000) of inputs (thorough: also 2^20+k, 2^24-k; k random) with rare 1e17 / non-finite ticks, reset, then a continuation of 70000 (thorough 140000) ordinary prices containing ONE 1e17 or 1e18 tick at a random position, compared with a fresh instance at every step (so that the total number of calls across the reset crosses 2^16 / 2^20 on an ill-conditioned window). Non-trivial = the history before the reset is longer than the largest period (window filled / wrapped). Comparison: 1e-12 relative (NaN = NaN).";
