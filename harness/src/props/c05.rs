//! C05 — clones and separate instances are independent and deterministic.
use super::util::*;
use crate::case::{Case, Failure, Op};
use crate::ind::{self, Ind};
use crate::rec::Rec;
use crate::runner::{Runner, Tier};

fn bits(v: &[f64]) -> Vec<u64> {
    v.iter().map(|x| if x.is_nan() { 0x7ff8_0000_0000_0000 } else { x.to_bits() }).collect()
}

fn same(a: &[f64], b: &[f64]) -> bool {
    bits(a) == bits(b)
}

pub fn check(case: &Case, rec: &mut Rec) -> Option<Failure> {
    if case.kind.starts_with("threads") {
        return check_threads(case);
    }
    if case.kind == "clone-from" {
        return check_clone_from(case, rec);
    }
    if case.kind == "drop-then-construct" {
        return check_drop_construct(case);
    }
    if case.kind == "same-thread-long-twins" {
        return check_long_twins(case);
    }
    let mark = case.ops.iter().position(|o| *o == Op::Mark).unwrap_or(case.ops.len());
    let hist = &case.ops[..mark];
    let cont: Vec<Op> = case.ops[(mark + 1).min(case.ops.len())..].to_vec();
    let a = match mk(case, rec) {
        Ok(i) => i,
        Err(f) => return Some(f),
    };
    // isolated twin: same parameters, same history, nothing interleaved
    let r = match mk(case, rec) {
        Ok(i) => i,
        Err(f) => return Some(f),
    };
    // an unrelated instance fed different data in between
    let d = match mk(case, rec) {
        Ok(i) => i,
        Err(f) => return Some(f),
    };
    let mut outs_a = vec![];
    for (i, op) in hist.iter().enumerate() {
        let oa = match feed(rec, a, op) {
            Some(Some(o)) => o,
            Some(None) => return fail(case, "panic", format!("panic at history op {}", i)),
            None => continue,
        };
        // interleave: the unrelated instance gets a perturbed op
        let pert = match op {
            Op::Next(x) => Op::Next(x * 1.5 + 1.0),
            Op::Bar(b) => Op::Bar(ind::B { o: b.o + 1.0, h: b.h * 2.0 + 1.0, l: b.l * 0.5, c: b.c + 0.25, v: b.v + 3.0 }),
            o => o.clone(),
        };
        let _ = feed(rec, d, &pert);
        outs_a.push(oa);
    }
    let mut k = 0;
    for (i, op) in hist.iter().enumerate() {
        let or = match feed(rec, r, op) {
            Some(Some(o)) => o,
            Some(None) => return fail(case, "panic", format!("twin panicked at history op {}", i)),
            None => continue,
        };
        if !same(&or, &outs_a[k]) {
            return fail(case, "nondeterministic", format!("history op {}: instance interleaved with another gives {:?}, isolated twin gives {:?}", i, outs_a[k], or));
        }
        k += 1;
    }
    // clone, then disturb the clone with different inputs: the original must not notice
    let c = rec.clone_(a);
    for op in cont.iter().rev() {
        let pert = match op {
            Op::Next(x) => Op::Next(-x + 7.0),
            Op::Bar(b) => Op::Bar(ind::B { o: b.c, h: b.h + 5.0, l: b.l - 5.0, c: b.o, v: b.v * 2.0 + 1.0 }),
            o => o.clone(),
        };
        let _ = feed(rec, c, &pert);
    }
    let c2 = rec.clone_(a);
    for (i, op) in cont.iter().enumerate() {
        let oa = match feed(rec, a, op) {
            Some(Some(o)) => o,
            Some(None) => return fail(case, "panic", format!("panic at continuation op {}", i)),
            None => continue,
        };
        let oc = match feed(rec, c2, op) {
            Some(Some(o)) => o,
            _ => return fail(case, "panic", format!("clone panicked at continuation op {}", i)),
        };
        let or = match feed(rec, r, op) {
            Some(Some(o)) => o,
            _ => return fail(case, "panic", format!("twin panicked at continuation op {}", i)),
        };
        if !same(&oa, &oc) {
            return fail(case, "clone-differs", format!("continuation op {}: original gives {:?}, clone gives {:?}", i, oa, oc));
        }
        if !same(&oa, &or) {
            return fail(case, "clone-disturbs-original", format!("continuation op {}: original (whose other clone was fed meanwhile) gives {:?}, isolated twin gives {:?}", i, oa, or));
        }
    }
    None
}

/// the destination's parameters of a clone-from case: extra = [dst periods…, dst multipliers…]
pub fn dst_params(case: &Case) -> (Vec<usize>, Vec<f64>) {
    let (np, nm) = ind::arity(&case.ind).unwrap();
    let ps: Vec<usize> = case.extra.iter().take(np).map(|x| *x as usize).collect();
    let ms: Vec<f64> = case.extra.iter().skip(np).take(nm).copied().collect();
    (ps, ms)
}

/// kind clone-from: ops = <destination's own history> Mark <source's history> Mark <continuation>.
/// `Clone::clone_from` INTO AN ALREADY USED instance (same or different parameters) must give a clone like any
/// other: same parameters / Display as the source, bit-identical outputs for every continuation, independent.
fn check_clone_from(case: &Case, rec: &mut Rec) -> Option<Failure> {
    let marks: Vec<usize> = case.ops.iter().enumerate().filter(|(_, o)| **o == Op::Mark).map(|(i, _)| i).collect();
    if marks.len() < 2 {
        return None;
    }
    let hist_d = &case.ops[..marks[0]];
    let hist_a = &case.ops[marks[0] + 1..marks[1]];
    let cont = &case.ops[marks[1] + 1..];
    let (dps, dms) = dst_params(case);
    // source and its isolated twin
    let a = match mk(case, rec) {
        Ok(i) => i,
        Err(f) => return Some(f),
    };
    let twin = match mk(case, rec) {
        Ok(i) => i,
        Err(f) => return Some(f),
    };
    for (i, op) in hist_a.iter().enumerate() {
        if let Some(None) = feed(rec, a, op) {
            return fail(case, "panic", format!("panic at source history op {}", i));
        }
        if let Some(None) = feed(rec, twin, op) {
            return fail(case, "panic", format!("twin panicked at source history op {}", i));
        }
    }
    // two destinations with their own parameters and history
    let mut dsts = vec![];
    for _ in 0..2 {
        let (d, res) = rec.new_ind(&case.ind, &dps, &dms);
        if res != crate::rec::NewRes::Ok {
            return fail(case, "ctor", format!("constructor returned {:?} for {:?} {:?}", res, dps, dms));
        }
        for (i, op) in hist_d.iter().enumerate() {
            if let Some(None) = feed(rec, d, op) {
                return fail(case, "panic", format!("panic at destination history op {}", i));
            }
        }
        dsts.push(d);
    }
    let (d1, d2) = (dsts[0], dsts[1]);
    for d in [d1, d2] {
        if !rec.clone_from(d, a) {
            return fail(case, "panic", "clone_from panicked".into());
        }
        let (pa, ma, da) = (rec.period(a), rec.multiplier(a), rec.display(a));
        let (pd, md, dd) = (rec.period(d), rec.multiplier(d), rec.display(d));
        if pa != pd || da != dd || ma.map(|x| x.to_bits()) != md.map(|x| x.to_bits()) {
            return fail(case, "clone-from-params", format!("after dst.clone_from(&src) (dst built with {:?} {:?} and fed {} ops, src fed {} ops) the source has {:?}/{:?}/{} but the copy {:?}/{:?}/{}", dps, dms, hist_d.len(), hist_a.len(), pa, ma, da, pd, md, dd));
        }
    }
    // the second copy is fed a DIFFERENT stream first: neither the source nor the first copy may notice
    for op in cont.iter().rev() {
        let pert = match op {
            Op::Next(x) => Op::Next(-x + 7.0),
            Op::Bar(b) => Op::Bar(ind::B { o: b.c, h: b.h + 5.0, l: b.l - 5.0, c: b.o, v: b.v * 2.0 + 1.0 }),
            o => o.clone(),
        };
        let _ = feed(rec, d2, &pert);
    }
    for (i, op) in cont.iter().enumerate() {
        let oa = match feed(rec, a, op) {
            Some(Some(o)) => o,
            Some(None) => return fail(case, "panic", format!("panic at continuation op {}", i)),
            None => continue,
        };
        let od = match feed(rec, d1, op) {
            Some(Some(o)) => o,
            _ => return fail(case, "panic", format!("clone_from copy panicked at continuation op {} ({:?})", i, op)),
        };
        let ot = match feed(rec, twin, op) {
            Some(Some(o)) => o,
            _ => return fail(case, "panic", format!("twin panicked at continuation op {}", i)),
        };
        if !same(&oa, &od) {
            return fail(case, "clone-from-differs", format!("continuation op {}: source gives {:?}, the instance (built with {:?} {:?}, fed {} ops) that was overwritten by clone_from(&source) gives {:?}", i, oa, dps, dms, hist_d.len(), od));
        }
        if !same(&oa, &ot) {
            return fail(case, "clone-disturbs-original", format!("continuation op {}: source (whose other clone_from copy was fed meanwhile) gives {:?}, isolated twin gives {:?}", i, oa, ot));
        }
    }
    None
}

fn drive(inst: &mut Ind, op: &Op) -> Vec<u64> {
    bits(&match op {
        Op::Next(x) => {
            if inst.has_next() {
                inst.next(*x)
            } else {
                inst.next_bar(&ind::B::flat(*x))
            }
        }
        Op::Bar(b) => inst.next_bar(b),
        Op::Reset => {
            inst.reset();
            vec![]
        }
        Op::Mark => vec![],
    })
}

/// kind same-thread-long-twins: extra = [seed, len].  Two instances with the same parameters are fed the SAME long stream
/// (regenerated from the seed) ONE AFTER THE OTHER on the same thread, a third one on a fresh thread: all outputs must
/// agree bit for bit.  A counter shared between instances (thread-local / static "refresh every N updates" state) makes
/// the second instance's refresh fall at another step than the first one's.
fn check_long_twins(case: &Case) -> Option<Failure> {
    let seed = case.extra[0] as u64;
    let len = case.extra[1] as usize;
    let mk_ = || Ind::create(&case.ind, &case.ps, &case.ms).unwrap().unwrap();
    let bars = !mk_().has_next();
    let run = move |mut inst: Ind| -> Vec<u64> {
        // one 64-bit FNV hash per 4096 steps (2^20 outputs are not kept)
        let mut rng = crate::rng::Rng::new(seed);
        let mut hs = vec![];
        let mut h: u64 = 0xcbf29ce484222325;
        let mut x = 100.0f64;
        for i in 0..len {
            x = (x * (1.0 + (rng.unit() - 0.5) * 0.02)).max(1.0).min(1e4);
            let out = if bars {
                let b = ind::B { o: x, h: x * (1.0 + rng.unit() * 0.01), l: x * (1.0 - rng.unit() * 0.01), c: x, v: 100.0 * (0.5 + rng.unit()) };
                inst.next_bar(&b)
            } else {
                inst.next(x)
            };
            for v in out {
                let bts = if v.is_nan() { 0x7ff8_0000_0000_0000u64 } else { v.to_bits() };
                h = (h ^ bts).wrapping_mul(0x100000001b3);
            }
            if i % 4096 == 4095 || i + 1 == len {
                hs.push(h);
            }
        }
        hs
    };
    let body = move || {
        let a = run(mk_());
        let b = run(mk_());
        (a, b)
    };
    let (a, b) = match std::thread::scope(|s| s.spawn(body).join()) {
        Ok(o) => o,
        Err(_) => return fail(case, "panic", "panic in the long twin run".into()),
    };
    let v = match std::thread::scope(|s| s.spawn(move || run(mk_())).join()) {
        Ok(o) => o,
        Err(_) => return fail(case, "panic", "panic on the new thread".into()),
    };
    for (who, o) in [("the SECOND instance fed on the same thread", &b), ("an instance fed on a fresh thread", &v)] {
        if let Some(i) = (0..a.len()).find(|i| o[*i] != a[*i]) {
            return fail(case, "depends-on-other-instances", format!("{} diverges from the first one within steps {}..{} of the same {}-step stream (same parameters, bit-for-bit comparison)", who, i * 4096, (i + 1) * 4096, len));
        }
    }
    None
}

/// kind drop-then-construct: ops = <stream of a short-lived instance> Mark <common stream>.
/// W is built first and kept; X is built, fed its stream and DROPPED; then Y and Z are built on the same thread
/// (and V on another new thread) with the same parameters: W, Y, Z, V fed the common stream must agree bit for bit —
/// nothing of a dead instance may reach a later one (no pool / cache / thread-local scratch state).
/// Driven directly (windows of >= 4096 slots: not logged for the model replay).
fn check_drop_construct(case: &Case) -> Option<Failure> {
    let mark = case.ops.iter().position(|o| *o == Op::Mark).unwrap_or(case.ops.len());
    let xs = &case.ops[..mark];
    let common: Vec<Op> = case.ops[(mark + 1).min(case.ops.len())..].to_vec();
    let mk_ = || Ind::create(&case.ind, &case.ps, &case.ms).unwrap().unwrap();
    let run = |mut inst: Ind, ops: &[Op]| -> Vec<Vec<u64>> { ops.iter().map(|op| drive(&mut inst, op)).collect() };
    // the whole experiment runs on a thread of its own: whatever per-thread state earlier cases of this process
    // left behind cannot influence it (the case replays the same way in a new process)
    let body = || {
        let w = mk_();
        // several generations of short-lived instances (a pool may hand a buffer out only the second time round)
        for gen in 0..2 {
            let mut x = mk_();
            for op in xs.iter().skip(gen) {
                drive(&mut x, op);
            }
            drop(x);
        }
        let y = mk_();
        let z = mk_();
        (run(w, &common), run(y, &common), run(z, &common))
    };
    let (out_w, out_y, out_z) = match std::thread::scope(|s| s.spawn(body).join()) {
        Ok(o) => o,
        Err(_) => return fail(case, "panic", "panic in the drop-then-construct experiment".into()),
    };
    let out_v: Vec<Vec<u64>> = match std::thread::scope(|s| s.spawn(|| run(mk_(), &common)).join()) {
        Ok(o) => o,
        Err(_) => return fail(case, "panic", "panic on the new thread".into()),
    };
    for (who, o) in [("the first instance built after an instance of the same parameters was dropped", &out_y), ("the second instance built after the drop", &out_z), ("an instance built on a new thread", &out_v)] {
        if let Some(i) = (0..common.len()).find(|i| o[*i] != out_w[*i]) {
            let f = |v: &Vec<u64>| -> Vec<f64> { v.iter().map(|b| f64::from_bits(*b)).collect() };
            return fail(case, "depends-on-dropped-instance", format!("common stream op {} ({:?}): {} gives {:?}, an instance built before (same parameters, same stream) gives {:?}", i, common[i], who, f(&o[i]), f(&out_w[i])));
        }
    }
    None
}

/// distinct instances used concurrently from up to 16 threads vs sequential replays
fn check_threads(case: &Case) -> Option<Failure> {
    let nthreads = 16usize;
    let ops: Vec<Op> = case.ops.iter().filter(|o| **o != Op::Mark).cloned().collect();
    let run = |k: usize| -> Vec<Vec<u64>> {
        let mut inst = Ind::create(&case.ind, &case.ps, &case.ms).unwrap().unwrap();
        let mut outs = vec![];
        for i in 0..ops.len() {
            // each thread works on a different rotation of the stream
            let op = &ops[(i + k * 3) % ops.len()];
            let o = match op {
                Op::Next(x) => {
                    if inst.has_next() {
                        inst.next(*x)
                    } else {
                        inst.next_bar(&ind::B::flat(*x))
                    }
                }
                Op::Bar(b) => inst.next_bar(b),
                Op::Reset => {
                    inst.reset();
                    vec![]
                }
                Op::Mark => vec![],
            };
            outs.push(bits(&o));
        }
        outs
    };
    let seq: Vec<Vec<Vec<u64>>> = (0..nthreads).map(|k| run(k)).collect();
    let par: Vec<Vec<Vec<u64>>> = std::thread::scope(|s| {
        let hs: Vec<_> = (0..nthreads).map(|k| s.spawn(move || run(k))).collect();
        hs.into_iter().map(|h| h.join().unwrap()).collect()
    });
    for k in 0..nthreads {
        if seq[k] != par[k] {
            return fail(case, "thread-dependent", format!("instance {} gives different outputs when {} instances run concurrently", k, nthreads));
        }
    }
    None
}

pub fn generate(r: &mut Runner) {
    // all merges are covered structurally: original/clone/unrelated instance are interleaved op by op,
    // and the clone is disturbed in reverse order before the original continues
    let cases = if r.tier == Tier::Quick { 880 } else { 22000 };
    r.log_every = if r.tier == Tier::Quick { 13 } else { 211 };
    for i in 0..cases {
        let name = ind::NAMES[i % ind::NAMES.len()];
        let maxp = if r.rng.chance(0.33) { 5 } else { 64 };
        let (ps, ms) = crate::diff::params_for(&mut r.rng, name, maxp);
        let mx = ps.iter().copied().max().unwrap_or(1);
        let hl = if r.rng.chance(0.25) { r.rng.range(0, 6) } else { r.rng.range(0, 300) };
        let scale = *r.rng.pick(&[1.0, 100.0, 1e6]);
        let mut c = Case::new("C05", "clone-interleave", name, &ps, &ms);
        let wp = if r.rng.chance(0.2) { 0.02 } else { 0.0 };
        c.ops = super::c04::history(r, name, hl, wp, scale);
        c.ops.push(Op::Mark);
        let cl = mx + 2 + r.rng.below(10);
        c.ops.extend(super::c04::history(r, name, cl, 0.0, scale));
        r.run(c, hl > 0);
    }
    // big windows, clone taken DURING WARM-UP (a clone that copies only a 'filled prefix' of a big buffer, or
    // re-derives state from it, is only wrong there), continuation long enough to wrap back to every slot
    let rounds = if r.tier == Tier::Quick { 1 } else { 10 };
    for _ in 0..rounds {
        for name in ind::NAMES {
            let (mut ps, ms) = crate::diff::params_for(&mut r.rng, name, 64);
            if ps.is_empty() {
                continue;
            }
            let big = r.rng.range(513, 1100);
            for p in ps.iter_mut() {
                *p = big;
            }
            for hl in [2usize, 3, 5, big / 2, big - 1] {
                let scale = *r.rng.pick(&[1.0, 100.0, 1e6]);
                let mut c = Case::new("C05", "clone-in-warmup-big-window", name, &ps, &ms);
                // no reset() in this stage: a reset before the ring wraps would hide what the clone lost
                c.ops = super::c04::history(r, name, hl, 0.0, scale).into_iter().filter(|o| *o != Op::Reset).collect();
                c.ops.push(Op::Mark);
                let cl = big + 3 + r.rng.below(10);
                c.ops.extend(super::c04::history(r, name, cl, 0.0, scale).into_iter().filter(|o| *o != Op::Reset));
                r.run(c, true);
            }
        }
    }
    // Clone::clone_from into an ALREADY USED instance (same / different parameters), incl. the rollback idiom
    // (source still in warm-up or fresh, destination further along)
    let cf = if r.tier == Tier::Quick { 660 } else { 11000 };
    r.log_every = if r.tier == Tier::Quick { 13 } else { 211 };
    for i in 0..cf {
        let name = ind::NAMES[i % ind::NAMES.len()];
        let maxp = if r.rng.chance(0.4) { 5 } else { 64 };
        let (ps, ms) = crate::diff::params_for(&mut r.rng, name, maxp);
        let mx = ps.iter().copied().max().unwrap_or(1);
        let (dps, dms) = if r.rng.chance(0.5) { (ps.clone(), ms.clone()) } else { crate::diff::params_for(&mut r.rng, name, maxp) };
        let dmx = dps.iter().copied().max().unwrap_or(1);
        let scale = *r.rng.pick(&[1.0, 100.0, 1e6]);
        let mut c = Case::new("C05", "clone-from", name, &ps, &ms);
        c.extra = dps.iter().map(|p| *p as f64).chain(dms.iter().copied()).collect();
        // destination: anything from fresh to several wraps of ITS window; source: half of the time still in warm-up
        let hd = if r.rng.chance(0.15) { 0 } else { r.rng.range(1, 3 * dmx + 3) };
        let ha = if r.rng.chance(0.5) { r.rng.range(0, mx) } else { r.rng.range(0, 3 * mx + 3) };
        let wp = if r.rng.chance(0.2) { 0.05 } else { 0.0 };
        let nores = r.rng.chance(0.7);
        c.ops = super::c04::history(r, name, hd, wp, scale).into_iter().filter(|o| !(nores && *o == Op::Reset)).collect();
        c.ops.push(Op::Mark);
        c.ops.extend(super::c04::history(r, name, ha, wp, scale).into_iter().filter(|o| !(nores && *o == Op::Reset)));
        c.ops.push(Op::Mark);
        let cl = mx.max(dmx) + 2 + r.rng.below(10);
        c.ops.extend(super::c04::history(r, name, cl, 0.0, scale).into_iter().filter(|o| !(nores && *o == Op::Reset)));
        r.run(c, hd > 0);
    }
    // an instance is DROPPED, then instances with the same parameters are built on the same thread: small periods and
    // windows of >= 4096 slots (allocation sizes at which pooling / recycling of buffers becomes attractive)
    r.log_every = u64::MAX;
    let big: &[usize] = if r.tier == Tier::Quick { &[4096, 5000, 8192] } else { &[4096, 4097, 5000, 8192, 16384, 65536] };
    for name in ind::NAMES {
        let (np, _) = ind::arity(name).unwrap();
        // per-step cost O(period)
        let slow = matches!(*name, "MeanAbsoluteDeviation" | "CommodityChannelIndex" | "EfficiencyRatio");
        let mut periods: Vec<usize> = vec![r.rng.range(1, 8), r.rng.range(9, 300)];
        periods.extend(big.iter().copied().filter(|p| !(slow && *p > 8192)));
        for p in periods {
            if np == 0 && p > 8 {
                continue;
            }
            let (mut ps, ms) = crate::diff::params_for(&mut r.rng, name, 16);
            for q in ps.iter_mut() {
                *q = p;
            }
            // the short-lived instance sees 1 input, a few, half a window, or more than a window
            for xl in [1usize, r.rng.range(2, 9), p / 2 + 1, p + 3] {
                if slow && xl > 5000 {
                    continue;
                }
                let scale = *r.rng.pick(&[1.0, 100.0, 1e6]);
                let mut c = Case::new("C05", "drop-then-construct", name, &ps, &ms);
                c.ops = super::c04::history(r, name, xl, 0.0, scale).into_iter().filter(|o| *o != Op::Reset).collect();
                c.ops.push(Op::Mark);
                // long enough to come back to every slot of the window (cheap indicators), else into warm-up only
                let cl = if slow && p > 300 { 40 } else { p + 3 + r.rng.below(10) };
                c.ops.extend(super::c04::history(r, name, cl, 0.0, scale).into_iter().filter(|o| *o != Op::Reset));
                r.run(c, true);
            }
        }
    }
    // long twins on one thread (2^20 + 4200 steps each; the O(period)-per-step indicators get a small period)
    for name in ind::NAMES {
        let (np, nm) = ind::arity(name).unwrap();
        let ps: Vec<usize> = (0..np).map(|j| [7usize, 13, 5][j % 3]).collect();
        let ms: Vec<f64> = (0..nm).map(|_| 2.0).collect();
        let mut c = Case::new("C05", "same-thread-long-twins", name, &ps, &ms);
        let len = if r.tier == Tier::Quick { (1usize << 20) + 4200 } else { (1usize << 22) + 4200 };
        c.extra = vec![(r.rng.u64() % (1 << 50)) as f64, len as f64];
        r.steps += 3 * len as u64;
        r.run(c, true);
    }
    let tcases = if r.tier == Tier::Quick { 22 } else { 220 };
    for i in 0..tcases {
        let name = ind::NAMES[i % ind::NAMES.len()];
        let (ps, ms) = crate::diff::params_for(&mut r.rng, name, 32);
        let mut c = Case::new("C05", "threads16", name, &ps, &ms);
        c.ops = super::c04::history(r, name, 400, 0.0, 100.0);
        r.run(c, true);
    }
}

pub const RULE: &str = "per case: an instance A is fed a history while an unrelated instance of the same type is fed perturbed data between every two calls; an isolated twin replays the same history (outputs must be bit-identical); A is cloned, the clone is fed a *different* stream, A is cloned again and A, the second clone and the isolated twin are fed the continuation alternately (all bit-identical). kind clone-in-warmup-big-window: periods 513..1100, clone after 2, 3, 5, period/2 and period-1 inputs, continuation longer than the period. kind clone-from: Clone::clone_from INTO AN ALREADY USED instance: two destinations built with the same (half of the cases) or different parameters and fed their own history (0..3n+3 inputs) are overwritten with dst.clone_from(&A), A being fresh / in warm-up (half of the cases) / past several wraps; period, multiplier and Display of the copy must equal A's, one copy is fed a different stream, then A, the other copy and A's isolated twin are fed a continuation longer than both periods (all bit-identical). kind drop-then-construct: an instance W is built and kept, two generations of instances with the same parameters are built, fed 1 / a few / period/2+1 / period+3 inputs and DROPPED, then Y and Z are built on the same thread and V on a new thread; W, Y, Z, V fed the same stream (longer than the period; 40 inputs for the O(period)-per-step indicators at big periods) must agree bit for bit; periods: two random ones <= 300 and 4096, 5000, 8192 (thorough: also 4097, 16384, 65536). kind same-thread-long-twins: two instances fed the same 2^20+4200-step stream (thorough 2^22+) one after the other on ONE thread and a third on a fresh thread, all outputs equal (hash per 4096 steps) — a counter shared between instances shows here. kind threads16: 16 distinct instances run concurrently on 16 threads vs the same 16 runs sequentially. Non-trivial = non-empty history before the clone point (clone-from: the destination was used before). NaN compares equal to NaN.";
