//! C05 — clones and separate instances are independent and deterministic.
use super::util::*;
use crate::case::{Case, Failure, Op};
use crate::ind::{self, Ind};
use crate::rec::Rec;
use crate::runner::{Runner, Tier};

fn bits(v: &[f64]) -> Vec<u64> {
    v.iter().map(|x| if x.is_nan() { 0x7ff8_0000_0000_0000 } else { x.to_bits() }).collect()
}

fn same(a: &[f64], b: &[f64]) -> bool {
    bits(a) == bits(b)
}

pub fn check(case: &Case, rec: &mut Rec) -> Option<Failure> {
    if case.kind.starts_with("threads") {
        return check_threads(case);
    }
    let mark = case.ops.iter().position(|o| *o == Op::Mark).unwrap_or(case.ops.len());
    let hist = &case.ops[..mark];
    let cont: Vec<Op> = case.ops[(mark + 1).min(case.ops.len())..].to_vec();
    let a = match mk(case, rec) {
        Ok(i) => i,
        Err(f) => return Some(f),
    };
    // isolated twin: same parameters, same history, nothing interleaved
    let r = match mk(case, rec) {
        Ok(i) => i,
        Err(f) => return Some(f),
    };
    // an unrelated instance fed different data in between
    let d = match mk(case, rec) {
        Ok(i) => i,
        Err(f) => return Some(f),
    };
    let mut outs_a = vec![];
    for (i, op) in hist.iter().enumerate() {
        let oa = match feed(rec, a, op) {
            Some(Some(o)) => o,
            Some(None) => return fail(case, "panic", format!("panic at history op {}", i)),
            None => continue,
        };
        // interleave: the unrelated instance gets a perturbed op
        let pert = match op {
            Op::Next(x) => Op::Next(x * 1.5 + 1.0),
            Op::Bar(b) => Op::Bar(ind::B { o: b.o + 1.0, h: b.h * 2.0 + 1.0, l: b.l * 0.5, c: b.c + 0.25, v: b.v + 3.0 }),
            o => o.clone(),
        };
        let _ = feed(rec, d, &pert);
        outs_a.push(oa);
    }
    let mut k = 0;
    for (i, op) in hist.iter().enumerate() {
        let or = match feed(rec, r, op) {
            Some(Some(o)) => o,
            Some(None) => return fail(case, "panic", format!("twin panicked at history op {}", i)),
            None => continue,
        };
        if !same(&or, &outs_a[k]) {
            return fail(case, "nondeterministic", format!("history op {}: instance interleaved with another gives {:?}, isolated twin gives {:?}", i, outs_a[k], or));
        }
        k += 1;
    }
    // clone, then disturb the clone with different inputs: the original must not notice
    let c = rec.clone_(a);
    for op in cont.iter().rev() {
        let pert = match op {
            Op::Next(x) => Op::Next(-x + 7.0),
            Op::Bar(b) => Op::Bar(ind::B { o: b.c, h: b.h + 5.0, l: b.l - 5.0, c: b.o, v: b.v * 2.0 + 1.0 }),
            o => o.clone(),
        };
        let _ = feed(rec, c, &pert);
    }
    let c2 = rec.clone_(a);
    for (i, op) in cont.iter().enumerate() {
        let oa = match feed(rec, a, op) {
            Some(Some(o)) => o,
            Some(None) => return fail(case, "panic", format!("panic at continuation op {}", i)),
            None => continue,
        };
        let oc = match feed(rec, c2, op) {
            Some(Some(o)) => o,
            _ => return fail(case, "panic", format!("clone panicked at continuation op {}", i)),
        };
        let or = match feed(rec, r, op) {
            Some(Some(o)) => o,
            _ => return fail(case, "panic", format!("twin panicked at continuation op {}", i)),
        };
        if !same(&oa, &oc) {
            return fail(case, "clone-differs", format!("continuation op {}: original gives {:?}, clone gives {:?}", i, oa, oc));
        }
        if !same(&oa, &or) {
            return fail(case, "clone-disturbs-original", format!("continuation op {}: original (whose other clone was fed meanwhile) gives {:?}, isolated twin gives {:?}", i, oa, or));
        }
    }
    None
}

/// distinct instances used concurrently from up to 16 threads vs sequential replays
fn check_threads(case: &Case) -> Option<Failure> {
    let nthreads = 16usize;
    let ops: Vec<Op> = case.ops.iter().filter(|o| **o != Op::Mark).cloned().collect();
    let run = |k: usize| -> Vec<Vec<u64>> {
        let mut inst = Ind::create(&case.ind, &case.ps, &case.ms).unwrap().unwrap();
        let mut outs = vec![];
        for i in 0..ops.len() {
            // each thread works on a different rotation of the stream
            let op = &ops[(i + k * 3) % ops.len()];
            let o = match op {
                Op::Next(x) => {
                    if inst.has_next() {
                        inst.next(*x)
                    } else {
                        inst.next_bar(&ind::B::flat(*x))
                    }
                }
                Op::Bar(b) => inst.next_bar(b),
                Op::Reset => {
                    inst.reset();
                    vec![]
                }
                Op::Mark => vec![],
            };
            outs.push(bits(&o));
        }
        outs
    };
    let seq: Vec<Vec<Vec<u64>>> = (0..nthreads).map(|k| run(k)).collect();
    let par: Vec<Vec<Vec<u64>>> = std::thread::scope(|s| {
        let hs: Vec<_> = (0..nthreads).map(|k| s.spawn(move || run(k))).collect();
        hs.into_iter().map(|h| h.join().unwrap()).collect()
    });
    for k in 0..nthreads {
        if seq[k] != par[k] {
            return fail(case, "thread-dependent", format!("instance {} gives different outputs when {} instances run concurrently", k, nthreads));
        }
    }
    None
}

pub fn generate(r: &mut Runner) {
    // all merges are covered structurally: original/clone/unrelated instance are interleaved op by op,
    // and the clone is disturbed in reverse order before the original continues
    let cases = if r.tier == Tier::Quick { 880 } else { 22000 };
    r.log_every = if r.tier == Tier::Quick { 13 } else { 211 };
    for i in 0..cases {
        let name = ind::NAMES[i % ind::NAMES.len()];
        let maxp = if r.rng.chance(0.33) { 5 } else { 64 };
        let (ps, ms) = crate::diff::params_for(&mut r.rng, name, maxp);
        let mx = ps.iter().copied().max().unwrap_or(1);
        let hl = if r.rng.chance(0.25) { r.rng.range(0, 6) } else { r.rng.range(0, 300) };
        let scale = *r.rng.pick(&[1.0, 100.0, 1e6]);
        let mut c = Case::new("C05", "clone-interleave", name, &ps, &ms);
        let wp = if r.rng.chance(0.2) { 0.02 } else { 0.0 };
        c.ops = super::c04::history(r, name, hl, wp, scale);
        c.ops.push(Op::Mark);
        let cl = mx + 2 + r.rng.below(10);
        c.ops.extend(super::c04::history(r, name, cl, 0.0, scale));
        r.run(c, hl > 0);
    }
    // big windows, clone taken DURING WARM-UP (a clone that copies only a 'filled prefix' of a big buffer, or
    // re-derives state from it, is only wrong there), continuation long enough to wrap back to every slot
    let rounds = if r.tier == Tier::Quick { 1 } else { 10 };
    for _ in 0..rounds {
        for name in ind::NAMES {
            let (mut ps, ms) = crate::diff::params_for(&mut r.rng, name, 64);
            if ps.is_empty() {
                continue;
            }
            let big = r.rng.range(513, 1100);
            for p in ps.iter_mut() {
                *p = big;
            }
            for hl in [2usize, 3, 5, big / 2, big - 1] {
                let scale = *r.rng.pick(&[1.0, 100.0, 1e6]);
                let mut c = Case::new("C05", "clone-in-warmup-big-window", name, &ps, &ms);
                // no reset() in this stage: a reset before the ring wraps would hide what the clone lost
                c.ops = super::c04::history(r, name, hl, 0.0, scale).into_iter().filter(|o| *o != Op::Reset).collect();
                c.ops.push(Op::Mark);
                let cl = big + 3 + r.rng.below(10);
                c.ops.extend(super::c04::history(r, name, cl, 0.0, scale).into_iter().filter(|o| *o != Op::Reset));
                r.run(c, true);
            }
        }
    }
    let tcases = if r.tier == Tier::Quick { 22 } else { 220 };
    for i in 0..tcases {
        let name = ind::NAMES[i % ind::NAMES.len()];
        let (ps, ms) = crate::diff::params_for(&mut r.rng, name, 32);
        let mut c = Case::new("C05", "threads16", name, &ps, &ms);
        c.ops = super::c04::history(r, name, 400, 0.0, 100.0);
        r.run(c, true);
    }
}

pub const RULE: &str = "per case: an instance A is fed a history while an unrelated instance of the same type is fed perturbed data between every two calls; an isolated twin replays the same history (outputs must be bit-identical); A is cloned, the clone is fed a *different* stream, A is cloned again and A, the second clone and the isolated twin are fed the continuation alternately (all bit-identical). kind clone-in-warmup-big-window: periods 513..1100, clone after 2, 3, 5, period/2 and period-1 inputs, continuation longer than the period. kind threads16: 16 distinct instances run concurrently on 16 threads vs the same 16 runs sequentially. Non-trivial = non-empty history before the clone point. NaN compares equal to NaN.";
